-- feasibility probe: specifier resolution (normal pass only) + order-dependence witness
structure Spec where
  name : String
  prios : List (String × Nat)
deriving DecidableEq, Repr

inductive Res where
  | ok (assign : List (String × String × Nat))   -- prop ↦ (spec name, prio)
  | tie (prop : String)
deriving DecidableEq, Repr

def stepProp (acc : List (String × String × Nat)) (s : Spec) (pp : String × Nat) :
    Except String (List (String × String × Nat)) :=
  match acc.find? (·.1 == pp.1) with
  | none => .ok (acc ++ [(pp.1, s.name, pp.2)])
  | some (_, _, cur) =>
    if pp.2 == cur then .error pp.1
    else if pp.2 < cur then .ok (acc.map fun e => if e.1 == pp.1 then (pp.1, s.name, pp.2) else e)
    else .ok acc

def resolveNormal (specs : List Spec) : Res :=
  let r := specs.foldlM (fun acc s => s.prios.foldlM (fun a pp => stepProp a s pp) acc) ([] : List (String × String × Nat))
  match r with
  | .ok a => .ok a
  | .error p => .tie p

def vis : Spec := ⟨"Visible", [("position", 3), ("_observingEntity", 1)]⟩
def nvis : Spec := ⟨"NotVisible", [("position", 3), ("_nonObservingEntity", 1)]⟩
def at_ : Spec := ⟨"At", [("position", 1)]⟩

theorem order_dependent_witness :
    resolveNormal [vis, nvis, at_] ≠ resolveNormal [vis, at_, nvis] := by decide

#eval resolveNormal [vis, nvis, at_]
#eval resolveNormal [vis, at_, nvis]
#print axioms order_dependent_witness
