import scenic, traceback
from scenic.core.simulators import DummySimulator
code = '''
behavior B():
    invariant: self.position.x < 100
    try:
        wait
        wait
    interrupt when False:
        wait
ego = new Object with behavior B
'''
try:
    sc = scenic.scenarioFromString(code); scene,_ = sc.generate()
    sim = DummySimulator().simulate(scene, maxSteps=4)
    print("ok", sim)
except Exception as e:
    traceback.print_exc(limit=3)
