import scenic
for spec in ["visible from a, not visible from b, at (1,2)", "visible from a, at (1,2), not visible from b", "at (1,2), visible from a, not visible from b"]:
    code = f'''
workspace = Workspace(RectangularRegion((0,0), 0, 100, 100))
a = new Point at (0,0)
b = new Point at (5,5)
ego = new Object {spec}
'''
    try:
        sc = scenic.scenarioFromString(code)
        print(spec, "-> OK", sc.egoObject.position)
    except Exception as e:
        print(spec, "->", type(e).__name__, e)
