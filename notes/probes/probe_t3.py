import scenic
from scenic.core.simulators import DummySimulator
code = '''
class Foo:
    foo: 0
    bar: 0
scenario Sub():
    setup:
        override ego with foo 1
        override ego with bar 2
    compose:
        wait
        wait
scenario Main():
    setup:
        ego = new Foo
        record (ego.foo, ego.bar) as fb
    compose:
        do Sub()
        wait
        wait
'''
sc = scenic.scenarioFromString(code, scenario='Main')
scene,_ = sc.generate()
sim = DummySimulator().simulate(scene, maxSteps=10)
print(sim.result.records['fb'])
print(scene.egoObject.foo, scene.egoObject.bar)
