import scenic, random
from scenic.core.simulators import DummySimulator
code = '''
tab = [True, True, False, True, True]
scenario Sub():
    setup:
        ego = new Object
    compose:
        require always tab[simulation().currentTime]
        wait
        wait
        wait
        wait
scenario Main():
    compose:
        do Sub()
'''
sc = scenic.scenarioFromString(code, scenario='Main')
scene,_ = sc.generate()
sim = DummySimulator().simulate(scene, maxSteps=10)
print("result:", sim, sim and sim.result.terminationReason, sim and sim.currentTime)
