import scenic, math, random, traceback
from scenic.core.pruning import relativeHeadingRange
from scenic.core.geometry import normalizeAngle
try:
    code = '''
workspace = Workspace(RectangularRegion((0,0), 0, 100, 100))
a = new Point at (0,-20,0)
b = new Point at (0, 20,0)
wall1 = new Object at (0,-10,0), with width 30, with length 1, with height 30
wall2 = new Object at (0, 10,0), with width 30, with length 1, with height 30
ego = new Object at (0,-5,0), visible from a
o2 = new Object at (0, 5, 0), visible from b
'''
    sc = scenic.scenarioFromString(code)
    vr = [r for r in sc.defaultRequirements if type(r).__name__=='VisibilityRequirement']
    for r in vr: print(r.source, '->', r.target, 'occluders:', len(r.potential_occluders))
    try:
        scene, n = sc.generate(maxIterations=5); print("generated in", n)
    except Exception as e: print(type(e).__name__, e)
except Exception: traceback.print_exc()
print("RH range base=3.0 target=-3.0:", relativeHeadingRange(3.0,0,0,-3.0,0,0), "true RH:", normalizeAngle(-3.0-3.0))
import ast
from scenic.syntax.relations import RequirementMatcher
class Q: pass
m = RequirementMatcher({'q': 1})
def atom(node): return 'T' if isinstance(node, ast.Name) and node.id=='Q' else None
for src in ['5 != Q', 'Q != 5', '5 < Q', 'Q is 5', '3 < Q != 7', 'abs(Q-2) <= 1', '1 >= abs(2-Q)', 'Q in 5']:
    node = ast.parse(src, mode='eval').body
    print(src, '->', m.matchBounds(node, atom))
