import math, random, io, traceback
import scenic
from scenic.core.distributions import Range, DiscreteRange, Options
from scenic.core.vectors import Vector, Orientation
from scenic.core.regions import *
from scenic.core.object_types import OrientedPoint, Object, Point
from scenic.core.serialization import Serializer, SerializationError, writeInt, readInt
def section(n): print("\n==", n)
try:
    section("floordiv identity")
    x = Range(0.2, 0.8); y = x // 1
    print("y is x:", y is x)
except Exception: traceback.print_exc()
try:
    section("truncated int")
    s = io.BytesIO(); writeInt(300, s); b = s.getvalue(); print(b)
    print(readInt(io.BytesIO(b[:-1])))
except Exception: traceback.print_exc()
try:
    section("scene truncation/corruption")
    sc = scenic.scenarioFromString("ego = new Object at (Range(0,1), 0)\nparam p = Uniform(300, 70000, 5)\nparam q = DiscreteRange(250, 300)")
    scene,_ = sc.generate()
    data = sc.sceneToBytes(scene)
    print(len(data), data)
    res = {}
    for k in range(len(data)):
        try:
            sc.sceneFromBytes(data[:k]); r = "ACCEPTED"
        except SerializationError: r = "SerErr"
        except Exception as e: r = type(e).__name__
        res.setdefault(r, []).append(k)
    print("truncation:", res)
    res = {}
    for k in range(10, len(data)):
        for v in (0, 1, 200, 255):
            d = bytearray(data); 
            if d[k]==v: continue
            d[k] = v
            try:
                sc.sceneFromBytes(bytes(d)); r = "ok"
            except SerializationError: r = "SerErr"
            except Exception as e: r = type(e).__name__
            res.setdefault(r, []).append((k,v))
    print("corruption:", {k:(len(v), v[:3]) for k,v in res.items()})
except Exception: traceback.print_exc()
try:
    section("projectVector nearest")
    box = BoxRegion(dimensions=(2,2,2), position=Vector(0,0,0))
    # surface region of box; project from point above nearer to top
    surf = box.getSurfaceRegion()
    for p in [Vector(0,0,5), Vector(0,0,-5), Vector(0.2,0.1,3)]:
        print(p, surf.projectVector(p, onDirection=Vector(0,0,1)))
except Exception: traceback.print_exc()
try:
    section("canSee point translation invariance")
    for pos in [Vector(0,0,0), Vector(10,0,0), Vector(10,10,0)]:
        op = OrientedPoint._with(position=pos, yaw=math.pi/2, viewAngles=(math.radians(60), math.radians(60)), visibleDistance=20)
        # facing yaw=pi/2 => heading west (-x). target 5 units ahead (west), and 5 units east (behind)
        ahead = pos + Vector(-5,0,0); behind = pos + Vector(5,0,0)
        print(pos, "ahead:", op.canSee(ahead), "behind:", op.canSee(behind), "region ahead:", op.visibleRegion.containsPoint(ahead), "region behind", op.visibleRegion.containsPoint(behind))
except Exception: traceback.print_exc()
try:
    section("rv_ltl nested until")
    import rv_ltl
    a = rv_ltl.Atomic(identifier="a"); b = rv_ltl.Atomic(identifier="b")
    f = rv_ltl.Next(rv_ltl.Until(a,b)); m = f.create_monitor()
    for st in [{"a":True,"b":False},{"a":False,"b":True},{"a":False,"b":False}]:
        m.update(st); print(m.evaluate())
except Exception: traceback.print_exc()
try:
    section("polygon z")
    A = PolygonalRegion([(0,0),(4,0),(4,4),(0,4)], z=5); B = PolygonalRegion([(2,2),(6,2),(6,6),(2,6)], z=5)
    I = A.intersect(B); U = A.union(B); D = A.difference(B)
    print("I.z", I.z, "U.z", U.z, "D.z", D.z)
    C = CircularRegion(Vector(0,0,5), 2)
    print("circ dist to (0,0,0):", C.distanceTo(Vector(0,0,0)), "to (5,0,5):", C.distanceTo(Vector(5,0,5)), " to (5,0,0)", C.distanceTo(Vector(5,0,0)))
    print("circ intersects other z:", C.intersects(CircularRegion(Vector(0,0,0), 2)))
except Exception: traceback.print_exc()
try:
    section("pointset x pointset")
    P = PointSetRegion("a", [(0,0),(1,1)]); Q = PointSetRegion("b", [(1,1),(2,2)])
    print(P.intersect(Q))
except RecursionError: print("RecursionError")
except Exception: traceback.print_exc()
try:
    section("sector circumcircle")
    S = SectorRegion(Vector(0,0), 10, 0, math.pi)
    print(S.circumcircle)
    pts = PointSetRegion("g", [(x,y) for x in range(-10,11,2) for y in range(-10,11,2)])
    I = pts.intersect(S)
    seen=set()
    random.seed(1)
    for i in range(2000):
        try: seen.add(tuple(I.uniformPointInner()))
        except Exception as e: seen.add(type(e).__name__)
    truth = {tuple(Vector(*p)) for p in pts.points if S.containsPoint(Vector(*p))}
    print(len(seen), len(truth), sorted(seen)[:5])
except Exception: traceback.print_exc()
