import ast
from scenic.syntax.parser import parse_string
from scenic.syntax.compiler import compileScenicAST
for src in ['x = f"{a!r}"', 'x = f"{a!r:>10}"', 'x = f"{a}"', 'x = f"{a=}"', 'y = x // 1']:
    try:
        t = parse_string(src, 'exec')
        py,_ = compileScenicAST(t)
        print(src, 'OK', ast.dump(py) == ast.dump(ast.parse(src)))
    except Exception as e:
        print(src, type(e).__name__, e)
