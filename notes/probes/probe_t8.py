import random, math, itertools
from fractions import Fraction
import scenic
from scenic.core.distributions import RejectionException

class Enum:
    """DFS over RNG outcomes with exact probabilities by replaying a decision prefix."""
    def __init__(self): self.script=[]; self.pos=0; self.prob=Fraction(1); self.pending=None; self.log=[]
    def choose(self, options):  # options: list of (value, prob)
        if self.pos < len(self.script):
            i = self.script[self.pos]
        else:
            i = 0; self.script.append(0)
        self.fanout.append(len(options)) if self.pos >= len(self.fanout) else None
        if self.pos < len(self.fanout): self.fanout[self.pos]=len(options)
        self.pos += 1
        v,p = options[i]; self.prob *= p; return v
    def run_all(self, f):
        self.script=[]; self.fanout=[]; out=[]
        while True:
            self.pos=0; self.prob=Fraction(1)
            r = f()
            out.append((r, self.prob))
            # advance script
            self.script=self.script[:self.pos]; self.fanout=self.fanout[:self.pos]
            while self.script and self.script[-1]+1 >= self.fanout[-1]:
                self.script.pop(); self.fanout.pop()
            if not self.script: return out
            self.script[-1]+=1
E = Enum()
def randint(a,b): return E.choose([(k, Fraction(1,b-a+1)) for k in range(a,b+1)])
def choices(pop, weights=None, *, cum_weights=None, k=1):
    assert k==1
    if cum_weights is not None:
        weights=[cum_weights[0]]+[cum_weights[i]-cum_weights[i-1] for i in range(1,len(cum_weights))]
    tot=sum(Fraction(w) for w in weights)
    return [E.choose([(x, Fraction(w)/tot) for x,w in zip(pop,weights) if w>0])]
soft=[]
def rnd():
    p = soft.pop(0)
    p=Fraction(p)
    opts=[]
    if p>0: opts.append((float(p)/2, p))
    if p<1: opts.append(((1+float(p))/2, 1-p))
    return E.choose(opts)
random.randint=randint; random.choices=choices; random.random=rnd
code='''
x = DiscreteRange(1,3)
y = Uniform(x, 10, x+1)
z = Options({1: 1, 2: 3})
param p = (x, y, z, resample(z))
require[0.25] y > 2
require x + z < 5
'''
sc = scenic.scenarioFromString(code)
def attempt():
    global soft
    soft=[r.prob for r in sc.userRequirements]
    try:
        scene, its = sc._generateInner(1, 0, None)
        return ('ok', scene.params['p'])
    except RejectionException:
        return ('rej', tuple(r.active for r in sc.userRequirements))
res = E.run_all(attempt)
agg={}
for r,p in res: agg[r]=agg.get(r,0)+p
print(len(res), sum(agg.values()))
for k,v in sorted(agg.items(), key=str)[:12]: print(k, v)
