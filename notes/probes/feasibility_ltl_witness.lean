inductive F where
  | atom (i : Nat) | not (f : F) | and (a b : F) | or (a b : F)
  | next (f : F) | until (a b : F) | tt
deriving Repr, DecidableEq

def F.ev (f : F) : F := .until .tt f
def F.alw (f : F) : F := .not (.ev (.not f))

abbrev Trace := List (List Bool)   -- per step, per atom

-- finite-trace semantics, strong next / strong until
def sat : F → Trace → Nat → Bool
  | .tt, _, _ => true
  | .atom a, tr, i => ((tr[i]?.bind (·[a]?)).getD false)
  | .not f, tr, i => !sat f tr i
  | .and a b, tr, i => sat a tr i && sat b tr i
  | .or a b, tr, i => sat a tr i || sat b tr i
  | .next f, tr, i => i + 1 < tr.length && sat f tr (i+1)
  | .until a b, tr, i =>
      (List.range (tr.length - i)).any fun d =>
        sat b tr (i+d) && (List.range d).all fun e => sat a tr (i+e)

-- B4 as 1..4
abbrev B4 := Nat
def b4not (v : B4) : B4 := 5 - v
def truthy (v : B4) : Bool := v ≥ 3

-- mirror of rv_ltl monitor._evaluate_at, last = last index
def evalAt : F → Trace → Nat → B4
  | .tt, _, _ => 4
  | .atom a, tr, i => if ((tr[i]?.bind (·[a]?)).getD false) then 4 else 1
  | .not f, tr, i => b4not (evalAt f tr i)
  | .and a b, tr, i => min (evalAt a tr i) (evalAt b tr i)
  | .or a b, tr, i => max (evalAt a tr i) (evalAt b tr i)
  | .next f, tr, i => if i + 1 > tr.length - 1 then 2 else evalAt f tr (i+1)
  | .until a b, tr, i =>
      let last := tr.length - 1
      let ks := (List.range (last + 1 - i)).map (· + i)
      match ks.find? (fun k => truthy (evalAt b tr k)) with
      | none => 2
      | some k =>
        let js := (List.range (min (i + k) last - i)).map (· + i)
        js.foldl (fun r j => min r (evalAt a tr j)) (evalAt b tr k)

def phi : F := .next (.until (.atom 0) (.atom 1))
def tr : Trace := [[true,false],[false,true],[false,false]]
#eval sat phi tr 0
#eval evalAt phi tr 0
theorem nested_until_witness : sat phi tr 0 = true ∧ evalAt phi tr 0 = 1 := by decide
