import sys, random, numpy
pad = int(sys.argv[1])
def mk(x):
    def h(): return x
    return h
junk = [mk(i) for i in range(pad)]
import scenic
code = """
def mk(x):
    def h():
        return x
    return h
f0 = mk(Range(0, 1))
f1 = mk(Range(10, 11))
f2 = mk(Range(20, 21))
ego = new Object
require f0() + f1() + f2() < 500
"""
random.seed(5); numpy.random.seed(5)
sc = scenic.scenarioFromString(code)
from scenic.core.distributions import Samplable
s = Samplable.sampleAll(sc.dependencies)
print([s[d] for d in sc.dependencies if type(d).__name__=='Range'])
