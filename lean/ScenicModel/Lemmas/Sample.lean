import ScenicModel.Model.Sample
import ScenicModel.Props.C18Int

/-! Lemmas for the sample-DAG codec: value codecs, frames, and the simulation between the writer's
`seenObjs` and the reader's dictionary. Core Lean only. -/
namespace Scenic.Sample
open Scenic.Codec

/-! ### values -/

theorem value_roundtrip (t : IntTable) (h : t.WF) (v : Val) (ty : Ty) (hty : v.hasTy ty)
    (bs s : Bytes) (hw : writeValue t v = some bs) : readValue t ty (bs ++ s) = some (v, s) := by
  cases v with
  | none =>
    cases ty <;> simp only [Val.hasTy] at hty
    simp only [writeValue, Option.some.injEq] at hw; subst hw; simp [readValue]
  | float r =>
    cases ty <;> simp only [Val.hasTy] at hty
    simp only [writeValue, Option.some.injEq] at hw; subst hw
    have := readExact_append r s; rw [hty] at this; simp [readValue, this]
  | int z =>
    cases ty <;> simp only [Val.hasTy] at hty
    simp only [writeValue] at hw; simp [readValue, int_roundtrip t h _ bs s hw]
  | bool b =>
    cases ty <;> simp only [Val.hasTy] at hty
    simp only [writeValue] at hw; simp [readValue, bool_roundtrip t h _ bs s hw]
  | bytes w =>
    cases ty <;> simp only [Val.hasTy] at hty
    simp only [writeValue] at hw; simp [readValue, bytes_roundtrip t h _ bs s hw]
  | vector r =>
    cases ty <;> simp only [Val.hasTy] at hty
    simp only [writeValue, Option.some.injEq] at hw; subst hw
    have := readExact_append r s; rw [hty] at this; simp [readValue, this]
  | orientation r =>
    cases ty <;> simp only [Val.hasTy] at hty
    simp only [writeValue, Option.some.injEq] at hw; subst hw
    have := readExact_append r s; rw [hty] at this; simp [readValue, this]

theorem readBool_mono (t : IntTable) {s r : Bytes} {b : Bool} (h : readBool t s = some (b, r))
    (x : Bytes) : readBool t (s ++ x) = some (b, r ++ x) := by
  unfold readBool at h ⊢
  cases hi : readInt t s with
  | none => simp [hi] at h
  | some p =>
    obtain ⟨z, r'⟩ := p
    simp only [hi, Option.map_some, Option.some.injEq, Prod.mk.injEq] at h
    obtain ⟨rfl, rfl⟩ := h
    simp [readInt_mono t hi x]

theorem readValue_mono (t : IntTable) (ty : Ty) {s r : Bytes} {v : Val}
    (h : readValue t ty s = some (v, r)) (x : Bytes) :
    readValue t ty (s ++ x) = some (v, r ++ x) := by
  cases ty <;> simp only [readValue] at h ⊢
  · simp only [Option.some.injEq, Prod.mk.injEq] at h; obtain ⟨rfl, rfl⟩ := h; rfl
  · cases hr : readExact 8 s with
    | none => simp [hr] at h
    | some p =>
      obtain ⟨a, b⟩ := p
      simp only [hr, Option.map_some, Option.some.injEq, Prod.mk.injEq] at h
      obtain ⟨rfl, rfl⟩ := h; simp [readExact_mono hr x]
  · cases hr : readInt t s with
    | none => simp [hr] at h
    | some p =>
      obtain ⟨a, b⟩ := p
      simp only [hr, Option.map_some, Option.some.injEq, Prod.mk.injEq] at h
      obtain ⟨rfl, rfl⟩ := h; simp [readInt_mono t hr x]
  · cases hr : readBool t s with
    | none => simp [hr] at h
    | some p =>
      obtain ⟨a, b⟩ := p
      simp only [hr, Option.map_some, Option.some.injEq, Prod.mk.injEq] at h
      obtain ⟨rfl, rfl⟩ := h; simp [readBool_mono t hr x]
  · cases hr : readBytes t s with
    | none => simp [hr] at h
    | some p =>
      obtain ⟨a, b⟩ := p
      simp only [hr, Option.map_some, Option.some.injEq, Prod.mk.injEq] at h
      obtain ⟨rfl, rfl⟩ := h; simp [readBytes_mono t hr x]
  · cases hr : readExact 24 s with
    | none => simp [hr] at h
    | some p =>
      obtain ⟨a, b⟩ := p
      simp only [hr, Option.map_some, Option.some.injEq, Prod.mk.injEq] at h
      obtain ⟨rfl, rfl⟩ := h; simp [readExact_mono hr x]
  · cases hr : readExact 32 s with
    | none => simp [hr] at h
    | some p =>
      obtain ⟨a, b⟩ := p
      simp only [hr, Option.map_some, Option.some.injEq, Prod.mk.injEq] at h
      obtain ⟨rfl, rfl⟩ := h; simp [readExact_mono hr x]

/-! ### the relation between writer and reader states -/

abbrev Env := List (Nat × Val)

def keyIn (env : Env) (j : Nat) : Prop := (env.lookup j).isSome = true

theorem keyIn_cons (env : Env) (i j : Nat) (v : Val) :
    keyIn ((i, v) :: env) j ↔ j = i ∨ keyIn env j := by
  unfold keyIn
  by_cases h : j = i
  · subst h; simp [List.lookup]
  · have : (j == i) = false := by simpa using h
    simp [List.lookup, this, h]

theorem lookup_cons_ne (env : Env) (i j : Nat) (v : Val) (h : j ≠ i) :
    ((i, v) :: env).lookup j = env.lookup j := by
  have : (j == i) = false := by simpa using h
  simp [List.lookup, this]

theorem lookup_cons_self (env : Env) (i : Nat) (v : Val) :
    ((i, v) :: env).lookup i = some v := by simp [List.lookup]

/-- writer's seen-set and reader's dictionary agree on all indices below `n`, and every stored value
    is the sampled one -/
structure Rel (vals : Nat → Val) (n : Nat) (seen : List Nat) (env : Env) : Prop where
  vals_ok : ∀ j v, env.lookup j = some v → v = vals j
  keys_ok : ∀ j, j < n → (j ∈ seen ↔ keyIn env j)

/-- the writer only adds indices below `b` -/
structure FrameW (b : Nat) (S S' : List Nat) : Prop where
  mono : ∀ j, j ∈ S → j ∈ S'
  new_lt : ∀ j, j ∈ S' → j ∈ S ∨ j < b

/-- the reader only adds keys below `b` and never changes an existing entry -/
structure FrameR (b : Nat) (E E' : Env) : Prop where
  mono : ∀ j v, E.lookup j = some v → E'.lookup j = some v
  new_lt : ∀ j, keyIn E' j → keyIn E j ∨ j < b

theorem FrameW.refl (b : Nat) (S : List Nat) : FrameW b S S := ⟨fun _ h => h, fun _ h => Or.inl h⟩
theorem FrameR.refl (b : Nat) (E : Env) : FrameR b E E := ⟨fun _ _ h => h, fun _ h => Or.inl h⟩

theorem FrameW.trans {b1 b2 b : Nat} {S S' S'' : List Nat} (h1 : FrameW b1 S S') (h2 : FrameW b2 S' S'')
    (hb1 : b1 ≤ b) (hb2 : b2 ≤ b) : FrameW b S S'' :=
  ⟨fun j h => h2.mono j (h1.mono j h), fun j h => by
    rcases h2.new_lt j h with h' | h'
    · rcases h1.new_lt j h' with h'' | h''
      · exact Or.inl h''
      · exact Or.inr (by omega)
    · exact Or.inr (by omega)⟩

theorem FrameR.trans {b1 b2 b : Nat} {E E' E'' : Env} (h1 : FrameR b1 E E') (h2 : FrameR b2 E' E'')
    (hb1 : b1 ≤ b) (hb2 : b2 ≤ b) : FrameR b E E'' :=
  ⟨fun j v h => h2.mono j v (h1.mono j v h), fun j h => by
    rcases h2.new_lt j h with h' | h'
    · rcases h1.new_lt j h' with h'' | h''
      · exact Or.inl h''
      · exact Or.inr (by omega)
    · exact Or.inr (by omega)⟩

theorem keyIn_of_lookup {E : Env} {j : Nat} {v : Val} (h : E.lookup j = some v) : keyIn E j := by
  unfold keyIn; rw [h]; rfl

theorem FrameR.keyIn_mono {b : Nat} {E E' : Env} (h : FrameR b E E') {j : Nat} (hk : keyIn E j) :
    keyIn E' j := by
  unfold keyIn at hk
  cases hl : E.lookup j with
  | none => rw [hl] at hk; simp at hk
  | some v => exact keyIn_of_lookup (h.mono j v hl)

theorem foldM_nil {σ : Type} (step : Nat → σ → Option σ) (s : σ) : foldM step [] s = some s := rfl

theorem foldM_cons {σ : Type} (step : Nat → σ → Option σ) (d : Nat) (ds : List Nat) (s : σ) :
    foldM step (d :: ds) s = match step d s with
      | none => none
      | some s' => foldM step ds s' := rfl

end Scenic.Sample
