import ScenicModel.Model.Choose
import Mathlib.Tactic.Ring
import Mathlib.Tactic.Linarith
import Mathlib.Tactic.FieldSimp

/-! Helper lemmas for the `do choose` / `do shuffle` model: the weighted-list distribution calculus. -/
namespace Scenic.Choose

namespace Dist
variable {α β : Type}

theorem prob_nil (P : α → Bool) : prob ([] : Dist α) P = 0 := rfl

theorem prob_cons (a : α) (p : Rat) (d : Dist α) (P : α → Bool) :
    prob ((a, p) :: d) P = (if P a then p else 0) + prob d P := by
  unfold prob
  by_cases h : P a <;> simp [List.filter_cons, h]

theorem prob_append (d e : Dist α) (P : α → Bool) : prob (d ++ e) P = prob d P + prob e P := by
  induction d with
  | nil => simp [prob_nil]
  | cons x d ih =>
    obtain ⟨a, p⟩ := x
    rw [List.cons_append, prob_cons, prob_cons, ih]; ring

theorem prob_pure (a : α) (P : α → Bool) : prob (pure a) P = if P a then 1 else 0 := by
  unfold pure; rw [prob_cons, prob_nil]; simp

theorem prob_scale (p : Rat) (d : Dist α) (P : α → Bool) :
    prob (List.map (fun bq => (bq.1, p * bq.2)) d) P = p * prob d P := by
  induction d with
  | nil => simp [prob_nil]
  | cons x d ih =>
    obtain ⟨a, q⟩ := x
    rw [List.map_cons, prob_cons, prob_cons, ih]
    by_cases h : P a <;> simp [h] <;> ring

theorem prob_bind (d : Dist α) (f : α → Dist β) (P : β → Bool) :
    prob (bind d f) P = (List.map (fun ap : α × Rat => ap.2 * prob (f ap.1) P) d).sum := by
  induction d with
  | nil => simp [bind, prob_nil]
  | cons x d ih =>
    have : bind (x :: d) f = (List.map (fun bq => (bq.1, x.2 * bq.2)) (f x.1)) ++ bind d f := by
      simp [bind, List.flatMap_cons]
    rw [this, prob_append, prob_scale, ih]; simp

theorem prob_map (g : α → β) (d : Dist α) (P : β → Bool) : prob (map g d) P = prob d (fun a => P (g a)) := by
  induction d with
  | nil => simp [map, prob_nil]
  | cons x d ih =>
    obtain ⟨a, q⟩ := x
    have : map g ((a, q) :: d) = (g a, q) :: map g d := by simp [map]
    rw [this, prob_cons, prob_cons, ih]

theorem mass_eq_prob (d : Dist α) : mass d = prob d (fun _ => true) := by
  unfold mass prob; simp

theorem prob_congr (d : Dist α) (P Q : α → Bool) (h : ∀ ap ∈ d, P ap.1 = Q ap.1) : prob d P = prob d Q := by
  induction d with
  | nil => simp [prob_nil]
  | cons x d ih =>
    obtain ⟨a, q⟩ := x
    rw [prob_cons, prob_cons, ih (fun ap hap => h ap (List.mem_cons_of_mem _ hap))]
    have := h (a, q) (List.mem_cons_self)
    simp only at this; rw [this]

theorem prob_false (d : Dist α) (P : α → Bool) (h : ∀ ap ∈ d, P ap.1 = false) : prob d P = 0 := by
  induction d with
  | nil => simp [prob_nil]
  | cons x d ih =>
    obtain ⟨a, q⟩ := x
    rw [prob_cons, ih (fun ap hap => h ap (List.mem_cons_of_mem _ hap))]
    have := h (a, q) (List.mem_cons_self)
    simp only at this; simp [this]

theorem mem_bind {d : Dist α} {f : α → Dist β} {b : β} {q : Rat} :
    (b, q) ∈ bind d f ↔ ∃ a p q', (a, p) ∈ d ∧ (b, q') ∈ f a ∧ q = p * q' := by
  unfold bind
  simp only [List.mem_flatMap, List.mem_map, Prod.mk.injEq, Prod.exists]
  constructor
  · rintro ⟨a, p, hap, b', q', hb, rfl, rfl⟩
    exact ⟨a, p, q', hap, hb, rfl⟩
  · rintro ⟨a, p, q', hap, hb, rfl⟩
    exact ⟨a, p, hap, b, q', hb, rfl, rfl⟩

theorem mem_map {g : α → β} {d : Dist α} {b : β} {q : Rat} :
    (b, q) ∈ map g d ↔ ∃ a, (a, q) ∈ d ∧ g a = b := by
  unfold map
  simp only [List.mem_map, Prod.mk.injEq, Prod.exists]
  constructor
  · rintro ⟨a, p, hap, rfl, rfl⟩; exact ⟨a, hap, rfl⟩
  · rintro ⟨a, hap, rfl⟩; exact ⟨a, q, hap, rfl, rfl⟩

theorem mem_pure {a b : α} {q : Rat} : (b, q) ∈ pure a ↔ b = a ∧ q = 1 := by
  unfold pure; simp

/-- `Σ q·[p = a]·V = V · P(a)` -/
theorem sum_indicator [DecidableEq α] (d : Dist α) (a : α) (F : α → Rat) (V : Rat)
    (h : ∀ ap ∈ d, F ap.1 = if ap.1 = a then V else 0) :
    (List.map (fun ap : α × Rat => ap.2 * F ap.1) d).sum = prob d (fun x => decide (x = a)) * V := by
  induction d with
  | nil => simp [prob_nil]
  | cons x d ih =>
    obtain ⟨b, q⟩ := x
    rw [List.map_cons, List.sum_cons, prob_cons, ih (fun ap hap => h ap (List.mem_cons_of_mem _ hap))]
    have := h (b, q) (List.mem_cons_self)
    simp only at this; rw [this]
    by_cases hb : b = a <;> simp [hb] <;> ring

theorem mass_bind (d : Dist α) (f : α → Dist β) (h : ∀ ap ∈ d, mass (f ap.1) = 1) : mass (bind d f) = mass d := by
  rw [mass_eq_prob, prob_bind]
  induction d with
  | nil => simp [mass]
  | cons x d ih =>
    rw [List.map_cons, List.sum_cons, ih (fun ap hap => h ap (List.mem_cons_of_mem _ hap))]
    have := h x (List.mem_cons_self)
    rw [mass_eq_prob] at this
    rw [this]; simp [mass]

theorem mass_map (g : α → β) (d : Dist α) : mass (map g d) = mass d := by
  unfold mass map; simp [Function.comp_def]

theorem mass_pure (a : α) : mass (pure a) = 1 := by simp [mass, pure]

end Dist

/-! ### weighted pick -/

/-- total weight of the entries whose key is `a` -/
def wOf {α : Type} [DecidableEq α] (a : α) (xs : List (α × Rat)) : Rat :=
  ((xs.filter fun x => decide (x.1 = a)).map Prod.snd).sum

theorem sumW_cons {α : Type} (x : α × Rat) (xs : List (α × Rat)) : sumW (x :: xs) = x.2 + sumW xs := by
  simp [sumW]

theorem wOf_cons {α : Type} [DecidableEq α] (a : α) (x : α × Rat) (xs : List (α × Rat)) :
    wOf a (x :: xs) = (if x.1 = a then x.2 else 0) + wOf a xs := by
  unfold wOf
  by_cases h : x.1 = a <;> simp [List.filter_cons, h]

theorem sumW_filter_ne_zero {α : Type} (xs : List (α × Rat)) : sumW (xs.filter fun x => x.2 != 0) = sumW xs := by
  induction xs with
  | nil => rfl
  | cons x xs ih =>
    by_cases h : x.2 = 0
    · simp [List.filter_cons, h, sumW_cons, ih]
    · simp [List.filter_cons, h, sumW_cons, ih]

theorem wOf_filter_ne_zero {α : Type} [DecidableEq α] (a : α) (xs : List (α × Rat)) :
    wOf a (xs.filter fun x => x.2 != 0) = wOf a xs := by
  induction xs with
  | nil => rfl
  | cons x xs ih =>
    by_cases h : x.2 = 0
    · simp [List.filter_cons, h, wOf_cons, ih]
    · simp [List.filter_cons, h, wOf_cons, ih]

theorem prob_normalised {α : Type} [DecidableEq α] (xs : List (α × Rat)) (S : Rat) (a : α) :
    Dist.prob (xs.map fun x => (Pick.picked x.1, x.2 / S)) (fun p => decide (p = Pick.picked a)) = wOf a xs / S := by
  induction xs with
  | nil => simp [Dist.prob_nil, wOf]
  | cons x xs ih =>
    rw [List.map_cons, Dist.prob_cons, ih, wOf_cons]
    by_cases h : x.1 = a
    · simp [h]; ring
    · simp [h]

theorem prob_normalised_other {α : Type} [DecidableEq α] (xs : List (α × Rat)) (S : Rat) (P : Pick α → Bool)
    (h : ∀ a, P (Pick.picked a) = false) :
    Dist.prob (xs.map fun x => (Pick.picked x.1, x.2 / S)) P = 0 := by
  apply Dist.prob_false
  intro ap hap
  simp only [List.mem_map] at hap
  obtain ⟨x, _, rfl⟩ := hap
  exact h _

theorem sumW_nonneg {α : Type} (xs : List (α × Rat)) (h : ∀ x ∈ xs, 0 ≤ x.2) : 0 ≤ sumW xs := by
  induction xs with
  | nil => simp [sumW]
  | cons x xs ih =>
    rw [sumW_cons]
    have := h x (List.mem_cons_self)
    have := ih (fun y hy => h y (List.mem_cons_of_mem _ hy))
    linarith

theorem sumW_pos {α : Type} (xs : List (α × Rat)) (h : ∀ x ∈ xs, 0 < x.2) (hne : xs ≠ []) : 0 < sumW xs := by
  cases xs with
  | nil => exact absurd rfl hne
  | cons x xs =>
    rw [sumW_cons]
    have := h x (List.mem_cons_self)
    have := sumW_nonneg xs (fun y hy => le_of_lt (h y (List.mem_cons_of_mem _ hy)))
    linarith

theorem mass_normalised {α β : Type} (g : α → β) (xs : List (α × Rat)) (S : Rat) :
    Dist.mass (xs.map fun x => (g x.1, x.2 / S)) = sumW xs / S := by
  induction xs with
  | nil => simp [Dist.mass, sumW]
  | cons x xs ih =>
    unfold Dist.mass at ih ⊢
    rw [List.map_cons, List.map_cons, List.sum_cons, ih, sumW_cons]; ring

theorem any_neg_false {α : Type} (xs : List (α × Rat)) (h : ∀ x ∈ xs, 0 ≤ x.2) :
    xs.any (fun x => decide (x.2 < 0)) = false := by
  rw [List.any_eq_false]
  intro x hx
  have := h x hx
  simp; exact this

/-- `Options` picks key `a` with probability (weight of `a`) / (total weight) -/
theorem weightedPick_prob {α : Type} [DecidableEq α] (c : Config) (hc : c.dropZero = true)
    (xs : List (α × Rat)) (hnn : ∀ x ∈ xs, 0 ≤ x.2) (hpos : 0 < sumW xs) (a : α) :
    Dist.prob (weightedPick c xs) (fun p => decide (p = Pick.picked a)) = wOf a xs / sumW xs := by
  unfold weightedPick
  rw [any_neg_false xs hnn]
  simp only [hc, if_true, Bool.false_eq_true, if_false]
  have hne : (xs.filter fun x => x.2 != 0).isEmpty = false := by
    cases hh : (xs.filter fun x => x.2 != 0) with
    | nil =>
      have := sumW_filter_ne_zero xs
      rw [hh] at this
      simp [sumW] at this
      simp [sumW] at hpos
      linarith
    | cons y ys => rfl
  rw [hne]
  simp only [Bool.false_eq_true, if_false]
  rw [prob_normalised, wOf_filter_ne_zero, sumW_filter_ne_zero]

theorem weightedPick_mass {α : Type} (c : Config) (hc : c.dropZero = true) (xs : List (α × Rat)) :
    Dist.mass (weightedPick c xs) = 1 := by
  unfold weightedPick
  by_cases hneg : xs.any (fun x => decide (x.2 < 0)) = true
  · rw [if_pos hneg]; exact Dist.mass_pure _
  · rw [if_neg hneg]
    simp only [hc, if_true]
    by_cases hemp : (xs.filter fun x => x.2 != 0).isEmpty = true
    · rw [if_pos hemp]; exact Dist.mass_pure _
    · rw [if_neg hemp, mass_normalised]
      have hpos : 0 < sumW (xs.filter fun x => x.2 != 0) := by
        apply sumW_pos
        · intro x hx
          rw [List.mem_filter] at hx
          have h1 : ¬ x.2 < 0 := by
            intro hlt
            apply hneg
            rw [List.any_eq_true]
            exact ⟨x, hx.1, by simpa using hlt⟩
          have h2 : x.2 ≠ 0 := by simpa using hx.2
          rcases lt_trichotomy x.2 0 with h | h | h
          · exact absurd h h1
          · exact absurd h h2
          · exact h
        · intro h; rw [h] at hemp; simp at hemp
      field_simp

/-- every key `Options` can return is one of the keys it was given (whatever the configuration) -/
theorem weightedPick_support {α : Type} (c : Config) (xs : List (α × Rat)) (a : α) (q : Rat)
    (h : (Pick.picked a, q) ∈ weightedPick c xs) : ∃ w, (a, w) ∈ xs := by
  unfold weightedPick at h
  by_cases h1 : (xs.any fun x => decide (x.2 < 0)) = true
  · rw [if_pos h1] at h; simp [Dist.pure] at h
  · rw [if_neg h1] at h
    by_cases h3 : c.dropZero = true
    · simp only [h3, if_true] at h
      by_cases h2 : (xs.filter (fun x => x.2 != 0)).isEmpty = true
      · rw [if_pos h2] at h; simp [Dist.pure] at h
      · rw [if_neg h2] at h
        simp only [List.mem_map, Prod.mk.injEq, Pick.picked.injEq] at h
        obtain ⟨x, hx, rfl, _⟩ := h
        rw [List.mem_filter] at hx; exact ⟨x.2, hx.1⟩
    · simp only [if_neg h3] at h
      by_cases h2 : xs.isEmpty = true
      · rw [if_pos h2] at h; simp [Dist.pure] at h
      · rw [if_neg h2] at h
        simp only [List.mem_map, Prod.mk.injEq, Pick.picked.injEq] at h
        obtain ⟨x, hx, rfl, _⟩ := h
        exact ⟨x.2, hx⟩
end Scenic.Choose
