import ScenicModel.Model.Choose
import Mathlib.Tactic.Ring
import Mathlib.Tactic.Linarith
import Mathlib.Tactic.FieldSimp

/-! Helper lemmas for the `do choose` / `do shuffle` model: the weighted-list distribution calculus. -/
namespace Scenic.Choose

namespace Dist
variable {α β : Type}

theorem prob_nil (P : α → Bool) : prob ([] : Dist α) P = 0 := rfl

theorem prob_cons (a : α) (p : Rat) (d : Dist α) (P : α → Bool) :
    prob ((a, p) :: d) P = (if P a then p else 0) + prob d P := by
  unfold prob
  by_cases h : P a <;> simp [List.filter_cons, h]

theorem prob_append (d e : Dist α) (P : α → Bool) : prob (d ++ e) P = prob d P + prob e P := by
  induction d with
  | nil => simp [prob_nil]
  | cons x d ih =>
    obtain ⟨a, p⟩ := x
    rw [List.cons_append, prob_cons, prob_cons, ih]; ring

theorem prob_pure (a : α) (P : α → Bool) : prob (pure a) P = if P a then 1 else 0 := by
  unfold pure; rw [prob_cons, prob_nil]; simp

theorem prob_scale (p : Rat) (d : Dist α) (P : α → Bool) :
    prob (List.map (fun bq => (bq.1, p * bq.2)) d) P = p * prob d P := by
  induction d with
  | nil => simp [prob_nil]
  | cons x d ih =>
    obtain ⟨a, q⟩ := x
    rw [List.map_cons, prob_cons, prob_cons, ih]
    by_cases h : P a <;> simp [h] <;> ring

theorem prob_bind (d : Dist α) (f : α → Dist β) (P : β → Bool) :
    prob (bind d f) P = (List.map (fun ap : α × Rat => ap.2 * prob (f ap.1) P) d).sum := by
  induction d with
  | nil => simp [bind, prob_nil]
  | cons x d ih =>
    have : bind (x :: d) f = (List.map (fun bq => (bq.1, x.2 * bq.2)) (f x.1)) ++ bind d f := by
      simp [bind, List.flatMap_cons]
    rw [this, prob_append, prob_scale, ih]; simp

theorem prob_map (g : α → β) (d : Dist α) (P : β → Bool) : prob (map g d) P = prob d (fun a => P (g a)) := by
  induction d with
  | nil => simp [map, prob_nil]
  | cons x d ih =>
    obtain ⟨a, q⟩ := x
    have : map g ((a, q) :: d) = (g a, q) :: map g d := by simp [map]
    rw [this, prob_cons, prob_cons, ih]

theorem mass_eq_prob (d : Dist α) : mass d = prob d (fun _ => true) := by
  unfold mass prob; simp

theorem prob_congr (d : Dist α) (P Q : α → Bool) (h : ∀ ap ∈ d, P ap.1 = Q ap.1) : prob d P = prob d Q := by
  induction d with
  | nil => simp [prob_nil]
  | cons x d ih =>
    obtain ⟨a, q⟩ := x
    rw [prob_cons, prob_cons, ih (fun ap hap => h ap (List.mem_cons_of_mem _ hap))]
    have := h (a, q) (List.mem_cons_self)
    simp only at this; rw [this]

theorem prob_false (d : Dist α) (P : α → Bool) (h : ∀ ap ∈ d, P ap.1 = false) : prob d P = 0 := by
  induction d with
  | nil => simp [prob_nil]
  | cons x d ih =>
    obtain ⟨a, q⟩ := x
    rw [prob_cons, ih (fun ap hap => h ap (List.mem_cons_of_mem _ hap))]
    have := h (a, q) (List.mem_cons_self)
    simp only at this; simp [this]

theorem mem_bind {d : Dist α} {f : α → Dist β} {b : β} {q : Rat} :
    (b, q) ∈ bind d f ↔ ∃ a p q', (a, p) ∈ d ∧ (b, q') ∈ f a ∧ q = p * q' := by
  unfold bind
  simp only [List.mem_flatMap, List.mem_map, Prod.mk.injEq, Prod.exists]
  constructor
  · rintro ⟨a, p, hap, b', q', hb, rfl, rfl⟩
    exact ⟨a, p, q', hap, hb, rfl⟩
  · rintro ⟨a, p, q', hap, hb, rfl⟩
    exact ⟨a, p, hap, b, q', hb, rfl, rfl⟩

theorem mem_map {g : α → β} {d : Dist α} {b : β} {q : Rat} :
    (b, q) ∈ map g d ↔ ∃ a, (a, q) ∈ d ∧ g a = b := by
  unfold map
  simp only [List.mem_map, Prod.mk.injEq, Prod.exists]
  constructor
  · rintro ⟨a, p, hap, rfl, rfl⟩; exact ⟨a, hap, rfl⟩
  · rintro ⟨a, hap, rfl⟩; exact ⟨a, q, hap, rfl, rfl⟩

theorem mem_pure {a b : α} {q : Rat} : (b, q) ∈ pure a ↔ b = a ∧ q = 1 := by
  unfold pure; simp

/-- `Σ q·[p = a]·V = V · P(a)` -/
theorem sum_indicator [DecidableEq α] (d : Dist α) (a : α) (F : α → Rat) (V : Rat)
    (h : ∀ ap ∈ d, F ap.1 = if ap.1 = a then V else 0) :
    (List.map (fun ap : α × Rat => ap.2 * F ap.1) d).sum = prob d (fun x => decide (x = a)) * V := by
  induction d with
  | nil => simp [prob_nil]
  | cons x d ih =>
    obtain ⟨b, q⟩ := x
    rw [List.map_cons, List.sum_cons, prob_cons, ih (fun ap hap => h ap (List.mem_cons_of_mem _ hap))]
    have := h (b, q) (List.mem_cons_self)
    simp only at this; rw [this]
    by_cases hb : b = a <;> simp [hb] <;> ring

theorem mass_bind (d : Dist α) (f : α → Dist β) (h : ∀ ap ∈ d, mass (f ap.1) = 1) : mass (bind d f) = mass d := by
  rw [mass_eq_prob, prob_bind]
  induction d with
  | nil => simp [mass]
  | cons x d ih =>
    rw [List.map_cons, List.sum_cons, ih (fun ap hap => h ap (List.mem_cons_of_mem _ hap))]
    have := h x (List.mem_cons_self)
    rw [mass_eq_prob] at this
    rw [this]; simp [mass]

theorem mass_map (g : α → β) (d : Dist α) : mass (map g d) = mass d := by
  unfold mass map; simp [Function.comp_def]

theorem mass_pure (a : α) : mass (pure a) = 1 := by simp [mass, pure]

end Dist

/-! ### weighted pick -/

/-- total weight of the entries whose key is `a` -/
def wOf {α : Type} [DecidableEq α] (a : α) (xs : List (α × Rat)) : Rat :=
  ((xs.filter fun x => decide (x.1 = a)).map Prod.snd).sum

theorem sumW_cons {α : Type} (x : α × Rat) (xs : List (α × Rat)) : sumW (x :: xs) = x.2 + sumW xs := by
  simp [sumW]

theorem wOf_cons {α : Type} [DecidableEq α] (a : α) (x : α × Rat) (xs : List (α × Rat)) :
    wOf a (x :: xs) = (if x.1 = a then x.2 else 0) + wOf a xs := by
  unfold wOf
  by_cases h : x.1 = a <;> simp [List.filter_cons, h]

theorem sumW_filter_ne_zero {α : Type} (xs : List (α × Rat)) : sumW (xs.filter fun x => x.2 != 0) = sumW xs := by
  induction xs with
  | nil => rfl
  | cons x xs ih =>
    by_cases h : x.2 = 0
    · simp [List.filter_cons, h, sumW_cons, ih]
    · simp [List.filter_cons, h, sumW_cons, ih]

theorem wOf_filter_ne_zero {α : Type} [DecidableEq α] (a : α) (xs : List (α × Rat)) :
    wOf a (xs.filter fun x => x.2 != 0) = wOf a xs := by
  induction xs with
  | nil => rfl
  | cons x xs ih =>
    by_cases h : x.2 = 0
    · simp [List.filter_cons, h, wOf_cons, ih]
    · simp [List.filter_cons, h, wOf_cons, ih]

theorem prob_normalised {α : Type} [DecidableEq α] (xs : List (α × Rat)) (S : Rat) (a : α) :
    Dist.prob (xs.map fun x => (Pick.picked x.1, x.2 / S)) (fun p => decide (p = Pick.picked a)) = wOf a xs / S := by
  induction xs with
  | nil => simp [Dist.prob_nil, wOf]
  | cons x xs ih =>
    rw [List.map_cons, Dist.prob_cons, ih, wOf_cons]
    by_cases h : x.1 = a
    · simp [h]; ring
    · simp [h]

theorem prob_normalised_other {α : Type} [DecidableEq α] (xs : List (α × Rat)) (S : Rat) (P : Pick α → Bool)
    (h : ∀ a, P (Pick.picked a) = false) :
    Dist.prob (xs.map fun x => (Pick.picked x.1, x.2 / S)) P = 0 := by
  apply Dist.prob_false
  intro ap hap
  simp only [List.mem_map] at hap
  obtain ⟨x, _, rfl⟩ := hap
  exact h _

theorem sumW_nonneg {α : Type} (xs : List (α × Rat)) (h : ∀ x ∈ xs, 0 ≤ x.2) : 0 ≤ sumW xs := by
  induction xs with
  | nil => simp [sumW]
  | cons x xs ih =>
    rw [sumW_cons]
    have := h x (List.mem_cons_self)
    have := ih (fun y hy => h y (List.mem_cons_of_mem _ hy))
    linarith

theorem sumW_pos {α : Type} (xs : List (α × Rat)) (h : ∀ x ∈ xs, 0 < x.2) (hne : xs ≠ []) : 0 < sumW xs := by
  cases xs with
  | nil => exact absurd rfl hne
  | cons x xs =>
    rw [sumW_cons]
    have := h x (List.mem_cons_self)
    have := sumW_nonneg xs (fun y hy => le_of_lt (h y (List.mem_cons_of_mem _ hy)))
    linarith

theorem mass_normalised {α β : Type} (g : α → β) (xs : List (α × Rat)) (S : Rat) :
    Dist.mass (xs.map fun x => (g x.1, x.2 / S)) = sumW xs / S := by
  induction xs with
  | nil => simp [Dist.mass, sumW]
  | cons x xs ih =>
    unfold Dist.mass at ih ⊢
    rw [List.map_cons, List.map_cons, List.sum_cons, ih, sumW_cons]; ring

theorem any_neg_false {α : Type} (xs : List (α × Rat)) (h : ∀ x ∈ xs, 0 ≤ x.2) :
    xs.any (fun x => decide (x.2 < 0)) = false := by
  rw [List.any_eq_false]
  intro x hx
  have := h x hx
  simp; exact this

/-- `Options` picks key `a` with probability (weight of `a`) / (total weight) -/
theorem weightedPick_prob {α : Type} [DecidableEq α] (c : Config) (hc : c.dropZero = true)
    (xs : List (α × Rat)) (hnn : ∀ x ∈ xs, 0 ≤ x.2) (hpos : 0 < sumW xs) (a : α) :
    Dist.prob (weightedPick c xs) (fun p => decide (p = Pick.picked a)) = wOf a xs / sumW xs := by
  unfold weightedPick
  rw [any_neg_false xs hnn]
  simp only [hc, if_true, Bool.false_eq_true, if_false]
  have hne : (xs.filter fun x => x.2 != 0).isEmpty = false := by
    cases hh : (xs.filter fun x => x.2 != 0) with
    | nil =>
      have := sumW_filter_ne_zero xs
      rw [hh] at this
      simp [sumW] at this
      simp [sumW] at hpos
      linarith
    | cons y ys => rfl
  rw [hne]
  simp only [Bool.false_eq_true, if_false]
  rw [prob_normalised, wOf_filter_ne_zero, sumW_filter_ne_zero]

theorem weightedPick_mass {α : Type} (c : Config) (hc : c.dropZero = true) (xs : List (α × Rat)) :
    Dist.mass (weightedPick c xs) = 1 := by
  unfold weightedPick
  by_cases hneg : xs.any (fun x => decide (x.2 < 0)) = true
  · rw [if_pos hneg]; exact Dist.mass_pure _
  · rw [if_neg hneg]
    simp only [hc, if_true]
    by_cases hemp : (xs.filter fun x => x.2 != 0).isEmpty = true
    · rw [if_pos hemp]; exact Dist.mass_pure _
    · rw [if_neg hemp, mass_normalised]
      have hpos : 0 < sumW (xs.filter fun x => x.2 != 0) := by
        apply sumW_pos
        · intro x hx
          rw [List.mem_filter] at hx
          have h1 : ¬ x.2 < 0 := by
            intro hlt
            apply hneg
            rw [List.any_eq_true]
            exact ⟨x, hx.1, by simpa using hlt⟩
          have h2 : x.2 ≠ 0 := by simpa using hx.2
          rcases lt_trichotomy x.2 0 with h | h | h
          · exact absurd h h1
          · exact absurd h h2
          · exact h
        · intro h; rw [h] at hemp; simp at hemp
      field_simp

/-- every key `Options` can return is one of the keys it was given (whatever the configuration) -/
theorem weightedPick_support {α : Type} (c : Config) (xs : List (α × Rat)) (a : α) (q : Rat)
    (h : (Pick.picked a, q) ∈ weightedPick c xs) : ∃ w, (a, w) ∈ xs := by
  unfold weightedPick at h
  by_cases h1 : (xs.any fun x => decide (x.2 < 0)) = true
  · rw [if_pos h1] at h; simp [Dist.pure] at h
  · rw [if_neg h1] at h
    by_cases h3 : c.dropZero = true
    · simp only [h3, if_true] at h
      by_cases h2 : (xs.filter (fun x => x.2 != 0)).isEmpty = true
      · rw [if_pos h2] at h; simp [Dist.pure] at h
      · rw [if_neg h2] at h
        simp only [List.mem_map, Prod.mk.injEq, Pick.picked.injEq] at h
        obtain ⟨x, hx, rfl, _⟩ := h
        rw [List.mem_filter] at hx; exact ⟨x.2, hx.1⟩
    · simp only [if_neg h3] at h
      by_cases h2 : xs.isEmpty = true
      · rw [if_pos h2] at h; simp [Dist.pure] at h
      · rw [if_neg h2] at h
        simp only [List.mem_map, Prod.mk.injEq, Pick.picked.injEq] at h
        obtain ⟨x, hx, rfl, _⟩ := h
        exact ⟨x.2, hx⟩

/-! ### the pick of `do choose` / `do shuffle` -/

def totalW (l : List Item) : Rat := (l.map (·.weight)).sum

theorem sumW_items (l : List Item) : sumW (l.map fun x => (x, x.weight)) = totalW l := by
  simp [sumW, totalW, Function.comp_def]

theorem wOf_items (l : List Item) (hnd : l.Nodup) (x : Item) :
    wOf x (l.map fun y => (y, y.weight)) = if x ∈ l then x.weight else 0 := by
  induction l with
  | nil => simp [wOf]
  | cons y l ih =>
    rw [List.map_cons, wOf_cons]
    have hnd' := (List.nodup_cons.mp hnd)
    rw [ih hnd'.2]
    by_cases h : y = x
    · subst h; simp [hnd'.1]
    · have h' : ¬ x = y := fun e => h e.symm
      simp [h, h']

theorem mem_enabledAt {env : Env} {t : Nat} {rem : List Item} {x : Item} :
    x ∈ enabledAt env t rem ↔ x ∈ rem ∧ env.pre x.id t = true := by
  simp [enabledAt]

theorem id_inj (l : List Item) (h : (l.map (·.id)).Nodup) : ∀ a ∈ l, ∀ b ∈ l, a.id = b.id → a = b := by
  induction l with
  | nil => intro a ha; cases ha
  | cons y l ih =>
    rw [List.map_cons, List.nodup_cons] at h
    intro a ha b hb e
    rw [List.mem_cons] at ha hb
    rcases ha with rfl | ha <;> rcases hb with rfl | hb
    · rfl
    · exfalso; apply h.1; rw [e]; exact List.mem_map_of_mem hb
    · exfalso; apply h.1; rw [← e]; exact List.mem_map_of_mem ha
    · exact ih h.2 a ha b hb e

theorem nodup_of_ids (l : List Item) (h : (l.map (·.id)).Nodup) : l.Nodup := by
  unfold List.Nodup at *
  rw [List.pairwise_map] at h
  exact h.imp (fun hne e => hne (by rw [e]))

theorem pickEnabled_nil (c : Config) (env : Env) (t : Nat) (rem : List Item) (h : enabledAt env t rem = []) :
    pickEnabled c env t rem = Dist.pure .deadlock := by
  simp [pickEnabled, h]

theorem pickEnabled_single (c : Config) (hc : c.WF) (env : Env) (t : Nat) (rem : List Item) (x : Item)
    (h : enabledAt env t rem = [x]) : pickEnabled c env t rem = Dist.pure (.picked x) := by
  obtain ⟨_, h1, h2, _⟩ := hc
  simp [pickEnabled, h, h1, h2]

theorem pickEnabled_many (c : Config) (hc : c.WF) (env : Env) (t : Nat) (rem : List Item)
    (h : 2 ≤ (enabledAt env t rem).length) :
    pickEnabled c env t rem = weightedPick c ((enabledAt env t rem).map fun x => (x, x.weight)) := by
  obtain ⟨_, h1, _, _⟩ := hc
  have h0 : (enabledAt env t rem).isEmpty = false := by
    cases h' : enabledAt env t rem with
    | nil => rw [h'] at h; simp at h
    | cons a l => rfl
  have h2 : ¬ (enabledAt env t rem).length = 1 := by omega
  simp [pickEnabled, h0, h1, h2]

theorem totalW_pos_of (en : List Item) (h : ∀ x ∈ en, 0 < x.weight) (hne : en ≠ []) : 0 < totalW en := by
  rw [← sumW_items]
  apply sumW_pos
  · intro x hx
    simp only [List.mem_map] at hx
    obtain ⟨y, hy, rfl⟩ := hx
    exact h y hy
  · simpa using hne

/-- the pick: an enabled item is returned with probability weight / (total weight of the enabled items) -/
theorem pick_prob (c : Config) (hc : c.WF) (env : Env) (t : Nat) (rem : List Item) (hnd : rem.Nodup)
    (hnn : ∀ x ∈ enabledAt env t rem, 0 ≤ x.weight)
    (hpos : enabledAt env t rem ≠ [] → 0 < totalW (enabledAt env t rem)) (x : Item) :
    Dist.prob (pickEnabled c env t rem) (fun p => decide (p = Pick.picked x)) =
      if x ∈ enabledAt env t rem then x.weight / totalW (enabledAt env t rem) else 0 := by
  have hnd' : (enabledAt env t rem).Nodup := List.Nodup.sublist List.filter_sublist hnd
  rcases hen : enabledAt env t rem with _ | ⟨y, _ | ⟨z, l⟩⟩
  · rw [pickEnabled_nil _ _ _ _ hen, Dist.prob_pure]; simp
  · rw [pickEnabled_single c hc _ _ _ _ hen, Dist.prob_pure]
    have hp := hpos (by rw [hen]; simp)
    rw [hen] at hp
    simp [totalW] at hp
    by_cases h : y = x
    · subst h
      have : y.weight ≠ 0 := ne_of_gt hp
      simp [totalW]; field_simp
    · have h' : ¬ x = y := fun e => h e.symm
      simp [h, h']
  · have hlen : 2 ≤ (enabledAt env t rem).length := by rw [hen]; simp
    have hp := hpos (by rw [hen]; simp)
    rw [pickEnabled_many c hc _ _ _ hlen, weightedPick_prob c hc.2.2.2 _ _ _ x, sumW_items, wOf_items _ hnd', hen]
    · split <;> simp
    · intro p hp'
      simp only [List.mem_map] at hp'
      obtain ⟨w, hw, rfl⟩ := hp'
      exact hnn w hw
    · rw [sumW_items]; exact hp

/-- the pick only ever returns an item that is listed and whose preconditions hold now (any configuration) -/
theorem pick_support (c : Config) (env : Env) (t : Nat) (rem : List Item) (x : Item) (q : Rat)
    (h : (Pick.picked x, q) ∈ pickEnabled c env t rem) : x ∈ enabledAt env t rem := by
  simp only [pickEnabled] at h
  by_cases h1 : (enabledAt env t rem).isEmpty = true
  · rw [if_pos h1] at h; simp [Dist.pure] at h
  · rw [if_neg h1] at h
    by_cases h2 : (enabledAt env t rem).length = c.shortcutLen
    · rw [if_pos h2] at h
      cases h3 : (enabledAt env t rem)[c.shortcutIdx]? with
      | none => rw [h3] at h; simp [Dist.pure] at h
      | some y =>
        rw [h3] at h
        simp [Dist.pure] at h
        obtain ⟨rfl, _⟩ := h
        exact List.mem_of_getElem? h3
    · rw [if_neg h2] at h
      obtain ⟨w, hw⟩ := weightedPick_support c _ x q h
      simp only [List.mem_map, Prod.mk.injEq] at hw
      obtain ⟨y, hy, rfl, _⟩ := hw
      exact hy

theorem failOutcome_status {α : Type} (t : Nat) (p : Pick α) : (failOutcome t p).status ≠ .done := by
  cases p <;> simp [failOutcome]

theorem chooseStep_fail (env : Env) (t : Nat) (p : Pick Item) (h : ∀ x, p ≠ .picked x) :
    chooseStep env t p = Dist.pure (failOutcome t p) := by
  cases p with
  | picked x => exact absurd rfl (h x)
  | _ => rfl

theorem shuffleStep_fail (env : Env) (t : Nat) (r : Nat → List Item → Dist Outcome) (rem : List Item)
    (p : Pick Item) (h : ∀ x, p ≠ .picked x) : shuffleStep env t r rem p = Dist.pure (failOutcome t p) := by
  cases p with
  | picked x => exact absurd rfl (h x)
  | _ => rfl

/-- the outcome "exactly item `x` was run, started at `t`" -/
def chooseOutcome (env : Env) (t : Nat) (x : Item) : Outcome := ⟨[ranEvent t x], t + env.dur x.id t, .done⟩

theorem pick_mass (c : Config) (hc : c.WF) (env : Env) (t : Nat) (rem : List Item) :
    Dist.mass (pickEnabled c env t rem) = 1 := by
  rcases hen : enabledAt env t rem with _ | ⟨y, _ | ⟨z, l⟩⟩
  · rw [pickEnabled_nil _ _ _ _ hen]; exact Dist.mass_pure _
  · rw [pickEnabled_single c hc _ _ _ _ hen]; exact Dist.mass_pure _
  · have hlen : 2 ≤ (enabledAt env t rem).length := by rw [hen]; simp
    rw [pickEnabled_many c hc _ _ _ hlen]; exact weightedPick_mass c hc.2.2.2 _

theorem choose_prob_aux (c : Config) (hc : c.WF) (env : Env) (t : Nat) (items : List Item)
    (hid : (items.map (·.id)).Nodup)
    (hnn : ∀ x ∈ enabledAt env t items, 0 ≤ x.weight)
    (hpos : enabledAt env t items ≠ [] → 0 < totalW (enabledAt env t items))
    (x : Item) (hx : x ∈ items) :
    Dist.prob (doChoose c env t items) (fun o => decide (o = chooseOutcome env t x)) =
      if x ∈ enabledAt env t items then x.weight / totalW (enabledAt env t items) else 0 := by
  unfold doChoose
  rw [Dist.prob_bind]
  refine Eq.trans (Dist.sum_indicator (pickEnabled c env t items) (Pick.picked x)
      (fun p => Dist.prob (chooseStep env t p) (fun o => decide (o = chooseOutcome env t x))) 1 ?_) ?_
  rotate_left
  · rw [pick_prob c hc env t items (nodup_of_ids _ hid) hnn hpos x]; ring
  · intro ap hap
    obtain ⟨p, q⟩ := ap
    cases p with
    | picked y =>
      have hy : y ∈ items := (mem_enabledAt.mp (pick_support c env t items y q hap)).1
      simp only [chooseStep, Dist.prob_pure]
      by_cases hyx : y = x
      · subst hyx; simp [chooseOutcome]
      · have hne : y.id ≠ x.id := fun e => hyx (id_inj items hid y hy x hx e)
        simp [hyx, chooseOutcome, ranEvent, hne]
    | deadlock => simp [chooseStep, Dist.prob_pure, failOutcome, chooseOutcome]
    | emptyDomain => simp [chooseStep, Dist.prob_pure, failOutcome, chooseOutcome]
    | negWeight => simp [chooseStep, Dist.prob_pure, failOutcome, chooseOutcome]
    | crash => simp [chooseStep, Dist.prob_pure, failOutcome, chooseOutcome]


/-! ### shuffle -/

def timeline (env : Env) : Nat → List Item → List Event
  | _, [] => []
  | t, x :: rest => ranEvent t x :: timeline env (t + env.dur x.id t) rest

def endOf (env : Env) : Nat → List Item → Nat
  | t, [] => t
  | t, x :: rest => endOf env (t + env.dur x.id t) rest

/-- the outcome "the items ran to completion in exactly this order, the first one started at `t`" -/
def orderOutcome (env : Env) (t : Nat) (order : List Item) : Outcome :=
  ⟨timeline env t order, endOf env t order, .done⟩

/-- stated probability of picking `x` among the not-yet-run items `rem` at step `t` -/
def pickProb (env : Env) (t : Nat) (rem : List Item) (x : Item) : Rat :=
  if x ∈ enabledAt env t rem then x.weight / totalW (enabledAt env t rem) else 0

/-- the product formula: each factor conditions on the items still to run and on the step the pick happens at -/
def orderProb (env : Env) : Nat → List Item → List Item → Rat
  | _, rem, [] => if rem = [] then 1 else 0
  | t, rem, x :: rest => pickProb env t rem x * orderProb env (t + env.dur x.id t) (rem.erase x) rest

theorem shuffleAux_zero (c : Config) (env : Env) (t : Nat) (rem : List Item) :
    shuffleAux c env 0 t rem = Dist.pure ⟨[], t, .done⟩ := by
  simp [shuffleAux]

theorem shuffleAux_succ (c : Config) (env : Env) (n t : Nat) (rem : List Item) (h : rem ≠ []) :
    shuffleAux c env (n + 1) t rem =
      Dist.bind (pickEnabled c env t rem) (shuffleStep env t (shuffleAux c env n) rem) := by
  cases rem with
  | nil => exact absurd rfl h
  | cons a l => simp [shuffleAux]

theorem shuffleAux_succ_nil (c : Config) (env : Env) (n t : Nat) :
    shuffleAux c env (n + 1) t [] = Dist.pure ⟨[], t, .done⟩ := by
  simp [shuffleAux]

theorem prepend_eq_iff (e e' : Event) (o : Outcome) (l : List Event) (t' : Nat) (s : Status) :
    Outcome.prepend [e] o = ⟨e' :: l, t', s⟩ ↔ e = e' ∧ o = ⟨l, t', s⟩ := by
  obtain ⟨lg, et, st⟩ := o
  simp [Outcome.prepend, and_assoc]

theorem prepend_ne_nil (e : Event) (o : Outcome) (t' : Nat) (s : Status) :
    Outcome.prepend [e] o ≠ ⟨[], t', s⟩ := by
  obtain ⟨lg, et, st⟩ := o
  simp [Outcome.prepend]

theorem failOutcome_ne_done {α : Type} (t : Nat) (p : Pick α) (l : List Event) (e : Nat) :
    failOutcome t p ≠ ⟨l, e, .done⟩ := by
  intro h
  have := failOutcome_status t p
  rw [h] at this
  exact this rfl

theorem shuffleAux_order_prob (c : Config) (hc : c.WF) (env : Env) (U : List Item)
    (hinj : ∀ a ∈ U, ∀ b ∈ U, a.id = b.id → a = b) (hw : ∀ x ∈ U, 0 < x.weight) :
    ∀ (n t : Nat) (rem : List Item), rem.length = n → rem.Nodup → (∀ x ∈ rem, x ∈ U) →
      ∀ order : List Item, (∀ y ∈ order, y ∈ U) →
      Dist.prob (shuffleAux c env n t rem) (fun o => decide (o = orderOutcome env t order)) =
        orderProb env t rem order := by
  intro n
  induction n with
  | zero =>
    intro t rem hlen _ _ order _
    have : rem = [] := List.eq_nil_of_length_eq_zero hlen
    subst this
    rw [shuffleAux_zero, Dist.prob_pure]
    cases order with
    | nil => simp [orderOutcome, timeline, endOf, orderProb]
    | cons y rest => simp [orderOutcome, timeline, endOf, orderProb, pickProb, enabledAt]
  | succ n ih =>
    intro t rem hlen hnd hU order hO
    have hne : rem ≠ [] := by intro h; rw [h] at hlen; simp at hlen
    rw [shuffleAux_succ c env n t rem hne]
    cases order with
    | nil =>
      rw [show orderProb env t rem [] = 0 by simp [orderProb, hne]]
      apply Dist.prob_false
      intro ap hap
      obtain ⟨o, q⟩ := ap
      rw [Dist.mem_bind] at hap
      obtain ⟨p, q1, q2, hp, ho, _⟩ := hap
      by_cases hp' : ∃ x, p = .picked x
      · obtain ⟨x, rfl⟩ := hp'
        simp only [shuffleStep] at ho
        rw [Dist.mem_map] at ho
        obtain ⟨o', _, rfl⟩ := ho
        exact decide_eq_false (prepend_ne_nil _ _ _ _)
      · have hnp : ∀ x, p ≠ .picked x := fun x e => hp' ⟨x, e⟩
        rw [shuffleStep_fail _ _ _ _ _ hnp, Dist.mem_pure] at ho
        obtain ⟨rfl, _⟩ := ho
        exact decide_eq_false (failOutcome_ne_done _ _ _ _)
    | cons y rest =>
      rw [Dist.prob_bind]
      have hyU : y ∈ U := hO y (List.mem_cons_self)
      have hwen : ∀ z ∈ enabledAt env t rem, 0 < z.weight := fun z hz => hw z (hU z (mem_enabledAt.mp hz).1)
      refine Eq.trans (Dist.sum_indicator (pickEnabled c env t rem) (Pick.picked y)
        (fun p => Dist.prob (shuffleStep env t (shuffleAux c env n) rem p)
          (fun o => decide (o = orderOutcome env t (y :: rest))))
        (orderProb env (t + env.dur y.id t) (rem.erase y) rest) ?_) ?_
      rotate_left
      · rw [pick_prob c hc env t rem hnd (fun z hz => le_of_lt (hwen z hz))
          (fun hne' => totalW_pos_of _ hwen hne') y]
        simp [orderProb, pickProb]
      · intro ap hap
        obtain ⟨p, q⟩ := ap
        by_cases hp' : ∃ x, p = .picked x
        · obtain ⟨x, rfl⟩ := hp'
          have hx : x ∈ enabledAt env t rem := pick_support c env t rem x q hap
          have hxr : x ∈ rem := (mem_enabledAt.mp hx).1
          simp only [shuffleStep]
          rw [Dist.prob_map]
          by_cases hxy : x = y
          · subst hxy
            simp only [if_true]
            have hlen' : (rem.erase x).length = n := by
              rw [List.length_erase_of_mem hxr]; omega
            rw [← ih (t + env.dur x.id t) (rem.erase x) hlen'
              (List.Nodup.sublist List.erase_sublist hnd)
              (fun z hz => hU z (List.mem_of_mem_erase hz)) rest
              (fun z hz => hO z (List.mem_cons_of_mem _ hz))]
            apply Dist.prob_congr
            intro ap _
            apply decide_eq_decide.mpr
            simp only [orderOutcome, timeline, endOf]
            rw [prepend_eq_iff]; simp
          · have hne' : x.id ≠ y.id := fun e => hxy (hinj x (hU x hxr) y hyU e)
            have hpne : ¬ (Pick.picked x = Pick.picked y) := by simpa using hxy
            rw [if_neg hpne]
            apply Dist.prob_false
            intro ap _
            simp [orderOutcome, timeline, endOf, prepend_eq_iff, ranEvent, hne']
        · have hnp : ∀ x, p ≠ .picked x := fun x e => hp' ⟨x, e⟩
          simp only []
          rw [shuffleStep_fail _ _ _ _ _ hnp, Dist.prob_pure, if_neg (hnp y)]
          rw [if_neg]
          rw [decide_eq_true_eq]
          exact failOutcome_ne_done t p _ _

theorem shuffleAux_perm (c : Config) (env : Env) :
    ∀ (n t : Nat) (rem : List Item), rem.length = n → ∀ (o : Outcome) (q : Rat),
      (o, q) ∈ shuffleAux c env n t rem → o.status = .done →
      (o.log.map (·.val)).Perm (rem.map fun x => (x.id : Int)) := by
  intro n
  induction n with
  | zero =>
    intro t rem hlen o q h _
    have : rem = [] := List.eq_nil_of_length_eq_zero hlen
    subst this
    rw [shuffleAux_zero, Dist.mem_pure] at h
    obtain ⟨rfl, _⟩ := h
    simp
  | succ n ih =>
    intro t rem hlen o q h hs
    have hne : rem ≠ [] := by intro h; rw [h] at hlen; simp at hlen
    rw [shuffleAux_succ c env n t rem hne, Dist.mem_bind] at h
    obtain ⟨p, q1, q2, hp, ho, _⟩ := h
    by_cases hp' : ∃ x, p = .picked x
    · obtain ⟨x, rfl⟩ := hp'
      have hxr : x ∈ rem := (mem_enabledAt.mp (pick_support c env t rem x q1 hp)).1
      simp only [shuffleStep] at ho
      rw [Dist.mem_map] at ho
      obtain ⟨o', ho', rfl⟩ := ho
      have hlen' : (rem.erase x).length = n := by
        rw [List.length_erase_of_mem hxr]; omega
      have hs' : o'.status = .done := by simpa [Outcome.prepend] using hs
      have := ih (t + env.dur x.id t) (rem.erase x) hlen' o' q2 ho' hs'
      simp only [Outcome.prepend, List.map_cons, List.singleton_append, ranEvent]
      exact (List.Perm.cons _ this).trans ((List.perm_cons_erase hxr).map (fun x : Item => (x.id : Int))).symm
    · have hnp : ∀ x, p ≠ .picked x := fun x e => hp' ⟨x, e⟩
      rw [shuffleStep_fail _ _ _ _ _ hnp, Dist.mem_pure] at ho
      obtain ⟨rfl, _⟩ := ho
      exact absurd hs (failOutcome_status t p)

/-! ### total mass -/

theorem shuffleAux_mass (c : Config) (hc : c.WF) (env : Env) :
    ∀ (n t : Nat) (rem : List Item), Dist.mass (shuffleAux c env n t rem) = 1 := by
  intro n
  induction n with
  | zero => intro t rem; rw [shuffleAux_zero]; exact Dist.mass_pure _
  | succ n ih =>
    intro t rem
    by_cases hne : rem = []
    · subst hne; rw [shuffleAux_succ_nil]; exact Dist.mass_pure _
    · rw [shuffleAux_succ c env n t rem hne, Dist.mass_bind, pick_mass c hc]
      intro ap _
      obtain ⟨p, q⟩ := ap
      cases p with
      | picked x => simp only [shuffleStep]; rw [Dist.mass_map]; exact ih _ _
      | deadlock => exact Dist.mass_pure _
      | emptyDomain => exact Dist.mass_pure _
      | negWeight => exact Dist.mass_pure _
      | crash => exact Dist.mass_pure _

theorem doChoose_mass (c : Config) (hc : c.WF) (env : Env) (t : Nat) (items : List Item) :
    Dist.mass (doChoose c env t items) = 1 := by
  unfold doChoose
  rw [Dist.mass_bind, pick_mass c hc]
  intro ap _
  obtain ⟨p, q⟩ := ap
  cases p <;> exact Dist.mass_pure _

theorem mass_const {α : Type} (xs : List α) (r : Rat) : Dist.mass (xs.map fun x => (x, r)) = xs.length * r := by
  induction xs with
  | nil => simp [Dist.mass]
  | cons a l ih =>
    unfold Dist.mass at *
    simp only [List.map_cons, List.sum_cons, List.length_cons, ih]
    push_cast; ring

theorem uniformOn_mass {α : Type} (xs : List α) (h : xs ≠ []) : Dist.mass (uniformOn xs) = 1 := by
  unfold uniformOn
  rw [mass_const]
  have h1 : 0 < xs.length := List.length_pos_iff.mpr h
  have h2 : (xs.length : Rat) ≠ 0 := by exact_mod_cast (Nat.pos_iff_ne_zero.mp h1)
  field_simp

theorem intRange_length (lo : Int) (n : Nat) : (intRange lo n).length = n := by
  induction n generalizing lo with
  | zero => rfl
  | succ n ih => simp [intRange, ih]

theorem drawDist_mass (c : Config) (hc : c.WF) (vals : List Int) (s : DrawSpec) :
    Dist.mass (drawDist c vals s) = 1 := by
  cases s with
  | range lo hi =>
    simp only [drawDist]
    split
    · exact Dist.mass_pure _
    · rename_i h
      apply uniformOn_mass
      intro hnil
      have := congrArg List.length hnil
      simp [intRange_length] at this
      omega
  | weighted opts => exact weightedPick_mass c hc.2.2.2 _
  | uniform opts =>
    simp only [drawDist]
    split
    · exact Dist.mass_pure _
    · rename_i h
      apply uniformOn_mass
      intro hnil
      simp at hnil
      simp [hnil] at h

theorem andThen_mass (o : Outcome) (k : Nat → Dist Outcome) (h : ∀ t, Dist.mass (k t) = 1) :
    Dist.mass (andThen o k) = 1 := by
  unfold andThen
  split
  · rw [Dist.mass_map]; exact h _
  · exact Dist.mass_pure _

theorem exec_mass (c : Config) (hc : c.WF) (env : Env) :
    ∀ (ss : List Stmt) (t : Nat) (vals : List Int) (st : Store), Dist.mass (exec c env ss t vals st) = 1 := by
  intro ss
  induction ss with
  | nil => intro t vals st; simp only [exec]; exact Dist.mass_pure _
  | cons s ss ih =>
    intro t vals st
    cases s with
    | wait n => simp only [exec]; exact ih _ _ _
    | draw d =>
      simp only [exec]
      rw [Dist.mass_bind, drawDist_mass c hc]
      intro ap _
      obtain ⟨p, q⟩ := ap
      cases p with
      | picked z => simp only [drawStep]; rw [Dist.mass_map]; exact ih _ _ _
      | deadlock => exact Dist.mass_pure _
      | emptyDomain => exact Dist.mass_pure _
      | negWeight => exact Dist.mass_pure _
      | crash => exact Dist.mass_pure _
    | choose items =>
      simp only [exec]
      rw [Dist.mass_bind, doChoose_mass c hc]
      intro ap _
      exact andThen_mass _ _ (fun t' => ih t' vals st)
    | shuffle items =>
      simp only [exec]
      rw [Dist.mass_bind]
      · exact shuffleAux_mass c hc env _ _ _
      · intro ap _
        exact andThen_mass _ _ (fun t' => ih t' vals st)
    | chooseVar k =>
      simp only [exec]
      rw [Dist.mass_bind, doChoose_mass c hc]
      intro ap _
      exact andThen_mass _ _ (fun t' => ih t' vals st)
    | shuffleVar k =>
      simp only [exec]
      rw [Dist.mass_bind]
      · exact shuffleAux_mass c hc env _ _ _
      · intro ap _
        exact andThen_mass _ _ (fun t' => ih t' vals _)


/-! ### run-time draws -/

def drawEvents : Nat → List Int → List Event
  | _, [] => []
  | t, v :: vs => ⟨t, 1, v⟩ :: drawEvents (t + 1) vs

/-- chain rule: each factor is the *stated* distribution of that statement given the values drawn before it -/
def chainProb (c : Config) : List Int → List DrawSpec → List Int → Rat
  | _, [], [] => 1
  | vals, s :: ss, v :: vs =>
    Dist.prob (drawDist c vals s) (fun p => decide (p = Pick.picked v)) * chainProb c (vals ++ [v]) ss vs
  | _, _, _ => 0

def Operand.closed : Operand → Bool
  | .const _ => true
  | .prev _ => false

/-- the distribution expression does not mention earlier draws -/
def DrawSpec.closed : DrawSpec → Bool
  | .range lo hi => lo.closed && hi.closed
  | _ => true

/-- product of the stated marginals (each taken with an empty history) -/
def indepProb (c : Config) : List DrawSpec → List Int → Rat
  | [], [] => 1
  | s :: ss, v :: vs => Dist.prob (drawDist c [] s) (fun p => decide (p = Pick.picked v)) * indepProb c ss vs
  | _, _ => 0

theorem drawStep_fail (t : Nat) (r : Int → Dist Outcome) (p : Pick Int) (h : ∀ z, p ≠ .picked z) :
    drawStep t r p = Dist.pure (failOutcome t p) := by
  cases p with
  | picked x => exact absurd rfl (h x)
  | _ => rfl

theorem exec_draws_chain (c : Config) (env : Env) :
    ∀ (ss : List DrawSpec) (vals : List Int) (t : Nat) (vs : List Int) (st : Store),
      Dist.prob (exec c env (ss.map Stmt.draw) t vals st)
        (fun o => decide (o = ⟨drawEvents t vs, t + ss.length, .done⟩)) = chainProb c vals ss vs := by
  intro ss
  induction ss with
  | nil =>
    intro vals t vs st
    simp only [List.map_nil, exec, Dist.prob_pure]
    cases vs with
    | nil => simp [drawEvents, chainProb]
    | cons v vs => simp [drawEvents, chainProb]
  | cons s ss ih =>
    intro vals t vs st
    simp only [List.map_cons, exec]
    cases vs with
    | nil =>
      rw [show chainProb c vals (s :: ss) [] = 0 by simp [chainProb]]
      apply Dist.prob_false
      intro ap hap
      obtain ⟨o, q⟩ := ap
      rw [Dist.mem_bind] at hap
      obtain ⟨p, q1, q2, hp, ho, _⟩ := hap
      by_cases hp' : ∃ z, p = .picked z
      · obtain ⟨z, rfl⟩ := hp'
        simp only [drawStep] at ho
        rw [Dist.mem_map] at ho
        obtain ⟨o', _, rfl⟩ := ho
        exact decide_eq_false (prepend_ne_nil _ _ _ _)
      · have hnp : ∀ z, p ≠ .picked z := fun z e => hp' ⟨z, e⟩
        rw [drawStep_fail _ _ _ hnp, Dist.mem_pure] at ho
        obtain ⟨rfl, _⟩ := ho
        exact decide_eq_false (failOutcome_ne_done _ _ _ _)
    | cons v vs =>
      rw [Dist.prob_bind]
      refine Eq.trans (Dist.sum_indicator (drawDist c vals s) (Pick.picked v)
        (fun p => Dist.prob (drawStep t (fun z => exec c env (ss.map Stmt.draw) (t + 1) (vals ++ [z]) st) p)
          (fun o => decide (o = ⟨drawEvents t (v :: vs), t + (s :: ss).length, .done⟩)))
        (chainProb c (vals ++ [v]) ss vs) ?_) ?_
      rotate_left
      · simp [chainProb]
      · intro ap hap
        obtain ⟨p, q⟩ := ap
        by_cases hp' : ∃ z, p = .picked z
        · obtain ⟨z, rfl⟩ := hp'
          simp only [drawStep]
          rw [Dist.prob_map]
          have hlen : t + (s :: ss).length = t + 1 + ss.length := by simp; omega
          by_cases hzv : z = v
          · subst hzv
            simp only [if_true]
            rw [← ih (vals ++ [z]) (t + 1) vs st]
            apply Dist.prob_congr
            intro ap _
            apply decide_eq_decide.mpr
            simp only [drawEvents]
            rw [prepend_eq_iff, hlen]; simp
          · have hpne : ¬ (Pick.picked z = Pick.picked v) := by simpa using hzv
            rw [if_neg hpne]
            apply Dist.prob_false
            intro ap _
            apply decide_eq_false
            simp only [drawEvents]
            rw [prepend_eq_iff]
            intro h
            apply hzv
            have := h.1
            simpa using this
        · have hnp : ∀ z, p ≠ .picked z := fun z e => hp' ⟨z, e⟩
          simp only []
          rw [drawStep_fail _ _ _ hnp, Dist.prob_pure, if_neg (hnp v)]
          rw [if_neg]
          rw [decide_eq_true_eq]
          exact failOutcome_ne_done t p _ _

theorem drawDist_closed (c : Config) (vals : List Int) (s : DrawSpec) (h : s.closed = true) :
    drawDist c vals s = drawDist c [] s := by
  cases s with
  | range lo hi =>
    cases lo <;> cases hi <;> first | rfl | (simp [DrawSpec.closed, Operand.closed] at h)
  | weighted opts => rfl
  | uniform opts => rfl

theorem chainProb_indep (c : Config) :
    ∀ (ss : List DrawSpec) (vals : List Int) (vs : List Int), (∀ s ∈ ss, s.closed = true) →
      chainProb c vals ss vs = indepProb c ss vs := by
  intro ss
  induction ss with
  | nil => intro vals vs _; cases vs <;> simp [chainProb, indepProb]
  | cons s ss ih =>
    intro vals vs h
    cases vs with
    | nil => simp [chainProb, indepProb]
    | cons v vs =>
      simp only [chainProb, indepProb]
      rw [drawDist_closed c vals s (h s (List.mem_cons_self)),
        ih (vals ++ [v]) vs (fun s' hs' => h s' (List.mem_cons_of_mem _ hs'))]

/-! ### the stated marginals -/

theorem prob_const_picked (xs : List Int) (r : Rat) (v : Int) :
    Dist.prob ((xs.map Pick.picked).map fun x => (x, r)) (fun p => decide (p = Pick.picked v)) =
      (xs.count v : Rat) * r := by
  induction xs with
  | nil => simp [Dist.prob_nil]
  | cons a l ih =>
    simp only [List.map_cons]
    rw [Dist.prob_cons, ih, List.count_cons]
    by_cases h : a = v
    · subst h; simp; ring
    · simp [h]

theorem count_intRange (lo : Int) (n : Nat) (v : Int) :
    (intRange lo n).count v = if lo ≤ v ∧ v < lo + n then 1 else 0 := by
  induction n generalizing lo with
  | zero => simp [intRange]
  | succ n ih =>
    simp only [intRange, List.count_cons, ih]
    push_cast
    by_cases h : lo = v
    · subst h
      have h1 : ¬ (lo + 1 ≤ lo ∧ lo < lo + 1 + (n : Int)) := by omega
      have h2 : lo ≤ lo ∧ lo < lo + ((n : Int) + 1) := by omega
      simp only [if_neg h1, if_pos h2]; simp
    · by_cases h3 : lo + 1 ≤ v ∧ v < lo + 1 + (n : Int)
      · have h2 : lo ≤ v ∧ v < lo + ((n : Int) + 1) := by omega
        simp only [if_pos h3, if_pos h2]; simp [h]
      · have h2 : ¬ (lo ≤ v ∧ v < lo + ((n : Int) + 1)) := by omega
        simp only [if_neg h3, if_neg h2]; simp [h]

theorem drawDist_range_const (c : Config) (vals : List Int) (l h : Int) (hlh : l ≤ h) :
    drawDist c vals (.range (.const l) (.const h)) =
      uniformOn ((intRange l (h - l + 1).toNat).map Pick.picked) := by
  show (if h < l then Dist.pure Pick.emptyDomain
    else uniformOn ((intRange l (h - l + 1).toNat).map Pick.picked)) = _
  rw [if_neg (by omega)]

/-- `DiscreteRange(l, h)` evaluated at run time is uniform on the integers `l..h` -/
theorem range_prob (c : Config) (vals : List Int) (l h v : Int) (hlh : l ≤ h) :
    Dist.prob (drawDist c vals (.range (.const l) (.const h))) (fun p => decide (p = Pick.picked v)) =
      if l ≤ v ∧ v ≤ h then 1 / ((h - l + 1 : Int) : Rat) else 0 := by
  rw [drawDist_range_const c vals l h hlh]
  unfold uniformOn
  rw [prob_const_picked, count_intRange, List.length_map, intRange_length]
  have hn : (((h - l + 1).toNat : Nat) : Int) = h - l + 1 := by omega
  have hn' : (((h - l + 1).toNat : Nat) : Rat) = ((h - l + 1 : Int) : Rat) := by
    have e : (((h - l + 1).toNat : Nat) : Rat) = ((((h - l + 1).toNat : Nat) : Int) : Rat) :=
      (Int.cast_natCast _).symm
    rw [e, hn]
  rw [hn, hn']
  by_cases hv : l ≤ v ∧ v ≤ h
  · have : l ≤ v ∧ v < l + (h - l + 1) := by omega
    simp [hv, this]
  · have : ¬ (l ≤ v ∧ v < l + (h - l + 1)) := by omega
    simp [hv, this]

/-! ### `random.choices`: the set of raw uniform values selecting index `i` is an interval of length `wᵢ / total` -/

theorem bisectRight_cumulative (ws : List Rat) (hpos : ∀ w ∈ ws, 0 < w) (acc x : Rat) (hx : acc ≤ x) (i : Nat)
    (hi : i < ws.length) :
    bisectRight (cumulative acc ws) x = i ↔
      acc + (ws.take i).sum ≤ x ∧ x < acc + (ws.take (i + 1)).sum := by
  induction ws generalizing acc i with
  | nil => simp at hi
  | cons w ws ih =>
    have hw : 0 < w := hpos w (List.mem_cons_self)
    simp only [cumulative, bisectRight]
    cases i with
    | zero =>
      simp only [List.take_zero, List.sum_nil, add_zero, List.take_succ_cons, List.sum_cons]
      by_cases hle : acc + w ≤ x
      · rw [if_pos hle]
        constructor
        · intro h; omega
        · intro h; linarith [h.2]
      · rw [if_neg hle]
        constructor
        · intro _; exact ⟨hx, by linarith⟩
        · intro _; rfl
    | succ j =>
      have hj : j < ws.length := by simpa using hi
      simp only [List.take_succ_cons, List.sum_cons]
      by_cases hle : acc + w ≤ x
      · rw [if_pos hle]
        have := ih (fun w' hw' => hpos w' (List.mem_cons_of_mem _ hw')) (acc + w) hle j hj
        constructor
        · intro h
          have h' : bisectRight (cumulative (acc + w) ws) x = j := by omega
          have := this.mp h'
          constructor <;> linarith [this.1, this.2]
        · intro h
          have h' : acc + w + (ws.take j).sum ≤ x ∧ x < acc + w + (ws.take (j + 1)).sum := by
            constructor <;> linarith [h.1, h.2]
          have := this.mpr h'
          omega
      · rw [if_neg hle]
        constructor
        · intro h; omega
        · intro h
          exfalso
          have hnn : 0 ≤ (ws.take j).sum := by
            have : ∀ (l : List Rat), (∀ w ∈ l, 0 < w) → 0 ≤ l.sum := by
              intro l hl
              induction l with
              | nil => simp
              | cons a l ihl =>
                rw [List.sum_cons]
                have := hl a (List.mem_cons_self)
                have := ihl (fun w hw => hl w (List.mem_cons_of_mem _ hw))
                linarith
            exact this _ (fun w' hw' => hpos w' (List.mem_cons_of_mem _ (List.mem_of_mem_take hw')))
          linarith [h.1]


theorem bisectRight_lt (ws : List Rat) (hpos : ∀ w ∈ ws, 0 < w) (acc x : Rat) (hx : acc ≤ x)
    (hlt : x < acc + ws.sum) : bisectRight (cumulative acc ws) x < ws.length := by
  induction ws generalizing acc with
  | nil => simp at hlt; linarith
  | cons w ws ih =>
    simp only [cumulative, bisectRight, List.length_cons]
    by_cases hle : acc + w ≤ x
    · rw [if_pos hle]
      have := ih (fun w' hw' => hpos w' (List.mem_cons_of_mem _ hw')) (acc + w) hle
        (by rw [List.sum_cons] at hlt; linarith)
      omega
    · rw [if_neg hle]; omega

theorem sum_pos_of_pos (ws : List Rat) (hpos : ∀ w ∈ ws, 0 < w) (hne : ws ≠ []) : 0 < ws.sum := by
  cases ws with
  | nil => exact absurd rfl hne
  | cons w ws =>
    rw [List.sum_cons]
    have h1 := hpos w (List.mem_cons_self)
    have h2 : 0 ≤ ws.sum := by
      have : ∀ (l : List Rat), (∀ w ∈ l, 0 < w) → 0 ≤ l.sum := by
        intro l hl
        induction l with
        | nil => simp
        | cons a l ihl =>
          rw [List.sum_cons]
          have := hl a (List.mem_cons_self)
          have := ihl (fun w hw => hl w (List.mem_cons_of_mem _ hw))
          linarith
      exact this ws (fun w' hw' => hpos w' (List.mem_cons_of_mem _ hw'))
    linarith


/-! ### rejection happens only at a deadlock -/

theorem weightedPick_reject {α : Type} (c : Config) (hc : c.dropZero = true) (xs : List (α × Rat)) (p : Pick α)
    (q : Rat) (h : (p, q) ∈ weightedPick c xs) (hp : p = .deadlock ∨ p = .emptyDomain) : ∀ x ∈ xs, x.2 = 0 := by
  unfold weightedPick at h
  by_cases h1 : (xs.any fun x => decide (x.2 < 0)) = true
  · rw [if_pos h1, Dist.mem_pure] at h
    rcases hp with rfl | rfl <;> simp at h
  · rw [if_neg h1] at h
    simp only [hc, if_true] at h
    by_cases h2 : (xs.filter (fun x => x.2 != 0)).isEmpty = true
    · intro x hx
      have hnil : xs.filter (fun x => x.2 != 0) = [] := List.isEmpty_iff.mp h2
      have := List.filter_eq_nil_iff.mp hnil x hx
      simpa using this
    · rw [if_neg h2] at h
      simp only [List.mem_map, Prod.mk.injEq] at h
      obtain ⟨x, _, hx, _⟩ := h
      rcases hp with rfl | rfl <;> simp at hx

theorem pick_reject (c : Config) (hc : c.WF) (env : Env) (t : Nat) (rem : List Item) (p : Pick Item) (q : Rat)
    (h : (p, q) ∈ pickEnabled c env t rem) (hp : p = .deadlock ∨ p = .emptyDomain) :
    ∀ x ∈ enabledAt env t rem, x.weight = 0 := by
  rcases hen : enabledAt env t rem with _ | ⟨y, _ | ⟨z, l⟩⟩
  · intro x hx; cases hx
  · rw [pickEnabled_single c hc _ _ _ _ hen, Dist.mem_pure] at h
    rcases hp with rfl | rfl <;> simp at h
  · have hlen : 2 ≤ (enabledAt env t rem).length := by rw [hen]; simp
    rw [pickEnabled_many c hc _ _ _ hlen] at h
    have := weightedPick_reject c hc.2.2.2 _ p q h hp
    intro x hx
    rw [← hen] at hx
    exact this (x, x.weight) (List.mem_map.mpr ⟨x, hx, rfl⟩)

theorem failOutcome_rejected {α : Type} (t : Nat) (p : Pick α) (h : (failOutcome t p).status = .rejected) :
    p = .deadlock ∨ p = .emptyDomain := by
  cases p <;> simp [failOutcome] at h ⊢

theorem failOutcome_log {α : Type} (t : Nat) (p : Pick α) : (failOutcome t p).log = [] ∧ (failOutcome t p).endTime = t := by
  cases p <;> simp [failOutcome]

theorem shuffleAux_rejected (c : Config) (hc : c.WF) (env : Env) :
    ∀ (n t : Nat) (rem : List Item), rem.length = n → ∀ (o : Outcome) (q : Rat),
      (o, q) ∈ shuffleAux c env n t rem → o.status = .rejected →
      ∃ rest : List Item, rest ≠ [] ∧
        ((o.log.map (·.val)) ++ rest.map (fun x => (x.id : Int))).Perm (rem.map fun x => (x.id : Int)) ∧
        ∀ x ∈ enabledAt env o.endTime rest, x.weight = 0 := by
  intro n
  induction n with
  | zero =>
    intro t rem _ o q h hs
    rw [shuffleAux_zero, Dist.mem_pure] at h
    obtain ⟨rfl, _⟩ := h
    simp at hs
  | succ n ih =>
    intro t rem hlen o q h hs
    have hne : rem ≠ [] := by intro h; rw [h] at hlen; simp at hlen
    rw [shuffleAux_succ c env n t rem hne, Dist.mem_bind] at h
    obtain ⟨p, q1, q2, hp, ho, _⟩ := h
    by_cases hp' : ∃ x, p = .picked x
    · obtain ⟨x, rfl⟩ := hp'
      have hxr : x ∈ rem := (mem_enabledAt.mp (pick_support c env t rem x q1 hp)).1
      simp only [shuffleStep] at ho
      rw [Dist.mem_map] at ho
      obtain ⟨o', ho', rfl⟩ := ho
      have hlen' : (rem.erase x).length = n := by
        rw [List.length_erase_of_mem hxr]; omega
      have hs' : o'.status = .rejected := by simpa [Outcome.prepend] using hs
      obtain ⟨rest, hrne, hperm, hz⟩ := ih (t + env.dur x.id t) (rem.erase x) hlen' o' q2 ho' hs'
      refine ⟨rest, hrne, ?_, ?_⟩
      · simp only [Outcome.prepend, List.map_cons, ranEvent, List.cons_append]
        exact (List.Perm.cons _ hperm).trans ((List.perm_cons_erase hxr).map (fun x : Item => (x.id : Int))).symm
      · simpa [Outcome.prepend] using hz
    · have hnp : ∀ x, p ≠ .picked x := fun x e => hp' ⟨x, e⟩
      rw [shuffleStep_fail _ _ _ _ _ hnp, Dist.mem_pure] at ho
      obtain ⟨rfl, _⟩ := ho
      have hpr := failOutcome_rejected t p hs
      have hl := failOutcome_log t p
      refine ⟨rem, hne, ?_, ?_⟩
      · rw [hl.1]; simp
      · rw [hl.2]; exact pick_reject c hc env t rem p q1 hp hpr

end Scenic.Choose
