import ScenicModel.Model.Rewrites
/-!
# Lemmas about the compile-step model (C09): locations are filled and kept, no line number is invented,
  and nothing happens off the triggers.
-/
namespace Scenic.Rewrites

theorem fixLoc_located (cur : Nat × Nat) (t : T) : located (fixLoc cur t) = true := by
  induction t generalizing cur with
  | nil => rfl
  | atom s => rfl
  | ident s => rfl
  | cons h t ih1 ih2 => simp [fixLoc, located, ih1, ih2]
  | node tag loc fs ih =>
    cases loc <;> simp [fixLoc, located, ih]

theorem fixLoc_id (cur : Nat × Nat) (t : T) (h : located t = true) : fixLoc cur t = t := by
  induction t generalizing cur with
  | nil => rfl
  | atom s => rfl
  | ident s => rfl
  | cons a b ih1 ih2 =>
    simp only [located, Bool.and_eq_true] at h
    simp [fixLoc, ih1 _ h.1, ih2 _ h.2]
  | node tag loc fs ih =>
    cases loc with
    | missing => simp [located] at h
    | noattr => simp only [located, Bool.true_and] at h; simp [fixLoc, ih _ h]
    | «at» l el => simp only [located, Bool.true_and] at h; simp [fixLoc, ih _ h]

def locLines : Loc → List Nat
  | .at l el => [l, el]
  | _ => []

theorem lines_node (tag : String) (loc : Loc) (fs : T) : lines (.node tag loc fs) = locLines loc ++ lines fs := by
  cases loc <;> simp [lines, locLines]

theorem fixLoc_lines (cur : Nat × Nat) (t : T) :
    ∀ n ∈ lines (fixLoc cur t), n ∈ lines t ∨ n = cur.1 ∨ n = cur.2 := by
  induction t generalizing cur with
  | nil => intro n h; simp [fixLoc, lines] at h
  | atom s => intro n h; simp [fixLoc, lines] at h
  | ident s => intro n h; simp [fixLoc, lines] at h
  | cons a b ih1 ih2 =>
    intro n h
    simp only [fixLoc, lines, List.mem_append] at h ⊢
    rcases h with h | h
    · rcases ih1 cur n h with h' | h' <;> simp [h']
    · rcases ih2 cur n h with h' | h' <;> simp [h']
  | node tag loc fs ih =>
    intro n h
    cases loc with
    | noattr =>
      simp only [fixLoc, lines, List.nil_append] at h ⊢
      exact ih cur n h
    | missing =>
      simp only [fixLoc, lines, List.nil_append, List.cons_append, List.mem_cons] at h ⊢
      rcases h with h | h | h
      · simp [h]
      · simp [h]
      · exact ih cur n h
    | «at» l el =>
      simp only [fixLoc, lines, List.cons_append, List.nil_append, List.mem_cons] at h ⊢
      rcases h with h | h | h
      · simp [h]
      · simp [h]
      · rcases ih (l, el) n h with h' | h' | h'
        · simp [h']
        · simp at h'; simp [h']
        · simp at h'; simp [h']


/-! ### the node-specific rewrites keep the location of the node they replace -/

theorem postName_rootLoc {cfg : Cfg} {loc : Loc} {fs t' : T} (h : postName cfg loc fs = some t') :
    rootLoc t' = loc := by
  unfold postName at h
  repeat' split at h
  all_goals first
    | (simp at h; done)
    | (simp only [Option.some.injEq] at h; subst h; rfl)

theorem postCall_rootLoc (cfg : Cfg) (loc : Loc) (fs' : T) : rootLoc (postCall cfg loc fs') = loc := by
  unfold postCall
  repeat' split
  all_goals rfl

theorem postClass_rootLoc {cfg : Cfg} {loc : Loc} {fs fs' t' : T} (h : postClass cfg loc fs fs' = some t') :
    rootLoc t' = loc := by
  unfold postClass at h
  split at h
  · split at h
    · simp at h
    · simp only [Option.bind_eq_bind, Option.bind_eq_some_iff] at h
      obtain ⟨_, _, _, _, h⟩ := h
      simp only [Option.some.injEq] at h; subst h; rfl
  · simp only [Option.some.injEq] at h; subst h; rfl

/-- a rewritten node carries the location of the node it stands for -/
theorem rw_rootLoc {cfg : Cfg} {tag : String} {loc : Loc} {fs t' : T}
    (h : rw cfg (.node tag loc fs) = some t') : rootLoc t' = loc := by
  simp only [rw, Option.bind_eq_bind, Option.bind_eq_some_iff] at h
  obtain ⟨fs', _, h⟩ := h
  split at h
  · exact postName_rootLoc h
  · split at h
    · simp only [Option.some.injEq] at h; subst h; exact postCall_rootLoc _ _ _
    · split at h
      · exact postClass_rootLoc h
      · simp only [Option.some.injEq] at h; subst h; rfl


/-! ### no line number is invented -/

@[simp] theorem lines_noneAtom : lines noneAtom = [] := rfl
@[simp] theorem lines_mkName (nm : String) : lines (mkName nm) = [] := by
  simp [mkName, lines, list2, idAtom, loadCtx]
@[simp] theorem lines_accessor (loc : Loc) (nm : String) : lines (accessor loc nm) = locLines loc := by
  simp [accessor, lines_node, list3, lines]

theorem postName_lines {cfg : Cfg} {loc : Loc} {fs t' : T} (h : postName cfg loc fs = some t') :
    ∀ n ∈ lines t', n ∈ locLines loc ++ lines fs := by
  unfold postName at h
  repeat' split at h
  all_goals first
    | (simp at h; done)
    | (simp only [Option.some.injEq] at h; subst h; intro n hn
       first
         | (rw [lines_node] at hn; exact hn)
         | (rw [lines_accessor] at hn; exact List.mem_append_left _ hn))

theorem starValue_lines {a v : T} (h : starValue a = some v) : ∀ n ∈ lines v, n ∈ lines a := by
  unfold starValue at h
  split at h
  · split at h
    · simp only [Option.some.injEq] at h; subst h
      intro n hn
      rw [lines_node]; simp [lines, hn]
    · simp at h
  · simp at h

theorem wrappedStar_lines (cfg : Cfg) (v : T) : lines (wrappedStar cfg v) = lines v := by
  simp [wrappedStar, lines_node, locLines, list2, list3, lines, loadCtx, lines_noneAtom]

theorem wrapStars_lines (cfg : Cfg) (args : T) : ∀ n ∈ lines (wrapStars cfg args).1, n ∈ lines args := by
  induction args with
  | cons a rest _ ih =>
    intro n hn
    simp only [wrapStars] at hn
    split at hn
    · rename_i v hv
      simp only [lines, List.mem_append, wrappedStar_lines] at hn ⊢
      rcases hn with hn | hn
      · exact Or.inl (starValue_lines hv n hn)
      · exact Or.inr (ih n hn)
    · simp only [lines, List.mem_append] at hn ⊢
      rcases hn with hn | hn
      · exact Or.inl hn
      · exact Or.inr (ih n hn)
  | _ => intro n hn; simpa [wrapStars] using hn

theorem liftName_lines (cfg : Cfg) (f : T) : ∀ n ∈ lines (liftName cfg f), n ∈ lines f := by
  intro n hn
  unfold liftName at hn
  split at hn
  · rename_i loc nm ctx hp
    split at hn
    · -- f is `Name(id, ctx)` at `loc`
      unfold nameParts at hp
      split at hp
      · split at hp
        · simp only [Option.map_eq_some_iff] at hp
          obtain ⟨_, _, hp⟩ := hp
          simp only [Prod.mk.injEq] at hp
          obtain ⟨rfl, _, rfl⟩ := hp
          rw [lines_node] at hn ⊢
          simp only [lines, list2, idAtom, List.append_nil, List.nil_append, List.mem_append] at hn ⊢
          rcases hn with hn | hn
          · exact Or.inl hn
          · exact Or.inr (Or.inr hn)
        · simp at hp
      · simp at hp
    · exact hn
  · exact hn

theorem postCall_lines (cfg : Cfg) (loc : Loc) (fs' : T) :
    ∀ n ∈ lines (postCall cfg loc fs'), n ∈ locLines loc ++ lines fs' := by
  intro n hn
  unfold postCall at hn
  split at hn
  · rename_i func args kws
    split at hn
    · rw [lines_node] at hn
      simp only [list3, lines, lines_mkName, List.nil_append, List.append_nil, List.mem_append] at hn ⊢
      rcases hn with hn | (hn | hn) | hn
      · exact Or.inl hn
      · exact Or.inr (Or.inl (liftName_lines cfg func n hn))
      · exact Or.inr (Or.inr (Or.inl (wrapStars_lines cfg args n hn)))
      · exact Or.inr (Or.inr (Or.inr hn))
    · rw [lines_node] at hn
      simp only [list3, lines, List.append_nil, List.mem_append] at hn ⊢
      rcases hn with hn | hn | hn | hn
      · exact Or.inl hn
      · exact Or.inr (Or.inl (liftName_lines cfg func n hn))
      · exact Or.inr (Or.inr (Or.inl (wrapStars_lines cfg args n hn)))
      · exact Or.inr (Or.inr (Or.inr hn))
  · rw [lines_node] at hn; exact hn

theorem append1_lines (b x : T) : ∀ n ∈ lines (append1 b x), n ∈ lines b ++ lines x := by
  induction b with
  | cons h t _ ih =>
    intro n hn
    simp only [append1, lines, List.mem_append] at hn ⊢
    rcases hn with hn | hn
    · exact Or.inl (Or.inl hn)
    · rcases List.mem_append.mp (ih n hn) with h' | h'
      · exact Or.inl (Or.inr h')
      · exact Or.inr h'
  | _ =>
    intro n hn
    simp only [append1, lines, List.append_nil] at hn
    exact List.mem_append_right _ hn

theorem postClass_lines {cfg : Cfg} {loc : Loc} {fs fs' t' : T} (h : postClass cfg loc fs fs' = some t') :
    ∀ n ∈ lines t', n ∈ locLines loc ++ lines fs' := by
  unfold postClass at h
  split at h
  · rename_i name' bases' kws' body' rest'
    split at h
    · simp at h
    · simp only [Option.bind_eq_bind, Option.bind_eq_some_iff] at h
      obtain ⟨base, hb, target, ht, h⟩ := h
      simp only [Option.some.injEq] at h; subst h
      have hbl := postName_lines hb
      have htl := postName_lines ht
      simp only [locLines, list2, lines, idAtom, loadCtx, storeCtx, List.append_nil,
        List.not_mem_nil, imp_false] at hbl htl
      intro n hn
      rw [lines_node] at hn
      simp only [lines, List.mem_append] at hn ⊢
      rcases hn with hn | hn | hn | hn | hn | hn
      · exact Or.inl hn
      · exact Or.inr (Or.inl hn)
      · split at hn
        · simp only [list1, lines, List.append_nil] at hn; exact absurd hn (hbl n)
        · exact Or.inr (Or.inr (Or.inl hn))
      · exact Or.inr (Or.inr (Or.inr (Or.inl hn)))
      · have := append1_lines _ _ n hn
        simp only [list3, list2, list1, lines, lines_noneAtom, List.append_nil, List.nil_append,
          List.mem_append] at this
        rcases this with h' | h'
        · exact Or.inr (Or.inr (Or.inr (Or.inr (Or.inl h'))))
        · exact absurd h' (htl n)
      · exact Or.inr (Or.inr (Or.inr (Or.inr (Or.inr hn))))
  · simp only [Option.some.injEq] at h; subst h
    intro n hn; rw [lines_node] at hn; exact hn

/-- the rewrites invent no line number -/
theorem rw_lines {cfg : Cfg} : ∀ (t t' : T), rw cfg t = some t' → ∀ n ∈ lines t', n ∈ lines t := by
  intro t
  induction t with
  | nil => intro t' h; simp only [rw, Option.some.injEq] at h; subst h; simp
  | atom s => intro t' h; simp only [rw, Option.some.injEq] at h; subst h; simp
  | ident s => intro t' h; simp only [rw, Option.some.injEq] at h; subst h; simp
  | cons a b ih1 ih2 =>
    intro t' h
    simp only [rw, Option.bind_eq_bind, Option.bind_eq_some_iff] at h
    obtain ⟨a', ha, b', hb, h⟩ := h
    simp only [Option.some.injEq] at h; subst h
    intro n hn
    simp only [lines, List.mem_append] at hn ⊢
    rcases hn with hn | hn
    · exact Or.inl (ih1 a' ha n hn)
    · exact Or.inr (ih2 b' hb n hn)
  | node tag loc fs ih =>
    intro t' h
    simp only [rw, Option.bind_eq_bind, Option.bind_eq_some_iff] at h
    obtain ⟨fs', hfs, h⟩ := h
    have sub : ∀ n, n ∈ locLines loc ++ lines fs' → n ∈ lines (T.node tag loc fs) := by
      intro n hn
      rw [lines_node]
      rcases List.mem_append.mp hn with h' | h'
      · exact List.mem_append_left _ h'
      · exact List.mem_append_right _ (ih fs' hfs n h')
    intro n hn
    split at h
    · have := postName_lines h n hn
      rw [lines_node]; exact this
    · split at h
      · simp only [Option.some.injEq] at h; subst h
        exact sub n (postCall_lines cfg loc fs' n hn)
      · split at h
        · exact sub n (postClass_lines h n hn)
        · simp only [Option.some.injEq] at h; subst h
          rw [lines_node] at hn; exact sub n hn


/-! ### off the triggers the rewrites do nothing -/

/-- well-formedness of the extracted data used by the identity theorem: only built-in names are lifted -/
def cfgOK (cfg : Cfg) : Bool := cfg.lifted.all fun p => cfg.builtin.contains p.1
def CfgOK (cfg : Cfg) : Prop := ∀ p ∈ cfg.lifted, cfg.builtin.contains p.1 = true
theorem CfgOK_of (cfg : Cfg) (h : cfgOK cfg = true) : CfgOK cfg := by
  intro p hp
  simp only [cfgOK, List.all_eq_true] at h
  exact h p hp

theorem lookup_mem {l : List (String × String)} {a b : String} (h : l.lookup a = some b) : (a, b) ∈ l := by
  induction l with
  | nil => simp [List.lookup] at h
  | cons x xs ih =>
    obtain ⟨k, v⟩ := x
    simp only [List.lookup] at h
    split at h
    · rename_i heq
      simp only [Option.some.injEq] at h; subst h
      have : a = k := by simpa using heq
      subst this; exact List.mem_cons_self
    · exact List.mem_cons_of_mem _ (ih h)

theorem wrapStars_noStar (cfg : Cfg) (args : T) (h : hasStarred args = false) :
    wrapStars cfg args = (args, false) := by
  induction args with
  | cons a rest _ ih =>
    simp only [hasStarred, Bool.or_eq_false_iff] at h
    simp only [wrapStars]
    have hs : starValue a = none := by
      cases hv : starValue a with
      | none => rfl
      | some v => simp [hv] at h
    simp [hs, ih h.2]
  | _ => simp [wrapStars]

theorem postName_id (cfg : Cfg) (loc : Loc) (fs : T) (h : isTriggerName cfg fs = false) :
    postName cfg loc fs = some (.node "Name" loc fs) := by
  unfold postName
  split
  · rename_i i ctx
    simp only [isTriggerName] at h
    split
    · rename_i nm hnm
      simp only [hnm, Bool.or_eq_false_iff] at h
      have h1 : nm ∉ cfg.builtin := by simpa using h.1
      have h2 : nm ∉ cfg.tracked := by simpa using h.2
      simp [h1, h2]
    · rfl
  · rfl

theorem liftName_id (cfg : Cfg) (hc : CfgOK cfg) (f : T) (h : noTrigger cfg f = true) : liftName cfg f = f := by
  unfold liftName
  split
  · rename_i loc nm ctx hp
    split
    · rename_i nm' hl
      exfalso
      have hb := hc _ (lookup_mem hl)
      simp only at hb
      unfold nameParts at hp
      split at hp
      · rename_i tag loc' i ctx'
        split at hp
        · rename_i htag
          simp only [Option.map_eq_some_iff] at hp
          obtain ⟨nm0, hi, hp⟩ := hp
          simp only [Prod.mk.injEq] at hp
          obtain ⟨_, rfl, _⟩ := hp
          simp only [noTrigger, htag, if_true, Bool.and_eq_true, Bool.not_eq_true', isTriggerName, hi,
            Bool.or_eq_false_iff] at h
          rw [h.2.1] at hb; exact Bool.noConfusion hb
        · simp at hp
      · simp at hp
    · rfl
  · rfl

theorem rw_id (cfg : Cfg) (hc : CfgOK cfg) : ∀ t, noTrigger cfg t = true → rw cfg t = some t := by
  intro t
  induction t with
  | nil => intro _; rfl
  | atom s => intro _; rfl
  | ident s => intro _; rfl
  | cons a b ih1 ih2 =>
    intro h
    simp only [noTrigger, Bool.and_eq_true] at h
    simp [rw, ih1 h.1, ih2 h.2]
  | node tag loc fs ih =>
    intro h
    simp only [noTrigger, Bool.and_eq_true] at h
    obtain ⟨hfs, hcond⟩ := h
    simp only [rw, ih hfs, Option.bind_eq_bind, Option.bind_some]
    by_cases h1 : (tag == "Name") = true
    · simp only [h1, if_true, Bool.not_eq_true'] at hcond ⊢
      have : tag = "Name" := by simpa using h1
      subst this
      exact postName_id cfg loc fs hcond
    · simp only [h1, Bool.false_eq_true, if_false] at hcond ⊢
      by_cases h2 : (tag == "Call") = true
      · simp only [h2, if_true, Bool.not_eq_true'] at hcond ⊢
        have : tag = "Call" := by simpa using h2
        subst this
        congr 1
        unfold postCall
        split
        · rename_i func args kws
          simp only [callArgs] at hcond
          simp only [noTrigger, Bool.and_eq_true] at hfs
          rw [wrapStars_noStar cfg args hcond, liftName_id cfg hc func hfs.1]
          simp [list3]
        · rfl
      · simp only [h2, Bool.false_eq_true, if_false] at hcond ⊢
        by_cases h3 : (tag == "ClassDef") = true
        · have : tag = "ClassDef" := by simpa using h3
          subst this; simp at hcond
        · simp [h3]

end Scenic.Rewrites
