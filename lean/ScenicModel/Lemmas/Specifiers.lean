import ScenicModel.Model.Specifiers

/-! Helper lemmas for the specifier-resolution model: dictionaries, the two priority passes. -/
namespace Scenic.Spec

/-! ## dictionaries -/
section dict
variable {α β : Type} [DecidableEq α]

theorem get_put (m : List (α × β)) (k k' : α) (v : β) :
    get (put m k v) k' = if k = k' then some v else get m k' := by
  induction m with
  | nil => simp [put, get]
  | cons e m ih =>
    obtain ⟨a, b⟩ := e
    by_cases h : a = k
    · subst h
      simp only [put, if_true, get]
      by_cases h2 : a = k' <;> simp [h2]
    · simp only [put, h, if_false, get, ih]
      by_cases h2 : a = k'
      · subst h2; simp [Ne.symm h]
      · simp [h2]

theorem get_put_self (m : List (α × β)) (k : α) (v : β) : get (put m k v) k = some v := by
  rw [get_put]; simp

theorem get_put_ne (m : List (α × β)) {k k' : α} (v : β) (h : k ≠ k') :
    get (put m k v) k' = get m k' := by
  rw [get_put]; simp [h]

theorem get_map_snd {γ} (m : List (α × β)) (f : β → γ) (k : α) :
    get (m.map (fun e => (e.1, f e.2))) k = (get m k).map f := by
  induction m with
  | nil => rfl
  | cons e m ih =>
    simp only [List.map, get]
    split <;> simp [ih]

theorem mem_of_get {m : List (α × β)} {k : α} {v : β} (h : get m k = some v) : (k, v) ∈ m := by
  induction m with
  | nil => simp [get] at h
  | cons e m ih =>
    obtain ⟨a, b⟩ := e
    simp only [get] at h
    split at h
    · rename_i hk; subst hk; simp only [Option.some.injEq] at h; subst h; simp
    · exact List.mem_cons_of_mem _ (ih h)

theorem get_none_iff {m : List (α × β)} {k : α} : get m k = none ↔ ∀ e ∈ m, e.1 ≠ k := by
  induction m with
  | nil => simp [get]
  | cons e m ih =>
    simp only [get, List.mem_cons, forall_eq_or_imp]
    split
    · rename_i hk; simp [hk]
    · rename_i hk; simp [hk, ih]

theorem get_isSome_of_mem {m : List (α × β)} {k : α} {v : β} (h : (k, v) ∈ m) : (get m k).isSome := by
  cases hg : get m k with
  | some _ => rfl
  | none => exact absurd rfl (get_none_iff.mp hg _ h)

end dict

/-! ## position in a list (evaluation order) -/

/-- index of the first occurrence (the length if absent) -/
def pos : List Node → Node → Nat
  | [], _ => 0
  | y :: ys, x => if y = x then 0 else pos ys x + 1

theorem pos_lt_of_mem {l : List Node} {x : Node} (h : x ∈ l) : pos l x < l.length := by
  induction l with
  | nil => simp at h
  | cons y ys ih =>
    simp only [pos, List.length_cons]
    split
    · omega
    · rename_i hne
      have : x ∈ ys := by
        rcases List.mem_cons.mp h with h | h
        · exact absurd h.symm hne
        · exact h
      have := ih this; omega

theorem pos_append_of_mem {l : List Node} (l' : List Node) {x : Node} (h : x ∈ l) :
    pos (l ++ l') x = pos l x := by
  induction l with
  | nil => simp at h
  | cons y ys ih =>
    simp only [List.cons_append, pos]
    split
    · rfl
    · rename_i hne
      have : x ∈ ys := by
        rcases List.mem_cons.mp h with h | h
        · exact absurd h.symm hne
        · exact h
      rw [ih this]

theorem pos_append_of_not_mem {l : List Node} {x : Node} (h : x ∉ l) :
    pos (l ++ [x]) x = l.length := by
  induction l with
  | nil => simp [pos]
  | cons y ys ih =>
    simp only [List.mem_cons, not_or] at h
    simp only [List.cons_append, pos, List.length_cons]
    rw [if_neg (Ne.symm h.1), ih h.2]

/-! ## candidates: the (specifier, property, priority) triples in loop order -/

/-- one iteration of the inner loops: specifier name, is it a modifying specifier, property, priority -/
structure Cand where
  name : String
  mod : Bool
  prop : String
  prio : Nat
deriving DecidableEq, Repr

def candsOf (s : Spec) : List Cand := s.prios.map (fun pk => ⟨s.name, s.modifying, pk.1, pk.2⟩)

def cands (L : List Spec) : List Cand := L.flatMap candsOf

theorem mem_cands {L : List Spec} {c : Cand} :
    c ∈ cands L ↔ ∃ s ∈ L, c.name = s.name ∧ c.mod = s.modifying ∧ (c.prop, c.prio) ∈ s.prios := by
  simp only [cands, List.mem_flatMap, candsOf, List.mem_map]
  constructor
  · rintro ⟨s, hs, pk, hpk, rfl⟩
    exact ⟨s, hs, rfl, rfl, hpk⟩
  · rintro ⟨s, hs, h1, h2, h3⟩
    refine ⟨s, hs, (c.prop, c.prio), h3, ?_⟩
    cases c; simp_all

/-- The invariant shared by both priority passes: after the candidates `P` have been processed,
`props` maps each property to a processed candidate of minimal priority number, strictly below
every *other* normal candidate's. -/
def PInv (P : List Cand) (props : List (String × (Node × Nat))) : Prop :=
  ∀ p, match get props p with
    | some (node, k) => ∃ n, node = .user n ∧ (∃ b, (⟨n, b, p, k⟩ : Cand) ∈ P) ∧
        ∀ c ∈ P, c.prop = p → k ≤ c.prio ∧ (c.mod = false → c.name ≠ n → k < c.prio)
    | none => ∀ c ∈ P, c.prop ≠ p

theorem PInv_nil : PInv [] [] := by
  intro p; simp [get]

theorem PInv_put {P : List Cand} {props : List (String × (Node × Nat))} (hI : PInv P props)
    (name : String) (b : Bool) (p : String) (k : Nat)
    (hlt : ∀ node cur, get props p = some (node, cur) → k < cur) :
    PInv (P ++ [⟨name, b, p, k⟩]) (put props p (.user name, k)) := by
  intro q
  by_cases hq : p = q
  · subst hq
    rw [get_put_self]
    refine ⟨name, rfl, ⟨b, by simp⟩, ?_⟩
    intro c hc hcp
    rcases List.mem_append.mp hc with hc | hc
    · have := hI p
      cases hg : get props p with
      | none => rw [hg] at this; exact absurd hcp (this c hc)
      | some v =>
        obtain ⟨node, cur⟩ := v
        rw [hg] at this
        obtain ⟨n, _, _, hmin⟩ := this
        have h1 := (hmin c hc hcp).1
        have h2 := hlt node cur hg
        exact ⟨by omega, fun _ _ => by omega⟩
    · simp only [List.mem_singleton] at hc; subst hc
      exact ⟨Nat.le_refl _, fun _ h => absurd rfl h⟩
  · rw [get_put_ne _ _ hq]
    have := hI q
    cases hg : get props q with
    | none =>
      rw [hg] at this
      intro c hc
      rcases List.mem_append.mp hc with hc | hc
      · exact this c hc
      · simp only [List.mem_singleton] at hc; subst hc; exact hq
    | some v =>
      obtain ⟨node, cur⟩ := v
      rw [hg] at this
      obtain ⟨n, hn, ⟨b', hb'⟩, hmin⟩ := this
      refine ⟨n, hn, ⟨b', List.mem_append_left _ hb'⟩, ?_⟩
      intro c hc hcp
      rcases List.mem_append.mp hc with hc | hc
      · exact hmin c hc hcp
      · simp only [List.mem_singleton] at hc; subst hc; exact absurd hcp hq

theorem PInv_keep {P : List Cand} {props : List (String × (Node × Nat))} (hI : PInv P props)
    (name : String) (b : Bool) (p : String) (k : Nat) (node : Node) (cur : Nat)
    (hg : get props p = some (node, cur)) (hle : cur ≤ k) (hne : b = false → node ≠ .user name → cur ≠ k) :
    PInv (P ++ [⟨name, b, p, k⟩]) props := by
  intro q
  have := hI q
  cases hgq : get props q with
  | none =>
    rw [hgq] at this
    intro c hc
    rcases List.mem_append.mp hc with hc | hc
    · exact this c hc
    · simp only [List.mem_singleton] at hc; subst hc
      intro h; simp only at h; subst h; rw [hg] at hgq; cases hgq
  | some v =>
    obtain ⟨node', cur'⟩ := v
    rw [hgq] at this
    obtain ⟨n, hn, ⟨b', hb'⟩, hmin⟩ := this
    refine ⟨n, hn, ⟨b', List.mem_append_left _ hb'⟩, ?_⟩
    intro c hc hcp
    rcases List.mem_append.mp hc with hc | hc
    · exact hmin c hc hcp
    · simp only [List.mem_singleton] at hc; subst hc
      simp only at hcp; subst hcp
      rw [hg] at hgq; cases hgq
      refine ⟨hle, fun hb hname => ?_⟩
      have := hne hb (by rw [hn]; intro h; cases h; exact hname rfl)
      simp only at *; omega

def pairOf (c : Cand) : String × Nat := (c.prop, c.prio)

/-- invariant of the normal pass after the candidates `P` -/
structure NInv (P : List Cand) (st : NState) : Prop where
  pinv : PInv P st.props
  seen : st.seen = P.map pairOf
  normal : ∀ c ∈ P, c.mod = false

theorem NInv_nil : NInv [] ⟨[], []⟩ := ⟨PInv_nil, rfl, by simp⟩

theorem stepNormal_ok {finals : List String} {name : String} {st st' : NState} {pk : String × Nat}
    {P : List Cand} (hI : NInv P st) (h : stepNormal finals name st pk = .ok st') :
    NInv (P ++ [⟨name, false, pk.1, pk.2⟩]) st' ∧ pk.1 ∉ finals ∧ pk ∉ P.map pairOf := by
  unfold stepNormal at h
  split at h
  · cases h
  · rename_i hfin
    split at h
    · cases h
    · rename_i hseen
      have hseen' : pk ∉ P.map pairOf := by rw [← hI.seen]; exact hseen
      refine ⟨?_, hfin, hseen'⟩
      have hnormal : ∀ c ∈ P ++ [(⟨name, false, pk.1, pk.2⟩ : Cand)], c.mod = false := by
        intro c hc
        rcases List.mem_append.mp hc with hc | hc
        · exact hI.normal c hc
        · simp only [List.mem_singleton] at hc; subst hc; rfl
      have hseen2 : st.seen ++ [pk] = (P ++ [(⟨name, false, pk.1, pk.2⟩ : Cand)]).map pairOf := by
        simp [hI.seen, pairOf]
      split at h
      · rename_i node cur hg
        split at h
        · rename_i hlt
          cases h
          refine ⟨?_, hseen2, hnormal⟩
          apply PInv_put hI.pinv
          intro node' cur' hg'
          rw [hg] at hg'; cases hg'; exact hlt
        · rename_i hnlt
          cases h
          refine ⟨?_, hseen2, hnormal⟩
          apply PInv_keep hI.pinv name false pk.1 pk.2 node cur hg (by omega)
          intro _ _ hk
          -- (pk.1, cur) was seen: the current best is a processed candidate
          have := hI.pinv pk.1
          rw [hg] at this
          obtain ⟨n, _, ⟨b, hb⟩, _⟩ := this
          apply hseen'
          rw [List.mem_map]
          exact ⟨_, hb, by simp [pairOf, hk]⟩
      · rename_i hg
        cases h
        refine ⟨?_, hseen2, hnormal⟩
        apply PInv_put hI.pinv
        intro node' cur' hg'
        rw [hg] at hg'; cases hg'

theorem stepNormal_error {finals : List String} {name : String} {st : NState} {pk : String × Nat}
    {e : Err} (h : stepNormal finals name st pk = .error e) :
    (e = .finalProp ∧ pk.1 ∈ finals) ∨ (e = .tie ∧ pk.1 ∉ finals ∧ pk ∈ st.seen) := by
  unfold stepNormal at h
  split at h
  · rename_i hf; cases h; exact Or.inl ⟨rfl, hf⟩
  · rename_i hf
    split at h
    · rename_i hs; cases h; exact Or.inr ⟨rfl, hf, hs⟩
    · split at h
      · split at h <;> cases h
      · cases h

/-- a step succeeds exactly when the property is not final and the (property, priority) pair is new -/
theorem stepNormal_isOk {finals : List String} {name : String} {st : NState} {pk : String × Nat}
    (hf : pk.1 ∉ finals) (hs : pk ∉ st.seen) : ∃ st', stepNormal finals name st pk = .ok st' := by
  unfold stepNormal
  rw [if_neg hf, if_neg hs]
  split
  · split <;> exact ⟨_, rfl⟩
  · exact ⟨_, rfl⟩

/-- the normal-pass invariant together with the two facts that make the pass succeed so far -/
structure NInvF (finals : List String) (P : List Cand) (st : NState) : Prop extends NInv P st where
  nodup : (P.map pairOf).Nodup
  nofinal : ∀ c ∈ P, c.prop ∉ finals

theorem NInvF_nil (finals : List String) : NInvF finals [] ⟨[], []⟩ :=
  { NInv_nil with nodup := by simp, nofinal := by simp }

def mkCand (name : String) (b : Bool) (pk : String × Nat) : Cand := ⟨name, b, pk.1, pk.2⟩

theorem stepNormal_okF {finals : List String} {name : String} {st st' : NState} {pk : String × Nat}
    {P : List Cand} (hI : NInvF finals P st) (h : stepNormal finals name st pk = .ok st') :
    NInvF finals (P ++ [mkCand name false pk]) st' := by
  obtain ⟨h1, h2, h3⟩ := stepNormal_ok hI.toNInv h
  refine { h1 with nodup := ?_, nofinal := ?_ }
  · rw [List.map_append, List.nodup_append]
    refine ⟨hI.nodup, by simp, ?_⟩
    intro a ha b hb
    simp only [List.map_cons, List.map_nil, List.mem_singleton] at hb
    subst hb
    intro hab; subst hab
    exact h3 ha
  · intro c hc
    rcases List.mem_append.mp hc with hc | hc
    · exact hI.nofinal c hc
    · simp only [List.mem_singleton] at hc; subst hc; exact h2

theorem stepsNormal_ok {finals : List String} {name : String} (prs : List (String × Nat)) :
    ∀ {st st' : NState} {P : List Cand}, NInvF finals P st → stepsNormal finals name prs st = .ok st' →
    NInvF finals (P ++ prs.map (mkCand name false)) st' := by
  induction prs with
  | nil => intro st st' P hI h; simp only [stepsNormal] at h; cases h; simpa using hI
  | cons pk rest ih =>
    intro st st' P hI h
    simp only [stepsNormal] at h
    split at h
    · cases h
    · rename_i st1 h1
      have := ih (stepNormal_okF hI h1) h
      simpa [List.append_assoc] using this

theorem stepsNormal_error {finals : List String} {name : String} (prs : List (String × Nat)) :
    ∀ {st : NState} {P : List Cand} {e : Err}, NInvF finals P st → stepsNormal finals name prs st = .error e →
    (e = .finalProp ∧ ∃ pk ∈ prs, pk.1 ∈ finals) ∨
    (e = .tie ∧ ¬ ((P ++ prs.map (mkCand name false)).map pairOf).Nodup) := by
  induction prs with
  | nil => intro st P e hI h; simp [stepsNormal] at h
  | cons pk rest ih =>
    intro st P e hI h
    simp only [stepsNormal] at h
    split at h
    · rename_i e' h1
      cases h
      rcases stepNormal_error h1 with ⟨he, hf⟩ | ⟨he, _, hs⟩
      · exact Or.inl ⟨he, pk, by simp, hf⟩
      · refine Or.inr ⟨he, ?_⟩
        intro hnd
        rw [hI.seen] at hs
        simp only [List.map_cons, List.map_append] at hnd
        rw [List.nodup_append] at hnd
        exact hnd.2.2 _ hs (pairOf (mkCand name false pk)) (by simp) (by simp [pairOf, mkCand])
    · rename_i st1 h1
      rcases ih (stepNormal_okF hI h1) h with ⟨he, pk', hpk', hf⟩ | ⟨he, hnd⟩
      · exact Or.inl ⟨he, pk', List.mem_cons_of_mem _ hpk', hf⟩
      · refine Or.inr ⟨he, ?_⟩
        simpa [List.append_assoc] using hnd

theorem stepsNormal_isOk {finals : List String} {name : String} (prs : List (String × Nat)) :
    ∀ {st : NState} {P : List Cand}, NInvF finals P st → (∀ pk ∈ prs, pk.1 ∉ finals) →
    ((P ++ prs.map (mkCand name false)).map pairOf).Nodup →
    ∃ st', stepsNormal finals name prs st = .ok st' := by
  intro st P hI hf hnd
  cases h : stepsNormal finals name prs st with
  | ok st' => exact ⟨st', rfl⟩
  | error e =>
    rcases stepsNormal_error prs hI h with ⟨_, pk, hpk, hfin⟩ | ⟨_, hn⟩
    · exact absurd hfin (hf pk hpk)
    · exact absurd hnd hn

theorem candsOf_normal {s : Spec} (h : s.modifying = false) : candsOf s = s.prios.map (mkCand s.name false) := by
  simp [candsOf, mkCand, h]

theorem normalPass_ok {finals : List String} (L : List Spec) (hL : ∀ s ∈ L, s.modifying = false) :
    ∀ {st st' : NState} {P : List Cand}, NInvF finals P st → normalPass finals L st = .ok st' →
    NInvF finals (P ++ cands L) st' := by
  induction L with
  | nil => intro st st' P hI h; simp only [normalPass] at h; cases h; simpa [cands] using hI
  | cons s rest ih =>
    intro st st' P hI h
    simp only [normalPass] at h
    split at h
    · cases h
    · rename_i st1 h1
      have h2 := stepsNormal_ok s.prios hI h1
      rw [← candsOf_normal (hL s (by simp))] at h2
      have := ih (fun t ht => hL t (List.mem_cons_of_mem _ ht)) h2 h
      simpa [cands, List.append_assoc] using this

theorem normalPass_error {finals : List String} (L : List Spec) (hL : ∀ s ∈ L, s.modifying = false) :
    ∀ {st : NState} {P : List Cand} {e : Err}, NInvF finals P st → normalPass finals L st = .error e →
    (e = .finalProp ∧ ∃ c ∈ cands L, c.prop ∈ finals) ∨
    (e = .tie ∧ ¬ ((P ++ cands L).map pairOf).Nodup) := by
  induction L with
  | nil => intro st P e hI h; simp [normalPass] at h
  | cons s rest ih =>
    intro st P e hI h
    have hs := hL s (by simp)
    simp only [normalPass] at h
    split at h
    · rename_i e' h1
      cases h
      rcases stepsNormal_error s.prios hI h1 with ⟨he, pk, hpk, hf⟩ | ⟨he, hnd⟩
      · refine Or.inl ⟨he, mkCand s.name false pk, ?_, hf⟩
        simp only [cands, List.flatMap_cons, List.mem_append]
        left; rw [candsOf_normal hs]; exact List.mem_map_of_mem hpk
      · refine Or.inr ⟨he, fun hnd' => hnd ?_⟩
        rw [← candsOf_normal hs]
        simp only [cands, List.flatMap_cons, ← List.append_assoc, List.map_append] at hnd'
        rw [List.map_append]
        exact (List.nodup_append.mp hnd').1
    · rename_i st1 h1
      have h2 := stepsNormal_ok s.prios hI h1
      rw [← candsOf_normal hs] at h2
      rcases ih (fun t ht => hL t (List.mem_cons_of_mem _ ht)) h2 h with ⟨he, c, hc, hf⟩ | ⟨he, hnd⟩
      · refine Or.inl ⟨he, c, ?_, hf⟩
        simp only [cands, List.flatMap_cons, List.mem_append]; right; exact hc
      · refine Or.inr ⟨he, ?_⟩
        simpa [cands, List.append_assoc] using hnd

theorem normalPass_isOk {finals : List String} (L : List Spec) (hL : ∀ s ∈ L, s.modifying = false)
    {st : NState} {P : List Cand} (hI : NInvF finals P st) (hf : ∀ c ∈ cands L, c.prop ∉ finals)
    (hnd : ((P ++ cands L).map pairOf).Nodup) : ∃ st', normalPass finals L st = .ok st' := by
  cases h : normalPass finals L st with
  | ok st' => exact ⟨st', rfl⟩
  | error e =>
    rcases normalPass_error L hL hI h with ⟨_, c, hc, hfin⟩ | ⟨_, hn⟩
    · exact absurd hfin (hf c hc)
    · exact absurd hnd hn

/-! ## modifying pass -/

/-- invariant of the modifying pass; `Q n p` = "the specifier named `n` may modify `p`" -/
structure MInv (Q : String → String → Prop) (P : List Cand) (st : MState) : Prop where
  pinv : PInv P st.props
  mods : ∀ p m, get st.modifying p = some m → ∃ n km, m = .user n ∧ (⟨n, true, p, km⟩ : Cand) ∈ P ∧ Q n p ∧
    ∃ node cur, get st.props p = some (node, cur) ∧ cur ≤ km

theorem stepModCore_ok {Q : String → String → Prop} {s : Spec} {st st' : MState} {pk : String × Nat}
    {P : List Cand} (hQ : ∀ p ∈ s.modifiable, Q s.name p) (hI : MInv Q P st)
    (h : stepModCore s st pk = .ok st') : MInv Q (P ++ [mkCand s.name true pk]) st' := by
  unfold stepModCore at h
  have hmods_put : ∀ (hlt : ∀ node cur, get st.props pk.1 = some (node, cur) → pk.2 < cur),
      ∀ p m, get st.modifying p = some m → ∃ n km, m = .user n ∧
        (⟨n, true, p, km⟩ : Cand) ∈ P ++ [mkCand s.name true pk] ∧ Q n p ∧
        ∃ node cur, get (put st.props pk.1 (Node.user s.name, pk.2)) p = some (node, cur) ∧ cur ≤ km := by
    intro hlt p m hm
    obtain ⟨n, km, hn, hc, hq, node, cur, hg, hle⟩ := hI.mods p m hm
    refine ⟨n, km, hn, List.mem_append_left _ hc, hq, ?_⟩
    by_cases hp : pk.1 = p
    · subst hp
      rw [get_put_self]
      have := hlt node cur hg
      exact ⟨_, _, rfl, by omega⟩
    · rw [get_put_ne _ _ hp]; exact ⟨node, cur, hg, hle⟩
  split at h
  · rename_i node cur hg
    split at h
    · rename_i hlt
      cases h
      have hlt' : ∀ node' cur', get st.props pk.1 = some (node', cur') → pk.2 < cur' := by
        intro n' c' h'; rw [hg] at h'; cases h'; exact hlt
      exact ⟨PInv_put hI.pinv s.name true pk.1 pk.2 hlt', hmods_put hlt'⟩
    · rename_i hnlt
      have hkeep := PInv_keep hI.pinv s.name true pk.1 pk.2 node cur hg (by omega) (by simp)
      split at h
      · rename_i hmod
        split at h
        · cases h
        · rename_i hnone
          cases h
          refine ⟨hkeep, ?_⟩
          intro p m hm
          by_cases hp : pk.1 = p
          · subst hp
            rw [get_put_self] at hm; cases hm
            exact ⟨s.name, pk.2, rfl, by simp [mkCand], hQ _ hmod, node, cur, hg, by omega⟩
          · rw [get_put_ne _ _ hp] at hm
            obtain ⟨n, km, hn, hc, hq, hrest⟩ := hI.mods p m hm
            exact ⟨n, km, hn, List.mem_append_left _ hc, hq, hrest⟩
      · cases h
        refine ⟨hkeep, ?_⟩
        intro p m hm
        obtain ⟨n, km, hn, hc, hq, hrest⟩ := hI.mods p m hm
        exact ⟨n, km, hn, List.mem_append_left _ hc, hq, hrest⟩
  · rename_i hg
    cases h
    have hlt' : ∀ node' cur', get st.props pk.1 = some (node', cur') → pk.2 < cur' := by
      intro n' c' h'; rw [hg] at h'; cases h'
    exact ⟨PInv_put hI.pinv s.name true pk.1 pk.2 hlt', hmods_put hlt'⟩

/-- a successful step of the modifying pass went through the core and the property is not final -/
theorem stepMod_ok_core {finals : List String} {s : Spec} {st st' : MState} {pk : String × Nat}
    (h : stepMod finals s st pk = .ok st') : pk.1 ∉ finals ∧ stepModCore s st pk = .ok st' := by
  unfold stepMod at h
  split at h
  · cases h
  · rename_i hnf; exact ⟨hnf, h⟩

theorem stepMod_ok {finals : List String} {Q : String → String → Prop} {s : Spec} {st st' : MState} {pk : String × Nat}
    {P : List Cand} (hQ : ∀ p ∈ s.modifiable, Q s.name p) (hI : MInv Q P st)
    (h : stepMod finals s st pk = .ok st') : MInv Q (P ++ [mkCand s.name true pk]) st' :=
  stepModCore_ok hQ hI (stepMod_ok_core h).2

theorem stepsMod_ok {finals : List String} {Q : String → String → Prop} {s : Spec} (hQ : ∀ p ∈ s.modifiable, Q s.name p)
    (prs : List (String × Nat)) :
    ∀ {st st' : MState} {P : List Cand}, MInv Q P st → stepsMod finals s prs st = .ok st' →
    MInv Q (P ++ prs.map (mkCand s.name true)) st' := by
  induction prs with
  | nil => intro st st' P hI h; simp only [stepsMod] at h; cases h; simpa using hI
  | cons pk rest ih =>
    intro st st' P hI h
    simp only [stepsMod] at h
    split at h
    · cases h
    · rename_i st1 h1
      have := ih (stepMod_ok hQ hI h1) h
      simpa [List.append_assoc] using this

theorem candsOf_mod {s : Spec} (h : s.modifying = true) : candsOf s = s.prios.map (mkCand s.name true) := by
  simp [candsOf, mkCand, h]

theorem modPass_ok {finals : List String} {Q : String → String → Prop} (L : List Spec) (hL : ∀ s ∈ L, s.modifying = true)
    (hQ : ∀ s ∈ L, ∀ p ∈ s.modifiable, Q s.name p) :
    ∀ {st st' : MState} {P : List Cand}, MInv Q P st → modPass finals L st = .ok st' →
    MInv Q (P ++ cands L) st' := by
  induction L with
  | nil => intro st st' P hI h; simp only [modPass] at h; cases h; simpa [cands] using hI
  | cons s rest ih =>
    intro st st' P hI h
    simp only [modPass] at h
    split at h
    · cases h
    · rename_i st1 h1
      have h2 := stepsMod_ok (hQ s (by simp)) s.prios hI h1
      rw [← candsOf_mod (hL s (by simp))] at h2
      have := ih (fun t ht => hL t (List.mem_cons_of_mem _ ht))
        (fun t ht => hQ t (List.mem_cons_of_mem _ ht)) h2 h
      simpa [cands, List.append_assoc] using this

/-- the two errors of the modifying pass -/
theorem modPass_error {finals : List String} (L : List Spec) : ∀ {st : MState} {e : Err},
    modPass finals L st = .error e → e = .modifiedTwice ∨ e = .finalProp := by
  have hcore : ∀ {s : Spec} {st : MState} {pk : String × Nat} {e : Err}, stepModCore s st pk = .error e → e = .modifiedTwice := by
    intro s st pk e h
    unfold stepModCore at h
    split at h
    · split at h
      · cases h
      · split at h
        · split at h
          · cases h; rfl
          · cases h
        · cases h
    · cases h
  have hstep : ∀ {s : Spec} {st : MState} {pk : String × Nat} {e : Err}, stepMod finals s st pk = .error e →
      e = .modifiedTwice ∨ e = .finalProp := by
    intro s st pk e h
    unfold stepMod at h
    split at h
    · cases h; right; rfl
    · left; exact hcore h
  have hsteps : ∀ {s : Spec} (prs : List (String × Nat)) {st : MState} {e : Err},
      stepsMod finals s prs st = .error e → e = .modifiedTwice ∨ e = .finalProp := by
    intro s prs
    induction prs with
    | nil => intro st e h; simp [stepsMod] at h
    | cons pk rest ih =>
      intro st e h
      simp only [stepsMod] at h
      split at h
      · rename_i e' h1; cases h; exact hstep h1
      · exact ih h
  induction L with
  | nil => intro st e h; simp [modPass] at h
  | cons s rest ih =>
    intro st e h
    simp only [modPass] at h
    split at h
    · rename_i e' h1; cases h; exact hsteps _ h1
    · exact ih h

theorem stepModCore_error {s : Spec} {st : MState} {pk : String × Nat} {e : Err}
    (h : stepModCore s st pk = .error e) : e = .modifiedTwice := by
  unfold stepModCore at h
  split at h
  · split at h
    · cases h
    · split at h
      · split at h
        · cases h; rfl
        · cases h
      · cases h
  · cases h

/-- the final-property error of the modifying pass means that a modifying specifier names a final property -/
theorem modPass_finalProp_sound {finals : List String} (L : List Spec) : ∀ {st : MState},
    modPass finals L st = .error .finalProp → ∃ s ∈ L, ∃ pk ∈ s.prios, pk.1 ∈ finals := by
  have hsteps : ∀ {s : Spec} (prs : List (String × Nat)) {st : MState},
      stepsMod finals s prs st = .error .finalProp → ∃ pk ∈ prs, pk.1 ∈ finals := by
    intro s prs
    induction prs with
    | nil => intro st h; simp [stepsMod] at h
    | cons pk rest ih =>
      intro st h
      simp only [stepsMod] at h
      split at h
      · rename_i e' h1
        cases h
        unfold stepMod at h1
        split at h1
        · rename_i hf; exact ⟨pk, by simp, hf⟩
        · have := stepModCore_error h1; cases this
      · obtain ⟨qk, hq, hf⟩ := ih h
        exact ⟨qk, List.mem_cons_of_mem _ hq, hf⟩
  induction L with
  | nil => intro st h; simp [modPass] at h
  | cons s rest ih =>
    intro st h
    simp only [modPass] at h
    split at h
    · rename_i e' h1
      cases h
      obtain ⟨pk, hpk, hf⟩ := hsteps _ h1
      exact ⟨s, by simp, pk, hpk, hf⟩
    · obtain ⟨t, ht, r⟩ := ih h
      exact ⟨t, List.mem_cons_of_mem _ ht, r⟩

/-- a modifying pass that succeeds met no final property (the check added by commit 5766576b) -/
theorem modPass_ok_nofinal {finals : List String} (L : List Spec) : ∀ {st st' : MState},
    modPass finals L st = .ok st' → ∀ s ∈ L, ∀ pk ∈ s.prios, pk.1 ∉ finals := by
  have hsteps : ∀ {s : Spec} (prs : List (String × Nat)) {st st' : MState},
      stepsMod finals s prs st = .ok st' → ∀ pk ∈ prs, pk.1 ∉ finals := by
    intro s prs
    induction prs with
    | nil => intro st st' _ pk hpk; cases hpk
    | cons pk rest ih =>
      intro st st' h qk hqk
      simp only [stepsMod] at h
      split at h
      · cases h
      · rename_i st1 h1
        rcases List.mem_cons.mp hqk with rfl | hr
        · exact (stepMod_ok_core h1).1
        · exact ih h qk hr
  induction L with
  | nil => intro st st' _ s hs; cases hs
  | cons s rest ih =>
    intro st st' h t ht
    simp only [modPass] at h
    split at h
    · cases h
    · rename_i st1 h1
      rcases List.mem_cons.mp ht with rfl | hr
      · exact hsteps _ h1
      · exact ih h t hr

/-- a final property among the candidates of the modifying pass makes it fail -/
theorem modPass_final_error {finals : List String} (L : List Spec) {st : MState} (s : Spec) (hs : s ∈ L)
    (pk : String × Nat) (hpk : pk ∈ s.prios) (hf : pk.1 ∈ finals) :
    ∃ e, modPass finals L st = .error e ∧ (e = .modifiedTwice ∨ e = .finalProp) := by
  cases h : modPass finals L st with
  | error e => exact ⟨e, rfl, modPass_error L h⟩
  | ok st' => exact absurd hf (modPass_ok_nofinal L h s hs pk hpk)

/-! ### the modifying pass reads `properties` only through look-ups -/

def MEq (a b : MState) : Prop := (∀ p, get a.props p = get b.props p) ∧ a.modifying = b.modifying

def ERel {α} (R : α → α → Prop) : Except Err α → Except Err α → Prop
  | .ok a, .ok b => R a b
  | .error e1, .error e2 => e1 = e2
  | _, _ => False

theorem stepModCore_ext (s : Spec) {a b : MState} (pk : String × Nat) (h : MEq a b) :
    ERel MEq (stepModCore s a pk) (stepModCore s b pk) := by
  obtain ⟨hp, hm⟩ := h
  unfold stepModCore
  rw [← hp pk.1, ← hm]
  have hput : ∀ v, MEq ⟨put a.props pk.1 v, a.modifying⟩ ⟨put b.props pk.1 v, a.modifying⟩ := by
    intro v; refine ⟨fun p => ?_, rfl⟩
    simp only [get_put, hp]
  cases hg : get a.props pk.1 with
  | none => simp only [ERel]; exact hput _
  | some v =>
    obtain ⟨node, cur⟩ := v
    simp only
    split
    · simp only [ERel]; exact hput _
    · split
      · cases get a.modifying pk.1 with
        | some _ => simp [ERel]
        | none => simp only [ERel]; exact ⟨hp, rfl⟩
      · simp only [ERel]; exact ⟨hp, hm⟩

theorem stepMod_ext (finals : List String) (s : Spec) {a b : MState} (pk : String × Nat) (h : MEq a b) :
    ERel MEq (stepMod finals s a pk) (stepMod finals s b pk) := by
  unfold stepMod
  split
  · simp [ERel]
  · exact stepModCore_ext s pk h

theorem stepsMod_ext (finals : List String) (s : Spec) (prs : List (String × Nat)) : ∀ {a b : MState}, MEq a b →
    ERel MEq (stepsMod finals s prs a) (stepsMod finals s prs b) := by
  induction prs with
  | nil => intro a b h; simpa [stepsMod, ERel] using h
  | cons pk rest ih =>
    intro a b h
    have h1 := stepMod_ext finals s pk h
    simp only [stepsMod]
    cases ha : stepMod finals s a pk <;> cases hb : stepMod finals s b pk <;> rw [ha, hb] at h1 <;> simp only [ERel] at h1
    · subst h1; simp [ERel]
    · exact ih h1

theorem modPass_ext (finals : List String) (L : List Spec) : ∀ {a b : MState}, MEq a b →
    ERel MEq (modPass finals L a) (modPass finals L b) := by
  induction L with
  | nil => intro a b h; simpa [modPass, ERel] using h
  | cons s rest ih =>
    intro a b h
    have h1 := stepsMod_ext finals s s.prios h
    simp only [modPass]
    cases ha : stepsMod finals s s.prios a <;> cases hb : stepsMod finals s s.prios b <;> rw [ha, hb] at h1 <;> simp only [ERel] at h1
    · subst h1; simp [ERel]
    · exact ih h1

/-! ## defaults -/

theorem addDefaults_get (prio : List (String × (Node × Nat))) (defs : List (String × List String)) :
    ∀ (assign : List (String × Node)) (added : List Node) (q : String),
    get (addDefaults prio defs assign added).1 q =
      if (defs.any (fun e => decide (e.1 = q)) && (get prio q).isNone) = true then some (.dflt q)
      else get assign q := by
  induction defs with
  | nil => intro assign added q; simp [addDefaults]
  | cons d rest ih =>
    intro assign added q
    obtain ⟨p, dd⟩ := d
    simp only [addDefaults]
    cases hg : get prio p with
    | none =>
      rw [ih]
      by_cases hpq : p = q
      · subst hpq
        simp [hg, get_put_self]
      · rw [get_put_ne _ _ hpq]
        have hd : decide (p = q) = false := decide_eq_false hpq
        simp only [List.any_cons, hd, Bool.false_or]
    | some v =>
      rw [ih]
      by_cases hpq : p = q
      · subst hpq; simp [hg]
      · have hd : decide (p = q) = false := decide_eq_false hpq
        simp only [List.any_cons, hd, Bool.false_or]

theorem addDefaults_added (prio : List (String × (Node × Nat))) (defs : List (String × List String)) :
    ∀ (assign : List (String × Node)) (added : List Node),
    (addDefaults prio defs assign added).2 =
      added ++ (defs.filter (fun e => (get prio e.1).isNone)).map (fun e => Node.dflt e.1) := by
  induction defs with
  | nil => intro assign added; simp [addDefaults]
  | cons d rest ih =>
    intro assign added
    obtain ⟨p, dd⟩ := d
    simp only [addDefaults]
    cases hg : get prio p with
    | none => simp [ih, hg]
    | some v => simp [ih, hg]

/-! ## looking a specifier up by name -/

theorem find?_perm_unique {α} {p : α → Bool} {l1 l2 : List α} (h : l1.Perm l2)
    (hu : ∀ a ∈ l1, ∀ b ∈ l1, p a = true → p b = true → a = b) : l1.find? p = l2.find? p := by
  cases h1 : l1.find? p with
  | none =>
    rw [List.find?_eq_none] at h1
    symm; rw [List.find?_eq_none]
    intro x hx; exact h1 x (h.mem_iff.mpr hx)
  | some a =>
    have ha := List.find?_some h1
    have hma := List.mem_of_find?_eq_some h1
    cases h2 : l2.find? p with
    | none =>
      rw [List.find?_eq_none] at h2
      exact absurd ha (h2 a (h.mem_iff.mp hma))
    | some b =>
      have hb := List.find?_some h2
      have hmb := h.mem_iff.mpr (List.mem_of_find?_eq_some h2)
      rw [hu a hma b hmb ha hb]

theorem nodup_map_inj {α β} {f : α → β} : ∀ {l : List α}, (l.map f).Nodup → ∀ {a b}, a ∈ l → b ∈ l → f a = f b → a = b := by
  intro l
  induction l with
  | nil => intro _ a b ha; simp at ha
  | cons x xs ih =>
    intro h a b ha hb hab
    simp only [List.map_cons, List.nodup_cons, List.mem_map, not_exists, not_and] at h
    rcases List.mem_cons.mp ha with ha1 | ha1
    · rcases List.mem_cons.mp hb with hb1 | hb1
      · rw [ha1, hb1]
      · subst ha1; exact absurd hab.symm (h.1 b hb1)
    · rcases List.mem_cons.mp hb with hb1 | hb1
      · subst hb1; exact absurd hab (h.1 a ha1)
      · exact ih h.2 ha1 hb1 hab

theorem hasDup_eq_false_iff (l : List String) : hasDup l = false ↔ l.Nodup := by
  induction l with
  | nil => simp [hasDup]
  | cons x xs ih =>
    simp only [hasDup, Bool.or_eq_false_iff, List.nodup_cons, ih]
    simp

theorem depsOf_perm (C : ClassInfo) {S1 S2 : List Spec} (h : S1.Perm S2)
    (hnd : (S1.map (·.name)).Nodup) : depsOf C S1 = depsOf C S2 := by
  funext n
  cases n with
  | dflt p => rfl
  | user n =>
    simp only [depsOf]
    rw [find?_perm_unique h]
    intro a ha b hb hpa hpb
    simp only [decide_eq_true_eq] at hpa hpb
    exact nodup_map_inj hnd ha hb (by rw [hpa, hpb])

end Scenic.Spec
