import ScenicModel.Model.Specifiers

/-! Helper lemmas for the specifier-resolution model: dictionaries, the two priority passes. -/
namespace Scenic.Spec

/-! ## dictionaries -/
section dict
variable {α β : Type} [DecidableEq α]

theorem get_put (m : List (α × β)) (k k' : α) (v : β) :
    get (put m k v) k' = if k = k' then some v else get m k' := by
  induction m with
  | nil => simp [put, get]
  | cons e m ih =>
    obtain ⟨a, b⟩ := e
    by_cases h : a = k
    · subst h
      simp only [put, if_true, get]
      by_cases h2 : a = k' <;> simp [h2]
    · simp only [put, h, if_false, get, ih]
      by_cases h2 : a = k'
      · subst h2; simp [Ne.symm h]
      · simp [h2]

theorem get_put_self (m : List (α × β)) (k : α) (v : β) : get (put m k v) k = some v := by
  rw [get_put]; simp

theorem get_put_ne (m : List (α × β)) {k k' : α} (v : β) (h : k ≠ k') :
    get (put m k v) k' = get m k' := by
  rw [get_put]; simp [h]

theorem get_map_snd {γ} (m : List (α × β)) (f : β → γ) (k : α) :
    get (m.map (fun e => (e.1, f e.2))) k = (get m k).map f := by
  induction m with
  | nil => rfl
  | cons e m ih =>
    simp only [List.map, get]
    split <;> simp [ih]

theorem mem_of_get {m : List (α × β)} {k : α} {v : β} (h : get m k = some v) : (k, v) ∈ m := by
  induction m with
  | nil => simp [get] at h
  | cons e m ih =>
    obtain ⟨a, b⟩ := e
    simp only [get] at h
    split at h
    · rename_i hk; subst hk; simp only [Option.some.injEq] at h; subst h; simp
    · exact List.mem_cons_of_mem _ (ih h)

theorem get_none_iff {m : List (α × β)} {k : α} : get m k = none ↔ ∀ e ∈ m, e.1 ≠ k := by
  induction m with
  | nil => simp [get]
  | cons e m ih =>
    simp only [get, List.mem_cons, forall_eq_or_imp]
    split
    · rename_i hk; simp [hk]
    · rename_i hk; simp [hk, ih]

theorem get_isSome_of_mem {m : List (α × β)} {k : α} {v : β} (h : (k, v) ∈ m) : (get m k).isSome := by
  cases hg : get m k with
  | some _ => rfl
  | none => exact absurd rfl (get_none_iff.mp hg _ h)

end dict

/-! ## position in a list (evaluation order) -/

/-- index of the first occurrence (the length if absent) -/
def pos : List Node → Node → Nat
  | [], _ => 0
  | y :: ys, x => if y = x then 0 else pos ys x + 1

theorem pos_lt_of_mem {l : List Node} {x : Node} (h : x ∈ l) : pos l x < l.length := by
  induction l with
  | nil => simp at h
  | cons y ys ih =>
    simp only [pos, List.length_cons]
    split
    · omega
    · rename_i hne
      have : x ∈ ys := by
        rcases List.mem_cons.mp h with h | h
        · exact absurd h.symm hne
        · exact h
      have := ih this; omega

theorem pos_append_of_mem {l : List Node} (l' : List Node) {x : Node} (h : x ∈ l) :
    pos (l ++ l') x = pos l x := by
  induction l with
  | nil => simp at h
  | cons y ys ih =>
    simp only [List.cons_append, pos]
    split
    · rfl
    · rename_i hne
      have : x ∈ ys := by
        rcases List.mem_cons.mp h with h | h
        · exact absurd h.symm hne
        · exact h
      rw [ih this]

theorem pos_append_of_not_mem {l : List Node} {x : Node} (h : x ∉ l) :
    pos (l ++ [x]) x = l.length := by
  induction l with
  | nil => simp [pos]
  | cons y ys ih =>
    simp only [List.mem_cons, not_or] at h
    simp only [List.cons_append, pos, List.length_cons]
    rw [if_neg (Ne.symm h.1), ih h.2]

/-! ## candidates: the (specifier, property, priority) triples in loop order -/

/-- one iteration of the inner loops: specifier name, is it a modifying specifier, property, priority -/
structure Cand where
  name : String
  mod : Bool
  prop : String
  prio : Nat
deriving DecidableEq, Repr

def candsOf (s : Spec) : List Cand := s.prios.map (fun pk => ⟨s.name, s.modifying, pk.1, pk.2⟩)

def cands (L : List Spec) : List Cand := L.flatMap candsOf

theorem mem_cands {L : List Spec} {c : Cand} :
    c ∈ cands L ↔ ∃ s ∈ L, c.name = s.name ∧ c.mod = s.modifying ∧ (c.prop, c.prio) ∈ s.prios := by
  simp only [cands, List.mem_flatMap, candsOf, List.mem_map]
  constructor
  · rintro ⟨s, hs, pk, hpk, rfl⟩
    exact ⟨s, hs, rfl, rfl, hpk⟩
  · rintro ⟨s, hs, h1, h2, h3⟩
    refine ⟨s, hs, (c.prop, c.prio), h3, ?_⟩
    cases c; simp_all

/-- The invariant shared by both priority passes: after the candidates `P` have been processed,
`props` maps each property to a processed candidate of minimal priority number, strictly below
every *other* normal candidate's. -/
def PInv (P : List Cand) (props : List (String × (Node × Nat))) : Prop :=
  ∀ p, match get props p with
    | some (node, k) => ∃ n, node = .user n ∧ (∃ b, (⟨n, b, p, k⟩ : Cand) ∈ P) ∧
        ∀ c ∈ P, c.prop = p → k ≤ c.prio ∧ (c.mod = false → c.name ≠ n → k < c.prio)
    | none => ∀ c ∈ P, c.prop ≠ p

theorem PInv_nil : PInv [] [] := by
  intro p; simp [get]

theorem PInv_put {P : List Cand} {props : List (String × (Node × Nat))} (hI : PInv P props)
    (name : String) (b : Bool) (p : String) (k : Nat)
    (hlt : ∀ node cur, get props p = some (node, cur) → k < cur) :
    PInv (P ++ [⟨name, b, p, k⟩]) (put props p (.user name, k)) := by
  intro q
  by_cases hq : p = q
  · subst hq
    rw [get_put_self]
    refine ⟨name, rfl, ⟨b, by simp⟩, ?_⟩
    intro c hc hcp
    rcases List.mem_append.mp hc with hc | hc
    · have := hI p
      cases hg : get props p with
      | none => rw [hg] at this; exact absurd hcp (this c hc)
      | some v =>
        obtain ⟨node, cur⟩ := v
        rw [hg] at this
        obtain ⟨n, _, _, hmin⟩ := this
        have h1 := (hmin c hc hcp).1
        have h2 := hlt node cur hg
        exact ⟨by omega, fun _ _ => by omega⟩
    · simp only [List.mem_singleton] at hc; subst hc
      exact ⟨Nat.le_refl _, fun _ h => absurd rfl h⟩
  · rw [get_put_ne _ _ hq]
    have := hI q
    cases hg : get props q with
    | none =>
      rw [hg] at this
      intro c hc
      rcases List.mem_append.mp hc with hc | hc
      · exact this c hc
      · simp only [List.mem_singleton] at hc; subst hc; exact hq
    | some v =>
      obtain ⟨node, cur⟩ := v
      rw [hg] at this
      obtain ⟨n, hn, ⟨b', hb'⟩, hmin⟩ := this
      refine ⟨n, hn, ⟨b', List.mem_append_left _ hb'⟩, ?_⟩
      intro c hc hcp
      rcases List.mem_append.mp hc with hc | hc
      · exact hmin c hc hcp
      · simp only [List.mem_singleton] at hc; subst hc; exact absurd hcp hq

theorem PInv_keep {P : List Cand} {props : List (String × (Node × Nat))} (hI : PInv P props)
    (name : String) (b : Bool) (p : String) (k : Nat) (node : Node) (cur : Nat)
    (hg : get props p = some (node, cur)) (hle : cur ≤ k) (hne : b = false → node ≠ .user name → cur ≠ k) :
    PInv (P ++ [⟨name, b, p, k⟩]) props := by
  intro q
  have := hI q
  cases hgq : get props q with
  | none =>
    rw [hgq] at this
    intro c hc
    rcases List.mem_append.mp hc with hc | hc
    · exact this c hc
    · simp only [List.mem_singleton] at hc; subst hc
      intro h; simp only at h; subst h; rw [hg] at hgq; cases hgq
  | some v =>
    obtain ⟨node', cur'⟩ := v
    rw [hgq] at this
    obtain ⟨n, hn, ⟨b', hb'⟩, hmin⟩ := this
    refine ⟨n, hn, ⟨b', List.mem_append_left _ hb'⟩, ?_⟩
    intro c hc hcp
    rcases List.mem_append.mp hc with hc | hc
    · exact hmin c hc hcp
    · simp only [List.mem_singleton] at hc; subst hc
      simp only at hcp; subst hcp
      rw [hg] at hgq; cases hgq
      refine ⟨hle, fun hb hname => ?_⟩
      have := hne hb (by rw [hn]; intro h; cases h; exact hname rfl)
      simp only at *; omega

def pairOf (c : Cand) : String × Nat := (c.prop, c.prio)

/-- invariant of the normal pass after the candidates `P` -/
structure NInv (P : List Cand) (st : NState) : Prop where
  pinv : PInv P st.props
  seen : st.seen = P.map pairOf
  normal : ∀ c ∈ P, c.mod = false

theorem NInv_nil : NInv [] ⟨[], []⟩ := ⟨PInv_nil, rfl, by simp⟩

theorem stepNormal_ok {finals : List String} {name : String} {st st' : NState} {pk : String × Nat}
    {P : List Cand} (hI : NInv P st) (h : stepNormal finals name st pk = .ok st') :
    NInv (P ++ [⟨name, false, pk.1, pk.2⟩]) st' ∧ pk.1 ∉ finals ∧ pk ∉ P.map pairOf := by
  unfold stepNormal at h
  split at h
  · cases h
  · rename_i hfin
    split at h
    · cases h
    · rename_i hseen
      have hseen' : pk ∉ P.map pairOf := by rw [← hI.seen]; exact hseen
      refine ⟨?_, hfin, hseen'⟩
      have hnormal : ∀ c ∈ P ++ [(⟨name, false, pk.1, pk.2⟩ : Cand)], c.mod = false := by
        intro c hc
        rcases List.mem_append.mp hc with hc | hc
        · exact hI.normal c hc
        · simp only [List.mem_singleton] at hc; subst hc; rfl
      have hseen2 : st.seen ++ [pk] = (P ++ [(⟨name, false, pk.1, pk.2⟩ : Cand)]).map pairOf := by
        simp [hI.seen, pairOf]
      split at h
      · rename_i node cur hg
        split at h
        · rename_i hlt
          cases h
          refine ⟨?_, hseen2, hnormal⟩
          apply PInv_put hI.pinv
          intro node' cur' hg'
          rw [hg] at hg'; cases hg'; exact hlt
        · rename_i hnlt
          cases h
          refine ⟨?_, hseen2, hnormal⟩
          apply PInv_keep hI.pinv name false pk.1 pk.2 node cur hg (by omega)
          intro _ _ hk
          -- (pk.1, cur) was seen: the current best is a processed candidate
          have := hI.pinv pk.1
          rw [hg] at this
          obtain ⟨n, _, ⟨b, hb⟩, _⟩ := this
          apply hseen'
          rw [List.mem_map]
          exact ⟨_, hb, by simp [pairOf, hk]⟩
      · rename_i hg
        cases h
        refine ⟨?_, hseen2, hnormal⟩
        apply PInv_put hI.pinv
        intro node' cur' hg'
        rw [hg] at hg'; cases hg'

theorem stepNormal_error {finals : List String} {name : String} {st : NState} {pk : String × Nat}
    {e : Err} (h : stepNormal finals name st pk = .error e) :
    (e = .finalProp ∧ pk.1 ∈ finals) ∨ (e = .tie ∧ pk.1 ∉ finals ∧ pk ∈ st.seen) := by
  unfold stepNormal at h
  split at h
  · rename_i hf; cases h; exact Or.inl ⟨rfl, hf⟩
  · rename_i hf
    split at h
    · rename_i hs; cases h; exact Or.inr ⟨rfl, hf, hs⟩
    · split at h
      · split at h <;> cases h
      · cases h

/-- a step succeeds exactly when the property is not final and the (property, priority) pair is new -/
theorem stepNormal_isOk {finals : List String} {name : String} {st : NState} {pk : String × Nat}
    (hf : pk.1 ∉ finals) (hs : pk ∉ st.seen) : ∃ st', stepNormal finals name st pk = .ok st' := by
  unfold stepNormal
  rw [if_neg hf, if_neg hs]
  split
  · split <;> exact ⟨_, rfl⟩
  · exact ⟨_, rfl⟩

/-- the normal-pass invariant together with the two facts that make the pass succeed so far -/
structure NInvF (finals : List String) (P : List Cand) (st : NState) : Prop extends NInv P st where
  nodup : (P.map pairOf).Nodup
  nofinal : ∀ c ∈ P, c.prop ∉ finals

theorem NInvF_nil (finals : List String) : NInvF finals [] ⟨[], []⟩ :=
  { NInv_nil with nodup := by simp, nofinal := by simp }

def mkCand (name : String) (b : Bool) (pk : String × Nat) : Cand := ⟨name, b, pk.1, pk.2⟩

theorem stepNormal_okF {finals : List String} {name : String} {st st' : NState} {pk : String × Nat}
    {P : List Cand} (hI : NInvF finals P st) (h : stepNormal finals name st pk = .ok st') :
    NInvF finals (P ++ [mkCand name false pk]) st' := by
  obtain ⟨h1, h2, h3⟩ := stepNormal_ok hI.toNInv h
  refine { h1 with nodup := ?_, nofinal := ?_ }
  · rw [List.map_append, List.nodup_append]
    refine ⟨hI.nodup, by simp, ?_⟩
    intro a ha b hb
    simp only [List.map_cons, List.map_nil, List.mem_singleton] at hb
    subst hb
    intro hab; subst hab
    exact h3 ha
  · intro c hc
    rcases List.mem_append.mp hc with hc | hc
    · exact hI.nofinal c hc
    · simp only [List.mem_singleton] at hc; subst hc; exact h2

theorem stepsNormal_ok {finals : List String} {name : String} (prs : List (String × Nat)) :
    ∀ {st st' : NState} {P : List Cand}, NInvF finals P st → stepsNormal finals name prs st = .ok st' →
    NInvF finals (P ++ prs.map (mkCand name false)) st' := by
  induction prs with
  | nil => intro st st' P hI h; simp only [stepsNormal] at h; cases h; simpa using hI
  | cons pk rest ih =>
    intro st st' P hI h
    simp only [stepsNormal] at h
    split at h
    · cases h
    · rename_i st1 h1
      have := ih (stepNormal_okF hI h1) h
      simpa [List.append_assoc] using this

theorem stepsNormal_error {finals : List String} {name : String} (prs : List (String × Nat)) :
    ∀ {st : NState} {P : List Cand} {e : Err}, NInvF finals P st → stepsNormal finals name prs st = .error e →
    (e = .finalProp ∧ ∃ pk ∈ prs, pk.1 ∈ finals) ∨
    (e = .tie ∧ ¬ ((P ++ prs.map (mkCand name false)).map pairOf).Nodup) := by
  induction prs with
  | nil => intro st P e hI h; simp [stepsNormal] at h
  | cons pk rest ih =>
    intro st P e hI h
    simp only [stepsNormal] at h
    split at h
    · rename_i e' h1
      cases h
      rcases stepNormal_error h1 with ⟨he, hf⟩ | ⟨he, _, hs⟩
      · exact Or.inl ⟨he, pk, by simp, hf⟩
      · refine Or.inr ⟨he, ?_⟩
        intro hnd
        rw [hI.seen] at hs
        simp only [List.map_cons, List.map_append] at hnd
        rw [List.nodup_append] at hnd
        exact hnd.2.2 _ hs (pairOf (mkCand name false pk)) (by simp) (by simp [pairOf, mkCand])
    · rename_i st1 h1
      rcases ih (stepNormal_okF hI h1) h with ⟨he, pk', hpk', hf⟩ | ⟨he, hnd⟩
      · exact Or.inl ⟨he, pk', List.mem_cons_of_mem _ hpk', hf⟩
      · refine Or.inr ⟨he, ?_⟩
        simpa [List.append_assoc] using hnd

theorem stepsNormal_isOk {finals : List String} {name : String} (prs : List (String × Nat)) :
    ∀ {st : NState} {P : List Cand}, NInvF finals P st → (∀ pk ∈ prs, pk.1 ∉ finals) →
    ((P ++ prs.map (mkCand name false)).map pairOf).Nodup →
    ∃ st', stepsNormal finals name prs st = .ok st' := by
  intro st P hI hf hnd
  cases h : stepsNormal finals name prs st with
  | ok st' => exact ⟨st', rfl⟩
  | error e =>
    rcases stepsNormal_error prs hI h with ⟨_, pk, hpk, hfin⟩ | ⟨_, hn⟩
    · exact absurd hfin (hf pk hpk)
    · exact absurd hnd hn

theorem candsOf_normal {s : Spec} (h : s.modifying = false) : candsOf s = s.prios.map (mkCand s.name false) := by
  simp [candsOf, mkCand, h]

theorem normalPass_ok {finals : List String} (L : List Spec) (hL : ∀ s ∈ L, s.modifying = false) :
    ∀ {st st' : NState} {P : List Cand}, NInvF finals P st → normalPass finals L st = .ok st' →
    NInvF finals (P ++ cands L) st' := by
  induction L with
  | nil => intro st st' P hI h; simp only [normalPass] at h; cases h; simpa [cands] using hI
  | cons s rest ih =>
    intro st st' P hI h
    simp only [normalPass] at h
    split at h
    · cases h
    · rename_i st1 h1
      have h2 := stepsNormal_ok s.prios hI h1
      rw [← candsOf_normal (hL s (by simp))] at h2
      have := ih (fun t ht => hL t (List.mem_cons_of_mem _ ht)) h2 h
      simpa [cands, List.append_assoc] using this

theorem normalPass_error {finals : List String} (L : List Spec) (hL : ∀ s ∈ L, s.modifying = false) :
    ∀ {st : NState} {P : List Cand} {e : Err}, NInvF finals P st → normalPass finals L st = .error e →
    (e = .finalProp ∧ ∃ c ∈ cands L, c.prop ∈ finals) ∨
    (e = .tie ∧ ¬ ((P ++ cands L).map pairOf).Nodup) := by
  induction L with
  | nil => intro st P e hI h; simp [normalPass] at h
  | cons s rest ih =>
    intro st P e hI h
    have hs := hL s (by simp)
    simp only [normalPass] at h
    split at h
    · rename_i e' h1
      cases h
      rcases stepsNormal_error s.prios hI h1 with ⟨he, pk, hpk, hf⟩ | ⟨he, hnd⟩
      · refine Or.inl ⟨he, mkCand s.name false pk, ?_, hf⟩
        simp only [cands, List.flatMap_cons, List.mem_append]
        left; rw [candsOf_normal hs]; exact List.mem_map_of_mem hpk
      · refine Or.inr ⟨he, fun hnd' => hnd ?_⟩
        rw [← candsOf_normal hs]
        simp only [cands, List.flatMap_cons, ← List.append_assoc, List.map_append] at hnd'
        rw [List.map_append]
        exact (List.nodup_append.mp hnd').1
    · rename_i st1 h1
      have h2 := stepsNormal_ok s.prios hI h1
      rw [← candsOf_normal hs] at h2
      rcases ih (fun t ht => hL t (List.mem_cons_of_mem _ ht)) h2 h with ⟨he, c, hc, hf⟩ | ⟨he, hnd⟩
      · refine Or.inl ⟨he, c, ?_, hf⟩
        simp only [cands, List.flatMap_cons, List.mem_append]; right; exact hc
      · refine Or.inr ⟨he, ?_⟩
        simpa [cands, List.append_assoc] using hnd

theorem normalPass_isOk {finals : List String} (L : List Spec) (hL : ∀ s ∈ L, s.modifying = false)
    {st : NState} {P : List Cand} (hI : NInvF finals P st) (hf : ∀ c ∈ cands L, c.prop ∉ finals)
    (hnd : ((P ++ cands L).map pairOf).Nodup) : ∃ st', normalPass finals L st = .ok st' := by
  cases h : normalPass finals L st with
  | ok st' => exact ⟨st', rfl⟩
  | error e =>
    rcases normalPass_error L hL hI h with ⟨_, c, hc, hfin⟩ | ⟨_, hn⟩
    · exact absurd hfin (hf c hc)
    · exact absurd hnd hn

end Scenic.Spec
