import ScenicModel.Model.Overrides

/-! Helper lemmas for C14 (proxies / overrides / clean-up).  Core Lean only. -/
namespace Scenic.Overrides

namespace World

theorem write_orig_of_proxied (w : World) (o : ObjId) (p : PropId) (v : Val) (h : w.proxied o = true) :
    (w.write o p v).orig = w.orig := by
  unfold write; simp [h]

theorem write_proxied (w : World) (o : ObjId) (p : PropId) (v : Val) :
    (w.write o p v).proxied = w.proxied := by
  unfold write; split <;> rfl

theorem enable_orig (w : World) (o : ObjId) : (w.enable o).orig = w.orig := rfl

theorem disable_orig (w : World) (o : ObjId) : (w.disable o).orig = w.orig := rfl

theorem enable_proxied_self (w : World) (o : ObjId) : (w.enable o).proxied o = true := by
  simp [enable]

theorem enable_proxied_mono (w : World) (o o' : ObjId) (h : w.proxied o' = true) :
    (w.enable o).proxied o' = true := by
  simp only [enable]; split <;> simp [h]

theorem enable_proxied_inv (w : World) (o o' : ObjId) (h : (w.enable o).proxied o' = true) :
    o' = o ∨ w.proxied o' = true := by
  simp only [enable] at h
  by_cases e : o' = o
  · exact Or.inl e
  · simp [e] at h; exact Or.inr h

theorem read_write_same (w : World) (o : ObjId) (p : PropId) (v : Val) : (w.write o p v).read o p = v := by
  unfold write read
  by_cases h : w.proxied o = true <;> simp [h]

theorem read_write_other (w : World) (o o' : ObjId) (p p' : PropId) (v : Val) (h : ¬(o' = o ∧ p' = p)) :
    (w.write o p v).read o' p' = w.read o' p' := by
  unfold write read
  by_cases hp : w.proxied o = true <;> simp [hp, h]

end World

/-- objects mentioned in a saved list are proxied -/
def SavedProxied (w : World) (s : Saved) : Prop := ∀ e ∈ s, w.proxied e.1 = true

theorem revertAll_orig (s : Saved) : ∀ (w : World), SavedProxied w s →
    (revertAll w s).orig = w.orig ∧ (revertAll w s).proxied = w.proxied := by
  induction s with
  | nil => intro w _; exact ⟨rfl, rfl⟩
  | cons e rest ih =>
    intro w h
    have he : w.proxied e.1 = true := h e (List.mem_cons_self ..)
    have h' : SavedProxied (w.write e.1 e.2.1 e.2.2) rest := by
      intro x hx
      rw [World.write_proxied]
      exact h x (List.mem_cons_of_mem _ hx)
    have := ih (w.write e.1 e.2.1 e.2.2) h'
    simp only [revertAll, List.foldl_cons] at this ⊢
    rw [this.1, this.2, World.write_orig_of_proxied _ _ _ _ he, World.write_proxied]
    exact ⟨rfl, rfl⟩

theorem revertAll_proxied (s : Saved) : ∀ (w : World), (revertAll w s).proxied = w.proxied := by
  induction s with
  | nil => intro w; rfl
  | cons e rest ih =>
    intro w
    simp only [revertAll, List.foldl_cons] at ih ⊢
    rw [ih, World.write_proxied]

/-- reverting a list of frames one after the other -/
theorem revertFrames_orig (fs : List Frame) : ∀ (w : World),
    (∀ f ∈ fs, SavedProxied w f.saved) →
    (fs.foldl (fun w f => revertAll w f.saved) w).orig = w.orig ∧
    (fs.foldl (fun w f => revertAll w f.saved) w).proxied = w.proxied := by
  induction fs with
  | nil => intro w _; exact ⟨rfl, rfl⟩
  | cons f rest ih =>
    intro w h
    have hf := revertAll_orig f.saved w (h f (List.mem_cons_self ..))
    have h' : ∀ g ∈ rest, SavedProxied (revertAll w f.saved) g.saved := by
      intro g hg x hx
      rw [hf.2]
      exact h g (List.mem_cons_of_mem _ hg) x hx
    have := ih (revertAll w f.saved) h'
    simp only [List.foldl_cons]
    rw [this.1, this.2, hf.1, hf.2]
    exact ⟨rfl, rfl⟩

theorem revertFrames_proxied (fs : List Frame) : ∀ (w : World),
    (fs.foldl (fun w f => revertAll w f.saved) w).proxied = w.proxied := by
  induction fs with
  | nil => intro w; rfl
  | cons f rest ih =>
    intro w
    simp only [List.foldl_cons]
    rw [ih, revertAll_proxied]

theorem mem_addSaved (m : MergeMode) (o : ObjId) (olds : List (PropId × Val)) :
    ∀ (s : Saved) (e : ObjId × PropId × Val), e ∈ addSaved m s o olds → e ∈ s ∨ e.1 = o := by
  cases m with
  | keepOldest =>
    induction olds with
    | nil => intro s e h; exact Or.inl h
    | cons pv rest ih =>
      intro s e h
      simp only [addSaved, List.foldl_cons] at h ih
      by_cases hp : hasPair s o pv.1 = true
      · simp only [hp, if_true] at h
        exact ih s e h
      · simp only [hp] at h
        rcases ih _ e h with h1 | h1
        · rcases List.mem_append.mp h1 with h2 | h2
          · exact Or.inl h2
          · simp at h2; right; rw [h2]
        · exact Or.inr h1
  | firstDictOnly =>
    intro s e h
    simp only [addSaved] at h
    split at h
    · exact Or.inl h
    · rcases List.mem_append.mp h with h2 | h2
      · exact Or.inl h2
      · simp at h2; obtain ⟨a, b, _, rfl⟩ := h2; exact Or.inr rfl
  | overwriteDict =>
    intro s e h
    simp only [addSaved] at h
    rcases List.mem_append.mp h with h2 | h2
    · exact Or.inl (List.mem_filter.mp h2).1
    · simp at h2; obtain ⟨a, b, _, rfl⟩ := h2; exact Or.inr rfl

/-- The invariant that keeps the scene isolated: everything in `Simulation.objects` is proxied and every
    remembered override refers to such an object. -/
structure Inv (st : St) : Prop where
  objsProxied : ∀ o ∈ st.objs, st.w.proxied o = true
  savedInObjs : ∀ f ∈ st.frames, ∀ e ∈ f.saved, e.1 ∈ st.objs

theorem Inv.savedProxied {st : St} (h : Inv st) : ∀ f ∈ st.frames, SavedProxied st.w f.saved :=
  fun f hf e he => h.objsProxied _ (h.savedInObjs f hf e he)

theorem stopScen_spec (cfg : Cfg) (st : St) (s : Nat) (h : Inv st) :
    (stopScen cfg st s).w.orig = st.w.orig ∧ (stopScen cfg st s).w.proxied = st.w.proxied ∧
    (stopScen cfg st s).objs = st.objs ∧ Inv (stopScen cfg st s) := by
  unfold stopScen
  split
  · have hv : ∀ f ∈ (st.frames.reverse.filter (fun f => isRunning f && inSub s f)), SavedProxied st.w f.saved := by
      intro f hf
      have : f ∈ st.frames := by
        have := (List.mem_filter.mp hf).1
        exact List.mem_reverse.mp this
      exact h.savedProxied f this
    have := revertFrames_orig _ st.w hv
    refine ⟨this.1, this.2, rfl, ?_, ?_⟩
    · intro o ho
      show (List.foldl _ st.w _).proxied o = true
      rw [this.2]; exact h.objsProxied o ho
    · intro f hf e he
      simp only [List.mem_map] at hf
      obtain ⟨g, hg, rfl⟩ := hf
      simp only [stopFrame] at he
      split at he
      · simp only at he
        split at he
        · simp at he
        · exact h.savedInObjs g hg e he
      · exact h.savedInObjs g hg e he
  · exact ⟨rfl, rfl, rfl, h⟩

theorem step_spec (cfg : Cfg) (st : St) (ev : Ev) (h : Inv st) (hs : scopedEvs st.objs [ev] = true) :
    (step cfg st ev).w.orig = st.w.orig ∧ Inv (step cfg st ev) := by
  cases ev with
  | create o =>
    refine ⟨rfl, ?_, ?_⟩
    · intro o' ho'
      simp only [step] at ho' ⊢
      rcases List.mem_append.mp ho' with h1 | h1
      · exact World.enable_proxied_mono _ _ _ (h.objsProxied _ h1)
      · simp at h1; subst h1; exact World.enable_proxied_self _ _
    · intro f hf e he
      simp only [step] at hf ⊢
      exact List.mem_append_left _ (h.savedInObjs f hf e he)
  | write o p v =>
    simp only [scopedEvs, Bool.and_true, List.contains_eq_mem, decide_eq_true_eq] at hs
    have hp := h.objsProxied o hs
    refine ⟨World.write_orig_of_proxied _ _ _ _ hp, ?_, ?_⟩
    · intro o' ho'
      simp only [step] at ho' ⊢
      rw [World.write_proxied]; exact h.objsProxied _ ho'
    · intro f hf e he
      exact h.savedInObjs f hf e he
  | override s o ps =>
    simp only [scopedEvs, Bool.and_true, List.contains_eq_mem, decide_eq_true_eq] at hs
    have hp := h.objsProxied o hs
    have key : ∀ (l : List (PropId × Val)) (w : World), w.proxied o = true →
        (l.foldl (fun w pv => w.write o pv.1 pv.2) w).orig = w.orig ∧
        (l.foldl (fun w pv => w.write o pv.1 pv.2) w).proxied = w.proxied := by
      intro l
      induction l with
      | nil => intro w _; exact ⟨rfl, rfl⟩
      | cons pv rest ih =>
        intro w hw
        have h1 : (w.write o pv.1 pv.2).proxied o = true := by rw [World.write_proxied]; exact hw
        have := ih (w.write o pv.1 pv.2) h1
        simp only [List.foldl_cons]
        rw [this.1, this.2, World.write_orig_of_proxied _ _ _ _ hw, World.write_proxied]
        exact ⟨rfl, rfl⟩
    have k := key ps st.w hp
    refine ⟨k.1, ?_, ?_⟩
    · intro o' ho'
      simp only [step, doOverride] at ho' ⊢
      rw [k.2]; exact h.objsProxied _ ho'
    · intro f hf e he
      simp only [step, doOverride, List.mem_map] at hf ⊢
      obtain ⟨g, hg, rfl⟩ := hf
      simp only [overrideFrame] at he
      split at he
      · simp only at he
        rcases mem_addSaved _ _ _ _ _ he with h1 | h1
        · exact h.savedInObjs g hg e h1
        · rw [h1]; exact hs
      · exact h.savedInObjs g hg e he
  | prepare s par =>
    refine ⟨rfl, ?_, ?_⟩
    · intro o' ho'; exact h.objsProxied _ ho'
    · intro f hf e he
      simp only [step, doPrepare] at hf ⊢
      rcases List.mem_append.mp hf with h1 | h1
      · exact h.savedInObjs f h1 e he
      · simp at h1; subst h1; simp at he
  | start s =>
    refine ⟨rfl, ?_, ?_⟩
    · intro o' ho'; exact h.objsProxied _ ho'
    · intro f hf e he
      simp only [step, doStart, List.mem_map] at hf ⊢
      obtain ⟨g, hg, rfl⟩ := hf
      simp only [startFrame] at he
      split at he
      · exact h.savedInObjs g hg e he
      · exact h.savedInObjs g hg e he
  | stop s =>
    have := stopScen_spec cfg st s h
    exact ⟨this.1, this.2.2.2⟩

theorem stopScen_objs (cfg : Cfg) (st : St) (s : Nat) : (stopScen cfg st s).objs = st.objs := by
  unfold stopScen; split <;> rfl

def objsAfter (cr : List ObjId) : Ev → List ObjId
  | .create o => cr ++ [o]
  | _ => cr

theorem step_objs (cfg : Cfg) (st : St) (ev : Ev) : (step cfg st ev).objs = objsAfter st.objs ev := by
  cases ev <;> simp [step, objsAfter, doOverride, doPrepare, doStart, stopScen_objs]

theorem scopedEvs_cons (cr : List ObjId) (ev : Ev) (rest : List Ev) (h : scopedEvs cr (ev :: rest) = true) :
    scopedEvs cr [ev] = true ∧ scopedEvs (objsAfter cr ev) rest = true := by
  cases ev <;> simp_all [scopedEvs, objsAfter]

theorem run_spec (cfg : Cfg) : ∀ (evs : List Ev) (st : St), Inv st → scopedEvs st.objs evs = true →
    (run cfg st evs).w.orig = st.w.orig ∧ Inv (run cfg st evs) := by
  intro evs
  induction evs with
  | nil => intro st h _; exact ⟨rfl, h⟩
  | cons ev rest ih =>
    intro st h hs
    have hc := scopedEvs_cons _ _ _ hs
    have h1 := step_spec cfg st ev h hc.1
    have h2 := ih (step cfg st ev) h1.2 (by rw [step_objs]; exact hc.2)
    simp only [run, List.foldl_cons] at h2 ⊢
    exact ⟨h2.1.trans h1.1, h2.2⟩

end Scenic.Overrides
