import ScenicModel.Model.Codec

/-! Helper lemmas for the codec model (core Lean only). -/
namespace Scenic.Codec

theorem length_toLE (n k : Nat) : (toLE n k).length = k := by
  induction k generalizing n with
  | zero => rfl
  | succ k ih => simp [toLE, ih]

theorem toLE_bytesOK (n k : Nat) : BytesOK (toLE n k) := by
  induction k generalizing n with
  | zero => intro b hb; simp [toLE] at hb
  | succ k ih =>
    intro b hb
    simp only [toLE, List.mem_cons] at hb
    rcases hb with h | h
    · subst h; exact Nat.mod_lt _ (by decide)
    · exact ih _ b h

theorem fromLE_toLE (n k : Nat) (h : n < 256 ^ k) : fromLE (toLE n k) = n := by
  induction k generalizing n with
  | zero => simp [Nat.pow_zero] at h; subst h; rfl
  | succ k ih =>
    have h' : n / 256 < 256 ^ k := by
      rw [Nat.div_lt_iff_lt_mul (by decide)]; rw [Nat.pow_succ] at h; exact h
    simp only [toLE, fromLE, ih _ h']
    omega

theorem fromLE_lt (bs : Bytes) (h : BytesOK bs) : fromLE bs < 256 ^ bs.length := by
  induction bs with
  | nil => simp [fromLE]
  | cons b bs ih =>
    have hb : b < 256 := h b (by simp)
    have := ih (fun x hx => h x (by simp [hx]))
    simp only [fromLE, List.length_cons, Nat.pow_succ]
    omega

theorem pow256_pos (k : Nat) : 0 < 256 ^ k := Nat.pow_pos (by decide)

theorem fromSigned_toSigned (z : Int) (k : Nat)
    (hlo : -((256 ^ k : Nat) : Int) ≤ 2 * z) (hhi : 2 * z < ((256 ^ k : Nat) : Int)) :
    fromSigned (toSigned z k) = z := by
  have hm : 0 < 256 ^ k := pow256_pos k
  have hmi : (0 : Int) < ((256 ^ k : Nat) : Int) := by exact_mod_cast hm
  unfold fromSigned toSigned
  simp only [length_toLE]
  have hmodlt : (z % ((256 ^ k : Nat) : Int)).toNat < 256 ^ k := by
    have h1 := Int.emod_lt_of_pos z hmi
    have h0 := Int.emod_nonneg z (Int.ne_of_gt hmi)
    omega
  rw [fromLE_toLE _ _ hmodlt]
  have h0 := Int.emod_nonneg z (Int.ne_of_gt hmi)
  have hcast : (((z % ((256 ^ k : Nat) : Int)).toNat : Nat) : Int) = z % ((256 ^ k : Nat) : Int) :=
    Int.toNat_of_nonneg h0
  by_cases hz : 0 ≤ z
  · have hzm : z % ((256 ^ k : Nat) : Int) = z := Int.emod_eq_of_lt hz (by omega)
    rw [hzm] at hcast ⊢
    have : 2 * z.toNat < 256 ^ k := by omega
    simp only [this, if_true]
    omega
  · have hzm : z % ((256 ^ k : Nat) : Int) = z + ((256 ^ k : Nat) : Int) := by
      rw [← Int.add_emod_right z]
      exact Int.emod_eq_of_lt (by omega) (by omega)
    rw [hzm] at hcast ⊢
    have : ¬ 2 * (z + ((256 ^ k : Nat) : Int)).toNat < 256 ^ k := by omega
    simp only [this, if_false]
    omega

theorem readExact_append (bs s : Bytes) : readExact bs.length (bs ++ s) = some (bs, s) := by
  simp [readExact]

theorem readExact_eq_some {n : Nat} {s a r : Bytes} (h : readExact n s = some (a, r)) :
    s = a ++ r ∧ a.length = n := by
  unfold readExact at h
  split at h
  · simp only [Option.some.injEq, Prod.mk.injEq] at h
    obtain ⟨rfl, rfl⟩ := h
    refine ⟨(List.take_append_drop n s).symm, ?_⟩
    simp [List.length_take]; omega
  · simp at h

/-- Extension stability of `readExact`: more input never changes a successful read. -/
theorem readExact_mono {n : Nat} {s a r : Bytes} (h : readExact n s = some (a, r)) (x : Bytes) :
    readExact n (s ++ x) = some (a, r ++ x) := by
  obtain ⟨rfl, rfl⟩ := readExact_eq_some h
  rw [List.append_assoc]; exact readExact_append _ _

theorem natAbs_lt_two_pow_bitLength (z : Int) : z.natAbs < 2 ^ bitLength z := by
  unfold bitLength
  by_cases h : z.natAbs = 0
  · simp [h]
  · simp only [h, if_false]; exact Nat.lt_log2_self

/-- the length chosen by `writeInt` for big integers is sufficient for two's complement -/
theorem bigLen_fits (t : IntTable) (h : t.WF) (z : Int) :
    -((256 ^ bigLen t z : Nat) : Int) ≤ 2 * z ∧ 2 * z < ((256 ^ bigLen t z : Nat) : Int) := by
  obtain ⟨_, _, _, _, _, _, _, _, _, _, _, _, _, _, _, _, _, _, _, _, hsign, hbits, hmin⟩ := h
  have hb := natAbs_lt_two_pow_bitLength z
  have hlen : bitLength z + 1 ≤ 8 * bigLen t z := by
    unfold bigLen; rw [hbits]
    have : bitLength z + 1 ≤ 8 * ((bitLength z + t.wSignBits + (8 - 1)) / 8) := by omega
    have hmax := Nat.le_max_right t.wMinLen ((bitLength z + t.wSignBits + (8 - 1)) / 8)
    omega
  have hpow : 2 * 2 ^ bitLength z ≤ 256 ^ bigLen t z := by
    have h256 : (256 : Nat) = 2 ^ 8 := by decide
    rw [h256, ← Nat.pow_mul, ← Nat.pow_succ']
    exact Nat.pow_le_pow_right (by decide) hlen
  have : 2 * z.natAbs < 256 ^ bigLen t z := by omega
  constructor <;> omega

end Scenic.Codec
