import ScenicModel.Lemmas.SpecResolve

/-! Order independence of specifier resolution: every phase of `resolve` computes the same thing
(up to the order of dictionary entries) on a permutation of the list, provided there is at most one
modifying specifier. -/
namespace Scenic.Spec

/-- which phase an error comes from: duplicate names / normal pass / modifying pass / topological sort -/
def stage : Err → Nat
  | .dupName => 1
  | .finalProp => 2
  | .tie => 2
  | .modifiedTwice => 3
  | .cycle => 4
  | .missingDep => 4
  | .fuel => 4

theorem perm_of_length_le_one {α} {l1 l2 : List α} (h : l1.Perm l2) (hl : l1.length ≤ 1) : l1 = l2 := by
  match l1, hl with
  | [], _ => exact (List.perm_nil.mp h.symm).symm
  | [a], _ => exact h.singleton_eq

theorem cands_perm {L1 L2 : List Spec} (h : L1.Perm L2) : (cands L1).Perm (cands L2) :=
  List.Perm.flatMap_right _ h

/-- the normal pass succeeds exactly when no candidate is final and all (property, priority) pairs differ -/
theorem normalPass_ok_iff {finals : List String} (L : List Spec) (hL : ∀ s ∈ L, s.modifying = false) :
    (∃ st, normalPass finals L ⟨[], []⟩ = .ok st) ↔
      (∀ c ∈ cands L, c.prop ∉ finals) ∧ ((cands L).map pairOf).Nodup := by
  constructor
  · rintro ⟨st, h⟩
    have := normalPass_ok L hL (NInvF_nil finals) h
    simp only [List.nil_append] at this
    exact ⟨this.nofinal, this.nodup⟩
  · rintro ⟨h1, h2⟩
    exact normalPass_isOk L hL (NInvF_nil finals) h1 (by simpa using h2)

theorem normalPass_error_stage {finals : List String} (L : List Spec) (hL : ∀ s ∈ L, s.modifying = false)
    {e : Err} (h : normalPass finals L ⟨[], []⟩ = .error e) : stage e = 2 := by
  rcases normalPass_error L hL (NInvF_nil finals) h with ⟨rfl, _⟩ | ⟨rfl, _⟩ <;> rfl

/-- two dictionaries satisfying the pass invariant for permuted candidate lists agree on every key -/
theorem PInv_unique {P1 P2 : List Cand} (hP : P1.Perm P2) {m1 m2 : List (String × (Node × Nat))}
    (hn : ∀ c ∈ P1, c.mod = false) (h1 : PInv P1 m1) (h2 : PInv P2 m2) (p : String) :
    get m1 p = get m2 p := by
  have i1 := h1 p
  have i2 := h2 p
  cases hg1 : get m1 p with
  | none =>
    rw [hg1] at i1
    cases hg2 : get m2 p with
    | none => rfl
    | some v =>
      obtain ⟨node, k⟩ := v
      rw [hg2] at i2
      obtain ⟨n, _, ⟨b, hb⟩, _⟩ := i2
      exact absurd rfl (i1 _ (hP.mem_iff.mpr hb))
  | some v1 =>
    obtain ⟨node1, k1⟩ := v1
    rw [hg1] at i1
    obtain ⟨n1, rfl, ⟨b1, hb1⟩, min1⟩ := i1
    cases hg2 : get m2 p with
    | none =>
      rw [hg2] at i2
      exact absurd rfl (i2 _ (hP.mem_iff.mp hb1))
    | some v2 =>
      obtain ⟨node2, k2⟩ := v2
      rw [hg2] at i2
      obtain ⟨n2, rfl, ⟨b2, hb2⟩, min2⟩ := i2
      have hb2' := hP.mem_iff.mpr hb2
      have hb1' := hP.mem_iff.mp hb1
      have e1 : b1 = false := hn _ hb1
      have e2 : b2 = false := hn _ hb2'
      subst e1 e2
      have a1 := min1 _ hb2' rfl
      have a2 := min2 _ hb1' rfl
      have l1 : k1 ≤ k2 := a1.1
      have l2 : k2 ≤ k1 := a2.1
      by_cases hne : n1 = n2
      · subst hne
        have : k1 = k2 := by omega
        subst this; rfl
      · have s1 : k1 < k2 := a1.2 rfl (Ne.symm hne)
        have s2 : k2 < k1 := a2.2 rfl hne
        omega

/-! ### defaults and look-ups depend on the dictionaries only through `get` -/

theorem addDefaults_ext {p1 p2 : List (String × (Node × Nat))} (h : ∀ q, get p1 q = get p2 q)
    (defs : List (String × List String)) :
    (∀ q, get (addDefaults p1 defs (p1.map (fun e => (e.1, e.2.1))) []).1 q =
          get (addDefaults p2 defs (p2.map (fun e => (e.1, e.2.1))) []).1 q) ∧
    (addDefaults p1 defs (p1.map (fun e => (e.1, e.2.1))) []).2 =
      (addDefaults p2 defs (p2.map (fun e => (e.1, e.2.1))) []).2 := by
  constructor
  · intro q
    rw [addDefaults_get, addDefaults_get, get_map_snd, get_map_snd, h q]
  · rw [addDefaults_added, addDefaults_added]
    congr 2
    apply List.filter_congr
    intro e _
    rw [h e.1]

theorem steps_ext (deps : Node → List String) {a1 a2 : List (String × Node)} (modifier : List (String × Node))
    (h : ∀ q, get a1 q = get a2 q) : steps deps a1 modifier = steps deps a2 modifier := by
  funext n
  simp only [steps]
  congr 1
  · apply List.map_congr_left
    intro dep _
    rw [h dep]
  · apply List.map_congr_left
    intro p _
    rw [h p]

/-! ### the whole assignment phase -/

/-- equal up to the order of the `properties` dictionary and of the user specifiers -/
def PreEq (a b : Pre) : Prop :=
  (∀ p, get a.assign p = get b.assign p) ∧ a.modifier = b.modifier ∧ a.nodes.Perm b.nodes

theorem userNodes_perm {S1 S2 : List Spec} (h : S1.Perm S2) : (userNodes S1).Perm (userNodes S2) :=
  h.map _

theorem assignPhase_perm (C : ClassInfo) {S1 S2 : List Spec} (hperm : S1.Perm S2)
    (hmod : (modsOf S1).length ≤ 1) :
    match assignPhase C S1, assignPhase C S2 with
    | .ok a, .ok b => PreEq a b
    | .error e1, .error e2 => stage e1 = stage e2 ∧ stage e1 ≤ 3
    | _, _ => False := by
  have hnames : (S1.map (·.name)).Nodup ↔ (S2.map (·.name)).Nodup := (hperm.map _).nodup_iff
  have hnorm : (normalOf S1).Perm (normalOf S2) := hperm.filter _
  have hmods : modsOf S1 = modsOf S2 := perm_of_length_le_one (hperm.filter _) hmod
  unfold assignPhase
  by_cases hd : hasDup (S1.map (·.name)) = true
  · have hd2 : hasDup (S2.map (·.name)) = true := by
      cases h : hasDup (S2.map (·.name)) with
      | true => rfl
      | false =>
        have := hnames.mpr ((hasDup_eq_false_iff _).mp h)
        rw [← hasDup_eq_false_iff] at this
        rw [this] at hd; cases hd
    rw [if_pos hd, if_pos hd2]
    exact ⟨rfl, by decide⟩
  · have hd2 : ¬ hasDup (S2.map (·.name)) = true := by
      intro h2
      apply hd
      cases h : hasDup (S1.map (·.name)) with
      | true => rfl
      | false =>
        have := hnames.mp ((hasDup_eq_false_iff _).mp h)
        rw [← hasDup_eq_false_iff] at this
        rw [this] at h2; cases h2
    rw [if_neg hd, if_neg hd2]
    show (match (match normalPass C.finals (normalOf S1) ⟨[], []⟩ with
            | .error e => Except.error e
            | .ok ns => _), (match normalPass C.finals (normalOf S2) ⟨[], []⟩ with
            | .error e => Except.error e
            | .ok ns => _) with
          | .ok a, .ok b => PreEq a b
          | .error e1, .error e2 => stage e1 = stage e2 ∧ stage e1 ≤ 3
          | _, _ => False)
    have hiff : (∃ st, normalPass C.finals (normalOf S1) ⟨[], []⟩ = .ok st) ↔
        (∃ st, normalPass C.finals (normalOf S2) ⟨[], []⟩ = .ok st) := by
      rw [normalPass_ok_iff _ (normalOf_normal S1), normalPass_ok_iff _ (normalOf_normal S2)]
      have hc := cands_perm hnorm
      constructor
      · rintro ⟨h1, h2⟩
        exact ⟨fun c hc' => h1 c (hc.mem_iff.mpr hc'), ((hc.map pairOf).nodup_iff).mp h2⟩
      · rintro ⟨h1, h2⟩
        exact ⟨fun c hc' => h1 c (hc.mem_iff.mp hc'), ((hc.map pairOf).nodup_iff).mpr h2⟩
    cases hn1 : normalPass C.finals (normalOf S1) ⟨[], []⟩ with
    | error e1 =>
      cases hn2 : normalPass C.finals (normalOf S2) ⟨[], []⟩ with
      | error e2 =>
        simp only
        rw [normalPass_error_stage _ (normalOf_normal S1) hn1, normalPass_error_stage _ (normalOf_normal S2) hn2]
        exact ⟨rfl, by decide⟩
      | ok ns2 =>
        obtain ⟨st, hst⟩ := hiff.mpr ⟨ns2, hn2⟩
        rw [hn1] at hst; cases hst
    | ok ns1 =>
      cases hn2 : normalPass C.finals (normalOf S2) ⟨[], []⟩ with
      | error e2 =>
        obtain ⟨st, hst⟩ := hiff.mp ⟨ns1, hn1⟩
        rw [hn2] at hst; cases hst
      | ok ns2 =>
        simp only
        have i1 := normalPass_ok _ (normalOf_normal S1) (NInvF_nil C.finals) hn1
        have i2 := normalPass_ok _ (normalOf_normal S2) (NInvF_nil C.finals) hn2
        simp only [List.nil_append] at i1 i2
        have hget : ∀ p, get ns1.props p = get ns2.props p :=
          PInv_unique (cands_perm hnorm) i1.normal i1.pinv i2.pinv
        have hext := modPass_ext C.finals (modsOf S1) (a := ⟨ns1.props, []⟩) (b := ⟨ns2.props, []⟩) ⟨hget, rfl⟩
        have hmods' : S2.filter (fun s => s.modifying) = modsOf S1 := hmods.symm
        rw [hmods']
        show (match (match modPass C.finals (modsOf S1) ⟨ns1.props, []⟩ with
                | .error e => Except.error e
                | .ok ms => _), (match modPass C.finals (modsOf S1) ⟨ns2.props, []⟩ with
                | .error e => Except.error e
                | .ok ms => _) with
              | .ok a, .ok b => PreEq a b
              | .error e1, .error e2 => stage e1 = stage e2 ∧ stage e1 ≤ 3
              | _, _ => False)
        cases hm1 : modPass C.finals (modsOf S1) ⟨ns1.props, []⟩ with
        | error e1 =>
          cases hm2 : modPass C.finals (modsOf S1) ⟨ns2.props, []⟩ with
          | error e2 =>
            rw [hm1, hm2] at hext
            simp only [ERel] at hext
            subst hext
            show stage e1 = stage e1 ∧ stage e1 ≤ 3
            rcases modPass_error _ hm1 with h | h <;> rw [h] <;> exact ⟨rfl, by decide⟩
          | ok ms2 => rw [hm1, hm2] at hext; simp [ERel] at hext
        | ok ms1 =>
          cases hm2 : modPass C.finals (modsOf S1) ⟨ns2.props, []⟩ with
          | error e2 => rw [hm1, hm2] at hext; simp [ERel] at hext
          | ok ms2 =>
            rw [hm1, hm2] at hext
            simp only [ERel] at hext
            obtain ⟨hp, hmm⟩ := hext
            obtain ⟨hg, hadd⟩ := addDefaults_ext hp C.defaults
            simp only
            refine ⟨hg, hmm, ?_⟩
            simp only
            rw [hadd]
            exact (userNodes_perm hperm).append_right _

end Scenic.Spec

namespace Scenic.Spec

/-- a rank function that strictly decreases along every look-up of every specifier: the dependency
relation is well founded and no dependency is missing -/
def Good (stp : Node → List (Option Node)) (nodes : List Node) : Prop :=
  ∃ r : Node → Nat, ∀ n ∈ nodes, ∀ x ∈ stp n, ∃ c, x = some c ∧ r c < r n

theorem orderPhase_ok_iff {C : ClassInfo} {S : List Spec} {pre : Pre}
    (hc : ∀ n, ∀ x ∈ stepsOf C S pre n, ∀ c, x = some c → c ∈ pre.nodes) :
    (∃ order, orderPhase C S pre = .ok order) ↔ Good (stepsOf C S pre) pre.nodes := by
  constructor
  · rintro ⟨order, h⟩
    obtain ⟨_, htopo, hmem⟩ := orderPhase_ok hc h
    refine ⟨pos order, fun n hn x hx => ?_⟩
    obtain ⟨c, hc', _, hlt⟩ := htopo n ((hmem n).mpr hn) x hx
    exact ⟨c, hc', hlt⟩
  · rintro ⟨r, hr⟩
    obtain ⟨d, hd⟩ := visitAll_complete_top (stepsOf C S pre) pre.nodes (fun n _ => hc n) r hr
    exact ⟨d.order, by unfold orderPhase; rw [hd]⟩

theorem orderPhase_error_stage {C : ClassInfo} {S : List Spec} {pre : Pre} {e : Err}
    (h : orderPhase C S pre = .error e) : stage e = 4 := by
  unfold orderPhase at h
  split at h
  · rename_i e' hv
    cases h
    rcases visitAll_error_kinds _ _ _ _ _ hv with rfl | rfl | rfl <;> rfl
  · cases h

/-- the outcomes of two resolutions are the same: both succeed with the same assignment of specifiers
and modifiers to properties and the same set of evaluated specifiers, or both fail in the same phase -/
def SameOutcome : Except Err Outcome → Except Err Outcome → Prop
  | .ok a, .ok b => (∀ p, get a.assign p = get b.assign p) ∧ a.modifier = b.modifier ∧
      a.nodes.Perm b.nodes ∧ a.order.Perm b.order
  | .error e1, .error e2 => stage e1 = stage e2
  | _, _ => False

theorem resolve_perm (C : ClassInfo) {S1 S2 : List Spec} (hperm : S1.Perm S2)
    (hmod : (modsOf S1).length ≤ 1) : SameOutcome (resolve C S1) (resolve C S2) := by
  have hA := assignPhase_perm C hperm hmod
  unfold resolve
  cases h1 : assignPhase C S1 with
  | error e1 =>
    cases h2 : assignPhase C S2 with
    | error e2 => rw [h1, h2] at hA; exact hA.1
    | ok b => rw [h1, h2] at hA; exact hA.elim
  | ok a =>
    cases h2 : assignPhase C S2 with
    | error e2 => rw [h1, h2] at hA; exact hA.elim
    | ok b =>
      rw [h1, h2] at hA
      obtain ⟨hg, hm, hn⟩ := hA
      have ok1 := assignPhase_ok h1
      have ok2 := assignPhase_ok h2
      have hstp : stepsOf C S1 a = stepsOf C S2 b := by
        unfold stepsOf
        rw [depsOf_perm C hperm ok1.names, hm]
        exact steps_ext _ _ hg
      have hc1 := nodes_closed ok1
      have hc2 := nodes_closed ok2
      have hgood : Good (stepsOf C S1 a) a.nodes ↔ Good (stepsOf C S2 b) b.nodes := by
        rw [hstp]
        constructor
        · rintro ⟨r, hr⟩; exact ⟨r, fun n hn' => hr n (hn.mem_iff.mpr hn')⟩
        · rintro ⟨r, hr⟩; exact ⟨r, fun n hn' => hr n (hn.mem_iff.mp hn')⟩
      have hiff := (orderPhase_ok_iff hc1).trans (hgood.trans (orderPhase_ok_iff hc2).symm)
      simp only
      cases o1 : orderPhase C S1 a with
      | error e1 =>
        cases o2 : orderPhase C S2 b with
        | error e2 =>
          simp only [SameOutcome]
          rw [orderPhase_error_stage o1, orderPhase_error_stage o2]
        | ok ord2 =>
          obtain ⟨ord1, ho⟩ := hiff.mpr ⟨ord2, o2⟩
          rw [o1] at ho; cases ho
      | ok ord1 =>
        cases o2 : orderPhase C S2 b with
        | error e2 =>
          obtain ⟨ord2, ho⟩ := hiff.mp ⟨ord1, o1⟩
          rw [o2] at ho; cases ho
        | ok ord2 =>
          simp only [SameOutcome]
          refine ⟨hg, hm, hn, ?_⟩
          obtain ⟨nd1, _, m1⟩ := orderPhase_ok hc1 o1
          obtain ⟨nd2, _, m2⟩ := orderPhase_ok hc2 o2
          rw [List.perm_ext_iff_of_nodup nd1 nd2]
          intro x
          rw [m1, m2]
          exact hn.mem_iff

end Scenic.Spec

namespace Scenic.Spec

theorem depsOf_user (C : ClassInfo) {S : List Spec} (hnd : (S.map (·.name)).Nodup) {s : Spec} (hs : s ∈ S) :
    depsOf C S (.user s.name) = s.deps := by
  simp only [depsOf]
  cases hf : S.find? (fun t => decide (t.name = s.name)) with
  | none =>
    rw [List.find?_eq_none] at hf
    exact absurd (by simp) (hf s hs)
  | some t =>
    have h1 := List.find?_some hf
    have h2 := List.mem_of_find?_eq_some hf
    simp only [decide_eq_true_eq] at h1
    rw [nodup_map_inj hnd h2 hs h1]

section
variable (stp : Node → List (Option Node))

/-- a "not specified" failure comes from a look-up of a reachable specifier that found nothing -/
theorem dfs_missing_sound (U : Node → Prop) (hU : ∀ n, U n → ∀ x ∈ stp n, ∀ c, x = some c → U c) :
    ∀ fuel n d, U n → dfs stp fuel n d = .error .missingDep → ∃ m, U m ∧ none ∈ stp m := by
  intro fuel
  induction fuel with
  | zero => intro n d _ h; simp [dfs] at h
  | succ fuel ih =>
    intro n d hn h
    simp only [dfs] at h
    split at h
    · cases h
    · split at h
      · cases h
      · have hloop : ∀ (L : List (Option Node)) (dc : DState), (∀ x ∈ L, x ∈ stp n) →
            visitAll (dfs stp fuel) L dc = .error .missingDep → ∃ m, U m ∧ none ∈ stp m := by
          intro L
          induction L with
          | nil => intro dc _ h; simp [visitAll] at h
          | cons x rest ihL =>
            intro dc hL h
            cases x with
            | none => exact ⟨n, hn, hL _ (by simp)⟩
            | some c =>
              simp only [visitAll] at h
              split at h
              · rename_i e' h1; cases h
                exact ih c dc (hU n hn _ (hL _ (by simp)) c rfl) h1
              · exact ihL _ (fun y hy => hL y (List.mem_cons_of_mem _ hy)) h
        split at h
        · rename_i e' hv; cases h; exact hloop _ _ (fun x hx => hx) hv
        · cases h

theorem visitAll_missing_sound (U : Node → Prop) (hU : ∀ n, U n → ∀ x ∈ stp n, ∀ c, x = some c → U c)
    (fuel : Nat) (L : List (Option Node)) : ∀ (dc : DState), (∀ x ∈ L, ∀ c, x = some c → U c) →
    visitAll (dfs stp fuel) L dc = .error .missingDep → (none ∈ L) ∨ ∃ m, U m ∧ none ∈ stp m := by
  induction L with
  | nil => intro dc _ h; simp [visitAll] at h
  | cons x rest ihL =>
    intro dc hL h
    cases x with
    | none => left; simp
    | some c =>
      simp only [visitAll] at h
      split at h
      · rename_i e' h1; cases h
        right; exact dfs_missing_sound stp U hU fuel c dc (hL _ (by simp) c rfl) h1
      · rcases ihL _ (fun y hy => hL y (List.mem_cons_of_mem _ hy)) h with h' | h'
        · left; exact List.mem_cons_of_mem _ h'
        · right; exact h'
end

theorem map_pairOf_candsOf (s : Spec) : (candsOf s).map pairOf = s.prios := by
  simp only [candsOf, List.map_map]
  conv => rhs; rw [← List.map_id s.prios]
  apply List.map_congr_left
  intro pk _; rfl

/-- pairwise different (property, priority) pairs -- the absence of ties, stated on the list -/
theorem nodup_pairs_of (L : List Spec) (hnames : (L.map (·.name)).Nodup)
    (h1 : ∀ s ∈ L, s.prios.Nodup)
    (h2 : ∀ s ∈ L, ∀ t ∈ L, s.name ≠ t.name → ∀ pk ∈ s.prios, pk ∉ t.prios) :
    ((cands L).map pairOf).Nodup := by
  induction L with
  | nil => simp [cands]
  | cons s rest ih =>
    simp only [List.map_cons, List.nodup_cons] at hnames
    simp only [cands, List.flatMap_cons, List.map_append]
    rw [List.nodup_append]
    refine ⟨?_, ?_, ?_⟩
    · rw [map_pairOf_candsOf]; exact h1 s (by simp)
    · exact ih hnames.2 (fun t ht => h1 t (List.mem_cons_of_mem _ ht))
        (fun a ha b hb => h2 a (List.mem_cons_of_mem _ ha) b (List.mem_cons_of_mem _ hb))
    · intro a ha b hb hab
      subst hab
      rw [map_pairOf_candsOf] at ha
      simp only [List.mem_map] at hb
      obtain ⟨c, hc, hca⟩ := hb
      obtain ⟨t, ht, hn, _, hpk⟩ := mem_cands.mp hc
      have hne : s.name ≠ t.name := by
        intro heq
        exact hnames.1 (List.mem_map.mpr ⟨t, ht, heq.symm⟩)
      apply h2 s (by simp) t (List.mem_cons_of_mem _ ht) hne a ha
      rw [← hca]; exact hpk

end Scenic.Spec
