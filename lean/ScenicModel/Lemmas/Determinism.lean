import ScenicModel.Model.Determinism
namespace Scenic.Det
variable {σ : Type} (nx : σ → Nat × σ) (sem : Nat → Nat → List Val → Option Val)

theorem restore_full (b : Bracket) (hb : b.full = true) (saved after : RS σ) :
    restore b saved after = saved := by
  cases b with
  | mk a b c d =>
    simp only [Bracket.full, Bool.and_eq_true] at hb
    obtain ⟨⟨⟨h1, h2⟩, h3⟩, h4⟩ := hb
    subst h1 h2 h3 h4
    cases saved; simp [restore]

/-- two checkers (of possibly different kinds, in any states) whose verdicts agree -/
def SameVerdicts {κ₁ κ₂ : Type} (c₁ : Checker σ κ₁) (c₂ : Checker σ κ₂) : Prop :=
  ∀ k₁ k₂ acts m r₁ r₂, (c₁ k₁ acts m r₁).1 = (c₂ k₂ acts m r₂).1

theorem loop_indep_of_checker {κ₁ κ₂ : Type} (tbl : Table) (fuel : Nat) (order : List Id)
    (b : Bracket) (hb : b.full = true) (c₁ : Checker σ κ₁) (c₂ : Checker σ κ₂)
    (hv : SameVerdicts c₁ c₂) (acts : List Bool) :
    ∀ (n it : Nat) (k₁ : κ₁) (k₂ : κ₂) (rs : RS σ),
      (loop nx sem tbl fuel order b c₁ acts n it k₁ rs).result
        = (loop nx sem tbl fuel order b c₂ acts n it k₂ rs).result ∧
      (loop nx sem tbl fuel order b c₁ acts n it k₁ rs).rs
        = (loop nx sem tbl fuel order b c₂ acts n it k₂ rs).rs := by
  intro n
  induction n with
  | zero => intro it k₁ k₂ rs; simp [loop]
  | succ n ih =>
    intro it k₁ k₂ rs
    simp only [loop]
    rcases hs : sampleAll nx sem tbl fuel order rs with ⟨_ | m, rs'⟩
    · simp only []
      exact ih (it + 1) k₁ k₂ rs'
    · simp only [restore_full b hb]
      rw [hv k₁ k₂ acts m rs' rs']
      by_cases hc : (c₂ k₂ acts m rs').1 = true
      · simp only [hc, if_true]
        exact ih (it + 1) _ _ rs'
      · simp [hc]
/-- the verdict of a requirement does not depend on the state of the user-visible generators
    (its internal sampling, if any, uses private generators) -/
def Req.Pure (r : Req σ) : Prop := ∀ m rs rs', (r.run m rs).1 = (r.run m rs').1

theorem seqRun_verdict (l : List (Req σ)) (hp : ∀ r ∈ l, r.Pure) (m : Memo) (rs rs₀ : RS σ) :
    (seqRun l m rs).1 = l.any (fun r => (r.run m rs₀).1) := by
  induction l generalizing rs with
  | nil => simp [seqRun]
  | cons r rest ih =>
    have hr : r.Pure := hp r (by simp)
    have hrest : ∀ q ∈ rest, q.Pure := fun q hq => hp q (by simp [hq])
    simp only [seqRun, List.any_cons]
    rw [hr m rs rs₀]
    cases h : (r.run m rs₀).1
    · simp [ih hrest]
    · simp

theorem mem_popTrailingOptional_of_mandatory (l : List (Req σ)) (r : Req σ) (hr : r ∈ l)
    (hm : r.optional = false) : r ∈ popTrailingOptional l := by
  unfold popTrailingOptional
  rw [List.mem_reverse]
  have hr' : r ∈ l.reverse := List.mem_reverse.mpr hr
  generalize l.reverse = l' at hr'
  induction l' with
  | nil => simp at hr'
  | cons a t ih =>
    simp only [List.dropWhile_cons]
    split
    · rename_i ha
      rcases List.mem_cons.mp hr' with rfl | h
      · simp [hm] at ha
      · exact ih h
    · exact hr'

theorem popTrailingOptional_subset (l : List (Req σ)) (r : Req σ)
    (hr : r ∈ popTrailingOptional l) : r ∈ l := by
  unfold popTrailingOptional at hr
  rw [List.mem_reverse] at hr
  exact List.mem_reverse.mp ((List.dropWhile_sublist _).subset hr)

/-! ### several scenes -/

theorem generateInner_indep_of_checker {κ₁ κ₂ : Type} (P : Program) (b : Bracket)
    (hb : b.full = true) (le : Bool) (c₁ : Checker σ κ₁) (c₂ : Checker σ κ₂)
    (hv : SameVerdicts c₁ c₂) (maxIt : Nat) (k₁ : κ₁) (k₂ : κ₂) (rs : RS σ) :
    (generateInner nx sem P b le c₁ maxIt k₁ rs).result
      = (generateInner nx sem P b le c₂ maxIt k₂ rs).result ∧
    (generateInner nx sem P b le c₁ maxIt k₁ rs).rs
      = (generateInner nx sem P b le c₂ maxIt k₂ rs).rs := by
  unfold generateInner
  exact loop_indep_of_checker nx sem _ _ _ b hb c₁ c₂ hv _ _ _ _ _ _

theorem generateMany_indep_of_checker {κ₁ κ₂ : Type} (P : Program) (b : Bracket)
    (hb : b.full = true) (le : Bool) (c₁ : Checker σ κ₁) (c₂ : Checker σ κ₂)
    (hv : SameVerdicts c₁ c₂) :
    ∀ (n budget : Nat) (k₁ : κ₁) (k₂ : κ₂) (rs : RS σ),
      (generateMany nx sem P b le c₁ n budget k₁ rs).scenes
        = (generateMany nx sem P b le c₂ n budget k₂ rs).scenes ∧
      (generateMany nx sem P b le c₁ n budget k₁ rs).ok
        = (generateMany nx sem P b le c₂ n budget k₂ rs).ok ∧
      (generateMany nx sem P b le c₁ n budget k₁ rs).rs
        = (generateMany nx sem P b le c₂ n budget k₂ rs).rs := by
  intro n
  induction n with
  | zero => intro budget k₁ k₂ rs; simp [generateMany]
  | succ n ih =>
    intro budget k₁ k₂ rs
    obtain ⟨h1, h2⟩ := generateInner_indep_of_checker nx sem P b hb le c₁ c₂ hv budget k₁ k₂ rs
    simp only [generateMany]
    rw [h1, h2]
    rcases (generateInner nx sem P b le c₂ budget k₂ rs).result with _ | ⟨m, its⟩
    · simp
    · obtain ⟨e1, e2, e3⟩ := ih (budget - its) (generateInner nx sem P b le c₁ budget k₁ rs).chk
        (generateInner nx sem P b le c₂ budget k₂ rs).chk (generateInner nx sem P b le c₂ budget k₂ rs).rs
      simp only [e1, e2, e3, and_self]

/-! ### the verdict of the sequential checkers does not depend on the order of the checks -/

/-- `true` iff some mandatory requirement is falsified by the sample -/
def mandatoryVerdict (l : List (Req σ)) (m : Memo) (rs₀ : RS σ) : Bool :=
  l.any (fun r => !r.optional && (r.run m rs₀).1)

/-- a falsified optional requirement is backed by a falsified mandatory one
    (`BlanketCollisionRequirement` vs the pairwise `IntersectionRequirement`s) -/
def OptionalRedundant (l : List (Req σ)) (m : Memo) (rs₀ : RS σ) : Prop :=
  ∀ r ∈ l, r.optional = true → (r.run m rs₀).1 = true →
    ∃ q ∈ l, q.optional = false ∧ (q.run m rs₀).1 = true

theorem arranged_verdict (reqs arranged : List (Req σ))
    (hmem : ∀ r, r ∈ arranged ↔ r ∈ reqs) (hp : ∀ r ∈ reqs, r.Pure)
    (m : Memo) (rs₀ : RS σ) (hred : OptionalRedundant reqs m rs₀) (rs : RS σ) :
    (seqRun (popTrailingOptional arranged) m rs).1 = mandatoryVerdict reqs m rs₀ := by
  have hp' : ∀ r ∈ popTrailingOptional arranged, r.Pure := fun r hr =>
    hp r ((hmem r).mp (popTrailingOptional_subset arranged r hr))
  rw [seqRun_verdict _ hp' m rs rs₀]
  unfold mandatoryVerdict
  rw [Bool.eq_iff_iff]
  simp only [List.any_eq_true, Bool.and_eq_true, Bool.not_eq_true']
  constructor
  · rintro ⟨r, hr, hf⟩
    have hr' : r ∈ reqs := (hmem r).mp (popTrailingOptional_subset arranged r hr)
    cases ho : r.optional
    · exact ⟨r, hr', ho, hf⟩
    · obtain ⟨q, hq, hqo, hqf⟩ := hred r hr' ho hf
      exact ⟨q, hq, hqo, hqf⟩
  · rintro ⟨r, hr, ho, hf⟩
    exact ⟨r, mem_popTrailingOptional_of_mandatory arranged r ((hmem r).mpr hr) ho, hf⟩

theorem basic_verdict (reqs : List (Req σ)) (hp : ∀ r ∈ reqs, r.Pure) (m : Memo) (rs₀ rs : RS σ) :
    (seqRun (reqs.filter (fun q => !q.optional)) m rs).1 = mandatoryVerdict reqs m rs₀ := by
  have hp' : ∀ r ∈ reqs.filter (fun q => !q.optional), r.Pure := fun r hr =>
    hp r (List.mem_filter.mp hr).1
  rw [seqRun_verdict _ hp' m rs rs₀]
  unfold mandatoryVerdict
  rw [Bool.eq_iff_iff]
  simp only [List.any_eq_true, List.mem_filter, Bool.and_eq_true, Bool.not_eq_true']
  constructor
  · rintro ⟨r, ⟨hr, ho⟩, hf⟩; exact ⟨r, hr, by simpa using ho, hf⟩
  · rintro ⟨r, hr, ho, hf⟩; exact ⟨r, ⟨hr, by simpa using ho⟩, hf⟩

/-- hypotheses on the requirement set of a scenario under which the verdict is a function of the
    sample: verdicts are pure and optional requirements are redundant -/
structure ReqsOK (reqsOf : List Bool → List (Req σ)) (rs₀ : RS σ) : Prop where
  pure : ∀ acts, ∀ r ∈ reqsOf acts, r.Pure
  redundant : ∀ acts m, OptionalRedundant (reqsOf acts) m rs₀

theorem weighted_sameVerdicts {κ₁ κ₂ : Type} (reqsOf : List Bool → List (Req σ)) (rs₀ : RS σ)
    (hok : ReqsOK reqsOf rs₀)
    (arr₁ : κ₁ → List (Req σ) → List (Req σ)) (arr₂ : κ₂ → List (Req σ) → List (Req σ))
    (h₁ : ∀ k l r, r ∈ arr₁ k l ↔ r ∈ l) (h₂ : ∀ k l r, r ∈ arr₂ k l ↔ r ∈ l)
    (upd₁ : κ₁ → Memo → Bool → κ₁) (upd₂ : κ₂ → Memo → Bool → κ₂) :
    SameVerdicts (weightedChecker reqsOf arr₁ upd₁) (weightedChecker reqsOf arr₂ upd₂) := by
  intro k₁ k₂ acts m r₁ r₂
  simp only [weightedChecker]
  rw [arranged_verdict _ _ (h₁ k₁ _) (hok.pure acts) m rs₀ (hok.redundant acts m) r₁,
      arranged_verdict _ _ (h₂ k₂ _) (hok.pure acts) m rs₀ (hok.redundant acts m) r₂]

theorem weighted_basic_sameVerdicts {κ : Type} (reqsOf : List Bool → List (Req σ)) (rs₀ : RS σ)
    (hok : ReqsOK reqsOf rs₀) (arr : κ → List (Req σ) → List (Req σ))
    (h : ∀ k l r, r ∈ arr k l ↔ r ∈ l) (upd : κ → Memo → Bool → κ) :
    SameVerdicts (weightedChecker reqsOf arr upd) (basicChecker reqsOf) := by
  intro k₁ k₂ acts m r₁ r₂
  simp only [weightedChecker, basicChecker]
  rw [arranged_verdict _ _ (h k₁ _) (hok.pure acts) m rs₀ (hok.redundant acts m) r₁,
      basic_verdict _ (hok.pure acts) m rs₀ r₂]

def Inj (ρ : Id → Id) : Prop := ∀ a b, ρ a = ρ b → a = b

theorem lookup_renMemo (ρ : Id → Id) (hρ : Inj ρ) (m : Memo) (i : Id) :
    (renMemo ρ m).lookup (ρ i) = m.lookup i := by
  induction m with
  | nil => rfl
  | cons p t ih =>
    obtain ⟨j, v⟩ := p
    simp only [renMemo, List.map_cons, List.lookup_cons]
    by_cases h : i = j
    · subst h; simp
    · have h' : ρ i ≠ ρ j := fun e => h (hρ _ _ e)
      have e1 : (ρ i == ρ j) = false := by simpa using h'
      have e2 : (i == j) = false := by simpa using h
      rw [e1, e2]; exact ih

theorem get_renMemo (ρ : Id → Id) (hρ : Inj ρ) (m : Memo) (i : Id) :
    get (renMemo ρ m) (ρ i) = get m i := by
  simp [get, lookup_renMemo ρ hρ]

theorem has_renMemo (ρ : Id → Id) (hρ : Inj ρ) (m : Memo) (i : Id) :
    has (renMemo ρ m) (ρ i) = has m i := by
  simp [has, lookup_renMemo ρ hρ]

theorem lookup_renTable (ρ : Id → Id) (hρ : Inj ρ) (t : Table) (i : Id) :
    (renTable ρ t).lookup (ρ i) = (t.lookup i).map (renNode ρ) := by
  induction t with
  | nil => rfl
  | cons p t ih =>
    obtain ⟨j, nd⟩ := p
    simp only [renTable, List.map_cons, List.lookup_cons]
    by_cases h : i = j
    · subst h; simp
    · have h' : ρ i ≠ ρ j := fun e => h (hρ _ _ e)
      have e1 : (ρ i == ρ j) = false := by simpa using h'
      have e2 : (i == j) = false := by simpa using h
      rw [e1, e2]; exact ih

def renVisitRes (ρ : Id → Id) (r : Option (Val × Memo) × RS σ) : Option (Val × Memo) × RS σ :=
  (r.1.map fun p => (p.1, renMemo ρ p.2), r.2)

def renListRes (ρ : Id → Id) (r : Option Memo × RS σ) : Option Memo × RS σ :=
  (r.1.map (renMemo ρ), r.2)

theorem visitList_ren (ρ : Id → Id) (hρ : Inj ρ)
    (visit visit' : Id → Memo → RS σ → Option (Val × Memo) × RS σ)
    (hv : ∀ i m rs, visit' (ρ i) (renMemo ρ m) rs = renVisitRes ρ (visit i m rs))
    (l : List Id) (m : Memo) (rs : RS σ) :
    visitList visit' (l.map ρ) (renMemo ρ m) rs = renListRes ρ (visitList visit l m rs) := by
  induction l generalizing m rs with
  | nil => simp [visitList, renListRes]
  | cons i is ih =>
    simp only [List.map_cons, visitList, has_renMemo ρ hρ]
    by_cases h : has m i = true
    · simp only [h, if_true]; exact ih m rs
    · simp only [h]
      rw [hv]
      rcases visit i m rs with ⟨_ | ⟨v, m'⟩, rs'⟩
      · simp [renVisitRes, renListRes]
      · simp only [renVisitRes, Option.map_some]
        have := ih ((i, v) :: m') rs'
        simpa [renMemo] using this

theorem sampleNode_ren (ρ : Id → Id) (hρ : Inj ρ) (tbl : Table) (fuel : Nat) :
    ∀ i m (rs : RS σ), sampleNode nx sem (renTable ρ tbl) fuel (ρ i) (renMemo ρ m) rs
      = renVisitRes ρ (sampleNode nx sem tbl fuel i m rs) := by
  induction fuel with
  | zero => intro i m rs; simp [sampleNode, renVisitRes]
  | succ f ih =>
    intro i m rs
    simp only [sampleNode, lookup_renTable ρ hρ]
    rcases tbl.lookup i with _ | nd
    · simp [renVisitRes]
    · simp only [Option.map_some, renNode]
      rw [visitList_ren ρ hρ _ _ ih]
      rcases visitList (sampleNode nx sem tbl f) nd.deps m rs with ⟨_ | m', rs'⟩
      · simp [renListRes, renVisitRes]
      · simp only [renListRes, Option.map_some]
        have hg : List.map (get (renMemo ρ m')) (List.map ρ nd.deps) = List.map (get m') nd.deps := by
          rw [List.map_map]; apply List.map_congr_left; intro a _; simp [get_renMemo ρ hρ]
        rw [hg]
        rcases sem nd.tag (drawFrom nx nd.src rs').1 (List.map (get m') nd.deps) with _ | v
        · simp [renVisitRes]
        · simp [renVisitRes]

theorem sampleAll_ren (ρ : Id → Id) (hρ : Inj ρ) (tbl : Table) (fuel : Nat) (order : List Id)
    (rs : RS σ) :
    sampleAll nx sem (renTable ρ tbl) fuel (order.map ρ) rs
      = renListRes ρ (sampleAll nx sem tbl fuel order rs) := by
  unfold sampleAll
  have := visitList_ren ρ hρ _ _ (sampleNode_ren nx sem ρ hρ tbl fuel) order [] rs
  simpa [renMemo] using this

/-! ### the whole generation under a change of addresses -/

theorem sceneOf_ren (ρ : Id → Id) (hρ : Inj ρ) (view : List Id) (m : Memo) :
    sceneOf (view.map ρ) (renMemo ρ m) = sceneOf view m := by
  unfold sceneOf
  rw [List.map_map]; apply List.map_congr_left; intro a _; simp [get_renMemo ρ hρ]

/-- a checker sees the sample only through the identities of the objects it was built from -/
def CheckerRen {κ : Type} (ρ : Id → Id) (c c' : Checker σ κ) : Prop :=
  ∀ k acts m rs, c' k acts (renMemo ρ m) rs = c k acts m rs

theorem loop_ren {κ : Type} (ρ : Id → Id) (hρ : Inj ρ) (tbl : Table) (fuel : Nat)
    (order : List Id) (b : Bracket) (c c' : Checker σ κ) (hc : CheckerRen ρ c c')
    (acts : List Bool) :
    ∀ (n it : Nat) (k : κ) (rs : RS σ),
      (loop nx sem (renTable ρ tbl) fuel (order.map ρ) b c' acts n it k rs).result
        = (loop nx sem tbl fuel order b c acts n it k rs).result.map (fun p => (renMemo ρ p.1, p.2)) ∧
      (loop nx sem (renTable ρ tbl) fuel (order.map ρ) b c' acts n it k rs).rs
        = (loop nx sem tbl fuel order b c acts n it k rs).rs ∧
      (loop nx sem (renTable ρ tbl) fuel (order.map ρ) b c' acts n it k rs).chk
        = (loop nx sem tbl fuel order b c acts n it k rs).chk := by
  intro n
  induction n with
  | zero => intro it k rs; simp [loop]
  | succ n ih =>
    intro it k rs
    simp only [loop, sampleAll_ren nx sem ρ hρ]
    rcases sampleAll nx sem tbl fuel order rs with ⟨_ | m, rs'⟩
    · simp only [renListRes, Option.map_none]
      exact ih (it + 1) k rs'
    · simp only [renListRes, Option.map_some, hc k acts m rs']
      by_cases h : (c k acts m rs').1 = true
      · simp only [h, if_true]
        exact ih (it + 1) _ _
      · simp [h]

theorem generateMany_ren {κ : Type} (ρ : Id → Id) (hρ : Inj ρ) (P : Program) (b : Bracket)
    (le : Bool) (c c' : Checker σ κ) (hc : CheckerRen ρ c c') :
    ∀ (n budget : Nat) (k : κ) (rs : RS σ),
      (generateMany nx sem (renProgram ρ P) b le c' n budget k rs).scenes
        = (generateMany nx sem P b le c n budget k rs).scenes ∧
      (generateMany nx sem (renProgram ρ P) b le c' n budget k rs).ok
        = (generateMany nx sem P b le c n budget k rs).ok ∧
      (generateMany nx sem (renProgram ρ P) b le c' n budget k rs).rs
        = (generateMany nx sem P b le c n budget k rs).rs := by
  intro n
  induction n with
  | zero => intro budget k rs; simp [generateMany]
  | succ n ih =>
    intro budget k rs
    simp only [generateMany, generateInner, renProgram]
    obtain ⟨h1, h2, h3⟩ := loop_ren nx sem ρ hρ P.tbl P.fuel P.order b c c' hc
      (activate nx le P.probs rs.py).1 budget 0 k { rs with py := (activate nx le P.probs rs.py).2 }
    rw [h1, h2, h3]
    rcases (loop nx sem P.tbl P.fuel P.order b c (activate nx le P.probs rs.py).1 budget 0 k
      { rs with py := (activate nx le P.probs rs.py).2 }).result with _ | ⟨m, its⟩
    · simp
    · simp only [Option.map_some]
      have := ih (budget - its)
        (loop nx sem P.tbl P.fuel P.order b c (activate nx le P.probs rs.py).1 budget 0 k
          { rs with py := (activate nx le P.probs rs.py).2 }).chk
        (loop nx sem P.tbl P.fuel P.order b c (activate nx le P.probs rs.py).1 budget 0 k
          { rs with py := (activate nx le P.probs rs.py).2 }).rs
      simp only [renProgram] at this
      obtain ⟨e1, e2, e3⟩ := this
      simp only [sceneOf_ren ρ hρ, e1, e2, e3, and_self]
/-! ### consumption of the activation step; earlier scenes -/

/-- advance a generator by `n` draws -/
def advance : Nat → σ → σ
  | 0, s => s
  | n + 1, s => advance n (nx s).2

/-- soft-requirement activation consumes exactly one draw per user requirement, whatever the
    probabilities and the comparator -/
theorem activate_consumes (le : Bool) (probs : List Nat) (s : σ) :
    (activate nx le probs s).2 = advance nx probs.length s ∧
    (activate nx le probs s).1.length = probs.length := by
  induction probs generalizing s with
  | nil => simp [activate, advance]
  | cons p ps ih =>
    obtain ⟨h1, h2⟩ := ih (nx s).2
    simp [activate, advance, h1, h2]

/-- the first `n` scenes do not depend on how many more are requested afterwards -/
theorem scenes_prefix {κ : Type} (P : Program) (b : Bracket) (le : Bool) (c : Checker σ κ) :
    ∀ (n budget : Nat) (k : κ) (rs : RS σ),
      ((generateMany nx sem P b le c (n + 1) budget k rs).scenes).take n
        = (generateMany nx sem P b le c n budget k rs).scenes := by
  intro n
  induction n with
  | zero => intro budget k rs; simp [generateMany]
  | succ n ih =>
    intro budget k rs
    rw [generateMany]
    conv => rhs; rw [generateMany]
    rcases (generateInner nx sem P b le c budget k rs).result with _ | ⟨m, its⟩
    · simp
    · simp only [List.take_succ_cons]
      rw [ih]
end Scenic.Det
