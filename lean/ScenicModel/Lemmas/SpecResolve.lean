import ScenicModel.Lemmas.SpecDfs

/-! Facts about the phases of `resolve` (assignment, then ordering). -/
namespace Scenic.Spec

def normalOf (S : List Spec) : List Spec := S.filter (fun s => !s.modifying)
def modsOf (S : List Spec) : List Spec := S.filter (fun s => s.modifying)

/-- all inner-loop iterations of both passes, in the order in which they happen -/
def allCands (S : List Spec) : List Cand := cands (normalOf S) ++ cands (modsOf S)

theorem mem_allCands {S : List Spec} {c : Cand} : c ∈ allCands S ↔ c ∈ cands S := by
  simp only [allCands, List.mem_append, mem_cands, normalOf, modsOf, List.mem_filter]
  constructor
  · rintro (⟨s, ⟨hs, _⟩, h⟩ | ⟨s, ⟨hs, _⟩, h⟩) <;> exact ⟨s, hs, h⟩
  · rintro ⟨s, hs, h⟩
    cases hm : s.modifying
    · left; exact ⟨s, ⟨hs, by simp [hm]⟩, h⟩
    · right; exact ⟨s, ⟨hs, by simp [hm]⟩, h⟩

/-- "the specifier named `n` may modify `p`" -/
def MayModify (S : List Spec) (n p : String) : Prop :=
  ∃ s ∈ S, s.modifying = true ∧ s.name = n ∧ p ∈ s.modifiable

/-- the pieces of a successful `assignPhase` -/
structure AssignOk (C : ClassInfo) (S : List Spec) (pre : Pre) : Prop where
  names : (S.map (·.name)).Nodup
  ex : ∃ ns ms, normalPass C.finals (normalOf S) ⟨[], []⟩ = .ok ns ∧
        modPass C.finals (modsOf S) ⟨ns.props, []⟩ = .ok ms ∧
        pre = ⟨(addDefaults ms.props C.defaults (ms.props.map (fun e => (e.1, e.2.1))) []).1, ms.modifying,
               userNodes S ++ (addDefaults ms.props C.defaults (ms.props.map (fun e => (e.1, e.2.1))) []).2⟩

theorem assignPhase_ok {C : ClassInfo} {S : List Spec} {pre : Pre} (h : assignPhase C S = .ok pre) :
    AssignOk C S pre := by
  unfold assignPhase at h
  split at h
  · cases h
  · rename_i hd
    refine ⟨(hasDup_eq_false_iff _).mp (by simpa using hd), ?_⟩
    split at h
    · cases h
    · rename_i ns hn
      split at h
      · cases h
      · rename_i ms hm
        cases h
        exact ⟨ns, ms, hn, hm, rfl⟩

theorem normalOf_normal (S : List Spec) : ∀ s ∈ normalOf S, s.modifying = false := by
  intro s hs; simp [normalOf] at hs; exact hs.2

theorem modsOf_mod (S : List Spec) : ∀ s ∈ modsOf S, s.modifying = true := by
  intro s hs; simp [modsOf] at hs; exact hs.2

/-- after both passes the shared invariant holds for all candidates -/
theorem passes_inv {C : ClassInfo} {S : List Spec} {ns : NState} {ms : MState}
    (hn : normalPass C.finals (normalOf S) ⟨[], []⟩ = .ok ns)
    (hm : modPass C.finals (modsOf S) ⟨ns.props, []⟩ = .ok ms) :
    MInv (MayModify S) (allCands S) ms := by
  have h1 := normalPass_ok (normalOf S) (normalOf_normal S) (NInvF_nil C.finals) hn
  simp only [List.nil_append] at h1
  have h0 : MInv (MayModify S) (cands (normalOf S)) ⟨ns.props, []⟩ :=
    ⟨h1.pinv, by intro p m h; simp [get] at h⟩
  exact modPass_ok (modsOf S) (modsOf_mod S)
    (fun s hs p hp => ⟨s, (List.mem_filter.mp hs).1, modsOf_mod S s hs, rfl, hp⟩) h0 hm

/-- look-up in the final `properties` dictionary -/
theorem assign_get {C : ClassInfo} {ms : MState} (p : String) :
    get (addDefaults ms.props C.defaults (ms.props.map (fun e => (e.1, e.2.1))) []).1 p =
      match get ms.props p with
      | some (node, _) => some node
      | none => if C.defaults.any (fun e => decide (e.1 = p)) = true then some (.dflt p) else none := by
  rw [addDefaults_get, get_map_snd]
  cases hg : get ms.props p with
  | none => simp only [Option.isNone_none, Bool.and_true, Option.map_none]
  | some v => simp

/-! ### the search only ever touches nodes of a set closed under look-ups -/
section
variable (stp : Node → List (Option Node))

theorem visitAll_subset {visit : Node → DState → Except Err DState} (U : Node → Prop)
    (hv : ∀ c d d', U c → (∀ m ∈ d.order, U m) → visit c d = .ok d' → ∀ m ∈ d'.order, U m)
    (L : List (Option Node)) : ∀ d d', (∀ x ∈ L, ∀ c, x = some c → U c) → (∀ m ∈ d.order, U m) →
    visitAll visit L d = .ok d' → ∀ m ∈ d'.order, U m := by
  induction L with
  | nil => intro d d' _ hd h; simp only [visitAll] at h; cases h; exact hd
  | cons x rest ih =>
    intro d d' hL hd h
    cases x with
    | none => simp [visitAll] at h
    | some c =>
      simp only [visitAll] at h
      split at h
      · cases h
      · rename_i d1 h1
        exact ih d1 d' (fun y hy => hL y (List.mem_cons_of_mem _ hy))
          (hv c d d1 (hL _ (by simp) c rfl) hd h1) h

theorem dfs_subset (U : Node → Prop) (hU : ∀ n, U n → ∀ x ∈ stp n, ∀ c, x = some c → U c) :
    ∀ fuel n d d', U n → (∀ m ∈ d.order, U m) → dfs stp fuel n d = .ok d' → ∀ m ∈ d'.order, U m := by
  intro fuel
  induction fuel with
  | zero => intro n d d' _ _ h; simp [dfs] at h
  | succ fuel ih =>
    intro n d d' hn hd h
    simp only [dfs] at h
    split at h
    · cases h; exact hd
    · split at h
      · cases h
      · split at h
        · cases h
        · rename_i d2 hv
          cases h
          have := visitAll_subset U (fun c d d' => ih c d d') (stp n)
            ⟨fun m => if m = n then 1 else d.st m, d.order⟩ d2 (hU n hn) hd hv
          intro m hm
          rcases List.mem_append.mp hm with hm | hm
          · exact this m hm
          · simp only [List.mem_singleton] at hm; subst hm; exact hn

end

theorem put_keys_nodup {α β} [DecidableEq α] (m : List (α × β)) (k : α) (v : β)
    (h : (m.map (·.1)).Nodup) : ((put m k v).map (·.1)).Nodup := by
  induction m with
  | nil => simp [put]
  | cons e m ih =>
    obtain ⟨a, b⟩ := e
    simp only [put]
    split
    · rename_i hk; subst hk; simpa using h
    · rename_i hk
      simp only [List.map_cons, List.nodup_cons] at h ⊢
      refine ⟨?_, ih h.2⟩
      intro hmem
      apply h.1
      simp only [List.mem_map] at hmem ⊢
      obtain ⟨e, he, hea⟩ := hmem
      -- keys of `put m k v` are keys of `m` or `k`
      have : ∀ (m : List (α × β)) (e : α × β), e ∈ put m k v → e.1 = k ∨ e ∈ m := by
        intro m
        induction m with
        | nil => intro e he; simp [put] at he; left; rw [he]
        | cons x xs ihx =>
          intro e he
          obtain ⟨xa, xb⟩ := x
          simp only [put] at he
          split at he
          · rcases List.mem_cons.mp he with h1 | h1
            · left; rw [h1]
            · right; exact List.mem_cons_of_mem _ h1
          · rcases List.mem_cons.mp he with h1 | h1
            · right; rw [h1]; simp
            · rcases ihx e h1 with h2 | h2
              · left; exact h2
              · right; exact List.mem_cons_of_mem _ h2
      rcases this m e he with h1 | h1
      · exact absurd (hea ▸ h1) (fun h' => hk h')
      · exact ⟨e, h1, hea⟩

theorem get_of_mem_nodup {α β} [DecidableEq α] {m : List (α × β)} {k : α} {v : β}
    (hnd : (m.map (·.1)).Nodup) (h : (k, v) ∈ m) : get m k = some v := by
  induction m with
  | nil => simp at h
  | cons e m ih =>
    obtain ⟨a, b⟩ := e
    simp only [List.map_cons, List.nodup_cons] at hnd
    simp only [get]
    rcases List.mem_cons.mp h with h1 | h1
    · cases h1; simp
    · have : a ≠ k := by
        intro hak; subst hak
        exact hnd.1 (List.mem_map.mpr ⟨(a, v), h1, rfl⟩)
      simp only [this, if_false]
      exact ih hnd.2 h1

theorem modPass_keys_nodup {finals : List String} (L : List Spec) : ∀ {st st' : MState}, (st.modifying.map (·.1)).Nodup →
    modPass finals L st = .ok st' → (st'.modifying.map (·.1)).Nodup := by
  have hstep : ∀ {s : Spec} {st st' : MState} {pk : String × Nat}, (st.modifying.map (·.1)).Nodup →
      stepMod finals s st pk = .ok st' → (st'.modifying.map (·.1)).Nodup := by
    intro s st st' pk hnd h
    replace h := (stepMod_ok_core h).2
    unfold stepModCore at h
    split at h
    · split at h
      · cases h; exact hnd
      · split at h
        · split at h
          · cases h
          · cases h; exact put_keys_nodup _ _ _ hnd
        · cases h; exact hnd
    · cases h; exact hnd
  have hsteps : ∀ {s : Spec} (prs : List (String × Nat)) {st st' : MState}, (st.modifying.map (·.1)).Nodup →
      stepsMod finals s prs st = .ok st' → (st'.modifying.map (·.1)).Nodup := by
    intro s prs
    induction prs with
    | nil => intro st st' hnd h; simp only [stepsMod] at h; cases h; exact hnd
    | cons pk rest ih =>
      intro st st' hnd h
      simp only [stepsMod] at h
      split at h
      · cases h
      · rename_i st1 h1; exact ih (hstep hnd h1) h
  induction L with
  | nil => intro st st' hnd h; simp only [modPass] at h; cases h; exact hnd
  | cons s rest ih =>
    intro st st' hnd h
    simp only [modPass] at h
    split at h
    · cases h
    · rename_i st1 h1; exact ih (hsteps _ hnd h1) h

theorem modProps_mem {modifier : List (String × Node)} {n : Node} {p : String}
    (h : p ∈ modProps modifier n) : (p, n) ∈ modifier := by
  unfold modProps at h
  simp only [List.mem_map, List.mem_filter, decide_eq_true_eq] at h
  obtain ⟨⟨q, m⟩, ⟨hm, hn⟩, hp⟩ := h
  simp only at hn hp
  subst hn hp; exact hm

theorem mem_modProps {modifier : List (String × Node)} {n : Node} {p : String}
    (h : (p, n) ∈ modifier) : p ∈ modProps modifier n := by
  unfold modProps
  simp only [List.mem_map, List.mem_filter, decide_eq_true_eq]
  exact ⟨(p, n), ⟨h, rfl⟩, rfl⟩

theorem user_mem_userNodes {S : List Spec} {s : Spec} (h : s ∈ S) : Node.user s.name ∈ userNodes S :=
  List.mem_map.mpr ⟨s, h, rfl⟩

/-- every value of the final `properties` / `modifying` dictionaries is one of the specifiers -/
theorem assign_range {C : ClassInfo} {S : List Spec} {pre : Pre} (h : AssignOk C S pre) :
    (∀ p a, get pre.assign p = some a → a ∈ pre.nodes) ∧ (∀ p m, get pre.modifier p = some m → m ∈ pre.nodes) := by
  obtain ⟨_, ns, ms, hn, hm, rfl⟩ := h
  have hI := passes_inv hn hm
  constructor
  · intro p a ha
    simp only at ha ⊢
    rw [assign_get] at ha
    have hp := hI.pinv p
    cases hg : get ms.props p with
    | some v =>
      obtain ⟨node, k⟩ := v
      rw [hg] at ha hp
      simp only [Option.some.injEq] at ha; subst ha
      obtain ⟨n, rfl, ⟨b, hb⟩, _⟩ := hp
      rw [mem_allCands, mem_cands] at hb
      obtain ⟨s, hs, h1, _, _⟩ := hb
      simp only at h1; subst h1
      exact List.mem_append_left _ (user_mem_userNodes hs)
    | none =>
      rw [hg] at ha
      simp only at ha
      split at ha
      · rename_i hany
        simp only [Option.some.injEq] at ha; subst ha
        apply List.mem_append_right
        rw [addDefaults_added]
        simp only [List.nil_append, List.mem_map, List.mem_filter]
        simp only [List.any_eq_true, decide_eq_true_eq] at hany
        obtain ⟨e, he, hep⟩ := hany
        exact ⟨e, ⟨he, by rw [hep, hg]; rfl⟩, by rw [hep]⟩
      · cases ha
  · intro p m hmm
    simp only at hmm ⊢
    obtain ⟨n, km, rfl, _, ⟨M, hM, _, hname, _⟩, _⟩ := hI.mods p m hmm
    subst hname
    exact List.mem_append_left _ (user_mem_userNodes hM)

theorem nodes_closed {C : ClassInfo} {S : List Spec} {pre : Pre} (h : AssignOk C S pre) :
    ∀ n, ∀ x ∈ stepsOf C S pre n, ∀ c, x = some c → c ∈ pre.nodes := by
  obtain ⟨ha, hm⟩ := assign_range h
  intro n x hx c hc
  subst hc
  simp only [stepsOf, steps, List.mem_append, List.mem_map] at hx
  rcases hx with ⟨dep, _, hdep⟩ | hx
  · cases hg : get pre.modifier dep with
    | some m => rw [hg] at hdep; simp only [Option.some.injEq] at hdep; subst hdep; exact hm dep _ hg
    | none => rw [hg] at hdep; exact ha dep c hdep
  · obtain ⟨p, _, hp⟩ := hx
    exact ha p c hp

/-- what a successful `orderPhase` guarantees -/
theorem orderPhase_ok {C : ClassInfo} {S : List Spec} {pre : Pre} {order : List Node}
    (hc : ∀ n, ∀ x ∈ stepsOf C S pre n, ∀ c, x = some c → c ∈ pre.nodes)
    (h : orderPhase C S pre = .ok order) :
    order.Nodup ∧ Topo (stepsOf C S pre) order ∧ (∀ n, n ∈ order ↔ n ∈ pre.nodes) := by
  unfold orderPhase at h
  split at h
  · cases h
  · rename_i d hv
    cases h
    have d0 : DInv (stepsOf C S pre) ⟨fun _ => 0, []⟩ :=
      ⟨fun n => by simp, fun n hn => by simp at hn, by simp⟩
    obtain ⟨_, hall, hinv⟩ := visitAll_spec _ (dfs_spec _ _) _ _ _ hv
    have hd := hinv d0
    refine ⟨hd.nodup, hd.topo, fun n => ⟨?_, ?_⟩⟩
    · intro hn
      have := visitAll_subset (fun m => m ∈ pre.nodes)
        (fun c d d' hcU hdU hok => dfs_subset _ (fun m => m ∈ pre.nodes) (fun n _ => hc n) _ c d d' hcU hdU hok)
        (pre.nodes.map some) ⟨fun _ => 0, []⟩ d
        (by intro x hx c hxc; subst hxc; simpa using hx) (by simp) hv
      exact this n hn
    · intro hn
      obtain ⟨c, hc', h2⟩ := hall (some n) (List.mem_map.mpr ⟨n, hn, rfl⟩)
      cases hc'
      exact (hd.done_iff n).mp h2

section
variable (stp : Node → List (Option Node))

/-- the search can only fail in three ways -/
theorem dfs_error_kinds : ∀ fuel n d e, dfs stp fuel n d = .error e → e = .cycle ∨ e = .missingDep ∨ e = .fuel := by
  intro fuel
  induction fuel with
  | zero => intro n d e h; simp only [dfs] at h; cases h; simp
  | succ fuel ih =>
    intro n d e h
    simp only [dfs] at h
    split at h
    · cases h
    · split at h
      · cases h; simp
      · have hloop : ∀ (L : List (Option Node)) (dc : DState) (e : Err),
            visitAll (dfs stp fuel) L dc = .error e → e = .cycle ∨ e = .missingDep ∨ e = .fuel := by
          intro L
          induction L with
          | nil => intro dc e h; simp [visitAll] at h
          | cons x rest ihL =>
            intro dc e h
            cases x with
            | none => simp only [visitAll] at h; cases h; simp
            | some c =>
              simp only [visitAll] at h
              split at h
              · rename_i e' h1; cases h; exact ih c dc _ h1
              · exact ihL _ _ h
        split at h
        · rename_i e' hv; cases h; exact hloop _ _ _ hv
        · cases h

theorem visitAll_error_kinds (fuel : Nat) (L : List (Option Node)) : ∀ (dc : DState) (e : Err),
    visitAll (dfs stp fuel) L dc = .error e → e = .cycle ∨ e = .missingDep ∨ e = .fuel := by
  induction L with
  | nil => intro dc e h; simp [visitAll] at h
  | cons x rest ihL =>
    intro dc e h
    cases x with
    | none => simp only [visitAll] at h; cases h; simp
    | some c =>
      simp only [visitAll] at h
      split at h
      · rename_i e' h1; cases h; exact dfs_error_kinds stp fuel c dc _ h1
      · exact ihL _ _ h

/-- with a rank function that decreases along look-ups the search can only run out of fuel -/
theorem dfs_complete' (r : Node → Nat) (U : Node → Prop)
    (hU : ∀ n, U n → ∀ x ∈ stp n, ∃ c, x = some c ∧ U c ∧ r c < r n) :
    ∀ fuel n d, U n → (∀ m, d.st m = 1 → r n < r m) →
      (∃ d', dfs stp fuel n d = .ok d') ∨ dfs stp fuel n d = .error .fuel := by
  intro fuel
  induction fuel with
  | zero => intro n d _ _; right; rfl
  | succ fuel ih =>
    intro n d hn h1
    simp only [dfs]
    split
    · left; exact ⟨d, rfl⟩
    · split
      · rename_i hs; have := h1 n hs; omega
      · have hloop : ∀ (L : List (Option Node)) (dc : DState),
            (∀ x ∈ L, ∃ c, x = some c ∧ U c ∧ r c < r n) → (∀ m, dc.st m = 1 → r n ≤ r m) →
            (∃ d', visitAll (dfs stp fuel) L dc = .ok d') ∨ visitAll (dfs stp fuel) L dc = .error .fuel := by
          intro L
          induction L with
          | nil => intro dc _ _; left; exact ⟨dc, rfl⟩
          | cons x rest ihL =>
            intro dc hL hdc
            obtain ⟨c, rfl, hcU, hlt⟩ := hL x (by simp)
            simp only [visitAll]
            rcases ih c dc hcU (fun m hm => by have := hdc m hm; omega) with ⟨d1, hd1⟩ | hf
            · rw [hd1]
              simp only
              obtain ⟨s, _, _⟩ := dfs_spec stp fuel c dc d1 hd1
              exact ihL d1 (fun y hy => hL y (List.mem_cons_of_mem _ hy))
                (fun m hm => hdc m ((s.one_iff m).mp hm))
            · rw [hf]; right; rfl
        rcases hloop (stp n) ⟨fun m => if m = n then 1 else d.st m, d.order⟩ (hU n hn)
            (by
              intro m hm
              by_cases hmn : m = n
              · subst hmn; exact Nat.le_refl _
              · simp only [hmn, if_false] at hm; have := h1 m hm; omega) with ⟨d2, hd2⟩ | hf
        · rw [hd2]; left; exact ⟨_, rfl⟩
        · rw [hf]; right; rfl

/-- the top-level loop never runs out of fuel -/
theorem visitAll_no_fuel (nodes : List Node)
    (hclosed : ∀ n ∈ nodes, ∀ x ∈ stp n, ∀ c, x = some c → c ∈ nodes) (fuel : Nat)
    (L : List (Option Node)) : ∀ (dc : DState),
    (∀ x ∈ L, ∀ c, x = some c → c ∈ nodes) →
    nodes.length + 1 ≤ fuel + nodes.countP (fun m => decide (dc.st m = 1)) →
    visitAll (dfs stp fuel) L dc ≠ .error .fuel := by
  induction L with
  | nil => intro dc _ _; simp [visitAll]
  | cons x rest ihL =>
    intro dc hL hc
    cases x with
    | none => simp [visitAll]
    | some c =>
      simp only [visitAll]
      cases hv : dfs stp fuel c dc with
      | error e =>
        simp only
        intro he
        cases he
        exact dfs_no_fuel stp nodes hclosed fuel c dc (hL _ (by simp) c rfl) hc hv
      | ok d1 =>
        simp only
        obtain ⟨s, _, _⟩ := dfs_spec stp fuel c dc d1 hv
        apply ihL d1 (fun y hy => hL y (List.mem_cons_of_mem _ hy))
        have : nodes.countP (fun m => decide (d1.st m = 1)) =
            nodes.countP (fun m => decide (dc.st m = 1)) := by
          apply List.countP_congr
          intro m _
          simp only [decide_eq_true_eq]
          exact s.one_iff m
        rw [this]; exact hc

/-- the top-level loop succeeds whenever a rank function exists -/
theorem visitAll_complete_top (nodes : List Node)
    (hclosed : ∀ n ∈ nodes, ∀ x ∈ stp n, ∀ c, x = some c → c ∈ nodes)
    (r : Node → Nat) (hr : ∀ n ∈ nodes, ∀ x ∈ stp n, ∃ c, x = some c ∧ r c < r n) :
    ∃ d, visitAll (dfs stp (nodes.length + 1)) (nodes.map some) ⟨fun _ => 0, []⟩ = .ok d := by
  have hU : ∀ n, n ∈ nodes → ∀ x ∈ stp n, ∃ c, x = some c ∧ c ∈ nodes ∧ r c < r n := by
    intro n hn x hx
    obtain ⟨c, hc, hlt⟩ := hr n hn x hx
    exact ⟨c, hc, hclosed n hn x hx c hc, hlt⟩
  have hloop : ∀ (L : List (Option Node)) (dc : DState),
      (∀ x ∈ L, ∃ c, x = some c ∧ c ∈ nodes) → (∀ m, dc.st m ≠ 1) →
      (∃ d', visitAll (dfs stp (nodes.length + 1)) L dc = .ok d') ∨
        visitAll (dfs stp (nodes.length + 1)) L dc = .error .fuel := by
    intro L
    induction L with
    | nil => intro dc _ _; left; exact ⟨dc, rfl⟩
    | cons x rest ihL =>
      intro dc hL hdc
      obtain ⟨c, rfl, hcU⟩ := hL x (by simp)
      simp only [visitAll]
      rcases dfs_complete' stp r (· ∈ nodes) hU (nodes.length + 1) c dc hcU
          (fun m hm => absurd hm (hdc m)) with ⟨d1, hd1⟩ | hf
      · rw [hd1]
        simp only
        obtain ⟨s, _, _⟩ := dfs_spec stp _ c dc d1 hd1
        exact ihL d1 (fun y hy => hL y (List.mem_cons_of_mem _ hy))
          (fun m hm => hdc m ((s.one_iff m).mp hm))
      · rw [hf]; right; rfl
  rcases hloop (nodes.map some) ⟨fun _ => 0, []⟩
      (by intro x hx; obtain ⟨n, hn, rfl⟩ := List.mem_map.mp hx; exact ⟨n, rfl, hn⟩) (by simp) with h | h
  · exact h
  · exfalso
    refine visitAll_no_fuel stp nodes hclosed (nodes.length + 1) (nodes.map some) ⟨fun _ => 0, []⟩ ?_ ?_ h
    · intro x hx c hc; subst hc; simpa using hx
    · omega

end
end Scenic.Spec
