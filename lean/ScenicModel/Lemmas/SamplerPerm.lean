import ScenicModel.Lemmas.SamplerGenerate

/-!
The prior does not depend on the order of the draws: two duplicate-free, dependency-closed orders of the same nodes give
every event on the sampled *values* the same probability.  (The depth-first post-order the code uses is one such
order; increasing node index is another.)
-/
namespace Scenic.Sampler
open Dist

/-- two environments assign the same value to every identity -/
def EnvEq (e e' : Env) : Prop := ∀ k, e.get k = e'.get k

/-- an event that only looks at the values -/
def Resp (q : Env → Bool) : Prop := ∀ e e', EnvEq e e' → q e = q e'

theorem EnvEq.cons {e e' : Env} (h : EnvEq e e') (i : Nat) (v : Val) : EnvEq ((i, v) :: e) ((i, v) :: e') := by
  intro k
  by_cases hk : k = i
  · subst hk; rw [Env.get_cons_self, Env.get_cons_self]
  · rw [Env.get_cons_ne _ _ _ _ hk, Env.get_cons_ne _ _ _ _ hk]; exact h k

theorem EnvEq.swap (e : Env) (i j : Nat) (v u : Val) (h : i ≠ j) :
    EnvEq ((j, u) :: (i, v) :: e) ((i, v) :: (j, u) :: e) := by
  intro k
  by_cases hj : k = j
  · subst hj
    rw [Env.get_cons_self, Env.get_cons_ne _ _ _ _ (Ne.symm h), Env.get_cons_self]
  · by_cases hi : k = i
    · subst hi
      rw [Env.get_cons_ne _ _ _ _ hj, Env.get_cons_self, Env.get_cons_self]
    · rw [Env.get_cons_ne _ _ _ _ hj, Env.get_cons_ne _ _ _ _ hi, Env.get_cons_ne _ _ _ _ hi,
        Env.get_cons_ne _ _ _ _ hj]

theorem mass_bindO_congr_mass {α β : Type} (d : Dist (Option α)) (K K' : α → Dist (Option β)) (Q : Option β → Bool)
    (h : ∀ a w, (some a, w) ∈ d → mass (K a) Q = mass (K' a) Q) : mass (bindO d K) Q = mass (bindO d K') Q := by
  unfold bindO
  induction d with
  | nil => rfl
  | cons x xs ih =>
    rw [mass_bind_cons, mass_bind_cons, ih (fun a w hm => h a w (List.mem_cons_of_mem _ hm))]
    rcases x with ⟨o, w⟩
    cases o with
    | none => rfl
    | some a => simp only [h a w List.mem_cons_self]

theorem mass_bindO_none {α β : Type} (d : Dist (Option α)) (q : β → Bool) :
    mass (bindO d fun _ => (Dist.pure none : Dist (Option β))) (onSome q) = 0 := by
  unfold bindO
  induction d with
  | nil => rfl
  | cons x xs ih =>
    rw [mass_bind_cons, ih]
    rcases x with ⟨o, w⟩
    cases o <;> simp [mass_pure, onSome]

/-- exchanging two independent draws (Fubini for finite weighted lists) -/
theorem mass_bindO_comm {α β γ : Type} (a : Dist (Option α)) (b : Dist (Option β))
    (K : α → β → Dist (Option γ)) (q : γ → Bool) :
    mass (bindO a fun v => bindO b fun u => K v u) (onSome q)
      = mass (bindO b fun u => bindO a fun v => K v u) (onSome q) := by
  induction a with
  | nil =>
    have : (fun u => bindO ([] : Dist (Option α)) fun v => K v u) = fun _ => ([] : Dist (Option γ)) := by
      funext u; rfl
    rw [this]
    have h0 : ∀ d : Dist (Option β), mass (bindO d fun _ => ([] : Dist (Option γ))) (onSome q) = 0 := by
      intro d
      unfold bindO
      induction d with
      | nil => rfl
      | cons x xs ih =>
        rw [mass_bind_cons, ih]
        rcases x with ⟨o, w⟩
        cases o <;> simp [mass_pure, onSome]
    rw [h0]; rfl
  | cons x xs ih =>
    rcases x with ⟨o, w⟩
    have hl : mass (bindO ((o, w) :: xs) fun v => bindO b fun u => K v u) (onSome q)
        = w * mass (match o with
            | none => Dist.pure none
            | some v => bindO b fun u => K v u) (onSome q)
          + mass (bindO xs fun v => bindO b fun u => K v u) (onSome q) := by
      unfold bindO
      rw [mass_bind_cons]
      cases o <;> rfl
    have hr : mass (bindO b fun u => bindO ((o, w) :: xs) fun v => K v u) (onSome q)
        = w * mass (match o with
            | none => Dist.pure none
            | some v => bindO b fun u => K v u) (onSome q)
          + mass (bindO b fun u => bindO xs fun v => K v u) (onSome q) := by
      clear ih hl
      induction b with
      | nil => cases o <;> simp [bindO, bind_nil, mass_pure, onSome]
      | cons y ys ihb =>
        rcases y with ⟨o', w'⟩
        cases o' with
        | none =>
          have e1 : ∀ F : β → Dist (Option γ), mass (bindO ((none, w') :: ys) F) (onSome q) = mass (bindO ys F) (onSome q) := by
            intro F
            unfold bindO
            rw [mass_bind_cons]
            simp [mass_pure, onSome]
          rw [e1, e1, ihb]
          cases o with
          | none => rfl
          | some v => simp only [e1]
        | some u =>
          have e1 : ∀ F : β → Dist (Option γ), mass (bindO ((some u, w') :: ys) F) (onSome q)
              = w' * mass (F u) (onSome q) + mass (bindO ys F) (onSome q) := by
            intro F
            unfold bindO
            rw [mass_bind_cons]
          rw [e1, e1, ihb]
          have e2 : mass (bindO ((o, w) :: xs) fun v => K v u) (onSome q)
              = w * mass (match o with
                  | none => Dist.pure none
                  | some v => K v u) (onSome q) + mass (bindO xs fun v => K v u) (onSome q) := by
            unfold bindO
            rw [mass_bind_cons]
            cases o <;> rfl
          rw [e2]
          cases o with
          | none => simp [mass_pure, onSome]
          | some v => simp only [e1]; ring
    rw [hl, hr, ih]

/-! ### normal form of a draw sequence -/

theorem step_eq_bindO (cfg : Cfg) (P : Prog) (k : Nat) (nd : Node) (e : Env) (hk : P.nodes[k]? = some nd) :
    step cfg P k e = bindO (draw cfg nd e) fun v => Dist.pure (some ((k, v) :: e)) := by
  unfold step bindO
  rw [hk]
  simp only []
  apply bind_congr
  intro x _
  cases x.1 <;> rfl

theorem seqAlong_cons_some (cfg : Cfg) (P : Prog) (k : Nat) (nd : Node) (ks : List Nat) (e : Env)
    (hk : P.nodes[k]? = some nd) :
    seqAlong cfg P (k :: ks) e = bindO (draw cfg nd e) fun v => seqAlong cfg P ks ((k, v) :: e) := by
  rw [seqAlong_cons, step_eq_bindO cfg P k nd e hk, bindO_assoc]
  congr 1
  funext v
  rw [bindO_pure_some]

theorem seqAlong_cons_none (cfg : Cfg) (P : Prog) (k : Nat) (ks : List Nat) (e : Env)
    (hk : P.nodes[k]? = none) : seqAlong cfg P (k :: ks) e = Dist.pure none := by
  rw [seqAlong_cons]
  unfold step
  rw [hk]
  exact bindO_pure_none _

theorem draw_envEq (cfg : Cfg) (nd : Node) {e e' : Env} (h : EnvEq e e') : draw cfg nd e = draw cfg nd e' :=
  draw_congr cfg nd e e' (fun j _ => h j)

/-- a draw sequence only looks at the values -/
theorem seqAlong_envEq (cfg : Cfg) (P : Prog) (q : Env → Bool) (hq : Resp q) :
    ∀ (xs : List Nat) (e e' : Env), EnvEq e e' →
      mass (seqAlong cfg P xs e) (onSome q) = mass (seqAlong cfg P xs e') (onSome q) := by
  intro xs
  induction xs with
  | nil =>
    intro e e' h
    simp only [seqAlong_nil, mass_pure, onSome, hq e e' h]
    try rfl
  | cons k ks ih =>
    intro e e' h
    cases hk : P.nodes[k]? with
    | none => rw [seqAlong_cons_none cfg P k ks e hk, seqAlong_cons_none cfg P k ks e' hk]
    | some nd =>
      rw [seqAlong_cons_some cfg P k nd ks e hk, seqAlong_cons_some cfg P k nd ks e' hk, draw_envEq cfg nd h]
      apply mass_bindO_congr_mass
      intro v _ _
      exact ih _ _ (h.cons k v)

/-- neither node is a dependency of the other -/
def Indep (P : Prog) (i j : Nat) : Prop :=
  i ≠ j ∧ (∀ nd, P.nodes[j]? = some nd → i ∉ nd.deps) ∧ (∀ nd, P.nodes[i]? = some nd → j ∉ nd.deps)

theorem Indep.symm {P : Prog} {i j : Nat} (h : Indep P i j) : Indep P j i := ⟨h.1.symm, h.2.2, h.2.1⟩

/-- two adjacent independent draws can be exchanged -/
theorem seqAlong_swap_head (cfg : Cfg) (P : Prog) (q : Env → Bool) (hq : Resp q) (i j : Nat) (rest : List Nat)
    (e : Env) (h : Indep P i j) :
    mass (seqAlong cfg P (i :: j :: rest) e) (onSome q) = mass (seqAlong cfg P (j :: i :: rest) e) (onSome q) := by
  obtain ⟨hne, hij, hji⟩ := h
  cases hi : P.nodes[i]? with
  | none =>
    rw [seqAlong_cons_none cfg P i _ e hi]
    cases hj : P.nodes[j]? with
    | none => rw [seqAlong_cons_none cfg P j _ e hj]
    | some ndj =>
      rw [seqAlong_cons_some cfg P j ndj _ e hj]
      have : (fun v => seqAlong cfg P (i :: rest) ((j, v) :: e)) = fun _ => Dist.pure none := by
        funext v; exact seqAlong_cons_none cfg P i rest _ hi
      rw [this, mass_bindO_none]
      simp [mass_pure, onSome]
  | some ndi =>
    cases hj : P.nodes[j]? with
    | none =>
      rw [seqAlong_cons_none cfg P j _ e hj, seqAlong_cons_some cfg P i ndi _ e hi]
      have : (fun v => seqAlong cfg P (j :: rest) ((i, v) :: e)) = fun _ => Dist.pure none := by
        funext v; exact seqAlong_cons_none cfg P j rest _ hj
      rw [this, mass_bindO_none]
      simp [mass_pure, onSome]
    | some ndj =>
      have hdj : ∀ v, draw cfg ndj ((i, v) :: e) = draw cfg ndj e := by
        intro v
        apply draw_congr
        intro k hk
        apply Env.get_cons_ne
        intro ek; subst ek; exact hij ndj hj hk
      have hdi : ∀ u, draw cfg ndi ((j, u) :: e) = draw cfg ndi e := by
        intro u
        apply draw_congr
        intro k hk
        apply Env.get_cons_ne
        intro ek; subst ek; exact hji ndi hi hk
      have hl : seqAlong cfg P (i :: j :: rest) e
          = bindO (draw cfg ndi e) fun v => bindO (draw cfg ndj e) fun u =>
              seqAlong cfg P rest ((j, u) :: (i, v) :: e) := by
        rw [seqAlong_cons_some cfg P i ndi _ e hi]
        congr 1
        funext v
        rw [seqAlong_cons_some cfg P j ndj _ _ hj, hdj v]
      have hr : seqAlong cfg P (j :: i :: rest) e
          = bindO (draw cfg ndj e) fun u => bindO (draw cfg ndi e) fun v =>
              seqAlong cfg P rest ((i, v) :: (j, u) :: e) := by
        rw [seqAlong_cons_some cfg P j ndj _ e hj]
        congr 1
        funext u
        rw [seqAlong_cons_some cfg P i ndi _ _ hi, hdi u]
      rw [hl, hr, mass_bindO_comm]
      apply mass_bindO_congr_mass
      intro u _ _
      apply mass_bindO_congr_mass
      intro v _ _
      exact seqAlong_envEq cfg P q hq rest _ _ (EnvEq.swap e i j v u hne)

/-- a draw independent of all the draws before it can be made first -/
theorem seqAlong_bubble (cfg : Cfg) (P : Prog) (q : Env → Bool) (hq : Resp q) (y : Nat) (B : List Nat) :
    ∀ (A : List Nat) (e : Env), (∀ a ∈ A, Indep P a y) →
      mass (seqAlong cfg P (A ++ y :: B) e) (onSome q) = mass (seqAlong cfg P (y :: (A ++ B)) e) (onSome q) := by
  intro A
  induction A with
  | nil => intro e _; rfl
  | cons a A ih =>
    intro e hA
    have h1 : mass (seqAlong cfg P (a :: (A ++ y :: B)) e) (onSome q)
        = mass (seqAlong cfg P (a :: y :: (A ++ B)) e) (onSome q) := by
      rw [seqAlong_cons, seqAlong_cons]
      apply mass_bindO_congr_mass
      intro e1 _ _
      exact ih e1 (fun x hx => hA x (List.mem_cons_of_mem _ hx))
    rw [List.cons_append, h1]
    exact seqAlong_swap_head cfg P q hq a y (A ++ B) e (hA a List.mem_cons_self)

/-! ### closedness under reordering -/

theorem closed_mono (P : Prog) : ∀ (xs vis vis' : List Nat), (∀ k ∈ vis, k ∈ vis') → Closed P xs vis → Closed P xs vis' := by
  intro xs
  induction xs with
  | nil => intro _ _ _ _; trivial
  | cons x xs ih =>
    intro vis vis' hsub h
    obtain ⟨h1, h2⟩ := h
    refine ⟨fun nd hn j hj => hsub j (h1 nd hn j hj), ?_⟩
    apply ih (x :: vis) (x :: vis') _ h2
    intro k hk
    rcases List.mem_cons.mp hk with rfl | hk
    · exact List.mem_cons_self
    · exact List.mem_cons_of_mem _ (hsub k hk)

theorem closed_deps (P : Prog) : ∀ (xs vis : List Nat), Closed P xs vis →
    ∀ x ∈ xs, ∀ nd, P.nodes[x]? = some nd → ∀ j ∈ nd.deps, j ∈ xs ∨ j ∈ vis := by
  intro xs
  induction xs with
  | nil => intro _ _ x hx; cases hx
  | cons a xs ih =>
    intro vis h x hx nd hn j hj
    obtain ⟨h1, h2⟩ := h
    rcases List.mem_cons.mp hx with rfl | hx
    · right; exact h1 nd hn j hj
    · rcases ih (a :: vis) h2 x hx nd hn j hj with h | h
      · left; exact List.mem_cons_of_mem _ h
      · rcases List.mem_cons.mp h with h | h
        · left; rw [h]; exact List.mem_cons_self
        · right; exact h

theorem closed_remove_middle (P : Prog) (A B : List Nat) (y : Nat) (vis : List Nat)
    (h : Closed P (A ++ y :: B) vis) : Closed P (A ++ B) (y :: vis) := by
  rw [closed_append] at h ⊢
  obtain ⟨hA, hyB⟩ := h
  refine ⟨closed_mono P A vis (y :: vis) (fun k hk => List.mem_cons_of_mem _ hk) hA, ?_⟩
  have hB : Closed P B (y :: (A.reverse ++ vis)) := hyB.2
  apply closed_mono P B _ _ _ hB
  intro k hk
  rcases List.mem_cons.mp hk with rfl | hk
  · exact List.mem_append_right _ List.mem_cons_self
  · rcases List.mem_append.mp hk with hk | hk
    · exact List.mem_append_left _ hk
    · exact List.mem_append_right _ (List.mem_cons_of_mem _ hk)

/-- **the prior does not depend on the order of the draws**: duplicate-free, dependency-closed orders of the same nodes
    give every event on the sampled values the same probability -/
theorem seqAlong_perm (cfg : Cfg) (P : Prog) (q : Env → Bool) (hq : Resp q) :
    ∀ (ys xs vis : List Nat) (e : Env), xs.Perm ys → xs.Nodup → (∀ x ∈ xs, x ∉ vis) →
      Closed P xs vis → Closed P ys vis →
      mass (seqAlong cfg P xs e) (onSome q) = mass (seqAlong cfg P ys e) (onSome q) := by
  intro ys
  induction ys with
  | nil =>
    intro xs vis e hp _ _ _ _
    rw [List.perm_nil.mp hp]
  | cons y ys ih =>
    intro xs vis e hp hnd hfresh hcx hcy
    have hy : y ∈ xs := hp.symm.subset List.mem_cons_self
    obtain ⟨A, B, rfl⟩ := List.append_of_mem hy
    have hndA : (A ++ y :: B).Nodup := hnd
    rw [List.nodup_append] at hndA
    obtain ⟨hAnd, hyBnd, hdisj⟩ := hndA
    have hyA : y ∉ A := fun h => hdisj y h y List.mem_cons_self rfl
    have hindep : ∀ a ∈ A, Indep P a y := by
      intro a ha
      refine ⟨fun e' => hyA (e' ▸ ha), ?_, ?_⟩
      · -- a is not a dependency of y: in `ys` the node y comes first, so its dependencies are all in `vis`
        intro nd hn hmem
        exact hfresh a (List.mem_append_left _ ha) (hcy.1 nd hn a hmem)
      · -- y is not a dependency of a: dependencies of a come before a or are in `vis`
        intro nd hn hmem
        have hcA : Closed P A vis := ((closed_append P A (y :: B) vis).mp hcx).1
        rcases closed_deps P A vis hcA a ha nd hn y hmem with h | h
        · exact hyA h
        · exact hfresh y (List.mem_append_right _ List.mem_cons_self) h
    rw [seqAlong_bubble cfg P q hq y B A e hindep, seqAlong_cons, seqAlong_cons]
    apply mass_bindO_congr_mass
    intro e1 _ _
    apply ih (A ++ B) (y :: vis) e1
    · exact (List.perm_cons y).mp (List.perm_middle.symm.trans hp)
    · rw [List.nodup_append]
      refine ⟨hAnd, (List.nodup_cons.mp hyBnd).2, ?_⟩
      intro a ha b hb
      exact hdisj a ha b (List.mem_cons_of_mem _ hb)
    · intro x hx hmem
      rcases List.mem_cons.mp hmem with rfl | hmem
      · rcases List.mem_append.mp hx with h | h
        · exact hyA h
        · exact (List.nodup_cons.mp hyBnd).1 h
      · apply hfresh x _ hmem
        rcases List.mem_append.mp hx with h | h
        · exact List.mem_append_left _ h
        · exact List.mem_append_right _ (List.mem_cons_of_mem _ h)
    · exact closed_remove_middle P A B y vis hcx
    · exact hcy.2

end Scenic.Sampler
