import ScenicModel.Lemmas.SamplerSpec

/-!
The attempt (sample once, check the active requirements) and `generate` (activation, then the rejection loop):
per-attempt distribution = prior restricted to the samples satisfying the active requirements; the soft-requirement
mixture.
-/
namespace Scenic.Sampler
open Dist

variable {σ : Type}

/-- what one attempt returns for a given outcome of `sampleAll` -/
def attemptOutcome (active : List (Env → Bool)) (scene : Env → σ) : Option Env → Option σ
  | none => none
  | some env => if checkSeq env active then some (scene env) else none

theorem attempt_eq_bind_pure (cfg : Cfg) (P : Prog) (roots : List Nat) (active : List (Env → Bool)) (scene : Env → σ) :
    attempt cfg P roots active scene
      = (sampleAll cfg P roots).bind fun o => Dist.pure (attemptOutcome active scene o) := by
  unfold attempt
  congr 1
  funext o
  cases o with
  | none => rfl
  | some env =>
    simp only [attemptOutcome]
    by_cases h : checkSeq env active <;> simp [h]

/-- **per-attempt distribution = prior restricted to the active requirements**: the probability that an attempt
    yields a scene with property `q` is the prior probability of "all active requirements hold and the scene has
    property `q`" -/
theorem attempt_accept (cfg : Cfg) (P : Prog) (roots : List Nat) (active : List (Env → Bool)) (scene : Env → σ)
    (q : σ → Bool) :
    mass (attempt cfg P roots active scene) (onSome q)
      = mass (sampleAll cfg P roots) (onSome fun env => active.all (fun r => r env) && q (scene env)) := by
  rw [attempt_eq_bind_pure, mass_bind_pure]
  apply mass_congr
  intro x _
  cases x.1 with
  | none => rfl
  | some env =>
    simp only [attemptOutcome, onSome, checkSeq_eq_all]
    by_cases h : active.all (fun r => r env) <;> simp [h]

/-- ... and it is rejected exactly when sampling was rejected (empty range) or some active requirement fails -/
theorem attempt_reject (cfg : Cfg) (P : Prog) (roots : List Nat) (active : List (Env → Bool)) (scene : Env → σ) :
    mass (attempt cfg P roots active scene) isRej
      = mass (sampleAll cfg P roots) isRej
        + mass (sampleAll cfg P roots) (onSome fun env => !active.all (fun r => r env)) := by
  rw [attempt_eq_bind_pure, mass_bind_pure]
  induction sampleAll cfg P roots with
  | nil => simp
  | cons x xs ih =>
    rw [mass_cons, mass_cons, mass_cons, ih]
    rcases x with ⟨o, w⟩
    cases o with
    | none => simp [attemptOutcome, isRej, onSome]; ring
    | some env =>
      simp only [attemptOutcome, isRej, onSome, checkSeq_eq_all]
      by_cases h : active.all (fun r => r env)
      · simp [h]
      · simp [h]; ring

theorem attempt_perm (cfg : Cfg) (P : Prog) (roots : List Nat) (active active' : List (Env → Bool))
    (scene : Env → σ) (h : active.Perm active') :
    attempt cfg P roots active scene = attempt cfg P roots active' scene := by
  rw [attempt_eq_bind_pure, attempt_eq_bind_pure]
  apply bind_congr
  intro x _
  cases x.1 with
  | none => rfl
  | some env => simp only [attemptOutcome, check_perm env active active' h]

theorem actWeight_eq_softWeight {c : Cfg} (h : c.WF) : ∀ (ps : List Rat) (bs : List Bool),
    actWeight c ps bs = softWeight ps bs := by
  intro ps
  induction ps with
  | nil => intro bs; cases bs <;> rfl
  | cons p ps ih =>
    intro bs
    cases bs with
    | nil => rfl
    | cons b bs => simp only [actWeight, softWeight, ih bs, h.actProb]

/-- **soft-requirement mixture**: `generate` is the mixture, over the subsets `S` of soft requirements, with weights
    `Π_{i∈S} p_i Π_{i∉S} (1-p_i)`, of the rejection loop run with the default requirements and the requirements in `S` -/
theorem generate_mixture {c : Cfg} (h : c.WF) (P : Prog) (roots : List Nat) (reqs : List (Rat × (Env → Bool)))
    (defaults : List (Env → Bool)) (scene : Env → σ) (n : Nat) (q : List Bool → Option (σ × Nat) → Bool) :
    mass (generate c P roots reqs defaults scene n) (fun o => q o.1 o.2)
      = sumW ((vectors reqs.length).map fun act => softWeight (reqs.map (·.1)) act *
          mass (loop (attempt c P roots (defaults ++ activeOf (reqs.map (·.2)) act) scene) n 0) (q act)) := by
  unfold generate
  rw [activation_mass, (h.attempts n).1, (h.attempts n).2, List.length_map]
  congr 1
  apply List.map_congr_left
  intro act _
  rw [actWeight_eq_softWeight h, mass_map]

/-- two consecutive draws of the same node description (an original and its `resample` clone) are independent given
    the values of the shared parameters, and identically distributed -/
theorem seqAlong_pair_indep (cfg : Cfg) (P : Prog) (i c : Nat) (nd : Node) (env : Env)
    (hi : P.nodes[i]? = some nd) (hc : P.nodes[c]? = some nd) (hne : i ≠ c) (hdep : i ∉ nd.deps)
    (qa qc : Val → Bool) :
    mass (seqAlong cfg P [i, c] env) (onSome fun e => qa (e.get i) && qc (e.get c))
      = mass (draw cfg nd env) (onSome qa) * mass (draw cfg nd env) (onSome qc) := by
  have hstep : ∀ (k : Nat) (e : Env), P.nodes[k]? = some nd →
      step cfg P k e = bindO (draw cfg nd e) fun v => Dist.pure (some ((k, v) :: e)) := by
    intro k e hk
    unfold step bindO
    rw [hk]
    simp only []
    apply bind_congr
    intro x _
    cases x.1 <;> rfl
  have hform : seqAlong cfg P [i, c] env
      = bindO (draw cfg nd env) fun v => bindO (draw cfg nd env) fun u =>
          Dist.pure (some (((c, u) :: (i, v) :: env : Env))) := by
    have hs : seqAlong cfg P [c] = step cfg P c := funext (seqAlong_single cfg P c)
    rw [seqAlong_cons, hs, hstep i env hi, bindO_assoc]
    congr 1
    funext v
    rw [bindO_pure_some, hstep c _ hc]
    have : draw cfg nd ((i, v) :: env) = draw cfg nd env := by
      apply draw_congr
      intro j hj
      apply Env.get_cons_ne
      intro e; subst e; exact hdep hj
    rw [this]
  rw [hform]
  refine mass_bind_bind_option (draw cfg nd env) (draw cfg nd env)
    (fun v u => (((c, u) :: (i, v) :: env : Env))) qa qc (fun (e : Env) => qa (e.get i) && qc (e.get c)) ?_
  intro v u
  show (qa (Env.get ((c, u) :: (i, v) :: env) i) && qc (Env.get ((c, u) :: (i, v) :: env) c)) = (qa v && qc u)
  rw [Env.get_cons_ne _ _ _ _ hne, Env.get_cons_self, Env.get_cons_self]

end Scenic.Sampler
