import ScenicModel.Model.ChooseStep
import ScenicModel.Lemmas.Choose

/-! Lemmas about the small-step machine of `Model/ChooseStep.lean`: monad laws of the weighted-list distributions
(as equalities of lists), the big-step meaning of a machine state, and the one-time-step unfolding law. -/
namespace Scenic.Choose

namespace Dist
variable {α β γ : Type}

/-- multiply every probability by `p` -/
def scale (p : Rat) (d : Dist α) : Dist α := List.map (fun bq => (bq.1, p * bq.2)) d

theorem bind_nil (f : α → Dist β) : bind ([] : Dist α) f = [] := rfl

theorem bind_cons (a : α) (p : Rat) (d : Dist α) (f : α → Dist β) :
    bind ((a, p) :: d) f = scale p (f a) ++ bind d f := by
  simp [bind, scale, List.flatMap_cons]

theorem bind_append (d e : Dist α) (f : α → Dist β) : bind (d ++ e) f = bind d f ++ bind e f := by
  simp [bind, List.flatMap_append]

theorem scale_append (p : Rat) (d e : Dist α) : scale p (d ++ e) = scale p d ++ scale p e := by
  simp [scale]

theorem scale_scale (p q : Rat) (d : Dist α) : scale p (scale q d) = scale (p * q) d := by
  simp [scale, mul_assoc]

theorem scale_one (d : Dist α) : scale 1 d = d := by
  simp [scale]

theorem bind_scale (p : Rat) (d : Dist α) (g : α → Dist β) : bind (scale p d) g = scale p (bind d g) := by
  induction d with
  | nil => rfl
  | cons x d ih =>
    obtain ⟨a, q⟩ := x
    have : scale p ((a, q) :: d) = (a, p * q) :: scale p d := by simp [scale]
    rw [this, bind_cons, bind_cons, ih, scale_append, scale_scale]

theorem bind_assoc (d : Dist α) (f : α → Dist β) (g : β → Dist γ) :
    bind (bind d f) g = bind d (fun a => bind (f a) g) := by
  induction d with
  | nil => rfl
  | cons x d ih =>
    obtain ⟨a, p⟩ := x
    rw [bind_cons, bind_append, bind_scale, ih, bind_cons]

theorem pure_bind (a : α) (f : α → Dist β) : bind (pure a) f = f a := by
  unfold pure
  rw [bind_cons, bind_nil, scale_one, List.append_nil]

theorem map_scale (h : α → β) (p : Rat) (d : Dist α) : map h (scale p d) = scale p (map h d) := by
  simp [map, scale]

theorem map_append (h : α → β) (d e : Dist α) : map h (d ++ e) = map h d ++ map h e := by
  simp [map]

theorem map_bind (h : β → γ) (d : Dist α) (f : α → Dist β) :
    map h (bind d f) = bind d (fun a => map h (f a)) := by
  induction d with
  | nil => rfl
  | cons x d ih =>
    obtain ⟨a, p⟩ := x
    rw [bind_cons, map_append, map_scale, ih, bind_cons]

theorem bind_map (h : α → β) (d : Dist α) (f : β → Dist γ) : bind (map h d) f = bind d (fun a => f (h a)) := by
  induction d with
  | nil => rfl
  | cons x d ih =>
    obtain ⟨a, p⟩ := x
    have : map h ((a, p) :: d) = (h a, p) :: map h d := by simp [map]
    rw [this, bind_cons, bind_cons, ih]

theorem map_pure (h : α → β) (a : α) : map h (pure a) = pure (h a) := by
  simp [map, pure]

theorem map_map (g : β → γ) (h : α → β) (d : Dist α) : map g (map h d) = map (fun a => g (h a)) d := by
  simp [map]

theorem map_id' (d : Dist α) (h : α → α) (hh : ∀ a, h a = a) : map h d = d := by
  unfold map
  conv => rhs; rw [← List.map_id d]
  apply List.map_congr_left
  intro ap _
  simp [hh]

theorem bind_congr (d : Dist α) (f g : α → Dist β) (h : ∀ ap ∈ d, f ap.1 = g ap.1) : bind d f = bind d g := by
  induction d with
  | nil => rfl
  | cons x d ih =>
    obtain ⟨a, p⟩ := x
    rw [bind_cons, bind_cons, ih (fun ap hap => h ap (List.mem_cons_of_mem _ hap))]
    have := h (a, p) List.mem_cons_self
    simp only at this
    rw [this]

theorem bind_pure_comp (h : α → β) (d : Dist α) : bind d (fun a => pure (h a)) = map h d := by
  induction d with
  | nil => rfl
  | cons x d ih =>
    obtain ⟨a, p⟩ := x
    have : map h ((a, p) :: d) = (h a, p) :: map h d := by simp [map]
    rw [bind_cons, ih, this]
    simp [scale, pure]

end Dist

/-! ### outcomes -/

theorem Outcome.prepend_nil (o : Outcome) : o.prepend [] = o := by
  cases o; simp [Outcome.prepend]

theorem Outcome.prepend_prepend (a b : List Event) (o : Outcome) : (o.prepend b).prepend a = o.prepend (a ++ b) := by
  cases o; simp [Outcome.prepend]

theorem map_prepend_nil (d : Dist Outcome) : Dist.map (Outcome.prepend []) d = d :=
  Dist.map_id' d _ Outcome.prepend_nil

theorem andThen_prepend (evs : List Event) (o : Outcome) (k : Nat → Dist Outcome) :
    andThen (o.prepend evs) k = Dist.map (Outcome.prepend evs) (andThen o k) := by
  obtain ⟨lg, et, st⟩ := o
  unfold andThen
  by_cases h : st = .done
  · simp only [Outcome.prepend, h, if_true]
    rw [Dist.map_map]
    congr 1
    funext o'
    cases o'; simp [Outcome.prepend]
  · simp only [Outcome.prepend, h, if_false]
    rw [Dist.map_pure]
    simp [Outcome.prepend]

theorem andThen_fail {α : Type} (t : Nat) (p : Pick α) (k : Nat → Dist Outcome) (h : ∀ x, p ≠ .picked x) :
    andThen (failOutcome t p) k = Dist.pure (failOutcome t p) := by
  unfold andThen
  rw [if_neg]
  cases p with
  | picked x => exact absurd rfl (h x)
  | _ => simp [failOutcome]

theorem andThen_done_nil (t : Nat) (k : Nat → Dist Outcome) : andThen ⟨[], t, .done⟩ k = k t := by
  unfold andThen
  simp only [if_true]
  exact map_prepend_nil _

/-! ### big-step meaning of a machine state, and the unfolding law -/

/-- what the rest of the run looks like from state `s` at time step `t` (big-step): the pending `yield`s pass, the
shuffle in progress runs its remaining items, then the remaining statements run -/
def execA (c : Config) (env : Env) (t : Nat) (s : AState) : Dist Outcome :=
  Dist.bind (shuffleAux c env s.shuf.length (t + s.wait) s.shuf) fun o =>
    andThen o fun t' => exec c env s.rest t' s.vals s.store

theorem execA_init (c : Config) (env : Env) (t : Nat) (ss : List Stmt) (vals : List Int) (st : Store) :
    execA c env t ⟨0, [], ss, vals, st⟩ = exec c env ss t vals st := by
  unfold execA
  simp only [List.length_nil, shuffleAux_zero, Dist.pure_bind, Nat.add_zero]
  exact andThen_done_nil _ _

theorem restSize_afterShuffle (c : Config) (st : Store) (k : Nat) (r : List Stmt) :
    restSize (afterShuffle c st k) r ≤ restSize st r := by
  unfold afterShuffle
  by_cases hc : c.copyOperand = true
  · simp [hc]
  · simp only [hc, Bool.false_eq_true, if_false]
    induction r with
    | nil => simp [restSize]
    | cons s r ih =>
      simp only [restSize]
      have : stmtSize (st.set k []) s ≤ stmtSize st s := by
        cases s with
        | shuffleVar j =>
          simp only [stmtSize]
          by_cases hj : j = k
          · subst hj
            by_cases hlt : j < st.length
            · simp [List.getD_eq_getElem?_getD, hlt]
            · have : st.set j [] = st := by
                apply List.set_eq_of_length_le; omega
              rw [this]
          · have : (st.set k []).getD j [] = st.getD j [] := by
              simp [List.getD_eq_getElem?_getD, Ne.symm hj]
            rw [this]
        | _ => simp [stmtSize]
      omega

theorem afterStep_prepend (k : Nat → AState → Dist Outcome) (t : Nat) (evs : List Event) (st : Step) :
    afterStep k t (st.prepend evs) = Dist.map (Outcome.prepend evs) (afterStep k t st) := by
  cases st with
  | suspended e s =>
    simp only [Step.prepend, afterStep]
    rw [Dist.map_map]
    congr 1
    funext o; exact (Outcome.prepend_prepend _ _ _).symm
  | finished o => simp only [Step.prepend, afterStep, Dist.map_pure]

/-- `bind (map (prepend evs) R) (afterStep …) = map (prepend evs) (bind R (afterStep …))` -/
theorem bind_prepend_afterStep (k : Nat → AState → Dist Outcome) (t : Nat) (evs : List Event) (R : Dist Step) :
    Dist.bind (Dist.map (Step.prepend evs) R) (afterStep k t) =
      Dist.map (Outcome.prepend evs) (Dist.bind R (afterStep k t)) := by
  rw [Dist.bind_map, Dist.map_bind]
  congr 1
  funext st
  exact afterStep_prepend k t evs st

theorem execA_noshuf (c : Config) (env : Env) (t w : Nat) (r : List Stmt) (vals : List Int) (st : Store) :
    execA c env t ⟨w, [], r, vals, st⟩ = exec c env r (t + w) vals st := by
  unfold execA
  simp only [List.length_nil, shuffleAux_zero, Dist.pure_bind]
  exact andThen_done_nil _ _

theorem execA_eq (c : Config) (env : Env) (t : Nat) (s : AState) :
    execA c env t s = Dist.bind (shuffleAux c env s.shuf.length (t + s.wait) s.shuf) fun o =>
      andThen o fun t' => exec c env s.rest t' s.vals s.store := rfl

theorem execA_wait (c : Config) (env : Env) (t w : Nat) (shuf : List Item) (r : List Stmt) (vals : List Int)
    (st : Store) : execA c env t ⟨w + 1, shuf, r, vals, st⟩ = execA c env (t + 1) ⟨w, shuf, r, vals, st⟩ := by
  rw [execA_eq, execA_eq]
  simp only
  have : t + 1 + w = t + (w + 1) := by omega
  rw [this]

theorem execA_shuffle_start (c : Config) (env : Env) (t : Nat) (items : List Item) (r : List Stmt) (vals : List Int)
    (st : Store) :
    execA c env t ⟨0, items, r, vals, st⟩ =
      Dist.bind (doShuffle c env t items) fun o => andThen o fun t' => exec c env r t' vals st := by
  rw [execA_eq]
  simp only [doShuffle, Nat.add_zero]

theorem andThen_ran (e : Event) (t' : Nat) (k : Nat → Dist Outcome) :
    andThen ⟨[e], t', .done⟩ k = Dist.map (Outcome.prepend [e]) (k t') := by
  unfold andThen
  simp

/-- **the unfolding law.** For every state and every time step: resuming the body for one time step and then
continuing with the big-step meaning of the successor state (at the next step) is the big-step meaning of the state. -/
theorem resume_exec (c : Config) (env : Env) (t : Nat) :
    ∀ (fuel : Nat) (s : AState), s.need ≤ fuel →
      Dist.bind (resume c env t fuel s) (afterStep (execA c env) t) = execA c env t s := by
  intro fuel
  induction fuel with
  | zero => intro s h; unfold AState.need at h; omega
  | succ fuel ih =>
    intro s h
    obtain ⟨w, shuf, rest, vals, st⟩ := s
    unfold AState.need at h
    simp only at h
    cases w with
    | succ w =>
      have hres : resume c env t (fuel + 1) ⟨w + 1, shuf, rest, vals, st⟩ =
          Dist.pure (.suspended [] ⟨w, shuf, rest, vals, st⟩) := by
        simp [resume]
      rw [hres, Dist.pure_bind]
      simp only [afterStep]
      rw [map_prepend_nil, execA_wait]
    | zero =>
      cases shuf with
      | cons x xs =>
        have hres : resume c env t (fuel + 1) ⟨0, x :: xs, rest, vals, st⟩ =
            Dist.bind (pickEnabled c env t (x :: xs))
              (resumeShuffle env t ⟨0, x :: xs, rest, vals, st⟩ (resume c env t fuel)) := by
          simp [resume]
        rw [hres, Dist.bind_assoc, execA_eq c env t ⟨0, x :: xs, rest, vals, st⟩]
        simp only [List.length_cons, Nat.add_zero]
        rw [shuffleAux_succ c env _ t (x :: xs) (by simp), Dist.bind_assoc]
        apply Dist.bind_congr
        intro ap hap
        obtain ⟨p, q⟩ := ap
        simp only
        cases p with
        | picked y =>
          have hy : y ∈ x :: xs := (mem_enabledAt.mp (pick_support c env t _ y q hap)).1
          have hlen : ((x :: xs).erase y).length = xs.length := by
            rw [List.length_erase_of_mem hy]; simp
          simp only [resumeShuffle, shuffleStep]
          rw [bind_prepend_afterStep, ih _ (by
            unfold AState.need; simp only; rw [hlen]; simp only [List.length_cons] at h; omega)]
          rw [Dist.bind_map]
          simp only [andThen_prepend]
          rw [← Dist.map_bind, execA_eq]
          simp only [hlen]
        | deadlock =>
          simp only [resumeShuffle, shuffleStep, Dist.pure_bind, afterStep]
          rw [andThen_fail _ _ _ (by intro x; simp)]
        | emptyDomain =>
          simp only [resumeShuffle, shuffleStep, Dist.pure_bind, afterStep]
          rw [andThen_fail _ _ _ (by intro x; simp)]
        | negWeight =>
          simp only [resumeShuffle, shuffleStep, Dist.pure_bind, afterStep]
          rw [andThen_fail _ _ _ (by intro x; simp)]
        | crash =>
          simp only [resumeShuffle, shuffleStep, Dist.pure_bind, afterStep]
          rw [andThen_fail _ _ _ (by intro x; simp)]
      | nil =>
        rw [execA_noshuf]
        simp only [Nat.add_zero]
        simp only [List.length_nil, Nat.zero_add] at h
        cases rest with
        | nil =>
          have hres : resume c env t (fuel + 1) ⟨0, [], [], vals, st⟩ = Dist.pure (.finished ⟨[], t, .done⟩) := by
            simp [resume]
          rw [hres, Dist.pure_bind]
          simp only [afterStep, exec]
        | cons s0 r =>
          simp only [restSize] at h
          cases s0 with
          | wait n =>
            have hres : resume c env t (fuel + 1) ⟨0, [], .wait n :: r, vals, st⟩ =
                resume c env t fuel ⟨n, [], r, vals, st⟩ := by
              simp [resume]
            simp only [stmtSize] at h
            rw [hres, ih _ (by unfold AState.need; simp only [List.length_nil]; omega), execA_noshuf]
            simp only [exec]
          | draw d =>
            have hres : resume c env t (fuel + 1) ⟨0, [], .draw d :: r, vals, st⟩ =
                Dist.bind (drawDist c vals d) (resumeDraw t ⟨0, [], .draw d :: r, vals, st⟩ r (resume c env t fuel)) := by
              simp [resume]
            simp only [stmtSize] at h
            rw [hres, Dist.bind_assoc]
            simp only [exec]
            apply Dist.bind_congr
            intro ap _
            obtain ⟨p, q⟩ := ap
            simp only
            cases p with
            | picked z =>
              simp only [resumeDraw, drawStep]
              rw [bind_prepend_afterStep, ih _ (by unfold AState.need; simp only [List.length_nil]; omega),
                execA_noshuf]
            | deadlock => simp only [resumeDraw, drawStep, Dist.pure_bind, afterStep]
            | emptyDomain => simp only [resumeDraw, drawStep, Dist.pure_bind, afterStep]
            | negWeight => simp only [resumeDraw, drawStep, Dist.pure_bind, afterStep]
            | crash => simp only [resumeDraw, drawStep, Dist.pure_bind, afterStep]
          | choose items =>
            have hres : resume c env t (fuel + 1) ⟨0, [], .choose items :: r, vals, st⟩ =
                Dist.bind (pickEnabled c env t items)
                  (resumeChoose env t ⟨0, [], .choose items :: r, vals, st⟩ r (resume c env t fuel)) := by
              simp [resume]
            simp only [stmtSize] at h
            rw [hres, Dist.bind_assoc]
            simp only [exec, doChoose]
            rw [Dist.bind_assoc]
            apply Dist.bind_congr
            intro ap _
            obtain ⟨p, q⟩ := ap
            simp only
            cases p with
            | picked y =>
              simp only [resumeChoose, chooseStep, Dist.pure_bind]
              rw [bind_prepend_afterStep, ih _ (by unfold AState.need; simp only [List.length_nil]; omega),
                execA_noshuf, andThen_ran]
            | deadlock =>
              simp only [resumeChoose, chooseStep, Dist.pure_bind, afterStep]
              rw [andThen_fail _ _ _ (by intro x; simp)]
            | emptyDomain =>
              simp only [resumeChoose, chooseStep, Dist.pure_bind, afterStep]
              rw [andThen_fail _ _ _ (by intro x; simp)]
            | negWeight =>
              simp only [resumeChoose, chooseStep, Dist.pure_bind, afterStep]
              rw [andThen_fail _ _ _ (by intro x; simp)]
            | crash =>
              simp only [resumeChoose, chooseStep, Dist.pure_bind, afterStep]
              rw [andThen_fail _ _ _ (by intro x; simp)]
          | shuffle items =>
            have hres : resume c env t (fuel + 1) ⟨0, [], .shuffle items :: r, vals, st⟩ =
                resume c env t fuel ⟨0, items, r, vals, st⟩ := by
              simp [resume]
            simp only [stmtSize] at h
            rw [hres, ih _ (by unfold AState.need; simp only; omega), execA_shuffle_start]
            simp only [exec]
          | chooseVar k =>
            have hres : resume c env t (fuel + 1) ⟨0, [], .chooseVar k :: r, vals, st⟩ =
                Dist.bind (pickEnabled c env t (st.getD k []))
                  (resumeChoose env t ⟨0, [], .chooseVar k :: r, vals, st⟩ r (resume c env t fuel)) := by
              simp [resume]
            simp only [stmtSize] at h
            rw [hres, Dist.bind_assoc]
            simp only [exec, doChoose]
            rw [Dist.bind_assoc]
            apply Dist.bind_congr
            intro ap _
            obtain ⟨p, q⟩ := ap
            simp only
            cases p with
            | picked y =>
              simp only [resumeChoose, chooseStep, Dist.pure_bind]
              rw [bind_prepend_afterStep, ih _ (by unfold AState.need; simp only [List.length_nil]; omega),
                execA_noshuf, andThen_ran]
            | deadlock =>
              simp only [resumeChoose, chooseStep, Dist.pure_bind, afterStep]
              rw [andThen_fail _ _ _ (by intro x; simp)]
            | emptyDomain =>
              simp only [resumeChoose, chooseStep, Dist.pure_bind, afterStep]
              rw [andThen_fail _ _ _ (by intro x; simp)]
            | negWeight =>
              simp only [resumeChoose, chooseStep, Dist.pure_bind, afterStep]
              rw [andThen_fail _ _ _ (by intro x; simp)]
            | crash =>
              simp only [resumeChoose, chooseStep, Dist.pure_bind, afterStep]
              rw [andThen_fail _ _ _ (by intro x; simp)]
          | shuffleVar k =>
            have hres : resume c env t (fuel + 1) ⟨0, [], .shuffleVar k :: r, vals, st⟩ =
                resume c env t fuel ⟨0, st.getD k [], r, vals, afterShuffle c st k⟩ := by
              simp [resume]
            simp only [stmtSize] at h
            have hle := restSize_afterShuffle c st k r
            rw [hres, ih _ (by unfold AState.need; simp only; omega), execA_shuffle_start]
            simp only [exec]

/-- the simulator loop followed by the big-step meaning of whatever state it reached is the big-step meaning -/
theorem runSteps_execA (c : Config) (env : Env) :
    ∀ (n t : Nat) (s : AState), runSteps c env (execA c env) n t s = execA c env t s := by
  intro n
  induction n with
  | zero => intro t s; rfl
  | succ n ih =>
    intro t s
    have hk : runSteps c env (execA c env) n = execA c env := funext fun t' => funext fun s' => ih t' s'
    simp only [runSteps]
    rw [hk]
    exact resume_exec c env t s.need s (Nat.le_refl _)

/-! ### expectations; bodies resumed in lockstep -/

namespace Dist
variable {α β : Type}

/-- expectation of `g` -/
def expect (d : Dist α) (g : α → Rat) : Rat := (List.map (fun ap : α × Rat => ap.2 * g ap.1) d).sum

theorem expect_nil (g : α → Rat) : expect ([] : Dist α) g = 0 := rfl

theorem expect_cons (a : α) (p : Rat) (d : Dist α) (g : α → Rat) :
    expect ((a, p) :: d) g = p * g a + expect d g := by
  simp [expect]

theorem expect_append (d e : Dist α) (g : α → Rat) : expect (d ++ e) g = expect d g + expect e g := by
  simp [expect]

theorem expect_scale (p : Rat) (d : Dist α) (g : α → Rat) : expect (scale p d) g = p * expect d g := by
  induction d with
  | nil => simp [scale, expect]
  | cons x d ih =>
    obtain ⟨a, q⟩ := x
    have : scale p ((a, q) :: d) = (a, p * q) :: scale p d := by simp [scale]
    rw [this, expect_cons, expect_cons, ih]; ring

theorem expect_pure (a : α) (g : α → Rat) : expect (pure a) g = g a := by
  simp [expect, pure]

theorem expect_bind (d : Dist α) (f : α → Dist β) (g : β → Rat) :
    expect (bind d f) g = expect d (fun a => expect (f a) g) := by
  induction d with
  | nil => rfl
  | cons x d ih =>
    obtain ⟨a, p⟩ := x
    rw [bind_cons, expect_append, expect_scale, ih, expect_cons]

theorem expect_map (h : α → β) (d : Dist α) (g : β → Rat) : expect (map h d) g = expect d (fun a => g (h a)) := by
  simp [expect, map, Function.comp_def]

theorem expect_zero (d : Dist α) : expect d (fun _ => 0) = 0 := by
  induction d with
  | nil => rfl
  | cons x d ih => obtain ⟨a, p⟩ := x; rw [expect_cons, ih]; ring

theorem expect_mul_const (d : Dist α) (g : α → Rat) (r : Rat) : expect d (fun a => g a * r) = expect d g * r := by
  induction d with
  | nil => simp [expect]
  | cons x d ih => obtain ⟨a, p⟩ := x; rw [expect_cons, expect_cons, ih]; ring

theorem expect_congr (d : Dist α) (g h : α → Rat) (e : ∀ ap ∈ d, g ap.1 = h ap.1) : expect d g = expect d h := by
  induction d with
  | nil => rfl
  | cons x d ih =>
    obtain ⟨a, p⟩ := x
    rw [expect_cons, expect_cons, ih (fun ap hap => e ap (List.mem_cons_of_mem _ hap))]
    have := e (a, p) List.mem_cons_self
    simp only at this
    rw [this]

/-- indicator of an event -/
def ind (P : α → Bool) (a : α) : Rat := if P a then 1 else 0

theorem prob_eq_expect (d : Dist α) (P : α → Bool) : prob d P = expect d (ind P) := by
  induction d with
  | nil => rfl
  | cons x d ih =>
    obtain ⟨a, p⟩ := x
    rw [prob_cons, expect_cons, ih]
    by_cases h : P a <;> simp [ind, h]

/-- expectation of `g` after `f`: `E[g(f-result)] = E[ E[g | first stage] ]`, as a probability -/
theorem prob_bind_expect (d : Dist α) (f : α → Dist β) (P : β → Bool) :
    prob (bind d f) P = expect d (fun a => prob (f a) P) := by
  rw [prob_eq_expect, expect_bind]
  congr 1
  funext a
  exact (prob_eq_expect _ _).symm

end Dist

/-- product of `gᵢ (xᵢ)` over two lists of the same length (0 if the lengths differ) -/
def zipProd {α : Type} : List (α → Rat) → List α → Rat
  | [], [] => 1
  | g :: gs, a :: as => g a * zipProd gs as
  | _, _ => 0

/-- product of the expectations `E_{dᵢ}[gᵢ]` (0 if the lengths differ) -/
def prodExpect {α : Type} : List (Dist α) → List (α → Rat) → Rat
  | [], [] => 1
  | d :: ds, g :: gs => Dist.expect d g * prodExpect ds gs
  | _, _ => 0

/-- all of `Pᵢ (xᵢ)` (false if the lengths differ) -/
def allP {α : Type} : List (α → Bool) → List α → Bool
  | [], [] => true
  | P :: Ps, a :: as => P a && allP Ps as
  | _, _ => false

/-- product of the probabilities `P_{dᵢ}(Pᵢ)` (0 if the lengths differ) -/
def prodProbs {α : Type} : List (Dist α) → List (α → Bool) → Rat
  | [], [] => 1
  | d :: ds, P :: Ps => Dist.prob d P * prodProbs ds Ps
  | _, _ => 0

theorem zipProd_ind {α : Type} (Ps : List (α → Bool)) (as : List α) :
    zipProd (Ps.map Dist.ind) as = Dist.ind (allP Ps) as := by
  induction Ps generalizing as with
  | nil => cases as <;> simp [zipProd, allP, Dist.ind]
  | cons P Ps ih =>
    cases as with
    | nil => simp [zipProd, allP, Dist.ind]
    | cons a as =>
      simp only [List.map_cons, zipProd, ih]
      by_cases h : P a <;> simp [Dist.ind, allP, h]

theorem zipProd_ind_fun {α : Type} (Ps : List (α → Bool)) : zipProd (Ps.map Dist.ind) = Dist.ind (allP Ps) :=
  funext (zipProd_ind Ps)

theorem prodExpect_ind {α : Type} (ds : List (Dist α)) (Ps : List (α → Bool)) :
    prodExpect ds (Ps.map Dist.ind) = prodProbs ds Ps := by
  induction ds generalizing Ps with
  | nil => cases Ps <;> simp [prodExpect, prodProbs]
  | cons d ds ih =>
    cases Ps with
    | nil => simp [prodExpect, prodProbs]
    | cons P Ps => simp only [List.map_cons, prodExpect, prodProbs, ih, Dist.prob_eq_expect]

/-- **Fubini for independent stages.** Running the stages one after the other on the same generator, the expectation of
a product `Π gᵢ(xᵢ)` is the product of the expectations. -/
theorem expect_sequence {α : Type} (ds : List (Dist α)) (gs : List (α → Rat)) :
    Dist.expect (Dist.sequence ds) (zipProd gs) = prodExpect ds gs := by
  induction ds generalizing gs with
  | nil =>
    cases gs with
    | nil => simp [Dist.sequence, Dist.expect_pure, zipProd, prodExpect]
    | cons g gs => simp [Dist.sequence, Dist.expect_pure, zipProd, prodExpect]
  | cons d ds ih =>
    simp only [Dist.sequence]
    rw [Dist.expect_bind]
    cases gs with
    | nil =>
      simp only [Dist.expect_map, zipProd, prodExpect]
      simp only [Dist.expect_zero]
    | cons g gs =>
      simp only [Dist.expect_map, zipProd, prodExpect]
      have : (fun a => Dist.expect (Dist.sequence ds) (fun as => g a * zipProd gs as)) =
          (fun a => g a * prodExpect ds gs) := by
        funext a
        have h1 : (fun as => g a * zipProd gs as) = (fun as => zipProd gs as * g a) := by
          funext as; ring
        rw [h1, Dist.expect_mul_const, ih]; ring
      rw [this, Dist.expect_mul_const]

/-- **lockstep_expect.** `n` time steps of several bodies resumed in lockstep (every body once per time step, in list
order, all on one random number generator): the expectation of a product of per-body quantities is the product of the
expectations under the bodies' *own* `n`-step runs — the bodies are stochastically independent. -/
theorem lockstep_expect (c : Config) (env : Env) :
    ∀ (n t : Nat) (agents : List Agent) (gs : List (Agent → Rat)),
      Dist.expect (lockstep c env n t agents) (zipProd gs) = prodExpect (agents.map (agentRun c env n t)) gs := by
  intro n
  induction n with
  | zero =>
    intro t agents gs
    simp only [lockstep, agentRun, Dist.expect_pure]
    induction agents generalizing gs with
    | nil => cases gs <;> simp [zipProd, prodExpect]
    | cons a as iha =>
      cases gs with
      | nil => simp [zipProd, prodExpect]
      | cons g gs => simp only [List.map_cons, zipProd, prodExpect, Dist.expect_pure, iha]
  | succ n ih =>
    intro t agents gs
    simp only [lockstep, lockstepStep]
    rw [Dist.expect_bind]
    have h1 : (fun S => Dist.expect (lockstep c env n (t + 1) S) (zipProd gs)) =
        zipProd (gs.map fun g => fun a => Dist.expect (agentRun c env n (t + 1) a) g) := by
      funext S
      rw [ih]
      induction S generalizing gs with
      | nil => cases gs <;> simp [zipProd, prodExpect]
      | cons a S ihS =>
        cases gs with
        | nil => simp [zipProd, prodExpect]
        | cons g gs => simp only [List.map_cons, zipProd, prodExpect, ihS]
    rw [h1, expect_sequence]
    clear h1
    induction agents generalizing gs with
    | nil => cases gs <;> simp [prodExpect]
    | cons a as iha =>
      cases gs with
      | nil => simp [prodExpect]
      | cons g gs =>
        simp only [List.map_cons, prodExpect, iha, agentRun]
        rw [Dist.expect_bind]

/-- the outcome a body in the simulator's list will eventually produce, from time step `t` on (big-step) -/
def Agent.finish (c : Config) (env : Env) (t : Nat) : Agent → Dist Outcome
  | .running log s => Dist.map (Outcome.prepend log) (execA c env t s)
  | .over o => Dist.pure o

theorem finish_afterStep (c : Config) (env : Env) (t : Nat) (log : List Event) (st : Step) :
    Agent.finish c env (t + 1) (Agent.afterStep log st) =
      Dist.map (Outcome.prepend log) (afterStep (execA c env) t st) := by
  cases st with
  | suspended evs s =>
    simp only [Agent.afterStep, Agent.finish, afterStep]
    rw [Dist.map_map]
    congr 1
    funext o; exact (Outcome.prepend_prepend _ _ _).symm
  | finished o => simp only [Agent.afterStep, Agent.finish, afterStep, Dist.map_pure]

theorem agentStep_finish (c : Config) (env : Env) (t : Nat) (a : Agent) :
    Dist.bind (agentStep c env t a) (Agent.finish c env (t + 1)) = Agent.finish c env t a := by
  cases a with
  | over o => simp only [agentStep, Dist.pure_bind, Agent.finish]
  | running log s =>
    simp only [agentStep, Agent.finish]
    rw [Dist.bind_map]
    simp only [finish_afterStep]
    rw [← Dist.map_bind, resume_exec c env t s.need s (Nat.le_refl _)]

/-- **refinement, `n` steps.** Resuming a body for `n` time steps and then letting it run to its end is the same
distribution over outcomes as letting it run to its end at once: the big-step semantics is what the generator machine
computes, whenever one looks. -/
theorem agentRun_finish (c : Config) (env : Env) :
    ∀ (n t : Nat) (a : Agent),
      Dist.bind (agentRun c env n t a) (Agent.finish c env (t + n)) = Agent.finish c env t a := by
  intro n
  induction n with
  | zero => intro t a; simp only [agentRun, Dist.pure_bind, Nat.add_zero]
  | succ n ih =>
    intro t a
    simp only [agentRun]
    rw [Dist.bind_assoc]
    have : (fun a' => Dist.bind (agentRun c env n (t + 1) a') (Agent.finish c env (t + (n + 1)))) =
        Agent.finish c env (t + 1) := by
      funext a'
      have e : t + (n + 1) = t + 1 + n := by omega
      rw [e]; exact ih (t + 1) a'
    rw [this]
    exact agentStep_finish c env t a

/-- the joint outcome of several bodies: `n` time steps in lockstep, then every body runs to its end -/
def lockstepOutcomes (c : Config) (env : Env) (n t : Nat) (agents : List Agent) : Dist (List Outcome) :=
  Dist.bind (lockstep c env n t agents) fun as => Dist.sequence (as.map (Agent.finish c env (t + n)))

theorem prob_sequence {α : Type} (ds : List (Dist α)) (Ps : List (α → Bool)) :
    Dist.prob (Dist.sequence ds) (allP Ps) = prodProbs ds Ps := by
  rw [Dist.prob_eq_expect, ← zipProd_ind_fun, expect_sequence, prodExpect_ind]

theorem prodProbs_map {α β : Type} (f : α → Dist β) (Ps : List (β → Bool)) (as : List α) :
    prodProbs (as.map f) Ps = zipProd (Ps.map fun P => fun a => Dist.prob (f a) P) as := by
  induction as generalizing Ps with
  | nil => cases Ps <;> simp [prodProbs, zipProd]
  | cons a as ih =>
    cases Ps with
    | nil => simp [prodProbs, zipProd]
    | cons P Ps => simp only [List.map_cons, prodProbs, zipProd, ih]

theorem finish_init (c : Config) (env : Env) (t : Nat) (ss : List Stmt) (st : Store) :
    Agent.finish c env t (.running [] (AState.init ss st)) = exec c env ss t [] st := by
  simp only [Agent.finish, AState.init]
  rw [map_prepend_nil, execA_init]

/-- **lockstep_independent (general form).** -/
theorem lockstep_independent_agents (c : Config) (env : Env) (n t : Nat) (agents : List Agent)
    (Ps : List (Outcome → Bool)) :
    Dist.prob (lockstepOutcomes c env n t agents) (allP Ps) = prodProbs (agents.map (Agent.finish c env t)) Ps := by
  unfold lockstepOutcomes
  rw [Dist.prob_bind_expect]
  have h1 : (fun as => Dist.prob (Dist.sequence (as.map (Agent.finish c env (t + n)))) (allP Ps)) =
      zipProd (Ps.map fun P => fun a => Dist.prob (Agent.finish c env (t + n) a) P) := by
    funext as
    rw [prob_sequence, prodProbs_map]
  rw [h1, lockstep_expect]
  clear h1
  induction agents generalizing Ps with
  | nil => cases Ps <;> simp [prodExpect, prodProbs]
  | cons a as iha =>
    cases Ps with
    | nil => simp [prodExpect, prodProbs]
    | cons P Ps =>
      simp only [List.map_cons, prodExpect, prodProbs, iha]
      rw [← Dist.prob_bind_expect, agentRun_finish]

end Scenic.Choose
