import ScenicModel.Model.RegionSampling
import Mathlib.Tactic.Linarith
import Mathlib.Tactic.Ring
import Mathlib.Tactic.NormNum
import Mathlib.Tactic.FieldSimp
import Mathlib.Algebra.Order.Field.Rat
import Mathlib.Algebra.BigOperators.Group.List.Basic

namespace Scenic.RegionSampling
set_option linter.unusedSectionVars false
set_option linter.unnecessarySeqFocus false
variable {α : Type} [DecidableEq α]

theorem total_nil : total ([] : SubPMF α) = 0 := rfl

theorem total_cons (e : α × Rat) (p : SubPMF α) : total (e :: p) = e.2 + total p := by
  simp [total]

theorem total_append (p q : SubPMF α) : total (p ++ q) = total p + total q := by
  simp [total, List.sum_append]

theorem total_scale (c : Rat) (p : SubPMF α) : total (scale c p) = c * total p := by
  induction p with
  | nil => simp [total, scale]
  | cons e p ih =>
    simp only [scale, List.map_cons, total_cons] at *
    rw [ih]; ring

theorem mass_nil (x : α) : mass ([] : SubPMF α) x = 0 := rfl

theorem mass_cons (e : α × Rat) (p : SubPMF α) (x : α) :
    mass (e :: p) x = (if e.1 = x then e.2 else 0) + mass p x := by
  unfold mass
  by_cases h : e.1 = x
  · simp [h, total_cons]
  · simp [h]

theorem mass_append (p q : SubPMF α) (x : α) : mass (p ++ q) x = mass p x + mass q x := by
  simp [mass, List.filter_append, total_append]

theorem mass_scale (c : Rat) (p : SubPMF α) (x : α) : mass (scale c p) x = c * mass p x := by
  induction p with
  | nil => simp [mass, scale, total]
  | cons e p ih =>
    have : scale c (e :: p) = (e.1, c * e.2) :: scale c p := rfl
    rw [this, mass_cons, mass_cons, ih]
    by_cases h : e.1 = x <;> simp [h] <;> ring

theorem mass_filter (f : α → Bool) (p : SubPMF α) (x : α) :
    mass (p.filter fun e => f e.1) x = if f x then mass p x else 0 := by
  induction p with
  | nil => simp [mass, total]
  | cons e p ih =>
    by_cases hf : f e.1
    · rw [List.filter_cons_of_pos (by simpa using hf), mass_cons, mass_cons, ih]
      by_cases h : e.1 = x
      · subst h; simp [hf]
      · simp [h]
    · rw [List.filter_cons_of_neg (by simpa using hf), mass_cons, ih]
      by_cases h : e.1 = x
      · subst h; simp [hf]
      · simp [h]

theorem mass_flatMap {β : Type} (l : List β) (f : β → SubPMF α) (x : α) :
    mass (l.flatMap f) x = (l.map fun b => mass (f b) x).sum := by
  induction l with
  | nil => simp [mass, total]
  | cons b l ih => simp [List.flatMap_cons, mass_append, ih]


/-- a genuine sub-probability mass list -/
def IsSubPMF (p : SubPMF α) : Prop := (∀ e ∈ p, 0 ≤ e.2) ∧ total p ≤ 1

theorem total_nonneg {p : SubPMF α} (h : ∀ e ∈ p, 0 ≤ e.2) : 0 ≤ total p := by
  induction p with
  | nil => simp [total]
  | cons e p ih =>
    rw [total_cons]
    have h1 := h e (by simp)
    have h2 := ih (fun e' he' => h e' (by simp [he']))
    linarith

theorem total_filter_le {p : SubPMF α} (h : ∀ e ∈ p, 0 ≤ e.2) (f : α × Rat → Bool) :
    total (p.filter f) ≤ total p := by
  induction p with
  | nil => simp [total]
  | cons e p ih =>
    have h1 := h e (by simp)
    have h2 := ih (fun e' he' => h e' (by simp [he']))
    by_cases hf : f e
    · rw [List.filter_cons_of_pos hf, total_cons, total_cons]; linarith
    · rw [List.filter_cons_of_neg hf, total_cons]; linarith

theorem mass_nonneg {p : SubPMF α} (h : ∀ e ∈ p, 0 ≤ e.2) (x : α) : 0 ≤ mass p x := by
  unfold mass
  apply total_nonneg
  intro e he
  exact h e (List.mem_of_mem_filter he)

theorem mass_le_total {p : SubPMF α} (h : ∀ e ∈ p, 0 ≤ e.2) (x : α) : mass p x ≤ total p :=
  total_filter_le h _

theorem interSampler_reference (ops : List (Operand α)) :
    interSampler SamplerCfg.reference ops =
      if (interSamplingRegions SamplerCfg.reference ops).all (·.sampler.isNone) then none
      else some (interFirstFit (fun x => ops.all (·.contains x))
        ((interSamplingRegions SamplerCfg.reference ops).map (·.sampler))) := by
  simp [interSampler, SamplerCfg.reference]

/-- first-fit loop: uniformity is inherited -/
theorem interFirstFit_uniform (inAll : α → Bool) (ps : List (Option (SubPMF α)))
    (h : ∀ p, some p ∈ ps → ∀ x y, inAll x = true → inAll y = true → mass p x = mass p y) :
    (∀ x y, inAll x = true → inAll y = true →
        mass (interFirstFit inAll ps) x = mass (interFirstFit inAll ps) y) ∧
    (∀ x, inAll x = false → mass (interFirstFit inAll ps) x = 0) := by
  induction ps with
  | nil => simp [interFirstFit, mass_nil]
  | cons o rest ih =>
    have ih' := ih (fun p hp => h p (by simp [hp]))
    cases o with
    | none => simpa [interFirstFit] using ih'
    | some p =>
      have hp := h p (by simp)
      constructor
      · intro x y hx hy
        simp only [interFirstFit, mass_append, mass_scale, mass_filter, hx, hy, if_true]
        rw [hp x y hx hy, ih'.1 x y hx hy]
      · intro x hx
        simp only [interFirstFit, mass_append, mass_scale, mass_filter, hx]
        rw [ih'.2 x hx]; simp

theorem interFirstFit_valid (inAll : α → Bool) (ps : List (Option (SubPMF α)))
    (h : ∀ p, some p ∈ ps → IsSubPMF p) : IsSubPMF (interFirstFit inAll ps) := by
  induction ps with
  | nil => simp [interFirstFit, IsSubPMF, total]
  | cons o rest ih =>
    have ih' := ih (fun p hp => h p (by simp [hp]))
    cases o with
    | none => simpa [interFirstFit] using ih'
    | some p =>
      have hp := h p (by simp)
      have hT : total (p.filter fun e => inAll e.1) ≤ 1 := le_trans (total_filter_le hp.1 _) hp.2
      have hT0 : 0 ≤ total (p.filter fun e => inAll e.1) :=
        total_nonneg (fun e he => hp.1 e (List.mem_of_mem_filter he))
      constructor
      · intro e he
        simp only [interFirstFit, List.mem_append] at he
        rcases he with he | he
        · exact hp.1 e (List.mem_of_mem_filter he)
        · simp only [scale, List.mem_map] at he
          obtain ⟨e', he', rfl⟩ := he
          exact mul_nonneg (by linarith) (ih'.1 e' he')
      · simp only [interFirstFit, total_append, total_scale]
        have := ih'.2
        have h0 := total_nonneg ih'.1
        nlinarith

/-- the first sampled operand's mass is a lower bound (full support) -/
theorem interFirstFit_ge_first (inAll : α → Bool) (p : SubPMF α) (rest : List (Option (SubPMF α)))
    (hp : IsSubPMF p) (hr : ∀ q, some q ∈ rest → IsSubPMF q) (x : α) (hx : inAll x = true) :
    mass p x ≤ mass (interFirstFit inAll (some p :: rest)) x := by
  simp only [interFirstFit, mass_append, mass_scale, mass_filter, hx, if_true]
  have hv := interFirstFit_valid inAll rest hr
  have hT : total (p.filter fun e => inAll e.1) ≤ 1 := le_trans (total_filter_le hp.1 _) hp.2
  have := mass_nonneg hv.1 x
  nlinarith [mul_nonneg (sub_nonneg.mpr hT) this]


theorem mass_map_const (l : List α) (c : Rat) (x : α) :
    mass (l.map fun y => (y, c)) x = c * (l.count x : Rat) := by
  induction l with
  | nil => simp [mass, total]
  | cons a l ih =>
    rw [List.map_cons, mass_cons, ih]
    by_cases h : a = x
    · subst h; simp; ring
    · simp [h]

theorem mass_uniformList (l : List α) (x : α) :
    mass (uniformList l) x = (l.count x : Rat) / (l.length : Rat) := by
  unfold uniformList; rw [mass_map_const]; ring

theorem mass_uniformList_nodup (l : List α) (h : l.Nodup) (x : α) :
    mass (uniformList l) x = if x ∈ l then 1 / (l.length : Rat) else 0 := by
  rw [mass_uniformList]
  by_cases hx : x ∈ l
  · simp [hx, List.Nodup.count h]
  · simp [hx, List.Nodup.count h]

theorem mass_map_mul (p : SubPMF α) (g : α → Rat) (x : α) :
    mass (p.map fun e => (e.1, e.2 * g e.1)) x = mass p x * g x := by
  induction p with
  | nil => simp [mass, total]
  | cons e p ih =>
    rw [List.map_cons, mass_cons, mass_cons, ih]
    by_cases h : e.1 = x
    · subst h; simp; ring
    · simp [h]

theorem foldl_max_const {β : Type} (d : Nat) (l : List β) : (l.map fun _ => d).foldl max d = d := by
  induction l with
  | nil => rfl
  | cons a l ih => simpa using ih

theorem sum_indicator {β : Type} (l : List β) (f : β → Bool) (k : Rat) :
    (l.map fun b => if f b then k else 0).sum = k * ((l.filter f).length : Rat) := by
  induction l with
  | nil => simp
  | cons b l ih =>
    by_cases h : f b
    · simp [h, ih]; ring
    · simp [h, ih]

theorem unionLarge_prim (d : Nat) (μ : Rat) (Rs : List (List α)) :
    unionLarge SamplerCfg.reference (Rs.map (primOperand d μ)) = Rs.map (primOperand d μ) := by
  unfold unionLarge
  have hdims : (Rs.map (primOperand d μ)).filterMap (·.dim) = Rs.map fun _ => d := by
    induction Rs with
    | nil => rfl
    | cons R Rs ih => simp [primOperand] at ih ⊢; exact ih
  rw [hdims]
  cases Rs with
  | nil => rfl
  | cons R Rs =>
    simp only [List.map_cons, listMax, foldl_max_const]
    apply List.filter_eq_self.mpr
    intro o ho
    have : o.dim = some d := by
      rcases List.mem_cons.mp ho with h | h
      · rw [h]; rfl
      · obtain ⟨R', _, rfl⟩ := List.mem_map.mp h; rfl
    simp [this, SamplerCfg.reference, CmpOp.eval]

theorem unionSampler_prim (d : Nat) (μ : Rat) (Rs : List (List α)) :
    unionSampler SamplerCfg.reference (Rs.map (primOperand d μ)) =
      some (weightedPick (Rs.map (primOperand d μ)) opSize fun o =>
        (o.sampler.getD []).map fun e =>
          (e.1, e.2 * acceptProb .invCount (containCount (Rs.map (primOperand d μ)) e.1))) := by
  unfold unionSampler
  rw [unionLarge_prim]
  have h1 : (Rs.map (primOperand d μ)).any (·.dim.isNone) = false := by
    simp [List.any_eq_false, primOperand]
  have h2 : (Rs.map (primOperand d μ)).any (·.size.isNone) = false := by
    simp [List.any_eq_false, primOperand]
  have h3 : (Rs.map (primOperand d μ)).any (·.sampler.isNone) = false := by
    simp [List.any_eq_false, primOperand]
  simp only [h1, h2, h3, SamplerCfg.reference]
  simp

theorem containCount_prim (d : Nat) (μ : Rat) (Rs : List (List α)) (x : α) :
    containCount (Rs.map (primOperand d μ)) x = (Rs.filter fun R => decide (x ∈ R)).length := by
  unfold containCount
  induction Rs with
  | nil => rfl
  | cons R Rs ih =>
    by_cases h : x ∈ R
    · simp [primOperand, h] at ih ⊢; exact ih
    · simp [primOperand, h] at ih ⊢; exact ih

theorem mass_weightedPick {β : Type} (items : List β) (w : β → Rat) (f : β → SubPMF α) (x : α) :
    mass (weightedPick items w f) x =
      (items.map fun b => w b / (items.map w).sum * mass (f b) x).sum := by
  unfold weightedPick
  rw [mass_flatMap]
  congr 1
  apply List.map_congr_left
  intro b _
  rw [mass_scale]

theorem sum_sizes_prim (d : Nat) (μ : Rat) (Rs : List (List α)) :
    ((Rs.map (primOperand d μ)).map opSize).sum = μ * ((Rs.map List.length).sum : Nat) := by
  induction Rs with
  | nil => simp
  | cons R Rs ih =>
    simp only [List.map_cons, List.sum_cons, Nat.cast_add] at ih ⊢
    rw [ih]; simp [opSize, primOperand]; ring

/-- **union, all operands of the same dimension**: every atom of the union has mass `1 / Σ|Rᵢ|`,
    whatever the overlaps and the number of operands; atoms outside have mass 0. -/
theorem union_mass (d : Nat) (μ : Rat) (hμ : 0 < μ) (Rs : List (List α)) (hnd : ∀ R ∈ Rs, R.Nodup) (x : α) :
    ∃ p, unionSampler SamplerCfg.reference (Rs.map (primOperand d μ)) = some p ∧
      mass p x = if (∃ R ∈ Rs, x ∈ R) then 1 / (((Rs.map List.length).sum : Nat) : Rat) else 0 := by
  refine ⟨_, unionSampler_prim d μ Rs, ?_⟩
  rw [mass_weightedPick, sum_sizes_prim, List.map_map]
  set N : Nat := (Rs.map List.length).sum with hN
  set c : Nat := (Rs.filter fun R => decide (x ∈ R)).length with hc
  have hterm : ∀ R ∈ Rs,
      ((fun o : Operand α => opSize o / (μ * (N : Rat)) *
        mass ((o.sampler.getD []).map fun e =>
          (e.1, e.2 * acceptProb .invCount (containCount (Rs.map (primOperand d μ)) e.1))) x) ∘
        primOperand d μ) R
      = if decide (x ∈ R) then (1 / (N : Rat)) * acceptProb .invCount c else 0 := by
    intro R hR
    simp only [Function.comp]
    rw [mass_map_mul _ (fun y => acceptProb .invCount (containCount (Rs.map (primOperand d μ)) y)) x,
      containCount_prim, ← hc]
    simp only [primOperand, Option.getD_some, opSize]
    rw [mass_uniformList_nodup R (hnd R hR)]
    by_cases hx : x ∈ R
    · have hlen : (R.length : Rat) ≠ 0 := by
        have : 0 < R.length := List.length_pos_of_mem hx
        exact_mod_cast this.ne'
      simp only [hx, if_true, decide_true]
      field_simp
    · simp [hx]
  rw [List.map_congr_left hterm, sum_indicator]
  by_cases hex : ∃ R ∈ Rs, x ∈ R
  · simp only [hex, if_true]
    have hcpos : 0 < c := by
      obtain ⟨R, hR, hx⟩ := hex
      rw [hc]; apply List.length_pos_of_mem (a := R)
      simp [hR, hx]
    have hc0 : (c : Rat) ≠ 0 := by exact_mod_cast hcpos.ne'
    simp only [acceptProb, hcpos.ne', if_false]
    rw [← hc]
    field_simp
  · simp only [hex, if_false]
    have : c = 0 := by
      rw [hc, List.length_eq_zero_iff, List.filter_eq_nil_iff]
      intro R hR; simp; exact fun hx => hex ⟨R, hR, hx⟩
    rw [← hc, this]; simp [acceptProb]



theorem sum_map_mul_const {β : Type} (l : List β) (g : β → Rat) (k : Rat) :
    (l.map fun a => g a * k).sum = (l.map g).sum * k := by
  induction l with
  | nil => simp
  | cons a l ih => simp only [List.map_cons, List.sum_cons, ih]; ring

/-- mass of `weightedPick` over uniform lists with weights proportional to their lengths:
    (multiplicity of the atom over all lists) / (total number of atoms) -/
theorem mass_weightedPick_uniform (μ : Rat) (hμ : μ ≠ 0) (segs : List (List α)) (x : α) :
    mass (weightedPick segs (fun s => μ * (s.length : Rat)) uniformList) x =
      ((segs.map fun s => (s.count x : Rat)).sum) / (((segs.map List.length).sum : Nat) : Rat) := by
  rw [mass_weightedPick]
  have hW : (segs.map fun s => μ * (s.length : Rat)).sum = μ * (((segs.map List.length).sum : Nat) : Rat) := by
    induction segs with
    | nil => simp
    | cons s segs ih => simp only [List.map_cons, List.sum_cons, Nat.cast_add] at ih ⊢; rw [ih]; ring
  rw [hW]
  set N : Rat := (((segs.map List.length).sum : Nat) : Rat)
  have hterm : ∀ s ∈ segs, μ * (s.length : Rat) / (μ * N) * mass (uniformList s) x = (s.count x : Rat) * (1 / N) := by
    intro s _
    rw [mass_uniformList]
    by_cases hl : s.length = 0
    · have : s = [] := List.length_eq_zero_iff.mp hl
      subst this; simp
    · have hl' : (s.length : Rat) ≠ 0 := by exact_mod_cast hl
      by_cases hN : N = 0
      · simp [hN]
      · field_simp
  rw [List.map_congr_left hterm, sum_map_mul_const]
  ring

/-- difference: the sample of `A` is kept exactly when `B` does not contain it -/
theorem mass_diffSampler (a b : Operand α) (p : SubPMF α) (h : a.sampler = some p) (x : α) :
    ∃ q, diffSampler SamplerCfg.reference a b = some q ∧
      mass q x = if b.contains x then 0 else mass p x := by
  refine ⟨p.filter fun e => !b.contains e.1, ?_, ?_⟩
  · simp [diffSampler, h, SamplerCfg.reference]
  · rw [mass_filter (fun y => !b.contains y)]
    cases b.contains x <;> simp

theorem mass_ballSampler (points : List α) (inBall contains : α → Bool) (x : α) :
    mass (ballSampler points inBall contains) x =
      mass (uniformList (points.filter fun p => inBall p && contains p)) x := by
  simp [ballSampler, List.filter_filter, Bool.and_comm]

/-- geometric factor of the truncated rejection loop -/
def geom (q : Rat) : Nat → Rat
  | 0 => 0
  | n + 1 => 1 + (1 - q) * geom q n

theorem geom_closed (q : Rat) (n : Nat) : q * geom q n = 1 - (1 - q) ^ n := by
  induction n with
  | zero => simp [geom]
  | succ n ih =>
    simp only [geom, pow_succ]
    have h2 : q * (1 + (1 - q) * geom q n) = q + (1 - q) * (q * geom q n) := by ring
    rw [h2, ih]; ring

theorem total_uniformList_filter (box : List α) (f : α → Bool) :
    total ((uniformList box).filter fun e => f e.1) = ((box.filter f).length : Rat) / (box.length : Rat) := by
  unfold uniformList
  have : ∀ (c : Rat) (l : List α), total ((l.map fun x => (x, c)).filter fun e => f e.1) = c * ((l.filter f).length : Rat) := by
    intro c l
    induction l with
    | nil => simp [total]
    | cons a l ih =>
      by_cases h : f a
      · simp only [List.map_cons, h, List.filter_cons_of_pos, total_cons, ih, List.length_cons, Nat.cast_add, Nat.cast_one]; ring
      · simp [h, ih]
  rw [this]; ring


/-- one more round of the rejection loop -/
theorem mass_rejectionLoop (box : List α) (inTri : α → Bool) (n : Nat) (x : α) :
    mass (rejectionLoop box inTri n) x =
      geom (((box.filter inTri).length : Rat) / (box.length : Rat)) n *
        (if inTri x then mass (uniformList box) x else 0) := by
  induction n with
  | zero => simp [rejectionLoop, geom, mass_nil]
  | succ n ih =>
    simp only [rejectionLoop, mass_append, mass_scale, total_uniformList_filter, ih, geom]
    rw [mass_filter inTri]
    ring


theorem foldl_max_le (d : Nat) (l : List Nat) (h : ∀ e ∈ l, e ≤ d) : l.foldl max d = d := by
  induction l with
  | nil => rfl
  | cons a l ih =>
    have ha : a ≤ d := h a (by simp)
    simp only [List.foldl_cons, Nat.max_eq_left ha]
    exact ih (fun e he => h e (by simp [he]))

/-- core of the union computation: only the containment count at `x` matters -/
theorem union_mass_core (d : Nat) (μ : Rat) (hμ : 0 < μ) (Rs : List (List α)) (hnd : ∀ R ∈ Rs, R.Nodup)
    (ops : List (Operand α)) (x : α)
    (hcount : containCount ops x = (Rs.filter fun R => decide (x ∈ R)).length) :
    mass (weightedPick (Rs.map (primOperand d μ)) opSize fun o =>
      (o.sampler.getD []).map fun e => (e.1, e.2 * acceptProb .invCount (containCount ops e.1))) x
      = if (∃ R ∈ Rs, x ∈ R) then 1 / (((Rs.map List.length).sum : Nat) : Rat) else 0 := by
  rw [mass_weightedPick, sum_sizes_prim, List.map_map]
  set N : Nat := (Rs.map List.length).sum with hN
  set c : Nat := (Rs.filter fun R => decide (x ∈ R)).length with hc
  have hterm : ∀ R ∈ Rs,
      ((fun o : Operand α => opSize o / (μ * (N : Rat)) *
        mass ((o.sampler.getD []).map fun e =>
          (e.1, e.2 * acceptProb .invCount (containCount ops e.1))) x) ∘
        primOperand d μ) R
      = if decide (x ∈ R) then (1 / (N : Rat)) * acceptProb .invCount c else 0 := by
    intro R hR
    simp only [Function.comp]
    rw [mass_map_mul _ (fun y => acceptProb .invCount (containCount ops y)) x, hcount]
    simp only [primOperand, Option.getD_some, opSize]
    rw [mass_uniformList_nodup R (hnd R hR)]
    by_cases hx : x ∈ R
    · have hlen : (R.length : Rat) ≠ 0 := by
        have : 0 < R.length := List.length_pos_of_mem hx
        exact_mod_cast this.ne'
      simp only [hx, if_true, decide_true]
      field_simp
    · simp [hx]
  rw [List.map_congr_left hterm, sum_indicator]
  by_cases hex : ∃ R ∈ Rs, x ∈ R
  · simp only [hex, if_true]
    have hcpos : 0 < c := by
      obtain ⟨R, hR, hx⟩ := hex
      rw [hc]; apply List.length_pos_of_mem (a := R)
      simp [hR, hx]
    have hc0 : (c : Rat) ≠ 0 := by exact_mod_cast hcpos.ne'
    simp only [acceptProb, hcpos.ne', if_false]
    rw [← hc]
    field_simp
  · simp only [hex, if_false]
    have : c = 0 := by
      rw [hc, List.length_eq_zero_iff, List.filter_eq_nil_iff]
      intro R hR; simp; exact fun hx => hex ⟨R, hR, hx⟩
    rw [← hc, this]; simp [acceptProb]

/-- lower-dimensional operands are not sampled (they only enter the containment count) -/
theorem unionSampler_mixed (d : Nat) (μ : Rat) (R : List α) (Rs : List (List α)) (smalls : List (Operand α))
    (hsm : ∀ o ∈ smalls, ∃ e, o.dim = some e ∧ e < d) :
    unionSampler SamplerCfg.reference ((R :: Rs).map (primOperand d μ) ++ smalls) =
      some (weightedPick ((R :: Rs).map (primOperand d μ)) opSize fun o =>
        (o.sampler.getD []).map fun e =>
          (e.1, e.2 * acceptProb .invCount (containCount ((R :: Rs).map (primOperand d μ) ++ smalls) e.1))) := by
  have hlarge : unionLarge SamplerCfg.reference ((R :: Rs).map (primOperand d μ) ++ smalls)
      = (R :: Rs).map (primOperand d μ) := by
    unfold unionLarge
    have hdims : ((R :: Rs).map (primOperand d μ) ++ smalls).filterMap (·.dim)
        = d :: ((Rs.map fun _ => d) ++ smalls.filterMap (·.dim)) := by
      rw [List.filterMap_append]
      have : ((R :: Rs).map (primOperand d μ)).filterMap (·.dim) = d :: Rs.map fun _ => d := by
        simp only [List.map_cons, List.filterMap_cons, primOperand]
        congr 1
        induction Rs with
        | nil => rfl
        | cons S L ih => simp [primOperand] at ih ⊢; exact ih
      rw [this]; rfl
    rw [hdims]
    have hmax : listMax (d :: ((Rs.map fun _ => d) ++ smalls.filterMap (·.dim))) = some d := by
      simp only [listMax]
      congr 1
      apply foldl_max_le
      intro e he
      rcases List.mem_append.mp he with h | h
      · obtain ⟨_, _, rfl⟩ := List.mem_map.mp h; exact Nat.le_refl _
      · obtain ⟨o, ho, hoe⟩ := List.mem_filterMap.mp h
        obtain ⟨e', he', hlt⟩ := hsm o ho
        rw [he'] at hoe; cases hoe; exact Nat.le_of_lt hlt
    rw [hmax]
    show List.filter _ _ = _
    rw [List.filter_append]
    rw [List.filter_eq_self.mpr, List.filter_eq_nil_iff.mpr, List.append_nil]
    · intro o ho
      obtain ⟨e, he, hlt⟩ := hsm o ho
      simp [he, SamplerCfg.reference, CmpOp.eval]; omega
    · intro o ho
      obtain ⟨S, _, rfl⟩ := List.mem_map.mp ho
      simp [primOperand, SamplerCfg.reference, CmpOp.eval]
  unfold unionSampler
  rw [hlarge]
  have h1 : ((R :: Rs).map (primOperand d μ) ++ smalls).any (·.dim.isNone) = false := by
    rw [List.any_append]
    have : smalls.any (·.dim.isNone) = false := by
      apply List.any_eq_false.mpr
      intro o ho
      obtain ⟨e, he, _⟩ := hsm o ho
      simp [he]
    simp [List.any_eq_false, primOperand, this]
  have h2 : ((R :: Rs).map (primOperand d μ)).any (·.size.isNone) = false := by
    simp [List.any_eq_false, primOperand]
  have h3 : ((R :: Rs).map (primOperand d μ)).any (·.sampler.isNone) = false := by
    simp [List.any_eq_false, primOperand]
  simp only [h1, h2, h3, SamplerCfg.reference]
  simp


end Scenic.RegionSampling
