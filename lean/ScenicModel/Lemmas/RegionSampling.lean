import ScenicModel.Model.RegionSampling
import Mathlib.Tactic.Linarith
import Mathlib.Tactic.Ring
import Mathlib.Tactic.NormNum
import Mathlib.Tactic.FieldSimp
import Mathlib.Algebra.Order.Field.Rat
import Mathlib.Algebra.BigOperators.Group.List.Basic

namespace Scenic.RegionSampling
set_option linter.unusedSectionVars false
set_option linter.unnecessarySeqFocus false
variable {α : Type} [DecidableEq α]

theorem total_nil : total ([] : SubPMF α) = 0 := rfl

theorem total_cons (e : α × Rat) (p : SubPMF α) : total (e :: p) = e.2 + total p := by
  simp [total]

theorem total_append (p q : SubPMF α) : total (p ++ q) = total p + total q := by
  simp [total, List.sum_append]

theorem total_scale (c : Rat) (p : SubPMF α) : total (scale c p) = c * total p := by
  induction p with
  | nil => simp [total, scale]
  | cons e p ih =>
    simp only [scale, List.map_cons, total_cons] at *
    rw [ih]; ring

theorem mass_nil (x : α) : mass ([] : SubPMF α) x = 0 := rfl

theorem mass_cons (e : α × Rat) (p : SubPMF α) (x : α) :
    mass (e :: p) x = (if e.1 = x then e.2 else 0) + mass p x := by
  unfold mass
  by_cases h : e.1 = x
  · simp [h, total_cons]
  · simp [h]

theorem mass_append (p q : SubPMF α) (x : α) : mass (p ++ q) x = mass p x + mass q x := by
  simp [mass, List.filter_append, total_append]

theorem mass_scale (c : Rat) (p : SubPMF α) (x : α) : mass (scale c p) x = c * mass p x := by
  induction p with
  | nil => simp [mass, scale, total]
  | cons e p ih =>
    have : scale c (e :: p) = (e.1, c * e.2) :: scale c p := rfl
    rw [this, mass_cons, mass_cons, ih]
    by_cases h : e.1 = x <;> simp [h] <;> ring

theorem mass_filter (f : α → Bool) (p : SubPMF α) (x : α) :
    mass (p.filter fun e => f e.1) x = if f x then mass p x else 0 := by
  induction p with
  | nil => simp [mass, total]
  | cons e p ih =>
    by_cases hf : f e.1
    · rw [List.filter_cons_of_pos (by simpa using hf), mass_cons, mass_cons, ih]
      by_cases h : e.1 = x
      · subst h; simp [hf]
      · simp [h]
    · rw [List.filter_cons_of_neg (by simpa using hf), mass_cons, ih]
      by_cases h : e.1 = x
      · subst h; simp [hf]
      · simp [h]

theorem mass_flatMap {β : Type} (l : List β) (f : β → SubPMF α) (x : α) :
    mass (l.flatMap f) x = (l.map fun b => mass (f b) x).sum := by
  induction l with
  | nil => simp [mass, total]
  | cons b l ih => simp [List.flatMap_cons, mass_append, ih]

end Scenic.RegionSampling
