import ScenicModel.Model.RegionSampling
import Mathlib.Tactic.Linarith
import Mathlib.Tactic.Ring
import Mathlib.Tactic.NormNum
import Mathlib.Tactic.FieldSimp
import Mathlib.Algebra.Order.Field.Rat
import Mathlib.Algebra.BigOperators.Group.List.Basic

namespace Scenic.RegionSampling
set_option linter.unusedSectionVars false
set_option linter.unnecessarySeqFocus false
variable {α : Type} [DecidableEq α]

theorem total_nil : total ([] : SubPMF α) = 0 := rfl

theorem total_cons (e : α × Rat) (p : SubPMF α) : total (e :: p) = e.2 + total p := by
  simp [total]

theorem total_append (p q : SubPMF α) : total (p ++ q) = total p + total q := by
  simp [total, List.sum_append]

theorem total_scale (c : Rat) (p : SubPMF α) : total (scale c p) = c * total p := by
  induction p with
  | nil => simp [total, scale]
  | cons e p ih =>
    simp only [scale, List.map_cons, total_cons] at *
    rw [ih]; ring

theorem mass_nil (x : α) : mass ([] : SubPMF α) x = 0 := rfl

theorem mass_cons (e : α × Rat) (p : SubPMF α) (x : α) :
    mass (e :: p) x = (if e.1 = x then e.2 else 0) + mass p x := by
  unfold mass
  by_cases h : e.1 = x
  · simp [h, total_cons]
  · simp [h]

theorem mass_append (p q : SubPMF α) (x : α) : mass (p ++ q) x = mass p x + mass q x := by
  simp [mass, List.filter_append, total_append]

theorem mass_scale (c : Rat) (p : SubPMF α) (x : α) : mass (scale c p) x = c * mass p x := by
  induction p with
  | nil => simp [mass, scale, total]
  | cons e p ih =>
    have : scale c (e :: p) = (e.1, c * e.2) :: scale c p := rfl
    rw [this, mass_cons, mass_cons, ih]
    by_cases h : e.1 = x <;> simp [h] <;> ring

theorem mass_filter (f : α → Bool) (p : SubPMF α) (x : α) :
    mass (p.filter fun e => f e.1) x = if f x then mass p x else 0 := by
  induction p with
  | nil => simp [mass, total]
  | cons e p ih =>
    by_cases hf : f e.1
    · rw [List.filter_cons_of_pos (by simpa using hf), mass_cons, mass_cons, ih]
      by_cases h : e.1 = x
      · subst h; simp [hf]
      · simp [h]
    · rw [List.filter_cons_of_neg (by simpa using hf), mass_cons, ih]
      by_cases h : e.1 = x
      · subst h; simp [hf]
      · simp [h]

theorem mass_flatMap {β : Type} (l : List β) (f : β → SubPMF α) (x : α) :
    mass (l.flatMap f) x = (l.map fun b => mass (f b) x).sum := by
  induction l with
  | nil => simp [mass, total]
  | cons b l ih => simp [List.flatMap_cons, mass_append, ih]


/-- a genuine sub-probability mass list -/
def IsSubPMF (p : SubPMF α) : Prop := (∀ e ∈ p, 0 ≤ e.2) ∧ total p ≤ 1

theorem total_nonneg {p : SubPMF α} (h : ∀ e ∈ p, 0 ≤ e.2) : 0 ≤ total p := by
  induction p with
  | nil => simp [total]
  | cons e p ih =>
    rw [total_cons]
    have h1 := h e (by simp)
    have h2 := ih (fun e' he' => h e' (by simp [he']))
    linarith

theorem total_filter_le {p : SubPMF α} (h : ∀ e ∈ p, 0 ≤ e.2) (f : α × Rat → Bool) :
    total (p.filter f) ≤ total p := by
  induction p with
  | nil => simp [total]
  | cons e p ih =>
    have h1 := h e (by simp)
    have h2 := ih (fun e' he' => h e' (by simp [he']))
    by_cases hf : f e
    · rw [List.filter_cons_of_pos hf, total_cons, total_cons]; linarith
    · rw [List.filter_cons_of_neg hf, total_cons]; linarith

theorem mass_nonneg {p : SubPMF α} (h : ∀ e ∈ p, 0 ≤ e.2) (x : α) : 0 ≤ mass p x := by
  unfold mass
  apply total_nonneg
  intro e he
  exact h e (List.mem_of_mem_filter he)

theorem mass_le_total {p : SubPMF α} (h : ∀ e ∈ p, 0 ≤ e.2) (x : α) : mass p x ≤ total p :=
  total_filter_le h _

theorem interSampler_reference (ops : List (Operand α)) :
    interSampler SamplerCfg.reference ops =
      if (interSamplingRegions SamplerCfg.reference ops).all (·.sampler.isNone) then none
      else some (interFirstFit (fun x => ops.all (·.contains x))
        ((interSamplingRegions SamplerCfg.reference ops).map (·.sampler))) := by
  simp [interSampler, SamplerCfg.reference]

/-- first-fit loop: uniformity is inherited -/
theorem interFirstFit_uniform (inAll : α → Bool) (ps : List (Option (SubPMF α)))
    (h : ∀ p, some p ∈ ps → ∀ x y, inAll x = true → inAll y = true → mass p x = mass p y) :
    (∀ x y, inAll x = true → inAll y = true →
        mass (interFirstFit inAll ps) x = mass (interFirstFit inAll ps) y) ∧
    (∀ x, inAll x = false → mass (interFirstFit inAll ps) x = 0) := by
  induction ps with
  | nil => simp [interFirstFit, mass_nil]
  | cons o rest ih =>
    have ih' := ih (fun p hp => h p (by simp [hp]))
    cases o with
    | none => simpa [interFirstFit] using ih'
    | some p =>
      have hp := h p (by simp)
      constructor
      · intro x y hx hy
        simp only [interFirstFit, mass_append, mass_scale, mass_filter, hx, hy, if_true]
        rw [hp x y hx hy, ih'.1 x y hx hy]
      · intro x hx
        simp only [interFirstFit, mass_append, mass_scale, mass_filter, hx]
        rw [ih'.2 x hx]; simp

theorem interFirstFit_valid (inAll : α → Bool) (ps : List (Option (SubPMF α)))
    (h : ∀ p, some p ∈ ps → IsSubPMF p) : IsSubPMF (interFirstFit inAll ps) := by
  induction ps with
  | nil => simp [interFirstFit, IsSubPMF, total]
  | cons o rest ih =>
    have ih' := ih (fun p hp => h p (by simp [hp]))
    cases o with
    | none => simpa [interFirstFit] using ih'
    | some p =>
      have hp := h p (by simp)
      have hT : total (p.filter fun e => inAll e.1) ≤ 1 := le_trans (total_filter_le hp.1 _) hp.2
      have hT0 : 0 ≤ total (p.filter fun e => inAll e.1) :=
        total_nonneg (fun e he => hp.1 e (List.mem_of_mem_filter he))
      constructor
      · intro e he
        simp only [interFirstFit, List.mem_append] at he
        rcases he with he | he
        · exact hp.1 e (List.mem_of_mem_filter he)
        · simp only [scale, List.mem_map] at he
          obtain ⟨e', he', rfl⟩ := he
          exact mul_nonneg (by linarith) (ih'.1 e' he')
      · simp only [interFirstFit, total_append, total_scale]
        have := ih'.2
        have h0 := total_nonneg ih'.1
        nlinarith

/-- the first sampled operand's mass is a lower bound (full support) -/
theorem interFirstFit_ge_first (inAll : α → Bool) (p : SubPMF α) (rest : List (Option (SubPMF α)))
    (hp : IsSubPMF p) (hr : ∀ q, some q ∈ rest → IsSubPMF q) (x : α) (hx : inAll x = true) :
    mass p x ≤ mass (interFirstFit inAll (some p :: rest)) x := by
  simp only [interFirstFit, mass_append, mass_scale, mass_filter, hx, if_true]
  have hv := interFirstFit_valid inAll rest hr
  have hT : total (p.filter fun e => inAll e.1) ≤ 1 := le_trans (total_filter_le hp.1 _) hp.2
  have := mass_nonneg hv.1 x
  nlinarith [mul_nonneg (sub_nonneg.mpr hT) this]


theorem mass_map_const (l : List α) (c : Rat) (x : α) :
    mass (l.map fun y => (y, c)) x = c * (l.count x : Rat) := by
  induction l with
  | nil => simp [mass, total]
  | cons a l ih =>
    rw [List.map_cons, mass_cons, ih]
    by_cases h : a = x
    · subst h; simp; ring
    · simp [h]

theorem mass_uniformList (l : List α) (x : α) :
    mass (uniformList l) x = (l.count x : Rat) / (l.length : Rat) := by
  unfold uniformList; rw [mass_map_const]; ring

theorem mass_uniformList_nodup (l : List α) (h : l.Nodup) (x : α) :
    mass (uniformList l) x = if x ∈ l then 1 / (l.length : Rat) else 0 := by
  rw [mass_uniformList]
  by_cases hx : x ∈ l
  · simp [hx, List.Nodup.count h]
  · simp [hx, List.Nodup.count h]

theorem mass_map_mul (p : SubPMF α) (g : α → Rat) (x : α) :
    mass (p.map fun e => (e.1, e.2 * g e.1)) x = mass p x * g x := by
  induction p with
  | nil => simp [mass, total]
  | cons e p ih =>
    rw [List.map_cons, mass_cons, mass_cons, ih]
    by_cases h : e.1 = x
    · subst h; simp; ring
    · simp [h]

theorem foldl_max_const {β : Type} (d : Nat) (l : List β) : (l.map fun _ => d).foldl max d = d := by
  induction l with
  | nil => rfl
  | cons a l ih => simpa using ih

theorem sum_indicator {β : Type} (l : List β) (f : β → Bool) (k : Rat) :
    (l.map fun b => if f b then k else 0).sum = k * ((l.filter f).length : Rat) := by
  induction l with
  | nil => simp
  | cons b l ih =>
    by_cases h : f b
    · simp [h, ih]; ring
    · simp [h, ih]

theorem mass_weightedPick {β : Type} (items : List β) (w : β → Rat) (f : β → SubPMF α) (x : α) :
    mass (weightedPick items w f) x =
      (items.map fun b => w b / (items.map w).sum * mass (f b) x).sum := by
  unfold weightedPick
  rw [mass_flatMap]
  congr 1
  apply List.map_congr_left
  intro b _
  rw [mass_scale]

theorem sum_map_mul_const {β : Type} (l : List β) (g : β → Rat) (k : Rat) :
    (l.map fun a => g a * k).sum = (l.map g).sum * k := by
  induction l with
  | nil => simp
  | cons a l ih => simp only [List.map_cons, List.sum_cons, ih]; ring

/-- mass of `weightedPick` over uniform lists with weights proportional to their lengths:
    (multiplicity of the atom over all lists) / (total number of atoms) -/
theorem mass_weightedPick_uniform (μ : Rat) (hμ : μ ≠ 0) (segs : List (List α)) (x : α) :
    mass (weightedPick segs (fun s => μ * (s.length : Rat)) uniformList) x =
      ((segs.map fun s => (s.count x : Rat)).sum) / (((segs.map List.length).sum : Nat) : Rat) := by
  rw [mass_weightedPick]
  have hW : (segs.map fun s => μ * (s.length : Rat)).sum = μ * (((segs.map List.length).sum : Nat) : Rat) := by
    induction segs with
    | nil => simp
    | cons s segs ih => simp only [List.map_cons, List.sum_cons, Nat.cast_add] at ih ⊢; rw [ih]; ring
  rw [hW]
  set N : Rat := (((segs.map List.length).sum : Nat) : Rat)
  have hterm : ∀ s ∈ segs, μ * (s.length : Rat) / (μ * N) * mass (uniformList s) x = (s.count x : Rat) * (1 / N) := by
    intro s _
    rw [mass_uniformList]
    by_cases hl : s.length = 0
    · have : s = [] := List.length_eq_zero_iff.mp hl
      subst this; simp
    · have hl' : (s.length : Rat) ≠ 0 := by exact_mod_cast hl
      by_cases hN : N = 0
      · simp [hN]
      · field_simp
  rw [List.map_congr_left hterm, sum_map_mul_const]
  ring

/-- difference: the sample of `A` is kept exactly when `B` does not contain it -/
theorem mass_diffSampler (a b : Operand α) (p : SubPMF α) (h : a.sampler = some p) (x : α) :
    ∃ q, diffSampler SamplerCfg.reference a b = some q ∧
      mass q x = if b.contains x then 0 else mass p x := by
  refine ⟨p.filter fun e => !b.contains e.1, ?_, ?_⟩
  · simp [diffSampler, h, SamplerCfg.reference]
  · rw [mass_filter (fun y => !b.contains y)]
    cases b.contains x <;> simp

theorem mass_ballSampler (points : List α) (inBall contains : α → Bool) (x : α) :
    mass (ballSampler points inBall contains) x =
      mass (uniformList (points.filter fun p => inBall p && contains p)) x := by
  simp [ballSampler, List.filter_filter, Bool.and_comm]

/-- geometric factor of the truncated rejection loop -/
def geom (q : Rat) : Nat → Rat
  | 0 => 0
  | n + 1 => 1 + (1 - q) * geom q n

theorem geom_closed (q : Rat) (n : Nat) : q * geom q n = 1 - (1 - q) ^ n := by
  induction n with
  | zero => simp [geom]
  | succ n ih =>
    simp only [geom, pow_succ]
    have h2 : q * (1 + (1 - q) * geom q n) = q + (1 - q) * (q * geom q n) := by ring
    rw [h2, ih]; ring

theorem total_uniformList_filter (box : List α) (f : α → Bool) :
    total ((uniformList box).filter fun e => f e.1) = ((box.filter f).length : Rat) / (box.length : Rat) := by
  unfold uniformList
  have : ∀ (c : Rat) (l : List α), total ((l.map fun x => (x, c)).filter fun e => f e.1) = c * ((l.filter f).length : Rat) := by
    intro c l
    induction l with
    | nil => simp [total]
    | cons a l ih =>
      by_cases h : f a
      · simp only [List.map_cons, h, List.filter_cons_of_pos, total_cons, ih, List.length_cons, Nat.cast_add, Nat.cast_one]; ring
      · simp [h, ih]
  rw [this]; ring


/-- one more round of the rejection loop -/
theorem mass_rejectionLoop (box : List α) (inTri : α → Bool) (n : Nat) (x : α) :
    mass (rejectionLoop box inTri n) x =
      geom (((box.filter inTri).length : Rat) / (box.length : Rat)) n *
        (if inTri x then mass (uniformList box) x else 0) := by
  induction n with
  | zero => simp [rejectionLoop, geom, mass_nil]
  | succ n ih =>
    simp only [rejectionLoop, mass_append, mass_scale, total_uniformList_filter, ih, geom]
    rw [mass_filter inTri]
    ring



theorem foldl_max_le (d : Nat) (l : List Nat) (h : ∀ e ∈ l, e ≤ d) : l.foldl max d = d := by
  induction l with
  | nil => rfl
  | cons a l ih =>
    have ha : a ≤ d := h a (by simp)
    simp only [List.foldl_cons, Nat.max_eq_left ha]
    exact ih (fun e he => h e (by simp [he]))

theorem containCount_prim (d : Nat) (μ : Rat) (Rs : List (List α)) (x : α) :
    containCount (Rs.map (primOperand d μ)) x = (Rs.filter fun R => decide (x ∈ R)).length := by
  unfold containCount
  induction Rs with
  | nil => rfl
  | cons R Rs ih =>
    by_cases h : x ∈ R
    · simp [primOperand, h] at ih ⊢; exact ih
    · simp [primOperand, h] at ih ⊢; exact ih

theorem sum_sizes_prim (d : Nat) (μ : Rat) (Rs : List (List α)) :
    ((Rs.map (primOperand d μ)).map opSize).sum = μ * ((Rs.map List.length).sum : Nat) := by
  induction Rs with
  | nil => simp
  | cons R Rs ih =>
    simp only [List.map_cons, List.sum_cons, Nat.cast_add] at ih ⊢
    rw [ih]; simp [opSize, primOperand]; ring

/-! ### positions: filters over `zipIdx` -/

theorem length_filter_zipIdx_fst {β : Type} (l : List β) (p : β → Bool) (n : Nat) :
    ((l.zipIdx n).filter fun bj => p bj.1).length = (l.filter p).length := by
  induction l generalizing n with
  | nil => rfl
  | cons a l ih =>
    rw [List.zipIdx_cons]
    by_cases h : p a
    · simp [h, ih]
    · simp [h, ih]

/-- skipping a position that is not in the range of the indices changes nothing -/
theorem length_filter_zipIdx_noskip {β : Type} (l : List β) (p : β → Bool) (n m : Nat) (hm : m < n) :
    ((l.zipIdx n).filter fun bj => !(m == bj.2) && p bj.1).length = (l.filter p).length := by
  induction l generalizing n with
  | nil => rfl
  | cons a l ih =>
    rw [List.zipIdx_cons]
    have hne : (m == n) = false := by simp; omega
    by_cases h : p a
    · simp [h, hne, ih (n + 1) (by omega)]
    · simp [h, ih (n + 1) (by omega)]

/-- `1 + sum(... for reg in regs if reg is not target_reg)` equals `sum(... for reg in regs)` as soon as the
    drawn region recognises the point -/
theorem length_filter_zipIdx_skip {β : Type} (l : List β) (p : β → Bool) (n i : Nat) (b : β)
    (hb : l[i]? = some b) (hp : p b = true) :
    1 + ((l.zipIdx n).filter fun bj => !(i + n == bj.2) && p bj.1).length = (l.filter p).length := by
  induction l generalizing n i with
  | nil => simp at hb
  | cons a l ih =>
    rw [List.zipIdx_cons]
    cases i with
    | zero =>
      simp only [List.getElem?_cons_zero, Option.some.injEq] at hb
      subst hb
      have := length_filter_zipIdx_noskip l p (n + 1) n (by omega)
      simp only [Nat.zero_add] at this ⊢
      simp [hp, this]; omega
    | succ k =>
      simp only [List.getElem?_cons_succ] at hb
      have ih' := ih (n + 1) k hb
      have e : k + (n + 1) = k + 1 + n := by omega
      rw [e] at ih'
      have hne : (k + 1 + n == n) = false := by simp
      by_cases h : p a
      · simp [h, hne] at ih' ⊢; omega
      · simp [h] at ih' ⊢; omega

theorem sum_zipIdx_fst {β : Type} (l : List β) (g : β → Rat) (n : Nat) :
    ((l.zipIdx n).map fun bj => g bj.1).sum = (l.map g).sum := by
  have : ((l.zipIdx n).map fun bj => g bj.1) = ((l.zipIdx n).map Prod.fst).map g := by
    rw [List.map_map]; rfl
  rw [this, List.zipIdx_map_fst]

/-! ### UnionRegion.genericSampler -/

theorem unionCountAt_reference (scope : List (Operand α × Nat)) (same : Nat → Nat → Bool) (i : Nat) (x : α) :
    unionCountAt SamplerCfg.reference scope same i x =
      1 + (scope.filter fun oj => !same i oj.2 && oj.1.contains x).length := rfl

/-- with the drawn region counted by construction the count is never zero -/
theorem unionCountAt_reference_pos (scope : List (Operand α × Nat)) (same : Nat → Nat → Bool) (i : Nat) (x : α) :
    0 < unionCountAt SamplerCfg.reference scope same i x := by
  rw [unionCountAt_reference]; omega

/-- … and equals the plain containment count as soon as the drawn region recognises its sample -/
theorem unionCountAt_eq_containCount (ops : List (Operand α)) (i : Nat) (o : Operand α) (x : α)
    (ho : ops[i]? = some o) (hx : o.contains x = true) :
    unionCountAt SamplerCfg.reference ops.zipIdx (fun i j => i == j) i x = containCount ops x := by
  rw [unionCountAt_reference]
  have := length_filter_zipIdx_skip ops (fun o => o.contains x) 0 i o ho hx
  simpa [containCount] using this

theorem unionLargeIdx_prim (d : Nat) (μ : Rat) (Rs : List (List α)) :
    unionLargeIdx SamplerCfg.reference (Rs.map (primOperand d μ)) = (Rs.map (primOperand d μ)).zipIdx := by
  unfold unionLargeIdx
  have hdims : (Rs.map (primOperand d μ)).filterMap (·.dim) = Rs.map fun _ => d := by
    induction Rs with
    | nil => rfl
    | cons R Rs ih => simp [primOperand] at ih ⊢; exact ih
  rw [hdims]
  cases Rs with
  | nil => rfl
  | cons R Rs =>
    simp only [List.map_cons, listMax, foldl_max_const]
    apply List.filter_eq_self.mpr
    intro oi hoi
    have hmem : oi.1 ∈ primOperand d μ R :: Rs.map (primOperand d μ) :=
      List.mem_of_getElem? (List.mem_zipIdx_iff_getElem?.mp hoi)
    have : oi.1.dim = some d := by
      rcases List.mem_cons.mp hmem with h | h
      · rw [h]; rfl
      · obtain ⟨R', _, h'⟩ := List.mem_map.mp h; rw [← h']; rfl
    simp [isLarge, this, SamplerCfg.reference, CmpOp.eval]

theorem unionSampler_prim (d : Nat) (μ : Rat) (Rs : List (List α)) :
    unionSampler SamplerCfg.reference (Rs.map (primOperand d μ)) =
      some (weightedPick (Rs.map (primOperand d μ)).zipIdx (fun oi => opSize oi.1) fun oi =>
        (oi.1.sampler.getD []).map fun e =>
          (e.1, e.2 * acceptProb .invCount
            (unionCountAt SamplerCfg.reference (Rs.map (primOperand d μ)).zipIdx (fun i j => i == j) oi.2 e.1))) := by
  unfold unionSampler
  rw [unionLargeIdx_prim]
  have hmem : ∀ oi ∈ (Rs.map (primOperand d μ)).zipIdx, ∃ R, oi.1 = primOperand d μ R := by
    intro oi hoi
    obtain ⟨R, _, h⟩ := List.mem_map.mp (List.mem_of_getElem? (List.mem_zipIdx_iff_getElem?.mp hoi))
    exact ⟨R, h.symm⟩
  have h1 : (Rs.map (primOperand d μ)).any (·.dim.isNone) = false := by
    simp [List.any_eq_false, primOperand]
  have h2 : (Rs.map (primOperand d μ)).zipIdx.any (·.1.size.isNone) = false := by
    apply List.any_eq_false.mpr
    intro oi hoi; obtain ⟨R, h⟩ := hmem oi hoi; simp [h, primOperand]
  have h3 : (Rs.map (primOperand d μ)).zipIdx.any (·.1.sampler.isNone) = false := by
    apply List.any_eq_false.mpr
    intro oi hoi; obtain ⟨R, h⟩ := hmem oi hoi; simp [h, primOperand]
  simp only [h1, h2, h3]
  simp [SamplerCfg.reference]

/-- core of the union computation: the top-dimensional operands are the primitive regions `Rs` (a prefix of
    the operand list `ops`), and only the containment count at `x` matters -/
theorem union_mass_core (d : Nat) (μ : Rat) (hμ : 0 < μ) (Rs : List (List α)) (hnd : ∀ R ∈ Rs, R.Nodup)
    (ops : List (Operand α)) (x : α)
    (hpre : ∀ (i : Nat) (o : Operand α), (Rs.map (primOperand d μ))[i]? = some o → ops[i]? = some o)
    (hcount : containCount ops x = (Rs.filter fun R => decide (x ∈ R)).length) :
    mass (weightedPick (Rs.map (primOperand d μ)).zipIdx (fun oi => opSize oi.1) fun oi =>
      (oi.1.sampler.getD []).map fun e =>
        (e.1, e.2 * acceptProb .invCount
          (unionCountAt SamplerCfg.reference ops.zipIdx (fun i j => i == j) oi.2 e.1))) x
      = if (∃ R ∈ Rs, x ∈ R) then 1 / (((Rs.map List.length).sum : Nat) : Rat) else 0 := by
  rw [mass_weightedPick, sum_zipIdx_fst _ opSize, sum_sizes_prim]
  set N : Nat := (Rs.map List.length).sum with hN
  set c : Nat := (Rs.filter fun R => decide (x ∈ R)).length with hc
  have hterm : ∀ oi ∈ (Rs.map (primOperand d μ)).zipIdx,
      opSize oi.1 / (μ * (N : Rat)) *
        mass ((oi.1.sampler.getD []).map fun e =>
          (e.1, e.2 * acceptProb .invCount
            (unionCountAt SamplerCfg.reference ops.zipIdx (fun i j => i == j) oi.2 e.1))) x
      = if oi.1.contains x then (1 / (N : Rat)) * acceptProb .invCount c else 0 := by
    intro oi hoi
    have hget := List.mem_zipIdx_iff_getElem?.mp hoi
    obtain ⟨R, hR, hRo⟩ := List.mem_map.mp (List.mem_of_getElem? hget)
    rw [mass_map_mul _ (fun y => acceptProb .invCount
      (unionCountAt SamplerCfg.reference ops.zipIdx (fun i j => i == j) oi.2 y)) x]
    by_cases hx : x ∈ R
    · have hcx : oi.1.contains x = true := by rw [← hRo]; simp [primOperand, hx]
      rw [unionCountAt_eq_containCount ops oi.2 oi.1 x (hpre _ _ hget) hcx, hcount, hcx]
      rw [← hRo]
      simp only [primOperand, Option.getD_some, opSize]
      rw [mass_uniformList_nodup R (hnd R hR)]
      have hlen : (R.length : Rat) ≠ 0 := by
        have : 0 < R.length := List.length_pos_of_mem hx
        exact_mod_cast this.ne'
      simp only [hx, if_true]
      field_simp
    · have hcx : oi.1.contains x = false := by rw [← hRo]; simp [primOperand, hx]
      rw [hcx, ← hRo]
      simp only [primOperand, Option.getD_some]
      rw [mass_uniformList_nodup R (hnd R hR)]
      simp [hx]
  rw [List.map_congr_left hterm, sum_indicator (f := fun oi : Operand α × Nat => oi.1.contains x),
    length_filter_zipIdx_fst (Rs.map (primOperand d μ)) (fun o => o.contains x) 0]
  have hcc : ((Rs.map (primOperand d μ)).filter fun o => o.contains x).length = c := by
    have := containCount_prim d μ Rs x
    unfold containCount at this
    rw [this]
  rw [hcc]
  by_cases hex : ∃ R ∈ Rs, x ∈ R
  · simp only [hex, if_true]
    have hcpos : 0 < c := by
      obtain ⟨R, hR, hx⟩ := hex
      rw [hc]; apply List.length_pos_of_mem (a := R)
      simp [hR, hx]
    have hc0 : (c : Rat) ≠ 0 := by exact_mod_cast hcpos.ne'
    simp only [acceptProb, hcpos.ne', if_false]
    field_simp
  · simp only [hex, if_false]
    have : c = 0 := by
      rw [hc, List.length_eq_zero_iff, List.filter_eq_nil_iff]
      intro R hR; simp; exact fun hx => hex ⟨R, hR, hx⟩
    rw [this]; simp

/-- **union, all operands of the same dimension**: every atom of the union has mass `1 / Σ|Rᵢ|`,
    whatever the overlaps and the number of operands; atoms outside have mass 0. -/
theorem union_mass (d : Nat) (μ : Rat) (hμ : 0 < μ) (Rs : List (List α)) (hnd : ∀ R ∈ Rs, R.Nodup) (x : α) :
    ∃ p, unionSampler SamplerCfg.reference (Rs.map (primOperand d μ)) = some p ∧
      mass p x = if (∃ R ∈ Rs, x ∈ R) then 1 / (((Rs.map List.length).sum : Nat) : Rat) else 0 :=
  ⟨_, unionSampler_prim d μ Rs,
    union_mass_core d μ hμ Rs hnd _ x (fun _ _ h => h) (containCount_prim d μ Rs x)⟩

/-- lower-dimensional operands are not sampled (they only enter the containment count) -/
theorem unionSampler_mixed (d : Nat) (μ : Rat) (R : List α) (Rs : List (List α)) (smalls : List (Operand α))
    (hsm : ∀ o ∈ smalls, ∃ e, o.dim = some e ∧ e < d) :
    unionSampler SamplerCfg.reference ((R :: Rs).map (primOperand d μ) ++ smalls) =
      some (weightedPick ((R :: Rs).map (primOperand d μ)).zipIdx (fun oi => opSize oi.1) fun oi =>
        (oi.1.sampler.getD []).map fun e =>
          (e.1, e.2 * acceptProb .invCount
            (unionCountAt SamplerCfg.reference ((R :: Rs).map (primOperand d μ) ++ smalls).zipIdx
              (fun i j => i == j) oi.2 e.1))) := by
  have hlarge : unionLargeIdx SamplerCfg.reference ((R :: Rs).map (primOperand d μ) ++ smalls)
      = ((R :: Rs).map (primOperand d μ)).zipIdx := by
    unfold unionLargeIdx
    have hdims : ((R :: Rs).map (primOperand d μ) ++ smalls).filterMap (·.dim)
        = d :: ((Rs.map fun _ => d) ++ smalls.filterMap (·.dim)) := by
      rw [List.filterMap_append]
      have : ((R :: Rs).map (primOperand d μ)).filterMap (·.dim) = d :: Rs.map fun _ => d := by
        simp only [List.map_cons, List.filterMap_cons, primOperand]
        congr 1
        induction Rs with
        | nil => rfl
        | cons S L ih => simp [primOperand] at ih ⊢; exact ih
      rw [this]; rfl
    rw [hdims]
    have hmax : listMax (d :: ((Rs.map fun _ => d) ++ smalls.filterMap (·.dim))) = some d := by
      simp only [listMax]
      congr 1
      apply foldl_max_le
      intro e he
      rcases List.mem_append.mp he with h | h
      · obtain ⟨_, _, rfl⟩ := List.mem_map.mp h; exact Nat.le_refl _
      · obtain ⟨o, ho, hoe⟩ := List.mem_filterMap.mp h
        obtain ⟨e', he', hlt⟩ := hsm o ho
        rw [he'] at hoe; cases hoe; exact Nat.le_of_lt hlt
    rw [hmax]
    show List.filter _ _ = _
    rw [List.zipIdx_append, List.filter_append]
    rw [List.filter_eq_self.mpr, List.filter_eq_nil_iff.mpr, List.append_nil]
    · intro oi hoi
      have hm := List.mem_zipIdx hoi
      have : oi.1 ∈ smalls := by
        rw [show oi = (oi.1, oi.2) from rfl] at hoi
        have := (List.mem_zipIdx hoi).2.2
        rw [this]; exact List.getElem_mem _
      obtain ⟨e, he, hlt⟩ := hsm oi.1 this
      simp [isLarge, he, SamplerCfg.reference, CmpOp.eval]; omega
    · intro oi hoi
      obtain ⟨S, _, hS⟩ := List.mem_map.mp (List.mem_of_getElem? (List.mem_zipIdx_iff_getElem?.mp hoi))
      simp [isLarge, ← hS, primOperand, SamplerCfg.reference, CmpOp.eval]
  unfold unionSampler
  rw [hlarge]
  have hmem : ∀ oi ∈ ((R :: Rs).map (primOperand d μ)).zipIdx, ∃ S, oi.1 = primOperand d μ S := by
    intro oi hoi
    obtain ⟨S, _, h⟩ := List.mem_map.mp (List.mem_of_getElem? (List.mem_zipIdx_iff_getElem?.mp hoi))
    exact ⟨S, h.symm⟩
  have h1 : ((R :: Rs).map (primOperand d μ) ++ smalls).any (·.dim.isNone) = false := by
    rw [List.any_append]
    have : smalls.any (·.dim.isNone) = false := by
      apply List.any_eq_false.mpr
      intro o ho
      obtain ⟨e, he, _⟩ := hsm o ho
      simp [he]
    simp [List.any_eq_false, primOperand, this]
  have h2 : ((R :: Rs).map (primOperand d μ)).zipIdx.any (·.1.size.isNone) = false := by
    apply List.any_eq_false.mpr
    intro oi hoi; obtain ⟨S, h⟩ := hmem oi hoi; simp [h, primOperand]
  have h3 : ((R :: Rs).map (primOperand d μ)).zipIdx.any (·.1.sampler.isNone) = false := by
    apply List.any_eq_false.mpr
    intro oi hoi; obtain ⟨S, h⟩ := hmem oi hoi; simp [h, primOperand]
  simp only [h1, h2, h3]
  simp [SamplerCfg.reference]


/-! ### retry loops -/

/-- `n` rounds of a retry loop: the masses of one pass scaled by the geometric factor -/
theorem mass_retryLoop (pass : SubPMF α) (n : Nat) (x : α) :
    mass (retryLoop pass n) x = geom (total pass) n * mass pass x := by
  induction n with
  | zero => simp [retryLoop, geom, mass_nil]
  | succ n ih =>
    simp only [retryLoop, mass_append, mass_scale, ih, geom]
    ring

theorem sum_nonneg_of_forall {β : Type} (l : List β) (g : β → Rat) (h0 : ∀ b ∈ l, 0 ≤ g b) :
    0 ≤ (l.map g).sum := by
  induction l with
  | nil => simp
  | cons a l ih =>
    simp only [List.map_cons, List.sum_cons]
    have := h0 a (by simp)
    have := ih (fun b hb => h0 b (by simp [hb]))
    linarith

theorem le_sum_of_mem {β : Type} (l : List β) (g : β → Rat) (h0 : ∀ b ∈ l, 0 ≤ g b) (b : β) (hb : b ∈ l) :
    g b ≤ (l.map g).sum := by
  induction l with
  | nil => simp at hb
  | cons a l ih =>
    simp only [List.map_cons, List.sum_cons]
    rcases List.mem_cons.mp hb with h | h
    · subst h
      have := sum_nonneg_of_forall l g (fun c hc => h0 c (by simp [hc]))
      linarith
    · have := ih (fun c hc => h0 c (by simp [hc])) h
      have := h0 a (by simp)
      linarith

theorem acceptProb_invCount_pos (c : Nat) (hc : 0 < c) : 0 < acceptProb .invCount c := by
  have : (0 : Rat) < (c : Rat) := by exact_mod_cast hc
  simp only [acceptProb, hc.ne', if_false]
  exact div_pos one_pos this

theorem acceptProb_invCount_nonneg (c : Nat) : 0 ≤ acceptProb .invCount c := by
  by_cases hc : c = 0
  · simp [acceptProb, hc]
  · exact (acceptProb_invCount_pos c (Nat.pos_of_ne_zero hc)).le

end Scenic.RegionSampling
