import ScenicModel.Lemmas.SamplerDeclarative

/-!
More of what one draw is, under a well-formed configuration: the weighted choice (`Options({...})` / `Discrete`), and
the uniform choice over a star-unpacked, variable-length list of options (`Uniform(*seq, x)`).
-/
namespace Scenic.Sampler
open Dist

variable {α β : Type}

/-- total weight of the entries whose key is `k` -/
def weightAt (xs : List (Nat × Rat)) (k : Nat) : Rat := sumW ((xs.filter fun p => p.1 == k).map (·.2))

theorem weightAt_nil (k : Nat) : weightAt [] k = 0 := rfl

theorem weightAt_cons (x : Nat × Rat) (xs : List (Nat × Rat)) (k : Nat) :
    weightAt (x :: xs) k = (if x.1 == k then x.2 else 0) + weightAt xs k := by
  unfold weightAt
  by_cases h : (x.1 == k) = true
  · simp [h, sumW]
  · simp [h]

theorem weightAt_zip_range' (ws : List Rat) : ∀ (s k : Nat), k < ws.length →
    weightAt ((List.range' s ws.length).zip ws) (s + k) = ws.getD k 0 := by
  induction ws with
  | nil => intro s k hk; simp at hk
  | cons w ws ih =>
    intro s k hk
    have hz : (List.range' s (w :: ws).length).zip (w :: ws) = (s, w) :: (List.range' (s + 1) ws.length).zip ws := by
      simp [List.range'_succ]
    rw [hz, weightAt_cons]
    cases k with
    | zero =>
      -- later keys are all larger than `s`
      have hlater : ∀ (t : Nat) (vs : List Rat), s < t → weightAt ((List.range' t vs.length).zip vs) s = 0 := by
        intro t vs
        induction vs generalizing t with
        | nil => intro _; simp [weightAt, sumW]
        | cons v vs ihv =>
          intro ht
          have hz' : (List.range' t (v :: vs).length).zip (v :: vs) = (t, v) :: (List.range' (t + 1) vs.length).zip vs := by
            simp [List.range'_succ]
          rw [hz', weightAt_cons, ihv (t + 1) (by omega)]
          have : (t == s) = false := beq_false_of_ne (by omega)
          simp [this]
      simp [hlater (s + 1) ws (by omega)]
    | succ k =>
      have hne : (s == s + (k + 1)) = false := beq_false_of_ne (by omega)
      have hk' : k < ws.length := by simpa using hk
      have := ih (s + 1) k hk'
      have e : s + 1 + k = s + (k + 1) := by omega
      rw [e] at this
      simp [hne, this]

theorem mass_filter_pos_key (xs : List (Nat × Rat)) (hnn : ∀ p ∈ xs, 0 ≤ p.2) (k : Nat) (tot : Rat) :
    mass ((xs.filter fun p => decide (0 < p.2)).map fun p => (p.1, p.2 / tot)) (fun i => i == k)
      = weightAt xs k / tot := by
  induction xs with
  | nil => simp [weightAt, sumW]
  | cons x xs ih =>
    have ih' := ih (fun p hp => hnn p (List.mem_cons_of_mem _ hp))
    rw [weightAt_cons]
    by_cases hx : 0 < x.2
    · have hd : decide (0 < x.2) = true := by simp [hx]
      rw [List.filter_cons, hd]
      simp only [if_true, List.map_cons, mass_cons, ih']
      by_cases hk : (x.1 == k) = true
      · simp only [hk, if_true]; ring
      · simp only [hk, Bool.false_eq_true, if_false]; ring
    · have h0 : x.2 = 0 := le_antisymm (not_lt.mp hx) (hnn x List.mem_cons_self)
      have hd : decide (0 < x.2) = false := by simp [hx]
      rw [List.filter_cons, hd]
      simp only [Bool.false_eq_true, if_false, ih', h0]
      by_cases hk : (x.1 == k) = true <;> simp [hk]

/-- the weight `random.choices` gives to index `k`, for non-negative weights: `w_k / Σ w` -/
theorem mass_weighted_key (xs : List (Nat × Rat)) (hnn : ∀ p ∈ xs, 0 ≤ p.2) (k : Nat) :
    mass (Dist.weighted xs) (fun i => i == k) = weightAt xs k / sumW (xs.map (·.2)) :=
  mass_filter_pos_key xs hnn k _

/-- is this value the index `k`? -/
def isIndex (k : Nat) : Val → Bool
  | .num q => decide (q = (k : Rat))
  | _ => false

/-- **weighted choice**: the selector of `Options({o_0: w_0, ...})` (zero weights already dropped, all weights
    non-negative) takes the value `k` with probability exactly `w_k / Σ w` -/
theorem windex_draw (cfg : Cfg) (ws : List Rat) (hnn : ∀ w ∈ ws, 0 ≤ w) (env : Env) (k : Nat) (hk : k < ws.length) :
    mass (draw cfg (.windex ws) env) (onSome (isIndex k)) = ws.getD k 0 / sumW ws := by
  simp only [draw]
  rw [mass_map]
  have hsnd : ((List.range ws.length).zip ws).map (·.2) = ws := by
    apply List.map_snd_zip; simp
  have hev : (fun a : Nat => onSome (isIndex k) (some (Val.num ((a : Nat) : Rat)))) = fun i => i == k := by
    funext a
    simp only [onSome, isIndex]
    by_cases h : a = k
    · subst h; simp
    · have : ((a : Rat) = (k : Rat)) = False := by
        simp only [eq_iff_iff, iff_false]; exact_mod_cast h
      simp [this, h]
  rw [hev, mass_weighted_key _ _ k, hsnd]
  · have := weightAt_zip_range' ws 0 k hk
    rw [Nat.zero_add, ← List.range_eq_range'] at this
    rw [this]
  · intro p hp
    apply hnn
    rw [← hsnd]
    exact List.mem_map.mpr ⟨p, hp, rfl⟩

/-- the selector `UniformDistribution` builds over `n ≥ 1` options in total is uniform over exactly `0 .. n-1` -/
theorem dynSelector_draw {c : Cfg} (h : c.WF) (len : Nat) (env : Env) (n : Nat) (hn : 1 ≤ n)
    (hlen : env.get len = .num ((n : Nat) : Int)) :
    draw c (.dynSelector len) env = (List.range n).map fun k => (some (Val.num ((k : Nat) : Int)), 1 / (n : Rat)) := by
  obtain ⟨h1, h2, h3, _, _, h6, h7, _⟩ := h
  simp only [draw, hlen, h1, h2, h3, h6, h7, roundBy, drawIntRange]
  have e1 : (((0 : Int) : Rat)).ceil = 0 := Rat.ceil_intCast 0
  have e2 : ((((n : Nat) : Int) : Rat) + (((-1 : Int)) : Rat)).floor = (n : Int) - 1 := by
    have : ((((n : Nat) : Int) : Rat) + (((-1 : Int)) : Rat)) = ((((n : Int) - 1 : Int)) : Rat) := by push_cast; ring
    rw [this, Rat.floor_intCast]
  rw [e1, e2]
  have : ¬ ((n : Int) - 1 < 0) := by omega
  simp only [this, decide_false]
  simp [Dist.uniform, Dist.map, List.map_map, intRange, Function.comp_def]

/-- `UniformDistribution.sampleGiven`: the option at the selected position of the star-unpacked list -/
theorem ustar_draw (c : Cfg) (sel : Nat) (opts : List (Bool × Nat)) (env : Env) (k : Nat)
    (hk : k < (argVals env opts).length) (hsel : env.get sel = .num ((k : Nat) : Int)) :
    draw c (.ustar sel opts) env = Dist.pure (some ((argVals env opts).getD k .err)) := by
  simp only [draw, hsel]
  have h1 : Val.isInt (((k : Nat) : Int) : Rat) = true := by simp [Val.isInt]
  have h2 : ((((k : Nat) : Int) : Rat)).num = (k : Int) := by simp
  rw [if_pos ⟨h1, by rw [h2]; omega, by rw [h2]; omega⟩, h2]
  simp

/-! ### the hypotheses of the main theorem are decidable, and requirement conditions only look at values -/

theorem Prog.wfB_sound {P : Prog} (h : P.wfB = true) : P.WF := by
  intro i nd hn j hj
  unfold Prog.wfB at h
  rw [List.all_eq_true] at h
  have hi : i < P.nodes.length := by
    by_contra hge
    rw [List.getElem?_eq_none (by omega)] at hn
    cases hn
  have := h i (List.mem_range.mpr hi)
  rw [hn] at this
  simp only [List.all_eq_true, decide_eq_true_eq] at this
  exact this j hj

theorem Prog.normalizedB_sound {P : Prog} (h : P.normalizedB = true) : P.Normalized := by
  intro i ws hn
  unfold Prog.normalizedB at h
  rw [List.all_eq_true] at h
  have := h _ (List.mem_of_getElem? hn)
  simp only [Bool.and_eq_true, List.all_eq_true, decide_eq_true_eq] at this
  exact this

mutual
theorem RExpr.eval_envEq {e e' : Env} (h : EnvEq e e') : ∀ x : RExpr, x.eval e = x.eval e'
  | .ref i => by simp only [RExpr.eval]; exact h i
  | .const _ => by simp only [RExpr.eval]
  | .op f args => by simp only [RExpr.eval]; rw [RExpr.evalList_envEq h args]
theorem RExpr.evalList_envEq {e e' : Env} (h : EnvEq e e') : ∀ xs : List RExpr,
    RExpr.evalList e xs = RExpr.evalList e' xs
  | [] => by simp only [RExpr.evalList]
  | x :: xs => by simp only [RExpr.evalList]; rw [RExpr.eval_envEq h x, RExpr.evalList_envEq h xs]
end

/-- a requirement condition is an event on the sampled values -/
theorem RExpr.holds_resp (x : RExpr) : Resp x.holds := by
  intro e e' h
  unfold RExpr.holds
  rw [RExpr.eval_envEq h x]

end Scenic.Sampler
