import ScenicModel.Lemmas.SamplerPerm

/-!
The operational sampler model agrees with the declarative semantics of `Model/SamplerSpec.lean`:

* exactly the nodes reachable from the roots are drawn (`mem_postorder_iff_reach`);
* the increasing-index order of those nodes is another admissible order of the same draws (`specOrder_perm`,
  `specOrder_closed`), so the depth-first sampler and the declarative prior give every event on the sampled values
  the same probability (`prior_event_indep`) — for rejections this uses that every draw is a probability
  distribution (`total_draw`, total mass one);
* the `while` loop is its closed form (`loop_eq_geomLoop`);
* hence `generate` and `specGenerate` give every event the same probability (`generate_eq_specGenerate`).
-/
namespace Scenic.Sampler
open Dist

variable {α β σ : Type}

/-! ## which nodes are drawn -/

/-- reachable from the roots through dependencies -/
inductive Reach (P : Prog) (roots : List Nat) : Nat → Prop
  | root {i : Nat} : i ∈ roots → Reach P roots i
  | dep {i j : Nat} {nd : Node} : Reach P roots i → P.nodes[i]? = some nd → j ∈ nd.deps → Reach P roots j

theorem Reach.trans {P : Prog} {S : List Nat} {j x : Nat} (h : Reach P [j] x) (hj : Reach P S j) : Reach P S x := by
  induction h with
  | root hm =>
    simp only [List.mem_singleton] at hm
    subst hm; exact hj
  | dep _ hn hd ih => exact Reach.dep ih hn hd

theorem Reach.mono {P : Prog} {S : List Nat} {j x : Nat} (h : Reach P [j] x) (hj : j ∈ S) : Reach P S x :=
  h.trans (Reach.root hj)

/-- on an acyclic graph everything reachable lies at or below a root -/
theorem Reach.le_root {P : Prog} (hP : P.WF) {S : List Nat} {x : Nat} (h : Reach P S x) : ∃ r ∈ S, x ≤ r := by
  induction h with
  | root hm => exact ⟨_, hm, Nat.le_refl _⟩
  | dep _ hn hd ih =>
    obtain ⟨r, hr, hle⟩ := ih
    have := hP _ _ hn _ hd
    exact ⟨r, hr, by omega⟩

theorem orderFold_reach (P : Prog) (fuel : Nat) (vis : List Nat)
    (ih : ∀ (i : Nat) (vis : List Nat) (x : Nat), x ∈ orderNew P fuel i vis → Reach P [i] x) :
    ∀ (js L : List Nat) (x : Nat), x ∈ orderFold P fuel js L vis → x ∈ L ∨ ∃ j ∈ js, Reach P [j] x := by
  intro js
  induction js with
  | nil => intro L x hx; left; exact hx
  | cons j js ihj =>
    intro L x hx
    rw [orderFold_cons] at hx
    rcases ihj _ x hx with h | ⟨j', hj', hr⟩
    · rcases List.mem_append.mp h with h | h
      · left; exact h
      · right; exact ⟨j, List.mem_cons_self, ih j _ x h⟩
    · right; exact ⟨j', List.mem_cons_of_mem _ hj', hr⟩

/-- everything a visit of `i` lists is reachable from `i` -/
theorem orderNew_reach (P : Prog) :
    ∀ (fuel i : Nat) (vis : List Nat) (x : Nat), x ∈ orderNew P fuel i vis → Reach P [i] x := by
  intro fuel
  induction fuel with
  | zero => intro i vis x hx; simp [orderNew] at hx
  | succ fuel ih =>
    intro i vis x hx
    rw [orderNew_succ] at hx
    by_cases hc : vis.contains i
    · rw [if_pos hc] at hx; cases hx
    · rw [if_neg hc] at hx
      cases hn : P.nodes[i]? with
      | none =>
        rw [hn] at hx
        simp only [List.mem_singleton] at hx
        subst hx; exact Reach.root List.mem_cons_self
      | some nd =>
        rw [hn] at hx
        simp only [] at hx
        rcases List.mem_append.mp hx with hx | hx
        · rw [orderNewList_eq] at hx
          rcases orderFold_reach P fuel vis ih nd.deps [] x hx with h | ⟨j, hj, hr⟩
          · cases h
          · exact hr.trans (Reach.dep (Reach.root List.mem_cons_self) hn hj)
        · simp only [List.mem_singleton] at hx
          subst hx; exact Reach.root List.mem_cons_self

/-- **exactly the values reachable from `Scenario.dependencies` are sampled** (an unused value never is) -/
theorem mem_postorder_iff_reach (P : Prog) (hP : P.WF) (roots : List Nat) (hr : ∀ j ∈ roots, j < P.nodes.length)
    (x : Nat) : x ∈ postorder P roots ↔ Reach P roots x := by
  constructor
  · intro hx
    unfold postorder at hx
    rw [orderNewList_eq] at hx
    rcases orderFold_reach P _ [] (orderNew_reach P _) roots [] x hx with h | ⟨j, hj, hreach⟩
    · cases h
    · exact hreach.mono hj
  · intro h
    induction h with
    | root hm => exact postorder_roots P roots _ hm
    | dep _ hn hd ih =>
      rcases closed_deps P _ [] (postorder_children_first P hP roots hr) _ ih _ hn _ hd with h | h
      · exact h
      · cases h

theorem postorder_lt (P : Prog) (hP : P.WF) (roots : List Nat) (hr : ∀ j ∈ roots, j < P.nodes.length) :
    ∀ x ∈ postorder P roots, x < P.nodes.length := by
  intro x hx
  obtain ⟨r, hrm, hle⟩ := ((mem_postorder_iff_reach P hP roots hr x).mp hx).le_root hP
  have := hr r hrm
  omega

/-! ## the increasing-index order is an admissible order of the same draws -/

theorem mem_specOrder (P : Prog) (hP : P.WF) (roots : List Nat) (hr : ∀ j ∈ roots, j < P.nodes.length) (x : Nat) :
    x ∈ specOrder P roots ↔ x ∈ postorder P roots := by
  unfold specOrder
  simp only [List.mem_filter, List.mem_range, List.contains_iff_mem]
  constructor
  · intro h; exact h.2
  · intro h; exact ⟨postorder_lt P hP roots hr x h, h⟩

theorem specOrder_sorted (P : Prog) (roots : List Nat) : (specOrder P roots).Pairwise (· < ·) :=
  List.Pairwise.filter _ List.pairwise_lt_range

theorem specOrder_nodup (P : Prog) (roots : List Nat) : (specOrder P roots).Nodup :=
  (specOrder_sorted P roots).imp (fun h => Nat.ne_of_lt h)

theorem specOrder_perm (P : Prog) (hP : P.WF) (roots : List Nat) (hr : ∀ j ∈ roots, j < P.nodes.length) :
    (postorder P roots).Perm (specOrder P roots) :=
  (List.perm_ext_iff_of_nodup (postorder_nodup P hP roots hr) (specOrder_nodup P roots)).mpr
    (fun x => (mem_specOrder P hP roots hr x).symm)

/-- an increasing list that contains the dependencies of its members lists them first -/
theorem closed_of_sorted (P : Prog) (hP : P.WF) :
    ∀ (xs vis : List Nat), xs.Pairwise (· < ·) →
      (∀ x ∈ xs, ∀ nd, P.nodes[x]? = some nd → ∀ j ∈ nd.deps, j ∈ vis ∨ j ∈ xs) → Closed P xs vis := by
  intro xs
  induction xs with
  | nil => intro _ _ _; trivial
  | cons x xs ih =>
    intro vis hs hd
    have hs' := List.pairwise_cons.mp hs
    refine ⟨?_, ?_⟩
    · intro nd hn j hj
      have hlt : j < x := hP x nd hn j hj
      rcases hd x List.mem_cons_self nd hn j hj with h | h
      · exact h
      · rcases List.mem_cons.mp h with h | h
        · omega
        · have := hs'.1 j h; omega
    · apply ih (x :: vis) hs'.2
      intro y hy nd hn j hj
      rcases hd y (List.mem_cons_of_mem _ hy) nd hn j hj with h | h
      · left; exact List.mem_cons_of_mem _ h
      · rcases List.mem_cons.mp h with h | h
        · left; rw [h]; exact List.mem_cons_self
        · right; exact h

theorem specOrder_closed (P : Prog) (hP : P.WF) (roots : List Nat) (hr : ∀ j ∈ roots, j < P.nodes.length) :
    Closed P (specOrder P roots) [] := by
  apply closed_of_sorted P hP _ _ (specOrder_sorted P roots)
  intro x hx nd hn j hj
  right
  rw [mem_specOrder P hP roots hr] at hx ⊢
  rcases closed_deps P _ [] (postorder_children_first P hP roots hr) x hx nd hn j hj with h | h
  · exact h
  · cases h

/-! ## every draw is a probability distribution -/

/-- total weight -/
def total (d : Dist α) : Rat := mass d (fun _ => true)

theorem total_pure (a : α) : total (Dist.pure a) = 1 := by simp [total, mass_pure]

theorem total_map (f : α → β) (d : Dist α) : total (Dist.map f d) = total d := by
  unfold total; rw [mass_map]

theorem total_bind (d : Dist α) (f : α → Dist β) (h : ∀ x ∈ d, total (f x.1) = 1) :
    total (Dist.bind d f) = total d := by
  induction d with
  | nil => rfl
  | cons x xs ih =>
    unfold total at *
    rw [mass_bind_cons, ih (fun y hy => h y (List.mem_cons_of_mem _ hy)), h x List.mem_cons_self, mass_cons]
    simp

theorem total_const_list (xs : List α) (f : α → β) (c : Rat) :
    total (xs.map fun x => (f x, c)) = (xs.length : Rat) * c := by
  induction xs with
  | nil => simp [total]
  | cons x xs ih =>
    unfold total at *
    simp only [List.map_cons, mass_cons, ih, List.length_cons]
    push_cast; ring

theorem total_uniform (xs : List α) (h : xs ≠ []) : total (Dist.uniform xs) = 1 := by
  have e : Dist.uniform xs = xs.map fun x => (id x, 1 / (xs.length : Rat)) := rfl
  rw [e, total_const_list xs id]
  have : (xs.length : Rat) ≠ 0 := by
    have : xs.length ≠ 0 := fun e => h (List.length_eq_zero_iff.mp e)
    exact_mod_cast this
  field_simp

theorem total_drawIntRange (strict : Bool) (l r : Int) : total (drawIntRange strict l r) = 1 := by
  unfold drawIntRange
  by_cases hc : (if strict then decide (r < l) else decide (r ≤ l)) = true
  · rw [if_pos hc]; exact total_pure _
  · rw [if_neg hc, total_map]
    apply total_uniform
    intro he
    have hl : (intRange l r).length = 0 := by rw [he]; rfl
    rw [intRange_length] at hl
    cases strict <;> simp at hc <;> omega

theorem sumW_filter_pos (xs : List (α × Rat)) (h : ∀ p ∈ xs, 0 ≤ p.2) :
    sumW ((xs.filter fun p => decide (0 < p.2)).map (·.2)) = sumW (xs.map (·.2)) := by
  induction xs with
  | nil => rfl
  | cons x xs ih =>
    have ih' := ih (fun p hp => h p (List.mem_cons_of_mem _ hp))
    by_cases hx : 0 < x.2
    · simp only [List.filter_cons, hx, decide_true, if_true, List.map_cons, sumW, ih']
    · have h0 : x.2 = 0 := le_antisymm (not_lt.mp hx) (h x List.mem_cons_self)
      have hd : decide (0 < x.2) = false := by simp [hx]
      rw [List.filter_cons, hd]
      simp only [Bool.false_eq_true, if_false, List.map_cons, sumW, h0, ih']
      simp

theorem total_div_list (xs : List (α × Rat)) (f : α → β) (t : Rat) :
    total (xs.map fun p => (f p.1, p.2 / t)) = sumW (xs.map (·.2)) / t := by
  induction xs with
  | nil => simp [total, sumW]
  | cons x xs ih =>
    unfold total at *
    simp only [List.map_cons, mass_cons, ih, sumW, if_true]
    ring

theorem total_weighted (xs : List (α × Rat)) (h : ∀ p ∈ xs, 0 ≤ p.2) (hpos : 0 < sumW (xs.map (·.2))) :
    total (Dist.weighted xs) = 1 := by
  have e : Dist.weighted xs = (xs.filter fun p => decide (0 < p.2)).map
      fun p => (id p.1, p.2 / sumW (xs.map (·.2))) := rfl
  rw [e, total_div_list _ id, sumW_filter_pos xs h]
  exact div_self (ne_of_gt hpos)

/-- weights of a weighted choice are non-negative and not all zero (what `Options.__init__` enforces) -/
def Prog.Normalized (P : Prog) : Prop :=
  ∀ (i : Nat) (ws : List Rat), P.nodes[i]? = some (.windex ws) → (∀ w ∈ ws, 0 ≤ w) ∧ 0 < sumW ws

theorem total_draw (cfg : Cfg) (nd : Node) (env : Env)
    (hw : ∀ ws, nd = .windex ws → (∀ w ∈ ws, 0 ≤ w) ∧ 0 < sumW ws) : total (draw cfg nd env) = 1 := by
  cases nd with
  | const v => exact total_pure _
  | drange lo hi =>
    simp only [draw]
    split
    · exact total_drawIntRange _ _ _
    · exact total_pure _
  | selector n => exact total_drawIntRange _ _ _
  | dynSelector len =>
    simp only [draw]
    split
    · exact total_drawIntRange _ _ _
    · exact total_pure _
  | windex ws =>
    obtain ⟨h1, h2⟩ := hw ws rfl
    simp only [draw]
    rw [total_map]
    have hsnd : ((List.range ws.length).zip ws).map (·.2) = ws := by
      apply List.map_snd_zip
      simp
    apply total_weighted
    · intro p hp
      apply h1
      rw [← hsnd]
      exact List.mem_map.mpr ⟨p, hp, rfl⟩
    · rw [hsnd]; exact h2
  | mux idx opts =>
    simp only [draw]
    split
    · split <;> exact total_pure _
    · exact total_pure _
  | ustar sel opts =>
    simp only [draw]
    split
    · split <;> exact total_pure _
    · exact total_pure _
  | op f args => exact total_pure _

theorem total_step (cfg : Cfg) (P : Prog) (hN : P.Normalized) (i : Nat) (env : Env) : total (step cfg P i env) = 1 := by
  unfold step
  cases hn : P.nodes[i]? with
  | none => exact total_pure _
  | some nd =>
    simp only []
    rw [total_bind]
    · apply total_draw
      intro ws e
      subst e
      exact hN i ws hn
    · intro x _
      cases x.1 <;> exact total_pure _

theorem total_bindO (d : Dist (Option α)) (f : α → Dist (Option β)) (h : ∀ a, total (f a) = 1) :
    total (bindO d f) = total d := by
  unfold bindO
  apply total_bind
  intro x _
  cases x.1 with
  | none => exact total_pure _
  | some a => exact h a

theorem total_seqAlong (cfg : Cfg) (P : Prog) (hN : P.Normalized) :
    ∀ (xs : List Nat) (env : Env), total (seqAlong cfg P xs env) = 1 := by
  intro xs
  induction xs with
  | nil => intro env; exact total_pure _
  | cons i is ih =>
    intro env
    rw [seqAlong_cons, total_bindO _ _ ih]
    exact total_step cfg P hN i env

theorem mass_isRej_eq (d : Dist (Option α)) : mass d isRej = total d - mass d (onSome fun _ => true) := by
  have := mass_split d
  unfold total
  linarith

/-- an event on attempt outcomes splits into its part on scenes and its part on the rejection -/
theorem mass_event_split (d : Dist (Option α)) (E : Option α → Bool) :
    mass d E = mass d (onSome fun a => E (some a)) + (if E none then mass d isRej else 0) := by
  induction d with
  | nil => simp
  | cons x xs ih =>
    rw [mass_cons, mass_cons, mass_cons, ih]
    rcases x with ⟨o, w⟩
    cases o with
    | none =>
      simp only [onSome, isRej]
      by_cases h : E none <;> simp [h] <;> ring
    | some a =>
      simp only [onSome, isRej]
      by_cases h : E none <;> by_cases h2 : E (some a) <;> simp [h, h2] <;> ring

/-- **the depth-first sampler realises the declarative prior**: every event on the outcome of sampling (the sampled
    values, or "rejected") has the same probability under `sampleAll` and under one independent draw per reachable
    node in increasing index order -/
theorem prior_event_indep (cfg : Cfg) (P : Prog) (hP : P.WF) (hN : P.Normalized) (roots : List Nat)
    (hr : ∀ j ∈ roots, j < P.nodes.length) (E : Option Env → Bool) (hE : Resp fun env => E (some env)) :
    mass (sampleAll cfg P roots) E = mass (specPrior cfg P roots) E := by
  have hperm : ∀ (q : Env → Bool), Resp q →
      mass (sampleAll cfg P roots) (onSome q) = mass (specPrior cfg P roots) (onSome q) := by
    intro q hq
    rw [sampleAll_eq_seqAlong cfg P hP roots hr]
    exact seqAlong_perm cfg P q hq (specOrder P roots) (postorder P roots) [] [] (specOrder_perm P hP roots hr)
      (postorder_nodup P hP roots hr) (by intro x _ hx; cases hx) (postorder_children_first P hP roots hr)
      (specOrder_closed P hP roots hr)
  have hrej : mass (sampleAll cfg P roots) isRej = mass (specPrior cfg P roots) isRej := by
    rw [mass_isRej_eq, mass_isRej_eq, hperm _ (fun _ _ _ => rfl)]
    congr 1
    rw [sampleAll_eq_seqAlong cfg P hP roots hr]
    unfold specPrior
    rw [total_seqAlong cfg P hN, total_seqAlong cfg P hN]
  rw [mass_event_split, mass_event_split (specPrior cfg P roots), hperm _ hE, hrej]

/-! ## the loop is its closed form -/

theorem mass_accepted (att : Dist (Option σ)) (k : Nat) (Q : Option (σ × Nat) → Bool) :
    mass (accepted att k) Q = mass att (onSome fun s => Q (some (s, k))) := by
  induction att with
  | nil => rfl
  | cons x xs ih =>
    rcases x with ⟨o, w⟩
    cases o with
    | none =>
      have : accepted ((none, w) :: xs) k = accepted xs k := by simp [accepted]
      rw [this, ih, mass_cons]
      simp [onSome]
    | some s =>
      have : accepted ((some s, w) :: xs) k = (some (s, k), w) :: accepted xs k := by
        simp [accepted]
      rw [this, mass_cons, ih, mass_cons]
      rfl

theorem mass_geomLoop_succ (att : Dist (Option σ)) (n k : Nat) (Q : Option (σ × Nat) → Bool) :
    mass (geomLoop att (n + 1) k) Q
      = mass att (onSome fun s => Q (some (s, k + 1))) + mass att isRej * mass (geomLoop att n (k + 1)) Q := by
  simp only [geomLoop]
  rw [mass_append, mass_scale, mass_accepted]

/-- the `while` loop of `_generateInner` and the geometric closed form give every event the same probability -/
theorem loop_eq_geomLoop (att : Dist (Option σ)) :
    ∀ (n k : Nat) (Q : Option (σ × Nat) → Bool), mass (loop att n k) Q = mass (geomLoop att n k) Q := by
  intro n
  induction n with
  | zero => intro k Q; rfl
  | succ n ih =>
    intro k Q
    rw [loop_succ, mass_bind_option att (fun s => some (s, k + 1)), mass_geomLoop_succ, ih]

/-- the closed form depends on the attempt only through the probabilities of its events -/
theorem geomLoop_congr (att att' : Dist (Option σ)) (h : ∀ E : Option σ → Bool, mass att E = mass att' E) :
    ∀ (n k : Nat) (Q : Option (σ × Nat) → Bool), mass (geomLoop att n k) Q = mass (geomLoop att' n k) Q := by
  intro n
  induction n with
  | zero => intro k Q; rfl
  | succ n ih =>
    intro k Q
    rw [mass_geomLoop_succ, mass_geomLoop_succ, ih, h, h]

/-! ## one attempt = the prior restricted to the active requirements -/

theorem attemptOutcome_eq_restrictOutcome (active : List (Env → Bool)) (scene : Env → σ) :
    attemptOutcome active scene = restrictOutcome active scene := by
  funext o
  cases o with
  | none => rfl
  | some env => simp only [attemptOutcome, restrictOutcome, checkSeq_eq_all]

theorem all_envEq (active : List (Env → Bool)) (ha : ∀ r ∈ active, Resp r) (e e' : Env) (h : EnvEq e e') :
    active.all (fun r => r e) = active.all (fun r => r e') := by
  induction active with
  | nil => rfl
  | cons r rs ih =>
    simp only [List.all_cons]
    rw [ha r List.mem_cons_self e e' h, ih (fun r' hr' => ha r' (List.mem_cons_of_mem _ hr'))]

/-- every event on the outcome of one attempt has the probability the declarative restriction of the prior gives it -/
theorem attempt_eq_restrict (cfg : Cfg) (P : Prog) (hP : P.WF) (hN : P.Normalized) (roots : List Nat)
    (hr : ∀ j ∈ roots, j < P.nodes.length) (active : List (Env → Bool)) (ha : ∀ r ∈ active, Resp r)
    (scene : Env → σ) (hs : ∀ e e', EnvEq e e' → scene e = scene e') (E : Option σ → Bool) :
    mass (attempt cfg P roots active scene) E = mass (restrict (specPrior cfg P roots) active scene) E := by
  rw [attempt_eq_bind_pure, mass_bind_pure, attemptOutcome_eq_restrictOutcome]
  unfold restrict
  rw [mass_map]
  apply prior_event_indep cfg P hP hN roots hr
  intro e e' h
  simp only [restrictOutcome, all_envEq active ha e e' h, hs e e' h]

/-! ## `generate` = the declarative semantics -/

theorem mass_flatMap (xs : List α) (f : α → Dist β) (Q : β → Bool) :
    mass (xs.flatMap f) Q = sumW (xs.map fun x => mass (f x) Q) := by
  induction xs with
  | nil => rfl
  | cons x xs ih => simp only [List.flatMap_cons, mass_append, ih, List.map_cons, sumW]

theorem mem_activeOf {γ : Type} : ∀ (rs : List γ) (bs : List Bool) (r : γ), r ∈ activeOf rs bs → r ∈ rs := by
  intro rs
  induction rs with
  | nil => intro bs r h; cases bs <;> simp [activeOf] at h
  | cons a rs ih =>
    intro bs r h
    cases bs with
    | nil => simp [activeOf] at h
    | cons b bs =>
      simp only [activeOf] at h
      cases b with
      | true =>
        simp only [if_true] at h
        rcases List.mem_cons.mp h with h | h
        · rw [h]; exact List.mem_cons_self
        · exact List.mem_cons_of_mem _ (ih bs r h)
      | false =>
        simp only [Bool.false_eq_true, if_false] at h
        exact List.mem_cons_of_mem _ (ih bs r h)

/-- **main theorem**: for an acyclic program with proper weights, requirements and scene that only look at sampled
    values, and every `maxIterations`, the operational model of `Scenario._generateInner` gives every event on
    (enforced soft requirements, returned scene and iteration count / failure) exactly the probability the
    declarative semantics gives it -/
theorem generate_eq_specGenerate {c : Cfg} (h : c.WF) (P : Prog) (hP : P.WF) (hN : P.Normalized) (roots : List Nat)
    (hr : ∀ j ∈ roots, j < P.nodes.length) (reqs : List (Rat × (Env → Bool))) (hreq : ∀ r ∈ reqs, Resp r.2)
    (defaults : List (Env → Bool)) (hdef : ∀ r ∈ defaults, Resp r)
    (scene : Env → σ) (hs : ∀ e e', EnvEq e e' → scene e = scene e') (n : Nat)
    (Q : List Bool → Option (σ × Nat) → Bool) :
    mass (generate c P roots reqs defaults scene n) (fun o => Q o.1 o.2)
      = mass (specGenerate c P roots reqs defaults scene n) (fun o => Q o.1 o.2) := by
  rw [generate_mixture h]
  unfold specGenerate
  rw [mass_flatMap]
  congr 1
  apply List.map_congr_left
  intro act _
  rw [mass_scale, mass_map, loop_eq_geomLoop]
  congr 1
  apply geomLoop_congr
  intro E
  apply attempt_eq_restrict c P hP hN roots hr _ _ scene hs
  intro r hr'
  rcases List.mem_append.mp hr' with h1 | h1
  · exact hdef r h1
  · have := mem_activeOf _ _ r h1
    obtain ⟨p, hp, rfl⟩ := List.mem_map.mp this
    exact hreq p hp

end Scenic.Sampler
