import Mathlib.Tactic.Ring
import Mathlib.Tactic.FieldSimp
import Mathlib.Tactic.LinearCombination
import Mathlib.Tactic.Linarith
import Mathlib.Tactic.Positivity
import Mathlib.Tactic.FinCases
import Mathlib.Tactic.SplitIfs
import Mathlib.Tactic.NormNum
import Mathlib.Algebra.Field.Basic
import Mathlib.Algebra.CharZero.Defs
import Mathlib.Algebra.Order.Field.Basic
import ScenicModel.Model.FramesCore
/-!
Helper lemmas for the frame model (C07): matrix / quaternion algebra over an arbitrary field.
-/
namespace Scenic.Frames

/-! ### closed forms of the definitions instantiated on generated data

These are *side conditions on the generated data* (`Gen/Frames.lean`): they hold exactly when the formula /
axis sequence regenerated from `/repo` is the documented one. Every other proof uses the closed form. -/

section gen
variable {α : Type}

/-- `Orientation.fromEuler(yaw, pitch, roll)` is the intrinsic `ZXY` product: yaw about Z, then pitch
    about the new X, then roll about the newest Y (`Rotation.from_euler("ZXY", …)`) -/
theorem euler_eq [Add α] [Sub α] [Mul α] [Neg α] [Div α] [OfNat α 0] [OfNat α 1] [OfNat α 2]
    (yaw pitch roll : Ang α) : euler yaw pitch roll = (rotZ yaw).mul ((rotX pitch).mul (rotY roll)) := rfl

/-- `Orientation.eulerAngles` extracts with the axis sequence `_fromEuler` constructs with (`ZXY`) -/
theorem gen_euler_axes : Gen.Frames.fromEulerAxes = [2, 0, 1] ∧ Gen.Frames.eulerAnglesAxes = Gen.Frames.fromEulerAxes := by
  decide

/-- `Vector.rotatedBy(angle)`: counter-clockwise rotation in the XY plane, `z` unchanged -/
theorem rotatedBy_eq [Field α] (v : Vec3 α) (a : Ang α) :
    rotatedBy v a = ⟨a.c * v.x - a.s * v.y, a.s * v.x + a.c * v.y, v.z⟩ := by
  simp only [rotatedBy, Gen.Frames.rotatedByFormula, Vec3.ofTriple]

variable [Field α] [DecidableEq α]

/-- `sphericalCoordinates()[1]`: `theta = atan2(y, x) - π/2` — `(cos, sin) = (y / h, -x / h)`;
    `-π/2` for a vertical vector -/
theorem azimuthOf_eq (d : Vec3 α) (h : α) :
    azimuthOf d h = if h = 0 then ⟨0, -1⟩ else ⟨d.y / h, -d.x / h⟩ := by
  simp only [azimuthOf, atan2CS, Ang.ofPair, Gen.Frames.sphThetaArgs, Gen.Frames.sphThetaPost]
  split_ifs <;> ext <;> simp only [neg_div]

/-- `sphericalCoordinates()[2]`: `phi = atan2(z, hypot(x, y))` — `(cos, sin) = (h / rho, z / rho)` -/
theorem altitudeOf_eq (d : Vec3 α) (h rho : α) :
    altitudeOf d h rho = if rho = 0 then ⟨1, 0⟩ else ⟨h / rho, d.z / rho⟩ := by
  simp only [altitudeOf, atan2CS, Ang.ofPair, Gen.Frames.sphPhiArgs, Gen.Frames.sphPhiPost]

/-- `Vector.azimuthTo(other)` is the spherical azimuth of `other - self` -/
theorem azimuthTo_eq (a b : Vec3 α) (h : α) : azimuthTo a b h = azimuthOf (b.sub a) h := by
  rw [azimuthOf_eq]
  simp only [azimuthTo, atan2CS, Ang.ofPair, Gen.Frames.azimuthToArgs, Gen.Frames.azimuthToPost]
  split_ifs <;> ext <;> simp only [neg_div]

/-- `Vector.altitudeTo(other)` is the spherical altitude of `other - self` -/
theorem altitudeTo_eq (a b : Vec3 α) (h rho : α) : altitudeTo a b h rho = altitudeOf (b.sub a) h rho := by
  rw [altitudeOf_eq]
  simp only [altitudeTo, atan2CS, Ang.ofPair, Gen.Frames.altitudeToArgs, Gen.Frames.altitudeToPost]

/-- `apparentHeadingAtPoint(point, heading, base)`: `heading + π/2 - atan2(oy - y, ox - x)` -/
theorem apparentHeading_eq (point : Vec3 α) (heading : Ang α) (base : Vec3 α) (h : α) :
    apparentHeading point heading base h =
      if h = 0 then heading.quarter else heading.add ⟨(point.y - base.y) / h, (point.x - base.x) / h⟩ := by
  simp only [apparentHeading, atan2CS, Ang.ofPair, Gen.Frames.apparentHeadingArgs, Gen.Frames.apparentHeadingPost]
  split_ifs <;> ext <;> simp only [Ang.quarter, Ang.add] <;> ring

end gen

/-- unfold the vector / matrix / quaternion / angle primitives down to field arithmetic -/
macro "unfold_frames" : tactic => `(tactic| simp only [Vec3.add, Vec3.sub, Vec3.neg, Vec3.smul, Vec3.dot,
  Vec3.normSq, Vec3.zero, Vec3.ex, Vec3.ey, Vec3.ez, Vec3.ofTriple,
  Mat3.col0, Mat3.col1, Mat3.col2, Mat3.one, Mat3.mulVec, Mat3.transpose, Mat3.mul, Mat3.det, Mat3.sdiv, Mat3.scale,
  Quat.mul, Quat.conj, Quat.normSq, Quat.rawMat, Quat.one, Quat.aboutX, Quat.aboutY, Quat.aboutZ,
  Ang.zero, Ang.ofHalf, Ang.add, Ang.neg, Ang.sub, Ang.quarter, rotZ, rotX, rotY, euler_eq, rotatedBy_eq,
  offsetLocally, relativePosition, localCoords, distSq])

/-- the same at a hypothesis -/
macro "unfold_frames_at" h:ident : tactic => `(tactic| simp only [Vec3.add, Vec3.sub, Vec3.neg, Vec3.smul, Vec3.dot,
  Vec3.normSq, Vec3.zero, Vec3.ex, Vec3.ey, Vec3.ez, Vec3.ofTriple,
  Mat3.col0, Mat3.col1, Mat3.col2, Mat3.one, Mat3.mulVec, Mat3.transpose, Mat3.mul, Mat3.det, Mat3.sdiv, Mat3.scale,
  Quat.mul, Quat.conj, Quat.normSq, Quat.rawMat, Quat.one, Quat.aboutX, Quat.aboutY, Quat.aboutZ,
  Ang.zero, Ang.ofHalf, Ang.add, Ang.neg, Ang.sub, Ang.quarter, rotZ, rotX, rotY, euler_eq, rotatedBy_eq,
  offsetLocally, relativePosition, localCoords, distSq] at $h:ident)

/-- component-wise polynomial identity between vectors / matrices / quaternions -/
macro "frames_ring" : tactic => `(tactic| (ext <;> unfold_frames <;> ring))

variable {α : Type} [Field α]

/-! ### vectors -/
theorem Vec3.add_comm' (a b : Vec3 α) : a.add b = b.add a := by frames_ring
theorem Vec3.add_assoc' (a b c : Vec3 α) : (a.add b).add c = a.add (b.add c) := by frames_ring
theorem Vec3.add_zero' (a : Vec3 α) : a.add Vec3.zero = a := by frames_ring
theorem Vec3.add_sub_cancel' (a b : Vec3 α) : (a.add b).sub a = b := by frames_ring
theorem Vec3.sub_add_cancel' (a b : Vec3 α) : a.add (b.sub a) = b := by frames_ring
theorem Vec3.dot_comm (a b : Vec3 α) : a.dot b = b.dot a := by unfold_frames; ring

/-! ### matrices -/
namespace Mat3
theorem mul_assoc' (a b c : Mat3 α) : (a.mul b).mul c = a.mul (b.mul c) := by frames_ring
theorem one_mul' (a : Mat3 α) : one.mul a = a := by frames_ring
theorem mul_one' (a : Mat3 α) : a.mul one = a := by frames_ring
theorem mulVec_mul (a b : Mat3 α) (v : Vec3 α) : (a.mul b).mulVec v = a.mulVec (b.mulVec v) := by frames_ring
theorem one_mulVec (v : Vec3 α) : (one : Mat3 α).mulVec v = v := by frames_ring
theorem mulVec_add (a : Mat3 α) (v w : Vec3 α) : a.mulVec (v.add w) = (a.mulVec v).add (a.mulVec w) := by frames_ring
theorem mulVec_sub (a : Mat3 α) (v w : Vec3 α) : a.mulVec (v.sub w) = (a.mulVec v).sub (a.mulVec w) := by frames_ring
theorem mulVec_smul (a : Mat3 α) (k : α) (v : Vec3 α) : a.mulVec (v.smul k) = (a.mulVec v).smul k := by frames_ring
theorem transpose_mul (a b : Mat3 α) : (a.mul b).transpose = b.transpose.mul a.transpose := by frames_ring
theorem transpose_transpose (a : Mat3 α) : a.transpose.transpose = a := by frames_ring
theorem transpose_one : (one : Mat3 α).transpose = one := by frames_ring
theorem det_mul (a b : Mat3 α) : (a.mul b).det = a.det * b.det := by unfold_frames; ring
theorem det_transpose (a : Mat3 α) : a.transpose.det = a.det := by unfold_frames; ring
theorem det_one : (one : Mat3 α).det = 1 := by unfold_frames; ring
theorem dot_mulVec (a : Mat3 α) (v w : Vec3 α) : (a.mulVec v).dot w = v.dot (a.transpose.mulVec w) := by
  unfold_frames; ring

theorem sdiv_mul_sdiv (a b : Mat3 α) (k l : α) : (a.sdiv k).mul (b.sdiv l) = (a.mul b).sdiv (k * l) := by
  ext <;> unfold_frames <;> simp only [div_mul_div_comm, ← add_div]
theorem sdiv_transpose (a : Mat3 α) (k : α) : (a.sdiv k).transpose = a.transpose.sdiv k := by
  ext <;> unfold_frames
theorem scale_one_sdiv (k : α) (hk : k ≠ 0) : (scale k one).sdiv k = one := by
  ext <;> unfold_frames <;> simp [hk]
theorem det_sdiv (a : Mat3 α) (k : α) : (a.sdiv k).det = a.det / (k * k * k) := by
  unfold_frames
  by_cases hk : k = 0
  · subst hk; simp
  · field_simp

theorem IsRot.one : IsRot (one : Mat3 α) :=
  ⟨by rw [transpose_one, one_mul'], by rw [transpose_one, one_mul'], det_one⟩

theorem IsRot.transpose {m : Mat3 α} (h : IsRot m) : IsRot m.transpose :=
  ⟨by rw [transpose_transpose]; exact h.2.1, by rw [transpose_transpose]; exact h.1, by rw [det_transpose]; exact h.2.2⟩

theorem IsRot.mul {a b : Mat3 α} (ha : IsRot a) (hb : IsRot b) : IsRot (a.mul b) := by
  refine ⟨?_, ?_, ?_⟩
  · rw [transpose_mul, mul_assoc', ← mul_assoc' b, hb.1, one_mul', ha.1]
  · rw [transpose_mul, mul_assoc', ← mul_assoc' a.transpose, ha.2.1, one_mul', hb.2.1]
  · rw [det_mul, ha.2.2, hb.2.2, mul_one]

/-- `Mᵀ (M v) = v` -/
theorem IsRot.transpose_mulVec_mulVec {m : Mat3 α} (h : IsRot m) (v : Vec3 α) :
    m.transpose.mulVec (m.mulVec v) = v := by
  rw [← mulVec_mul, h.2.1, one_mulVec]

/-- `M (Mᵀ v) = v` -/
theorem IsRot.mulVec_transpose_mulVec {m : Mat3 α} (h : IsRot m) (v : Vec3 α) :
    m.mulVec (m.transpose.mulVec v) = v := by
  rw [← mulVec_mul, h.1, one_mulVec]

/-- rotations preserve the dot product -/
theorem IsRot.dot_mulVec_mulVec {m : Mat3 α} (h : IsRot m) (v w : Vec3 α) :
    (m.mulVec v).dot (m.mulVec w) = v.dot w := by
  rw [dot_mulVec, h.transpose_mulVec_mulVec]
end Mat3

/-! ### angles and elementary rotations -/
theorem Ang.Unit.add {p q : Ang α} (hp : p.Unit) (hq : q.Unit) : (p.add q).Unit := by
  unfold Ang.Unit at *; unfold_frames
  linear_combination (q.c * q.c + q.s * q.s) * hp + hq

theorem Ang.Unit.neg {p : Ang α} (hp : p.Unit) : p.neg.Unit := by
  unfold Ang.Unit at *; unfold_frames; linear_combination hp

theorem Ang.Unit.sub {p q : Ang α} (hp : p.Unit) (hq : q.Unit) : (p.sub q).Unit := hp.add hq.neg

theorem Ang.Unit.quarter {p : Ang α} (hp : p.Unit) : p.quarter.Unit := by
  unfold Ang.Unit at *; unfold_frames; linear_combination hp

theorem Ang.Unit.zero : (Ang.zero : Ang α).Unit := by unfold Ang.Unit; unfold_frames; ring

theorem Ang.add_zero' (p : Ang α) : p.add Ang.zero = p := by frames_ring
theorem Ang.zero_add' (p : Ang α) : Ang.zero.add p = p := by frames_ring
theorem Ang.add_comm' (p q : Ang α) : p.add q = q.add p := by frames_ring
theorem Ang.add_assoc' (p q r : Ang α) : (p.add q).add r = p.add (q.add r) := by frames_ring

theorem Ang.add_neg_cancel {p : Ang α} (hp : p.Unit) : p.add p.neg = Ang.zero := by
  unfold Ang.Unit at hp
  ext <;> unfold_frames
  · linear_combination hp
  · ring

theorem Ang.sub_add_cancel' {p q : Ang α} (hq : q.Unit) : (p.sub q).add q = p := by
  unfold Ang.Unit at hq
  ext <;> unfold_frames
  · linear_combination p.c * hq
  · linear_combination p.s * hq

theorem Ang.ofHalf_unit (a b : α) (h : a * a + b * b ≠ 0) : (Ang.ofHalf a b).Unit := by
  unfold Ang.Unit; unfold_frames
  rw [div_mul_div_comm, div_mul_div_comm, ← add_div, div_eq_one_iff_eq (mul_ne_zero h h)]; ring

theorem isRot_rotZ {a : Ang α} (h : a.Unit) : (rotZ a).IsRot := by
  unfold Ang.Unit at h
  refine ⟨?_, ?_, ?_⟩
  · ext <;> unfold_frames <;> first | linear_combination h | ring
  · ext <;> unfold_frames <;> first | linear_combination h | ring
  · unfold_frames; linear_combination h

theorem isRot_rotX {a : Ang α} (h : a.Unit) : (rotX a).IsRot := by
  unfold Ang.Unit at h
  refine ⟨?_, ?_, ?_⟩
  · ext <;> unfold_frames <;> first | linear_combination h | ring
  · ext <;> unfold_frames <;> first | linear_combination h | ring
  · unfold_frames; linear_combination h

theorem isRot_rotY {a : Ang α} (h : a.Unit) : (rotY a).IsRot := by
  unfold Ang.Unit at h
  refine ⟨?_, ?_, ?_⟩
  · ext <;> unfold_frames <;> first | linear_combination h | ring
  · ext <;> unfold_frames <;> first | linear_combination h | ring
  · unfold_frames; linear_combination h

theorem isRot_euler {y p r : Ang α} (hy : y.Unit) (hp : p.Unit) (hr : r.Unit) : (euler y p r).IsRot := by
  rw [euler_eq]; exact (isRot_rotZ hy).mul ((isRot_rotX hp).mul (isRot_rotY hr))

theorem euler_zero : euler (Ang.zero : Ang α) Ang.zero Ang.zero = Mat3.one := by frames_ring

theorem rotZ_add (a b : Ang α) : rotZ (a.add b) = (rotZ a).mul (rotZ b) := by frames_ring

/-! ### quaternions -/
namespace Quat
theorem mul_assoc' (a b c : Quat α) : (a.mul b).mul c = a.mul (b.mul c) := by frames_ring
theorem normSq_mul (a b : Quat α) : (a.mul b).normSq = a.normSq * b.normSq := by unfold_frames; ring
theorem normSq_conj (a : Quat α) : a.conj.normSq = a.normSq := by unfold_frames; ring

theorem rawMat_mul (a b : Quat α) : (a.mul b).rawMat = a.rawMat.mul b.rawMat := by frames_ring
theorem rawMat_conj (a : Quat α) : a.conj.rawMat = a.rawMat.transpose := by frames_ring
theorem rawMat_mul_transpose (a : Quat α) :
    a.rawMat.mul a.rawMat.transpose = Mat3.scale (a.normSq * a.normSq) Mat3.one := by frames_ring
theorem rawMat_transpose_mul (a : Quat α) :
    a.rawMat.transpose.mul a.rawMat = Mat3.scale (a.normSq * a.normSq) Mat3.one := by frames_ring
theorem det_rawMat (a : Quat α) : a.rawMat.det = a.normSq * a.normSq * a.normSq := by unfold_frames; ring

/-- the quaternion product is the matrix product (no unit-norm hypothesis needed) -/
theorem toMat_mul (a b : Quat α) : (a.mul b).toMat = a.toMat.mul b.toMat := by
  simp only [toMat, rawMat_mul, normSq_mul, Mat3.sdiv_mul_sdiv]

theorem toMat_conj (a : Quat α) : a.conj.toMat = a.toMat.transpose := by
  simp only [toMat, rawMat_conj, normSq_conj, Mat3.sdiv_transpose]

theorem toMat_isRot (a : Quat α) (ha : a.normSq ≠ 0) : a.toMat.IsRot := by
  refine ⟨?_, ?_, ?_⟩
  · simp only [toMat, Mat3.sdiv_transpose, Mat3.sdiv_mul_sdiv, rawMat_mul_transpose]
    exact Mat3.scale_one_sdiv _ (mul_ne_zero ha ha)
  · simp only [toMat, Mat3.sdiv_transpose, Mat3.sdiv_mul_sdiv, rawMat_transpose_mul]
    exact Mat3.scale_one_sdiv _ (mul_ne_zero ha ha)
  · simp only [toMat, Mat3.det_sdiv, det_rawMat]; exact div_self (mul_ne_zero (mul_ne_zero ha ha) ha)

/-- a non-zero real scalar acts as the identity rotation -/
theorem toMat_scalar (k : α) (hk : k ≠ 0) : (⟨k, 0, 0, 0⟩ : Quat α).toMat = Mat3.one := by
  have : (⟨k, 0, 0, 0⟩ : Quat α).rawMat = Mat3.scale (k * k) Mat3.one := by frames_ring
  have hn : (⟨k, 0, 0, 0⟩ : Quat α).normSq = k * k := by unfold_frames; ring
  rw [toMat, this, hn]; exact Mat3.scale_one_sdiv _ (mul_ne_zero hk hk)

theorem mul_conj (a : Quat α) : a.mul a.conj = ⟨a.normSq, 0, 0, 0⟩ := by frames_ring
theorem conj_mul (a : Quat α) : a.conj.mul a = ⟨a.normSq, 0, 0, 0⟩ := by frames_ring
end Quat

end Scenic.Frames
