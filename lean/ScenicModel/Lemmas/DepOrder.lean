import ScenicModel.Model.DepOrder
import ScenicModel.Lemmas.Determinism
namespace Scenic.Det

/-! ### identity-keyed ordered accumulation commutes with a change of addresses -/

theorem contains_map_inj (ρ : Id → Id) (hρ : Inj ρ) (l : List Id) (x : Id) :
    (l.map ρ).contains (ρ x) = l.contains x := by
  induction l with
  | nil => rfl
  | cons a t ih =>
    simp only [List.map_cons, List.contains_cons]
    by_cases h : x = a
    · subst h; simp
    · have h' : ρ x ≠ ρ a := fun e => h (hρ _ _ e)
      have e1 : (ρ x == ρ a) = false := by simpa using h'
      have e2 : (x == a) = false := by simpa using h
      rw [e1, e2, ih]

theorem dedupInto_map (ρ : Id → Id) (hρ : Inj ρ) (l acc : List Id) :
    dedupInto (acc.map ρ) (l.map ρ) = (dedupInto acc l).map ρ := by
  induction l generalizing acc with
  | nil => rfl
  | cons x xs ih =>
    simp only [List.map_cons, dedupInto, contains_map_inj ρ hρ]
    by_cases h : acc.contains x = true
    · simp only [h, if_true]; exact ih acc
    · simp only [h]
      have := ih (acc ++ [x])
      simpa using this

theorem orderedDedup_map (ρ : Id → Id) (hρ : Inj ρ) (l : List Id) :
    orderedDedup (l.map ρ) = (orderedDedup l).map ρ := by
  have := dedupInto_map ρ hρ l []
  simpa [orderedDedup] using this

/-- the accumulated keys: everything already there stays, in place -/
theorem dedupInto_prefix (l acc : List Id) : ∃ t, dedupInto acc l = acc ++ t := by
  induction l generalizing acc with
  | nil => exact ⟨[], by simp [dedupInto]⟩
  | cons x xs ih =>
    simp only [dedupInto]
    by_cases h : acc.contains x = true
    · simp only [h, if_true]; exact ih acc
    · simp only [h]
      obtain ⟨t, ht⟩ := ih (acc ++ [x])
      exact ⟨x :: t, by simp [ht]⟩

theorem mem_dedupInto (l acc : List Id) (y : Id) : y ∈ dedupInto acc l ↔ y ∈ acc ∨ y ∈ l := by
  induction l generalizing acc with
  | nil => simp [dedupInto]
  | cons x xs ih =>
    simp only [dedupInto]
    cases h : acc.contains x
    · simp only [Bool.false_eq_true, if_false]
      rw [ih]
      simp only [List.mem_append, List.mem_cons, List.mem_nil_iff, or_false]
      constructor
      · rintro ((h1 | h1) | h1)
        · exact Or.inl h1
        · exact Or.inr (Or.inl h1)
        · exact Or.inr (Or.inr h1)
      · rintro (h1 | h1 | h1)
        · exact Or.inl (Or.inl h1)
        · exact Or.inl (Or.inr h1)
        · exact Or.inr h1
    · simp only [if_true]
      rw [ih]
      have hx : x ∈ acc := by simpa using h
      simp only [List.mem_cons]
      constructor
      · rintro (h1 | h1)
        · exact Or.inl h1
        · exact Or.inr (Or.inr h1)
      · rintro (h1 | h1 | h1)
        · exact Or.inl h1
        · exact Or.inl (h1 ▸ hx)
        · exact Or.inr h1

theorem nodup_dedupInto (l acc : List Id) (h : acc.Nodup) : (dedupInto acc l).Nodup := by
  induction l generalizing acc with
  | nil => simpa [dedupInto] using h
  | cons x xs ih =>
    simp only [dedupInto]
    by_cases hx : acc.contains x = true
    · simp only [hx, if_true]; exact ih acc h
    · simp only [hx]
      apply ih
      have hx' : x ∉ acc := by simpa using hx
      rw [List.nodup_append]
      refine ⟨h, by simp, ?_⟩
      intro a ha b hb
      have : b = x := by simpa using hb
      subst this
      intro e; subst e; exact hx' ha

/-- nothing is lost, nothing is invented -/
theorem mem_orderedDedup (l : List Id) (y : Id) : y ∈ orderedDedup l ↔ y ∈ l := by
  simp [orderedDedup, mem_dedupInto]

/-- every identity is sampled from this segment at most once -/
theorem nodup_orderedDedup (l : List Id) : (orderedDedup l).Nodup :=
  nodup_dedupInto l [] (by simp)

/-! ### filters, look-ups -/

theorem needsB_map (ρ : Id → Id) (hρ : Inj ρ) (needs : List Id) (i : Id) :
    needsB (needs.map ρ) (ρ i) = needsB needs i := contains_map_inj ρ hρ needs i

theorem filter_needs_map (ρ : Id → Id) (hρ : Inj ρ) (needs l : List Id) :
    (l.map ρ).filter (needsB (needs.map ρ)) = (l.filter (needsB needs)).map ρ := by
  induction l with
  | nil => rfl
  | cons a t ih =>
    simp only [List.map_cons, List.filter_cons, needsB_map ρ hρ]
    by_cases h : needsB needs a = true
    · simp [h, ih]
    · simp [h, ih]

theorem lookup_renFuncs (ρ : Id → Id) (hρ : Inj ρ) (fs : List (Id × List Id)) (f : Id) :
    ((renFuncs ρ fs).lookup (ρ f)).getD []
      = ((fs.lookup f).getD []).map ρ := by
  unfold renFuncs
  induction fs with
  | nil => rfl
  | cons p t ih =>
    obtain ⟨g, cs⟩ := p
    simp only [List.map_cons, List.lookup_cons]
    by_cases h : f = g
    · subst h; simp
    · have h' : ρ f ≠ ρ g := fun e => h (hρ _ _ e)
      have e1 : (ρ f == ρ g) = false := by simpa using h'
      have e2 : (f == g) = false := by simpa using h
      rw [e1, e2]; exact ih

theorem flatMap_cells_map (ρ : Id → Id) (hρ : Inj ρ) (fs : List (Id × List Id)) (l : List Id) :
    ((l.map ρ).flatMap fun f => ((renFuncs ρ fs).lookup f).getD [])
      = (l.flatMap fun f => (fs.lookup f).getD []).map ρ := by
  induction l with
  | nil => rfl
  | cons a t ih =>
    simp only [List.map_cons, List.flatMap_cons, List.map_append, lookup_renFuncs ρ hρ, ih]

/-! ### the tuple built from insertion-ordered containers -/

/-- `Scenario.dependencies` when every container iterates in insertion order -/
def atomCellsOrdered (fs : List (Id × List Id)) : List Id :=
  (orderedDedup (fs.map (·.1))).flatMap fun f => (fs.lookup f).getD []

theorem atomCellsOrdered_ren (ρ : Id → Id) (hρ : Inj ρ) (fs : List (Id × List Id)) :
    atomCellsOrdered (renFuncs ρ fs) = (atomCellsOrdered fs).map ρ := by
  unfold atomCellsOrdered
  have hf : (renFuncs ρ fs).map (·.1) = (fs.map (·.1)).map ρ := by
    simp [renFuncs, List.map_map, Function.comp_def]
  rw [hf, orderedDedup_map ρ hρ, flatMap_cells_map ρ hρ]

theorem flatMap_atomCellsOrdered_ren (ρ : Id → Id) (hρ : Inj ρ) (as : List (List (Id × List Id))) :
    (as.map (renFuncs ρ)).flatMap atomCellsOrdered = (as.flatMap atomCellsOrdered).map ρ := by
  induction as with
  | nil => rfl
  | cons a t ih =>
    simp only [List.map_cons, List.flatMap_cons, List.map_append, atomCellsOrdered_ren ρ hρ, ih]

def depSrcOrdered (I : CompileInput) (r : ReqSrc) : DepSrc → List Id
  | .bindings => r.bindings.filter (needsB I.needs)
  | .cells => (r.atoms.flatMap atomCellsOrdered).filter (needsB I.needs)
  | .objectsIfCanSee => if r.canSee then I.objects else []
  | .ego => r.ego.toList

def reqDepsOrdered (srcs : List DepSrc) (I : CompileInput) (r : ReqSrc) : List Id :=
  orderedDedup (srcs.flatMap (depSrcOrdered I r))

def segmentOrdered (srcs : List DepSrc) (I : CompileInput) : Seg → List Id
  | .instances => I.instances
  | .params => I.params.filter (needsB I.samplable)
  | .reqDeps => orderedDedup (I.reqs.flatMap (reqDepsOrdered srcs I))
  | .behaviors => I.behaviorVals.filter (needsB I.samplable)

def dependenciesOrdered (srcs : List DepSrc) (segs : List Seg) (I : CompileInput) : List Id :=
  segs.flatMap (segmentOrdered srcs I)

theorem allOrdered_fields (k : Kinds) (h : k.allOrdered = true) :
    k.bindings = true ∧ k.closures = true ∧ k.cells = true ∧ k.compileDeps = true ∧
    k.dynDeps = true ∧ k.passed = true ∧ k.instances = true ∧ k.paramDeps = true ∧
    k.behaviorDeps = true ∧ k.dependencies = true := by
  simp only [Kinds.allOrdered, Bool.and_eq_true] at h
  obtain ⟨⟨⟨⟨⟨⟨⟨⟨⟨h1, h2⟩, h3⟩, h4⟩, h5⟩, h6⟩, h7⟩, h8⟩, h9⟩, h10⟩ := h
  exact ⟨h1, h2, h3, h4, h5, h6, h7, h8, h9, h10⟩

theorem depSrc_ordered (k : Kinds) (h : k.allOrdered = true) (I : CompileInput) (r : ReqSrc)
    (s : DepSrc) : depSrc k I r s = depSrcOrdered I r s := by
  obtain ⟨h1, h2, h3, _, _, _, _, _, _, _⟩ := allOrdered_fields k h
  have ha : atomCells k = atomCellsOrdered := by
    funext fs; simp [atomCells, atomClosures, atomCellsOrdered, iterUnique, h2]
  cases s <;> simp [depSrc, depSrcOrdered, reqCells, iterSeq, h1, h3, ha]

theorem reqDeps_ordered (k : Kinds) (h : k.allOrdered = true) (srcs : List DepSrc)
    (I : CompileInput) (r : ReqSrc) : reqDeps k srcs I r = reqDepsOrdered srcs I r := by
  obtain ⟨_, _, _, h4, _, _, _, _, _, _⟩ := allOrdered_fields k h
  have : depSrc k I r = depSrcOrdered I r := funext (depSrc_ordered k h I r)
  simp [reqDeps, reqDepsOrdered, iterUnique, h4, this]

theorem segment_ordered (k : Kinds) (h : k.allOrdered = true) (srcs : List DepSrc)
    (I : CompileInput) (s : Seg) : segment k srcs I s = segmentOrdered srcs I s := by
  obtain ⟨_, _, _, _, h5, h6, h7, h8, h9, _⟩ := allOrdered_fields k h
  have hr : reqDeps k srcs I = reqDepsOrdered srcs I := funext (reqDeps_ordered k h srcs I)
  cases s <;> simp [segment, segmentOrdered, requirementDeps, iterUnique, iterSeq, h5, h6, h7, h8, h9, hr]

theorem dependencies_ordered (k : Kinds) (h : k.allOrdered = true) (srcs : List DepSrc)
    (segs : List Seg) (I : CompileInput) :
    dependencies k srcs segs I = dependenciesOrdered srcs segs I := by
  obtain ⟨_, _, _, _, _, _, _, _, _, h10⟩ := allOrdered_fields k h
  have hs : segment k srcs I = segmentOrdered srcs I := funext (segment_ordered k h srcs I)
  simp [dependencies, dependenciesOrdered, iterSeq, h10, hs]

theorem depSrcOrdered_ren (ρ : Id → Id) (hρ : Inj ρ) (I : CompileInput) (r : ReqSrc) (s : DepSrc) :
    depSrcOrdered (renInput ρ I) (renReq ρ r) s = (depSrcOrdered I r s).map ρ := by
  have hn : (renInput ρ I).needs = I.needs.map ρ := rfl
  cases s with
  | bindings =>
    have hb : (renReq ρ r).bindings = r.bindings.map ρ := rfl
    simp only [depSrcOrdered, hb, hn, filter_needs_map ρ hρ]
  | cells =>
    have ha : (renReq ρ r).atoms = r.atoms.map (renFuncs ρ) := rfl
    simp only [depSrcOrdered, hn, ha]
    rw [flatMap_atomCellsOrdered_ren ρ hρ, filter_needs_map ρ hρ]
  | objectsIfCanSee =>
    have ho : (renInput ρ I).objects = I.objects.map ρ := rfl
    have hcs : (renReq ρ r).canSee = r.canSee := rfl
    simp only [depSrcOrdered, ho, hcs]
    split <;> simp
  | ego =>
    have he : (renReq ρ r).ego = r.ego.map ρ := rfl
    simp only [depSrcOrdered, he]
    cases r.ego <;> simp

theorem reqDepsOrdered_ren (ρ : Id → Id) (hρ : Inj ρ) (srcs : List DepSrc) (I : CompileInput)
    (r : ReqSrc) :
    reqDepsOrdered srcs (renInput ρ I) (renReq ρ r) = (reqDepsOrdered srcs I r).map ρ := by
  unfold reqDepsOrdered
  have : srcs.flatMap (depSrcOrdered (renInput ρ I) (renReq ρ r))
      = (srcs.flatMap (depSrcOrdered I r)).map ρ := by
    induction srcs with
    | nil => rfl
    | cons s t ih => simp only [List.flatMap_cons, List.map_append, depSrcOrdered_ren ρ hρ, ih]
  rw [this, orderedDedup_map ρ hρ]

theorem flatMap_reqDepsOrdered_ren (ρ : Id → Id) (hρ : Inj ρ) (srcs : List DepSrc)
    (I : CompileInput) (rs : List ReqSrc) :
    (rs.map (renReq ρ)).flatMap (reqDepsOrdered srcs (renInput ρ I))
      = (rs.flatMap (reqDepsOrdered srcs I)).map ρ := by
  induction rs with
  | nil => rfl
  | cons r t ih =>
    simp only [List.map_cons, List.flatMap_cons, List.map_append, reqDepsOrdered_ren ρ hρ, ih]

theorem segmentOrdered_ren (ρ : Id → Id) (hρ : Inj ρ) (srcs : List DepSrc) (I : CompileInput)
    (s : Seg) : segmentOrdered srcs (renInput ρ I) s = (segmentOrdered srcs I s).map ρ := by
  have h1 : (renInput ρ I).instances = I.instances.map ρ := rfl
  have h2 : (renInput ρ I).params = I.params.map ρ := rfl
  have h3 : (renInput ρ I).reqs = I.reqs.map (renReq ρ) := rfl
  have h4 : (renInput ρ I).behaviorVals = I.behaviorVals.map ρ := rfl
  have h5 : (renInput ρ I).samplable = I.samplable.map ρ := rfl
  cases s with
  | instances => simp only [segmentOrdered, h1]
  | params => simp only [segmentOrdered, h2, h5, filter_needs_map ρ hρ]
  | reqDeps =>
    simp only [segmentOrdered, h3, flatMap_reqDepsOrdered_ren ρ hρ, orderedDedup_map ρ hρ]
  | behaviors => simp only [segmentOrdered, h4, h5, filter_needs_map ρ hρ]

theorem dependenciesOrdered_ren (ρ : Id → Id) (hρ : Inj ρ) (srcs : List DepSrc) (segs : List Seg)
    (I : CompileInput) :
    dependenciesOrdered srcs segs (renInput ρ I) = (dependenciesOrdered srcs segs I).map ρ := by
  unfold dependenciesOrdered
  induction segs with
  | nil => rfl
  | cons s t ih => simp only [List.flatMap_cons, List.map_append, segmentOrdered_ren ρ hρ, ih]

/-- with insertion-ordered containers the dependency tuple does not depend on the addresses,
    whatever the order in which the source concatenates the segments and adds the sources -/
theorem dependencies_ren (k : Kinds) (h : k.allOrdered = true) (srcs : List DepSrc)
    (segs : List Seg) (ρ : Id → Id) (hρ : Inj ρ) (I : CompileInput) :
    dependencies k srcs segs (renInput ρ I) = (dependencies k srcs segs I).map ρ := by
  rw [dependencies_ordered k h, dependencies_ordered k h, dependenciesOrdered_ren ρ hρ]

/-- the requirement segment never lists an identity twice, and lists exactly what some requirement
    depends on -/
theorem nodup_requirementDeps (k : Kinds) (h : k.allOrdered = true) (srcs : List DepSrc)
    (I : CompileInput) : (requirementDeps k srcs I).Nodup := by
  obtain ⟨_, _, _, _, h5, _, _, _, _, _⟩ := allOrdered_fields k h
  simp only [requirementDeps, iterUnique, h5, if_true]
  exact nodup_orderedDedup _

theorem mem_requirementDeps (k : Kinds) (h : k.allOrdered = true) (srcs : List DepSrc)
    (I : CompileInput) (y : Id) :
    y ∈ requirementDeps k srcs I ↔ ∃ r ∈ I.reqs, y ∈ reqDeps k srcs I r := by
  obtain ⟨_, _, _, _, h5, _, _, _, _, _⟩ := allOrdered_fields k h
  simp only [requirementDeps, iterUnique, h5, if_true, mem_orderedDedup, List.mem_flatMap]

/-! ### the cost-sorted arrangement is a rearrangement -/

theorem mem_insertByCost {α : Type} (cost : α → Nat) (a x : α) (l : List α) :
    x ∈ insertByCost cost a l ↔ x = a ∨ x ∈ l := by
  induction l with
  | nil => simp [insertByCost]
  | cons b t ih =>
    simp only [insertByCost]
    split
    · simp
    · simp only [List.mem_cons, ih]
      constructor
      · rintro (h | h | h)
        · exact Or.inr (Or.inl h)
        · exact Or.inl h
        · exact Or.inr (Or.inr h)
      · rintro (h | h | h)
        · exact Or.inr (Or.inl h)
        · exact Or.inl h
        · exact Or.inr (Or.inr h)

theorem mem_sortByCost {σ κ : Type} (cost : κ → Req σ → Nat) (k : κ) (l : List (Req σ))
    (r : Req σ) : r ∈ sortByCost cost k l ↔ r ∈ l := by
  unfold sortByCost
  induction l with
  | nil => simp
  | cons a t ih => simp only [List.foldr_cons, mem_insertByCost, ih, List.mem_cons]

/-- the arrangement is sorted: costs never decrease along it -/
theorem sorted_insertByCost {α : Type} (cost : α → Nat) (a : α) (l : List α)
    (h : l.Pairwise fun x y => cost x ≤ cost y) :
    (insertByCost cost a l).Pairwise fun x y => cost x ≤ cost y := by
  induction l with
  | nil => simp [insertByCost]
  | cons b t ih =>
    simp only [insertByCost]
    have hb := List.pairwise_cons.mp h
    split
    · rename_i hab
      refine List.pairwise_cons.mpr ⟨?_, h⟩
      intro y hy
      rcases List.mem_cons.mp hy with rfl | hy
      · exact hab
      · exact Nat.le_trans hab (hb.1 y hy)
    · rename_i hab
      refine List.pairwise_cons.mpr ⟨?_, ih hb.2⟩
      intro y hy
      rcases (mem_insertByCost cost a y t).mp hy with rfl | hy
      · omega
      · exact hb.1 y hy

theorem sorted_sortByCost {σ κ : Type} (cost : κ → Req σ → Nat) (k : κ) (l : List (Req σ)) :
    (sortByCost cost k l).Pairwise fun x y => cost k x ≤ cost k y := by
  unfold sortByCost
  induction l with
  | nil => simp
  | cons a t ih => exact sorted_insertByCost (cost k) a _ ih

end Scenic.Det
