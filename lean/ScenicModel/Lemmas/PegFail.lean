import ScenicModel.Lemmas.Peg
/-! # Guarded alternatives fail plainly on streams without the guard words (C09) -/
namespace Scenic.Peg

section
variable (g : Grammar) (toks : Array Tok) (ci : Bool) (F S R : Mask)

theorem lit_fails (hW : wordFree R toks) (i p : Nat) (hi : R.has i = true) :
    matchTok toks p (fun t => t.lit == i) = .fail := by
  unfold matchTok
  split
  · rename_i t ht
    have hm : t ∈ toks := Array.mem_of_getElem? ht
    have := hW t hm
    have hne : (t.lit == i) = false := by
      cases h : t.lit == i
      · rfl
      · have : t.lit = i := by simpa using h
        rw [this] at *; simp_all
    simp [hne]
  · rfl

theorem mustFail_all (hW : wordFree R toks)
    (hF : ∀ r rule, F.has r = true → g.rules[r]? = some rule → mustFail F S R ci rule.body = true)
    (hS : ∀ r rule, S.has r = true → g.rules[r]? = some rule → noErr S rule.body = true) : ∀ fuel,
    (∀ sd e p, SeedsF F sd → mustFail F S R ci e = true → (eval g toks ci fuel sd e p).FO) ∧
    (∀ sd r body p, SeedsF F sd → F.has r = true → mustFail F S R ci body = true →
        (grow g toks ci fuel sd r body p none).FO) := by
  intro fuel
  induction fuel with
  | zero => constructor <;> intros <;> simp [eval, grow]
  | succ n ih =>
    obtain ⟨ihE, ihG⟩ := ih
    constructor
    · intro sd e p hsd h
      cases e with
      | fail => simp [eval]
      | lit i =>
        simp only [mustFail] at h
        simp only [eval, lit_fails toks R hW i p h, FO_fail]
      | ref r =>
        simp only [mustFail] at h
        simp only [eval]
        split
        · rename_i s hs
          have := hsd r p s hs h
          subst this; simp [Seed.toRes]
        · split
          · simp
          · rename_i rule hrule
            have hb := hF r rule h hrule
            split
            · exact ihG _ _ _ _ hsd h hb
            · exact FO_item (ihE _ _ _ hsd hb)
      | seq a b =>
        simp only [mustFail, Bool.or_eq_true, Bool.and_eq_true] at h
        simp only [eval]
        rcases h with h | ⟨⟨hne, hsp⟩, hb⟩
        · rcases ihE sd a p hsd h with h1 | h1 <;> rw [h1] <;> simp
        · have hflat := (flat_all g toks ci n).1 sd a p hsp
          have hnerr := (noErr_all g toks ci hS n).1 sd a p hne
          cases hra : eval g toks ci n sd a p with
          | ok q c evs =>
            rw [hra] at hflat; simp only [flat_ok] at hflat; subst hflat
            rcases ihE sd b q hsd hb with h1 | h1 <;> simp [h1]
          | _ => simp_all
      | alt a b =>
        simp only [mustFail, Bool.and_eq_true] at h
        simp only [eval]
        apply FO_item
        rcases ihE sd a p hsd h.1 with h1 | h1 <;> rw [h1] <;> simp
        exact ihE sd b p hsd h.2
      | plus a =>
        simp only [mustFail] at h
        simp only [eval]
        apply FO_item
        rcases ihE sd a p hsd h with h1 | h1 <;> rw [h1] <;> simp [Res.item]
      | pos a =>
        simp only [mustFail] at h
        simp only [eval]
        apply FO_item
        rcases ihE sd a p hsd h with h1 | h1 <;> rw [h1] <;> simp [Res.item]
      | gather s a =>
        simp only [mustFail] at h
        simp only [eval]
        apply FO_item
        rcases ihE sd a p hsd h with h1 | h1 <;> rw [h1] <;> simp [Res.item]
      | act l a =>
        simp only [mustFail] at h
        simp only [eval]
        rcases ihE sd a p hsd h with h1 | h1 <;> rw [h1] <;> simp
      | inv a =>
        simp only [mustFail, Bool.or_eq_true, Bool.not_eq_true'] at h
        simp only [eval]
        split
        · rename_i hci
          rcases h with h | h
          · simp_all
          · exact ihE sd a p hsd h
        · simp
      | _ => simp [mustFail] at h
    · intro sd r body p hsd hr hb
      simp only [grow]
      apply FO_item
      have hsd' : SeedsF F ((r, p, none) :: sd) := SeedsF_cons hsd r p none (fun _ => rfl)
      rcases ihE _ body p hsd' hb with h1 | h1 <;> rw [h1] <;> simp [Res.item, Seed.toRes]
end
end Scenic.Peg
