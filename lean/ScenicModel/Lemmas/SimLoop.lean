import ScenicModel.Model.SimLoop
import ScenicModel.Model.SimSpec
/-! # C12 — lemmas about the coroutine machine and the simulation loop

`Grows C l l2`: the log `l2` extends `l` by events satisfying `C`; `Ext C st st2`: same clock,
log extended by `C`-events.  Every function of the model is shown to extend the log only by
events of the class of the phase it belongs to (scenario / monitor / stop events), for every
fuel value. -/
namespace Scenic.SimLoop

/-- events a coroutine of the given owner may emit -/
def Ev.ofOwner (o : Owner) : Ev → Bool
  | .c i _ => o == .comp i
  | .m i j _ => o == .mon i j
  | .b a _ => o == .beh a
  | .cond x _ _ => x == o.ctx
  | _ => false

/-- `l2` extends `l` by events satisfying `C` -/
def Grows (C : Ev → Bool) (l l2 : List Ev) : Prop := ∃ l', l2 = l ++ l' ∧ ∀ e ∈ l', C e = true

theorem Grows.refl (C) (l : List Ev) : Grows C l l := ⟨[], by simp⟩
theorem Grows.trans {C} {a b c : List Ev} (h1 : Grows C a b) (h2 : Grows C b c) : Grows C a c := by
  obtain ⟨x, rfl, hx⟩ := h1
  obtain ⟨y, rfl, hy⟩ := h2
  exact ⟨x ++ y, by simp, by intro e he; simp at he; rcases he with h | h; exact hx e h; exact hy e h⟩
theorem Grows.snoc {C} {l l2 : List Ev} {e : Ev} (h : Grows C (l ++ [e]) l2) (he : C e = true) : Grows C l l2 :=
  Grows.trans ⟨[e], rfl, by simp [he]⟩ h
theorem Grows.mono {C D : Ev → Bool} {a b : List Ev} (h : Grows C a b) (hcd : ∀ e, C e = true → D e = true) :
    Grows D a b := by
  obtain ⟨x, rfl, hx⟩ := h
  exact ⟨x, rfl, fun e he => hcd e (hx e he)⟩

theorem scan_log (P : Code) (o : Owner) (t : Nat) (s : Stack) :
    ∀ e ∈ (scan P o t s).1, Ev.ofOwner o e = true := by
  induction s with
  | nil => simp [scan]
  | cons f rest ih =>
    unfold scan
    split
    · rename_i l r h; rw [h] at ih; exact ih
    · rename_i l h; rw [h] at ih
      split
      · rename_i g
        intro e he
        simp only [List.mem_append] at he
        rcases he with he | he
        · exact ih e he
        · cases g with
          | forT a b => simp [Guard.evs] at he
          | untilC c => simp [Guard.evs] at he; subst he; simp [Ev.ofOwner]
      · exact ih

theorem logEv_ofOwner (o : Owner) (tag : Nat) : Ev.ofOwner o (logEv o tag) = true := by
  cases o <;> simp [logEv, Ev.ofOwner]

theorem exec_log (P : Code) (o : Owner) (t : Nat) (n : Nat) : ∀ (s : Stack) (l : List Ev),
    Grows (Ev.ofOwner o) l (exec P o t n s l).log := by
  induction n with
  | zero => intro s l; exact Grows.refl _ _
  | succ n ih =>
    intro s l
    unfold exec
    split
    · exact Grows.refl _ _
    · exact ih _ _
    · rename_i st ss r
      cases st with
      | log tag => exact (ih _ _).snoc (logEv_ofOwner o tag)
      | take a => exact Grows.refl _ _
      | wait => exact Grows.refl _ _
      | term => exact Grows.refl _ _
      | termSim => exact Grows.refl _ _
      | rep c body => exact ih _ _
      | forever body => exact ih _ _
      | ite c a b => exact (ih _ _).snoc (by simp [Ev.ofOwner])
      | doSub subs m =>
        cases m with
        | none =>
          simp only
          split
          · exact ih _ _
          · exact Grows.refl _ _
        | forT thr =>
          simp only
          split
          · exact ih _ _
          · split
            · exact ih _ _
            · exact Grows.refl _ _
        | untilC c =>
          simp only
          split
          · exact (ih _ _).snoc (by simp [Ev.ofOwner])
          · split
            · exact (ih _ _).snoc (by simp [Ev.ofOwner])
            · exact Grows.snoc (Grows.refl _ _) (by simp [Ev.ofOwner])
    · exact ih _ _
    · exact ih _ _
    · exact ih _ _
    · exact ih _ _
    · exact Grows.refl _ _
    · exact Grows.refl _ _

theorem resume_log (P : Code) (o : Owner) (t fuel : Nat) (s : Stack) :
    Grows (Ev.ofOwner o) [] (resume P o t fuel s).log := by
  unfold resume
  have hs := scan_log P o t s
  split
  · rename_i l rest h
    rw [h] at hs
    have h0 : Grows (Ev.ofOwner o) [] l := ⟨l, by simp, hs⟩
    cases o with
    | comp i => exact h0
    | mon i j => exact h0.trans (exec_log ..)
    | beh a => exact h0.trans (exec_log ..)
  · rename_i l h
    rw [h] at hs
    exact Grows.trans ⟨l, by simp, hs⟩ (exec_log ..)

def Ev.isStop : Ev → Bool
  | .stop _ => true
  | _ => false

/-- `st'` is `st` with the same clock and a log extended by events satisfying `C` -/
def Ext (C : Ev → Bool) (st st' : St) : Prop := st'.time = st.time ∧ Grows C st.log st'.log

namespace Ext
theorem refl (C) (st : St) : Ext C st st := ⟨rfl, Grows.refl _ _⟩
theorem trans {C} {a b c : St} (h1 : Ext C a b) (h2 : Ext C b c) : Ext C a c :=
  ⟨h2.1.trans h1.1, h1.2.trans h2.2⟩
theorem mono {C D : Ev → Bool} {a b : St} (h : Ext C a b) (hcd : ∀ e, C e = true → D e = true) : Ext D a b :=
  ⟨h.1, h.2.mono hcd⟩
theorem emit {C} (st : St) (e : Ev) (he : C e = true) : Ext C st (st.emit e) :=
  ⟨rfl, ⟨[e], rfl, by simp [he]⟩⟩
theorem emits {C} (st : St) (l : List Ev) (hl : ∀ e ∈ l, C e = true) : Ext C st (st.emits l) :=
  ⟨rfl, ⟨l, rfl, hl⟩⟩
theorem modInst {C} (st : St) (i : Nat) (f : Inst → Inst) : Ext C st (st.modInst i f) := ⟨rfl, Grows.refl _ _⟩
theorem fail {C} (st : St) (a : Abort) : Ext C st (st.fail a) := ⟨rfl, Grows.refl _ _⟩
theorem setAgentCo {C} (st : St) (a : Nat) (s : Stack) : Ext C st (st.setAgentCo a s) := ⟨rfl, Grows.refl _ _⟩
end Ext

theorem stop_ext (n : Nat) :
    (∀ i st, Ext Ev.isStop st (stopScen n i st)) ∧ (∀ l st, Ext Ev.isStop st (stopList n l st)) := by
  induction n with
  | zero => exact ⟨fun i st => by unfold stopScen; exact Ext.fail _ _, fun l st => by unfold stopList; exact Ext.fail _ _⟩
  | succ n ih =>
    refine ⟨fun i st => ?_, fun l st => ?_⟩
    · unfold stopScen
      exact (((Ext.emit st (.stop i) rfl).trans (Ext.modInst _ _ _)).trans (ih.2 _ _)).trans (Ext.modInst _ _ _)
    · unfold stopList
      cases l with
      | nil => exact Ext.refl _ _
      | cons j rest =>
        simp only
        refine Ext.trans ?_ (ih.2 _ _)
        split
        · exact ih.1 _ _
        · exact Ext.refl _ _

theorem isScen_of_stop (e : Ev) (h : Ev.isStop e = true) : Ev.isScen e = true := by
  cases e <;> simp_all [Ev.isStop, Ev.isScen]

theorem isScen_of_comp (i : Nat) (e : Ev) (h : Ev.ofOwner (.comp i) e = true) : Ev.isScen e = true := by
  cases e <;> simp_all [Ev.ofOwner, Ev.isScen, Owner.ctx]

theorem addAgents_ext (C : Ev → Bool) (hC : ∀ a, C (.create a) = true) (P : Prog) (id : Nat) (l : List Nat) :
    ∀ st : St, Ext C st (addAgents P id l st) ∧ (addAgents P id l st).insts = st.insts := by
  induction l with
  | nil => intro st; exact ⟨Ext.refl _ _, rfl⟩
  | cons b rest ih =>
    intro st
    simp only [addAgents]
    obtain ⟨h1, h2⟩ := ih { st.emit (.create st.agents.length) with
      agents := st.agents ++ [⟨id, [.seq (P.code.behs.getD b [])]⟩] }
    have h0 : Ext C st { st.emit (.create st.agents.length) with
        agents := st.agents ++ [⟨id, [.seq (P.code.behs.getD b [])]⟩] } :=
      ⟨rfl, ⟨[.create st.agents.length], rfl, by simp [hC]⟩⟩
    exact ⟨h0.trans h1, h2⟩

theorem startOne_ext' (C : Ev → Bool) (hC : ∀ a, C (.create a) = true) (P : Prog) (k : Nat) (st : St) :
    Ext C st (startOne P k st) := by
  unfold startOne
  simp only
  obtain ⟨h1, _⟩ := addAgents_ext C hC P st.insts.length (P.scens.getD k default).agents st
  exact ⟨h1.1, h1.2⟩

theorem startOne_ext (P : Prog) (k : Nat) (st : St) : Ext Ev.isScen st (startOne P k st) :=
  startOne_ext' _ (by simp [Ev.isScen]) P k st

theorem startAll_ext (P : Prog) (subs : List Nat) : ∀ st : St, Ext Ev.isScen st (startAll P subs st) := by
  induction subs with
  | nil => intro st; exact Ext.refl _ _
  | cons k rest ih => intro st; simp only [startAll]; exact (startOne_ext P k st).trans (ih _)

theorem startSubs_ext (P : Prog) (i : Nat) (subs : List Nat) (st : St) :
    Ext Ev.isScen st (startSubs P i subs st) := by
  unfold startSubs
  exact (startAll_ext P subs st).trans (Ext.modInst _ _ _)

theorem evalTermWhen_ext (P : Prog) (l : List Nat) (st : St) :
    Ext Ev.isScen st (evalTermWhen P l st).1 := by
  induction l generalizing st with
  | nil => exact Ext.refl _ _
  | cons c rest ih =>
    unfold evalTermWhen
    simp only
    split
    · exact Ext.emit _ _ (by simp [Ev.isScen])
    · exact (Ext.emit _ _ (by simp [Ev.isScen])).trans (ih _)

theorem checkReqs_ext (P : Prog) (i : Nat) (st : St) : Ext Ev.isScen st (checkReqs P i st) := by
  unfold checkReqs
  split
  · exact Ext.emit _ _ rfl
  · exact Ext.refl _ _

theorem checkReqs_insts (P : Prog) (i : Nat) (st : St) :
    (checkReqs P i st).insts = st.insts ∧ (checkReqs P i st).time = st.time ∧
    (checkReqs P i st).agents = st.agents := by
  unfold checkReqs
  split <;> simp [St.emit]

theorem stopScen_scen (n i : Nat) (st : St) : Ext Ev.isScen st (stopScen n i st) :=
  ((stop_ext n).1 i st).mono isScen_of_stop
theorem stopList_scen (n : Nat) (l : List Nat) (st : St) : Ext Ev.isScen st (stopList n l st) :=
  ((stop_ext n).2 l st).mono isScen_of_stop

theorem scen_ext (P : Prog) (cf : Nat) (n : Nat) :
    (∀ i st, Ext Ev.isScen st (stepScen P cf n i st).1) ∧
    (∀ i cls cd st, Ext Ev.isScen st (afterCompose P cf n i cls cd st).1) ∧
    (∀ i out st, (∀ e ∈ out.log, Ev.isScen e = true) → Ext Ev.isScen st (composeHandle P cf n i out st).1) ∧
    (∀ i todo new s st, Ext Ev.isScen st (invokeLoop P cf n i todo new s st).1) := by
  induction n with
  | zero =>
    refine ⟨fun i st => ?_, fun i cls cd st => ?_, fun i out st _ => ?_, fun i todo new s st => ?_⟩
    · unfold stepScen; exact Ext.fail _ _
    · unfold afterCompose; exact Ext.fail _ _
    · unfold composeHandle; exact Ext.fail _ _
    · unfold invokeLoop; exact Ext.fail _ _
  | succ n ih =>
    obtain ⟨ih1, ih2, ih3, ih4⟩ := ih
    refine ⟨fun i st => ?_, fun i cls cd st => ?_, fun i out st hout => ?_, fun i todo new s st => ?_⟩
    · simp only [stepScen]
      have h := checkReqs_ext P i st
      generalize checkReqs P i st = st1 at h ⊢
      split
      · exact h.trans (stopScen_scen _ _ _)
      · have h2 : Ext Ev.isScen st (st1.modInst i fun x => { x with elapsed := x.elapsed + 1 }) :=
          h.trans (Ext.modInst st1 i _)
        generalize (st1.modInst i fun x => { x with elapsed := x.elapsed + 1 }) = st2 at h2 ⊢
        refine h2.trans ?_
        split
        · exact ih2 ..
        · rename_i s _
          have hc := ih3 i (resume P.code (.comp i) st2.time cf s) st2 (by
            intro e he
            obtain ⟨l', hl', hC⟩ := resume_log P.code (.comp i) st2.time cf s
            rw [hl'] at he
            exact isScen_of_comp i e (hC e (by simpa using he)))
          generalize composeHandle P cf n i (resume P.code (.comp i) st2.time cf s) st2 = r at hc ⊢
          obtain ⟨st3, cr⟩ := r
          cases cr with
          | aborted => exact hc
          | done => exact (hc.trans (Ext.modInst ..)).trans (ih2 ..)
          | yielded y s' =>
            cases y with
            | endScen => exact hc.trans (stopScen_scen _ _ _)
            | endSim => exact hc.trans (stopScen_scen _ _ _)
            | acts a => exact (hc.trans (Ext.modInst ..)).trans (ih2 ..)
    · simp only [afterCompose]
      split
      · exact stopScen_scen _ _ _
      · have h := evalTermWhen_ext P cls.termWhen st
        split
        · rename_i st' heq; rw [heq] at h; exact h.trans (stopScen_scen _ _ _)
        · rename_i st' heq; rw [heq] at h; exact h
    · simp only [composeHandle]
      have h0 : Ext Ev.isScen st (st.emits out.log) := Ext.emits _ _ hout
      split
      · exact h0
      · exact h0
      · exact h0.trans (Ext.fail _ _)
      · exact (h0.trans (startSubs_ext ..)).trans (ih4 ..)
      · exact (h0.trans (Ext.modInst ..)).trans (ih4 ..)
      · rename_i s' _
        have h1 := stopList_scen n ((st.emits out.log).inst i).subs (st.emits out.log)
        generalize stopList n ((st.emits out.log).inst i).subs (st.emits out.log) = st1 at h1 ⊢
        split
        · exact h0.trans h1
        · refine (h0.trans h1).trans (ih3 _ _ _ ?_)
          intro e he
          obtain ⟨l', hl', hC⟩ := exec_log P.code (.comp i) st1.time cf s' []
          rw [hl'] at he
          exact isScen_of_comp i e (hC e (by simpa using he))
    · cases todo with
      | nil =>
        simp only [invokeLoop]
        split
        · refine (Ext.modInst ..).trans (ih3 _ _ _ ?_)
          intro e he
          obtain ⟨l', hl', hC⟩ := exec_log P.code (.comp i) (st.modInst i fun x => { x with subs := new }).time cf (s.drop 1) []
          rw [hl'] at he
          exact isScen_of_comp i e (hC e (by simpa using he))
        · exact Ext.modInst ..
      | cons j rest =>
        simp only [invokeLoop]
        have h := ih1 j st
        generalize stepScen P cf n j st = r at h ⊢
        obtain ⟨st', ret⟩ := r
        simp only
        split
        · exact h
        · cases ret with
          | endSim => exact h
          | abort => exact h
          | cont => exact h.trans (ih4 ..)
          | stopped => exact h.trans (ih4 ..)

theorem isMon_of_stop (e : Ev) (h : Ev.isStop e = true) : Ev.isMon e = true := by
  cases e <;> simp_all [Ev.isStop, Ev.isMon]

theorem isMon_of_mon (i j : Nat) (e : Ev) (h : Ev.ofOwner (.mon i j) e = true) : Ev.isMon e = true := by
  cases e <;> simp_all [Ev.ofOwner, Ev.isMon, Owner.ctx]

theorem monOutcome_ext (out : Out) (old : Stack) (st : St) (h : ∀ e ∈ out.log, Ev.isMon e = true) :
    Ext Ev.isMon st (monOutcome out old st).1 := by
  unfold monOutcome
  have h0 : Ext Ev.isMon st (st.emits out.log) := Ext.emits _ _ h
  simp only
  split <;> first | exact h0 | exact h0.trans (Ext.fail _ _)

theorem stepMons_ext (P : Prog) (cf i : Nat) (mons : List MonInst) : ∀ (j : Nat) (st : St),
    Ext Ev.isMon st (stepMons P cf i j mons st).1 := by
  induction mons with
  | nil => intro j st; exact Ext.refl _ _
  | cons mon rest ih =>
    intro j st
    simp only [stepMons]
    have h0 := monOutcome_ext (resume P.code (.mon i j) st.time cf mon.co) mon.co st (by
      intro e he
      obtain ⟨l', hl', hC⟩ := resume_log P.code (.mon i j) st.time cf mon.co
      rw [hl'] at he
      exact isMon_of_mon i j e (hC e (by simpa using he)))
    generalize monOutcome (resume P.code (.mon i j) st.time cf mon.co) mon.co st = r at h0 ⊢
    obtain ⟨st1, co', es, et⟩ := r
    simp only
    split
    · exact h0
    · have h1 := ih (j + 1) st1
      generalize stepMons P cf i (j + 1) rest st1 = r at h1 ⊢
      obtain ⟨st2, rest', es', et'⟩ := r
      exact h0.trans h1

theorem mon_ext (P : Prog) (cf : Nat) (n : Nat) :
    (∀ i st, Ext Ev.isMon st (runMonitors P cf n i st).1) ∧
    (∀ l r st, Ext Ev.isMon st (monSubs P cf n l r st).1) := by
  induction n with
  | zero =>
    refine ⟨fun i st => ?_, fun l r st => ?_⟩
    · unfold runMonitors; exact Ext.fail _ _
    · unfold monSubs; exact Ext.fail _ _
  | succ n ih =>
    obtain ⟨ih1, ih2⟩ := ih
    refine ⟨fun i st => ?_, fun l r st => ?_⟩
    · simp only [runMonitors]
      have h0 := stepMons_ext P cf i (st.inst i).mons 0 st
      generalize stepMons P cf i 0 (st.inst i).mons st = r at h0 ⊢
      obtain ⟨st1, mons', es, et⟩ := r
      simp only
      have h1 : Ext Ev.isMon st (st1.modInst i fun x => { x with mons := mons' }) := h0.trans (Ext.modInst ..)
      generalize (st1.modInst i fun x => { x with mons := mons' }) = st2 at h1 ⊢
      split
      · exact h1
      · have h2 := ih2 (st2.inst i).subs (if es = true then MRet.endSim else MRet.none) st2
        generalize monSubs P cf n (st2.inst i).subs (if es = true then MRet.endSim else MRet.none) st2 = r at h2 ⊢
        obtain ⟨st3, sub⟩ := r
        simp only
        split
        · exact h1.trans h2
        · refine (h1.trans h2).trans ?_
          split
          · exact ((stop_ext n).1 i st3).mono isMon_of_stop
          · exact Ext.refl _ _
    · cases l with
      | nil => simp only [monSubs]; exact Ext.refl _ _
      | cons j rest =>
        simp only [monSubs]
        have h0 := ih1 j st
        generalize runMonitors P cf n j st = r0 at h0 ⊢
        obtain ⟨st1, rj⟩ := r0
        simp only
        split
        · exact h0
        · exact h0.trans (ih2 ..)

/-! ### `terminate simulation when` of the scenario tree, recorded expressions of the scenario tree -/

/-- evaluations of `terminate simulation when` conditions -/
def Ev.isTS : Ev → Bool
  | .cond x _ _ => x == .termSim
  | _ => false

/-- `st'` differs from `st` only by its log and possibly its abort flag -/
def LogOnly (C : Ev → Bool) (st st' : St) : Prop :=
  Ext C st st' ∧ st'.insts = st.insts ∧ st'.agents = st.agents

namespace LogOnly
theorem refl (C) (st : St) : LogOnly C st st := ⟨Ext.refl _ _, rfl, rfl⟩
theorem trans {C} {a b c : St} (h1 : LogOnly C a b) (h2 : LogOnly C b c) : LogOnly C a c :=
  ⟨h1.1.trans h2.1, h2.2.1.trans h1.2.1, h2.2.2.trans h1.2.2⟩
theorem emit {C} (st : St) (e : Ev) (he : C e = true) : LogOnly C st (st.emit e) := ⟨Ext.emit _ _ he, rfl, rfl⟩
theorem emits {C} (st : St) (l : List Ev) (hl : ∀ e ∈ l, C e = true) : LogOnly C st (st.emits l) :=
  ⟨Ext.emits _ _ hl, rfl, rfl⟩
theorem fail {C} (st : St) (a : Abort) : LogOnly C st (st.fail a) := ⟨Ext.fail _ _, rfl, rfl⟩
theorem inst {C} {st st' : St} (h : LogOnly C st st') (k : Nat) : st'.inst k = st.inst k := by
  simp [St.inst, h.2.1]
end LogOnly

theorem evalTermSim_logOnly (P : Prog) (l : List Nat) : ∀ st : St, LogOnly Ev.isTS st (evalTermSim P l st).1 := by
  induction l with
  | nil => intro st; exact LogOnly.refl _ _
  | cons c rest ih =>
    intro st
    simp only [evalTermSim]
    split
    · exact LogOnly.emit _ _ (by simp [Ev.isTS])
    · exact (LogOnly.emit _ _ (by simp [Ev.isTS])).trans (ih _)

theorem termSim_logOnly (P : Prog) (n : Nat) :
    (∀ i st, LogOnly Ev.isTS st (termSimTree P n i st).1) ∧
    (∀ l st, LogOnly Ev.isTS st (termSimList P n l st).1) := by
  induction n with
  | zero =>
    exact ⟨fun i st => by unfold termSimTree; exact LogOnly.fail _ _,
      fun l st => by unfold termSimList; exact LogOnly.fail _ _⟩
  | succ n ih =>
    refine ⟨fun i st => ?_, fun l st => ?_⟩
    · simp only [termSimTree]
      have h0 := evalTermSim_logOnly P (P.scens.getD (st.inst i).cls default).termSimWhen st
      generalize evalTermSim P (P.scens.getD (st.inst i).cls default).termSimWhen st = r at h0 ⊢
      obtain ⟨st1, b⟩ := r
      cases b with
      | true => exact h0
      | false => exact h0.trans (ih.2 _ _)
    · cases l with
      | nil => simp only [termSimList]; exact LogOnly.refl _ _
      | cons j rest =>
        simp only [termSimList]
        split
        · have h0 := ih.1 j st
          generalize termSimTree P n j st = r at h0 ⊢
          obtain ⟨st1, b⟩ := r
          cases b with
          | true => exact h0
          | false => exact h0.trans (ih.2 _ _)
        · exact ih.2 _ _

theorem termSimTop_logOnly (P : Prog) (fuel : Nat) (st : St) : LogOnly Ev.isTS st (termSimTop P fuel st).1 := by
  unfold termSimTop
  have h0 := evalTermSim_logOnly P P.termSimWhen st
  generalize evalTermSim P P.termSimWhen st = r at h0 ⊢
  obtain ⟨st1, b⟩ := r
  cases b with
  | true => exact h0
  | false => exact h0.trans ((termSim_logOnly P fuel).2 _ _)

theorem rec_logOnly (P : Prog) (f : ScenCls → List Ev) (C : Ev → Bool) (hf : ∀ c, ∀ e ∈ f c, C e = true) (n : Nat) :
    (∀ i st, LogOnly C st (recTree P f n i st)) ∧ (∀ l st, LogOnly C st (recList P f n l st)) := by
  induction n with
  | zero =>
    exact ⟨fun i st => by unfold recTree; exact LogOnly.fail _ _,
      fun l st => by unfold recList; exact LogOnly.fail _ _⟩
  | succ n ih =>
    refine ⟨fun i st => ?_, fun l st => ?_⟩
    · simp only [recTree]
      exact (LogOnly.emits _ _ (hf _)).trans (ih.2 _ _)
    · cases l with
      | nil => simp only [recList]; exact LogOnly.refl _ _
      | cons j rest => simp only [recList]; exact (ih.1 j st).trans (ih.2 _ _)

end Scenic.SimLoop
