import ScenicModel.Lemmas.Specifiers

/-! The depth-first search of `_resolveSpecifiers`: soundness (a successful run yields a
topological order), completeness (it succeeds whenever a rank function exists) and
sufficiency of the fuel. Generic in the successor structure `stp`. -/
namespace Scenic.Spec

/-- each node is unchanged, or went from unvisited to finished; `order` only grows at the end -/
structure Step (d d' : DState) : Prop where
  ext : ∃ e, d'.order = d.order ++ e
  st : ∀ m, d'.st m = d.st m ∨ (d.st m ≠ 1 ∧ d.st m ≠ 2 ∧ d'.st m = 2)

theorem Step.refl (d : DState) : Step d d := ⟨⟨[], by simp⟩, fun _ => Or.inl rfl⟩

theorem Step.trans {a b c : DState} (h1 : Step a b) (h2 : Step b c) : Step a c := by
  obtain ⟨⟨e1, he1⟩, s1⟩ := h1
  obtain ⟨⟨e2, he2⟩, s2⟩ := h2
  refine ⟨⟨e1 ++ e2, by rw [he2, he1, List.append_assoc]⟩, fun m => ?_⟩
  rcases s1 m with h | ⟨h11, h12, h13⟩ <;> rcases s2 m with h' | ⟨h21, h22, h23⟩
  · left; rw [h', h]
  · right; rw [← h]; exact ⟨h21, h22, h23⟩
  · right; exact ⟨h11, h12, by rw [h', h13]⟩
  · exact absurd h13 h22

theorem Step.one_iff {d d' : DState} (h : Step d d') (m : Node) : d'.st m = 1 ↔ d.st m = 1 := by
  rcases h.st m with h1 | ⟨h1, _, h3⟩
  · rw [h1]
  · constructor
    · intro h'; rw [h3] at h'; cases h'
    · intro h'; exact absurd h' h1

theorem Step.two {d d' : DState} (h : Step d d') {m : Node} (hm : d.st m = 2) : d'.st m = 2 := by
  rcases h.st m with h1 | ⟨_, h2, _⟩
  · rw [h1, hm]
  · exact absurd hm h2

section
variable (stp : Node → List (Option Node))

/-- every look-up of a node of `order` succeeds and yields a node placed strictly earlier -/
def Topo (order : List Node) : Prop :=
  ∀ n ∈ order, ∀ x ∈ stp n, ∃ c, x = some c ∧ c ∈ order ∧ pos order c < pos order n

theorem topo_snoc {order : List Node} {n : Node} (ht : Topo stp order) (hn : n ∉ order)
    (hc : ∀ x ∈ stp n, ∃ c, x = some c ∧ c ∈ order) : Topo stp (order ++ [n]) := by
  intro m hm x hx
  rcases List.mem_append.mp hm with hm | hm
  · obtain ⟨c, rfl, hco, hlt⟩ := ht m hm x hx
    exact ⟨c, rfl, List.mem_append_left _ hco, by rw [pos_append_of_mem _ hco, pos_append_of_mem _ hm]; exact hlt⟩
  · simp only [List.mem_singleton] at hm; subst hm
    obtain ⟨c, rfl, hco⟩ := hc x hx
    refine ⟨c, rfl, List.mem_append_left _ hco, ?_⟩
    rw [pos_append_of_mem _ hco, pos_append_of_not_mem hn]
    exact pos_lt_of_mem hco

structure DInv (d : DState) : Prop where
  done_iff : ∀ n, d.st n = 2 ↔ n ∈ d.order
  topo : Topo stp d.order
  nodup : d.order.Nodup

/-- what a successful visit guarantees -/
def VisitSpec (visit : Node → DState → Except Err DState) : Prop :=
  ∀ n d d', visit n d = .ok d' → Step d d' ∧ d'.st n = 2 ∧ (DInv stp d → DInv stp d')

theorem visitAll_spec {visit : Node → DState → Except Err DState} (hv : VisitSpec stp visit)
    (L : List (Option Node)) : ∀ d d', visitAll visit L d = .ok d' →
    Step d d' ∧ (∀ x ∈ L, ∃ c, x = some c ∧ d'.st c = 2) ∧ (DInv stp d → DInv stp d') := by
  induction L with
  | nil => intro d d' h; simp only [visitAll] at h; cases h; exact ⟨Step.refl _, by simp, id⟩
  | cons x rest ih =>
    intro d d' h
    cases x with
    | none => simp [visitAll] at h
    | some c =>
      simp only [visitAll] at h
      split at h
      · cases h
      · rename_i d1 h1
        obtain ⟨s1, c2, i1⟩ := hv c d d1 h1
        obtain ⟨s2, all2, i2⟩ := ih d1 d' h
        refine ⟨s1.trans s2, ?_, fun hd => i2 (i1 hd)⟩
        intro y hy
        rcases List.mem_cons.mp hy with hy | hy
        · subst hy; exact ⟨c, rfl, s2.two c2⟩
        · exact all2 y hy

theorem dfs_spec : ∀ fuel, VisitSpec stp (dfs stp fuel) := by
  intro fuel
  induction fuel with
  | zero => intro n d d' h; simp [dfs] at h
  | succ fuel ih =>
    intro n d d' h
    simp only [dfs] at h
    split at h
    · rename_i h2; cases h; exact ⟨Step.refl _, h2, id⟩
    · rename_i h2
      split at h
      · cases h
      · rename_i h1
        split at h
        · cases h
        · rename_i d2 hv
          cases h
          obtain ⟨s, all, inv⟩ := visitAll_spec stp ih (stp n) _ d2 hv
          have hn1 : d2.st n = 1 := by
            rw [s.one_iff]; simp
          obtain ⟨e, he⟩ := s.ext
          simp only at he
          refine ⟨⟨⟨e ++ [n], by simp [he]⟩, ?_⟩, by simp, ?_⟩
          · intro m
            by_cases hm : m = n
            · subst hm; right; exact ⟨h1, h2, by simp⟩
            · simp only [hm, if_false]
              rcases s.st m with h' | ⟨a, b, c⟩
              · left; rw [h']; simp [hm]
              · right; simp only [hm, if_false] at a b; exact ⟨a, b, c⟩
          · intro hd
            have hd1 : DInv stp ⟨fun m => if m = n then 1 else d.st m, d.order⟩ := by
              refine ⟨fun m => ?_, hd.topo, hd.nodup⟩
              by_cases hm : m = n
              · subst hm; simp only [if_true]
                constructor
                · intro h'; cases h'
                · intro h'; exact absurd ((hd.done_iff m).mpr h') h2
              · simp only [hm, if_false]; exact hd.done_iff m
            have hd2 := inv hd1
            have hnot : n ∉ d2.order := by
              intro hmem
              have := (hd2.done_iff n).mpr hmem
              rw [hn1] at this; cases this
            refine ⟨fun m => ?_, ?_, ?_⟩
            · by_cases hm : m = n
              · subst hm; simp
              · simp only [hm, if_false, List.mem_append, List.mem_singleton, or_false]
                exact hd2.done_iff m
            · apply topo_snoc stp hd2.topo hnot
              intro x hx
              obtain ⟨c, rfl, hc⟩ := all x hx
              exact ⟨c, rfl, (hd2.done_iff c).mp hc⟩
            · rw [List.nodup_append]
              refine ⟨hd2.nodup, by simp, ?_⟩
              intro a ha b hb
              simp only [List.mem_singleton] at hb; subst hb
              intro hab; subst hab; exact hnot ha

/-! ### completeness: a rank function that decreases along look-ups makes the search succeed -/

theorem visitAll_complete {visit : Node → DState → Except Err DState} (hv : VisitSpec stp visit)
    (r : Node → Nat) (U : Node → Prop) (bound : Nat)
    (hvis : ∀ c d, U c → r c < bound → (∀ m, d.st m = 1 → r c < r m) → ∃ d', visit c d = .ok d')
    (L : List (Option Node)) : ∀ d, (∀ x ∈ L, ∃ c, x = some c ∧ U c ∧ r c < bound) →
    (∀ m, d.st m = 1 → bound ≤ r m) → ∃ d', visitAll visit L d = .ok d' := by
  induction L with
  | nil => intro d _ _; exact ⟨d, rfl⟩
  | cons x rest ih =>
    intro d hL h1
    obtain ⟨c, rfl, hU, hlt⟩ := hL x (by simp)
    obtain ⟨d1, hd1⟩ := hvis c d hU hlt (fun m hm => by have := h1 m hm; omega)
    simp only [visitAll, hd1]
    obtain ⟨s, _, _⟩ := hv c d d1 hd1
    apply ih d1 (fun y hy => hL y (List.mem_cons_of_mem _ hy))
    intro m hm
    exact h1 m ((s.one_iff m).mp hm)

theorem dfs_complete (r : Node → Nat) (U : Node → Prop)
    (hU : ∀ n, U n → ∀ x ∈ stp n, ∃ c, x = some c ∧ U c ∧ r c < r n) :
    ∀ fuel n d, U n → r n < fuel → (∀ m, d.st m = 1 → r n < r m) → ∃ d', dfs stp fuel n d = .ok d' := by
  intro fuel
  induction fuel with
  | zero => intro n d _ h; omega
  | succ fuel ih =>
    intro n d hn hr h1
    simp only [dfs]
    split
    · exact ⟨d, rfl⟩
    · split
      · rename_i hs; have := h1 n hs; omega
      · obtain ⟨d2, hd2⟩ := visitAll_complete stp (dfs_spec stp fuel) r U (r n)
          (fun c d' hc hlt h' => ih c d' hc (by omega) h') (stp n)
          ⟨fun m => if m = n then 1 else d.st m, d.order⟩ (hU n hn)
          (by
            intro m hm
            by_cases hmn : m = n
            · subst hmn; exact Nat.le_refl _
            · simp only [hmn, if_false] at hm; have := h1 m hm; omega)
        rw [hd2]; exact ⟨_, rfl⟩

/-! ### the fuel `nodes.length + 1` is never exhausted -/

theorem countP_mark {nodes : List Node} {n : Node} (f : Node → Nat) (hn : n ∈ nodes) (h1 : f n ≠ 1) :
    nodes.countP (fun m => decide (f m = 1)) + 1 ≤
      nodes.countP (fun m => decide ((if m = n then 1 else f m) = 1)) := by
  induction nodes with
  | nil => simp at hn
  | cons y ys ih =>
    simp only [List.countP_cons]
    by_cases hy : y = n
    · subst hy
      have hle : ys.countP (fun m => decide (f m = 1)) ≤
          ys.countP (fun m => decide ((if m = y then 1 else f m) = 1)) := by
        apply List.countP_mono_left
        intro m _ hm
        simp only [decide_eq_true_eq] at hm ⊢
        split <;> simp_all
      have e1 : (decide (f y = 1)) = false := decide_eq_false h1
      simp only [e1, if_true, Bool.false_eq_true, if_false, decide_true]
      omega
    · have hmem : n ∈ ys := by
        rcases List.mem_cons.mp hn with h | h
        · exact absurd h.symm hy
        · exact h
      have := ih hmem
      simp only [hy, if_false]
      omega

theorem dfs_no_fuel (nodes : List Node)
    (hclosed : ∀ n ∈ nodes, ∀ x ∈ stp n, ∀ c, x = some c → c ∈ nodes) :
    ∀ fuel n d, n ∈ nodes →
      nodes.length + 1 ≤ fuel + nodes.countP (fun m => decide (d.st m = 1)) →
      dfs stp fuel n d ≠ .error .fuel := by
  intro fuel
  induction fuel with
  | zero =>
    intro n d _ h
    have := List.countP_le_length (p := fun m => decide (d.st m = 1)) (l := nodes)
    omega
  | succ fuel ih =>
    intro n d hn hcount
    simp only [dfs]
    split
    · simp
    · split
      · simp
      · rename_i h2 h1
        -- the loop over the look-ups never fails with `fuel`
        have hloop : ∀ (L : List (Option Node)) (dc : DState),
            (∀ x ∈ L, ∀ c, x = some c → c ∈ nodes) →
            nodes.length + 1 ≤ fuel + nodes.countP (fun m => decide (dc.st m = 1)) →
            visitAll (dfs stp fuel) L dc ≠ .error .fuel := by
          intro L
          induction L with
          | nil => intro dc _ _; simp [visitAll]
          | cons x rest ihL =>
            intro dc hL hc
            cases x with
            | none => simp [visitAll]
            | some c =>
              simp only [visitAll]
              cases hv : dfs stp fuel c dc with
              | error e =>
                simp only
                intro he
                cases he
                exact ih c dc (hL _ (by simp) c rfl) hc hv
              | ok d1 =>
                simp only
                obtain ⟨s, _, _⟩ := dfs_spec stp fuel c dc d1 hv
                apply ihL d1 (fun y hy => hL y (List.mem_cons_of_mem _ hy))
                have : nodes.countP (fun m => decide (d1.st m = 1)) =
                    nodes.countP (fun m => decide (dc.st m = 1)) := by
                  apply List.countP_congr
                  intro m _
                  simp only [decide_eq_true_eq]
                  exact s.one_iff m
                rw [this]; exact hc
        have hmark := countP_mark (nodes := nodes) d.st hn h1
        have := hloop (stp n) ⟨fun m => if m = n then 1 else d.st m, d.order⟩
          (hclosed n hn) (by simp only; omega)
        cases hv : visitAll (dfs stp fuel) (stp n) ⟨fun m => if m = n then 1 else d.st m, d.order⟩ with
        | error e => simp only; intro he; cases he; exact this hv
        | ok d2 => simp

end

end Scenic.Spec
