import ScenicModel.Model.Interrupts

/-! Helper lemmas for the interrupt model (C13): the selection function, event counting,
    block-list surgery. -/
namespace Scenic.Interrupts

/-! ### selection -/

/-- first-match selection: `some j` is returned exactly for the first active block -/
theorem pickFrom_some_iff (cfg : Cfg) (hfw : cfg.firstWins = true) (env : Env) :
    ∀ (hs : List (Blk K)) (i j : Nat),
      pickFrom cfg env i hs = some j ↔
        ∃ k, j = i + k ∧ k < hs.length ∧ blkActive cfg env (hs.getD k default) = true ∧
          ∀ k' < k, blkActive cfg env (hs.getD k' default) = false
  | [], i, j => by simp [pickFrom]
  | b :: bs, i, j => by
    unfold pickFrom
    by_cases hb : blkActive cfg env b = true
    · simp only [hb, hfw, if_true]
      constructor
      · intro h
        refine ⟨0, by simpa using (Option.some.inj h).symm, by simp, by simpa using hb, by simp⟩
      · rintro ⟨k, rfl, _, hk, hlt⟩
        cases k with
        | zero => simp
        | succ k => have := hlt 0 (by omega); simp [hb] at this
    · have hb' : blkActive cfg env b = false := by simpa using hb
      simp only [hb', Bool.false_eq_true, if_false]
      rw [pickFrom_some_iff cfg hfw env bs (i + 1) j]
      constructor
      · rintro ⟨k, rfl, hk, ha, hlt⟩
        refine ⟨k + 1, by omega, by simpa using hk, by simpa using ha, ?_⟩
        intro k' hk'
        cases k' with
        | zero => simpa using hb'
        | succ k' => simpa using hlt k' (by omega)
      · rintro ⟨k, rfl, hk, ha, hlt⟩
        cases k with
        | zero => simp [hb'] at ha
        | succ k =>
          refine ⟨k, by omega, by simpa using hk, by simpa using ha, ?_⟩
          intro k' hk'
          simpa using hlt (k' + 1) (by omega)

/-- the body runs exactly when no interrupt block is active -/
theorem pickFrom_none_iff (cfg : Cfg) (env : Env) :
    ∀ (hs : List (Blk K)) (i : Nat),
      pickFrom cfg env i hs = none ↔ ∀ b ∈ hs, blkActive cfg env b = false
  | [], i => by simp [pickFrom]
  | b :: bs, i => by
    unfold pickFrom
    by_cases hb : blkActive cfg env b = true
    · simp only [hb, if_true]
      by_cases hfw : cfg.firstWins = true
      · simp [hfw, hb]
      · simp only [hfw, Bool.false_eq_true, if_false]
        cases h : pickFrom cfg env (i + 1) bs <;> simp [hb]
    · have hb' : blkActive cfg env b = false := by simpa using hb
      simp [hb', pickFrom_none_iff cfg env bs (i + 1)]

/-- whatever the selection rule, the selected index is in range -/
theorem pickFrom_range (cfg : Cfg) (env : Env) :
    ∀ (hs : List (Blk K)) (i j : Nat), pickFrom cfg env i hs = some j → i ≤ j ∧ j < i + hs.length
  | [], i, j => by simp [pickFrom]
  | b :: bs, i, j => by
    unfold pickFrom
    intro h
    split at h
    · split at h
      · cases h; simp
      · cases h2 : pickFrom cfg env (i + 1) bs with
        | none => simp [h2] at h; subst h; simp
        | some j' =>
          simp [h2] at h; subst h
          have := pickFrom_range cfg env bs (i + 1) j' h2
          simp; omega
    · have := pickFrom_range cfg env bs (i + 1) j h
      simp; omega

theorem pick_lt (cfg : Cfg) (env : Env) (hs : List (Blk K)) (i : Nat) (h : pick cfg env hs = some i) :
    i < hs.length := by
  have := pickFrom_range cfg env hs 0 i h
  omega

/-! ### event counting -/

def nStart (b : Nat) (lg : List Ev) : Nat := lg.count (Ev.sstart b)
def nStop (b : Nat) (lg : List Ev) : Nat := lg.count (Ev.sstop b)

@[simp] theorem nStart_nil (b : Nat) : nStart b [] = 0 := rfl
@[simp] theorem nStop_nil (b : Nat) : nStop b [] = 0 := rfl
@[simp] theorem nStart_append (b : Nat) (l1 l2 : List Ev) : nStart b (l1 ++ l2) = nStart b l1 + nStart b l2 := by
  simp [nStart, List.count_append]
@[simp] theorem nStop_append (b : Nat) (l1 l2 : List Ev) : nStop b (l1 ++ l2) = nStop b l1 + nStop b l2 := by
  simp [nStop, List.count_append]
@[simp] theorem nStart_cons_start (b b' : Nat) (l : List Ev) :
    nStart b (Ev.sstart b' :: l) = (if b' = b then 1 else 0) + nStart b l := by
  unfold nStart
  rw [List.count_cons]
  by_cases h : b' = b
  · subst h; simp; omega
  · have : (Ev.sstart b' == Ev.sstart b) = false := by simp [h]
    simp [this, h]
@[simp] theorem nStop_cons_start (b b' : Nat) (l : List Ev) : nStop b (Ev.sstart b' :: l) = nStop b l := by
  unfold nStop; rw [List.count_cons]; simp
@[simp] theorem nStart_cons_chk (b x y : Nat) (l : List Ev) : nStart b (Ev.chk x y :: l) = nStart b l := by
  unfold nStart; rw [List.count_cons]; simp
@[simp] theorem nStop_cons_chk (b x y : Nat) (l : List Ev) : nStop b (Ev.chk x y :: l) = nStop b l := by
  unfold nStop; rw [List.count_cons]; simp

theorem nStart_map_stop (b : Nat) (S : List Nat) : nStart b (S.map Ev.sstop) = 0 := by
  induction S with
  | nil => rfl
  | cons x xs ih => unfold nStart at *; rw [List.map_cons, List.count_cons]; simp [ih]

theorem nStop_map_stop (b : Nat) (S : List Nat) : nStop b (S.map Ev.sstop) = S.count b := by
  induction S with
  | nil => rfl
  | cons x xs ih =>
    unfold nStop at *
    rw [List.map_cons, List.count_cons, List.count_cons, ih]
    by_cases h : x = b
    · subst h; simp
    · have : (Ev.sstop x == Ev.sstop b) = false := by simp [h]
      simp [this, h]

theorem checkGuards_noStartStop (env : Env) (beh b : Nat) :
    ∀ gs, nStart b (checkGuards env beh gs).1 = 0 ∧ nStop b (checkGuards env beh gs).1 = 0
  | [] => by simp [checkGuards]
  | g :: gs => by
    unfold checkGuards
    have := checkGuards_noStartStop env beh b gs
    split <;> simp [this]

theorem invCheck_noStartStop (P : Prog) (env : Env) (self b : Nat) :
    nStart b (invCheck P env self).1 = 0 ∧ nStop b (invCheck P env self).1 = 0 := by
  unfold invCheck
  exact checkGuards_noStartStop env self b _

theorem startChecks_noStartStop (cfg : Cfg) (P : Prog) (env : Env) (s b : Nat) :
    nStart b (startChecks cfg P env s).1 = 0 ∧ nStop b (startChecks cfg P env s).1 = 0 := by
  unfold startChecks
  have h1 := checkGuards_noStartStop env s b (getBeh P s).pre
  have h2 := checkGuards_noStartStop env s b (getBeh P s).inv
  simp only
  repeat' split
  all_goals simp [h1, h2]

/-! ### block lists -/

theorem blksSubs_map_none (hs : List (Nat × List L)) :
    blksSubs (hs.map fun p => (⟨p.1, p.2, none⟩ : Blk K)) = [] := by
  induction hs with
  | nil => rfl
  | cons h t ih => simp [blksSubs, blkSubs, ih]

def optSubs : Option K → List Nat
  | none => []
  | some k => K.subs k

theorem blkSubs_eq (b : Blk K) : blkSubs b = optSubs b.st := by
  cases b with
  | mk c code st => cases st <;> rfl

/-- replacing the state of block `i` exchanges its sub-behaviours for those of the new state -/
theorem count_blksSubs_setSt (b : Nat) (st : Option K) :
    ∀ (hs : List (Blk K)) (i : Nat), i < hs.length →
      (blksSubs (setSt hs i st)).count b + (blkSubs (hs.getD i default)).count b
        = (blksSubs hs).count b + (optSubs st).count b
  | [], i, h => by simp at h
  | x :: xs, 0, _ => by
    simp [setSt, blksSubs, List.count_append, blkSubs_eq]
    omega
  | x :: xs, i + 1, h => by
    have ih := count_blksSubs_setSt b st xs i (by simpa using h)
    simp [setSt] at ih ⊢
    simp [blksSubs, List.count_append]
    omega

theorem count_blksSubs_eraseIdx (b : Nat) :
    ∀ (hs : List (Blk K)) (i : Nat), i < hs.length →
      (blksSubs (hs.eraseIdx i)).count b + (blkSubs (hs.getD i default)).count b = (blksSubs hs).count b
  | [], i, h => by simp at h
  | x :: xs, 0, _ => by simp [blksSubs, List.count_append]; omega
  | x :: xs, i + 1, h => by
    have ih := count_blksSubs_eraseIdx b xs i (by simpa using h)
    simp at ih ⊢
    simp [blksSubs, List.count_append]
    omega

theorem getD_eq_of_lt (hs : List (Blk K)) (i : Nat) (d1 d2 : Blk K) (h : i < hs.length) :
    hs.getD i d1 = hs.getD i d2 := by
  simp [List.getD, List.getElem?_eq_getElem h]

end Scenic.Interrupts
