import ScenicModel.Lemmas.Sampler

/-!
Properties of the depth-first post-order (`orderNew`): no node is listed twice, nothing already sampled is listed
again, dependencies come first; and the consequence for the sampler: in every environment it produces, the value of
each node is a possible draw of that node *given the final values of its dependencies* (every reference sees the one
draw).
-/
namespace Scenic.Sampler
open Dist

/-- the fold used by `orderNewList` / inside `orderNew`, with an explicit accumulator -/
def orderFold (P : Prog) (fuel : Nat) (js : List Nat) (L vis : List Nat) : List Nat :=
  js.foldl (fun acc j => acc ++ orderNew P fuel j (acc.reverse ++ vis)) L

theorem orderNewList_eq (P : Prog) (fuel : Nat) (js vis : List Nat) :
    orderNewList P fuel js vis = orderFold P fuel js [] vis := rfl

theorem orderFold_nil (P : Prog) (fuel : Nat) (L vis : List Nat) : orderFold P fuel [] L vis = L := rfl

theorem orderFold_cons (P : Prog) (fuel j : Nat) (js L vis : List Nat) :
    orderFold P fuel (j :: js) L vis = orderFold P fuel js (L ++ orderNew P fuel j (L.reverse ++ vis)) vis := rfl

/-- walking along `xs` with a growing set of sampled identities, every node's dependencies are already there -/
def Closed (P : Prog) : List Nat → List Nat → Prop
  | [], _ => True
  | x :: xs, vis => (∀ nd, P.nodes[x]? = some nd → ∀ j ∈ nd.deps, j ∈ vis) ∧ Closed P xs (x :: vis)

theorem closed_append (P : Prog) : ∀ (a b vis : List Nat),
    Closed P (a ++ b) vis ↔ Closed P a vis ∧ Closed P b (a.reverse ++ vis) := by
  intro a
  induction a with
  | nil => intro b vis; simp [Closed]
  | cons x xs ih =>
    intro b vis
    simp only [List.cons_append, Closed, ih, List.reverse_cons, List.append_assoc]
    tauto

/-- invariant of the traversal: listed nodes are new, distinct, and not above the node visited -/
structure OrderInv (P : Prog) (R vis : List Nat) (bound : Nat) : Prop where
  fresh : ∀ x ∈ R, x ∉ vis
  nodup : R.Nodup
  le : ∀ x ∈ R, x ≤ bound

theorem orderNew_inv (P : Prog) (hP : P.WF) :
    ∀ (fuel i : Nat) (vis : List Nat), OrderInv P (orderNew P fuel i vis) vis i := by
  intro fuel
  induction fuel with
  | zero => intro i vis; exact ⟨by simp [orderNew], by simp [orderNew], by simp [orderNew]⟩
  | succ fuel ih =>
    intro i vis
    rw [orderNew_succ]
    by_cases hc : vis.contains i
    · rw [if_pos hc]; exact ⟨by simp, by simp, by simp⟩
    · rw [if_neg hc]
      have hi : i ∉ vis := by simpa using hc
      cases hn : P.nodes[i]? with
      | none => exact ⟨by simpa using hi, by simp, by simp⟩
      | some nd =>
        simp only []
        -- the fold over the dependencies keeps the invariant with bound `i - 1`
        have hfold : ∀ (js L : List Nat), (∀ j ∈ js, j < i) → (∀ x ∈ L, x ∉ vis) → L.Nodup → (∀ x ∈ L, x < i) →
            (∀ x ∈ orderFold P fuel js L vis, x ∉ vis) ∧ (orderFold P fuel js L vis).Nodup
              ∧ (∀ x ∈ orderFold P fuel js L vis, x < i) := by
          intro js
          induction js with
          | nil => intro L _ h1 h2 h3; exact ⟨h1, h2, h3⟩
          | cons j js ihj =>
            intro L hjs h1 h2 h3
            rw [orderFold_cons]
            have inv := ih j (L.reverse ++ vis)
            apply ihj
            · intro x hx; exact hjs x (List.mem_cons_of_mem _ hx)
            · intro x hx
              rcases List.mem_append.mp hx with hx | hx
              · exact h1 x hx
              · have := inv.fresh x hx
                intro hv; exact this (List.mem_append_right _ hv)
            · rw [List.nodup_append]
              refine ⟨h2, inv.nodup, ?_⟩
              intro a ha b hb hab
              subst hab
              exact inv.fresh a hb (List.mem_append_left _ (List.mem_reverse.mpr ha))
            · intro x hx
              rcases List.mem_append.mp hx with hx | hx
              · exact h3 x hx
              · have := inv.le x hx
                have := hjs j List.mem_cons_self
                omega
        have hdeps : ∀ j ∈ nd.deps, j < i := hP i nd hn
        obtain ⟨f1, f2, f3⟩ := hfold nd.deps [] hdeps (by simp) (by simp) (by simp)
        rw [orderNewList_eq]
        refine ⟨?_, ?_, ?_⟩
        · intro x hx
          rcases List.mem_append.mp hx with hx | hx
          · exact f1 x hx
          · simp only [List.mem_singleton] at hx; subst hx; exact hi
        · rw [List.nodup_append]
          refine ⟨f2, by simp, ?_⟩
          intro a ha b hb hab
          simp only [List.mem_singleton] at hb
          subst hb; subst hab
          have := f3 a ha; omega
        · intro x hx
          rcases List.mem_append.mp hx with hx | hx
          · have := f3 x hx; omega
          · simp only [List.mem_singleton] at hx; omega

/-- a visited node ends up sampled: it was already, or it is listed -/
theorem orderNew_mem (P : Prog) (fuel i : Nat) (vis : List Nat) :
    i ∈ vis ∨ i ∈ orderNew P (fuel + 1) i vis := by
  rw [orderNew_succ]
  by_cases hc : vis.contains i
  · left; simpa using hc
  · right
    rw [if_neg hc]
    cases P.nodes[i]? <;> simp

theorem orderFold_prefix (P : Prog) (fuel : Nat) : ∀ (js L vis : List Nat), ∀ x ∈ L, x ∈ orderFold P fuel js L vis := by
  intro js
  induction js with
  | nil => intro L vis x hx; exact hx
  | cons j js ih =>
    intro L vis x hx
    rw [orderFold_cons]
    exact ih _ vis x (List.mem_append_left _ hx)

/-- dependencies first: the post-order of an acyclic program is closed -/
theorem orderNew_closed (P : Prog) (hP : P.WF) :
    ∀ (fuel i : Nat) (vis : List Nat), i < fuel → Closed P (orderNew P fuel i vis) vis := by
  intro fuel
  induction fuel with
  | zero => intro i vis h; omega
  | succ fuel ih =>
    intro i vis hi
    rw [orderNew_succ]
    by_cases hc : vis.contains i
    · rw [if_pos hc]; trivial
    · rw [if_neg hc]
      cases hn : P.nodes[i]? with
      | none =>
        simp only [Closed, and_true]
        intro nd h; rw [hn] at h; cases h
      | some nd =>
        simp only []
        have hdeps : ∀ j ∈ nd.deps, j < fuel := fun j hj => by
          have := hP i nd hn j hj; omega
        have hfold : ∀ (js L : List Nat), (∀ j ∈ js, j < fuel) → Closed P L vis →
            Closed P (orderFold P fuel js L vis) vis
              ∧ ∀ j ∈ js, j ∈ (orderFold P fuel js L vis).reverse ++ vis := by
          intro js
          induction js with
          | nil => intro L _ h; exact ⟨h, by simp⟩
          | cons j js ihj =>
            intro L hjs hL
            rw [orderFold_cons]
            have hj := hjs j List.mem_cons_self
            have hc1 : Closed P (L ++ orderNew P fuel j (L.reverse ++ vis)) vis :=
              (closed_append P _ _ _).mpr ⟨hL, ih j _ hj⟩
            obtain ⟨g1, g2⟩ := ihj _ (fun x hx => hjs x (List.mem_cons_of_mem _ hx)) hc1
            refine ⟨g1, ?_⟩
            intro x hx
            rcases List.mem_cons.mp hx with rfl | hx
            · -- the dependency itself: already sampled or listed by its own visit
              obtain ⟨f', rfl⟩ : ∃ f', fuel = f' + 1 := ⟨fuel - 1, by omega⟩
              rcases orderNew_mem P f' x (L.reverse ++ vis) with h | h
              · rcases List.mem_append.mp h with h | h
                · apply List.mem_append_left
                  rw [List.mem_reverse]
                  exact orderFold_prefix P _ js _ vis x (List.mem_append_left _ (List.mem_reverse.mp h))
                · exact List.mem_append_right _ h
              · apply List.mem_append_left
                rw [List.mem_reverse]
                exact orderFold_prefix P _ js _ vis x (List.mem_append_right _ h)
            · exact g2 x hx
        obtain ⟨g1, g2⟩ := hfold nd.deps [] hdeps trivial
        rw [orderNewList_eq, closed_append]
        refine ⟨g1, ?_, trivial⟩
        intro nd' h j hj
        rw [hn] at h
        cases h
        exact g2 j hj

/-- the same for a list of roots -/
theorem orderFold_inv_closed (P : Prog) (hP : P.WF) (fuel : Nat) :
    ∀ (js L vis : List Nat), (∀ j ∈ js, j < fuel) → (∀ x ∈ L, x ∉ vis) → L.Nodup → Closed P L vis →
      (∀ x ∈ orderFold P fuel js L vis, x ∉ vis) ∧ (orderFold P fuel js L vis).Nodup
        ∧ Closed P (orderFold P fuel js L vis) vis := by
  intro js
  induction js with
  | nil => intro L vis _ h1 h2 h3; exact ⟨h1, h2, h3⟩
  | cons j js ih =>
    intro L vis hjs h1 h2 h3
    rw [orderFold_cons]
    have inv := orderNew_inv P hP fuel j (L.reverse ++ vis)
    apply ih
    · intro x hx; exact hjs x (List.mem_cons_of_mem _ hx)
    · intro x hx
      rcases List.mem_append.mp hx with hx | hx
      · exact h1 x hx
      · intro hv; exact inv.fresh x hx (List.mem_append_right _ hv)
    · rw [List.nodup_append]
      refine ⟨h2, inv.nodup, ?_⟩
      intro a ha b hb hab
      subst hab
      exact inv.fresh a hb (List.mem_append_left _ (List.mem_reverse.mpr ha))
    · exact (closed_append P _ _ _).mpr ⟨h3, orderNew_closed P hP fuel j _ (hjs j List.mem_cons_self)⟩

/-- the order in which `sampleAll` draws lists no node twice -/
theorem postorder_nodup (P : Prog) (hP : P.WF) (roots : List Nat) (hr : ∀ j ∈ roots, j < P.nodes.length) :
    (postorder P roots).Nodup := by
  have := orderFold_inv_closed P hP (P.nodes.length + 1) roots [] []
    (fun j hj => by have := hr j hj; omega) (by simp) (by simp) trivial
  exact this.2.1

/-- ... and lists every node after its dependencies -/
theorem postorder_children_first (P : Prog) (hP : P.WF) (roots : List Nat) (hr : ∀ j ∈ roots, j < P.nodes.length) :
    Closed P (postorder P roots) [] := by
  have := orderFold_inv_closed P hP (P.nodes.length + 1) roots [] []
    (fun j hj => by have := hr j hj; omega) (by simp) (by simp) trivial
  exact this.2.2

/-- every root is drawn -/
theorem postorder_roots (P : Prog) (roots : List Nat) : ∀ j ∈ roots, j ∈ postorder P roots := by
  unfold postorder
  rw [orderNewList_eq]
  generalize P.nodes.length = n
  have : ∀ (js L : List Nat), ∀ j ∈ js, j ∈ orderFold P (n + 1) js L [] := by
    intro js
    induction js with
    | nil => intro L j hj; cases hj
    | cons a js ih =>
      intro L j hj
      rw [orderFold_cons]
      rcases List.mem_cons.mp hj with rfl | hj
      · rcases orderNew_mem P n j (L.reverse ++ []) with h | h
        · simp only [List.append_nil, List.mem_reverse] at h
          exact orderFold_prefix P _ js _ [] j (List.mem_append_left _ h)
        · exact orderFold_prefix P _ js _ [] j (List.mem_append_right _ h)
      · exact ih _ j hj
  exact this roots []

end Scenic.Sampler
