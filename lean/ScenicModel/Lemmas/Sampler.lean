import ScenicModel.Model.SamplerSpec
import Mathlib.Tactic.Ring
import Mathlib.Tactic.Linarith
import Mathlib.Tactic.FieldSimp
import Mathlib.Algebra.Order.Field.Rat

/-!
Lemmas about the sampler model (`Model/Sampler.lean`): the algebra of weighted outcome lists, the closed form of the
rejection loop, the weights of the soft-requirement activation, and the equality between the identity-keyed
depth-first sampler and one draw per node along its post-order.
-/
namespace Scenic.Sampler
open Dist

variable {α β γ : Type}

/-! ## mass -/

@[simp] theorem mass_nil (p : α → Bool) : mass ([] : Dist α) p = 0 := rfl

@[simp] theorem mass_cons (x : α × Rat) (xs : Dist α) (p : α → Bool) :
    mass (x :: xs) p = (if p x.1 then x.2 else 0) + mass xs p := rfl

theorem mass_append (a b : Dist α) (p : α → Bool) : mass (a ++ b) p = mass a p + mass b p := by
  induction a with
  | nil => simp
  | cons x xs ih => simp only [List.cons_append, mass_cons, ih]; ring

theorem mass_scale (w : Rat) (d : Dist α) (p : α → Bool) : mass (scale w d) p = w * mass d p := by
  induction d with
  | nil => simp [scale]
  | cons x xs ih =>
    have : scale w (x :: xs) = (x.1, w * x.2) :: scale w xs := rfl
    rw [this, mass_cons, mass_cons, ih]
    by_cases h : p x.1
    · simp [h]; ring
    · simp [h]

theorem mass_pure (a : α) (p : α → Bool) : mass (Dist.pure a) p = if p a then 1 else 0 := by
  simp [Dist.pure]

theorem bind_nil (f : α → Dist β) : Dist.bind ([] : Dist α) f = [] := rfl

theorem bind_cons (x : α × Rat) (xs : Dist α) (f : α → Dist β) :
    Dist.bind (x :: xs) f = scale x.2 (f x.1) ++ Dist.bind xs f := rfl

theorem mass_bind_cons (x : α × Rat) (xs : Dist α) (f : α → Dist β) (p : β → Bool) :
    mass (Dist.bind (x :: xs) f) p = x.2 * mass (f x.1) p + mass (Dist.bind xs f) p := by
  rw [bind_cons, mass_append, mass_scale]

/-- law of total probability -/
theorem mass_bind (d : Dist α) (f : α → Dist β) (p : β → Bool) :
    mass (Dist.bind d f) p = sumW (List.map (fun x => x.2 * mass (f x.1) p) d) := by
  induction d with
  | nil => rfl
  | cons x xs ih => rw [mass_bind_cons, ih]; rfl

theorem mass_map (f : α → β) (d : Dist α) (p : β → Bool) : mass (Dist.map f d) p = mass d (fun a => p (f a)) := by
  induction d with
  | nil => rfl
  | cons x xs ih =>
    have : Dist.map f (x :: xs) = (f x.1, x.2) :: Dist.map f xs := rfl
    rw [this, mass_cons, mass_cons, ih]

theorem mass_congr (d : Dist α) (p q : α → Bool) (h : ∀ x ∈ d, p x.1 = q x.1) : mass d p = mass d q := by
  induction d with
  | nil => rfl
  | cons x xs ih =>
    rw [mass_cons, mass_cons, h x (List.mem_cons_self), ih (fun y hy => h y (List.mem_cons_of_mem _ hy))]

theorem mass_false (d : Dist α) : mass d (fun _ => false) = 0 := by
  induction d with
  | nil => rfl
  | cons x xs ih => simp [ih]

/-- a bind whose continuation is deterministic pushes the predicate through -/
theorem mass_bind_pure (d : Dist α) (g : α → β) (p : β → Bool) :
    mass (Dist.bind d fun a => Dist.pure (g a)) p = mass d (fun a => p (g a)) := by
  induction d with
  | nil => rfl
  | cons x xs ih =>
    rw [mass_bind_cons, ih, mass_pure, mass_cons]
    by_cases h : p (g x.1) <;> simp [h]

/-! ## monad laws, as equalities of outcome lists -/

theorem scale_one (d : Dist α) : scale 1 d = d := by
  induction d with
  | nil => rfl
  | cons x xs ih =>
    have : scale 1 (x :: xs) = (x.1, 1 * x.2) :: scale 1 xs := rfl
    rw [this, ih, one_mul]

theorem scale_scale (v w : Rat) (d : Dist α) : scale v (scale w d) = scale (v * w) d := by
  induction d with
  | nil => rfl
  | cons x xs ih =>
    have h1 : scale w (x :: xs) = (x.1, w * x.2) :: scale w xs := rfl
    have h2 : scale (v * w) (x :: xs) = (x.1, v * w * x.2) :: scale (v * w) xs := rfl
    have h3 : scale v ((x.1, w * x.2) :: scale w xs) = (x.1, v * (w * x.2)) :: scale v (scale w xs) := rfl
    rw [h1, h2, h3, ih, mul_assoc]

theorem scale_append (w : Rat) (a b : Dist α) : scale w (a ++ b) = scale w a ++ scale w b := by
  simp [scale]

theorem pure_bind (a : α) (f : α → Dist β) : Dist.bind (Dist.pure a) f = f a := by
  simp [Dist.pure, bind_cons, bind_nil, scale_one]

theorem bind_append (a b : Dist α) (f : α → Dist β) : Dist.bind (a ++ b) f = Dist.bind a f ++ Dist.bind b f := by
  simp [Dist.bind]

theorem scale_bind (w : Rat) (d : Dist α) (f : α → Dist β) : scale w (Dist.bind d f) = Dist.bind (scale w d) f := by
  induction d with
  | nil => rfl
  | cons x xs ih =>
    have h1 : scale w (x :: xs) = (x.1, w * x.2) :: scale w xs := rfl
    rw [h1, bind_cons, bind_cons, scale_append, ih, scale_scale]

theorem bind_assoc (d : Dist α) (f : α → Dist β) (g : β → Dist γ) :
    Dist.bind (Dist.bind d f) g = Dist.bind d (fun a => Dist.bind (f a) g) := by
  induction d with
  | nil => rfl
  | cons x xs ih => rw [bind_cons, bind_append, ih, bind_cons, scale_bind]

theorem bind_congr (d : Dist α) (f g : α → Dist β) (h : ∀ x ∈ d, f x.1 = g x.1) : Dist.bind d f = Dist.bind d g := by
  induction d with
  | nil => rfl
  | cons x xs ih =>
    rw [bind_cons, bind_cons, h x (List.mem_cons_self), ih (fun y hy => h y (List.mem_cons_of_mem _ hy))]

theorem mem_bind {d : Dist α} {f : α → Dist β} {y : β × Rat} (h : y ∈ Dist.bind d f) :
    ∃ x ∈ d, ∃ z ∈ f x.1, y.1 = z.1 := by
  induction d with
  | nil => simp [bind_nil] at h
  | cons x xs ih =>
    rw [bind_cons, List.mem_append] at h
    rcases h with h | h
    · simp only [scale, List.mem_map] at h
      obtain ⟨z, hz, rfl⟩ := h
      exact ⟨x, List.mem_cons_self, z, hz, rfl⟩
    · obtain ⟨x', hx', z, hz, e⟩ := ih h
      exact ⟨x', List.mem_cons_of_mem _ hx', z, hz, e⟩

/-! ### `bindO` -/

theorem bindO_pure_some (a : α) (f : α → Dist (Option β)) : bindO (Dist.pure (some a)) f = f a := by
  simp [bindO, pure_bind]

theorem bindO_pure_none (f : α → Dist (Option β)) : bindO (Dist.pure (none : Option α)) f = Dist.pure none := by
  simp [bindO, pure_bind]

theorem bindO_assoc (d : Dist (Option α)) (f : α → Dist (Option β)) (g : β → Dist (Option γ)) :
    bindO (bindO d f) g = bindO d (fun a => bindO (f a) g) := by
  unfold bindO
  rw [bind_assoc]
  apply bind_congr
  intro x _
  cases x.1 with
  | none => simp [pure_bind]
  | some a => rfl

theorem bindO_congr (d : Dist (Option α)) (f g : α → Dist (Option β))
    (h : ∀ a w, (some a, w) ∈ d → f a = g a) : bindO d f = bindO d g := by
  unfold bindO
  apply bind_congr
  intro x hx
  rcases x with ⟨o, w⟩
  cases o with
  | none => rfl
  | some a => exact h a w hx

theorem mem_bindO {d : Dist (Option α)} {f : α → Dist (Option β)} {b : β} {w : Rat}
    (h : (some b, w) ∈ bindO d f) : ∃ a v, (some a, v) ∈ d ∧ ∃ u, (some b, u) ∈ f a := by
  obtain ⟨x, hx, z, hz, e⟩ := mem_bind h
  rcases x with ⟨o, v⟩
  cases o with
  | none =>
    simp only [Dist.pure, List.mem_singleton] at hz
    subst hz
    simp at e
  | some a =>
    refine ⟨a, v, hx, z.2, ?_⟩
    simp only at e hz
    rw [e]
    exact hz

theorem bind_pure_id (d : Dist (Option α)) :
    (Dist.bind d fun
      | none => Dist.pure none
      | some a => Dist.pure (some a)) = d := by
  induction d with
  | nil => rfl
  | cons x xs ih =>
    rw [bind_cons, ih]
    rcases x with ⟨o, w⟩
    cases o <;> simp [Dist.pure, scale]

theorem bindO_pure_right (d : Dist (Option α)) : bindO d (fun a => Dist.pure (some a)) = d := by
  unfold bindO; exact bind_pure_id d

/-! ## the rejection loop -/

/-! (`onSome`, `isRej`, `hit`, `sceneIs`, `vectors`, `softWeight` are defined in `Model/SamplerSpec.lean`) -/

/-- `1 + r + ... + r^(n-1)` -/
def geom (r : Rat) : Nat → Rat
  | 0 => 0
  | n + 1 => 1 + r * geom r n

theorem mass_bind_option {σ : Type} (d : Dist (Option σ)) (g : σ → β) (e : Dist β) (p : β → Bool) :
    mass (Dist.bind d fun
      | some s => Dist.pure (g s)
      | none => e) p = mass d (onSome fun s => p (g s)) + mass d isRej * mass e p := by
  induction d with
  | nil => simp [bind_nil]
  | cons x xs ih =>
    rw [mass_bind_cons, ih, mass_cons, mass_cons]
    rcases x with ⟨o, w⟩
    cases o with
    | none => simp [onSome, isRej]; ring
    | some s =>
      simp only [onSome, isRej, mass_pure]
      by_cases h : p (g s)
      · simp [h]; ring
      · simp [h]

theorem loop_succ {σ : Type} (att : Dist (Option σ)) (n k : Nat) :
    loop att (n + 1) k = att.bind fun
      | some s => Dist.pure (some (s, k + 1))
      | none => loop att n (k + 1) := rfl

/-- iterations reported by `loop att n k` are larger than `k` -/
theorem loop_hit_low {σ : Type} (att : Dist (Option σ)) (q : σ → Bool) :
    ∀ n k K, K ≤ k → mass (loop att n k) (hit K q) = 0 := by
  intro n
  induction n with
  | zero => intro k K _; simp [loop, mass_pure, hit]
  | succ n ih =>
    intro k K hK
    rw [loop_succ, mass_bind_option, ih (k + 1) K (by omega)]
    have : mass att (onSome fun s => hit K q (some (s, k + 1))) = mass att (fun _ => false) := by
      apply mass_congr
      intro x _
      cases hx : x.1 with
      | none => rfl
      | some s =>
        have : (k + 1 == K) = false := by
          apply beq_false_of_ne; omega
        simp [onSome, hit, this]
    rw [this, mass_false]; ring

/-- **closed form**: a scene satisfying `q` is returned after exactly `k + j + 1` iterations with probability
    `r^j * acc(q)`, where `r` is the per-attempt rejection probability -/
theorem loop_success {σ : Type} (att : Dist (Option σ)) (q : σ → Bool) :
    ∀ n k j, j < n → mass (loop att n k) (hit (k + j + 1) q) = (mass att isRej) ^ j * mass att (onSome q) := by
  intro n
  induction n with
  | zero => intro k j h; omega
  | succ n ih =>
    intro k j hj
    rw [loop_succ, mass_bind_option]
    cases j with
    | zero =>
      rw [loop_hit_low att q n (k + 1) (k + 0 + 1) (by omega)]
      have : mass att (onSome fun s => hit (k + 0 + 1) q (some (s, k + 1))) = mass att (onSome q) := by
        apply mass_congr
        intro x _
        cases hx : x.1 with
        | none => rfl
        | some s => simp [onSome, hit]
      rw [this]; ring
    | succ j =>
      have h1 : mass att (onSome fun s => hit (k + (j + 1) + 1) q (some (s, k + 1))) = mass att (fun _ => false) := by
        apply mass_congr
        intro x _
        cases hx : x.1 with
        | none => rfl
        | some s =>
          have : (k + 1 == k + (j + 1) + 1) = false := by
            apply beq_false_of_ne; omega
          simp [onSome, hit, this]
      have h2 : k + (j + 1) + 1 = (k + 1) + j + 1 := by omega
      rw [h1, mass_false, h2, ih (k + 1) j (by omega)]
      ring

/-- no scene is returned with more iterations than allowed -/
theorem loop_beyond {σ : Type} (att : Dist (Option σ)) (q : σ → Bool) :
    ∀ n k j, n ≤ j → mass (loop att n k) (hit (k + j + 1) q) = 0 := by
  intro n
  induction n with
  | zero => intro k j _; simp [loop, mass_pure, hit]
  | succ n ih =>
    intro k j hj
    rw [loop_succ, mass_bind_option]
    obtain ⟨j', rfl⟩ : ∃ j', j = j' + 1 := ⟨j - 1, by omega⟩
    have h1 : mass att (onSome fun s => hit (k + (j' + 1) + 1) q (some (s, k + 1))) = mass att (fun _ => false) := by
      apply mass_congr
      intro x _
      cases hx : x.1 with
      | none => rfl
      | some s =>
        have : (k + 1 == k + (j' + 1) + 1) = false := by
          apply beq_false_of_ne; omega
        simp [onSome, hit, this]
    have h2 : k + (j' + 1) + 1 = (k + 1) + j' + 1 := by omega
    rw [h1, mass_false, h2, ih (k + 1) j' (by omega)]
    ring

/-- the loop gives up with probability `r^n` -/
theorem loop_reject {σ : Type} (att : Dist (Option σ)) :
    ∀ n k, mass (loop att n k) isRej = (mass att isRej) ^ n := by
  intro n
  induction n with
  | zero => intro k; simp [loop, mass_pure, isRej]
  | succ n ih =>
    intro k
    rw [loop_succ, mass_bind_option, ih (k + 1)]
    have : mass att (onSome fun s => isRej (some (s, k + 1))) = mass att (fun _ => false) := by
      apply mass_congr
      intro x _
      cases hx : x.1 with
      | none => rfl
      | some s => simp [onSome, isRej]
    rw [this, mass_false]; ring

/-- probability that the scene returned satisfies `q`, whatever the number of iterations -/
theorem loop_scene_total {σ : Type} (att : Dist (Option σ)) (q : σ → Bool) :
    ∀ n k, mass (loop att n k) (sceneIs q) = mass att (onSome q) * geom (mass att isRej) n := by
  intro n
  induction n with
  | zero => intro k; simp [loop, mass_pure, sceneIs, geom]
  | succ n ih =>
    intro k
    rw [loop_succ, mass_bind_option, ih (k + 1)]
    have : mass att (onSome fun s => sceneIs q (some (s, k + 1))) = mass att (onSome q) := by
      apply mass_congr
      intro x _
      cases hx : x.1 with
      | none => rfl
      | some s => simp [onSome, sceneIs]
    rw [this]; simp only [geom]; ring

theorem geom_pos (r : Rat) (hr : 0 ≤ r) : ∀ n, 1 ≤ n → 0 < geom r n := by
  intro n hn
  obtain ⟨m, rfl⟩ : ∃ m, n = m + 1 := ⟨n - 1, by omega⟩
  have h : ∀ m, 0 ≤ geom r m := by
    intro m
    induction m with
    | zero => simp [geom]
    | succ m ih => simp only [geom]; have := mul_nonneg hr ih; linarith
  simp only [geom]
  have := mul_nonneg hr (h m)
  linarith

/-- accepted and rejected outcomes partition an attempt -/
theorem mass_split {σ : Type} (att : Dist (Option σ)) :
    mass att (onSome fun _ => true) + mass att isRej = mass att (fun _ => true) := by
  induction att with
  | nil => simp
  | cons x xs ih =>
    rw [mass_cons, mass_cons, mass_cons, ← ih]
    rcases x with ⟨o, w⟩
    cases o <;> simp [onSome, isRej] <;> ring

/-! ## activation of the soft requirements -/

/-- `Π_{i active} a_i · Π_{i inactive} (1 - a_i)` with `a_i` the activation probability of requirement `i` -/
def actWeight (cfg : Cfg) : List Rat → List Bool → Rat
  | p :: ps, b :: bs => (if b then cfg.actProb p else 1 - cfg.actProb p) * actWeight cfg ps bs
  | [], [] => 1
  | _, _ => 0

theorem sumW_append (a b : List Rat) : sumW (a ++ b) = sumW a + sumW b := by
  induction a with
  | nil => simp [sumW]
  | cons x xs ih => simp only [List.cons_append, sumW, ih]; ring

theorem sumW_map_mul (c : Rat) (f : α → Rat) (xs : List α) :
    sumW (xs.map fun x => c * f x) = c * sumW (xs.map f) := by
  induction xs with
  | nil => simp [sumW]
  | cons x xs ih => simp only [List.map_cons, sumW, ih]; ring

/-- the activation draws every subset `S` of the soft requirements with probability
    `Π_{i∈S} a_i · Π_{i∉S} (1 - a_i)`: for every continuation `F` and event `q` -/
theorem activation_mass (cfg : Cfg) (ps : List Rat) (F : List Bool → Dist β) (q : β → Bool) :
    mass ((activation cfg ps).bind F) q
      = sumW ((vectors ps.length).map fun bs => actWeight cfg ps bs * mass (F bs) q) := by
  induction ps generalizing F with
  | nil => simp [activation, pure_bind, vectors, actWeight, sumW]
  | cons p ps ih =>
    have h : (activation cfg (p :: ps)).bind F
        = (Dist.bernoulli (cfg.actProb p)).bind fun b => (activation cfg ps).bind fun bs => F (b :: bs) := by
      simp only [activation]
      rw [bind_assoc]
      apply bind_congr
      intro x _
      rw [bind_assoc]
      apply bind_congr
      intro y _
      rw [pure_bind]
    rw [h]
    simp only [Dist.bernoulli, mass_bind_cons, bind_nil, mass_nil, ih]
    simp only [List.length_cons, vectors, List.map_append, List.map_map, sumW_append]
    have e1 : ∀ bs : List Bool, actWeight cfg (p :: ps) (true :: bs) * mass (F (true :: bs)) q
        = cfg.actProb p * (actWeight cfg ps bs * mass (F (true :: bs)) q) := by
      intro bs; simp only [actWeight, if_true]; ring
    have e2 : ∀ bs : List Bool, actWeight cfg (p :: ps) (false :: bs) * mass (F (false :: bs)) q
        = (1 - cfg.actProb p) * (actWeight cfg ps bs * mass (F (false :: bs)) q) := by
      intro bs; simp only [actWeight, Bool.false_eq_true, if_false]; ring
    simp only [Function.comp_def, e1, e2, sumW_map_mul]
    ring

/-! ## depth-first sampling with an identity-keyed environment = one draw per node along the post-order -/

theorem step_support {cfg : Cfg} {P : Prog} {i : Nat} {env a : Env} {w : Rat}
    (h : (some a, w) ∈ step cfg P i env) : ∃ v, a = (i, v) :: env := by
  unfold step at h
  cases hn : P.nodes[i]? with
  | none => simp [hn, Dist.pure] at h
  | some nd =>
    simp only [hn] at h
    obtain ⟨x, _, z, hz, e⟩ := mem_bind h
    rcases x with ⟨o, v⟩
    cases o with
    | none =>
      simp only [Dist.pure, List.mem_singleton] at hz
      subst hz; simp at e
    | some val =>
      simp only [Dist.pure, List.mem_singleton] at hz
      subst hz
      simp only [Option.some.injEq] at e
      exact ⟨val, e⟩

theorem seqAlong_nil (cfg : Cfg) (P : Prog) (env : Env) : seqAlong cfg P [] env = Dist.pure (some env) := rfl

theorem seqAlong_cons (cfg : Cfg) (P : Prog) (i : Nat) (is : List Nat) (env : Env) :
    seqAlong cfg P (i :: is) env = bindO (step cfg P i env) (seqAlong cfg P is) := rfl

theorem seqAlong_single (cfg : Cfg) (P : Prog) (i : Nat) (env : Env) : seqAlong cfg P [i] env = step cfg P i env := by
  rw [seqAlong_cons]
  have : seqAlong cfg P [] = fun e => Dist.pure (some e) := rfl
  rw [this, bindO_pure_right]

/-- every environment produced by `seqAlong xs env` has exactly the identities of `xs` added (newest first) -/
theorem seqAlong_keys (cfg : Cfg) (P : Prog) :
    ∀ (xs : List Nat) (env env' : Env) (w : Rat), (some env', w) ∈ seqAlong cfg P xs env →
      env'.keys = xs.reverse ++ env.keys := by
  intro xs
  induction xs with
  | nil =>
    intro env env' w h
    simp only [seqAlong_nil, Dist.pure, List.mem_singleton, Prod.mk.injEq, Option.some.injEq] at h
    simp [h.1]
  | cons i is ih =>
    intro env env' w h
    rw [seqAlong_cons] at h
    obtain ⟨a, v, ha, u, hu⟩ := mem_bindO h
    obtain ⟨val, rfl⟩ := step_support ha
    rw [ih _ _ _ hu]
    simp [Env.keys]

theorem seqAlong_append (cfg : Cfg) (P : Prog) :
    ∀ (a b : List Nat) (env : Env), seqAlong cfg P (a ++ b) env = bindO (seqAlong cfg P a env) (seqAlong cfg P b) := by
  intro a
  induction a with
  | nil => intro b env; rw [List.nil_append, seqAlong_nil, bindO_pure_some]
  | cons i is ih =>
    intro b env
    rw [List.cons_append, seqAlong_cons, seqAlong_cons, bindO_assoc]
    congr 1
    funext e
    exact ih b e

theorem visit_zero (cfg : Cfg) (P : Prog) (i : Nat) (env : Env) : visit cfg P 0 i env = Dist.pure none := rfl

theorem visit_succ (cfg : Cfg) (P : Prog) (fuel i : Nat) (env : Env) :
    visit cfg P (fuel + 1) i env =
      if env.keys.contains i then Dist.pure (some env)
      else match P.nodes[i]? with
        | none => Dist.pure none
        | some nd => bindO (visitList cfg P fuel nd.deps env) (step cfg P i) := rfl

theorem orderNew_succ (P : Prog) (fuel i : Nat) (vis : List Nat) :
    orderNew P (fuel + 1) i vis =
      if vis.contains i then []
      else match P.nodes[i]? with
        | none => [i]
        | some nd => orderNewList P fuel nd.deps vis ++ [i] := rfl

/-- folding the visits over a list of nodes, given the single-node statement at the same fuel -/
theorem visitList_eq_aux (cfg : Cfg) (P : Prog) (fuel : Nat)
    (hnode : ∀ j env, j < fuel → visit cfg P fuel j env = seqAlong cfg P (orderNew P fuel j env.keys) env) :
    ∀ (js : List Nat) (L : List Nat) (env0 : Env), (∀ j ∈ js, j < fuel) →
      js.foldl (fun acc j => bindO acc (visit cfg P fuel j)) (seqAlong cfg P L env0)
        = seqAlong cfg P (js.foldl (fun acc j => acc ++ orderNew P fuel j (acc.reverse ++ env0.keys)) L) env0 := by
  intro js
  induction js with
  | nil => intro L env0 _; rfl
  | cons j js ih =>
    intro L env0 hjs
    simp only [List.foldl_cons]
    have hstep : bindO (seqAlong cfg P L env0) (visit cfg P fuel j)
        = seqAlong cfg P (L ++ orderNew P fuel j (L.reverse ++ env0.keys)) env0 := by
      rw [seqAlong_append]
      apply bindO_congr
      intro e w he
      rw [hnode j e (hjs j List.mem_cons_self), seqAlong_keys cfg P L env0 e w he]
    rw [hstep]
    exact ih _ env0 (fun x hx => hjs x (List.mem_cons_of_mem _ hx))

/-- **the identity-keyed depth-first sampler draws each node once, along its post-order**: for an acyclic program
    and enough fuel, `visit` is literally the sequence of single draws listed by the pure traversal `orderNew` -/
theorem visit_eq_seqAlong (cfg : Cfg) (P : Prog) (hP : P.WF) :
    ∀ (fuel i : Nat) (env : Env), i < fuel →
      visit cfg P fuel i env = seqAlong cfg P (orderNew P fuel i env.keys) env := by
  intro fuel
  induction fuel with
  | zero => intro i env h; omega
  | succ fuel ih =>
    intro i env hi
    rw [visit_succ, orderNew_succ]
    by_cases hc : env.keys.contains i
    · rw [if_pos hc, if_pos hc, seqAlong_nil]
    · rw [if_neg hc, if_neg hc]
      cases hn : P.nodes[i]? with
      | none =>
        simp only [seqAlong_single, step, hn]
      | some nd =>
        simp only []
        have hdeps : ∀ j ∈ nd.deps, j < fuel := fun j hj => by
          have := hP i nd hn j hj; omega
        have hl : visitList cfg P fuel nd.deps env
            = seqAlong cfg P (orderNewList P fuel nd.deps env.keys) env := by
          have := visitList_eq_aux cfg P fuel ih nd.deps [] env hdeps
          simpa [visitList, orderNewList, seqAlong_nil] using this
        rw [hl, seqAlong_append]
        congr 1
        funext e
        rw [seqAlong_single]

theorem visitList_eq_seqAlong (cfg : Cfg) (P : Prog) (hP : P.WF) (fuel : Nat) (js : List Nat) (env : Env)
    (hjs : ∀ j ∈ js, j < fuel) :
    visitList cfg P fuel js env = seqAlong cfg P (orderNewList P fuel js env.keys) env := by
  have := visitList_eq_aux cfg P fuel (visit_eq_seqAlong cfg P hP fuel) js [] env hjs
  simpa [visitList, orderNewList, seqAlong_nil] using this

/-- `Samplable.sampleAll(roots)` = one draw per node of `postorder P roots`, in that order -/
theorem sampleAll_eq_seqAlong (cfg : Cfg) (P : Prog) (hP : P.WF) (roots : List Nat)
    (hr : ∀ j ∈ roots, j < P.nodes.length) :
    sampleAll cfg P roots = seqAlong cfg P (postorder P roots) [] := by
  unfold sampleAll postorder
  have := visitList_eq_seqAlong cfg P hP (P.nodes.length + 1) roots [] (fun j hj => by have := hr j hj; omega)
  simpa [Env.keys] using this

end Scenic.Sampler
