import ScenicModel.Lemmas.SamplerConsistent
import ScenicModel.Model.SamplerFront

/-!
What the individual draws mean under a well-formed configuration (the constants extracted from the source):
`DiscreteRange` is uniform over exactly the integers between its bounds and is rejected iff there is none; the selector
of an `n`-option choice is uniform over exactly the valid indices; the multiplexer returns the selected option; a soft
requirement is active with exactly its probability; the loop makes exactly `maxIterations` attempts.
Also: independence of two draws of the same node description (resample), and the prefix property of the front end.
-/
namespace Scenic.Sampler
open Dist

theorem mem_intRange (l r k : Int) : k ∈ intRange l r ↔ l ≤ k ∧ k ≤ r := by
  unfold intRange
  simp only [List.mem_map, List.mem_range]
  constructor
  · rintro ⟨n, hn, rfl⟩; omega
  · intro ⟨h1, h2⟩
    exact ⟨(k - l).toNat, by omega, by omega⟩

theorem intRange_length (l r : Int) : (intRange l r).length = (r - l + 1).toNat := by
  simp [intRange]

theorem intRange_nodup (l r : Int) : (intRange l r).Nodup := by
  unfold intRange
  rw [List.Nodup, List.pairwise_map]
  exact (List.nodup_range (n := (r - l + 1).toNat)).imp (fun h e => h (by omega))

theorem Cfg.WF.actProb {c : Cfg} (h : c.WF) (p : Rat) : c.actProb p = p := by
  obtain ⟨_, _, _, _, _, _, _, h8, h9, _, _⟩ := h
  unfold Cfg.actProb
  rw [h9]
  rcases h8 with h8 | h8 <;> rw [h8] <;> rfl

theorem Cfg.WF.attempts {c : Cfg} (h : c.WF) (n : Nat) : c.attempts n = n ∧ c.iterStart = 0 := by
  obtain ⟨_, _, _, _, _, _, _, _, _, h10, h11⟩ := h
  unfold Cfg.attempts
  rw [h11, h10]
  exact ⟨by simp, rfl⟩

/-- `DiscreteRange(low, high)` with sampled bounds `a`, `b`, when some integer lies between them: every integer `k`
    with `a ≤ k ≤ b` (see `mem_intRange_bounds`) is drawn, each once, each with the same weight -/
theorem drange_draw {c : Cfg} (h : c.WF) (lo hi : Nat) (env : Env) (a b : Rat)
    (ha : env.get lo = .num a) (hb : env.get hi = .num b) (hne : a.ceil ≤ b.floor) :
    draw c (.drange lo hi) env
      = (intRange a.ceil b.floor).map fun k => (some (Val.num (k : Int)), 1 / ((intRange a.ceil b.floor).length : Rat)) := by
  obtain ⟨h1, h2, h3, _⟩ := h
  simp only [draw, ha, hb, h1, h2, h3, roundBy, drawIntRange]
  have : ¬ (b.floor < a.ceil) := by omega
  simp [this, Dist.uniform, Dist.map, List.map_map]

theorem mem_intRange_bounds (a b : Rat) (k : Int) : k ∈ intRange a.ceil b.floor ↔ a ≤ (k : Rat) ∧ (k : Rat) ≤ b := by
  rw [mem_intRange, Rat.ceil_le_iff, Rat.le_floor_iff]

/-- ... and it is rejected exactly when no integer lies between the bounds -/
theorem drange_reject {c : Cfg} (h : c.WF) (lo hi : Nat) (env : Env) (a b : Rat)
    (ha : env.get lo = .num a) (hb : env.get hi = .num b) :
    draw c (.drange lo hi) env = Dist.pure none ↔ ¬ ∃ k : Int, a ≤ (k : Rat) ∧ (k : Rat) ≤ b := by
  constructor
  · intro hd ⟨k, hk⟩
    have hmem := (mem_intRange_bounds a b k).mpr hk
    have hne : a.ceil ≤ b.floor := by
      have := (mem_intRange _ _ _).mp hmem; omega
    rw [drange_draw h lo hi env a b ha hb hne] at hd
    have : (some (Val.num (k : Int)), 1 / ((intRange a.ceil b.floor).length : Rat)) ∈ Dist.pure (none : Option Val) := by
      rw [← hd]; exact List.mem_map.mpr ⟨k, hmem, rfl⟩
    simp [Dist.pure] at this
  · intro hno
    have hlt : b.floor < a.ceil := by
      by_contra hge
      apply hno
      exact ⟨a.ceil, (mem_intRange_bounds a b a.ceil).mp ((mem_intRange _ _ _).mpr ⟨le_refl _, by omega⟩)⟩
    obtain ⟨h1, h2, h3, _⟩ := h
    simp only [draw, ha, hb, h1, h2, h3, roundBy, drawIntRange]
    simp [hlt]

/-- the selector `Options` builds for `n ≥ 1` options is uniform over exactly the indices `0 .. n-1` -/
theorem selector_draw {c : Cfg} (h : c.WF) (n : Nat) (hn : 1 ≤ n) (env : Env) :
    draw c (.selector n) env = (List.range n).map fun k => (some (Val.num ((k : Nat) : Int)), 1 / (n : Rat)) := by
  obtain ⟨_, _, h3, h4, h5, _⟩ := h
  simp only [draw, h3, h4, h5, drawIntRange]
  have : ¬ ((n : Int) + -1 < 0) := by omega
  simp [this, Dist.uniform, Dist.map, List.map_map, intRange, Function.comp_def]

/-- the multiplexer returns the option the index selects -/
theorem mux_draw (c : Cfg) (idx : Nat) (opts : List Nat) (env : Env) (k : Nat) (hk : k < opts.length)
    (hidx : env.get idx = .num ((k : Nat) : Int)) :
    draw c (.mux idx opts) env = Dist.pure (some (env.get (opts.getD k 0))) := by
  simp only [draw, hidx]
  have h1 : Val.isInt (((k : Nat) : Int) : Rat) = true := by simp [Val.isInt]
  have h2 : ((((k : Nat) : Int) : Rat)).num = (k : Int) := by simp
  rw [if_pos ⟨h1, by rw [h2]; omega, by rw [h2]; omega⟩, h2]
  simp

/-! ### independence of two draws of the same description -/

theorem mass_bindO_pure {σ ρ : Type} (d : Dist (Option σ)) (g : σ → ρ) (p : ρ → Bool) :
    mass (bindO d fun v => Dist.pure (some (g v))) (onSome p) = mass d (onSome fun v => p (g v)) := by
  unfold bindO
  induction d with
  | nil => simp [bind_nil]
  | cons x xs ih =>
    rw [mass_bind_cons, ih, mass_cons]
    rcases x with ⟨o, w⟩
    cases o with
    | none => simp [mass_pure, onSome]
    | some v =>
      simp only [mass_pure, onSome]
      by_cases hq : p (g v) <;> simp [hq]

theorem mass_bind_bind_option {σ τ ρ : Type} (d : Dist (Option σ)) (d' : Dist (Option τ)) (F : σ → τ → ρ)
    (qa : σ → Bool) (qc : τ → Bool) (p : ρ → Bool) (hp : ∀ v u, p (F v u) = (qa v && qc u)) :
    mass (bindO d fun v => bindO d' fun u => Dist.pure (some (F v u))) (onSome p)
      = mass d (onSome qa) * mass d' (onSome qc) := by
  have inner : ∀ v, mass (bindO d' fun u => Dist.pure (some (F v u))) (onSome p)
      = if qa v then mass d' (onSome qc) else 0 := by
    intro v
    rw [mass_bindO_pure]
    by_cases hq : qa v
    · rw [if_pos hq]
      apply mass_congr
      intro x _
      cases x.1 with
      | none => rfl
      | some u => simp [onSome, hp, hq]
    · rw [if_neg hq, ← mass_false d']
      apply mass_congr
      intro x _
      cases x.1 with
      | none => rfl
      | some u => simp [onSome, hp, hq]
  unfold bindO at inner ⊢
  induction d with
  | nil => simp [bind_nil]
  | cons x xs ih =>
    rw [mass_bind_cons, ih, mass_cons]
    rcases x with ⟨o, w⟩
    cases o with
    | none => simp [mass_pure, onSome]
    | some v =>
      simp only [inner, onSome]
      by_cases hq : qa v
      · simp [hq]; ring
      · simp [hq]

/-! ### the front end only appends -/

theorem run_append (a b : List Stmt) (s : CState) : run (a ++ b) s = run b (run a s) := by
  simp [run, List.foldl_append]

theorem run_cons (x : Stmt) (b : List Stmt) (s : CState) : run (x :: b) s = run b (exec s x) := rfl

/-- later statements never change or remove nodes and requirements recorded earlier -/
theorem run_extends (b : List Stmt) : ∀ s : CState, ∃ moreNodes moreReqs,
    (run b s).nodes = s.nodes ++ moreNodes ∧ (run b s).reqs = s.reqs ++ moreReqs := by
  induction b with
  | nil => intro s; exact ⟨[], [], by simp [run], by simp [run]⟩
  | cons x b ih =>
    intro s
    rw [run_cons]
    obtain ⟨mn, mr, h1, h2⟩ := ih (exec s x)
    cases x with
    | define n nodes =>
      refine ⟨nodes ++ mn, mr, ?_, ?_⟩
      · rw [h1]; simp [exec]
      · rw [h2]; simp [exec]
    | require p c =>
      refine ⟨mn, (p, c.resolve s.names) :: mr, ?_, ?_⟩
      · rw [h1]; simp [exec]
      · rw [h2]; simp [exec]

end Scenic.Sampler
