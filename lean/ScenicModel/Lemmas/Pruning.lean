import ScenicModel.Model.Pruning
import Mathlib.Tactic.Linarith
import Mathlib.Tactic.Ring
import Mathlib.Tactic.NormNum

/-! Helper lemmas for the pruning model: absolute values, list lookup, bound tables. -/
namespace Scenic.Pruning

theorem absQ_nonneg (x : Rat) : 0 ≤ absQ x := by
  unfold absQ; split <;> linarith

theorem absQ_le {x c : Rat} (h : absQ x ≤ c) : -c ≤ x ∧ x ≤ c := by
  unfold absQ at h; split at h <;> constructor <;> linarith

theorem le_absQ (x : Rat) : x ≤ absQ x ∧ -x ≤ absQ x := by
  unfold absQ; split <;> constructor <;> linarith

theorem lookup_mem {α β} [BEq α] [LawfulBEq α] (l : List (α × β)) (a : α) (b : β)
    (h : l.lookup a = some b) : (a, b) ∈ l := by
  induction l with
  | nil => simp at h
  | cons p ps ih =>
    obtain ⟨x, y⟩ := p
    simp only [List.lookup_cons] at h
    split at h
    · next heq => simp at heq; simp at h; subst heq; subst h; simp
    · exact List.mem_cons_of_mem _ (ih h)

/-- operators in `isUpper` imply `left ≤ right` -/
theorem sem_isUpper {op : CmpOp} (h : op.isUpper = true) {x y : Rat} (hs : op.sem x y) : x ≤ y := by
  cases op <;> simp [CmpOp.isUpper] at h <;> simp only [CmpOp.sem] at hs
  · exact le_of_lt hs
  · exact hs
  · exact le_of_eq hs

theorem sem_converse {a b : CmpOp} (h : a.converseOf b = true) {x y : Rat} (hs : a.sem x y) :
    b.sem y x := by
  cases a <;> cases b <;> simp [CmpOp.converseOf] at h <;> simp only [CmpOp.sem] at hs ⊢
  all_goals first | exact hs | exact hs.symm | exact fun h' => hs h'.symm

/-! ### well-formedness, unpacked -/

structure Dispatch.WFP (D : Dispatch) : Prop where
  swap : ∀ p ∈ D.swapOps, p.1.converseOf p.2 = true ∧ D.swapOps.lookup p.2 = Option.none
  bound : ∀ op ∈ D.boundOps, op.isUpper = true
  eqs : ∀ op ∈ D.eqOps, op = .eq
  guardFirst : D.absGuardFirst = true
  plain : D.absPlain = (-1, 1)
  add : D.absAdd = ((-1, -1), (1, -1))
  sub : D.absSub = ((-1, 1), (1, 1))

end Scenic.Pruning

namespace Scenic.Pruning

theorem Dispatch.wfp {D : Dispatch} (h : D.WF = true) : D.WFP := by
  simp only [Dispatch.WF, Bool.and_eq_true, List.all_eq_true, beq_iff_eq, Option.isNone_iff_eq_none] at h
  obtain ⟨⟨⟨⟨⟨⟨h1, h2⟩, h3⟩, h4⟩, h5⟩, h6⟩, h7⟩ := h
  exact ⟨h1, h2, h3, h4, h5, h6, h7⟩

end Scenic.Pruning
