import ScenicModel.Model.Visibility
import Mathlib.Tactic.Ring
import Mathlib.Tactic.Linarith
import Mathlib.Tactic.LinearCombination
import Mathlib.Tactic.FieldSimp
import Mathlib.Tactic.Positivity
import Mathlib.Tactic.NormNum
import Mathlib.Algebra.Order.Field.Rat

/-! Linear-algebra lemmas for the visibility model (C17). -/
namespace Scenic.Vis

theorem V3.ext' {a b : V3} (hx : a.x = b.x) (hy : a.y = b.y) (hz : a.z = b.z) : a = b := by
  cases a; cases b; simp_all

@[simp] theorem V3.add_x (a b : V3) : (a.add b).x = a.x + b.x := rfl
@[simp] theorem V3.add_y (a b : V3) : (a.add b).y = a.y + b.y := rfl
@[simp] theorem V3.add_z (a b : V3) : (a.add b).z = a.z + b.z := rfl
@[simp] theorem V3.sub_x (a b : V3) : (a.sub b).x = a.x - b.x := rfl
@[simp] theorem V3.sub_y (a b : V3) : (a.sub b).y = a.y - b.y := rfl
@[simp] theorem V3.sub_z (a b : V3) : (a.sub b).z = a.z - b.z := rfl
@[simp] theorem V3.smul_x (k : Rat) (a : V3) : (a.smul k).x = k * a.x := rfl
@[simp] theorem V3.smul_y (k : Rat) (a : V3) : (a.smul k).y = k * a.y := rfl
@[simp] theorem V3.smul_z (k : Rat) (a : V3) : (a.smul k).z = k * a.z := rfl

theorem V3.dot_def (a b : V3) : a.dot b = a.x * b.x + a.y * b.y + a.z * b.z := rfl
theorem V3.normSq_def (a : V3) : a.normSq = a.x * a.x + a.y * a.y + a.z * a.z := rfl

theorem V3.normSq_nonneg (a : V3) : 0 ≤ a.normSq := by
  rw [V3.normSq_def]; nlinarith [mul_self_nonneg a.x, mul_self_nonneg a.y, mul_self_nonneg a.z]

theorem V3.normSq_eq_zero {a : V3} (h : a.normSq = 0) : a = V3.zero := by
  rw [V3.normSq_def] at h
  have hx : a.x = 0 := by nlinarith [mul_self_nonneg a.x, mul_self_nonneg a.y, mul_self_nonneg a.z]
  have hy : a.y = 0 := by nlinarith [mul_self_nonneg a.x, mul_self_nonneg a.y, mul_self_nonneg a.z]
  have hz : a.z = 0 := by nlinarith [mul_self_nonneg a.x, mul_self_nonneg a.y, mul_self_nonneg a.z]
  exact V3.ext' hx hy hz

theorem V3.sub_eq_zero {a b : V3} : a.sub b = V3.zero ↔ a = b := by
  constructor
  · intro h
    have hx := congrArg V3.x h
    have hy := congrArg V3.y h
    have hz := congrArg V3.z h
    simp only [V3.sub_x, V3.sub_y, V3.sub_z, V3.zero] at hx hy hz
    exact V3.ext' (by linarith) (by linarith) (by linarith)
  · rintro rfl
    exact V3.ext' (by simp [V3.zero]) (by simp [V3.zero]) (by simp [V3.zero])

namespace Mat3

@[simp] theorem apply_x (M : Mat3) (v : V3) : (M.apply v).x = M.r0.x * v.x + M.r0.y * v.y + M.r0.z * v.z := rfl
@[simp] theorem apply_y (M : Mat3) (v : V3) : (M.apply v).y = M.r1.x * v.x + M.r1.y * v.y + M.r1.z * v.z := rfl
@[simp] theorem apply_z (M : Mat3) (v : V3) : (M.apply v).z = M.r2.x * v.x + M.r2.y * v.y + M.r2.z * v.z := rfl
@[simp] theorem applyT_x (M : Mat3) (v : V3) : (M.applyT v).x = M.r0.x * v.x + M.r1.x * v.y + M.r2.x * v.z := rfl
@[simp] theorem applyT_y (M : Mat3) (v : V3) : (M.applyT v).y = M.r0.y * v.x + M.r1.y * v.y + M.r2.y * v.z := rfl
@[simp] theorem applyT_z (M : Mat3) (v : V3) : (M.applyT v).z = M.r0.z * v.x + M.r1.z * v.y + M.r2.z * v.z := rfl

/-- the twelve scalar equations of orthogonality -/
structure OrthoEqs (M : Mat3) : Prop where
  r00 : M.r0.x * M.r0.x + M.r0.y * M.r0.y + M.r0.z * M.r0.z = 1
  r11 : M.r1.x * M.r1.x + M.r1.y * M.r1.y + M.r1.z * M.r1.z = 1
  r22 : M.r2.x * M.r2.x + M.r2.y * M.r2.y + M.r2.z * M.r2.z = 1
  r01 : M.r0.x * M.r1.x + M.r0.y * M.r1.y + M.r0.z * M.r1.z = 0
  r02 : M.r0.x * M.r2.x + M.r0.y * M.r2.y + M.r0.z * M.r2.z = 0
  r12 : M.r1.x * M.r2.x + M.r1.y * M.r2.y + M.r1.z * M.r2.z = 0
  c00 : M.r0.x * M.r0.x + M.r1.x * M.r1.x + M.r2.x * M.r2.x = 1
  c11 : M.r0.y * M.r0.y + M.r1.y * M.r1.y + M.r2.y * M.r2.y = 1
  c22 : M.r0.z * M.r0.z + M.r1.z * M.r1.z + M.r2.z * M.r2.z = 1
  c01 : M.r0.x * M.r0.y + M.r1.x * M.r1.y + M.r2.x * M.r2.y = 0
  c02 : M.r0.x * M.r0.z + M.r1.x * M.r1.z + M.r2.x * M.r2.z = 0
  c12 : M.r0.y * M.r0.z + M.r1.y * M.r1.z + M.r2.y * M.r2.z = 0

theorem IsOrtho.eqs {M : Mat3} (h : M.IsOrtho) : OrthoEqs M := by
  obtain ⟨⟨a, b, c, d, e, f⟩, ⟨g, i, j, k, l, m⟩⟩ := h
  exact ⟨a, b, c, d, e, f, g, i, j, k, l, m⟩

theorem isOrtho_of_eqs {M : Mat3} (h : OrthoEqs M) : M.IsOrtho :=
  ⟨⟨h.r00, h.r11, h.r22, h.r01, h.r02, h.r12⟩, ⟨h.c00, h.c11, h.c22, h.c01, h.c02, h.c12⟩⟩

theorem applyT_apply {M : Mat3} (h : M.IsOrtho) (v : V3) : M.applyT (M.apply v) = v := by
  have e := h.eqs
  apply V3.ext'
  · simp only [applyT_x, apply_x, apply_y, apply_z]
    linear_combination v.x * e.c00 + v.y * e.c01 + v.z * e.c02
  · simp only [applyT_y, apply_x, apply_y, apply_z]
    linear_combination v.x * e.c01 + v.y * e.c11 + v.z * e.c12
  · simp only [applyT_z, apply_x, apply_y, apply_z]
    linear_combination v.x * e.c02 + v.y * e.c12 + v.z * e.c22

theorem apply_applyT {M : Mat3} (h : M.IsOrtho) (v : V3) : M.apply (M.applyT v) = v := by
  have e := h.eqs
  apply V3.ext'
  · simp only [applyT_x, applyT_y, applyT_z, apply_x]
    linear_combination v.x * e.r00 + v.y * e.r01 + v.z * e.r02
  · simp only [applyT_x, applyT_y, applyT_z, apply_y]
    linear_combination v.x * e.r01 + v.y * e.r11 + v.z * e.r12
  · simp only [applyT_x, applyT_y, applyT_z, apply_z]
    linear_combination v.x * e.r02 + v.y * e.r12 + v.z * e.r22

theorem normSq_apply {M : Mat3} (h : M.IsOrtho) (v : V3) : (M.apply v).normSq = v.normSq := by
  have e := h.eqs
  simp only [V3.normSq_def, apply_x, apply_y, apply_z]
  linear_combination (v.x * v.x) * e.c00 + (v.y * v.y) * e.c11 + (v.z * v.z) * e.c22
    + (2 * v.x * v.y) * e.c01 + (2 * v.x * v.z) * e.c02 + (2 * v.y * v.z) * e.c12

theorem normSq_applyT {M : Mat3} (h : M.IsOrtho) (v : V3) : (M.applyT v).normSq = v.normSq := by
  have e := h.eqs
  simp only [V3.normSq_def, applyT_x, applyT_y, applyT_z]
  linear_combination (v.x * v.x) * e.r00 + (v.y * v.y) * e.r11 + (v.z * v.z) * e.r22
    + (2 * v.x * v.y) * e.r01 + (2 * v.x * v.z) * e.r02 + (2 * v.y * v.z) * e.r12

theorem apply_sub (M : Mat3) (a b : V3) : M.apply (a.sub b) = (M.apply a).sub (M.apply b) := by
  apply V3.ext' <;> simp only [apply_x, apply_y, apply_z, V3.sub_x, V3.sub_y, V3.sub_z] <;> ring

theorem apply_add (M : Mat3) (a b : V3) : M.apply (a.add b) = (M.apply a).add (M.apply b) := by
  apply V3.ext' <;> simp only [apply_x, apply_y, apply_z, V3.add_x, V3.add_y, V3.add_z] <;> ring

theorem apply_smul (M : Mat3) (k : Rat) (a : V3) : M.apply (a.smul k) = (M.apply a).smul k := by
  apply V3.ext' <;> simp only [apply_x, apply_y, apply_z, V3.smul_x, V3.smul_y, V3.smul_z] <;> ring

theorem applyT_sub (M : Mat3) (a b : V3) : M.applyT (a.sub b) = (M.applyT a).sub (M.applyT b) := by
  apply V3.ext' <;> simp only [applyT_x, applyT_y, applyT_z, V3.sub_x, V3.sub_y, V3.sub_z] <;> ring

theorem applyT_add (M : Mat3) (a b : V3) : M.applyT (a.add b) = (M.applyT a).add (M.applyT b) := by
  apply V3.ext' <;> simp only [applyT_x, applyT_y, applyT_z, V3.add_x, V3.add_y, V3.add_z] <;> ring

theorem applyT_smul (M : Mat3) (k : Rat) (a : V3) : M.applyT (a.smul k) = (M.applyT a).smul k := by
  apply V3.ext' <;> simp only [applyT_x, applyT_y, applyT_z, V3.smul_x, V3.smul_y, V3.smul_z] <;> ring

theorem mul_apply (A B : Mat3) (v : V3) : (A.mul B).apply v = A.apply (B.apply v) := by
  apply V3.ext' <;> simp only [mul, col0, col1, col2, V3.dot_def, apply_x, apply_y, apply_z] <;> ring

theorem mul_applyT (A B : Mat3) (v : V3) : (A.mul B).applyT v = B.applyT (A.applyT v) := by
  apply V3.ext' <;> simp only [mul, col0, col1, col2, V3.dot_def, applyT_x, applyT_y, applyT_z] <;> ring

theorem id_apply (v : V3) : Mat3.id.apply v = v := by
  apply V3.ext' <;> simp [Mat3.id]

theorem id_applyT (v : V3) : Mat3.id.applyT v = v := by
  apply V3.ext' <;> simp [Mat3.id]

theorem id_isOrtho : Mat3.id.IsOrtho := by
  unfold Mat3.IsOrtho Mat3.id Mat3.col0 Mat3.col1 Mat3.col2 V3.dot
  norm_num

/-- the product of orthogonal matrices is orthogonal -/
theorem IsOrtho.mul {A B : Mat3} (hA : A.IsOrtho) (hB : B.IsOrtho) : (A.mul B).IsOrtho := by
  have a := hA.eqs
  have b := hB.eqs
  apply isOrtho_of_eqs
  constructor <;> simp only [Mat3.mul, col0, col1, col2, V3.dot_def]
  · linear_combination (A.r0.x * A.r0.x) * b.r00 + (A.r0.y * A.r0.y) * b.r11 + (A.r0.z * A.r0.z) * b.r22
      + (2 * A.r0.x * A.r0.y) * b.r01 + (2 * A.r0.x * A.r0.z) * b.r02 + (2 * A.r0.y * A.r0.z) * b.r12 + a.r00
  · linear_combination (A.r1.x * A.r1.x) * b.r00 + (A.r1.y * A.r1.y) * b.r11 + (A.r1.z * A.r1.z) * b.r22
      + (2 * A.r1.x * A.r1.y) * b.r01 + (2 * A.r1.x * A.r1.z) * b.r02 + (2 * A.r1.y * A.r1.z) * b.r12 + a.r11
  · linear_combination (A.r2.x * A.r2.x) * b.r00 + (A.r2.y * A.r2.y) * b.r11 + (A.r2.z * A.r2.z) * b.r22
      + (2 * A.r2.x * A.r2.y) * b.r01 + (2 * A.r2.x * A.r2.z) * b.r02 + (2 * A.r2.y * A.r2.z) * b.r12 + a.r22
  · linear_combination (A.r0.x * A.r1.x) * b.r00 + (A.r0.y * A.r1.y) * b.r11 + (A.r0.z * A.r1.z) * b.r22
      + (A.r0.x * A.r1.y + A.r0.y * A.r1.x) * b.r01 + (A.r0.x * A.r1.z + A.r0.z * A.r1.x) * b.r02
      + (A.r0.y * A.r1.z + A.r0.z * A.r1.y) * b.r12 + a.r01
  · linear_combination (A.r0.x * A.r2.x) * b.r00 + (A.r0.y * A.r2.y) * b.r11 + (A.r0.z * A.r2.z) * b.r22
      + (A.r0.x * A.r2.y + A.r0.y * A.r2.x) * b.r01 + (A.r0.x * A.r2.z + A.r0.z * A.r2.x) * b.r02
      + (A.r0.y * A.r2.z + A.r0.z * A.r2.y) * b.r12 + a.r02
  · linear_combination (A.r1.x * A.r2.x) * b.r00 + (A.r1.y * A.r2.y) * b.r11 + (A.r1.z * A.r2.z) * b.r22
      + (A.r1.x * A.r2.y + A.r1.y * A.r2.x) * b.r01 + (A.r1.x * A.r2.z + A.r1.z * A.r2.x) * b.r02
      + (A.r1.y * A.r2.z + A.r1.z * A.r2.y) * b.r12 + a.r12
  · linear_combination (B.r0.x * B.r0.x) * a.c00 + (B.r1.x * B.r1.x) * a.c11 + (B.r2.x * B.r2.x) * a.c22
      + (2 * B.r0.x * B.r1.x) * a.c01 + (2 * B.r0.x * B.r2.x) * a.c02 + (2 * B.r1.x * B.r2.x) * a.c12 + b.c00
  · linear_combination (B.r0.y * B.r0.y) * a.c00 + (B.r1.y * B.r1.y) * a.c11 + (B.r2.y * B.r2.y) * a.c22
      + (2 * B.r0.y * B.r1.y) * a.c01 + (2 * B.r0.y * B.r2.y) * a.c02 + (2 * B.r1.y * B.r2.y) * a.c12 + b.c11
  · linear_combination (B.r0.z * B.r0.z) * a.c00 + (B.r1.z * B.r1.z) * a.c11 + (B.r2.z * B.r2.z) * a.c22
      + (2 * B.r0.z * B.r1.z) * a.c01 + (2 * B.r0.z * B.r2.z) * a.c02 + (2 * B.r1.z * B.r2.z) * a.c12 + b.c22
  · linear_combination (B.r0.x * B.r0.y) * a.c00 + (B.r1.x * B.r1.y) * a.c11 + (B.r2.x * B.r2.y) * a.c22
      + (B.r0.x * B.r1.y + B.r1.x * B.r0.y) * a.c01 + (B.r0.x * B.r2.y + B.r2.x * B.r0.y) * a.c02
      + (B.r1.x * B.r2.y + B.r2.x * B.r1.y) * a.c12 + b.c01
  · linear_combination (B.r0.x * B.r0.z) * a.c00 + (B.r1.x * B.r1.z) * a.c11 + (B.r2.x * B.r2.z) * a.c22
      + (B.r0.x * B.r1.z + B.r1.x * B.r0.z) * a.c01 + (B.r0.x * B.r2.z + B.r2.x * B.r0.z) * a.c02
      + (B.r1.x * B.r2.z + B.r2.x * B.r1.z) * a.c12 + b.c02
  · linear_combination (B.r0.y * B.r0.z) * a.c00 + (B.r1.y * B.r1.z) * a.c11 + (B.r2.y * B.r2.z) * a.c22
      + (B.r0.y * B.r1.z + B.r1.y * B.r0.z) * a.c01 + (B.r0.y * B.r2.z + B.r2.y * B.r0.z) * a.c02
      + (B.r1.y * B.r2.z + B.r2.y * B.r1.z) * a.c12 + b.c12

/-- every non-zero rational quaternion gives an orthogonal matrix -/
theorem ofQuat_isOrtho (w x y z : Rat) (hn : w * w + x * x + y * y + z * z ≠ 0) :
    (ofQuat w x y z).IsOrtho := by
  have hn2 : w ^ 2 + x ^ 2 + y ^ 2 + z ^ 2 ≠ 0 := by
    intro h; apply hn; nlinarith
  apply isOrtho_of_eqs
  constructor <;> simp only [ofQuat] <;> field_simp <;> ring

end Mat3

/-! ### absolute value helper -/

theorem absR_nonneg (a : Rat) : 0 ≤ absR a := by
  unfold absR; split <;> linarith

theorem le_absR (a : Rat) : a ≤ absR a := by
  unfold absR; split <;> linarith

theorem neg_le_absR (a : Rat) : -a ≤ absR a := by
  unfold absR; split <;> linarith

theorem absR_mul_self (a : Rat) : absR a * absR a = a * a := by
  unfold absR; split <;> ring

theorem absR_le_iff {a h : Rat} : absR a ≤ h ↔ -h ≤ a ∧ a ≤ h := by
  unfold absR
  split
  · constructor
    · intro hh; constructor <;> linarith
    · intro hh; linarith [hh.1]
  · constructor
    · intro hh; constructor <;> linarith
    · intro hh; linarith [hh.2]

/-- `k·g ≤ |g|·h` whenever `|k| ≤ h` -/
theorem mul_le_absR_mul {k g h : Rat} (h1 : -h ≤ k) (h2 : k ≤ h) : k * g ≤ absR g * h := by
  unfold absR
  split
  · nlinarith
  · nlinarith

end Scenic.Vis
