import ScenicModel.Model.PegTotal
/-! # Lemmas for the PEG interpreter: position monotonicity, cache invariants, soundness of the nullable table -/
namespace Scenic.PegTotal
open Std

variable {σ : Type}

/-- every cached entry ends inside the input, not before it starts; a cached success of zero width is nullable -/
def CInv (E : Env σ) (g : Grammar) (c : Cache) : Prop :=
  ∀ r p v e, c[(r, p)]? = some (v, e) → p ≤ e ∧ e ≤ E.n ∧ (v = true → e = p → g.isNullable r = true)

/-- the cache only grows -/
def Mono (c c' : Cache) : Prop := ∀ k : Nat × Nat, c[k]? ≠ none → c'[k]? ≠ none

theorem Mono.refl (c : Cache) : Mono c c := fun _ h => h
theorem Mono.trans {a b c : Cache} (h1 : Mono a b) (h2 : Mono b c) : Mono a c := fun k h => h2 k (h1 k h)

theorem Mono.insert (c : Cache) (k : Nat × Nat) (v : Bool × Nat) : Mono c (c.insert k v) := by
  intro a h
  rw [HashMap.getElem?_insert]
  split
  · simp
  · exact h

theorem CInv.insert {E : Env σ} {g : Grammar} {c : Cache} (h : CInv E g c) (r p : Nat) (v : Bool) (e : Nat)
    (h1 : p ≤ e) (h2 : e ≤ E.n) (h3 : v = true → e = p → g.isNullable r = true) :
    CInv E g (c.insert (r, p) (v, e)) := by
  intro r' p' v' e' hget
  rw [HashMap.getElem?_insert] at hget
  split at hget
  · next heq =>
    simp only [beq_iff_eq, Prod.mk.injEq] at heq
    obtain ⟨rfl, rfl⟩ := heq
    simp only [Option.some.injEq, Prod.mk.injEq] at hget
    obtain ⟨rfl, rfl⟩ := hget
    exact ⟨h1, h2, h3⟩
  · exact h r' p' v' e' hget

/-- post-condition of anything that returns a `Res` -/
def Post (E : Env σ) (g : Grammar) (p : Nat) (nul : Prop) (c : Cache) (out : Res × St σ) : Prop :=
  CInv E g out.2.cache ∧ Mono c out.2.cache ∧
  (∀ e, out.1 = .ok e → p ≤ e ∧ e ≤ E.n ∧ (e = p → nul)) ∧
  (∀ e, out.1 = .fail e → p ≤ e ∧ e ≤ E.n)

/-- post-condition of an item sequence -/
def IPost (E : Env σ) (g : Grammar) (p : Nat) (nul : Prop) (c : Cache) (out : IRes × St σ) : Prop :=
  CInv E g out.2.cache ∧ Mono c out.2.cache ∧
  (∀ e, out.1 = .ok e → p ≤ e ∧ e ≤ E.n ∧ (e = p → nul))

/-- a recursive-call function is *sound*: positions only move forward, stay inside the input, the cache invariant is
kept, and a zero-width success only comes from a rule the table calls nullable -/
def Sound (E : Env σ) (g : Grammar) (rec : Rec σ) : Prop :=
  ∀ r p inv s, p ≤ E.n → CInv E g s.cache → Post E g p (g.isNullable r = true) s.cache (rec r p inv s)

theorem evalAtom_post {E : Env σ} {g : Grammar} {rec : Rec σ} (hs : Sound E g rec) (a : Atom) (p : Nat) (inv : Bool)
    (s : St σ) (hp : p ≤ E.n) (hc : CInv E g s.cache) :
    Post E g p (atomNullable g a = true) s.cache (evalAtom E rec a p inv s) := by
  cases a with
  | rule r => exact hs r p inv s hp hc
  | tok t =>
    unfold evalAtom
    simp only
    by_cases h1 : p < E.n
    · simp only [h1, if_true]
      by_cases h2 : E.matchAt t p = true
      · simp only [h2, if_true]
        refine ⟨hc, Mono.refl _, ?_, ?_⟩
        · intro e he
          simp only [Res.ok.injEq] at he
          subst he
          exact ⟨by omega, by omega, by intro h; omega⟩
        · intro e he; cases he
      · simp only [h2, Bool.false_eq_true, if_false]
        refine ⟨hc, Mono.refl _, ?_, ?_⟩
        · intro e he; cases he
        · intro e he
          simp only [Res.fail.injEq] at he
          subst he
          exact ⟨Nat.le_refl _, hp⟩
    · simp only [h1, if_false]
      refine ⟨hc, Mono.refl _, ?_, ?_⟩
      · intro e he; cases he
      · intro e he; cases he

/-- if the item lets the sequence go on at `e`, then `e` is in range and a zero-width step means the item is nullable -/
theorem itemNext_go {E : Env σ} {g : Grammar} (it : Item) (a : Atom) (ha : it.atom? = some a) (p : Nat) (c : Bool)
    (res : Res) (e : Nat) (hp : p ≤ E.n)
    (hok : ∀ e', res = .ok e' → p ≤ e' ∧ e' ≤ E.n ∧ (e' = p → atomNullable g a = true))
    (hfail : ∀ e', res = .fail e' → p ≤ e' ∧ e' ≤ E.n)
    (h : itemNext it p c res = .go e) :
    p ≤ e ∧ e ≤ E.n ∧ (e = p → itemNullable g it = true) := by
  cases res with
  | raise => simp [itemNext] at h
  | hang => simp [itemNext] at h
  | ok e' =>
    obtain ⟨h1, h2, h3⟩ := hok e' rfl
    cases it <;> simp only [itemNext, Next.go.injEq, reduceCtorEq] at h <;> simp only [Item.atom?, Option.some.injEq, reduceCtorEq] at ha
    · subst h; subst ha; exact ⟨h1, h2, fun he => by simpa [itemNullable] using h3 he⟩
    · subst h; exact ⟨h1, h2, fun _ => rfl⟩
    · subst h; exact ⟨Nat.le_refl _, hp, fun _ => rfl⟩
    · subst h; subst ha; exact ⟨h1, h2, fun he => by simpa [itemNullable] using h3 he⟩
  | fail e' =>
    obtain ⟨h1, h2⟩ := hfail e' rfl
    cases it <;> simp only [itemNext, Next.go.injEq, reduceCtorEq] at h <;> simp only [Item.atom?, Option.some.injEq, reduceCtorEq] at ha
    · subst h; exact ⟨h1, h2, fun _ => rfl⟩
    · subst h; exact ⟨Nat.le_refl _, hp, fun _ => rfl⟩

theorem itemNext_stop_hang (it : Item) (p : Nat) (c : Bool) (res : Res) (h : itemNext it p c res = .stop .hang) :
    res = .hang := by
  cases res <;> cases it <;> simp [itemNext] at h ⊢

theorem itemNext_stop_ok (it : Item) (p : Nat) (c : Bool) (res : Res) (e : Nat) : itemNext it p c res ≠ .stop (.ok e) := by
  cases res <;> cases it <;> simp [itemNext]

theorem itemsNullable_cons (g : Grammar) (it : Item) (rest : List Item) :
    itemsNullable g (it :: rest) = (itemNullable g it && itemsNullable g rest) := by
  simp [itemsNullable]

theorem evalItems_post {E : Env σ} {g : Grammar} {rec : Rec σ} (hs : Sound E g rec) (inv : Bool) :
    ∀ (items : List Item) (p : Nat) (c : Bool) (s : St σ), p ≤ E.n → CInv E g s.cache →
      IPost E g p (itemsNullable g items = true) s.cache (evalItems E rec inv items p c s) := by
  intro items
  induction items with
  | nil =>
    intro p c s hp hc
    simp only [evalItems]
    refine ⟨hc, Mono.refl _, ?_⟩
    intro e he
    simp only [IRes.ok.injEq] at he
    subst he
    exact ⟨Nat.le_refl _, hp, fun _ => by simp [itemsNullable]⟩
  | cons it rest ih =>
    intro p c s hp hc
    simp only [evalItems]
    cases ha : it.atom? with
    | none =>
      simp only
      obtain ⟨h1, h2, h3⟩ := ih p true s hp hc
      refine ⟨h1, h2, ?_⟩
      intro e he
      obtain ⟨a1, a2, a3⟩ := h3 e he
      refine ⟨a1, a2, fun hep => ?_⟩
      rw [itemsNullable_cons, a3 hep]
      cases it <;> simp [Item.atom?] at ha
      simp [itemNullable]
    | some a =>
      simp only
      obtain ⟨q1, q2, q3, q4⟩ := evalAtom_post hs a p inv s hp hc
      cases hn : itemNext it p c (evalAtom E rec a p inv s).1 with
      | go e1 =>
        simp only
        obtain ⟨b1, b2, b3⟩ := itemNext_go (E := E) (g := g) it a ha p c _ e1 hp q3 q4 hn
        obtain ⟨h1, h2, h3⟩ := ih e1 c (evalAtom E rec a p inv s).2 b2 q1
        refine ⟨h1, q2.trans h2, ?_⟩
        intro e he
        obtain ⟨a1, a2, a3⟩ := h3 e he
        refine ⟨by omega, a2, fun hep => ?_⟩
        have : e1 = p := by omega
        rw [itemsNullable_cons, b3 this, a3 (by omega)]
        rfl
      | stop r =>
        simp only
        refine ⟨q1, q2, ?_⟩
        intro e he
        simp only at he
        subst he
        exact absurd hn (itemNext_stop_ok it p c _ e)

theorem actRes_post {E : Env σ} {g : Grammar} (s : St σ) (alt : Alt) (p e : Nat) (c0 : Cache) (nul : Prop)
    (hc : CInv E g s.cache) (hm : Mono c0 s.cache) (h1 : p ≤ e) (h2 : e ≤ E.n) (h3 : e = p → nul) :
    Post E g p nul c0 (actRes E s alt p e) := by
  simp only [actRes]
  cases hact : (E.act s.orc alt.act p e).1 <;> simp only
  · refine ⟨hc, hm, ?_, ?_⟩
    · intro e' he; simp only [Res.ok.injEq] at he; subst he; exact ⟨h1, h2, h3⟩
    · intro e' he; cases he
  · refine ⟨hc, hm, ?_, ?_⟩
    · intro e' he; cases he
    · intro e' he; simp only [Res.fail.injEq] at he; subst he; exact ⟨h1, h2⟩
  · refine ⟨hc, hm, ?_, ?_⟩ <;> intro e' he <;> cases he

theorem altsNullable_cons (g : Grammar) (a : Alt) (rest : List Alt) :
    altsNullable g (a :: rest) = (itemsNullable g a.items || altsNullable g rest) := by
  simp [altsNullable]

theorem Post.weaken {E : Env σ} {g : Grammar} {p : Nat} {n1 n2 : Prop} {c : Cache} {out : Res × St σ}
    (h : Post E g p n1 c out) (hn : n1 → n2) : Post E g p n2 c out :=
  ⟨h.1, h.2.1, fun e he => ⟨(h.2.2.1 e he).1, (h.2.2.1 e he).2.1, fun hp => hn ((h.2.2.1 e he).2.2 hp)⟩, h.2.2.2⟩

theorem Post.mono_left {E : Env σ} {g : Grammar} {p : Nat} {n1 : Prop} {c0 c : Cache} {out : Res × St σ}
    (h : Post E g p n1 c out) (hm : Mono c0 c) : Post E g p n1 c0 out :=
  ⟨h.1, hm.trans h.2.1, h.2.2.1, h.2.2.2⟩

theorem evalAlts_post {E : Env σ} {g : Grammar} {rec : Rec σ} (hs : Sound E g rec) (inv : Bool) (p : Nat) (hp : p ≤ E.n) :
    ∀ (alts : List Alt) (s : St σ), CInv E g s.cache →
      Post E g p (altsNullable g alts = true) s.cache (evalAlts E rec inv p alts s) := by
  intro alts
  induction alts with
  | nil =>
    intro s hc
    simp only [evalAlts]
    refine ⟨hc, Mono.refl _, ?_, ?_⟩
    · intro e he; cases he
    · intro e he; simp only [Res.fail.injEq] at he; subst he; exact ⟨Nat.le_refl _, hp⟩
  | cons alt rest ih =>
    intro s hc
    simp only [evalAlts]
    by_cases hg : (alt.guard && !inv) = true
    · simp only [hg, if_true]
      exact (ih s hc).weaken (fun h => by rw [altsNullable_cons, h]; simp)
    · simp only [hg, Bool.false_eq_true, if_false]
      obtain ⟨i1, i2, i3⟩ := evalItems_post hs inv alt.items p false s hp hc
      cases hr : (evalItems E rec inv alt.items p false s).1 with
      | ok e =>
        simp only
        obtain ⟨a1, a2, a3⟩ := i3 e hr
        exact (actRes_post _ alt p e s.cache _ i1 i2 a1 a2 a3).weaken (fun h => by rw [altsNullable_cons, h]; simp)
      | fail cut =>
        simp only
        by_cases hcut : cut = true
        · simp only [hcut, if_true]
          refine ⟨i1, i2, ?_, ?_⟩
          · intro e he; cases he
          · intro e he; simp only [Res.fail.injEq] at he; subst he; exact ⟨Nat.le_refl _, hp⟩
        · simp only [hcut, Bool.false_eq_true, if_false]
          exact ((ih _ i1).mono_left i2).weaken (fun h => by rw [altsNullable_cons, h]; simp)
      | raise =>
        simp only
        refine ⟨i1, i2, ?_, ?_⟩ <;> intro e he <;> cases he
      | hang =>
        simp only
        refine ⟨i1, i2, ?_, ?_⟩ <;> intro e he <;> cases he

/-- the loop started at `p0`; `any` = at least one iteration done; if still at `p0` then the body is nullable -/
theorem evalLoop_post {E : Env σ} {g : Grammar} {rec : Rec σ} (hs : Sound E g rec) (inv : Bool) (alt : Alt) (p0 : Nat) :
    ∀ (k p : Nat) (any : Bool) (s : St σ), p0 ≤ p → p ≤ E.n → CInv E g s.cache →
      (any = true → p = p0 → itemsNullable g alt.items = true) →
      Post E g p0 (itemsNullable g alt.items = true) s.cache (evalLoop E rec inv alt k p any s) := by
  intro k
  induction k with
  | zero =>
    intro p any s _ _ hc _
    simp only [evalLoop]
    refine ⟨hc, Mono.refl _, ?_, ?_⟩ <;> intro e he <;> cases he
  | succ k ih =>
    intro p any s hp0 hp hc hany
    have hstop : ∀ (s' : St σ), CInv E g s'.cache → Mono s.cache s'.cache →
        Post E g p0 (itemsNullable g alt.items = true) s.cache ((if any = true then Res.ok p else Res.fail p), s') := by
      intro s' hc' hm
      refine ⟨hc', hm, ?_, ?_⟩
      · intro e he
        by_cases ha : any = true
        · simp only [ha, if_true, Res.ok.injEq] at he
          subst he
          exact ⟨hp0, hp, fun h => hany ha h⟩
        · simp only [ha, Bool.false_eq_true, if_false, reduceCtorEq] at he
      · intro e he
        by_cases ha : any = true
        · simp only [ha, if_true, reduceCtorEq] at he
        · simp only [ha, Bool.false_eq_true, if_false, Res.fail.injEq] at he
          subst he
          exact ⟨hp0, hp⟩
    simp only [evalLoop]
    by_cases hg : (alt.guard && !inv) = true
    · simp only [hg, if_true]
      exact hstop s hc (Mono.refl _)
    · simp only [hg, Bool.false_eq_true, if_false]
      obtain ⟨i1, i2, i3⟩ := evalItems_post hs inv alt.items p false s hp hc
      cases hr : (evalItems E rec inv alt.items p false s).1 with
      | ok e =>
        simp only
        obtain ⟨a1, a2, a3⟩ := i3 e hr
        obtain ⟨r1, r2, r3, r4⟩ := actRes_post (E := E) (g := g) (evalItems E rec inv alt.items p false s).2 alt p e s.cache
          (itemsNullable g alt.items = true) i1 i2 a1 a2 a3
        have hnext := ih e true (actRes E (evalItems E rec inv alt.items p false s).2 alt p e).2 (by omega) a2 r1
          (fun _ he => a3 (by omega))
        cases hact : (actRes E (evalItems E rec inv alt.items p false s).2 alt p e).1 with
        | raise =>
          simp only
          refine ⟨r1, r2, ?_, ?_⟩ <;> intro e' he' <;> cases he'
        | ok e2 => simp only; exact hnext.mono_left r2
        | fail e2 => simp only; exact hnext.mono_left r2
        | hang => simp only; exact hnext.mono_left r2
      | fail cut =>
        simp only
        exact hstop _ i1 i2
      | raise =>
        simp only
        refine ⟨i1, i2, ?_, ?_⟩ <;> intro e he <;> cases he
      | hang =>
        simp only
        refine ⟨i1, i2, ?_, ?_⟩ <;> intro e he <;> cases he

theorem body_post {E : Env σ} {g : Grammar} {rec : Rec σ} (hs : Sound E g rec) (rule : Rule) (p : Nat) (inv : Bool)
    (s : St σ) (hp : p ≤ E.n) (hc : CInv E g s.cache) :
    Post E g p (altsNullable g rule.alts = true) s.cache (body E rec rule p inv s) := by
  unfold body
  by_cases hl : rule.loop = true
  · simp only [hl, if_true]
    split
    · next alt halts =>
      rw [halts]
      have := evalLoop_post hs (inv && !rule.noinv) alt p (E.n - p + 1) p false s (Nat.le_refl _) hp hc (by simp)
      exact this.weaken (fun h => by simp [altsNullable, h])
    · refine ⟨hc, Mono.refl _, ?_, ?_⟩ <;> intro e he <;> cases he
  · simp only [hl, Bool.false_eq_true, if_false]
    exact evalAlts_post hs _ p hp rule.alts s hc

/-! ## the memoising wrappers -/

/-- what `WF` gives about one rule (extracted once, used everywhere) -/
structure RuleFacts (g : Grammar) (r : Nat) (rule : Rule) : Prop where
  refs : refsOK g rule = true
  lead : g.isLeader r = (rule.kind == .leader)
  nul : altsNullable g rule.alts = true → g.isNullable r = true
  left : rule.kind = .leader ∨ (1 ≤ g.rankOf r ∧ ∀ a ∈ rule.alts, leftOKItems g (edgeFor g r) a.items = true)
  loop : rule.loop = true → ∃ a, rule.alts = [a] ∧ itemsNullable g a.items = false

theorem ruleOK_facts (g : Grammar) (r : Nat) (rule : Rule) (h : ruleOK g r rule = true) : RuleFacts g r rule := by
  unfold ruleOK at h
  simp only [Bool.and_eq_true, Bool.or_eq_true, Bool.not_eq_true', beq_iff_eq, decide_eq_true_eq, List.all_eq_true] at h
  obtain ⟨⟨⟨⟨h1, h2⟩, h3⟩, h4⟩, h5⟩ := h
  refine ⟨h1, ?_, ?_, ?_, ?_⟩
  · cases hk : rule.kind <;> simp [hk] at h2 ⊢ <;> exact h2
  · intro hn
    rcases h3 with h3 | h3
    · rw [hn] at h3; cases h3
    · exact h3
  · rcases h4 with h4 | h4
    · left; cases hk : rule.kind <;> simp [hk] at h4 ⊢
    · right; exact h4
  · intro hl
    rcases h5 with h5 | h5
    · rw [hl] at h5; cases h5
    · split at h5
      · next a halts => exact ⟨a, halts, by simpa using h5⟩
      · cases h5

theorem rulesOKFrom_get (g : Grammar) : ∀ (l : List Rule) (k : Nat), rulesOKFrom g k l = true →
    ∀ i rule, l[i]? = some rule → ruleOK g (k + i) rule = true := by
  intro l
  induction l with
  | nil => intro k _ i rule h; simp at h
  | cons x rest ih =>
    intro k h i rule hi
    simp only [rulesOKFrom, Bool.and_eq_true] at h
    cases i with
    | zero =>
      simp only [List.getElem?_cons_zero, Option.some.injEq] at hi
      subst hi
      simpa using h.1
    | succ j =>
      simp only [List.getElem?_cons_succ] at hi
      have := ih (k + 1) h.2 j rule hi
      rwa [show k + 1 + j = k + (j + 1) by omega] at this

theorem WF_facts (g : Grammar) (h : WF g = true) :
    0 < g.rankBase ∧ ∀ r rule, g.rules[r]? = some rule → RuleFacts g r rule := by
  unfold WF at h
  simp only [Bool.and_eq_true, decide_eq_true_eq] at h
  refine ⟨h.1, ?_⟩
  intro r rule hr
  have h2 : g.rules.toList[r]? = some rule := by simpa using hr
  have := rulesOKFrom_get g g.rules.toList 0 h.2 r rule h2
  simp only [Nat.zero_add] at this
  exact ruleOK_facts g r rule this

theorem St.put_cache (s : St σ) (k : Nat × Nat) (v : Bool × Nat) : (s.put k v).cache = s.cache.insert k v := rfl

theorem growFin_post {E : Env σ} {g : Grammar} (r p : Nat) (last : Option Nat) (s : St σ) (c0 : Cache) (nul : Prop)
    (hp : p ≤ E.n) (hc : CInv E g s.cache) (hm : Mono c0 s.cache) (hl : ∀ e, last = some e → p < e ∧ e ≤ E.n) :
    Post E g p nul c0 (growFin r p last s) := by
  unfold growFin
  cases last with
  | some e =>
    simp only
    obtain ⟨h1, h2⟩ := hl e rfl
    refine ⟨?_, ?_, ?_, ?_⟩
    · rw [St.put_cache]; exact hc.insert r p true e (by omega) h2 (fun _ h => by omega)
    · rw [St.put_cache]; exact hm.trans (Mono.insert _ _ _)
    · intro e' he; simp only [Res.ok.injEq] at he; subst he; exact ⟨by omega, h2, fun h => by omega⟩
    · intro e' he; cases he
  | none =>
    simp only
    refine ⟨?_, ?_, ?_, ?_⟩
    · rw [St.put_cache]; exact hc.insert r p false p (Nat.le_refl _) hp (fun h => by cases h)
    · rw [St.put_cache]; exact hm.trans (Mono.insert _ _ _)
    · intro e' he; cases he
    · intro e' he; simp only [Res.fail.injEq] at he; subst he; exact ⟨Nat.le_refl _, hp⟩

theorem grow_post {E : Env σ} {g : Grammar} {rec : Rec σ} (hs : Sound E g rec) (r : Nat) (rule : Rule) (p : Nat)
    (inv : Bool) (nul : Prop) (hp : p ≤ E.n) :
    ∀ (k : Nat) (last : Option Nat) (s : St σ) (c0 : Cache), CInv E g s.cache → Mono c0 s.cache →
      (∀ e, last = some e → p < e ∧ e ≤ E.n) →
      Post E g p nul c0 (grow E rec r rule p inv k last s) := by
  intro k
  induction k with
  | zero =>
    intro last s c0 hc hm _
    simp only [grow]
    refine ⟨hc, hm, ?_, ?_⟩ <;> intro e he <;> cases he
  | succ k ih =>
    intro last s c0 hc hm hl
    simp only [grow]
    obtain ⟨b1, b2, b3, b4⟩ := body_post hs rule p inv s hp hc
    cases hb : (body E rec rule p inv s).1 with
    | ok e =>
      simp only
      obtain ⟨a1, a2, _⟩ := b3 e hb
      by_cases hle : e ≤ last.getD p
      · simp only [hle, if_true]
        exact growFin_post r p last _ c0 nul hp b1 (hm.trans b2) hl
      · simp only [hle, if_false]
        have hpe : p < e := by
          cases last with
          | none => simp only [Option.getD_none] at hle; omega
          | some e0 => simp only [Option.getD_some] at hle; have := (hl e0 rfl).1; omega
        apply ih
        · rw [St.put_cache]; exact b1.insert r p true e (by omega) a2 (fun _ h => by omega)
        · rw [St.put_cache]; exact (hm.trans b2).trans (Mono.insert _ _ _)
        · intro e' he'; simp only [Option.some.injEq] at he'; subst he'; exact ⟨hpe, a2⟩
    | fail e =>
      simp only
      exact growFin_post r p last _ c0 nul hp b1 (hm.trans b2) hl
    | raise =>
      simp only
      refine ⟨b1, hm.trans b2, ?_, ?_⟩ <;> intro e he <;> cases he
    | hang =>
      simp only
      refine ⟨b1, hm.trans b2, ?_, ?_⟩ <;> intro e he <;> cases he

theorem callRule_sound {E : Env σ} {g : Grammar} (hwf : WF g = true) {rec : Rec σ} (hs : Sound E g rec) :
    Sound E g (callRule E g rec) := by
  intro r p inv s hp hc
  unfold callRule
  cases hr : g.rules[r]? with
  | none =>
    simp only
    refine ⟨hc, Mono.refl _, ?_, ?_⟩ <;> intro e he <;> cases he
  | some rule =>
    simp only
    have hf := (WF_facts g hwf).2 r rule hr
    cases hk : rule.kind with
    | nomemo =>
      simp only
      exact (body_post hs rule p inv s hp hc).weaken hf.nul
    | memo =>
      simp only
      unfold memoCall
      cases hget : s.cache[(r, p)]? with
      | some v =>
        simp only
        obtain ⟨c1, c2, c3⟩ := hc r p v.1 v.2 (by simpa using hget)
        refine ⟨hc, Mono.refl _, ?_, ?_⟩
        · intro e he
          unfold cacheRes at he
          by_cases hv : v.1 = true
          · simp only [hv, if_true, Res.ok.injEq] at he; subst he; exact ⟨c1, c2, c3 hv⟩
          · simp only [hv, Bool.false_eq_true, if_false, reduceCtorEq] at he
        · intro e he
          unfold cacheRes at he
          by_cases hv : v.1 = true
          · simp only [hv, if_true, reduceCtorEq] at he
          · simp only [hv, Bool.false_eq_true, if_false, Res.fail.injEq] at he; subst he; exact ⟨c1, c2⟩
      | none =>
        simp only
        obtain ⟨b1, b2, b3, b4⟩ := body_post hs rule p inv s hp hc
        cases hb : (body E rec rule p inv s).1 with
        | ok e =>
          simp only
          obtain ⟨a1, a2, a3⟩ := b3 e hb
          refine ⟨?_, ?_, ?_, ?_⟩
          · rw [St.put_cache]; exact b1.insert r p true e a1 a2 (fun _ h => hf.nul (a3 h))
          · rw [St.put_cache]; exact b2.trans (Mono.insert _ _ _)
          · intro e' he; simp only [Res.ok.injEq] at he; subst he; exact ⟨a1, a2, fun h => hf.nul (a3 h)⟩
          · intro e' he; cases he
        | fail e =>
          simp only
          obtain ⟨a1, a2⟩ := b4 e hb
          refine ⟨?_, ?_, ?_, ?_⟩
          · rw [St.put_cache]; exact b1.insert r p false e a1 a2 (fun h => by cases h)
          · rw [St.put_cache]; exact b2.trans (Mono.insert _ _ _)
          · intro e' he; cases he
          · intro e' he; simp only [Res.fail.injEq] at he; subst he; exact ⟨a1, a2⟩
        | raise =>
          simp only
          refine ⟨b1, b2, ?_, ?_⟩ <;> intro e he <;> cases he
        | hang =>
          simp only
          refine ⟨b1, b2, ?_, ?_⟩ <;> intro e he <;> cases he
    | leader =>
      simp only
      unfold leaderCall
      cases hget : s.cache[(r, p)]? with
      | some v =>
        simp only
        obtain ⟨c1, c2, c3⟩ := hc r p v.1 v.2 (by simpa using hget)
        refine ⟨hc, Mono.refl _, ?_, ?_⟩
        · intro e he
          by_cases hv : v.1 = true
          · simp only [hv, if_true, Res.ok.injEq] at he; subst he; exact ⟨c1, c2, c3 hv⟩
          · simp only [hv, Bool.false_eq_true, if_false, reduceCtorEq] at he
        · intro e he
          by_cases hv : v.1 = true
          · simp only [hv, if_true, reduceCtorEq] at he
          · simp only [hv, Bool.false_eq_true, if_false, Res.fail.injEq] at he; subst he; exact ⟨Nat.le_refl _, hp⟩
      | none =>
        simp only
        apply grow_post hs r rule p inv _ hp
        · rw [St.put_cache]; exact hc.insert r p false p (Nat.le_refl _) hp (fun h => by cases h)
        · rw [St.put_cache]; exact Mono.insert _ _ _
        · intro e he; cases he

theorem interp_sound {E : Env σ} {g : Grammar} (hwf : WF g = true) : ∀ f, Sound E g (interp E g f) := by
  intro f
  induction f with
  | zero =>
    intro r p inv s _ hc
    simp only [interp]
    refine ⟨hc, Mono.refl _, ?_, ?_⟩ <;> intro e he <;> cases he
  | succ f ih =>
    simp only [interp]
    exact callRule_sound hwf ih

/-! ## termination -/

/-- leaders with no cache entry at position `p` -/
def U (g : Grammar) (c : Cache) (p : Nat) : Nat :=
  (List.range g.rules.size).countP (fun r => g.isLeader r && (c[(r, p)]?).isNone)

def rk (g : Grammar) (r : Nat) : Nat := if g.isLeader r then 0 else g.rankOf r

def Wt (g : Grammar) : Nat := (g.numLeaders + 1) * (g.rankBase + 1)

/-- the measure that decreases along every chain of nested rule calls -/
def Meas (E : Env σ) (g : Grammar) (p : Nat) (c : Cache) (r : Nat) : Nat :=
  (E.n - p) * Wt g + U g c p * (g.rankBase + 1) + rk g r

def Term (E : Env σ) (g : Grammar) (rec : Rec σ) (F : Nat) : Prop :=
  ∀ r p inv s, r < g.rules.size → p ≤ E.n → CInv E g s.cache → Meas E g p s.cache r < F → (rec r p inv s).1 ≠ .hang

/-- every call that the body of the rule entered at `p0` (with cache `c0`) can make does not hang -/
def Callable (E : Env σ) (g : Grammar) (rec : Rec σ) (p0 : Nat) (c0 : Cache) (edge : Nat → Bool) : Prop :=
  ∀ r' q inv (s1 : St σ), r' < g.rules.size → q ≤ E.n → CInv E g s1.cache → Mono c0 s1.cache →
    (p0 < q ∨ (q = p0 ∧ edge r' = true)) → (rec r' q inv s1).1 ≠ .hang

theorem countP_lt {α : Type} (p q : α → Bool) : ∀ (l : List α), (∀ x ∈ l, p x = true → q x = true) →
    ∀ a ∈ l, q a = true → p a = false → l.countP p < l.countP q := by
  intro l
  induction l with
  | nil => intro _ a ha; simp at ha
  | cons x xs ih =>
    intro hpq a ha hqa hpa
    simp only [List.mem_cons] at ha
    have hle : xs.countP p ≤ xs.countP q :=
      List.countP_mono_left (fun y hy => hpq y (List.mem_cons_of_mem _ hy))
    rcases ha with rfl | ha
    · rw [List.countP_cons_of_neg (by simpa using hpa), List.countP_cons_of_pos hqa]
      omega
    · have := ih (fun y hy => hpq y (List.mem_cons_of_mem _ hy)) a ha hqa hpa
      by_cases hx : p x = true
      · rw [List.countP_cons_of_pos hx, List.countP_cons_of_pos (hpq x List.mem_cons_self hx)]
        omega
      · rw [List.countP_cons_of_neg hx]
        by_cases hqx : q x = true
        · rw [List.countP_cons_of_pos hqx]; omega
        · rw [List.countP_cons_of_neg hqx]; exact this

theorem U_le (g : Grammar) (c : Cache) (p : Nat) : U g c p ≤ g.numLeaders := by
  unfold U Grammar.numLeaders
  apply List.countP_mono_left
  intro x _ h
  simp only [Bool.and_eq_true] at h
  exact h.1

theorem U_mono (g : Grammar) {c c' : Cache} (p : Nat) (h : Mono c c') : U g c' p ≤ U g c p := by
  unfold U
  apply List.countP_mono_left
  intro x _ hx
  simp only [Bool.and_eq_true, Option.isNone_iff_eq_none] at hx ⊢
  refine ⟨hx.1, ?_⟩
  by_cases hn : c[(x, p)]? = none
  · exact hn
  · exact absurd hx.2 (h (x, p) hn)

theorem U_insert_lt (g : Grammar) {c c' : Cache} (r p : Nat) (v : Bool × Nat) (hr : r < g.rules.size)
    (hl : g.isLeader r = true) (hn : c[(r, p)]? = none) (h : Mono (c.insert (r, p) v) c') : U g c' p < U g c p := by
  unfold U
  apply countP_lt _ _ _ _ r (by simp [hr])
  · simp [hl, hn]
  · have : c'[(r, p)]? ≠ none := h (r, p) (by rw [HashMap.getElem?_insert]; simp)
    cases hc : c'[(r, p)]? with
    | none => exact absurd hc this
    | some w => simp
  · intro x _ hx
    simp only [Bool.and_eq_true, Option.isNone_iff_eq_none] at hx ⊢
    refine ⟨hx.1, ?_⟩
    by_cases hxn : c[(x, p)]? = none
    · exact hxn
    · exact absurd hx.2 (h (x, p) ((Mono.insert c (r, p) v) (x, p) hxn))

theorem rk_le (g : Grammar) (hb : 0 < g.rankBase) (r : Nat) : rk g r ≤ g.rankBase := by
  unfold rk Grammar.rankOf
  split
  · omega
  · exact Nat.le_of_lt (Nat.mod_lt _ hb)

theorem arith_small (L B U' k' : Nat) (hU : U' ≤ L) (hk : k' ≤ B) : U' * (B + 1) + k' < (L + 1) * (B + 1) := by
  have h1 : U' * (B + 1) ≤ L * (B + 1) := Nat.mul_le_mul_right _ hU
  have h2 : (L + 1) * (B + 1) = L * (B + 1) + (B + 1) := Nat.succ_mul _ _
  omega

theorem arith_pos (n p q W x : Nat) (hpq : p < q) (hq : q ≤ n) (hx : x < W) : (n - q) * W + x < (n - p) * W := by
  have h1 : (n - q + 1) * W ≤ (n - p) * W := Nat.mul_le_mul_right _ (by omega)
  have h2 : (n - q + 1) * W = (n - q) * W + W := Nat.succ_mul _ _
  omega

theorem arith_same (U0 U' k k' B1 : Nat) (hU : U' ≤ U0) (hk : k' < k) : U' * B1 + k' < U0 * B1 + k := by
  have h1 : U' * B1 ≤ U0 * B1 := Nat.mul_le_mul_right _ hU
  omega

theorem arith_leader (U0 U' k' B : Nat) (hU : U' + 1 ≤ U0) (hk : k' ≤ B) : U' * (B + 1) + k' < U0 * (B + 1) := by
  have h1 : (U' + 1) * (B + 1) ≤ U0 * (B + 1) := Nat.mul_le_mul_right _ hU
  have h2 : (U' + 1) * (B + 1) = U' * (B + 1) + (B + 1) := Nat.succ_mul _ _
  omega

theorem Meas_lt_of_pos {E : Env σ} {g : Grammar} (hb : 0 < g.rankBase) (p q : Nat) (c c1 : Cache) (r r' : Nat)
    (hpq : p < q) (hq : q ≤ E.n) : Meas E g q c1 r' < Meas E g p c r := by
  unfold Meas
  have h1 := arith_small g.numLeaders g.rankBase (U g c1 q) (rk g r') (U_le g c1 q) (rk_le g hb r')
  have h2 := arith_pos E.n p q (Wt g) (U g c1 q * (g.rankBase + 1) + rk g r') hpq hq (by unfold Wt; exact h1)
  omega

theorem evalAtom_term {E : Env σ} {g : Grammar} {rec : Rec σ} {p0 : Nat} {c0 : Cache} {edge : Nat → Bool}
    (hcall : Callable E g rec p0 c0 edge) (a : Atom) (p : Nat) (inv : Bool) (s : St σ)
    (hp : p ≤ E.n) (hc : CInv E g s.cache) (hm : Mono c0 s.cache) (href : atomRefOK g (some a) = true)
    (hpos : p0 < p ∨ (p = p0 ∧ atomEdgeOK edge (some a) = true)) :
    (evalAtom E rec a p inv s).1 ≠ .hang := by
  cases a with
  | tok t =>
    unfold evalAtom
    simp only
    split
    · split <;> simp
    · simp
  | rule r =>
    unfold evalAtom
    simp only
    apply hcall r p inv s (by simpa [atomRefOK] using href) hp hc hm
    rcases hpos with h | ⟨h1, h2⟩
    · exact Or.inl h
    · exact Or.inr ⟨h1, by simpa [atomEdgeOK] using h2⟩

theorem evalItems_term {E : Env σ} {g : Grammar} {rec : Rec σ} (hs : Sound E g rec) {p0 : Nat} {c0 : Cache}
    {edge : Nat → Bool} (hcall : Callable E g rec p0 c0 edge) (inv : Bool) :
    ∀ (items : List Item) (p : Nat) (c : Bool) (s : St σ), p0 ≤ p → p ≤ E.n → CInv E g s.cache → Mono c0 s.cache →
      (∀ it ∈ items, atomRefOK g it.atom? = true) → (p = p0 → leftOKItems g edge items = true) →
      (evalItems E rec inv items p c s).1 ≠ .hang := by
  intro items
  induction items with
  | nil => intro p c s _ _ _ _ _ _; simp [evalItems]
  | cons it rest ih =>
    intro p c s hp0 hp hc hm href hleft
    simp only [evalItems]
    have hrest : ∀ it' ∈ rest, atomRefOK g it'.atom? = true := fun x hx => href x (List.mem_cons_of_mem _ hx)
    cases ha : it.atom? with
    | none =>
      simp only
      apply ih p true s hp0 hp hc hm hrest
      intro hpp
      have := hleft hpp
      simp only [leftOKItems, Bool.and_eq_true] at this
      have hnul : itemNullable g it = true := by
        cases it <;> simp [Item.atom?] at ha
        rfl
      simpa [hnul] using this.2
    | some a =>
      simp only
      have hra : atomRefOK g (some a) = true := by
        have := href it List.mem_cons_self
        rwa [ha] at this
      have hnh : (evalAtom E rec a p inv s).1 ≠ .hang := by
        apply evalAtom_term hcall a p inv s hp hc hm hra
        by_cases hpp : p = p0
        · right
          refine ⟨hpp, ?_⟩
          have := hleft hpp
          simp only [leftOKItems, Bool.and_eq_true] at this
          rw [← ha]; exact this.1
        · left; omega
      obtain ⟨q1, q2, q3, q4⟩ := evalAtom_post hs a p inv s hp hc
      cases hn : itemNext it p c (evalAtom E rec a p inv s).1 with
      | stop r =>
        simp only
        intro hr
        subst hr
        exact hnh (itemNext_stop_hang it p c _ hn)
      | go e1 =>
        simp only
        obtain ⟨b1, b2, b3⟩ := itemNext_go (E := E) (g := g) it a ha p c _ e1 hp q3 q4 hn
        apply ih e1 c _ (by omega) b2 q1 (hm.trans q2) hrest
        intro he1
        have hpp : p = p0 := by omega
        have := hleft hpp
        simp only [leftOKItems, Bool.and_eq_true] at this
        have hnul := b3 (by omega)
        simpa [hnul] using this.2

theorem actRes_ne_hang (E : Env σ) (s : St σ) (alt : Alt) (p e : Nat) : (actRes E s alt p e).1 ≠ .hang := by
  simp only [actRes]
  cases hact : (E.act s.orc alt.act p e).1 <;> simp

theorem evalAlts_term {E : Env σ} {g : Grammar} {rec : Rec σ} (hs : Sound E g rec) {p : Nat} {c0 : Cache}
    {edge : Nat → Bool} (hcall : Callable E g rec p c0 edge) (inv : Bool) (hp : p ≤ E.n) :
    ∀ (alts : List Alt) (s : St σ), CInv E g s.cache → Mono c0 s.cache →
      (∀ a ∈ alts, (∀ it ∈ a.items, atomRefOK g it.atom? = true) ∧ leftOKItems g edge a.items = true) →
      (evalAlts E rec inv p alts s).1 ≠ .hang := by
  intro alts
  induction alts with
  | nil => intro s _ _ _; simp [evalAlts]
  | cons alt rest ih =>
    intro s hc hm hall
    simp only [evalAlts]
    have hrest := fun a ha => hall a (List.mem_cons_of_mem _ ha)
    obtain ⟨hr, hl⟩ := hall alt List.mem_cons_self
    split
    · exact ih s hc hm hrest
    · have hnh := evalItems_term hs hcall inv alt.items p false s (Nat.le_refl _) hp hc hm hr (fun _ => hl)
      obtain ⟨i1, i2, i3⟩ := evalItems_post hs inv alt.items p false s hp hc
      cases hres : (evalItems E rec inv alt.items p false s).1 with
      | ok e => simp only; exact actRes_ne_hang _ _ _ _ _
      | fail cut =>
        simp only
        split
        · simp
        · exact ih _ i1 (hm.trans i2) hrest
      | raise => simp
      | hang => exact absurd hres hnh

theorem evalLoop_term {E : Env σ} {g : Grammar} {rec : Rec σ} (hs : Sound E g rec) {p0 : Nat} {c0 : Cache}
    {edge : Nat → Bool} (hcall : Callable E g rec p0 c0 edge) (inv : Bool) (alt : Alt)
    (hr : ∀ it ∈ alt.items, atomRefOK g it.atom? = true) (hl : leftOKItems g edge alt.items = true)
    (hnn : itemsNullable g alt.items = false) :
    ∀ (k p : Nat) (any : Bool) (s : St σ), p0 ≤ p → p ≤ E.n → CInv E g s.cache → Mono c0 s.cache → E.n - p + 1 ≤ k →
      (evalLoop E rec inv alt k p any s).1 ≠ .hang := by
  intro k
  induction k with
  | zero => intro p any s _ _ _ _ hk; omega
  | succ k ih =>
    intro p any s hp0 hp hc hm hk
    simp only [evalLoop]
    split
    · split <;> simp
    · have hnh := evalItems_term hs hcall inv alt.items p false s hp0 hp hc hm hr (fun _ => hl)
      obtain ⟨i1, i2, i3⟩ := evalItems_post hs inv alt.items p false s hp hc
      cases hres : (evalItems E rec inv alt.items p false s).1 with
      | ok e =>
        simp only
        obtain ⟨a1, a2, a3⟩ := i3 e hres
        have hlt : p < e := by
          by_cases he : e = p
          · have := a3 he; rw [hnn] at this; cases this
          · omega
        obtain ⟨r1, r2, _, _⟩ := actRes_post (E := E) (g := g) (evalItems E rec inv alt.items p false s).2 alt p e s.cache
          True i1 i2 a1 a2 (fun _ => trivial)
        have hnext := ih e true (actRes E (evalItems E rec inv alt.items p false s).2 alt p e).2 (by omega) a2 r1
          (hm.trans r2) (by omega)
        cases hact : (actRes E (evalItems E rec inv alt.items p false s).2 alt p e).1 with
        | raise => simp
        | ok e2 => simp only; exact hnext
        | fail e2 => simp only; exact hnext
        | hang => exact absurd hact (actRes_ne_hang _ _ _ _ _)
      | fail cut => simp only; split <;> simp
      | raise => simp
      | hang => exact absurd hres hnh

theorem refsOK_items {g : Grammar} {rule : Rule} (h : refsOK g rule = true) :
    ∀ a ∈ rule.alts, ∀ it ∈ a.items, atomRefOK g it.atom? = true := by
  intro a ha it hit
  simp only [refsOK, List.all_eq_true] at h
  exact h a ha it hit

theorem body_term {E : Env σ} {g : Grammar} {rec : Rec σ} (hs : Sound E g rec) {p : Nat} {c0 : Cache}
    {edge : Nat → Bool} (hcall : Callable E g rec p c0 edge) (r : Nat) (rule : Rule) (hf : RuleFacts g r rule)
    (hleft : ∀ a ∈ rule.alts, leftOKItems g edge a.items = true)
    (inv : Bool) (s : St σ) (hp : p ≤ E.n) (hc : CInv E g s.cache) (hm : Mono c0 s.cache) :
    (body E rec rule p inv s).1 ≠ .hang := by
  unfold body
  by_cases hl : rule.loop = true
  · simp only [hl, if_true]
    obtain ⟨a, halts, hnn⟩ := hf.loop hl
    rw [halts]
    simp only
    have hmem : a ∈ rule.alts := by rw [halts]; simp
    exact evalLoop_term hs hcall _ a (refsOK_items hf.refs a hmem) (hleft a hmem) hnn _ p false s (Nat.le_refl _) hp hc hm
      (Nat.le_refl _)
  · simp only [hl, Bool.false_eq_true, if_false]
    exact evalAlts_term hs hcall _ hp rule.alts s hc hm
      (fun a ha => ⟨refsOK_items hf.refs a ha, hleft a ha⟩)

theorem leftOK_true (g : Grammar) : ∀ items : List Item, leftOKItems g (fun _ => true) items = true := by
  intro items
  induction items with
  | nil => rfl
  | cons it rest ih =>
    simp only [leftOKItems, Bool.and_eq_true]
    refine ⟨?_, by split <;> simp [ih]⟩
    cases h : it.atom? with
    | none => rfl
    | some a => cases a <;> rfl

theorem growFin_ne_hang (r p : Nat) (last : Option Nat) (s : St σ) : (growFin r p last s).1 ≠ .hang := by
  unfold growFin
  cases last <;> simp

theorem grow_term {E : Env σ} {g : Grammar} {rec : Rec σ} (hs : Sound E g rec) {p : Nat} {c0 : Cache}
    (hcall : Callable E g rec p c0 (fun _ => true)) (r : Nat) (rule : Rule) (hf : RuleFacts g r rule)
    (inv : Bool) (hp : p ≤ E.n) :
    ∀ (k : Nat) (last : Option Nat) (s : St σ), CInv E g s.cache → Mono c0 s.cache →
      (∀ e, last = some e → p < e ∧ e ≤ E.n) → E.n - last.getD p + 1 ≤ k →
      (grow E rec r rule p inv k last s).1 ≠ .hang := by
  intro k
  induction k with
  | zero => intro last s _ _ _ hk; omega
  | succ k ih =>
    intro last s hc hm hl hk
    simp only [grow]
    have hnh := body_term hs hcall r rule hf (fun a _ => leftOK_true g a.items) inv s hp hc hm
    obtain ⟨b1, b2, b3, b4⟩ := body_post hs rule p inv s hp hc
    cases hb : (body E rec rule p inv s).1 with
    | ok e =>
      simp only
      obtain ⟨a1, a2, _⟩ := b3 e hb
      split
      · exact growFin_ne_hang _ _ _ _
      · next hle =>
        apply ih
        · rw [St.put_cache]; exact b1.insert r p true e a1 a2 (fun _ h => by
            cases last with
            | none => simp only [Option.getD_none] at hle; omega
            | some e0 => simp only [Option.getD_some] at hle; have := (hl e0 rfl).1; omega)
        · rw [St.put_cache]; exact (hm.trans b2).trans (Mono.insert _ _ _)
        · intro e' he'
          simp only [Option.some.injEq] at he'
          subst he'
          refine ⟨?_, a2⟩
          cases last with
          | none => simp only [Option.getD_none] at hle; omega
          | some e0 => simp only [Option.getD_some] at hle; have := (hl e0 rfl).1; omega
        · simp only [Option.getD_some]
          omega
    | fail e => simp only; exact growFin_ne_hang _ _ _ _
    | raise => simp
    | hang => exact absurd hb hnh

theorem callRule_term {E : Env σ} {g : Grammar} (hwf : WF g = true) {rec : Rec σ} (hs : Sound E g rec) (F : Nat)
    (ht : Term E g rec F) : Term E g (callRule E g rec) (F + 1) := by
  intro r p inv s hr hp hc hM
  obtain ⟨hb, hfacts⟩ := WF_facts g hwf
  have hget : g.rules[r]? = some g.rules[r] := by simp [hr]
  have hf := hfacts r _ hget
  unfold callRule
  rw [hget]
  simp only
  -- calls at a later position are always within the measure
  have hlater : ∀ r' q (s1 : St σ), p < q → q ≤ E.n → Meas E g q s1.cache r' < F := by
    intro r' q s1 hpq hq
    have := Meas_lt_of_pos (E := E) hb p q s.cache s1.cache r r' hpq hq
    omega
  cases hk : g.rules[r].kind with
  | leader =>
    simp only
    have hlead : g.isLeader r = true := by rw [hf.lead, hk]; rfl
    unfold leaderCall
    cases hcache : s.cache[(r, p)]? with
    | some v => simp only; split <;> simp
    | none =>
      simp only
      have hcall : Callable E g rec p (s.put (r, p) (false, p)).cache (fun _ => true) := by
        intro r' q inv' s1 hr' hq hc1 hm1 hpos
        apply ht r' q inv' s1 hr' hq hc1
        rcases hpos with hpq | ⟨rfl, _⟩
        · exact hlater r' q s1 hpq hq
        · have hU := U_insert_lt g r q (false, q) hr hlead hcache (by rw [← St.put_cache]; exact hm1)
          have := arith_leader (U g s.cache q) (U g s1.cache q) (rk g r') g.rankBase (by omega) (rk_le g hb r')
          have hrk : rk g r = 0 := by simp [rk, hlead]
          unfold Meas at hM ⊢
          rw [hrk] at hM
          omega
      apply grow_term hs hcall r _ hf inv hp
      · rw [St.put_cache]; exact hc.insert r p false p (Nat.le_refl _) hp (fun h => by cases h)
      · exact Mono.refl _
      · intro e he; cases he
      · simp only [Option.getD_none]; omega
  | memo =>
    simp only
    have hnl : g.isLeader r = false := by rw [hf.lead, hk]; rfl
    obtain ⟨hrank, hleft⟩ : 1 ≤ g.rankOf r ∧ ∀ a ∈ g.rules[r].alts, leftOKItems g (edgeFor g r) a.items = true := by
      rcases hf.left with h | h
      · rw [hk] at h; cases h
      · exact h
    have hcall : Callable E g rec p s.cache (edgeFor g r) := by
      intro r' q inv' s1 hr' hq hc1 hm1 hpos
      apply ht r' q inv' s1 hr' hq hc1
      rcases hpos with hpq | ⟨rfl, hedge⟩
      · exact hlater r' q s1 hpq hq
      · have hU := U_mono g q hm1
        have hrk : rk g r' < rk g r := by
          simp only [rk, hnl, Bool.false_eq_true, if_false]
          simp only [edgeFor, Bool.or_eq_true, decide_eq_true_eq] at hedge
          rcases hedge with h | h
          · simp only [h, if_true]; omega
          · split
            · omega
            · exact h
        have := arith_same (U g s.cache q) (U g s1.cache q) (rk g r) (rk g r') (g.rankBase + 1) hU hrk
        unfold Meas at hM ⊢
        omega
    unfold memoCall
    cases hcache : s.cache[(r, p)]? with
    | some v => simp only; unfold cacheRes; split <;> simp
    | none =>
      simp only
      have hnh := body_term hs hcall r _ hf hleft inv s hp hc (Mono.refl _)
      cases hbd : (body E rec g.rules[r] p inv s).1 with
      | ok e => simp
      | fail e => simp
      | raise => simp
      | hang => exact absurd hbd hnh
  | nomemo =>
    simp only
    have hnl : g.isLeader r = false := by rw [hf.lead, hk]; rfl
    obtain ⟨hrank, hleft⟩ : 1 ≤ g.rankOf r ∧ ∀ a ∈ g.rules[r].alts, leftOKItems g (edgeFor g r) a.items = true := by
      rcases hf.left with h | h
      · rw [hk] at h; cases h
      · exact h
    have hcall : Callable E g rec p s.cache (edgeFor g r) := by
      intro r' q inv' s1 hr' hq hc1 hm1 hpos
      apply ht r' q inv' s1 hr' hq hc1
      rcases hpos with hpq | ⟨rfl, hedge⟩
      · exact hlater r' q s1 hpq hq
      · have hU := U_mono g q hm1
        have hrk : rk g r' < rk g r := by
          simp only [rk, hnl, Bool.false_eq_true, if_false]
          simp only [edgeFor, Bool.or_eq_true, decide_eq_true_eq] at hedge
          rcases hedge with h | h
          · simp only [h, if_true]; omega
          · split
            · omega
            · exact h
        have := arith_same (U g s.cache q) (U g s1.cache q) (rk g r) (rk g r') (g.rankBase + 1) hU hrk
        unfold Meas at hM ⊢
        omega
    exact body_term hs hcall r _ hf hleft inv s hp hc (Mono.refl _)

theorem interp_term {E : Env σ} {g : Grammar} (hwf : WF g = true) : ∀ f, Term E g (interp E g f) f := by
  intro f
  induction f with
  | zero => intro r p inv s _ _ _ hM; omega
  | succ f ih =>
    simp only [interp]
    exact callRule_term hwf (interp_sound hwf f) f ih

theorem Meas_lt_fuelBound {E : Env σ} {g : Grammar} (hb : 0 < g.rankBase) (p : Nat) (c : Cache) (r : Nat) :
    Meas E g p c r < fuelBound g E.n := by
  unfold Meas fuelBound
  have h1 := arith_small g.numLeaders g.rankBase (U g c p) (rk g r) (U_le g c p) (rk_le g hb r)
  have h2 : (E.n - p) * Wt g ≤ E.n * Wt g := Nat.mul_le_mul_right _ (by omega)
  have h3 : (E.n + 1) * Wt g = E.n * Wt g + Wt g := Nat.succ_mul _ _
  unfold Wt at h2 h3 ⊢
  omega

theorem CInv_empty (E : Env σ) (g : Grammar) : CInv E g ({} : Cache) := by
  intro r p v e h
  simp at h

end Scenic.PegTotal
