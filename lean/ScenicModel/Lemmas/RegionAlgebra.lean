import ScenicModel.Model.Dispatch
import Mathlib.Tactic.Linarith
import Mathlib.Tactic.Ring
import Mathlib.Tactic.NormNum

/-! Helper lemmas for the region model (C16): arithmetic helpers, list minima, accessor lemmas that
make the `lzy` wrapper transparent. -/
namespace Scenic.Region

theorem sq_nonneg' (a : Rat) : 0 ≤ sq a := by unfold sq; exact mul_self_nonneg a

theorem sq_eq_zero_iff (a : Rat) : sq a = 0 ↔ a = 0 := by unfold sq; exact mul_self_eq_zero

theorem absR_eq (a : Rat) : absR a = |a| := by
  unfold absR
  split
  · rename_i h; rw [abs_of_neg h]
  · rename_i h; rw [abs_of_nonneg (not_lt.mp h)]

theorem maxR_eq (a b : Rat) : maxR a b = max a b := by
  unfold maxR
  split
  · rename_i h; rw [max_eq_right h]
  · rename_i h; rw [max_eq_left (le_of_lt (not_le.mp h))]

theorem minR_eq (a b : Rat) : minR a b = min a b := by
  unfold minR
  split
  · rename_i h; rw [min_eq_left h]
  · rename_i h; rw [min_eq_right (le_of_lt (not_le.mp h))]

theorem absR_nonneg (a : Rat) : 0 ≤ absR a := by rw [absR_eq]; exact abs_nonneg a

/-- `(|a|)² = a²` -/
theorem sq_absR (a : Rat) : sq (absR a) = sq a := by
  unfold absR sq; split <;> ring

/-- from `a² ≤ r²` and `0 ≤ r`: `|a| ≤ r` -/
theorem abs_le_of_sq_le {a r : Rat} (hr : 0 ≤ r) (h : sq a ≤ sq r) : |a| ≤ r := by
  unfold sq at h
  refine abs_le.mpr ⟨?_, ?_⟩
  · by_contra hc; push Not at hc; nlinarith
  · by_contra hc; push Not at hc; nlinarith

/-! ### list minima -/

theorem listMin_le : ∀ {l : List Rat} {m : Rat}, listMin l = some m → ∀ x ∈ l, m ≤ x
  | [], _, h, _, _ => by simp [listMin] at h
  | a :: rest, m, h, x, hx => by
    unfold listMin at h
    cases hr : listMin rest with
    | none =>
      rw [hr] at h
      simp only [Option.some.injEq] at h; subst h
      cases rest with
      | nil => simp only [List.mem_cons, List.not_mem_nil, or_false] at hx; subst hx; exact le_refl _
      | cons b bs =>
        exfalso
        unfold listMin at hr
        cases h2 : listMin bs <;> rw [h2] at hr <;> simp at hr
    | some m' =>
      rw [hr] at h
      simp only [Option.some.injEq] at h; subst h
      rw [minR_eq]
      rcases List.mem_cons.mp hx with rfl | hx'
      · exact min_le_left _ _
      · exact le_trans (min_le_right _ _) (listMin_le hr x hx')

theorem listMin_mem : ∀ {l : List Rat} {m : Rat}, listMin l = some m → m ∈ l
  | [], _, h => by simp [listMin] at h
  | a :: rest, m, h => by
    unfold listMin at h
    cases hr : listMin rest with
    | none => rw [hr] at h; simp only [Option.some.injEq] at h; subst h; exact List.mem_cons_self
    | some m' =>
      rw [hr] at h
      simp only [Option.some.injEq] at h; subst h
      rw [minR_eq]
      rcases min_choice a m' with h1 | h1 <;> rw [h1]
      · exact List.mem_cons_self
      · exact List.mem_cons_of_mem _ (listMin_mem hr)

theorem listMin_isSome : ∀ {l : List Rat}, l ≠ [] → ∃ m, listMin l = some m
  | [], h => absurd rfl h
  | a :: rest, _ => by
    unfold listMin
    cases listMin rest with
    | none => exact ⟨a, rfl⟩
    | some m' => exact ⟨minR a m', rfl⟩

theorem minOver_le {α} (f : α → Rat) {l : List α} {x : α} (hx : x ∈ l) : minOver f l ≤ f x := by
  unfold minOver
  have hne : l.map f ≠ [] := by
    intro h; rw [List.map_eq_nil_iff] at h; subst h; simp at hx
  obtain ⟨m, hm⟩ := listMin_isSome hne
  rw [hm]
  exact listMin_le hm (f x) (List.mem_map_of_mem hx)

theorem minOver_attained {α} (f : α → Rat) {l : List α} (hl : l ≠ []) : ∃ x ∈ l, f x = minOver f l := by
  unfold minOver
  have hne : l.map f ≠ [] := by
    intro h; rw [List.map_eq_nil_iff] at h; exact hl h
  obtain ⟨m, hm⟩ := listMin_isSome hne
  rw [hm]
  obtain ⟨x, hx, hfx⟩ := List.mem_map.mp (listMin_mem hm)
  exact ⟨x, hx, hfx⟩

/-! ### distances -/

theorem V2.dsq_nonneg (a b : V2) : 0 ≤ V2.dsq a b := by
  unfold V2.dsq; exact add_nonneg (sq_nonneg' _) (sq_nonneg' _)

theorem Pt.dsq_nonneg (a b : Pt) : 0 ≤ Pt.dsq a b := by
  unfold Pt.dsq; exact add_nonneg (add_nonneg (sq_nonneg' _) (sq_nonneg' _)) (sq_nonneg' _)

theorem Pt.dsq_eq_zero_iff (a b : Pt) : Pt.dsq a b = 0 ↔ a = b := by
  constructor
  · intro h
    unfold Pt.dsq at h
    have h1 := sq_nonneg' (a.x - b.x); have h2 := sq_nonneg' (a.y - b.y); have h3 := sq_nonneg' (a.z - b.z)
    have e1 : sq (a.x - b.x) = 0 := by linarith
    have e2 : sq (a.y - b.y) = 0 := by linarith
    have e3 : sq (a.z - b.z) = 0 := by linarith
    rw [sq_eq_zero_iff] at e1 e2 e3
    cases a; cases b; simp only [Pt.mk.injEq] at *
    exact ⟨by linarith, by linarith, by linarith⟩
  · rintro rfl; unfold Pt.dsq sq; ring

/-! ### the `lzy` wrapper is transparent: everything goes through the accessors -/

theorem kind_planar_cases (A : Reg) (h : A.kind.isa .poly = true) :
    A.z? = some A.zz ∧ A.shape2 = some A.sh ∧ ∀ p, A.mem p = (decide (p.z = A.zz) && A.sh p.xy) := by
  induction A with
  | planar z s => exact ⟨rfl, rfl, fun p => rfl⟩
  | disc z c r => exact ⟨rfl, rfl, fun p => rfl⟩
  | lzy r ih =>
    have := ih (by simpa [Reg.kind] using h)
    exact ⟨this.1, this.2.1, fun p => this.2.2 p⟩
  | _ => simp [Reg.kind, Kind.isa, Kind.parent] at h

theorem kind_foot_cases (A : Reg) (h : A.kind = .foot) :
    A.z? = none ∧ ∀ p, A.mem p = A.sh p.xy := by
  induction A with
  | foot s => exact ⟨rfl, fun p => rfl⟩
  | lzy r ih =>
    have := ih (by simpa [Reg.kind] using h)
    exact ⟨this.1, fun p => this.2 p⟩
  | _ => simp [Reg.kind] at h

theorem kind_line_cases (A : Reg) (h : A.kind = .line) :
    A.z? = none ∧ A.sh = onChain A.chain ∧ ∀ p, A.mem p = (decide (p.z = 0) && A.sh p.xy) := by
  induction A with
  | line c => exact ⟨rfl, rfl, fun p => rfl⟩
  | lzy r ih =>
    have := ih (by simpa [Reg.kind] using h)
    exact ⟨this.1, this.2.1, fun p => this.2.2 p⟩
  | _ => simp [Reg.kind] at h

theorem kind_path_cases (A : Reg) (h : A.kind = .path) : ∀ p, A.mem p = onPath A.chain3 p := by
  induction A with
  | path c => exact fun p => rfl
  | lzy r ih => exact fun p => ih (by simpa [Reg.kind] using h) p
  | _ => simp [Reg.kind] at h

theorem kind_pts_cases (F : Flags) (A : Reg) (h : A.kind = .pts) :
    ∀ p, A.mem p = A.points.contains p ∧ containsPoint F A p = A.points.contains p := by
  induction A with
  | pts ps => exact fun p => ⟨rfl, by simp [containsPoint, containsPrim, Reg.points]⟩
  | lzy r ih =>
    intro p
    have := ih (by simpa [Reg.kind] using h) p
    refine ⟨this.1, ?_⟩
    rw [containsPoint]; exact this.2
  | _ => simp [Reg.kind] at h

theorem kind_empty_mem (A : Reg) (h : A.kind = .empty) : ∀ p, A.mem p = false := by
  induction A with
  | empty => exact fun p => rfl
  | lzy r ih => exact fun p => ih (by simpa [Reg.kind] using h) p
  | _ => simp [Reg.kind] at h

theorem kind_all_mem (A : Reg) (h : A.kind = .all) : ∀ p, A.mem p = true := by
  induction A with
  | all => exact fun p => rfl
  | lzy r ih => exact fun p => ih (by simpa [Reg.kind] using h) p
  | _ => simp [Reg.kind] at h

theorem isa_poly_iff (k : Kind) : k.isa .poly = true ↔ k = .poly ∨ k = .disc := by
  cases k <;> simp [Kind.isa, Kind.parent]

theorem Pt.xy_at (p : Pt) : p.xy.at p.z = p := by cases p; rfl

end Scenic.Region
