import ScenicModel.Lemmas.SimOrder
/-! # C12 — the top-level scenario's own counters are touched by nobody else (frame lemmas)

Instance 0 is the top-level scenario.  Sub-scenario instances are numbered from 1 in start
order, so no `_subScenarios` list contains 0 (`WF`), hence nothing that runs below the top level
(steps of sub-scenarios, stops, monitors, behaviors) changes the top-level scenario's
`_elapsedTime` or its class (`Same0`). -/
namespace Scenic.SimLoop

def WF (st : St) : Prop := st.insts ≠ [] ∧ ∀ k, 0 ∉ (st.inst k).subs

def Same0 (st st' : St) : Prop :=
  (st'.inst 0).elapsed = (st.inst 0).elapsed ∧ (st'.inst 0).cls = (st.inst 0).cls

/-- frame property: well-formedness is kept and instance 0's counters are untouched -/
def Fr (st st' : St) : Prop := WF st → WF st' ∧ Same0 st st'

theorem Fr.refl (st : St) : Fr st st := fun h => ⟨h, rfl, rfl⟩
theorem Fr.trans {a b c : St} (h1 : Fr a b) (h2 : Fr b c) : Fr a c := by
  intro h
  obtain ⟨w1, s1, s1'⟩ := h1 h
  obtain ⟨w2, s2, s2'⟩ := h2 w1
  exact ⟨w2, s2.trans s1, s2'.trans s1'⟩

theorem Fr.of_insts {st st' : St} (h : st'.insts = st.insts) : Fr st st' := by
  intro hw
  have hi : ∀ k, st'.inst k = st.inst k := fun k => by simp [St.inst, h]
  exact ⟨⟨by rw [h]; exact hw.1, fun k => by rw [hi]; exact hw.2 k⟩, by simp [hi], by simp [hi]⟩

theorem Fr.emit (st : St) (e : Ev) : Fr st (st.emit e) := Fr.of_insts rfl
theorem Fr.emits (st : St) (l : List Ev) : Fr st (st.emits l) := Fr.of_insts rfl
theorem Fr.fail (st : St) (a : Abort) : Fr st (st.fail a) := Fr.of_insts rfl
theorem Fr.setAgentCo (st : St) (a : Nat) (s : Stack) : Fr st (st.setAgentCo a s) := Fr.of_insts rfl

theorem inst_modInst (st : St) (i : Nat) (f : Inst → Inst) (k : Nat) :
    (st.modInst i f).inst k = if i = k ∧ k < st.insts.length then f (st.inst k) else st.inst k := by
  simp only [St.modInst, St.inst, List.getD_eq_getElem?_getD, List.getElem?_modify]
  by_cases hk : k < st.insts.length
  · simp [hk]
  · simp [hk]

theorem modInst_length (st : St) (i : Nat) (f : Inst → Inst) : (st.modInst i f).insts.length = st.insts.length := by
  simp [St.modInst]

/-- a modification of one instance that keeps `elapsed`/`cls` and does not introduce 0 into `subs` -/
theorem Fr.modInst (st : St) (i : Nat) (f : Inst → Inst)
    (h1 : ∀ x, (f x).elapsed = x.elapsed ∧ (f x).cls = x.cls)
    (h2 : ∀ x, 0 ∉ x.subs → 0 ∉ (f x).subs) : Fr st (st.modInst i f) := by
  intro hw
  refine ⟨⟨?_, fun k => ?_⟩, ?_, ?_⟩
  · intro h
    have := modInst_length st i f
    rw [h] at this
    exact hw.1 (List.eq_nil_of_length_eq_zero this.symm)
  · rw [inst_modInst]; split
    · exact h2 _ (hw.2 k)
    · exact hw.2 k
  · rw [inst_modInst]; split
    · exact (h1 _).1
    · rfl
  · rw [inst_modInst]; split
    · exact (h1 _).2
    · rfl

theorem Fr.then_modInst {st st1 : St} (h : Fr st st1) (i : Nat) (f : Inst → Inst)
    (h1 : ∀ x, (f x).elapsed = x.elapsed ∧ (f x).cls = x.cls)
    (h2 : ∀ x, 0 ∉ x.subs → 0 ∉ (f x).subs) : Fr st (st1.modInst i f) :=
  h.trans (Fr.modInst st1 i f h1 h2)

theorem inst_append (insts : List Inst) (x : Inst) (k : Nat) :
    (insts ++ [x]).getD k default =
      if k < insts.length then insts.getD k default else if k = insts.length then x else default := by
  simp only [List.getD_eq_getElem?_getD]
  by_cases hk : k < insts.length
  · simp [hk, List.getElem?_append_left hk]
  · simp only [hk, if_false]
    rw [List.getElem?_append_right (Nat.le_of_not_lt hk)]
    by_cases he : k = insts.length
    · simp [he]
    · simp only [he, if_false]
      cases hh : k - insts.length with
      | zero => omega
      | succ m => simp

theorem startOne_fr (P : Prog) (k : Nat) (st : St) : Fr st (startOne P k st) := by
  unfold startOne
  simp only
  obtain ⟨_, h1⟩ := addAgents_ext (fun _ => true) (fun _ => rfl) P st.insts.length (P.scens.getD k default).agents st
  generalize addAgents P st.insts.length (P.scens.getD k default).agents st = st1 at h1
  intro hw
  have hlen : 0 < st.insts.length := List.length_pos_iff.mpr hw.1
  have hsub : (newInst P k).subs = [] := rfl
  refine ⟨⟨by simp, fun j => ?_⟩, ?_, ?_⟩
  · show 0 ∉ ((st1.insts ++ [newInst P k]).getD j default).subs
    rw [inst_append, h1]
    split
    · exact hw.2 j
    · split
      · simp [hsub]
      · simp [show (default : Inst).subs = [] from rfl]
  · show ((st1.insts ++ [newInst P k]).getD 0 default).elapsed = _
    rw [inst_append, h1]; simp [hlen, St.inst]
  · show ((st1.insts ++ [newInst P k]).getD 0 default).cls = _
    rw [inst_append, h1]; simp [hlen, St.inst]

theorem startOne_length (P : Prog) (k : Nat) (st : St) : (startOne P k st).insts.length = st.insts.length + 1 := by
  unfold startOne
  simp only
  obtain ⟨_, h1⟩ := addAgents_ext (fun _ => true) (fun _ => rfl) P st.insts.length (P.scens.getD k default).agents st
  rw [List.length_append, h1]
  rfl

theorem startAll_fr (P : Prog) (subs : List Nat) : ∀ st : St, Fr st (startAll P subs st) := by
  induction subs with
  | nil => intro st; exact Fr.refl _
  | cons k rest ih => intro st; simp only [startAll]; exact (startOne_fr P k st).trans (ih _)

theorem startSubs_fr (P : Prog) (i : Nat) (subs : List Nat) (st : St) : Fr st (startSubs P i subs st) := by
  unfold startSubs
  simp only
  intro hw
  have hlen : 0 < st.insts.length := List.length_pos_iff.mpr hw.1
  have := Fr.then_modInst (startAll_fr P subs st) i
    (fun x => { x with subs := (List.range subs.length).map (st.insts.length + ·) }) (fun x => ⟨rfl, rfl⟩) (by
      intro x _
      simp only [List.mem_map, List.mem_range, not_exists, not_and]
      intro a _
      omega)
  exact this hw

theorem stop_fr (n : Nat) : (∀ i st, Fr st (stopScen n i st)) ∧ (∀ l st, Fr st (stopList n l st)) := by
  induction n with
  | zero => exact ⟨fun i st => by unfold stopScen; exact Fr.fail _ _, fun l st => by unfold stopList; exact Fr.fail _ _⟩
  | succ n ih =>
    refine ⟨fun i st => ?_, fun l st => ?_⟩
    · simp only [stopScen]
      refine Fr.then_modInst ?_ _ _ (fun x => ⟨rfl, rfl⟩) (fun x h => h)
      refine Fr.trans ?_ (ih.2 _ _)
      exact Fr.then_modInst (Fr.emit _ _) _ _ (fun x => ⟨rfl, rfl⟩) (fun x h => h)
    · cases l with
      | nil => simp only [stopList]; exact Fr.refl _
      | cons j rest =>
        simp only [stopList]
        refine Fr.trans ?_ (ih.2 _ _)
        split
        · exact ih.1 _ _
        · exact Fr.refl _

/-- modifying an instance other than the top-level one -/
theorem Fr.modInst_ne (st : St) (i : Nat) (f : Inst → Inst) (hi : i ≠ 0)
    (h2 : ∀ x, 0 ∉ x.subs → 0 ∉ (f x).subs) : Fr st (st.modInst i f) := by
  intro hw
  refine ⟨⟨?_, fun k => ?_⟩, ?_, ?_⟩
  · intro h
    have := modInst_length st i f
    rw [h] at this
    exact hw.1 (List.eq_nil_of_length_eq_zero this.symm)
  · rw [inst_modInst]; split
    · exact h2 _ (hw.2 k)
    · exact hw.2 k
  · rw [inst_modInst]; simp [hi]
  · rw [inst_modInst]; simp [hi]

theorem evalTermWhen_fr (P : Prog) (l : List Nat) : ∀ st : St, Fr st (evalTermWhen P l st).1 := by
  induction l with
  | nil => intro st; exact Fr.refl _
  | cons c rest ih =>
    intro st
    unfold evalTermWhen
    simp only
    split
    · exact Fr.emit _ _
    · exact (Fr.emit _ _).trans (ih _)

theorem checkReqs_fr (P : Prog) (i : Nat) (st : St) : Fr st (checkReqs P i st) :=
  Fr.of_insts (checkReqs_insts P i st).1

theorem scen_fr (P : Prog) (cf : Nat) (n : Nat) :
    (∀ i st, i ≠ 0 → Fr st (stepScen P cf n i st).1) ∧
    (∀ i cls cd st, Fr st (afterCompose P cf n i cls cd st).1) ∧
    (∀ i out st, Fr st (composeHandle P cf n i out st).1) ∧
    (∀ i todo new s st, (WF st → 0 ∉ todo ∧ 0 ∉ new) → Fr st (invokeLoop P cf n i todo new s st).1) := by
  induction n with
  | zero =>
    refine ⟨fun i st _ => ?_, fun i cls cd st => ?_, fun i out st => ?_, fun i todo new s st _ => ?_⟩
    · unfold stepScen; exact Fr.fail _ _
    · unfold afterCompose; exact Fr.fail _ _
    · unfold composeHandle; exact Fr.fail _ _
    · unfold invokeLoop; exact Fr.fail _ _
  | succ n ih =>
    obtain ⟨ih1, ih2, ih3, ih4⟩ := ih
    refine ⟨fun i st hi => ?_, fun i cls cd st => ?_, fun i out st => ?_, fun i todo new s st hyp => ?_⟩
    · simp only [stepScen]
      have h := checkReqs_fr P i st
      generalize checkReqs P i st = st1 at h ⊢
      split
      · exact h.trans ((stop_fr n).1 _ _)
      · have h2 : Fr st (st1.modInst i fun x => { x with elapsed := x.elapsed + 1 }) :=
          h.trans (Fr.modInst_ne st1 i _ hi (fun x hx => hx))
        generalize (st1.modInst i fun x => { x with elapsed := x.elapsed + 1 }) = st2 at h2 ⊢
        refine h2.trans ?_
        split
        · exact ih2 _ _ _ _
        · rename_i s _
          have hc := ih3 i (resume P.code (.comp i) st2.time cf s) st2
          generalize composeHandle P cf n i (resume P.code (.comp i) st2.time cf s) st2 = r at hc ⊢
          obtain ⟨st3, cr⟩ := r
          cases cr with
          | aborted => exact hc
          | done =>
            exact (Fr.then_modInst hc i (fun x => { x with co := none }) (fun x => ⟨rfl, rfl⟩) (fun x h => h)).trans
              (ih2 _ _ _ _)
          | yielded y s' =>
            cases y with
            | endScen => exact hc.trans ((stop_fr n).1 _ _)
            | endSim => exact hc.trans ((stop_fr n).1 _ _)
            | acts a =>
              exact (Fr.then_modInst hc i (fun x => { x with co := some s' }) (fun x => ⟨rfl, rfl⟩) (fun x h => h)).trans
                (ih2 _ _ _ _)
    · simp only [afterCompose]
      split
      · exact (stop_fr n).1 _ _
      · have h := evalTermWhen_fr P cls.termWhen st
        split
        · rename_i st' heq; rw [heq] at h; exact h.trans ((stop_fr n).1 _ _)
        · rename_i st' heq; rw [heq] at h; exact h
    · simp only [composeHandle]
      have h0 : Fr st (st.emits out.log) := Fr.emits _ _
      split
      · exact h0
      · exact h0
      · exact h0.trans (Fr.fail _ _)
      · rename_i subs s _
        have h1 := h0.trans (startSubs_fr P i subs (st.emits out.log))
        generalize startSubs P i subs (st.emits out.log) = st1 at h1 ⊢
        exact h1.trans (ih4 _ _ _ _ _ (fun hw => ⟨hw.2 i, by simp⟩))
      · rename_i s _
        have h1 : Fr st ((st.emits out.log).modInst i fun x =>
            { x with subs := x.subs.filter fun j => ((st.emits out.log).inst j).running }) :=
          Fr.then_modInst h0 _ _ (fun x => ⟨rfl, rfl⟩) (fun x hx => by
            intro hm; exact hx (List.mem_filter.mp hm).1)
        generalize ((st.emits out.log).modInst i fun x =>
            { x with subs := x.subs.filter fun j => ((st.emits out.log).inst j).running }) = st1 at h1 ⊢
        exact h1.trans (ih4 _ _ _ _ _ (fun hw => ⟨hw.2 i, by simp⟩))
      · rename_i s' _
        have h1 := h0.trans ((stop_fr n).2 ((st.emits out.log).inst i).subs (st.emits out.log))
        generalize stopList n ((st.emits out.log).inst i).subs (st.emits out.log) = st1 at h1 ⊢
        split
        · exact h1
        · exact h1.trans (ih3 _ _ _)
    · cases todo with
      | nil =>
        simp only [invokeLoop]
        have hA : Fr st (st.modInst i fun x => { x with subs := new }) := fun hw =>
          (Fr.modInst st i (fun x => { x with subs := new }) (fun x => ⟨rfl, rfl⟩) (fun x _ => (hyp hw).2)) hw
        split
        · exact hA.trans (ih3 _ _ _)
        · exact hA
      | cons j rest =>
        simp only [invokeLoop]
        intro hw
        obtain ⟨ht, hn⟩ := hyp hw
        have hj : j ≠ 0 := by intro h; subst h; exact ht (by simp)
        have hr : 0 ∉ rest := fun h => ht (by simp [h])
        have h := ih1 j st hj
        generalize stepScen P cf n j st = r at h ⊢
        obtain ⟨st', ret⟩ := r
        simp only
        split
        · exact h hw
        · cases ret with
          | endSim => exact h hw
          | abort => exact h hw
          | cont => exact (h.trans (ih4 _ _ _ _ _ (fun _ => ⟨hr, by simp [hn, Ne.symm hj]⟩))) hw
          | stopped => exact (h.trans (ih4 _ _ _ _ _ (fun _ => ⟨hr, hn⟩))) hw

theorem monOutcome_fr (out : Out) (old : Stack) (st : St) : Fr st (monOutcome out old st).1 := by
  unfold monOutcome
  simp only
  split <;> first | exact Fr.emits _ _ | exact (Fr.emits _ _).trans (Fr.fail _ _)

theorem stepMons_fr (P : Prog) (cf i : Nat) (mons : List MonInst) : ∀ (j : Nat) (st : St),
    Fr st (stepMons P cf i j mons st).1 := by
  induction mons with
  | nil => intro j st; exact Fr.refl _
  | cons mon rest ih =>
    intro j st
    simp only [stepMons]
    have h0 := monOutcome_fr (resume P.code (.mon i j) st.time cf mon.co) mon.co st
    generalize monOutcome (resume P.code (.mon i j) st.time cf mon.co) mon.co st = r at h0 ⊢
    obtain ⟨st1, co', es, et⟩ := r
    simp only
    split
    · exact h0
    · have h1 := ih (j + 1) st1
      generalize stepMons P cf i (j + 1) rest st1 = r at h1 ⊢
      obtain ⟨st2, rest', es', et'⟩ := r
      exact h0.trans h1

theorem mon_fr (P : Prog) (cf : Nat) (n : Nat) :
    (∀ i st, Fr st (runMonitors P cf n i st).1) ∧ (∀ l r st, Fr st (monSubs P cf n l r st).1) := by
  induction n with
  | zero =>
    refine ⟨fun i st => ?_, fun l r st => ?_⟩
    · unfold runMonitors; exact Fr.fail _ _
    · unfold monSubs; exact Fr.fail _ _
  | succ n ih =>
    obtain ⟨ih1, ih2⟩ := ih
    refine ⟨fun i st => ?_, fun l r st => ?_⟩
    · simp only [runMonitors]
      have h0 := stepMons_fr P cf i (st.inst i).mons 0 st
      generalize stepMons P cf i 0 (st.inst i).mons st = r at h0 ⊢
      obtain ⟨st1, mons', es, et⟩ := r
      simp only
      have h1 : Fr st (st1.modInst i fun x => { x with mons := mons' }) :=
        Fr.then_modInst h0 i (fun x => { x with mons := mons' }) (fun x => ⟨rfl, rfl⟩) (fun x h => h)
      generalize (st1.modInst i fun x => { x with mons := mons' }) = st2 at h1 ⊢
      split
      · exact h1
      · have h2 := ih2 (st2.inst i).subs (if es = true then MRet.endSim else MRet.none) st2
        generalize monSubs P cf n (st2.inst i).subs (if es = true then MRet.endSim else MRet.none) st2 = r at h2 ⊢
        obtain ⟨st3, sub⟩ := r
        simp only
        split
        · exact h1.trans h2
        · refine (h1.trans h2).trans ?_
          split
          · exact (stop_fr n).1 i st3
          · exact Fr.refl _
    · cases l with
      | nil => simp only [monSubs]; exact Fr.refl _
      | cons j rest =>
        simp only [monSubs]
        have h0 := ih1 j st
        generalize runMonitors P cf n j st = r0 at h0 ⊢
        obtain ⟨st1, rj⟩ := r0
        simp only
        split
        · exact h0
        · exact h0.trans (ih2 _ _ _)

theorem behTurn_fr (P : Prog) (cf fuel a : Nat) (st : St) : Fr st (behTurn P cf fuel a st).1 := by
  unfold behTurn
  simp only
  generalize (st.agents.getD a default) = ag
  have h1 : Fr st (st.emit (.bstep a)) := Fr.emit _ _
  generalize st.emit (.bstep a) = st1 at h1 ⊢
  have h2 : Fr st (st1.emits (resume P.code (.beh a) st1.time cf ag.co).log) := h1.trans (Fr.emits _ _)
  generalize (resume P.code (.beh a) st1.time cf ag.co) = out at h2 ⊢
  generalize st1.emits out.log = st2 at h2 ⊢
  split
  · rename_i y s _
    have h3 : Fr st (st2.setAgentCo a s) := h2.trans (Fr.setAgentCo _ _ _)
    generalize st2.setAgentCo a s = st3 at h3 ⊢
    cases y with
    | endSim => exact h3
    | acts x => exact h3
    | endScen =>
      simp only
      have h4 : Fr st (if (st3.inst ag.parent).running = true then stopScen fuel ag.parent st3 else st3) := by
        split
        · exact h3.trans ((stop_fr fuel).1 _ _)
        · exact h3
      generalize (if (st3.inst ag.parent).running = true then stopScen fuel ag.parent st3 else st3) = st4 at h4 ⊢
      split
      · exact h4
      · split <;> exact h4
  · exact h2.trans (Fr.setAgentCo _ _ _)
  · exact h2.trans (Fr.fail _ _)
  · exact h2.trans (Fr.fail _ _)

theorem behLoop_fr (P : Prog) (cf fuel : Nat) : ∀ (order : List Nat) (acts : List (Nat × Option Nat)) (st : St),
    Fr st (behLoop P cf fuel order acts st).1 := by
  intro order
  induction order with
  | nil => intro acts st; exact Fr.refl _
  | cons a rest ih =>
    intro acts st
    simp only [behLoop]
    have h := behTurn_fr P cf fuel a st
    generalize behTurn P cf fuel a st = r at h ⊢
    obtain ⟨st1, turn⟩ := r
    cases turn with
    | acts x => exact h.trans (ih _ _)
    | terminate => exact h
    | abort => exact h

/-! ### the top-level scenario's own step -/

theorem evalTermWhen_false (P : Prog) (l : List Nat) : ∀ st : St,
    (evalTermWhen P l st).2 = false → ∀ c ∈ l, P.code.cond c st.time = false := by
  induction l with
  | nil => intro st _ c hc; simp at hc
  | cons c rest ih =>
    intro st h c' hc'
    unfold evalTermWhen at h
    simp only at h
    split at h
    · simp at h
    · rename_i hv
      simp only [List.mem_cons] at hc'
      rcases hc' with rfl | hc'
      · simpa using hv
      · exact ih _ h c' hc'

theorem afterCompose_cont (P : Prog) (cf n i : Nat) (cls : ScenCls) (cd : Bool) (st : St)
    (h : (afterCompose P cf n i cls cd st).2 = .cont) :
    ∀ c ∈ cls.termWhen, P.code.cond c st.time = false := by
  cases n with
  | zero => simp [afterCompose] at h
  | succ n =>
    simp only [afterCompose] at h
    split at h
    · simp at h
    · have := evalTermWhen_false P cls.termWhen st
      generalize evalTermWhen P cls.termWhen st = r at h this
      obtain ⟨st', b⟩ := r
      cases b with
      | true => simp at h
      | false => exact this rfl

/-- the top-level scenario may continue past clock `t` -/
def ScenCont (P : Prog) (t : Nat) : Prop :=
  (∀ l, (P.scens.getD 0 default).limit = some l → t < l) ∧
  ∀ c ∈ (P.scens.getD 0 default).termWhen, P.code.cond c t = false

/-- what `dynamicScenario._step()` of the top-level scenario establishes when it returns `None` -/
theorem stepScen_top (P : Prog) (cf n : Nat) (st : St) (hw : WF st) (hcls : (st.inst 0).cls = 0)
    (hel : (st.inst 0).elapsed = st.time) :
    WF (stepScen P cf n 0 st).1 ∧ ((stepScen P cf n 0 st).1.inst 0).cls = 0 ∧
    ((stepScen P cf n 0 st).2 = .cont →
      ((stepScen P cf n 0 st).1.inst 0).elapsed = st.time + 1 ∧ ScenCont P st.time) := by
  cases n with
  | zero => simp only [stepScen]; exact ⟨(Fr.fail _ _ hw).1, by rw [(Fr.fail _ _ hw).2.2]; exact hcls, by simp⟩
  | succ n =>
    simp only [stepScen]
    obtain ⟨c2, c3, _⟩ := checkReqs_insts P 0 st
    have cfr := checkReqs_fr P 0 st
    generalize checkReqs P 0 st = st1 at c2 c3 cfr ⊢
    have hi1 : ∀ k, st1.inst k = st.inst k := fun k => by simp [St.inst, c2]
    obtain ⟨hw1, _, _⟩ := cfr hw
    split
    · -- time limit reached
      obtain ⟨w, s1, s2⟩ := (stop_fr n).1 0 st1 hw1
      exact ⟨w, by rw [s2, hi1]; exact hcls, by simp⟩
    · rename_i hlim
      have hlen : 0 < st1.insts.length := List.length_pos_iff.mpr hw1.1
      have hw2 : WF (st1.modInst 0 fun x => { x with elapsed := x.elapsed + 1 }) := by
        refine ⟨?_, fun k => ?_⟩
        · intro h
          have := modInst_length st1 0 (fun x => { x with elapsed := x.elapsed + 1 })
          rw [h] at this
          exact hw1.1 (List.eq_nil_of_length_eq_zero this.symm)
        · rw [inst_modInst]; split <;> exact hw1.2 k
      have he2 : ((st1.modInst 0 fun x => { x with elapsed := x.elapsed + 1 }).inst 0).elapsed = st.time + 1 := by
        rw [inst_modInst]; simp [hlen, hi1, hel]
      have hc2 : ((st1.modInst 0 fun x => { x with elapsed := x.elapsed + 1 }).inst 0).cls = 0 := by
        rw [inst_modInst]; simp [hlen, hi1, hcls]
      have ht2 : (st1.modInst 0 fun x => { x with elapsed := x.elapsed + 1 }).time = st.time := c3
      generalize (st1.modInst 0 fun x => { x with elapsed := x.elapsed + 1 }) = st2 at hw2 he2 hc2 ht2 ⊢
      have hlimit : ∀ l, (P.scens.getD 0 default).limit = some l → st.time < l := by
        intro l hl
        rw [hi1, hcls] at hlim
        simp only [limitReached, hl, hel, decide_eq_true_eq] at hlim
        omega
      -- everything after the increment keeps instance 0's counters; `cont` only after the terminate-when loop
      have fin : ∀ (cd : Bool) (st3 : St), WF st3 → (st3.inst 0).elapsed = st.time + 1 → (st3.inst 0).cls = 0 →
          st3.time = st.time →
          WF (afterCompose P cf n 0 (P.scens.getD (st.inst 0).cls default) cd st3).1 ∧
          ((afterCompose P cf n 0 (P.scens.getD (st.inst 0).cls default) cd st3).1.inst 0).cls = 0 ∧
          ((afterCompose P cf n 0 (P.scens.getD (st.inst 0).cls default) cd st3).2 = .cont →
            ((afterCompose P cf n 0 (P.scens.getD (st.inst 0).cls default) cd st3).1.inst 0).elapsed = st.time + 1 ∧
            ScenCont P st.time) := by
        intro cd st3 w3 e3 c3' t3
        obtain ⟨w4, s4, s4'⟩ := (scen_fr P cf n).2.1 0 (P.scens.getD (st.inst 0).cls default) cd st3 w3
        refine ⟨w4, by rw [s4', c3'], fun hcont => ⟨by rw [s4, e3], hlimit, ?_⟩⟩
        have := afterCompose_cont P cf n 0 (P.scens.getD (st.inst 0).cls default) cd st3 hcont
        rw [hcls, t3] at this
        exact this
      split
      · exact fin true st2 hw2 he2 hc2 ht2
      · rename_i s _
        have hfr := (scen_fr P cf n).2.2.1 0 (resume P.code (.comp 0) st2.time cf s) st2 hw2
        have hext := (scen_ext P cf n).2.2.1 0 (resume P.code (.comp 0) st2.time cf s) st2 (by
          intro e he
          obtain ⟨l', hl', hC⟩ := resume_log P.code (.comp 0) st2.time cf s
          rw [hl'] at he
          exact isScen_of_comp 0 e (hC e (by simpa using he)))
        generalize composeHandle P cf n 0 (resume P.code (.comp 0) st2.time cf s) st2 = r at hfr hext ⊢
        obtain ⟨st3, cr⟩ := r
        obtain ⟨w3, s3, s3'⟩ := hfr
        have t3 : st3.time = st.time := hext.1.trans ht2
        cases cr with
        | aborted => exact ⟨w3, by rw [s3', hc2], by simp⟩
        | done =>
          have hm := Fr.modInst st3 0 (fun x => { x with co := none }) (fun x => ⟨rfl, rfl⟩) (fun x h => h) w3
          exact fin true _ hm.1 (by rw [hm.2.1, s3, he2]) (by rw [hm.2.2, s3', hc2]) t3
        | yielded y s' =>
          cases y with
          | endScen =>
            obtain ⟨w, q1, q2⟩ := (stop_fr n).1 0 st3 w3
            exact ⟨w, by rw [q2, s3', hc2], by simp⟩
          | endSim =>
            obtain ⟨w, q1, q2⟩ := (stop_fr n).1 0 st3 w3
            exact ⟨w, by rw [q2, s3', hc2], by simp⟩
          | acts a =>
            have hm := Fr.modInst st3 0 (fun x => { x with co := some s' }) (fun x => ⟨rfl, rfl⟩) (fun x h => h) w3
            exact fin false _ hm.1 (by rw [hm.2.1, s3, he2]) (by rw [hm.2.2, s3', hc2]) t3

/-! ### one iteration and the whole loop -/

section
variable (P : Prog) (S : Sem) (cf fuel : Nat) (sched : Nat → Nat → List Nat)

theorem termSimTop_fr (st : St) : Fr st (termSimTop P fuel st).1 :=
  Fr.of_insts (termSimTop_logOnly P fuel st).2.1

theorem recordState_fr (st : St) : Fr st (recordState P fuel st) := by
  unfold recordState
  simp only
  have hC : ∀ (f : ScenCls → List Ev) (st : St), Fr st (recTree P f fuel 0 st) := fun f st =>
    Fr.of_insts ((rec_logOnly P f (fun _ => true) (fun _ _ _ => rfl) fuel).1 0 st).2.1
  have h1 : Fr st (if st.time = 0 then recTree P recInitEvs fuel 0 st else st) := by
    split
    · exact hC _ _
    · exact Fr.refl _
  exact (h1.trans (hC _ _)).trans (Fr.emit _ _)

theorem runPhase_fr (ph : Phase) (hph : ph ≠ .scen) (st : St) (lp : Loop) :
    Fr st (runPhase P cf fuel sched ph st lp).1 := by
  cases ph with
  | scen => exact absurd rfl hph
  | record => exact recordState_fr P fuel st
  | monitors =>
    simp only [runPhase]
    have h := (mon_fr P cf fuel).1 0 st
    generalize runMonitors P cf fuel 0 st = r at h ⊢
    obtain ⟨st1, mr⟩ := r
    exact h
  | retPending => exact Fr.refl _
  | termSimWhen =>
    simp only [runPhase]
    have h := termSimTop_fr P fuel st
    generalize termSimTop P fuel st = r at h ⊢
    obtain ⟨st1, b⟩ := r
    cases b <;> exact h
  | maxSteps => exact Fr.refl _
  | behaviors =>
    simp only [runPhase]
    split
    · exact (Fr.emit _ _).trans (Fr.fail _ _)
    · have h := behLoop_fr P cf fuel (sched st.time st.agents.length) [] (st.emit (.sched (sched st.time st.agents.length)))
      generalize behLoop P cf fuel (sched st.time st.agents.length) [] (st.emit (.sched (sched st.time st.agents.length))) = r at h ⊢
      obtain ⟨st1, acts, t⟩ := r
      exact (Fr.emit _ _).trans h
  | actions => exact Fr.emit _ _
  | simStep => exact Fr.emit _ _
  | clock => exact Fr.of_insts rfl
  | update => exact Fr.emit _ _

theorem runPhases_fr : ∀ (phases : List Phase), Phase.scen ∉ phases → ∀ (st : St) (lp : Loop),
    Fr st (runPhases P cf fuel sched phases st lp).1 := by
  intro phases
  induction phases with
  | nil => intro _ st lp; exact Fr.refl _
  | cons ph rest ih =>
    intro hn st lp
    rw [runPhases]
    have h := runPhase_fr P cf fuel sched ph (fun h => hn (by simp [h])) st lp
    generalize runPhase P cf fuel sched ph st lp = r at h ⊢
    obtain ⟨st1, lp1, res⟩ := r
    cases res with
    | some tt => exact h
    | none =>
      simp only
      split
      · exact h
      · exact h.trans (ih (fun h => hn (by simp [h])) _ _)

/-- once a termination reason is pending, the iteration ends at the `return` of step 4 -/
theorem pending_returns (rest : List Phase) (st : St) (lp : Loop) (hp : lp.pending.isSome = true) :
    (runPhases P cf fuel sched (.record :: .monitors :: .retPending :: rest) st lp).2.isSome = true ∨
    (runPhases P cf fuel sched (.record :: .monitors :: .retPending :: rest) st lp).1.abort.isSome = true := by
  rw [runPhases]
  simp only [runPhase]
  split
  · right; assumption
  · rw [runPhases]
    simp only [runPhase]
    generalize runMonitors P cf fuel 0 (recordState P fuel st) = r
    obtain ⟨st1, mr⟩ := r
    simp only
    split
    · right; assumption
    · rw [runPhases]
      simp only [runPhase]
      have hp1 : (if mr = MRet.none then lp else { lp with pending := some Term.terminatedByMonitor }).pending.isSome = true := by
        split
        · exact hp
        · rfl
      generalize (if mr = MRet.none then lp else { lp with pending := some Term.terminatedByMonitor }) = lp1 at hp1 ⊢
      cases hpend : lp1.pending with
      | none => simp [hpend] at hp1
      | some tt => left; simp

/-- the top-level scenario is well-formed, of class 0, and its `_elapsedTime` is the clock -/
def Top (st : St) : Prop := WF st ∧ (st.inst 0).cls = 0 ∧ (st.inst 0).elapsed = st.time

theorem iter_top (st : St) (hT : Top st)
    (hn : (runPhases P cf fuel sched Phase.documented st {}).2 = none)
    (hab : (runPhases P cf fuel sched Phase.documented st {}).1.abort = none) :
    WF (runPhases P cf fuel sched Phase.documented st {}).1 ∧
    ((runPhases P cf fuel sched Phase.documented st {}).1.inst 0).cls = 0 ∧
    ((runPhases P cf fuel sched Phase.documented st {}).1.inst 0).elapsed = st.time + 1 ∧
    ScenCont P st.time := by
  obtain ⟨hw, hcls, hel⟩ := hT
  unfold Phase.documented at hn hab ⊢
  rw [runPhases] at hn hab ⊢
  simp only [runPhase] at hn hab ⊢
  obtain ⟨t1, t2, t3⟩ := stepScen_top P cf fuel st hw hcls hel
  generalize stepScen P cf fuel 0 st = r at hn hab t1 t2 t3 ⊢
  obtain ⟨st1, ret⟩ := r
  have tail : ∀ lp, Fr st1 (runPhases P cf fuel sched
      [.record, .monitors, .retPending, .termSimWhen, .maxSteps, .behaviors, .actions, .simStep, .clock, .update] st1 lp).1 :=
    fun lp => runPhases_fr P cf fuel sched _ (by simp) st1 lp
  cases ret with
  | abort =>
    exfalso
    simp only at hab
    have hs : (if st1.abort.isSome = true then st1 else st1.fail Abort.error).abort.isSome = true := by
      split
      · assumption
      · simp [St.fail]
    rw [if_pos hs] at hab
    simp only at hab
    rw [hab] at hs
    simp at hs
  | cont =>
    simp only at hn hab ⊢
    obtain ⟨e1, e2⟩ := t3 rfl
    split at hab
    · simp_all
    · split at hn
      · simp_all
      · split
        · simp_all
        · obtain ⟨w, s1, s2⟩ := tail { pending := none } t1
          exact ⟨w, by rw [s2, t2], by rw [s1, e1], e2⟩
  | stopped =>
    simp only at hn hab ⊢
    exfalso
    split at hab
    · simp_all
    · split at hn
      · simp_all
      · rcases pending_returns P cf fuel sched _ st1 { pending := some Term.scenarioComplete } rfl with h | h
        · rw [hn] at h; simp at h
        · rw [hab] at h; simp at h
  | endSim =>
    simp only at hn hab ⊢
    exfalso
    split at hab
    · simp_all
    · split at hn
      · simp_all
      · rcases pending_returns P cf fuel sched _ st1 { pending := some Term.scenarioComplete } rfl with h | h
        · rw [hn] at h; simp at h
        · rw [hab] at h; simp at h

theorem runLoop_top (hS : S.order = Phase.documented) : ∀ (n : Nat) (st : St), At (.scen st.time) st → Top st →
    (∀ t' < st.time, ScenCont P t') →
    ∀ tt, (runLoop P S cf fuel sched n st).2 = some tt →
      ∀ t' < (runLoop P S cf fuel sched n st).1.time, ScenCont P t' := by
  intro n
  induction n with
  | zero => intro st _ _ _ tt h; simp [runLoop] at h
  | succ n ih =>
    intro st hat hT hist tt
    simp only [runLoop, hS]
    have hp := iter_scen P cf fuel sched st.time st {} hat rfl (by simp)
    have ht := iter_top P cf fuel sched st hT
    generalize runPhases P cf fuel sched Phase.documented st {} = r at hp ht ⊢
    obtain ⟨st1, res⟩ := r
    cases res with
    | some tt' =>
      intro _ t' ht'
      have e1 : st1.time = st.time := hp.1
      exact hist t' (by simpa [e1] using ht')
    | none =>
      obtain ⟨e1, _, _⟩ := hp
      simp only
      split
      · intro h; cases h
      · rename_i hab
        have hab' : st1.abort = none := by simpa using hab
        obtain ⟨e4, e5, _⟩ := e1 hab'
        obtain ⟨w, c, el, sc⟩ := ht rfl hab'
        refine ih st1 (by rw [e4]; exact e5) ⟨w, c, by rw [el, e4]⟩ ?_ tt
        intro t' ht'
        rw [e4] at ht'
        by_cases hlt : t' < st.time
        · exact hist t' hlt
        · have : t' = st.time := by omega
          subst this; exact sc

theorem initSt_top : Top (initSt P) := by
  unfold initSt
  have h : ∀ st : St, st.insts = [] → st.time = 0 → Top ((startOne P 0 st).emit (.upd 0)) := by
    intro st hi ht
    unfold startOne
    simp only
    obtain ⟨h1, h2⟩ := addAgents_ext (fun _ => true) (fun _ => rfl) P st.insts.length (P.scens.getD 0 default).agents st
    generalize addAgents P st.insts.length (P.scens.getD 0 default).agents st = st1 at h1 h2
    rw [hi] at h2
    refine ⟨⟨by simp [St.emit], fun k => ?_⟩, ?_, ?_⟩
    · simp only [St.emit, St.inst, h2, List.nil_append]
      cases k with
      | zero => simp [newInst]
      | succ k => simp [show (default : Inst).subs = [] from rfl]
    · simp [St.emit, St.inst, h2, newInst]
    · simp only [St.emit, St.inst, h2, List.nil_append]
      simp [newInst, h1.1, ht]
  exact h _ rfl rfl

/-- **The top-level scenario's `terminate after` and `terminate when`.**  In a run that terminated at
    clock `T`, every step that was executed (clock `t' < T`) started below the top-level scenario's
    time limit and ended with all of its `terminate when` conditions false. -/
theorem simulate_top (hS : S.order = Phase.documented) (tt : Term)
    (ht : (simulate P S cf fuel sched).term = some tt) :
    ∀ t' < (simulate P S cf fuel sched).time, ScenCont P t' := by
  unfold simulate at ht ⊢
  obtain ⟨i1, i2⟩ := initSt_at P
  have l1 := runLoop_top P S cf fuel sched hS (P.maxSteps + 1) (initSt P) (by rw [i2]; exact i1) (initSt_top P)
    (by rw [i2]; intro t' ht'; omega)
  have l0 := runLoop_at P S cf fuel sched hS (P.maxSteps + 1) (initSt P) (by rw [i2]; exact i1)
    (by rw [i2]; intro t' ht'; omega)
  generalize runLoop P S cf fuel sched (P.maxSteps + 1) (initSt P) = r at l0 l1 ht ⊢
  obtain ⟨st, res⟩ := r
  cases res with
  | none => simp at ht
  | some tt' =>
    obtain ⟨⟨s, e1, e2, e3⟩, _, _⟩ := l0.1 tt' rfl
    obtain ⟨f1, _⟩ := finish_at P fuel st s e1 e2
    simp only
    rw [f1]
    exact l1 tt' rfl

end

end Scenic.SimLoop
