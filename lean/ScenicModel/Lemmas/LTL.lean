import ScenicModel.Model.LTL
/-! helper lemmas for C11: bounded search and folds over index ranges, verdict range -/
namespace Scenic.LTL

/-! ### findFrom -/

theorem findFrom_some {p : Nat → Bool} : ∀ {fuel i k : Nat}, findFrom p i fuel = some k →
    i ≤ k ∧ k < i + fuel ∧ p k = true ∧ ∀ j, i ≤ j → j < k → p j = false
  | 0, i, k, h => by simp [findFrom] at h
  | fuel + 1, i, k, h => by
    unfold findFrom at h
    by_cases hp : p i = true
    · simp [hp] at h
      subst h
      exact ⟨Nat.le_refl _, by omega, hp, fun j h1 h2 => by omega⟩
    · simp [hp] at h
      have ih := findFrom_some h
      refine ⟨by omega, by omega, ih.2.2.1, ?_⟩
      intro j h1 h2
      by_cases hj : j = i
      · subst hj; simpa using hp
      · exact ih.2.2.2 j (by omega) h2

theorem findFrom_none {p : Nat → Bool} : ∀ {fuel i : Nat}, findFrom p i fuel = none →
    ∀ j, i ≤ j → j < i + fuel → p j = false
  | 0, i, _ => fun j h1 h2 => by omega
  | fuel + 1, i, h => by
    unfold findFrom at h
    by_cases hp : p i = true
    · simp [hp] at h
    · simp [hp] at h
      intro j h1 h2
      by_cases hj : j = i
      · subst hj; simpa using hp
      · exact findFrom_none h j (by omega) (by omega)

/-- a hit inside the window is found, at or before it -/
theorem findFrom_of_hit {p : Nat → Bool} {fuel i k : Nat} (h1 : i ≤ k) (h2 : k < i + fuel) (hp : p k = true) :
    ∃ k', findFrom p i fuel = some k' ∧ k' ≤ k := by
  cases h : findFrom p i fuel with
  | none => have := findFrom_none h k h1 h2; simp [hp] at this
  | some k' =>
    refine ⟨k', rfl, ?_⟩
    have := findFrom_some h
    by_cases hk : k' ≤ k
    · exact hk
    · have := this.2.2.2 k h1 (by omega); simp [hp] at this

/-! ### ranges -/

theorem mem_range'_iff {lo n m : Nat} : m ∈ List.range' lo n ↔ lo ≤ m ∧ m < lo + n := by
  simp [List.mem_range'_1]

theorem anyRange_iff {p : Nat → Bool} {lo hi : Nat} :
    anyRange p lo hi = true ↔ ∃ k, lo ≤ k ∧ k < hi ∧ p k = true := by
  unfold anyRange
  rw [List.any_eq_true]
  constructor
  · rintro ⟨k, hk, hp⟩
    rw [mem_range'_iff] at hk
    exact ⟨k, hk.1, by omega, hp⟩
  · rintro ⟨k, h1, h2, hp⟩
    exact ⟨k, mem_range'_iff.2 ⟨h1, by omega⟩, hp⟩

theorem allRange_iff {p : Nat → Bool} {lo hi : Nat} :
    allRange p lo hi = true ↔ ∀ k, lo ≤ k → k < hi → p k = true := by
  unfold allRange
  rw [List.all_eq_true]
  constructor
  · intro h k h1 h2
    exact h k (mem_range'_iff.2 ⟨h1, by omega⟩)
  · intro h k hk
    rw [mem_range'_iff] at hk
    exact h k hk.1 (by omega)

theorem anyRange_false_iff {p : Nat → Bool} {lo hi : Nat} :
    anyRange p lo hi = false ↔ ∀ k, lo ≤ k → k < hi → p k = false := by
  constructor
  · intro h k h1 h2
    cases hp : p k with
    | false => rfl
    | true => have := anyRange_iff.2 ⟨k, h1, h2, hp⟩; simp [h] at this
  · intro h
    cases ha : anyRange p lo hi with
    | false => rfl
    | true =>
      obtain ⟨k, h1, h2, hp⟩ := anyRange_iff.1 ha
      simp [h k h1 h2] at hp

theorem le_foldl_min_iff (g : Nat → Nat) (c : Nat) : ∀ (l : List Nat) (init : Nat),
    c ≤ l.foldl (fun r j => min r (g j)) init ↔ c ≤ init ∧ ∀ j ∈ l, c ≤ g j
  | [], init => by simp
  | x :: l, init => by
    simp only [List.foldl_cons, List.mem_cons]
    rw [le_foldl_min_iff g c l]
    constructor
    · rintro ⟨h1, h2⟩
      refine ⟨by omega, ?_⟩
      rintro j (rfl | hj)
      · omega
      · exact h2 j hj
    · rintro ⟨h1, h2⟩
      have := h2 x (Or.inl rfl)
      exact ⟨by omega, fun j hj => h2 j (Or.inr hj)⟩

theorem le_minRange_iff {g : Nat → Nat} {c init lo hi : Nat} :
    c ≤ minRange g init lo hi ↔ c ≤ init ∧ ∀ j, lo ≤ j → j < hi → c ≤ g j := by
  unfold minRange
  rw [le_foldl_min_iff]
  constructor
  · rintro ⟨h1, h2⟩
    exact ⟨h1, fun j a b => h2 j (mem_range'_iff.2 ⟨a, by omega⟩)⟩
  · rintro ⟨h1, h2⟩
    refine ⟨h1, fun j hj => ?_⟩
    rw [mem_range'_iff] at hj
    exact h2 j hj.1 (by omega)

theorem minRange_le_init {g : Nat → Nat} {init lo hi : Nat} : minRange g init lo hi ≤ init := by
  have := (le_minRange_iff (g := g) (c := minRange g init lo hi) (init := init) (lo := lo) (hi := hi)).1 (Nat.le_refl _)
  exact this.1

/-- the fold is small exactly when the start value or one of the scanned values is -/
theorem minRange_le_iff {g : Nat → Nat} {c init lo hi : Nat} :
    minRange g init lo hi ≤ c ↔ init ≤ c ∨ ∃ j, lo ≤ j ∧ j < hi ∧ g j ≤ c := by
  constructor
  · intro h
    by_cases h0 : init ≤ c
    · exact Or.inl h0
    · right
      apply Classical.byContradiction
      intro hne
      have : c + 1 ≤ minRange g init lo hi := by
        rw [le_minRange_iff]
        refine ⟨by omega, fun j a b => ?_⟩
        apply Classical.byContradiction
        intro hj
        exact hne ⟨j, a, b, by omega⟩
      omega
  · rintro (h | ⟨j, a, b, hj⟩)
    · exact Nat.le_trans minRange_le_init h
    · have := (le_minRange_iff (g := g) (c := minRange g init lo hi) (init := init) (lo := lo) (hi := hi)).1 (Nat.le_refl _)
      exact Nat.le_trans (this.2 j a b) hj

theorem minRange_const4 {init lo hi : Nat} (h : init ≤ 4) : minRange (fun _ => 4) init lo hi = init := by
  apply Nat.le_antisymm minRange_le_init
  rw [le_minRange_iff]
  exact ⟨Nat.le_refl _, fun _ _ _ => h⟩

/-! ### verdicts stay in 1..4 -/

theorem b4_range (b : Bool) : 1 ≤ b4 b ∧ b4 b ≤ 4 := by cases b <;> simp [b4]

theorem untilVal_range {c : MonCfg} {l r : Nat → Nat} {n i : Nat}
    (hl : ∀ j, 1 ≤ l j ∧ l j ≤ 4) (hr : ∀ k, 1 ≤ r k ∧ r k ≤ 4) :
    1 ≤ untilVal c l r n i ∧ untilVal c l r n i ≤ 4 := by
  unfold untilVal
  split
  · omega
  · rename_i k _
    refine ⟨?_, Nat.le_trans minRange_le_init (hr k).2⟩
    rw [le_minRange_iff]
    exact ⟨(hr k).1, fun j _ _ => (hl j).1⟩

theorem evalAt_range (c : MonCfg) (σ : Trace) (n : Nat) : ∀ (f : F) (i : Nat),
    1 ≤ evalAt c σ n f i ∧ evalAt c σ n f i ≤ 4
  | .atom a, i => by simpa [evalAt] using b4_range (σ i a)
  | .tt, _ => by simp [evalAt]
  | .ff, _ => by simp [evalAt]
  | .not f, i => by have := evalAt_range c σ n f i; simp only [evalAt]; omega
  | .and a b, i => by
    have := evalAt_range c σ n a i; have := evalAt_range c σ n b i; simp only [evalAt]; omega
  | .or a b, i => by
    have := evalAt_range c σ n a i; have := evalAt_range c σ n b i; simp only [evalAt]; omega
  | .implies a b, i => by
    have := evalAt_range c σ n a i; have := evalAt_range c σ n b i; simp only [evalAt]; omega
  | .next f, i => by
    simp only [evalAt]
    split
    · omega
    · exact evalAt_range c σ n f (i + 1)
  | .until a b, i => by
    simp only [evalAt]
    exact untilVal_range (fun j => evalAt_range c σ n a j) (fun k => evalAt_range c σ n b k)
  | .eventually f, i => by
    simp only [evalAt]
    exact untilVal_range (fun _ => by omega) (fun k => evalAt_range c σ n f k)
  | .always f, i => by
    simp only [evalAt]
    have := untilVal_range (c := c) (l := fun _ => 4) (r := fun k => 5 - evalAt c σ n f k) (n := n) (i := i)
      (fun _ => by omega) (fun k => by have := evalAt_range c σ n f k; omega)
    omega

theorem truthy_iff {v : Nat} : truthy v = true ↔ 3 ≤ v := by simp [truthy]

end Scenic.LTL
