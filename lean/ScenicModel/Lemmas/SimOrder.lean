import ScenicModel.Lemmas.SimLoop
/-! # C12 — the model's event log is accepted by the order automaton (lemmas) -/
namespace Scenic.SimLoop

theorem DS.run_append (s : DS) (l1 l2 : List Ev) :
    s.run (l1 ++ l2) = (s.run l1).bind (·.run l2) := by
  induction l1 generalizing s with
  | nil => simp [DS.run]
  | cons e l ih =>
    simp only [List.cons_append, DS.run]
    cases h : s.step e with
    | none => simp
    | some s' => simpa using ih s'

theorem DS.run_stay (s : DS) (l : List Ev) (h : ∀ e ∈ l, s.step e = some s) : s.run l = some s := by
  induction l with
  | nil => rfl
  | cons e l ih =>
    simp only [DS.run, h e (by simp)]
    exact ih (fun e he => h e (by simp [he]))

/-- the automaton has read the log of `st` and is in state `s` -/
def At (s : DS) (st : St) : Prop := DS.start.run st.log = some s

theorem At.grows {s s' : DS} {st st' : St} {l : List Ev} (h : At s st) (hl : st'.log = st.log ++ l)
    (hr : s.run l = some s') : At s' st' := by
  unfold At at *
  rw [hl, DS.run_append, h]; simpa using hr

theorem At.ext {s : DS} {C : Ev → Bool} {st st' : St} (h : At s st) (he : Ext C st st')
    (hs : ∀ e, C e = true → s.step e = some s) : At s st' := by
  obtain ⟨_, l, hl, hC⟩ := he
  exact h.grows hl (DS.run_stay s l fun e he => hs e (hC e he))

theorem At.emit {s s' : DS} {st : St} {e : Ev} (h : At s st) (hs : s.step e = some s') : At s' (st.emit e) :=
  h.grows (l := [e]) rfl (by simp [DS.run, hs])

theorem At.same {s : DS} {st st' : St} (h : At s st) (hl : st'.log = st.log) : At s st' := by
  unfold At at *; rw [hl]; exact h

theorem scen_stay (t : Nat) (e : Ev) (h : e.isScen = true) : (DS.scen t).step e = some (.scen t) := by
  cases e <;> simp_all [Ev.isScen, DS.step]

theorem mon_stay (t : Nat) (e : Ev) (h : e.isMon = true) : (DS.mon t).step e = some (.mon t) := by
  cases e with
  | cond x c v => cases x <;> simp_all [Ev.isMon, DS.step]
  | _ => simp_all [Ev.isMon, DS.step]

theorem beh_stay_owner (t a : Nat) (rem : List Nat) (e : Ev) (h : Ev.ofOwner (.beh a) e = true) :
    (DS.beh t rem (some a)).step e = some (.beh t rem (some a)) := by
  cases e with
  | cond x c v => cases x <;> simp_all [Ev.ofOwner, DS.step, Owner.ctx]
  | _ => simp_all [Ev.ofOwner, DS.step]

theorem beh_stay_stop (t : Nat) (rem : List Nat) (cur : Option Nat) (e : Ev) (h : e.isStop = true) :
    (DS.beh t rem cur).step e = some (.beh t rem cur) := by
  cases e <;> simp_all [Ev.isStop, DS.step]

theorem behTurn_at (P : Prog) (cf fuel t a : Nat) (rest : List Nat) (st : St) (cur : Option Nat)
    (h : At (.beh t (a :: rest) cur) st) (ht : st.time = t) :
    (behTurn P cf fuel a st).1.time = t ∧ At (.beh t rest (some a)) (behTurn P cf fuel a st).1 ∧
    ((behTurn P cf fuel a st).2 = .abort → (behTurn P cf fuel a st).1.abort.isSome = true) := by
  unfold behTurn
  simp only
  have h1 : At (.beh t rest (some a)) (st.emit (.bstep a)) := h.emit (by simp [DS.step])
  have ht1 : (st.emit (.bstep a)).time = t := ht
  generalize st.emit (.bstep a) = st1 at h1 ht1 ⊢
  generalize (st.agents.getD a default) = ag
  have h2 : At (.beh t rest (some a)) (st1.emits (resume P.code (.beh a) st1.time cf ag.co).log) := by
    refine h1.ext (Ext.emits (C := Ev.ofOwner (.beh a)) _ _ ?_) (beh_stay_owner t a rest)
    intro e he
    obtain ⟨l', hl', hC⟩ := resume_log P.code (.beh a) st1.time cf ag.co
    rw [hl'] at he
    exact hC e (by simpa using he)
  have ht2 : (st1.emits (resume P.code (.beh a) st1.time cf ag.co).log).time = t := ht1
  generalize (resume P.code (.beh a) st1.time cf ag.co) = out at h2 ht2 ⊢
  generalize st1.emits out.log = st2 at h2 ht2 ⊢
  split
  · rename_i y s _
    have h3 : At (.beh t rest (some a)) (st2.setAgentCo a s) := h2.same rfl
    have ht3 : (st2.setAgentCo a s).time = t := ht2
    generalize st2.setAgentCo a s = st3 at h3 ht3 ⊢
    cases y with
    | endSim => exact ⟨ht3, h3, by simp⟩
    | acts x => exact ⟨ht3, h3, by simp⟩
    | endScen =>
      simp only
      have h4 : At (.beh t rest (some a)) (if (st3.inst ag.parent).running = true
          then stopScen fuel ag.parent st3 else st3) ∧
          (if (st3.inst ag.parent).running = true then stopScen fuel ag.parent st3 else st3).time = t := by
        split
        · have := (stop_ext fuel).1 ag.parent st3
          exact ⟨h3.ext this (beh_stay_stop t rest (some a)), this.1.trans ht3⟩
        · exact ⟨h3, ht3⟩
      generalize (if (st3.inst ag.parent).running = true then stopScen fuel ag.parent st3 else st3) = st4 at h4 ⊢
      split
      · rename_i hab; exact ⟨h4.2, h4.1, fun _ => hab⟩
      · split <;> exact ⟨h4.2, h4.1, by simp⟩
  · exact ⟨ht2, h2.same rfl, by simp⟩
  · exact ⟨ht2, h2.same rfl, by simp [St.fail]⟩
  · exact ⟨ht2, h2.same rfl, by simp [St.fail]⟩

theorem behLoop_at (P : Prog) (cf fuel t : Nat) : ∀ (order : List Nat) (acts : List (Nat × Option Nat))
    (st : St) (cur : Option Nat), At (.beh t order cur) st → st.time = t →
    (behLoop P cf fuel order acts st).1.time = t ∧
    (∀ tt, (behLoop P cf fuel order acts st).2.2 = some tt → tt = .terminatedByBehavior) ∧
    ∃ rem cur', At (.beh t rem cur') (behLoop P cf fuel order acts st).1 ∧
      ((behLoop P cf fuel order acts st).2.2 = none → (behLoop P cf fuel order acts st).1.abort = none → rem = []) := by
  intro order
  induction order with
  | nil => intro acts st cur h ht; exact ⟨ht, by simp [behLoop], [], cur, h, fun _ _ => rfl⟩
  | cons a rest ih =>
    intro acts st cur h ht
    simp only [behLoop]
    obtain ⟨h1, h2, h3⟩ := behTurn_at P cf fuel t a rest st cur h ht
    generalize behTurn P cf fuel a st = r at h1 h2 h3 ⊢
    obtain ⟨st1, turn⟩ := r
    cases turn with
    | acts x => exact ih _ _ _ h2 h1
    | terminate => exact ⟨h1, by simp, rest, some a, h2, by simp⟩
    | abort =>
      refine ⟨h1, by simp, rest, some a, h2, ?_⟩
      intro _ hab
      have := h3 rfl
      simp_all

/-- final states other than "after `record final`" -/
def DS.final1 : DS → Bool
  | .mon _ | .chk _ | .beh _ _ _ | .fin _ => true
  | _ => false

/-- no `terminate simulation when` condition holds at clock `t` -/
def AllFalse (P : Prog) (t : Nat) : Prop := ∀ c ∈ P.termSimWhen, P.code.cond c t = false

/-- the step limit has not been reached at clock `t` -/
def NotMax (P : Prog) (t : Nat) : Prop := ¬ (P.maxSteps ≠ 0 ∧ P.maxSteps ≤ t)

/-- what is known when `_run` returns with termination type `tt` at clock `t` -/
def TermOK (P : Prog) (t : Nat) : Term → Prop
  | .scenarioComplete | .terminatedByMonitor => True
  | .simulationTerminationCondition => ∃ k, ∃ c ∈ (P.scens.getD k default).termSimWhen, P.code.cond c t = true
  | .timeLimit => AllFalse P t ∧ P.maxSteps ≠ 0 ∧ P.maxSteps ≤ t
  | .terminatedByBehavior => AllFalse P t ∧ NotMax P t

/-- what is known when the iteration at clock `t` runs to its end -/
def ContOK (P : Prog) (t : Nat) : Prop := AllFalse P t ∧ NotMax P t

/-- what one iteration of `_run` (documented order) establishes, `t` being the clock at its start -/
def IterPost (P : Prog) (t : Nat) (st' : St) (res : Option Term) : Prop :=
  match res with
  | some tt => st'.time = t ∧ (∃ s, At s st' ∧ s.final1 = true ∧ s.time = t) ∧ TermOK P t tt
  | none => (st'.abort = none → st'.time = t + 1 ∧ At (.scen (t + 1)) st' ∧ ContOK P t) ∧ (∃ s, At s st') ∧
      st'.time ≤ t + 1

section
variable (P : Prog) (S : Sem) (cf fuel : Nat) (sched : Nat → Nat → List Nat)

theorem iter_update (t : Nat) (st : St) (lp : Loop) (h : At (.sim t) st) (ht : st.time = t + 1) (hc : ContOK P t) :
    IterPost P t (runPhases P cf fuel sched [.update] st lp).1 (runPhases P cf fuel sched [.update] st lp).2 := by
  have h1 : At (.scen (t + 1)) (st.emit (.upd st.time)) := h.emit (by simp [DS.step, ht])
  simp only [runPhases, runPhase]
  split <;> exact ⟨fun _ => ⟨ht, h1, hc⟩, ⟨_, h1⟩, by simp [St.emit, ht]⟩

theorem iter_cons (t : Nat) (ph : Phase) (rest : List Phase) (st : St) (lp : Loop)
    (hsome : ∀ tt, (runPhase P cf fuel sched ph st lp).2.2 = some tt →
      (runPhase P cf fuel sched ph st lp).1.time = t ∧
      (∃ s, At s (runPhase P cf fuel sched ph st lp).1 ∧ s.final1 = true ∧ s.time = t) ∧ TermOK P t tt)
    (hnone : (runPhase P cf fuel sched ph st lp).2.2 = none →
      (∃ s, At s (runPhase P cf fuel sched ph st lp).1) ∧ (runPhase P cf fuel sched ph st lp).1.time ≤ t + 1 ∧
      ((runPhase P cf fuel sched ph st lp).1.abort = none →
        IterPost P t (runPhases P cf fuel sched rest (runPhase P cf fuel sched ph st lp).1
            (runPhase P cf fuel sched ph st lp).2.1).1
          (runPhases P cf fuel sched rest (runPhase P cf fuel sched ph st lp).1
            (runPhase P cf fuel sched ph st lp).2.1).2)) :
    IterPost P t (runPhases P cf fuel sched (ph :: rest) st lp).1 (runPhases P cf fuel sched (ph :: rest) st lp).2 := by
  rw [runPhases]
  generalize runPhase P cf fuel sched ph st lp = r at hsome hnone ⊢
  obtain ⟨st1, lp1, res⟩ := r
  cases res with
  | some tt => exact hsome tt rfl
  | none =>
    obtain ⟨h1, h2, h3⟩ := hnone rfl
    simp only
    split
    · rename_i hab
      exact ⟨fun h0 => by simp_all, h1, h2⟩
    · rename_i hab
      exact h3 (by simpa using hab)

theorem iter_clock (t : Nat) (st : St) (lp : Loop) (h : At (.sim t) st) (ht : st.time = t) (hc : ContOK P t) :
    IterPost P t (runPhases P cf fuel sched [.clock, .update] st lp).1
      (runPhases P cf fuel sched [.clock, .update] st lp).2 := by
  refine iter_cons P cf fuel sched t _ _ st lp ?_ ?_
  · intro tt htt; simp [runPhase] at htt
  · intro _
    refine ⟨⟨_, h.same rfl⟩, ?_, fun _ => iter_update P cf fuel sched t _ _ (h.same rfl) ?_ hc⟩
    · show st.time + 1 ≤ t + 1
      omega
    · show st.time + 1 = t + 1
      omega

theorem iter_simStep (t : Nat) (st : St) (lp : Loop) (h : At (.act t) st) (ht : st.time = t) (hc : ContOK P t) :
    IterPost P t (runPhases P cf fuel sched [.simStep, .clock, .update] st lp).1
      (runPhases P cf fuel sched [.simStep, .clock, .update] st lp).2 := by
  have h1 : At (.sim t) (st.emit (.sim st.time)) := h.emit (by simp [DS.step, ht])
  refine iter_cons P cf fuel sched t _ _ st lp ?_ ?_
  · intro tt htt; simp [runPhase] at htt
  · intro _
    refine ⟨⟨_, h1⟩, ?_, fun _ => iter_clock P cf fuel sched t _ _ h1 ht hc⟩
    show st.time ≤ t + 1
    omega

theorem iter_actions (t : Nat) (st : St) (lp : Loop) (cur : Option Nat) (h : At (.beh t [] cur) st) (ht : st.time = t)
    (hc : ContOK P t) :
    IterPost P t (runPhases P cf fuel sched [.actions, .simStep, .clock, .update] st lp).1
      (runPhases P cf fuel sched [.actions, .simStep, .clock, .update] st lp).2 := by
  have h1 : At (.act t) (st.emit (.act st.time lp.acts)) := h.emit (by simp [DS.step, ht])
  refine iter_cons P cf fuel sched t _ _ st lp ?_ ?_
  · intro tt htt; simp [runPhase] at htt
  · intro _
    refine ⟨⟨_, h1⟩, ?_, fun _ => iter_simStep P cf fuel sched t _ _ h1 ht hc⟩
    show st.time ≤ t + 1
    omega

theorem iter_behaviors (t : Nat) (st : St) (lp : Loop) (s : DS) (hs : s = .mon t ∨ s = .chk t)
    (h : At s st) (ht : st.time = t) (hc : ContOK P t) :
    IterPost P t (runPhases P cf fuel sched [.behaviors, .actions, .simStep, .clock, .update] st lp).1
      (runPhases P cf fuel sched [.behaviors, .actions, .simStep, .clock, .update] st lp).2 := by
  have key : ((runPhase P cf fuel sched .behaviors st lp).1.time = t) ∧
      (∀ tt, (runPhase P cf fuel sched .behaviors st lp).2.2 = some tt → tt = .terminatedByBehavior) ∧
      ∃ rem cur, At (.beh t rem cur) (runPhase P cf fuel sched .behaviors st lp).1 ∧
        ((runPhase P cf fuel sched .behaviors st lp).2.2 = none →
         (runPhase P cf fuel sched .behaviors st lp).1.abort = none → rem = []) := by
    simp only [runPhase]
    generalize sched st.time st.agents.length = order
    have h1 : At (.beh t order none) (st.emit (.sched order)) := by
      rcases hs with rfl | rfl <;> exact h.emit (by simp [DS.step])
    have ht1 : (st.emit (.sched order)).time = t := ht
    generalize st.emit (.sched order) = st1 at h1 ht1 ⊢
    split
    · exact ⟨ht1, by simp, order, none, h1.same rfl, by simp [St.fail]⟩
    · obtain ⟨hb1, hb0, rem, cur', hb2, hb3⟩ := behLoop_at P cf fuel t order [] st1 none h1 ht1
      generalize behLoop P cf fuel order [] st1 = r at hb0 hb1 hb2 hb3 ⊢
      obtain ⟨st2, acts, res⟩ := r
      exact ⟨hb1, hb0, rem, cur', hb2, hb3⟩
  obtain ⟨k1, k0, rem, cur, k2, k3⟩ := key
  refine iter_cons P cf fuel sched t _ _ st lp ?_ ?_
  · intro tt htt
    have := k0 tt htt
    subst this
    exact ⟨k1, ⟨_, k2, rfl, rfl⟩, hc⟩
  · intro hn
    refine ⟨⟨_, k2⟩, by omega, fun hab => ?_⟩
    have := k3 hn hab
    subst this
    exact iter_actions P cf fuel sched t _ _ cur k2 k1 hc

theorem iter_maxSteps (t : Nat) (st : St) (lp : Loop) (s : DS) (hs : s = .mon t ∨ s = .chk t)
    (h : At s st) (ht : st.time = t) (hts : AllFalse P t) :
    IterPost P t (runPhases P cf fuel sched [.maxSteps, .behaviors, .actions, .simStep, .clock, .update] st lp).1
      (runPhases P cf fuel sched [.maxSteps, .behaviors, .actions, .simStep, .clock, .update] st lp).2 := by
  refine iter_cons P cf fuel sched t _ _ st lp ?_ ?_
  · intro tt htt
    simp only [runPhase] at htt
    split at htt
    · rename_i hm
      cases htt
      exact ⟨ht, ⟨s, h, by rcases hs with rfl | rfl <;> rfl, by rcases hs with rfl | rfl <;> rfl⟩,
        hts, hm.1, by rw [← ht]; exact hm.2⟩
    · cases htt
  · intro hn
    have hm : NotMax P t := by
      simp only [runPhase] at hn
      split at hn
      · cases hn
      · rename_i hm; rw [← ht]; exact hm
    refine ⟨⟨_, h⟩, ?_, fun _ => iter_behaviors P cf fuel sched t _ _ s hs h ht ⟨hts, hm⟩⟩
    show st.time ≤ t + 1
    omega

theorem evalTermSim_at (t : Nat) : ∀ (l : List Nat) (st : St) (s : DS), (s = .mon t ∨ s = .chk t) → At s st →
    ((evalTermSim P l st).2 = true → At (.fin t) (evalTermSim P l st).1 ∧ ∃ c ∈ l, P.code.cond c st.time = true) ∧
    ((evalTermSim P l st).2 = false →
      (∃ s', (s' = .mon t ∨ s' = .chk t) ∧ At s' (evalTermSim P l st).1) ∧ ∀ c ∈ l, P.code.cond c st.time = false) := by
  intro l
  induction l with
  | nil => intro st s hs h; exact ⟨by simp [evalTermSim], fun _ => ⟨⟨s, hs, h⟩, by simp⟩⟩
  | cons c rest ih =>
    intro st s hs h
    simp only [evalTermSim]
    split
    · rename_i hv
      have h1 : At (.fin t) (st.emit (.cond .termSim c (P.code.cond c st.time))) := by
        rcases hs with rfl | rfl <;> exact h.emit (by simp [DS.step, hv])
      exact ⟨fun _ => ⟨h1, c, by simp, hv⟩, by simp⟩
    · rename_i hv
      have h1 : At (.chk t) (st.emit (.cond .termSim c (P.code.cond c st.time))) := by
        rcases hs with rfl | rfl <;> exact h.emit (by simp [DS.step, hv])
      obtain ⟨d, e⟩ := ih _ _ (Or.inr rfl) h1
      refine ⟨?_, ?_⟩
      · intro hh
        obtain ⟨d1, c2, hc2, hv2⟩ := d hh
        exact ⟨d1, c2, by simp [hc2], hv2⟩
      · intro hh
        obtain ⟨e1, e2⟩ := e hh
        refine ⟨e1, ?_⟩
        intro c2 hc2
        simp only [List.mem_cons] at hc2
        rcases hc2 with rfl | hc2
        · simpa using hv
        · exact e2 c2 hc2

/-- what the walk over the scenario tree establishes: a `true` answer comes with a condition of some
    scenario class that holds now, and leaves the automaton in the terminal state `fin` -/
def TSPost (P : Prog) (t : Nat) (st : St) (r : St × Bool) : Prop :=
  (r.2 = true → At (.fin t) r.1 ∧ ∃ k, ∃ c ∈ (P.scens.getD k default).termSimWhen, P.code.cond c st.time = true) ∧
  (r.2 = false → ∃ s', (s' = .mon t ∨ s' = .chk t) ∧ At s' r.1)

theorem termSim_at (t : Nat) (n : Nat) :
    (∀ i st s, (s = .mon t ∨ s = .chk t) → At s st → TSPost P t st (termSimTree P n i st)) ∧
    (∀ l st s, (s = .mon t ∨ s = .chk t) → At s st → TSPost P t st (termSimList P n l st)) := by
  induction n with
  | zero =>
    refine ⟨fun i st s hs h => ?_, fun l st s hs h => ?_⟩
    · unfold termSimTree; exact ⟨by simp, fun _ => ⟨s, hs, h.same rfl⟩⟩
    · unfold termSimList; exact ⟨by simp, fun _ => ⟨s, hs, h.same rfl⟩⟩
  | succ n ih =>
    refine ⟨fun i st s hs h => ?_, fun l st s hs h => ?_⟩
    · simp only [termSimTree]
      obtain ⟨d, e⟩ := evalTermSim_at P t (P.scens.getD (st.inst i).cls default).termSimWhen st s hs h
      have hl := evalTermSim_logOnly P (P.scens.getD (st.inst i).cls default).termSimWhen st
      generalize evalTermSim P (P.scens.getD (st.inst i).cls default).termSimWhen st = r at d e hl ⊢
      obtain ⟨st1, b⟩ := r
      cases b with
      | true =>
        obtain ⟨d1, c, hc, hv⟩ := d rfl
        exact ⟨fun _ => ⟨d1, _, c, hc, hv⟩, by simp⟩
      | false =>
        obtain ⟨⟨s', hs', h'⟩, _⟩ := e rfl
        obtain ⟨p1, p2⟩ := ih.2 (st1.inst i).subs st1 s' hs' h'
        have ht : st1.time = st.time := hl.1.1
        refine ⟨fun hh => ?_, p2⟩
        obtain ⟨q1, q2⟩ := p1 hh
        rw [ht] at q2
        exact ⟨q1, q2⟩
    · cases l with
      | nil => simp only [termSimList]; exact ⟨by simp, fun _ => ⟨s, hs, h⟩⟩
      | cons j rest =>
        simp only [termSimList]
        split
        · obtain ⟨p1, p2⟩ := ih.1 j st s hs h
          have hl := (termSim_logOnly P n).1 j st
          generalize termSimTree P n j st = r at p1 p2 hl ⊢
          obtain ⟨st1, b⟩ := r
          cases b with
          | true => exact ⟨p1, by simp⟩
          | false =>
            obtain ⟨s', hs', h'⟩ := p2 rfl
            obtain ⟨q1, q2⟩ := ih.2 rest st1 s' hs' h'
            have ht : st1.time = st.time := hl.1.1
            refine ⟨fun hh => ?_, q2⟩
            obtain ⟨r1, r2⟩ := q1 hh
            rw [ht] at r2
            exact ⟨r1, r2⟩
        · exact ih.2 rest st s hs h

theorem iter_termSimWhen (t : Nat) (st : St) (lp : Loop) (h : At (.mon t) st) (ht : st.time = t) :
    IterPost P t (runPhases P cf fuel sched [.termSimWhen, .maxSteps, .behaviors, .actions, .simStep, .clock, .update] st lp).1
      (runPhases P cf fuel sched [.termSimWhen, .maxSteps, .behaviors, .actions, .simStep, .clock, .update] st lp).2 := by
  have key : (runPhase P cf fuel sched .termSimWhen st lp).1.time = t ∧
      (∀ tt, (runPhase P cf fuel sched .termSimWhen st lp).2.2 = some tt →
        tt = .simulationTerminationCondition ∧ At (.fin t) (runPhase P cf fuel sched .termSimWhen st lp).1 ∧
        ∃ k, ∃ c ∈ (P.scens.getD k default).termSimWhen, P.code.cond c t = true) ∧
      ((runPhase P cf fuel sched .termSimWhen st lp).2.2 = none →
        (∃ s', (s' = .mon t ∨ s' = .chk t) ∧ At s' (runPhase P cf fuel sched .termSimWhen st lp).1) ∧ AllFalse P t) := by
    simp only [runPhase]
    have hl := termSimTop_logOnly P fuel st
    unfold termSimTop at hl ⊢
    obtain ⟨d, e⟩ := evalTermSim_at P t P.termSimWhen st (.mon t) (Or.inl rfl) h
    have hl0 := evalTermSim_logOnly P P.termSimWhen st
    generalize evalTermSim P P.termSimWhen st = r at d e hl hl0 ⊢
    obtain ⟨st1, b⟩ := r
    cases b with
    | true =>
      obtain ⟨d1, c, hc, hv⟩ := d rfl
      simp only at hl ⊢
      exact ⟨hl.1.1.trans ht, fun tt htt => by cases htt; exact ⟨rfl, d1, 0, c, hc, by rw [← ht]; exact hv⟩, by simp⟩
    | false =>
      obtain ⟨⟨s', hs', h'⟩, e2⟩ := e rfl
      simp only at hl ⊢
      obtain ⟨p1, p2⟩ := (termSim_at P t fuel).2 (st1.inst 0).subs st1 s' hs' h'
      have ht1 : st1.time = t := hl0.1.1.trans ht
      generalize termSimList P fuel (st1.inst 0).subs st1 = r2 at p1 p2 hl ⊢
      obtain ⟨st2, b2⟩ := r2
      cases b2 with
      | true =>
        obtain ⟨q1, k, c, hc, hv⟩ := p1 rfl
        exact ⟨hl.1.1.trans ht, fun tt htt => by cases htt; exact ⟨rfl, q1, k, c, hc, by rw [← ht1]; exact hv⟩, by simp⟩
      | false =>
        refine ⟨hl.1.1.trans ht, by simp, fun _ => ⟨p2 rfl, ?_⟩⟩
        unfold AllFalse
        rw [← ht]
        exact e2
  obtain ⟨k1, k4, k5⟩ := key
  refine iter_cons P cf fuel sched t _ _ st lp ?_ ?_
  · intro tt htt
    obtain ⟨rfl, hf, hc⟩ := k4 tt htt
    exact ⟨k1, ⟨_, hf, rfl, rfl⟩, hc⟩
  · intro hn
    obtain ⟨⟨s', hs', k3⟩, haf⟩ := k5 hn
    exact ⟨⟨_, k3⟩, by omega, fun _ => iter_maxSteps P cf fuel sched t _ _ s' hs' k3 k1 haf⟩

theorem iter_retPending (t : Nat) (st : St) (lp : Loop) (h : At (.mon t) st) (ht : st.time = t)
    (hp : ∀ tt, lp.pending = some tt → tt = .scenarioComplete ∨ tt = .terminatedByMonitor) :
    IterPost P t (runPhases P cf fuel sched [.retPending, .termSimWhen, .maxSteps, .behaviors, .actions, .simStep, .clock, .update] st lp).1
      (runPhases P cf fuel sched [.retPending, .termSimWhen, .maxSteps, .behaviors, .actions, .simStep, .clock, .update] st lp).2 := by
  refine iter_cons P cf fuel sched t _ _ st lp ?_ ?_
  · intro tt htt
    refine ⟨ht, ⟨_, h, rfl, rfl⟩, ?_⟩
    rcases hp tt htt with rfl | rfl <;> trivial
  · intro _
    refine ⟨⟨_, h⟩, ?_, fun _ => iter_termSimWhen P cf fuel sched t _ _ h ht⟩
    show st.time ≤ t + 1
    omega

theorem iter_monitors (t : Nat) (st : St) (lp : Loop) (h : At (.mon t) st) (ht : st.time = t)
    (hp : ∀ tt, lp.pending = some tt → tt = .scenarioComplete ∨ tt = .terminatedByMonitor) :
    IterPost P t (runPhases P cf fuel sched [.monitors, .retPending, .termSimWhen, .maxSteps, .behaviors, .actions, .simStep, .clock, .update] st lp).1
      (runPhases P cf fuel sched [.monitors, .retPending, .termSimWhen, .maxSteps, .behaviors, .actions, .simStep, .clock, .update] st lp).2 := by
  have key : (runPhase P cf fuel sched .monitors st lp).1.time = t ∧
      (runPhase P cf fuel sched .monitors st lp).2.2 = none ∧
      At (.mon t) (runPhase P cf fuel sched .monitors st lp).1 ∧
      (∀ tt, (runPhase P cf fuel sched .monitors st lp).2.1.pending = some tt →
        tt = .scenarioComplete ∨ tt = .terminatedByMonitor) := by
    simp only [runPhase]
    have h0 := (mon_ext P cf fuel).1 0 st
    generalize runMonitors P cf fuel 0 st = r at h0 ⊢
    obtain ⟨st1, mr⟩ := r
    refine ⟨h0.1.trans ht, trivial, h.ext h0 (mon_stay t), ?_⟩
    intro tt
    split
    · exact hp tt
    · intro hh; cases hh; exact Or.inr rfl
  obtain ⟨k1, k2, k3, k4⟩ := key
  refine iter_cons P cf fuel sched t _ _ st lp ?_ ?_
  · intro tt htt; rw [k2] at htt; cases htt
  · intro _
    exact ⟨⟨_, k3⟩, by omega, fun _ => iter_retPending P cf fuel sched t _ _ k3 k1 k4⟩

def Ev.isRecInit : Ev → Bool | .recInit => true | _ => false
def Ev.isRecd : Ev → Bool | .recd _ => true | _ => false
def Ev.isRecFinal : Ev → Bool | .recFinal => true | _ => false

theorem recInit_run (s : DS) (hs : s = .scen 0 ∨ s = .rini 0) : ∀ (l : List Ev), (∀ e ∈ l, e.isRecInit = true) →
    ∃ s', (s' = .scen 0 ∨ s' = .rini 0) ∧ s.run l = some s' := by
  intro l
  induction l generalizing s with
  | nil => intro _; exact ⟨s, hs, rfl⟩
  | cons e rest ih =>
    intro hl
    have he := hl e (by simp)
    cases e <;> simp [Ev.isRecInit] at he
    have h1 : s.step .recInit = some (.rini 0) := by rcases hs with rfl | rfl <;> simp [DS.step]
    obtain ⟨s', hs', hr⟩ := ih (.rini 0) (Or.inr rfl) (fun e he => hl e (by simp [he]))
    exact ⟨s', hs', by simp [DS.run, h1, hr]⟩

theorem recd_run (t : Nat) (s : DS) (hs : s = .scen t ∨ s = .rini t ∨ s = .recs t) : ∀ (l : List Ev),
    (∀ e ∈ l, e.isRecd = true) → ∃ s', (s' = .scen t ∨ s' = .rini t ∨ s' = .recs t) ∧ s.run l = some s' := by
  intro l
  induction l generalizing s with
  | nil => intro _; exact ⟨s, hs, rfl⟩
  | cons e rest ih =>
    intro hl
    have he := hl e (by simp)
    cases e <;> simp [Ev.isRecd] at he
    rename_i k
    have h1 : s.step (.recd k) = some (.recs t) := by rcases hs with rfl | rfl | rfl <;> simp [DS.step]
    obtain ⟨s', hs', hr⟩ := ih (.recs t) (Or.inr (Or.inr rfl)) (fun e he => hl e (by simp [he]))
    exact ⟨s', hs', by simp [DS.run, h1, hr]⟩

theorem recordState_at (t : Nat) (st : St) (h : At (.scen t) st) (ht : st.time = t) :
    At (.mon t) (recordState P fuel st) ∧ (recordState P fuel st).time = t := by
  unfold recordState
  simp only
  -- record initial
  have h1 : ∃ s1, (s1 = .scen t ∨ s1 = .rini t ∨ s1 = .recs t) ∧
      At s1 (if st.time = 0 then recTree P recInitEvs fuel 0 st else st) ∧
      (if st.time = 0 then recTree P recInitEvs fuel 0 st else st).time = t := by
    split
    · rename_i h0
      have ht0 : t = 0 := by omega
      subst ht0
      obtain ⟨⟨hti, l, hl, hC⟩, _⟩ := (rec_logOnly P recInitEvs Ev.isRecInit (by
        intro c e he; unfold recInitEvs at he; split at he <;> simp_all [Ev.isRecInit]) fuel).1 0 st
      obtain ⟨s', hs', hr⟩ := recInit_run (.scen 0) (Or.inl rfl) l hC
      refine ⟨s', ?_, h.grows hl hr, hti.trans h0⟩
      rcases hs' with rfl | rfl <;> simp
    · exact ⟨_, Or.inl rfl, h, ht⟩
  obtain ⟨s1, hs1, a1, t1⟩ := h1
  generalize (if st.time = 0 then recTree P recInitEvs fuel 0 st else st) = st1 at a1 t1 ⊢
  -- record
  obtain ⟨⟨hti, l, hl, hC⟩, _⟩ := (rec_logOnly P recEvs Ev.isRecd (by
    intro c e he; unfold recEvs at he; simp only [List.mem_map] at he; obtain ⟨k, _, rfl⟩ := he; rfl) fuel).1 0 st1
  obtain ⟨s2, hs2, hr⟩ := recd_run t s1 hs1 l hC
  have a2 : At s2 (recTree P recEvs fuel 0 st1) := a1.grows hl hr
  have t2 : (recTree P recEvs fuel 0 st1).time = t := hti.trans t1
  generalize recTree P recEvs fuel 0 st1 = st2 at a2 t2 ⊢
  refine ⟨a2.emit ?_, t2⟩
  rcases hs2 with rfl | rfl | rfl <;> simp [DS.step, t2]

theorem iter_record (t : Nat) (st : St) (lp : Loop) (h : At (.scen t) st) (ht : st.time = t)
    (hp : ∀ tt, lp.pending = some tt → tt = .scenarioComplete ∨ tt = .terminatedByMonitor) :
    IterPost P t (runPhases P cf fuel sched [.record, .monitors, .retPending, .termSimWhen, .maxSteps, .behaviors, .actions, .simStep, .clock, .update] st lp).1
      (runPhases P cf fuel sched [.record, .monitors, .retPending, .termSimWhen, .maxSteps, .behaviors, .actions, .simStep, .clock, .update] st lp).2 := by
  obtain ⟨h1, t1⟩ := recordState_at P fuel t st h ht
  refine iter_cons P cf fuel sched t _ _ st lp ?_ ?_
  · intro tt htt; simp [runPhase] at htt
  · intro _
    exact ⟨⟨_, h1⟩, by show (recordState P fuel st).time ≤ t + 1; omega,
      fun _ => iter_monitors P cf fuel sched t _ _ h1 t1 hp⟩

theorem iter_scen (t : Nat) (st : St) (lp : Loop) (h : At (.scen t) st) (ht : st.time = t)
    (hp : ∀ tt, lp.pending = some tt → tt = .scenarioComplete ∨ tt = .terminatedByMonitor) :
    IterPost P t (runPhases P cf fuel sched Phase.documented st lp).1
      (runPhases P cf fuel sched Phase.documented st lp).2 := by
  have key : (runPhase P cf fuel sched .scen st lp).1.time = t ∧
      (runPhase P cf fuel sched .scen st lp).2.2 = none ∧
      At (.scen t) (runPhase P cf fuel sched .scen st lp).1 ∧
      (∀ tt, (runPhase P cf fuel sched .scen st lp).2.1.pending = some tt →
        tt = .scenarioComplete ∨ tt = .terminatedByMonitor) := by
    simp only [runPhase]
    have h0 := (scen_ext P cf fuel).1 0 st
    generalize stepScen P cf fuel 0 st = r at h0 ⊢
    obtain ⟨st1, ret⟩ := r
    have h1 : At (.scen t) st1 := h.ext h0 (scen_stay t)
    cases ret with
    | abort =>
      simp only
      refine ⟨?_, trivial, ?_, hp⟩
      · split
        · exact h0.1.trans ht
        · exact h0.1.trans ht
      · split
        · exact h1
        · exact h1.same rfl
    | cont => exact ⟨h0.1.trans ht, rfl, h1, by simp⟩
    | stopped => exact ⟨h0.1.trans ht, rfl, h1, fun tt hh => by cases hh; exact Or.inl rfl⟩
    | endSim => exact ⟨h0.1.trans ht, rfl, h1, fun tt hh => by cases hh; exact Or.inl rfl⟩
  obtain ⟨k1, k2, k3, k4⟩ := key
  unfold Phase.documented
  refine iter_cons P cf fuel sched t _ _ st lp ?_ ?_
  · intro tt htt; rw [k2] at htt; cases htt
  · intro _
    exact ⟨⟨_, k3⟩, by omega, fun _ => iter_record P cf fuel sched t _ _ k3 k1 k4⟩

theorem runLoop_at (hS : S.order = Phase.documented) : ∀ (n : Nat) (st : St), At (.scen st.time) st →
    (∀ t' < st.time, ContOK P t') →
    (∀ tt, (runLoop P S cf fuel sched n st).2 = some tt →
      (∃ s, At s (runLoop P S cf fuel sched n st).1 ∧ s.final1 = true ∧ s.time = (runLoop P S cf fuel sched n st).1.time) ∧
      TermOK P (runLoop P S cf fuel sched n st).1.time tt ∧
      ∀ t' < (runLoop P S cf fuel sched n st).1.time, ContOK P t') ∧
    ((runLoop P S cf fuel sched n st).2 = none →
      (runLoop P S cf fuel sched n st).1.abort.isSome = true ∧ ∃ s, At s (runLoop P S cf fuel sched n st).1) := by
  intro n
  induction n with
  | zero => intro st h _; simp only [runLoop]; exact ⟨by simp, fun _ => ⟨by simp [St.fail], _, h.same rfl⟩⟩
  | succ n ih =>
    intro st h hist
    simp only [runLoop, hS]
    have hp := iter_scen P cf fuel sched st.time st {} h rfl (by simp)
    generalize runPhases P cf fuel sched Phase.documented st {} = r at hp ⊢
    obtain ⟨st1, res⟩ := r
    cases res with
    | some tt =>
      obtain ⟨e1, ⟨s, e2, e3, e4⟩, e5⟩ := hp
      refine ⟨fun tt' htt' => ?_, by simp⟩
      cases htt'
      have e1' : st1.time = st.time := e1
      show (∃ s, At s st1 ∧ s.final1 = true ∧ s.time = st1.time) ∧ TermOK P st1.time tt ∧ ∀ t' < st1.time, ContOK P t'
      rw [e1']
      exact ⟨⟨s, e2, e3, e4⟩, e5, hist⟩
    | none =>
      obtain ⟨e1, e2, e3⟩ := hp
      simp only
      split
      · rename_i hab; exact ⟨by simp, fun _ => ⟨hab, e2⟩⟩
      · rename_i hab
        obtain ⟨e4, e5, e6⟩ := e1 (by simpa using hab)
        refine ih st1 (by rw [e4]; exact e5) ?_
        intro t' ht'
        rw [e4] at ht'
        by_cases hlt : t' < st.time
        · exact hist t' hlt
        · have : t' = st.time := by omega
          subst this; exact e6

def Ev.isCreate : Ev → Bool
  | .create _ => true
  | _ => false

theorem startOne_creates (k : Nat) (st : St) : Ext Ev.isCreate st (startOne P k st) :=
  startOne_ext' _ (by simp [Ev.isCreate]) P k st

theorem initSt_at : At (.scen 0) (initSt P) ∧ (initSt P).time = 0 := by
  unfold initSt
  have h0 := startOne_creates P 0 { time := 0, insts := [], agents := [], log := [], abort := none }
  have h1 : At .start (startOne P 0 { time := 0, insts := [], agents := [], log := [], abort := none }) := by
    refine At.ext (s := .start) (by simp [At, DS.run]) h0 ?_
    intro e he; cases e <;> simp_all [Ev.isCreate, DS.step]
  exact ⟨h1.emit (by simp [DS.step]), h0.1⟩

theorem final1_stops (s : DS) (hs : s.final1 = true) : ∀ (l : List Ev), (∀ e ∈ l, e.isStop = true) →
    ∃ s', s.run l = some s' ∧ s'.final1 = true ∧ s'.time = s.time := by
  intro l
  induction l generalizing s with
  | nil => intro _; exact ⟨s, rfl, hs, rfl⟩
  | cons e rest ih =>
    intro hl
    have he := hl e (by simp)
    have : ∃ s1, s.step e = some s1 ∧ s1.final1 = true ∧ s1.time = s.time := by
      cases e <;> simp [Ev.isStop] at he
      cases s <;> simp [DS.final1] at hs <;> simp [DS.step, DS.final1, DS.time, Ev.isMon]
    obtain ⟨s1, e1, e2, e3⟩ := this
    obtain ⟨s', f1, f2, f3⟩ := ih s1 e2 (fun e he => hl e (by simp [he]))
    exact ⟨s', by simp [DS.run, e1, f1], f2, f3.trans e3⟩

theorem stopAll_ext : ∀ (l : List Nat) (st : St), Ext Ev.isStop st (stopAll fuel l st) := by
  intro l
  induction l with
  | nil => intro st; exact Ext.refl _ _
  | cons i rest ih =>
    intro st
    simp only [stopAll]
    have h0 : Ext Ev.isStop st (if (st.inst i).running = true then stopScen fuel i st else st) := by
      split
      · exact (stop_ext fuel).1 i st
      · exact Ext.refl _ _
    generalize (if (st.inst i).running = true then stopScen fuel i st else st) = st1 at h0 ⊢
    split
    · exact h0
    · exact h0.trans (ih st1)

theorem final_recFinals (s : DS) (hs : s.final = true) : ∀ (l : List Ev), (∀ e ∈ l, e.isRecFinal = true) →
    ∃ s', s.run l = some s' ∧ s'.final = true ∧ s'.time = s.time := by
  intro l
  induction l generalizing s with
  | nil => intro _; exact ⟨s, rfl, hs, rfl⟩
  | cons e rest ih =>
    intro hl
    have he := hl e (by simp)
    cases e <;> simp [Ev.isRecFinal] at he
    have h1 : s.step .recFinal = some (.fin2 s.time) := by
      cases s <;> simp [DS.final] at hs <;> simp [DS.step, DS.time]
    obtain ⟨s', f1, f2, f3⟩ := ih (.fin2 s.time) rfl (fun e he => hl e (by simp [he]))
    exact ⟨s', by simp [DS.run, h1, f1], f2, by simpa [DS.time] using f3⟩

theorem finish_at (st : St) (s : DS) (h : At s st) (hs : s.final1 = true) :
    (finish P fuel st).time = st.time ∧
    ∃ s', At s' (finish P fuel st) ∧ s'.final = true ∧ s'.time = s.time := by
  unfold finish
  simp only
  have h0 := stopAll_ext fuel (List.range st.insts.length).reverse st
  generalize stopAll fuel (List.range st.insts.length).reverse st = st1 at h0 ⊢
  obtain ⟨ht, l, hl, hC⟩ := h0
  obtain ⟨s1, e1, e2, e3⟩ := final1_stops s hs l hC
  have h1 : At s1 st1 := h.grows hl e1
  have hf : s1.final = true := by cases s1 <;> simp_all [DS.final1, DS.final]
  split
  · exact ⟨ht, s1, h1, hf, e3⟩
  · obtain ⟨⟨hti, l2, hl2, hC2⟩, _⟩ := (rec_logOnly P recFinalEvs Ev.isRecFinal (by
      intro c e he; unfold recFinalEvs at he; split at he <;> simp_all [Ev.isRecFinal]) fuel).1 0 st1
    obtain ⟨s2, f1, f2, f3⟩ := final_recFinals s1 hf l2 hC2
    exact ⟨hti.trans ht, s2, h1.grows hl2 f1, f2, f3.trans e3⟩

/-- The event log of every run of the model (documented phase order) is read by the order
    automaton without getting stuck; a run that terminated ends in a final state whose clock
    is the simulation's final clock; and the termination checks of step 4 fired at exactly the
    first clock value at which they apply. -/
theorem simulate_order (hS : S.order = Phase.documented) :
    ∃ s, DS.start.run (simulate P S cf fuel sched).log = some s ∧
      (∀ tt, (simulate P S cf fuel sched).term = some tt → s.final = true ∧ s.time = (simulate P S cf fuel sched).time ∧
        TermOK P (simulate P S cf fuel sched).time tt ∧ ∀ t' < (simulate P S cf fuel sched).time, ContOK P t') := by
  unfold simulate
  obtain ⟨i1, i2⟩ := initSt_at P
  obtain ⟨l1, l2⟩ := runLoop_at P S cf fuel sched hS (P.maxSteps + 1) (initSt P) (by rw [i2]; exact i1)
    (by rw [i2]; intro t' ht'; omega)
  generalize runLoop P S cf fuel sched (P.maxSteps + 1) (initSt P) = r at l1 l2 ⊢
  obtain ⟨st, res⟩ := r
  cases res with
  | none =>
    obtain ⟨_, s, hs⟩ := l2 rfl
    exact ⟨s, hs, by simp⟩
  | some tt =>
    obtain ⟨⟨s, e1, e2, e3⟩, e4, e5⟩ := l1 tt rfl
    obtain ⟨f1, s', f2, f3, f4⟩ := finish_at P fuel st s e1 e2
    refine ⟨s', f2, fun tt' htt' => ?_⟩
    simp only at htt' ⊢
    split at htt'
    · cases htt'
    · cases htt'
      rw [f1]
      exact ⟨f3, by rw [f4, e3], e4, e5⟩

end

/-! ### counting trajectory entries and action-log entries with the automaton -/

/-- trajectory entries seen when the automaton is in a state -/
def DS.trajs : DS → Nat
  | .start => 0
  | .scen t | .rini t | .recs t => t
  | .mon t | .chk t | .beh t _ _ | .act t | .sim t | .fin t | .fin2 t => t + 1

/-- `executeActions` calls seen when the automaton is in a state -/
def DS.actsN : DS → Nat
  | .start => 0
  | .scen t | .rini t | .recs t | .mon t | .chk t | .beh t _ _ | .fin t | .fin2 t => t
  | .act t | .sim t => t + 1

/-- simulator steps seen when the automaton is in a state -/
def DS.sims : DS → Nat
  | .start => 0
  | .scen t | .rini t | .recs t | .mon t | .chk t | .beh t _ _ | .fin t | .fin2 t | .act t => t
  | .sim t => t + 1

theorem DS.step_counts (s s' : DS) (e : Ev) (h : s.step e = some s') :
    s'.trajs = s.trajs + (if e.isTraj then 1 else 0) ∧ s'.actsN = s.actsN + (if e.isAct then 1 else 0) ∧
    s'.sims = s.sims + (if e.isSim then 1 else 0) := by
  unfold DS.step at h
  split at h
  all_goals try (cases h; simp [DS.trajs, DS.actsN, DS.sims, Ev.isTraj, Ev.isAct, Ev.isSim]; done)
  all_goals try (cases h; done)
  all_goals try (split at h <;> first
        | (cases h; simp_all [DS.trajs, DS.actsN, DS.sims, Ev.isTraj, Ev.isAct, Ev.isSim]; done)
        | (cases h; done)
        | (split at h <;> first
            | (cases h; simp_all [DS.trajs, DS.actsN, DS.sims, Ev.isTraj, Ev.isAct, Ev.isSim]; done)
            | (cases h; done)))
  all_goals
    (split at h
     · cases h
       cases e <;> simp_all [DS.trajs, DS.actsN, DS.sims, Ev.isTraj, Ev.isAct, Ev.isSim, Ev.isScen, Ev.isMon]
     · cases h)

theorem DS.run_counts : ∀ (l : List Ev) (s s' : DS), s.run l = some s' →
    s'.trajs = s.trajs + (l.filter Ev.isTraj).length ∧ s'.actsN = s.actsN + (l.filter Ev.isAct).length ∧
    s'.sims = s.sims + (l.filter Ev.isSim).length := by
  intro l
  induction l with
  | nil => intro s s' h; simp [DS.run] at h; subst h; simp
  | cons e rest ih =>
    intro s s' h
    simp only [DS.run] at h
    cases hs : s.step e with
    | none => simp [hs] at h
    | some s1 =>
      simp only [hs] at h
      obtain ⟨a1, a2, a3⟩ := DS.step_counts s s1 e hs
      obtain ⟨b1, b2, b3⟩ := ih s1 s' h
      simp only [List.filter_cons]
      refine ⟨?_, ?_, ?_⟩
      · rw [b1, a1]; split <;> simp <;> omega
      · rw [b2, a2]; split <;> simp <;> omega
      · rw [b3, a3]; split <;> simp <;> omega

end Scenic.SimLoop
