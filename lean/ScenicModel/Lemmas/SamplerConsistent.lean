import ScenicModel.Lemmas.SamplerOrder

/-!
Every reference sees the one draw: in each environment produced by the sampler, the value recorded for a node is a
possible outcome of that node's `sampleGiven` evaluated on the *final* values of its dependencies.
-/
namespace Scenic.Sampler
open Dist

theorem Env.get_cons_ne (env : Env) (i k : Nat) (v : Val) (h : k ≠ i) : Env.get ((i, v) :: env) k = Env.get env k := by
  unfold Env.get
  have : (k == i) = false := beq_false_of_ne h
  simp [List.lookup, this]

theorem Env.get_cons_self (env : Env) (i : Nat) (v : Val) : Env.get ((i, v) :: env) i = v := by
  unfold Env.get
  simp [List.lookup]

theorem Env.get_append_of_not_mem (pre env : Env) (k : Nat) (h : k ∉ pre.keys) :
    Env.get (pre ++ env) k = Env.get env k := by
  induction pre with
  | nil => rfl
  | cons x xs ih =>
    rcases x with ⟨i, v⟩
    have hk : k ≠ i := by
      intro e; apply h; simp [Env.keys, e]
    have hx : k ∉ Env.keys xs := by
      intro e; apply h; simp only [Env.keys, List.map_cons, List.mem_cons]; right; exact e
    rw [List.cons_append, Env.get_cons_ne _ _ _ _ hk, ih hx]

theorem argVals_congr (env env' : Env) (args : List (Bool × Nat))
    (h : ∀ a ∈ args, env.get a.2 = env'.get a.2) : argVals env args = argVals env' args := by
  unfold argVals
  induction args with
  | nil => rfl
  | cons a as ih =>
    simp only [List.flatMap_cons]
    rw [h a List.mem_cons_self, ih (fun b hb => h b (List.mem_cons_of_mem _ hb))]

/-- `sampleGiven` reads the environment only at the node's dependencies -/
theorem draw_congr (cfg : Cfg) (nd : Node) (env env' : Env) (h : ∀ j ∈ nd.deps, env.get j = env'.get j) :
    draw cfg nd env = draw cfg nd env' := by
  cases nd with
  | const v => rfl
  | drange lo hi =>
    simp only [draw]
    rw [h lo (by simp [Node.deps]), h hi (by simp [Node.deps])]
  | selector n => rfl
  | dynSelector len =>
    simp only [draw]
    rw [h len (by simp [Node.deps])]
  | windex ws => rfl
  | mux idx opts =>
    simp only [draw]
    rw [h idx (by simp [Node.deps])]
    cases hq : env'.get idx with
    | num q =>
      simp only []
      by_cases hc : (Val.isInt q = true ∧ 0 ≤ q.num ∧ q.num < (opts.length : Int))
      · rw [if_pos hc, if_pos hc]
        have hlt : q.num.toNat < opts.length := by omega
        have hm : opts.getD q.num.toNat 0 ∈ opts := by
          rw [List.getD_eq_getElem?_getD, List.getElem?_eq_getElem hlt]; exact List.getElem_mem hlt
        rw [h _ (by simp only [Node.deps, List.mem_cons]; right; exact hm)]
      · rw [if_neg hc, if_neg hc]
    | _ => rfl
  | ustar sel opts =>
    simp only [draw]
    rw [h sel (by simp [Node.deps])]
    have : argVals env opts = argVals env' opts := by
      apply argVals_congr
      intro a ha
      apply h
      simp only [Node.deps, List.mem_append, List.mem_map]
      left; exact ⟨a, ha, rfl⟩
    rw [this]
  | op f args =>
    simp only [draw]
    have : argVals env args = argVals env' args := by
      apply argVals_congr
      intro a ha
      apply h
      simp only [Node.deps, List.mem_map]
      exact ⟨a, ha, rfl⟩
    rw [this]

theorem step_support' {cfg : Cfg} {P : Prog} {i : Nat} {env a : Env} {w : Rat}
    (h : (some a, w) ∈ step cfg P i env) :
    ∃ nd v u, P.nodes[i]? = some nd ∧ (some v, u) ∈ draw cfg nd env ∧ a = (i, v) :: env := by
  unfold step at h
  cases hn : P.nodes[i]? with
  | none => simp [hn, Dist.pure] at h
  | some nd =>
    simp only [hn] at h
    obtain ⟨x, hx, z, hz, e⟩ := mem_bind h
    rcases x with ⟨o, v⟩
    cases o with
    | none =>
      simp only [Dist.pure, List.mem_singleton] at hz
      subst hz; simp at e
    | some val =>
      simp only [Dist.pure, List.mem_singleton] at hz
      subst hz
      simp only [Option.some.injEq] at e
      exact ⟨nd, val, v, rfl, hx, e⟩

/-- the environments produced extend the initial one by exactly the listed identities -/
theorem seqAlong_extends (cfg : Cfg) (P : Prog) :
    ∀ (xs : List Nat) (env env' : Env) (w : Rat), (some env', w) ∈ seqAlong cfg P xs env →
      ∃ pre : Env, env' = pre ++ env ∧ pre.keys = xs.reverse := by
  intro xs
  induction xs with
  | nil =>
    intro env env' w h
    simp only [seqAlong_nil, Dist.pure, List.mem_singleton, Prod.mk.injEq, Option.some.injEq] at h
    exact ⟨[], by simp [h.1], rfl⟩
  | cons i is ih =>
    intro env env' w h
    rw [seqAlong_cons] at h
    obtain ⟨a, v, ha, u, hu⟩ := mem_bindO h
    obtain ⟨val, rfl⟩ := step_support ha
    obtain ⟨pre, rfl, hk⟩ := ih _ _ _ hu
    refine ⟨pre ++ [(i, val)], by simp, ?_⟩
    simp [Env.keys] at hk ⊢
    exact hk

/-- **every reference sees the one draw.**  Along a duplicate-free, dependency-closed order, in every environment the
    sampler can produce, the value of each node is a possible outcome of its `sampleGiven` on the final environment:
    deterministic nodes equal their function of the final values of their dependencies, random nodes lie in the
    support determined by the final values of their parameters. -/
theorem seqAlong_consistent (cfg : Cfg) (P : Prog) :
    ∀ (xs : List Nat) (env env' : Env) (w : Rat), (some env', w) ∈ seqAlong cfg P xs env →
      xs.Nodup → (∀ x ∈ xs, x ∉ env.keys) → Closed P xs env.keys →
      ∀ x ∈ xs, ∀ nd, P.nodes[x]? = some nd → ∃ u, (some (env'.get x), u) ∈ draw cfg nd env' := by
  intro xs
  induction xs with
  | nil => intro env env' w _ _ _ _ x hx; cases hx
  | cons i is ih =>
    intro env env' w h hnd hfresh hcl x hx nd hn
    rw [seqAlong_cons] at h
    obtain ⟨a, v, ha, u, hu⟩ := mem_bindO h
    obtain ⟨nd0, val, u0, hn0, hdraw, rfl⟩ := step_support' ha
    have hnd' := List.nodup_cons.mp hnd
    have hcl' : (∀ nd, P.nodes[i]? = some nd → ∀ j ∈ nd.deps, j ∈ env.keys) ∧ Closed P is (i :: env.keys) := hcl
    rcases List.mem_cons.mp hx with rfl | hx
    · -- the node drawn first: later draws have other identities, so its value and its dependencies' values persist
      obtain ⟨pre, rfl, hk⟩ := seqAlong_extends cfg P is _ _ _ hu
      rw [hn0] at hn; cases hn
      have hxpre : x ∉ pre.keys := by rw [hk, List.mem_reverse]; exact hnd'.1
      have hval : Env.get (pre ++ (x, val) :: env) x = val := by
        rw [Env.get_append_of_not_mem _ _ _ hxpre, Env.get_cons_self]
      rw [hval]
      have hcongr : draw cfg nd (pre ++ (x, val) :: env) = draw cfg nd env := by
        apply draw_congr
        intro j hj
        have hjenv : j ∈ env.keys := hcl'.1 nd hn0 j hj
        have hjx : j ≠ x := by
          intro e; subst e; exact hfresh j List.mem_cons_self hjenv
        have hjpre : j ∉ pre.keys := by
          rw [hk, List.mem_reverse]
          intro hji
          exact hfresh j (List.mem_cons_of_mem _ hji) hjenv
        rw [Env.get_append_of_not_mem _ _ _ hjpre, Env.get_cons_ne _ _ _ _ hjx]
      rw [hcongr]
      exact ⟨u0, hdraw⟩
    · apply ih _ _ _ hu hnd'.2 _ hcl'.2 x hx nd hn
      intro y hy hmem
      simp only [Env.keys, List.map_cons, List.mem_cons] at hmem
      rcases hmem with rfl | hmem
      · exact hnd'.1 hy
      · exact hfresh y (List.mem_cons_of_mem _ hy) hmem

/-! ## the checker -/

theorem checkSeq_eq_all (env : Env) (rs : List (Env → Bool)) : checkSeq env rs = rs.all (fun r => r env) := by
  induction rs with
  | nil => rfl
  | cons r rs ih =>
    simp only [checkSeq, List.all_cons, ih]
    cases r env <;> simp

/-- the order in which the checker evaluates the active requirements does not matter -/
theorem check_perm (env : Env) (rs rs' : List (Env → Bool)) (h : rs.Perm rs') : checkSeq env rs = checkSeq env rs' := by
  rw [checkSeq_eq_all, checkSeq_eq_all]
  exact h.all_eq

end Scenic.Sampler
