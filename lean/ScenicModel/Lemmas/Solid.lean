import Mathlib.Topology.MetricSpace.Basic
import Mathlib.Analysis.Normed.Module.Basic
import Mathlib.Analysis.Convex.Hull
import Mathlib.Analysis.Normed.Module.Convex
import Mathlib.Tactic.Linarith
import Mathlib.Tactic.Ring
import Mathlib.Tactic.FieldSimp
import Mathlib.Tactic.Positivity

/-!
# Metric / convexity lemmas behind the shortcut passes (property C04)

Each lemma is the geometric fact that makes one *exit* of the decision procedures of
`Model/Solid.lean` sound.  Stated in a general (pseudo)metric space where possible, in a real normed
space where a point of a segment is needed.
-/
namespace Scenic.SolidLemmas
open Metric Set

section MetricSpace
variable {X : Type*} [PseudoMetricSpace X]

/-- PASS 1 / PASS 2A of `intersects`: bounding spheres further apart than the sum of the radii ⇒ disjoint -/
theorem spheres_apart_disjoint {A B : Set X} {a b : X} {ra rb : ℝ}
    (hA : A ⊆ closedBall a ra) (hB : B ⊆ closedBall b rb) (h : ra + rb < dist a b) :
    Disjoint A B := by
  rw [Set.disjoint_left]
  intro x hxA hxB
  have h1 := mem_closedBall.1 (hA hxA)
  have h2 := mem_closedBall.1 (hB hxB)
  have h3 := dist_triangle a x b
  rw [dist_comm a x] at h3
  linarith

/-- PASS 3 of `containsObject`: the object lies in a closed ball around a point of the container whose
    open ball of a larger radius is inside the container -/
theorem ball_chain_subset {A B : Set X} {c : X} {rc rd : ℝ}
    (hB : B ⊆ closedBall c rc) (hA : ball c rd ⊆ A) (h : rc < rd) : B ⊆ A :=
  fun _ hx => hA (mem_ball.2 (lt_of_le_of_lt (mem_closedBall.1 (hB hx)) h))

omit [PseudoMetricSpace X] in
/-- PASS 3 (first half): a point of the object outside the container -/
theorem point_outside_not_subset {A B : Set X} {x : X} (hx : x ∈ B) (hxa : x ∉ A) : ¬ B ⊆ A :=
  fun h => hxa (h hx)

/-- PASS 4 of `containsObject`: a point of the object further from a centre than the container's
    circumradius about that centre -/
theorem far_point_not_subset {A B : Set X} {r v : X} {R : ℝ}
    (hA : A ⊆ closedBall r R) (hv : v ∈ B) (h : R < dist v r) : ¬ B ⊆ A := by
  intro hBA
  have := mem_closedBall.1 (hA (hBA hv))
  linarith

omit [PseudoMetricSpace X] in
/-- PASS 1 of `containsObject`: disjoint from the container and non-empty ⇒ not contained -/
theorem disjoint_not_subset {A B : Set X} (hB : B.Nonempty) (hd : Disjoint A B) : ¬ B ⊆ A := by
  intro h
  obtain ⟨x, hx⟩ := hB
  exact (Set.disjoint_left.1 hd) (h hx) hx

/-- contract `bbox`: solids whose images under a coordinate function lie in separated intervals are disjoint
    (axis-aligned bounding boxes that fail to overlap in one dimension) -/
theorem coordinate_separation_disjoint {Y : Type*} {A B : Set Y} (f : Y → ℝ) {a2 b1 : ℝ}
    (hA : ∀ x ∈ A, f x ≤ a2) (hB : ∀ x ∈ B, b1 ≤ f x) (h : a2 < b1) : Disjoint A B := by
  rw [Set.disjoint_left]
  intro x hxA hxB
  linarith [hA x hxA, hB x hxB]

end MetricSpace

section Normed
variable {E : Type*} [NormedAddCommGroup E] [NormedSpace ℝ E]

/-- PASS 2A of `intersects`: inscribed balls around interior points closer than the sum of the inradii
    ⇒ the solids share a point -/
theorem inballs_overlap_intersect {A B : Set E} {a b : E} {ra rb : ℝ}
    (haA : a ∈ A) (hbB : b ∈ B) (hA : ball a ra ⊆ A) (hB : ball b rb ⊆ B)
    (hra : 0 ≤ ra) (hrb : 0 ≤ rb) (h : dist a b < ra + rb) : (A ∩ B).Nonempty := by
  rcases hra.eq_or_lt with h0 | hpa
  · -- ra = 0: `a` itself lies in the ball of `b`
    subst h0
    refine ⟨a, haA, hB (mem_ball.2 ?_)⟩
    linarith
  rcases hrb.eq_or_lt with h0 | hpb
  · subst h0
    refine ⟨b, hA (mem_ball.2 ?_), hbB⟩
    rw [dist_comm]; linarith
  -- both radii positive: the point dividing the segment in the ratio ra : rb
  have hs : 0 < ra + rb := by linarith
  have hd : 0 ≤ dist a b := dist_nonneg
  set t : ℝ := ra / (ra + rb) with ht
  have ht0 : 0 ≤ t := div_nonneg hra hs.le
  have ht1 : 0 ≤ 1 - t := by
    have : t ≤ 1 := by rw [ht, div_le_one hs]; linarith
    linarith
  refine ⟨a + t • (b - a), hA (mem_ball.2 ?_), hB (mem_ball.2 ?_)⟩
  · rw [dist_eq_norm, add_sub_cancel_left, norm_smul, Real.norm_of_nonneg ht0, ← dist_eq_norm, dist_comm b a]
    have : t * dist a b < t * (ra + rb) := by
      apply mul_lt_mul_of_pos_left h
      exact div_pos hpa hs
    have e : t * (ra + rb) = ra := by rw [ht]; field_simp
    linarith
  · have e1 : a + t • (b - a) - b = (1 - t) • (a - b) := by
      rw [sub_smul, one_smul, smul_sub, smul_sub]; abel
    rw [dist_eq_norm, e1, norm_smul, Real.norm_of_nonneg ht1, ← dist_eq_norm]
    have hpos : 0 < 1 - t := by
      have : t < 1 := by rw [ht, div_lt_one hs]; linarith
      linarith
    have : (1 - t) * dist a b < (1 - t) * (ra + rb) := mul_lt_mul_of_pos_left h hpos
    have e : (1 - t) * (ra + rb) = rb := by rw [ht]; field_simp; ring
    linarith

/-- PASS 2 of `containsObject`: a convex container holding a vertex set holds everything inside the
    convex hull of that set -/
theorem convex_contains_of_vertices {A B V : Set E} (hA : Convex ℝ A) (hV : V ⊆ A)
    (hB : B ⊆ convexHull ℝ V) : B ⊆ A :=
  hB.trans (convexHull_min hV hA)

/-- contract `circA` from vertex facts: a solid inside the hull of vertices that are all within `R` of `c`
    lies in the closed ball (what `numpy.max(numpy.linalg.norm(vertices - c, axis=1))` delivers) -/
theorem hull_subset_closedBall {A V : Set E} {c : E} {R : ℝ} (hA : A ⊆ convexHull ℝ V)
    (hV : ∀ v ∈ V, dist v c ≤ R) : A ⊆ closedBall c R :=
  hA.trans (convexHull_min (fun v hv => mem_closedBall.2 (hV v hv)) (convex_closedBall c R))

end Normed

end Scenic.SolidLemmas
