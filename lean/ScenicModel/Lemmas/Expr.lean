import ScenicModel.Model.ExprSupported
import Mathlib.Tactic.Ring
import Mathlib.Tactic.Linarith
import Mathlib.Tactic.NormNum

/-! Helper lemmas for C05 (expression forest). -/
namespace Scenic.Expr

theorem bind_none_right {α β} (x : Option α) : x.bind (fun _ => (none : Option β)) = none := by
  cases x <;> rfl

theorem bind_comm {α β γ} (x : Option α) (y : Option β) (f : α → β → Option γ) :
    x.bind (fun a => y.bind (fun b => f a b)) = y.bind (fun b => x.bind (fun a => f a b)) := by
  cases x <;> cases y <;> rfl

theorem eval_optNode (T : Tables) (env : Env) (o : Option Val) : evalNode T env (optNode o) = o := by
  cases o <;> simp [optNode, evalNode]

/-! ### `toDistribution` does not change the sampled value -/
mutual
  theorem evalNode_toDist (T : Tables) (env : Env) : ∀ n : Node, evalNode T env (toDist n) = evalNode T env n
    | .rawt k xs => by simp [toDist, evalNode, evalNodes_toDistList T env xs]
    | .const _ | .leaf .. | .opd2 .. | .opd1 .. | .geti .. | .lend .. | .attrd .. | .vop .. | .vmeth .. | .vecOf ..
    | .tupd .. | .fnd .. | .fail => by simp [toDist]
  theorem evalNodes_toDistList (T : Tables) (env : Env) :
      ∀ ns : List Node, evalNodes T env (toDistList ns) = evalNodes T env ns
    | [] => by simp [toDistList]
    | n :: rest => by
      simp [toDistList, evalNodes, evalNode_toDist T env n, evalNodes_toDistList T env rest]
end

/-! ### kinds of values; the recorded static type is sound -/
def Val.isNum : Val → Bool | .num _ => true | _ => false
def Val.isVec : Val → Bool | .vec .. => true | _ => false

theorem isNum_iff (v : Val) : v.isNum = true ↔ ∃ q, v = .num q := by
  cases v <;> simp [Val.isNum]
theorem isVec_iff (v : Val) : v.isVec = true ↔ ∃ x y z, v = .vec x y z := by
  cases v <;> simp [Val.isVec]

theorem numBin_isNum (op a b) (v : Val) (h : (numBin op a b).map Val.num = some v) : v.isNum = true := by
  cases hh : numBin op a b <;> simp [hh] at h
  subst h; rfl

theorem map_coords_isVec (w : Val) (f : Rat × Rat × Rat → Val) (hf : ∀ p, (f p).isVec = true) (v : Val)
    (h : (coords3 w).map f = some v) : v.isVec = true := by
  cases hc : coords3 w with
  | none => simp [hc] at h
  | some p => simp [hc] at h; subst h; exact hf p

theorem vecMethod_isVec (op refl x y z w v) (h : vecMethod op refl x y z w = some v) : v.isVec = true := by
  cases op <;> cases refl <;> simp only [vecMethod] at h
  all_goals first
    | exact map_coords_isVec w _ (fun _ => rfl) v h
    | (cases w <;> simp at h <;> (try (subst h; rfl)) <;> (try (obtain ⟨_, rfl⟩ := h; rfl)))

theorem vecCall_isVec (op refl x y z w v) (h : vecCall op refl x y z w = some v) : v.isVec = true := by
  unfold vecCall at h
  split at h
  · simp at h; subst h; rfl
  · exact vecMethod_isVec _ _ _ _ _ _ _ h

theorem pyBin_num_isNum (op p q v) (h : pyBin op (.num p) (.num q) = some v) : v.isNum = true := by
  simp only [pyBin] at h; exact numBin_isNum _ _ _ _ h

theorem pyBin_vec_left_isVec (op x y z w v) (h : pyBin op (.vec x y z) w = some v) : v.isVec = true := by
  cases w <;> simp only [pyBin] at h <;> exact vecCall_isVec _ _ _ _ _ _ _ h

theorem pyBin_vec_right_isVec (op x y z w v) (h : pyBin op w (.vec x y z) = some v) : v.isVec = true := by
  cases w <;> simp only [pyBin] at h
  all_goals first
    | exact vecCall_isVec _ _ _ _ _ _ _ h
    | (split at h <;> [exact vecCall_isVec _ _ _ _ _ _ _ h; simp at h])

theorem dunder_vec_ret (op refl x y z w v) (h : dunder op refl (.vec x y z) w = .ret v) : v.isVec = true := by
  unfold dunder at h
  split at h
  · simp at h
  · simp only [ofOpt] at h
    cases hc : vecCall op refl x y z w with
    | none => simp [hc] at h
    | some u => simp [hc] at h; subst h; exact vecCall_isVec _ _ _ _ _ _ _ hc

theorem callDunder_vec_isVec (op refl x y z w v) (h : callDunder op refl (.vec x y z) w = some v) : v.isVec = true := by
  unfold callDunder at h
  cases hd : dunder op refl (.vec x y z) w <;> simp [hd] at h
  subst h
  exact dunder_vec_ret _ _ _ _ _ _ _ hd

/-- the static type recorded for a node is sound for its sampled value -/
theorem vty_sound (T : Tables) (env : Env) : ∀ (n : Node) (v : Val), evalNode T env n = some v →
    (n.vty = .number → v.isNum = true) ∧ (n.vty = .vector → v.isVec = true)
  | .const c, v, h => by
    simp [evalNode] at h; subst h
    cases c <;> simp [Node.vty, Val.isNum, Val.isVec]
  | .leaf i ty, v, h => by
    simp only [evalNode, leafVal] at h
    split at h
    · rename_i hok
      simp at h; subst h
      cases ty <;> simp [Node.vty] <;> (cases hv : env i <;> simp [hv, leafOK] at hok <;> simp [Val.isNum, Val.isVec])
    · simp at h
  | .opd2 op refl obj arg, v, h => by
    simp only [evalNode] at h
    cases ha : evalNode T env obj with
    | none => simp [ha] at h
    | some a =>
      cases hb : evalNode T env arg with
      | none => simp [ha, hb] at h
      | some b =>
        simp only [ha, hb, Option.bind_some] at h
        have iha := vty_sound T env obj a ha
        have ihb := vty_sound T env arg b hb
        constructor
        · intro ht
          have hty : obj.vty = .number ∧ arg.vty = .number := by
            simp only [Node.vty, inferBin] at ht
            split at ht <;> (try split at ht) <;> simp_all
          obtain ⟨p, rfl⟩ := (isNum_iff a).mp (iha.1 hty.1)
          obtain ⟨q, rfl⟩ := (isNum_iff b).mp (ihb.1 hty.2)
          split at h <;> exact pyBin_num_isNum _ _ _ _ h
        · intro ht
          have hty : obj.vty = .vector := by
            simp only [Node.vty, inferBin] at ht
            split at ht <;> simp_all
          obtain ⟨x, y, z, rfl⟩ := (isVec_iff a).mp (iha.2 hty)
          split at h
          · exact pyBin_vec_right_isVec _ _ _ _ _ _ h
          · exact pyBin_vec_left_isVec _ _ _ _ _ _ h
  | .opd1 op obj, v, h => by
    simp only [evalNode] at h
    cases ha : evalNode T env obj with
    | none => simp [ha] at h
    | some a =>
      simp only [ha, Option.bind_some] at h
      cases a <;> simp [pyUn] at h
      subst h
      simp [Node.vty, inferUn, Val.isNum]
      intro hv; split at hv <;> simp at hv
  | .geti obj idx, v, h => by
    simp only [evalNode] at h
    cases ha : evalNode T env obj with
    | none => simp [ha] at h
    | some a =>
      cases hb : evalNode T env idx with
      | none => simp [ha, hb] at h
      | some b =>
        simp only [ha, hb, Option.bind_some] at h
        have iha := vty_sound T env obj a ha
        constructor
        · intro ht
          have hty : obj.vty = .number := by
            simp only [Node.vty, inferGetitem] at ht
            split at ht <;> simp_all
          obtain ⟨p, rfl⟩ := (isNum_iff a).mp (iha.1 hty)
          simp [pyGetitem] at h
        · intro ht
          simp only [Node.vty, inferGetitem] at ht
          split at ht <;> simp at ht
  | .lend obj, v, h => by
    simp only [evalNode] at h
    cases ha : evalNode T env obj with
    | none => simp [ha] at h
    | some a =>
      simp only [ha, Option.bind_some] at h
      cases a <;> simp [pyLen] at h <;> subst h <;> simp [Node.vty, Val.isNum]
  | .attrd name obj, v, h => by
    simp only [evalNode] at h
    cases ha : evalNode T env obj with
    | none => simp [ha] at h
    | some a =>
      simp only [ha, Option.bind_some] at h
      constructor
      · intro _
        cases a <;> simp [pyAttr] at h
        split at h
        · simp at h; subst h; rfl
        · split at h
          · simp at h; subst h; rfl
          · split at h <;> simp at h
            subst h; rfl
      · intro ht
        simp only [Node.vty] at ht
        split at ht <;> simp at ht
  | .vop op refl obj arg, v, h => by
    simp only [evalNode] at h
    cases ha : evalNode T env obj with
    | none => simp [ha] at h
    | some a =>
      cases hb : evalNode T env arg with
      | none => simp [ha, hb] at h
      | some b =>
        simp only [ha, hb, Option.bind_some] at h
        have iha := vty_sound T env obj a ha
        constructor
        · intro ht
          simp only [Node.vty] at ht
          split at ht <;> simp at ht
        · intro ht
          have hty : obj.vty = .vector := by
            simp only [Node.vty] at ht
            split at ht
            · rename_i hh; simpa using hh
            · simp at ht
          obtain ⟨x, y, z, rfl⟩ := (isVec_iff a).mp (iha.2 hty)
          exact callDunder_vec_isVec _ _ _ _ _ _ _ h
  | .vmeth op refl x y z arg, v, h => by
    simp only [evalNode] at h
    cases hb : evalNode T env arg with
    | none => simp [hb] at h
    | some b =>
      simp only [hb, Option.bind_some] at h
      simp [Node.vty]
      exact vecMethod_isVec _ _ _ _ _ _ _ h
  | .vecOf x y z, v, h => by
    simp only [evalNode] at h
    cases ha : evalNode T env x <;> simp [ha] at h
    cases hb : evalNode T env y <;> simp [hb] at h
    cases hc : evalNode T env z <;> simp [hc] at h
    rename_i a b c
    cases a <;> cases b <;> cases c <;> simp [mkVec] at h
    subst h
    simp [Node.vty, Val.isVec]
  | .tupd .., v, h | .rawt .., v, h | .fnd .., v, h | .fail, v, h => by simp [Node.vty]

/-! ### reflected Vector methods -/
/-- `Vector.__rop__(v, c)` agrees with `c op v` when both are vectors -/
theorem vecCall_comm (op : BinOp) (x y z a b c : Rat) (h : vecHas op true = true) :
    vecCall op true x y z (.vec a b c) = vecCall op false a b c (.vec x y z) := by
  cases op <;> simp [vecHas] at h <;>
    simp [vecCall, vecMethod, vecZeroIdentity, isZeroOperand, coords3]
  · -- add
    split <;> split <;> simp_all <;> (try constructor) <;> (try ring_nf) <;> simp_all [add_comm]
  · -- sub
    intro h1 h2 h3; subst h1 h2 h3; simp

/-! ### the identity simplifications; `Distribution.__op__` -/
/-- every entry accepted by `entryOK` is an identity on numbers -/
theorem entry_sound (e : SimpEntry) (h : entryOK e = true) (x : Rat) :
    (if e.refl then numBin e.op (e.const : Rat) x else numBin e.op x (e.const : Rat)) = some x := by
  obtain ⟨op, refl, c⟩ := e
  cases op <;> cases refl <;> simp only [entryOK] at h <;> (try split at h) <;> simp_all [numBin]

theorem WF_simp (T : Tables) (hT : T.WF = true) : ∀ e ∈ T.simp, entryOK e = true := by
  unfold Tables.WF at hT
  simp only [Bool.and_eq_true, List.all_eq_true] at hT
  exact hT.1.1.1.1

theorem WF_vecOps (T : Tables) (hT : T.WF = true) :
    ∀ e ∈ T.vecOps, e.2.2 = vecZeroIdentity e.1 e.2.1 ∧ vecHas e.1 e.2.1 = true := by
  unfold Tables.WF at hT
  simp only [Bool.and_eq_true, List.all_eq_true, beq_iff_eq] at hT
  exact hT.1.1.1.2

theorem simplifies_spec (T : Tables) (op : BinOp) (refl : Bool) (self arg : Node)
    (h : simplifies T op refl self arg = true) :
    ∃ c, arg = .const (.num c) ∧ self.vty = .number ∧
      ∃ e ∈ T.simp, e.op = op ∧ e.refl = refl ∧ (e.const : Rat) = c := by
  unfold simplifies at h
  split at h
  · rename_i c
    simp only [Bool.and_eq_true, beq_iff_eq, List.any_eq_true] at h
    obtain ⟨hv, e, he, ⟨h1, h2⟩, h3⟩ := h
    exact ⟨c, rfl, hv, e, he, h1, h2, h3⟩
  · simp at h

theorem handler_eval (T : Tables) (hT : T.WF = true) (env : Env) (op : BinOp) (refl : Bool) (self arg : Node) :
    evalNode T env (handler T op refl self arg) =
      (evalNode T env self).bind fun a => (evalNode T env arg).bind fun b =>
        if refl then pyBin op b a else pyBin op a b := by
  unfold handler
  split
  · rename_i hs
    obtain ⟨c, rfl, hv, e, he, rfl, rfl, rfl⟩ := simplifies_spec T op refl self arg hs
    cases ha : evalNode T env self with
    | none => simp
    | some a =>
      obtain ⟨q, rfl⟩ := (isNum_iff a).mp ((vty_sound T env self a ha).1 hv)
      have hE := entry_sound e (WF_simp T hT e he) q
      simp only [evalNode, Option.bind_some, pyBin]
      cases hr : e.refl <;> simp [hr] at hE ⊢ <;> simp [hE]
  · simp only [evalNode, evalNode_toDist]

/-! ### operators on random vectors -/
theorem dunder_vec (op : BinOp) (refl : Bool) (x y z : Rat) (w : Val) :
    dunder op refl (.vec x y z) w = if vecHas op refl then ofOpt (vecCall op refl x y z w) else .noAttr := by
  cases h : vecHas op refl <;> simp [dunder, hasDunder, h]

theorem callval_ofOpt (o : Option Val) : (match ofOpt o with | .ret v => some v | _ => none) = o := by
  cases o <;> rfl

theorem vecCall_no_method (op : BinOp) (refl : Bool) (x y z : Rat) (w : Val) (h : vecHas op refl = false) :
    vecCall op refl x y z w = none := by
  cases op <;> cases refl <;> simp [vecHas] at h <;> simp [vecCall, vecZeroIdentity, vecMethod]

theorem pyBin_vec_left (op : BinOp) (x y z : Rat) (w : Val) : pyBin op (.vec x y z) w = vecCall op false x y z w := by
  cases w <;> rfl

theorem pyBin_vec_right (op : BinOp) (x y z : Rat) (w : Val) :
    pyBin op w (.vec x y z) = if vecHas op true then vecCall op true x y z w else none := by
  cases w with
  | vec a b c =>
    simp only [pyBin]
    cases h : vecHas op true
    · simp
      cases op <;> simp [vecHas] at h <;> simp [vecCall, vecZeroIdentity, vecMethod]
    · simp [vecCall_comm op x y z a b c h]
  | num q => simp [pyBin]
  | none => simp [pyBin]
  | str s => simp [pyBin]
  | seq k xs => simp [pyBin]

/-- sampling a VectorOperatorDistribution whose object sampled to a Vector gives what Python computes -/
theorem vop_val (op : BinOp) (refl : Bool) (x y z : Rat) (b : Val) :
    callDunder op refl (.vec x y z) b =
      (if refl then pyBin op b (.vec x y z) else pyBin op (.vec x y z) b) := by
  unfold callDunder
  rw [dunder_vec]
  cases refl
  · simp only [Bool.false_eq_true, if_false, pyBin_vec_left]
    cases h : vecHas op false
    · simp [vecCall_no_method op false x y z b h]
    · simp only [if_true]; exact callval_ofOpt _
  · simp only [if_true, pyBin_vec_right]
    cases h : vecHas op true
    · simp
    · simp only [if_true]; exact callval_ofOpt _

theorem vecOpsLookup_spec (T : Tables) (hT : T.WF = true) (op : BinOp) (refl zi : Bool)
    (h : vecOpsLookup T op refl = some zi) : zi = vecZeroIdentity op refl ∧ vecHas op refl = true := by
  unfold vecOpsLookup at h
  cases hf : T.vecOps.find? (fun e => e.1 == op && e.2.1 == refl) with
  | none => simp [hf] at h
  | some e =>
    simp [hf] at h
    have hmem := List.mem_of_find?_eq_some hf
    have hp := List.find?_some hf
    simp only [Bool.and_eq_true, beq_iff_eq] at hp
    have := WF_vecOps T hT e hmem
    rw [hp.1, hp.2] at this
    rw [← h]; exact this

/-- an all-zero operand is an identity for the decorated zero-identity operators -/
theorem zero_identity_val (op : BinOp) (refl : Bool) (x y z : Rat) (v : Val)
    (hz : vecZeroIdentity op refl = true) (hv : isZeroOperand v = true) :
    (if refl then pyBin op v (.vec x y z) else pyBin op (.vec x y z) v) = some (.vec x y z) := by
  have hh : vecHas op refl = true := by cases op <;> cases refl <;> simp_all [vecZeroIdentity, vecHas]
  cases refl
  · simp [pyBin_vec_left, vecCall, hz, hv]
  · simp [pyBin_vec_right, hh, vecCall, hz, hv]

theorem eval_vop_of_vec (T : Tables) (env : Env) (op : BinOp) (refl : Bool) (self arg : Node)
    (hvec : ∀ a, evalNode T env self = some a → a.isVec = true) :
    evalNode T env (.vop op refl self arg) =
      (evalNode T env self).bind fun a => (evalNode T env arg).bind fun b =>
        if refl then pyBin op b a else pyBin op a b := by
  simp only [evalNode]
  cases ha : evalNode T env self with
  | none => simp
  | some a =>
    obtain ⟨x, y, z, rfl⟩ := (isVec_iff a).mp (hvec a ha)
    cases hb : evalNode T env arg with
    | none => simp
    | some b =>
      simp only [Option.bind_some]
      exact vop_val op refl x y z b

theorem pyBin_mul_vec_comm (x y z : Rat) (b : Val) : pyBin .mul (.vec x y z) b = pyBin .mul b (.vec x y z) := by
  rw [pyBin_vec_left, pyBin_vec_right]
  simp [vecCall, vecZeroIdentity, vecMethod, vecHas]

theorem allZero_coords (k : Bool) (xs : List Val) (h : allZero xs = true) (hl : ¬ xs.length < 3) :
    coords3 (.seq k xs) = some (0, 0, 0) := by
  match xs, h, hl with
  | .num a :: .num b :: .num c :: rest, h, _ =>
    simp [allZero] at h
    obtain ⟨h1, h2, h3, _⟩ := h
    subst h1 h2 h3; rfl
  | [], _, hl => simp at hl
  | [_], _, hl => simp at hl
  | [_, _], _, hl => simp at hl
  | .none :: _, h, _ => simp [allZero] at h
  | .str _ :: _, h, _ => simp [allZero] at h
  | .seq _ _ :: _, h, _ => simp [allZero] at h
  | .vec .. :: _, h, _ => simp [allZero] at h
  | .num _ :: .none :: _, h, _ => simp [allZero] at h
  | .num _ :: .str _ :: _, h, _ => simp [allZero] at h
  | .num _ :: .seq _ _ :: _, h, _ => simp [allZero] at h
  | .num _ :: .vec .. :: _, h, _ => simp [allZero] at h
  | .num _ :: .num _ :: .none :: _, h, _ => simp [allZero] at h
  | .num _ :: .num _ :: .str _ :: _, h, _ => simp [allZero] at h
  | .num _ :: .num _ :: .seq _ _ :: _, h, _ => simp [allZero] at h
  | .num _ :: .num _ :: .vec .. :: _, h, _ => simp [allZero] at h

/-- the undecorated Vector method (VectorMethodDistribution) agrees with the decorated one except on short all-zero
    sequences -/
theorem vecCall_eq_method (op : BinOp) (refl : Bool) (x y z : Rat) (b : Val) (h : shortZero b = false) :
    vecCall op refl x y z b = vecMethod op refl x y z b := by
  unfold vecCall
  by_cases hc : (vecZeroIdentity op refl && isZeroOperand b) = true
  · rw [if_pos hc]
    simp only [Bool.and_eq_true] at hc
    obtain ⟨hz, hb⟩ := hc
    have hco : coords3 b = some (0, 0, 0) := by
      cases b with
      | vec a b c =>
        simp [isZeroOperand] at hb
        obtain ⟨⟨h1, h2⟩, h3⟩ := hb
        subst h1 h2 h3; rfl
      | seq k xs =>
        simp only [isZeroOperand] at hb
        simp only [shortZero, hb, Bool.true_and, decide_eq_false_iff_not] at h
        exact allZero_coords k xs hb h
      | num q => simp [isZeroOperand] at hb
      | none => simp [isZeroOperand] at hb
      | str s => simp [isZeroOperand] at hb
    cases op <;> cases refl <;> simp [vecZeroIdentity] at hz <;> simp [vecMethod, hco]
  · rw [if_neg hc]

/-! ### unary operators, len, attribute, literals -/

theorem unBuild_eval (T : Tables) (env : Env) (op : UnOp) (n : Node) :
    evalNode T env (unBuild op n) = (evalNode T env n).bind (pyUn op) := by
  cases n with
  | fail => simp [unBuild, evalNode]
  | const v => simp [unBuild, evalNode, eval_optNode]
  | vecOf x y z =>
    simp only [unBuild, Node.isDist, Bool.false_eq_true, if_false, evalNode]
    cases evalNode T env x <;> simp
    cases evalNode T env y <;> simp
    cases evalNode T env z <;> simp
    rename_i a b c
    cases a <;> cases b <;> cases c <;> simp [mkVec, pyUn]
  | rawt k xs =>
    simp only [unBuild, Node.isDist, Bool.false_eq_true, if_false, evalNode]
    cases evalNodes T env xs <;> simp [pyUn]
  | _ => simp [unBuild, Node.isDist, evalNode]

theorem evalNodes_length (T : Tables) (env : Env) : ∀ (xs : List Node) (vs : List Val),
    evalNodes T env xs = some vs → vs.length = xs.length
  | [], vs, h => by simp [evalNodes] at h; subst h; rfl
  | x :: rest, vs, h => by
    simp only [evalNodes] at h
    cases hx : evalNode T env x with
    | none => simp [hx] at h
    | some v =>
      cases hr : evalNodes T env rest with
      | none => simp [hx, hr] at h
      | some ws =>
        simp [hx, hr] at h; subst h
        simp [evalNodes_length T env rest ws hr]

theorem evalNodes_getElem (T : Tables) (env : Env) : ∀ (xs : List Node) (vs : List Val) (k : Nat),
    evalNodes T env xs = some vs → evalNode T env ((xs[k]?).getD .fail) = vs[k]?
  | [], vs, k, h => by simp [evalNodes] at h; subst h; simp [evalNode]
  | x :: rest, vs, k, h => by
    simp only [evalNodes] at h
    cases hx : evalNode T env x with
    | none => simp [hx] at h
    | some v =>
      cases hr : evalNodes T env rest with
      | none => simp [hx, hr] at h
      | some ws =>
        simp [hx, hr] at h; subst h
        cases k with
        | zero => simp [hx]
        | succ k => simpa using evalNodes_getElem T env rest ws k hr

theorem evalNodes_listIndex (T : Tables) (env : Env) (xs : List Node) (vs : List Val) (i : Int)
    (h : evalNodes T env xs = some vs) :
    evalNode T env ((listIndex xs i).getD .fail) = listIndex vs i := by
  have hl := evalNodes_length T env xs vs h
  unfold listIndex
  simp only [hl]
  split <;> (split <;> first | exact evalNodes_getElem T env xs vs _ h | simp [evalNode])

theorem listIndex_map {α β} (f : α → β) (xs : List α) (i : Int) :
    listIndex (xs.map f) i = (listIndex xs i).map f := by
  unfold listIndex
  simp only [List.length_map]
  split <;> split <;> simp

theorem constIndex_spec (idx : Node) (i : Int) (h : constIndex idx = some i) :
    ∃ q, idx = .const (.num q) ∧ asIndex q = some i := by
  unfold constIndex at h
  split at h
  · exact ⟨_, rfl, h⟩
  · simp at h

theorem constIndex_none (d : Val) (h : constIndex (.const d) = none) (a : Val) : pyGetitem a d = none := by
  cases d with
  | num q =>
    simp only [constIndex] at h
    cases a <;> simp [pyGetitem, h]
  | _ => cases a <;> simp [pyGetitem]

theorem getitemBuild_eval (T : Tables) (env : Env) (obj idx : Node) (hok : getitemOK T env obj idx = true) :
    evalNode T env (getitemBuild obj idx) =
      (evalNode T env obj).bind fun a => (evalNode T env idx).bind fun b => pyGetitem a b := by
  unfold getitemBuild
  split
  · simp [evalNode]
  · simp [evalNode, bind_none_right]
  · simp [evalNode, eval_optNode]
  · rename_i h1 h2 h3
    by_cases hd : obj.isDist = true
    · simp [hd, evalNode, evalNode_toDist]
    · simp only [hd, Bool.false_eq_true, if_false]
      have hof : obj.isFail = false := by cases obj <;> simp [Node.isFail]; exact h1 rfl
      have hif : idx.isFail = false := by cases idx <;> simp [Node.isFail]; exact h2 rfl
      unfold getitemOK at hok
      simp only [hof, hif, Bool.false_or, Bool.not_eq_true] at hok
      simp only [Bool.not_eq_true] at hd
      simp only [hd, Bool.false_or, Bool.and_eq_true, Bool.or_eq_true] at hok
      obtain ⟨hic, hobj⟩ := hok
      obtain ⟨d, rfl⟩ : ∃ d, idx = .const d := by cases idx <;> simp [Node.isConst] at hic; exact ⟨_, rfl⟩
      cases obj with
      | rawt k xs =>
        have hs : evalsSome T env (.rawt k xs) = true := by simpa [Node.isConst] using hobj
        simp only [evalsSome, evalNode, Option.isSome_map] at hs
        obtain ⟨vs, hvs⟩ := Option.isSome_iff_exists.mp hs
        simp only []
        cases hci : constIndex (.const d) with
        | some i =>
          obtain ⟨q, hq, hqi⟩ := constIndex_spec _ i hci
          cases hq
          simp [evalNode, hvs, pyGetitem, hqi, evalNodes_listIndex T env xs vs i hvs]
        | none => simp [evalNode, hvs, constIndex_none d hci]
      | vecOf x y z =>
        have hs : evalsSome T env (.vecOf x y z) = true := by simpa [Node.isConst] using hobj
        simp only [evalsSome, evalNode] at hs
        cases hx : evalNode T env x with
        | none => simp [hx] at hs
        | some a =>
          cases hy : evalNode T env y with
          | none => simp [hx, hy] at hs
          | some b =>
            cases hz : evalNode T env z with
            | none => simp [hx, hy, hz] at hs
            | some c =>
              simp only [hx, hy, hz, Option.bind_some] at hs
              cases a <;> cases b <;> cases c <;> simp [mkVec] at hs
              rename_i p q r
              have hvs : evalNodes T env [x, y, z] = some [.num p, .num q, .num r] := by simp [evalNodes, hx, hy, hz]
              simp only []
              cases hci : constIndex (.const d) with
              | some i =>
                obtain ⟨w, hw, hwi⟩ := constIndex_spec _ i hci
                cases hw
                have := evalNodes_listIndex T env [x, y, z] _ i hvs
                simp only [evalNode, hx, hy, hz, Option.bind_some, mkVec, pyGetitem, hwi, this]
                exact (listIndex_map Val.num [p, q, r] i)
              | none => simp [evalNode, hx, hy, hz, mkVec, constIndex_none d hci]
      | const c => exact absurd rfl (h3 c d rfl)
      | fail => simp [Node.isFail] at hof
      | _ => simp [Node.isDist] at hd

theorem lenBuild_eval (T : Tables) (env : Env) (n : Node) (hok : lazyOK T env n = true) :
    evalNode T env (lenBuild n) = (evalNode T env n).bind pyLen := by
  cases n with
  | fail => simp [lenBuild, evalNode]
  | const v => simp [lenBuild, evalNode, eval_optNode]
  | rawt k xs =>
    simp only [lazyOK, evalsSome, evalNode, Option.isSome_map] at hok
    obtain ⟨vs, hvs⟩ := Option.isSome_iff_exists.mp hok
    simp [lenBuild, evalNode, hvs, pyLen, evalNodes_length T env xs vs hvs]
  | vecOf x y z =>
    simp only [lazyOK, evalsSome] at hok
    obtain ⟨v, hv⟩ := Option.isSome_iff_exists.mp hok
    have := (vty_sound T env (.vecOf x y z) v hv).2 rfl
    obtain ⟨a, b, c, rfl⟩ := (isVec_iff v).mp this
    simp only [lenBuild]
    rw [hv]
    simp [evalNode, pyLen]
  | _ => simp [lenBuild, Node.isDist, evalNode]

theorem attrBuild_eval (T : Tables) (env : Env) (name : String) (n : Node) (hok : lazyOK T env n = true) :
    evalNode T env (attrBuild name n) = (evalNode T env n).bind (pyAttr name) := by
  cases n with
  | fail => simp [attrBuild, evalNode]
  | const v => simp [attrBuild, evalNode, eval_optNode]
  | rawt k xs =>
    simp only [attrBuild, Node.isDist, Bool.false_eq_true, if_false, evalNode]
    cases evalNodes T env xs <;> simp [pyAttr]
  | vecOf x y z =>
    simp only [lazyOK, evalsSome, evalNode] at hok
    cases hx : evalNode T env x with
    | none => simp [hx] at hok
    | some a =>
      cases hy : evalNode T env y with
      | none => simp [hx, hy] at hok
      | some b =>
        cases hz : evalNode T env z with
        | none => simp [hx, hy, hz] at hok
        | some c =>
          simp only [hx, hy, hz, Option.bind_some] at hok
          cases a <;> cases b <;> cases c <;> simp [mkVec] at hok
          simp only [attrBuild, evalNode, hx, hy, hz, Option.bind_some, mkVec, pyAttr]
          split
          · simp [hx]
          · split
            · simp [hy]
            · split
              · simp [hz]
              · simp [evalNode]
  | _ => simp [attrBuild, Node.isDist, evalNode]

theorem anyFail_evalNodes (T : Tables) (env : Env) : ∀ ns : List Node, anyFail ns = true → evalNodes T env ns = none
  | [], h => by simp [anyFail] at h
  | n :: rest, h => by
    cases n with
    | fail => simp [evalNodes, evalNode]
    | _ =>
      simp only [anyFail] at h
      simp [evalNodes, anyFail_evalNodes T env rest h, bind_none_right]

theorem allConst_evalNodes (T : Tables) (env : Env) : ∀ (ns : List Node) (vs : List Val),
    allConst ns = some vs → evalNodes T env ns = some vs
  | [], vs, h => by simp [allConst] at h; subst h; rfl
  | n :: rest, vs, h => by
    cases n with
    | const v =>
      simp only [allConst] at h
      cases hr : allConst rest with
      | none => simp [hr] at h
      | some ws =>
        simp [hr] at h; subst h
        simp [evalNodes, evalNode, allConst_evalNodes T env rest ws hr]
    | _ => simp [allConst] at h

theorem seqBuild_eval (T : Tables) (env : Env) (k : Bool) (ns : List Node) :
    evalNode T env (seqBuild k ns) = (evalNodes T env ns).map (.seq k) := by
  unfold seqBuild
  by_cases hf : anyFail ns = true
  · simp [hf, evalNode, anyFail_evalNodes T env ns hf]
  · simp only [hf, Bool.false_eq_true, if_false]
    cases hc : allConst ns with
    | some vs => simp [evalNode, allConst_evalNodes T env ns vs hc]
    | none => simp [evalNode]

theorem vecBuild_eval (T : Tables) (env : Env) (x y z : Node) :
    evalNode T env (vecBuild x y z) =
      (evalNode T env x).bind fun a => (evalNode T env y).bind fun b => (evalNode T env z).bind fun c => mkVec a b c := by
  unfold vecBuild
  split
  · simp [evalNode]
  · simp [evalNode, bind_none_right]
  · simp only [evalNode]
    cases evalNode T env x <;> simp [bind_none_right]
  · simp [evalNode, eval_optNode]
  · simp [evalNode]

/-! ### lifted function calls and star-unpacking -/

theorem evalArgs_toDistList (T : Tables) (env : Env) : ∀ (ns : List Node) (ss : List Bool),
    evalArgs T env (toDistList ns) ss = evalArgs T env ns ss
  | [], ss => by simp [toDistList, evalArgs]
  | n :: rest, [] => by
    simp [toDistList, evalArgs, evalNode_toDist, evalArgs_toDistList T env rest []]
  | n :: rest, true :: ss => by
    simp [toDistList, evalArgs, evalNode_toDist, evalArgs_toDistList T env rest ss]
  | n :: rest, false :: ss => by
    simp [toDistList, evalArgs, evalNode_toDist, evalArgs_toDistList T env rest ss]

/-- unstarred arguments in front: they are evaluated one by one -/
theorem evalArgs_append (T : Tables) (env : Env) (ns : List Node) (ss : List Bool) :
    ∀ xs : List Node, evalArgs T env (xs ++ ns) (xs.map (fun _ => false) ++ ss) =
      (evalNodes T env xs).bind fun vs => (evalArgs T env ns ss).map (vs ++ ·)
  | [] => by simp [evalNodes]
  | x :: rest => by
    simp only [List.cons_append, List.map_cons, evalArgs, evalNodes, evalArgs_append T env ns ss rest]
    cases evalNode T env x <;> simp
    cases evalNodes T env rest <;> simp
    cases evalArgs T env ns ss <;> simp

theorem evalNodes_consts (T : Tables) (env : Env) : ∀ vs : List Val, evalNodes T env (vs.map .const) = some vs
  | [] => rfl
  | v :: rest => by simp [evalNodes, evalNode, evalNodes_consts T env rest]

/-- what `*n` contributes to the argument list evaluates to the elements of the value of `n` -/
theorem starBuild_spec (T : Tables) (env : Env) (n : Node) (hok : starOK n = true) :
    match starBuild n with
    | none => ((evalNode T env n).bind iterVals) = none
    | some (xs, fs) => ∀ ns ss, evalArgs T env (xs ++ ns) (fs ++ ss) =
        (evalNode T env n).bind fun v => (iterVals v).bind fun ys => (evalArgs T env ns ss).map (ys ++ ·) := by
  cases n with
  | fail => simp [starBuild, evalNode]
  | const v =>
    simp only [starBuild]
    cases hv : iterVals v with
    | none => simp [evalNode, hv]
    | some ys =>
      simp only [Option.map_some]
      intro ns ss
      have hm : ys.map (fun _ => false) = (ys.map Node.const).map (fun _ => false) := by simp
      rw [hm, evalArgs_append, evalNodes_consts]
      simp [evalNode, hv]
  | rawt k xs =>
    simp only [starBuild]
    intro ns ss
    rw [evalArgs_append]
    simp only [evalNode]
    cases evalNodes T env xs <;> simp [iterVals]
  | tupd k xs =>
    simp only [starBuild]
    intro ns ss
    rw [evalArgs_append]
    simp only [evalNode]
    cases evalNodes T env xs <;> simp [iterVals]
  | vecOf x y z => simp [starOK] at hok
  | _ =>
    simp only [starBuild, Node.isDist, if_true]
    intro ns ss
    simp [evalArgs]

theorem anyFail_evalArgs (T : Tables) (env : Env) : ∀ (ns : List Node) (ss : List Bool),
    anyFail ns = true → evalArgs T env ns ss = none
  | [], _, h => by simp [anyFail] at h
  | n :: rest, ss, h => by
    cases n with
    | fail => cases ss with
      | nil => simp [evalArgs, evalNode]
      | cons s ss => cases s <;> simp [evalArgs, evalNode]
    | _ =>
      simp only [anyFail] at h
      cases ss with
      | nil => simp [evalArgs, anyFail_evalArgs T env rest [] h, bind_none_right]
      | cons s ss =>
        cases s <;> simp [evalArgs, anyFail_evalArgs T env rest ss h, bind_none_right]

theorem allConst_evalArgs (T : Tables) (env : Env) : ∀ (ns : List Node) (ss : List Bool) (vs : List Val),
    allConst ns = some vs → ss.any id = false → evalArgs T env ns ss = some vs
  | [], ss, vs, h, _ => by simp [allConst] at h; subst h; simp [evalArgs]
  | n :: rest, ss, vs, h, hs => by
    cases n with
    | const v =>
      simp only [allConst] at h
      cases hr : allConst rest with
      | none => simp [hr] at h
      | some ws =>
        simp [hr] at h; subst h
        cases ss with
        | nil => simp [evalArgs, evalNode, allConst_evalArgs T env rest [] ws hr (by simp)]
        | cons s ss =>
          simp only [List.any_cons, id, Bool.or_eq_false_iff] at hs
          obtain ⟨h1, h2⟩ := hs
          subst h1
          simp [evalArgs, evalNode, allConst_evalArgs T env rest ss ws hr h2]
    | _ => simp [allConst] at h

theorem callBuild_eval (T : Tables) (env : Env) (f : Fn) (ns : List Node) (ss : List Bool) :
    evalNode T env (callBuild f (some (ns, ss))) = (evalArgs T env ns ss).bind (fnApply f) := by
  simp only [callBuild]
  by_cases hf : anyFail ns = true
  · simp [hf, evalNode, anyFail_evalArgs T env ns ss hf]
  · simp only [hf, Bool.false_eq_true, if_false]
    by_cases hs : ss.any id = true
    · simp [hs, evalNode, evalArgs_toDistList]
    · simp only [hs, Bool.false_eq_true, if_false]
      cases hc : allConst (toDistList ns) with
      | none => simp [evalNode, evalArgs_toDistList]
      | some vs =>
        have := allConst_evalArgs T env (toDistList ns) ss vs hc (by simpa using hs)
        rw [evalArgs_toDistList] at this
        simp [eval_optNode, this]


/-! ### lists of nodes: concatenation and repetition of raw tuples -/

theorem evalNodes_append (T : Tables) (env : Env) : ∀ xs ys : List Node,
    evalNodes T env (xs ++ ys) = (evalNodes T env xs).bind fun vs => (evalNodes T env ys).map (vs ++ ·)
  | [], ys => by cases h : evalNodes T env ys <;> simp [evalNodes, h]
  | x :: rest, ys => by
    simp only [List.cons_append, evalNodes, evalNodes_append T env rest ys]
    cases evalNode T env x <;> simp
    cases evalNodes T env rest <;> simp
    cases evalNodes T env ys <;> simp

theorem evalNodes_replicate (T : Tables) (env : Env) (xs : List Node) (vs : List Val)
    (h : evalNodes T env xs = some vs) :
    ∀ n : Nat, evalNodes T env (List.replicate n xs).flatten = some (List.replicate n vs).flatten
  | 0 => by simp [evalNodes]
  | n + 1 => by
    simp [List.replicate_succ, evalNodes_append, h, evalNodes_replicate T env xs vs h n]

theorem repeatList_nonpos {α} (i : Int) (xs : List α) (h : i ≤ 0) : repeatList i xs = [] := by
  unfold repeatList
  have : i.toNat = 0 := by omega
  simp [this]

theorem toDist_not_raw (n : Node) : (toDist n).isRaw = false := by
  cases n <;> simp [toDist, Node.isRaw]

theorem toDist_isFail (n : Node) : (toDist n).isFail = n.isFail := by
  cases n <;> simp [toDist, Node.isFail]

/-! ### operators on random vectors: the handlers -/

theorem vhandlerCore_eval (T : Tables) (env : Env) (op : BinOp) (refl zi : Bool) (self arg : Node)
    (hzi : zi = vecZeroIdentity op refl) (hraw : arg.isRaw = false)
    (hvec : ∀ a, evalNode T env self = some a → a.isVec = true) :
    evalNode T env (vhandlerCore op refl zi self arg) =
      (evalNode T env self).bind fun a => (evalNode T env arg).bind fun b =>
        if refl then pyBin op b a else pyBin op a b := by
  unfold vhandlerCore
  by_cases hc : (zi && !arg.isLazy) = true
  · rw [if_pos hc]
    simp only [Bool.and_eq_true, Bool.not_eq_true'] at hc
    obtain ⟨hz1, hnl⟩ := hc
    have hz : vecZeroIdentity op refl = true := by rw [← hzi]; exact hz1
    cases arg with
    | const v =>
      simp only []
      by_cases hv : isZeroOperand v = true
      · rw [if_pos hv]
        cases ha : evalNode T env self with
        | none => simp
        | some a =>
          obtain ⟨x, y, z, rfl⟩ := (isVec_iff a).mp (hvec a ha)
          simp [evalNode, zero_identity_val op refl x y z v hz hv]
      · rw [if_neg hv]
        exact eval_vop_of_vec T env op refl self _ hvec
    | fail => simp [evalNode, bind_none_right]
    | rawt k xs => simp [Node.isRaw] at hraw
    | _ => simp [Node.isLazy, Node.isDist] at hnl
  · rw [if_neg hc]
    exact eval_vop_of_vec T env op refl self arg hvec

theorem vhandler_eval (T : Tables) (hT : T.WF = true) (env : Env) (op : BinOp) (refl : Bool) (self arg : Node)
    (hvec : ∀ a, evalNode T env self = some a → a.isVec = true) :
    evalNode T env (vhandler T op refl self arg) =
      (evalNode T env self).bind fun a => (evalNode T env arg).bind fun b =>
        if refl then pyBin op b a else pyBin op a b := by
  unfold vhandler
  cases hl : vecOpsLookup T op refl with
  | none => exact handler_eval T hT env op refl self arg
  | some zi =>
    obtain ⟨hzi, _⟩ := vecOpsLookup_spec T hT op refl zi hl
    simp only []
    rw [vhandlerCore_eval T env op refl zi self (toDist arg) hzi (toDist_not_raw arg) hvec, evalNode_toDist]

theorem vecOpsLookup_none (T : Tables) (hT : T.WF = true) (op : BinOp) (refl : Bool) (h : vecHas op refl = false) :
    vecOpsLookup T op refl = none := by
  cases hl : vecOpsLookup T op refl with
  | none => rfl
  | some zi =>
    have := (vecOpsLookup_spec T hT op refl zi hl).2
    rw [h] at this; simp at this

theorem vecApply_eval (T : Tables) (hT : T.WF = true) (env : Env) (op : BinOp) (refl : Bool) (self arg : Node)
    (hh : vecHas op refl = true) (hraw : arg.isRaw = false)
    (hvec : ∀ a, evalNode T env self = some a → a.isVec = true)
    (hok : arg.isLazy = true → self.isConst = true → ∀ b, evalNode T env arg = some b → shortZero b = false) :
    evalNode T env (vecApply T op refl self arg) =
      (evalNode T env self).bind fun a => (evalNode T env arg).bind fun b =>
        if refl then pyBin op b a else pyBin op a b := by
  unfold vecApply
  by_cases hlazy : arg.isLazy = true
  · rw [if_pos hlazy]
    cases self with
    | const c =>
      cases c with
      | vec x y z =>
        simp only [evalNode, Option.bind_some]
        cases hb : evalNode T env arg with
        | none => simp
        | some b =>
          have hs : shortZero b = false := hok hlazy rfl b hb
          cases refl
          · simp [pyBin_vec_left, vecCall_eq_method op false x y z b hs]
          · simp [pyBin_vec_right, hh, vecCall_eq_method op true x y z b hs]
      | num q => exact eval_vop_of_vec T env op refl _ arg hvec
      | none => exact eval_vop_of_vec T env op refl _ arg hvec
      | str s => exact eval_vop_of_vec T env op refl _ arg hvec
      | seq k xs => exact eval_vop_of_vec T env op refl _ arg hvec
    | _ => exact eval_vop_of_vec T env op refl _ arg hvec
  · rw [if_neg hlazy]
    cases arg with
    | const v =>
      simp only []
      by_cases hz : (vecOpsLookup T op refl == some true && isZeroOperand v) = true
      · rw [if_pos hz]
        simp only [Bool.and_eq_true, beq_iff_eq] at hz
        obtain ⟨hzi, _⟩ := vecOpsLookup_spec T hT op refl true hz.1
        cases ha : evalNode T env self with
        | none => simp
        | some a =>
          obtain ⟨x, y, z, rfl⟩ := (isVec_iff a).mp (hvec a ha)
          simp [evalNode, zero_identity_val op refl x y z v hzi.symm hz.2]
      · rw [if_neg hz]
        exact eval_vop_of_vec T env op refl self _ hvec
    | fail => simp [evalNode, bind_none_right]
    | rawt k xs => simp [Node.isRaw] at hraw
    | _ => simp [Node.isLazy, Node.isDist] at hlazy

theorem vecHas_refl_of_not (op : BinOp) (h : vecHas op false = false) : vecHas op true = false := by
  cases op <;> simp [vecHas] at h ⊢

theorem vecHelperCore_eval (T : Tables) (hT : T.WF = true) (env : Env) (op : BinOp) (refl : Bool) (self arg : Node)
    (hvec : ∀ a, evalNode T env self = some a → a.isVec = true)
    (hok : vecCoreOK T env op refl self arg = true) :
    evalNode T env (vecHelperCore T op refl self arg) =
      (evalNode T env self).bind fun a => (evalNode T env arg).bind fun b =>
        if refl then pyBin op b a else pyBin op a b := by
  unfold vecHelperCore
  by_cases hh : vecHas op refl = true
  · -- Vector defines the method
    simp only [hh, Bool.not_true, Bool.false_eq_true, if_false]
    rw [vecApply_eval T hT env op refl self (toDist arg) hh (toDist_not_raw arg) hvec, evalNode_toDist]
    intro hlazy hconst b hb
    unfold vecCoreOK at hok
    simp only [hh, hlazy, Bool.and_self, if_true] at hok
    cases self with
    | const c =>
      simp only [valsOK, evalNode] at hok
      rw [evalNode_toDist] at hb
      simp only [hb, Bool.not_eq_true'] at hok
      exact hok
    | _ => simp [Node.isConst] at hconst
  · -- Vector does not define the method
    simp only [Bool.not_eq_true] at hh
    simp only [hh, Bool.not_false, if_true]
    by_cases hd : (arg.isDist && !refl) = true
    · simp only [hd, if_true]
      simp only [Bool.and_eq_true, Bool.not_eq_true'] at hd
      obtain ⟨_, hr⟩ := hd
      subst hr
      have hl : vecOpsLookup T op true = none := vecOpsLookup_none T hT op true (vecHas_refl_of_not op hh)
      have : (if arg.isVecDist = true then vhandler T op true arg self else handler T op true arg self) =
          handler T op true arg self := by
        split
        · unfold vhandler; rw [hl]
        · rfl
      rw [this, handler_eval T hT env op true arg self]
      simp only [if_true, Bool.false_eq_true, if_false]
      exact bind_comm _ _ _
    · simp only [hd, Bool.false_eq_true, if_false, evalNode]
      cases ha : evalNode T env self with
      | none => simp
      | some a =>
        obtain ⟨x, y, z, rfl⟩ := (isVec_iff a).mp (hvec a ha)
        cases hb : evalNode T env arg with
        | none => simp
        | some b =>
          cases refl
          · simp [pyBin_vec_left, vecCall_no_method op false x y z b hh]
          · simp [pyBin_vec_right, hh]

theorem vecHelper_eval (T : Tables) (hT : T.WF = true) (env : Env) (op : BinOp) (refl : Bool) (self arg : Node)
    (hvec : ∀ a, evalNode T env self = some a → a.isVec = true)
    (hok : vecHelperOK T env op refl self arg = true) :
    evalNode T env (vecHelper T op refl self arg) =
      (evalNode T env self).bind fun a => (evalNode T env arg).bind fun b =>
        if refl then pyBin op b a else pyBin op a b := by
  unfold vecHelper
  unfold vecHelperOK at hok
  rw [vecHelperCore_eval T hT env op _ self arg hvec hok]
  by_cases hm : op = .mul
  · subst hm
    simp only [beq_self_eq_true, if_true, Bool.false_eq_true, if_false]
    cases ha : evalNode T env self with
    | none => simp
    | some a =>
      obtain ⟨x, y, z, rfl⟩ := (isVec_iff a).mp (hvec a ha)
      cases hb : evalNode T env arg with
      | none => simp
      | some b => cases refl <;> simp [pyBin_mul_vec_comm]
  · have : (op == BinOp.mul) = false := by simpa using hm
    simp [this]

/-! ### an invariant of the forests `build` produces: a VectorOperatorDistribution sits on a vector-typed object -/
mutual
  /-- every VectorOperatorDistribution reachable without entering another distribution (i.e. through raw
      tuples, TupleDistributions and Vectors with random coordinates, whose elements later operators can pick out)
      was built on an object whose static type is Vector -/
  def vecWF : Node → Bool
    | .vop _ _ obj _ => obj.vty == .vector
    | .rawt _ xs => vecWFs xs
    | .tupd _ xs => vecWFs xs
    | .vecOf x y z => vecWF x && vecWF y && vecWF z
    | _ => true
  def vecWFs : List Node → Bool
    | [] => true
    | x :: rest => vecWF x && vecWFs rest
end

theorem vecDist_vty (n : Node) (hw : vecWF n = true) (hv : n.isVecDist = true) : n.vty = .vector := by
  cases n <;> simp [Node.isVecDist] at hv
  · simp only [vecWF, beq_iff_eq] at hw
    simp [Node.vty, hw]
  · simp [Node.vty]

theorem vecTyped_hvec (T : Tables) (env : Env) (n : Node) (h : n.vty = .vector) :
    ∀ a, evalNode T env n = some a → a.isVec = true :=
  fun a ha => (vty_sound T env n a ha).2 h

theorem vecDist_hvec (T : Tables) (env : Env) (n : Node) (hw : vecWF n = true) (hv : n.isVecDist = true) :
    ∀ a, evalNode T env n = some a → a.isVec = true :=
  vecTyped_hvec T env n (vecDist_vty n hw hv)

/-! ### binary operators at compile time -/

theorem pyBin_seq_mul_num (k : Bool) (vs : List Val) (n : Rat) :
    pyBin .mul (.seq k vs) (.num n) = (asIndex n).map fun i => .seq k (repeatList i vs) := by
  simp [pyBin, seqBin]

theorem pyBin_num_mul_seq (k : Bool) (vs : List Val) (n : Rat) :
    pyBin .mul (.num n) (.seq k vs) = (asIndex n).map fun i => .seq k (repeatList i vs) := by
  simp [pyBin, seqBin]

theorem pyBin_seq_add_seq (k k' : Bool) (vs ws : List Val) :
    pyBin .add (.seq k vs) (.seq k' ws) = if k = k' then some (.seq k (vs ++ ws)) else none := by
  simp [pyBin, seqBin]

/-- repetition of a raw tuple whose elements evaluate -/
theorem rawRepeat_eval (T : Tables) (env : Env) (k : Bool) (xs : List Node) (n : Rat) (vs : List Val)
    (hvs : evalNodes T env xs = some vs) :
    evalNode T env (rawRepeat k xs n) = (asIndex n).map fun i => .seq k (repeatList i vs) := by
  unfold rawRepeat
  cases hi : asIndex n with
  | none => simp [evalNode]
  | some i =>
    by_cases hle : i ≤ 0
    · simp [evalNode, hle, repeatList_nonpos i vs hle]
    · simp only [hle, if_false, evalNode, Option.map_some]
      unfold repeatList
      rw [evalNodes_replicate T env xs vs hvs]
      rfl

theorem rawMulOK_some (T : Tables) (env : Env) (k : Bool) (xs : List Node)
    (h : rawMulOK T env .mul (.rawt k xs) = true) : ∃ vs, evalNodes T env xs = some vs := by
  simp only [rawMulOK, bne_self_eq_false, Bool.false_or, evalsSome, evalNode, Option.isSome_map] at h
  exact Option.isSome_iff_exists.mp h

theorem constLeft_eval (T : Tables) (hT : T.WF = true) (env : Env) (op : BinOp) (c : Val) (r : Node)
    (hcv : c.isVec = false) (hrc : r.isConst = false) (hrf : r.isFail = false) (hwr : vecWF r = true)
    (hok : constLeftOK T env op r = true) :
    evalNode T env (constLeft T op c (.const c) r) = (evalNode T env r).bind fun b => pyBin op c b := by
  unfold constLeft
  unfold constLeftOK at hok
  by_cases hv : r.isVecDist = true
  · simp only [hv, if_true]
    rw [vhandler_eval T hT env op true r (.const c) (vecDist_hvec T env r hwr hv)]
    simp [evalNode]
  · simp only [hv, Bool.false_eq_true, if_false] at hok ⊢
    by_cases hd : r.isDist = true
    · simp only [hd, if_true]
      rw [handler_eval T hT env op true r (.const c)]
      simp [evalNode]
    · simp only [hd, Bool.false_eq_true, if_false] at hok ⊢
      cases r with
      | vecOf x y z =>
        simp only []
        rw [vecHelper_eval T hT env op true (.vecOf x y z) (.const c) (vecTyped_hvec T env _ rfl)]
        · simp [evalNode]
        · simp [vecHelperOK, vecCoreOK]
      | rawt k ys =>
        simp only [] at hok ⊢
        cases c with
        | seq k' xs =>
          simp only []
          by_cases hk : (op == .add && k == k') = true
          · rw [if_pos hk]
            simp only [Bool.and_eq_true, beq_iff_eq] at hk
            obtain ⟨rfl, rfl⟩ := hk
            simp only [evalNode, evalNodes_append, evalNodes_consts, Option.bind_some]
            cases evalNodes T env ys <;> simp [pyBin_seq_add_seq]
          · rw [if_neg hk]
            simp only [evalNode]
            cases evalNodes T env ys with
            | none => simp
            | some ws =>
              simp only [Option.map_some, Option.bind_some]
              cases op <;> simp [pyBin, seqBin] at hk ⊢
              intro h; exact absurd h.symm hk
        | num n =>
          simp only []
          by_cases hm : (op == .mul) = true
          · rw [if_pos hm]
            have : op = .mul := by simpa using hm
            subst this
            obtain ⟨vs, hvs⟩ := rawMulOK_some T env k ys hok
            rw [rawRepeat_eval T env k ys n vs hvs]
            simp [evalNode, hvs, pyBin_num_mul_seq]
          · rw [if_neg hm]
            simp only [evalNode]
            cases evalNodes T env ys with
            | none => simp
            | some ws => cases op <;> simp [pyBin, seqBin] at hm ⊢
        | none => simp only [evalNode]; cases evalNodes T env ys <;> simp [pyBin, seqBin]
        | str s => simp only [evalNode]; cases evalNodes T env ys <;> cases op <;> simp [pyBin, seqBin]
        | vec x y z => simp [Val.isVec] at hcv
      | const d => simp [Node.isConst] at hrc
      | fail => simp [Node.isFail] at hrf
      | _ => simp [Node.isDist] at hd

theorem rawLeft_eval (T : Tables) (hT : T.WF = true) (env : Env) (op : BinOp) (k : Bool) (xs : List Node) (r : Node)
    (hrf : r.isFail = false) (hwr : vecWF r = true)
    (hmul : rawMulOK T env op (.rawt k xs) = true)
    (hvok : rawVecOK T env op (.rawt k xs) r = true) :
    evalNode T env (rawLeft T op k xs (.rawt k xs) r) =
      (evalNode T env (.rawt k xs)).bind fun a => (evalNode T env r).bind fun b => pyBin op a b := by
  unfold rawLeft
  by_cases hrv : r.isVecDist = true
  · rw [if_pos hrv, vhandler_eval T hT env op true r _ (vecDist_hvec T env r hwr hrv)]
    simp only [if_true]
    exact bind_comm _ _ _
  · rw [if_neg hrv]
    by_cases hrd : r.isDist = true
    · rw [if_pos hrd, handler_eval T hT env op true r _]
      simp only [if_true]
      exact bind_comm _ _ _
    · rw [if_neg hrd]
      cases r with
      | vecOf x y z =>
        simp only []
        rw [vecHelper_eval T hT env op true (.vecOf x y z) _ (vecTyped_hvec T env _ rfl)]
        · simp only [if_true]
          exact bind_comm _ _ _
        · simp [vecHelperOK, vecCoreOK]
      | const d =>
        cases d with
        | vec x y z =>
          simp only [rawVecOK] at hvok
          simp only []
          rw [vecHelper_eval T hT env op true (.const (.vec x y z)) _ (vecTyped_hvec T env _ rfl) hvok]
          simp only [if_true]
          exact bind_comm _ _ _
        | num n =>
          simp only []
          by_cases hm : (op == .mul) = true
          · rw [if_pos hm]
            have : op = .mul := by simpa using hm
            subst this
            obtain ⟨vs, hvs⟩ := rawMulOK_some T env k xs hmul
            rw [rawRepeat_eval T env k xs n vs hvs]
            simp [evalNode, hvs, pyBin_seq_mul_num]
          · rw [if_neg hm]
            simp only [evalNode]
            cases evalNodes T env xs with
            | none => simp
            | some ws => cases op <;> simp [pyBin, seqBin] at hm ⊢
        | seq k' ys =>
          simp only []
          by_cases hk : (op == .add && k == k') = true
          · rw [if_pos hk]
            simp only [Bool.and_eq_true, beq_iff_eq] at hk
            obtain ⟨rfl, rfl⟩ := hk
            simp only [evalNode, evalNodes_append, evalNodes_consts, Option.bind_some]
            cases evalNodes T env xs <;> simp [pyBin_seq_add_seq]
          · rw [if_neg hk]
            simp only [evalNode]
            cases evalNodes T env xs with
            | none => simp
            | some ws =>
              simp only [Option.map_some, Option.bind_some]
              cases op <;> simp [pyBin, seqBin] at hk ⊢
              exact hk
        | none => simp only [evalNode]; cases evalNodes T env xs <;> simp [pyBin, seqBin]
        | str s => simp only [evalNode]; cases evalNodes T env xs <;> cases op <;> simp [pyBin, seqBin]
      | rawt k' ys =>
        simp only []
        by_cases hk : (op == .add && k == k') = true
        · rw [if_pos hk]
          simp only [Bool.and_eq_true, beq_iff_eq] at hk
          obtain ⟨rfl, rfl⟩ := hk
          simp only [evalNode, evalNodes_append]
          cases evalNodes T env xs <;> simp
          cases evalNodes T env ys <;> simp [pyBin_seq_add_seq]
        · rw [if_neg hk]
          simp only [evalNode]
          cases evalNodes T env xs with
          | none => simp
          | some vs =>
            cases evalNodes T env ys with
            | none => simp
            | some ws =>
              simp only [Option.map_some, Option.bind_some]
              cases op <;> simp [pyBin, seqBin] at hk ⊢
              exact hk
      | fail => simp [Node.isFail] at hrf
      | _ => simp [Node.isDist] at hrd

theorem binGen_eval (T : Tables) (hT : T.WF = true) (env : Env) (op : BinOp) (l r : Node)
    (hlf : l.isFail = false) (hrf : r.isFail = false) (hcc : (l.isConst && r.isConst) = false)
    (hwl : vecWF l = true) (hwr : vecWF r = true)
    (hok : binGenOK T env op l r = true) :
    evalNode T env (binGen T op l r) =
      (evalNode T env l).bind fun a => (evalNode T env r).bind fun b => pyBin op a b := by
  unfold binGen
  unfold binGenOK at hok
  by_cases hv : l.isVecDist = true
  · simp only [hv, if_true]
    rw [vhandler_eval T hT env op false l r (vecDist_hvec T env l hwl hv)]
    simp
  · simp only [hv, Bool.false_eq_true, if_false] at hok ⊢
    by_cases hd : l.isDist = true
    · simp only [hd, if_true]
      rw [handler_eval T hT env op false l r]
      simp
    · simp only [hd, Bool.false_eq_true, if_false] at hok ⊢
      cases l with
      | vecOf x y z =>
        simp only []
        rw [vecHelper_eval T hT env op false (.vecOf x y z) r (vecTyped_hvec T env _ rfl)]
        · simp
        · simp [vecHelperOK, vecCoreOK]
      | const c =>
        have hrc : r.isConst = false := by simpa [Node.isConst] using hcc
        cases c with
        | vec x y z =>
          simp only [] at hok ⊢
          rw [vecHelper_eval T hT env op false (.const (.vec x y z)) r (vecTyped_hvec T env _ rfl) hok]
          simp
        | str s =>
          simp only [Bool.and_eq_true, bne_iff_ne, ne_eq] at hok ⊢
          obtain ⟨hm, hok⟩ := hok
          have : (op == BinOp.mod) = false := by simpa using hm
          simp only [this, Bool.false_eq_true, if_false]
          rw [constLeft_eval T hT env op (.str s) r rfl hrc hrf hwr hok]
          simp [evalNode]
        | num q =>
          simp only [] at hok ⊢
          rw [constLeft_eval T hT env op (.num q) r rfl hrc hrf hwr hok]
          simp [evalNode]
        | none =>
          simp only [] at hok ⊢
          rw [constLeft_eval T hT env op .none r rfl hrc hrf hwr hok]
          simp [evalNode]
        | seq k xs =>
          simp only [] at hok ⊢
          rw [constLeft_eval T hT env op (.seq k xs) r rfl hrc hrf hwr hok]
          simp [evalNode]
      | rawt k xs =>
        simp only [Bool.and_eq_true] at hok
        exact rawLeft_eval T hT env op k xs r hrf hwr hok.1 hok.2
      | fail => simp [Node.isFail] at hlf
      | _ => simp [Node.isDist] at hd

theorem binBuild_eval (T : Tables) (hT : T.WF = true) (env : Env) (op : BinOp) (l r : Node)
    (hwl : vecWF l = true) (hwr : vecWF r = true)
    (hok : binOK T env op l r = true) :
    evalNode T env (binBuild T op l r) =
      (evalNode T env l).bind fun a => (evalNode T env r).bind fun b => pyBin op a b := by
  unfold binBuild
  split
  · simp [evalNode]
  · simp [evalNode, bind_none_right]
  · simp [evalNode, eval_optNode]
  · rename_i h1 h2 h3
    have hlf : l.isFail = false := by cases l <;> simp [Node.isFail]; exact h1 rfl
    have hrf : r.isFail = false := by cases r <;> simp [Node.isFail]; exact h2 rfl
    have hcc : (l.isConst && r.isConst) = false := by
      cases l <;> cases r <;> simp [Node.isConst]
      exact h3 _ _ rfl rfl
    have hok' : binGenOK T env op l r = true := by
      unfold binOK at hok
      split at hok
      · simp [Node.isFail] at hlf
      · simp [Node.isFail] at hrf
      · simp [Node.isConst] at hcc
      · exact hok
    exact binGen_eval T hT env op l r hlf hrf hcc hwl hwr hok'

/-! ### `build` only produces forests satisfying `vecWF` -/

theorem vecWF_optNode (o : Option Val) : vecWF (optNode o) = true := by
  cases o <;> simp [optNode, vecWF]

mutual
  theorem vecWF_toDist : ∀ n : Node, vecWF (toDist n) = vecWF n
    | .rawt k xs => by simp [toDist, vecWF, vecWFs_toDistList xs]
    | .const _ | .leaf .. | .opd2 .. | .opd1 .. | .geti .. | .lend .. | .attrd .. | .vop .. | .vmeth .. | .vecOf ..
    | .tupd .. | .fnd .. | .fail => by simp [toDist]
  theorem vecWFs_toDistList : ∀ ns : List Node, vecWFs (toDistList ns) = vecWFs ns
    | [] => by simp [toDistList]
    | n :: rest => by simp [toDistList, vecWFs, vecWF_toDist n, vecWFs_toDistList rest]
end

theorem vecWFs_append : ∀ xs ys : List Node, vecWFs (xs ++ ys) = (vecWFs xs && vecWFs ys)
  | [], ys => by simp [vecWFs]
  | x :: rest, ys => by simp [vecWFs, vecWFs_append rest ys, Bool.and_assoc]

theorem vecWFs_consts : ∀ vs : List Val, vecWFs (vs.map .const) = true
  | [] => rfl
  | v :: rest => by simp [vecWFs, vecWF, vecWFs_consts rest]

theorem vecWFs_replicate (xs : List Node) (h : vecWFs xs = true) :
    ∀ n : Nat, vecWFs (List.replicate n xs).flatten = true
  | 0 => by simp [vecWFs]
  | n + 1 => by simp [List.replicate_succ, vecWFs_append, h, vecWFs_replicate xs h n]

theorem vecWFs_getElem : ∀ (xs : List Node) (k : Nat), vecWFs xs = true → vecWF ((xs[k]?).getD .fail) = true
  | [], k, _ => by simp [vecWF]
  | x :: rest, k, h => by
    simp only [vecWFs, Bool.and_eq_true] at h
    cases k with
    | zero => simpa using h.1
    | succ k => simpa using vecWFs_getElem rest k h.2

theorem vecWFs_listIndex (xs : List Node) (i : Int) (h : vecWFs xs = true) :
    vecWF ((listIndex xs i).getD .fail) = true := by
  unfold listIndex
  simp only
  split <;> (split <;> first | exact vecWFs_getElem xs _ h | simp [vecWF])

theorem vecWF_handler (T : Tables) (op : BinOp) (refl : Bool) (self arg : Node) (hs : vecWF self = true) :
    vecWF (handler T op refl self arg) = true := by
  unfold handler
  split
  · exact hs
  · simp [vecWF]

theorem vecWF_vhandler (T : Tables) (op : BinOp) (refl : Bool) (self arg : Node) (hs : vecWF self = true)
    (hty : self.vty = .vector) : vecWF (vhandler T op refl self arg) = true := by
  unfold vhandler
  cases vecOpsLookup T op refl with
  | none => exact vecWF_handler T op refl self arg hs
  | some zi =>
    simp only [vhandlerCore]
    split
    · split
      · split
        · exact hs
        · simp [vecWF, hty]
      · simp [vecWF]
    · simp [vecWF, hty]

theorem vecWF_vecApply (T : Tables) (op : BinOp) (refl : Bool) (self arg : Node) (hs : vecWF self = true)
    (hty : self.vty = .vector) : vecWF (vecApply T op refl self arg) = true := by
  unfold vecApply
  split
  · split
    · simp [vecWF]
    · simp [vecWF, hty]
  · split
    · split
      · exact hs
      · simp [vecWF, hty]
    · simp [vecWF]

theorem vecWF_vecHelperCore (T : Tables) (op : BinOp) (refl : Bool) (self arg : Node) (hs : vecWF self = true)
    (hty : self.vty = .vector) (ha : vecWF arg = true) : vecWF (vecHelperCore T op refl self arg) = true := by
  unfold vecHelperCore
  by_cases h1 : (!vecHas op refl) = true
  · rw [if_pos h1]
    by_cases h2 : (arg.isDist && !refl) = true
    · rw [if_pos h2]
      by_cases hv : arg.isVecDist = true
      · rw [if_pos hv]
        exact vecWF_vhandler T op true arg self ha (vecDist_vty arg ha hv)
      · rw [if_neg hv]
        exact vecWF_handler T op true arg self ha
    · rw [if_neg h2]; simp [vecWF]
  · rw [if_neg h1]
    exact vecWF_vecApply T op refl self _ hs hty

theorem vecWF_vecHelper (T : Tables) (op : BinOp) (refl : Bool) (self arg : Node) (hs : vecWF self = true)
    (hty : self.vty = .vector) (ha : vecWF arg = true) : vecWF (vecHelper T op refl self arg) = true := by
  unfold vecHelper
  exact vecWF_vecHelperCore T op _ self arg hs hty ha

theorem vecWF_rawRepeat (k : Bool) (xs : List Node) (n : Rat) (h : vecWFs xs = true) :
    vecWF (rawRepeat k xs n) = true := by
  unfold rawRepeat
  split
  · split
    · simp [vecWF]
    · simp only [vecWF, repeatList]; exact vecWFs_replicate xs h _
  · simp [vecWF]

theorem vecWF_constLeft (T : Tables) (op : BinOp) (c : Val) (r : Node) (hr : vecWF r = true) :
    vecWF (constLeft T op c (.const c) r) = true := by
  unfold constLeft
  by_cases hv : r.isVecDist = true
  · rw [if_pos hv]
    exact vecWF_vhandler T op true r _ hr (vecDist_vty r hr hv)
  · rw [if_neg hv]
    by_cases hd : r.isDist = true
    · rw [if_pos hd]
      exact vecWF_handler T op true r _ hr
    · rw [if_neg hd]
      cases r with
      | vecOf x y z => exact vecWF_vecHelper T op true _ _ hr rfl (by simp [vecWF])
      | rawt k ys =>
        simp only [vecWF] at hr
        cases c with
        | seq k' xs =>
          simp only []
          split
          · simp [vecWF, vecWFs_append, vecWFs_consts, hr]
          · simp [vecWF]
        | num n =>
          simp only []
          split
          · exact vecWF_rawRepeat k ys n hr
          · simp [vecWF]
        | none => simp [vecWF]
        | str s => simp [vecWF]
        | vec x y z => simp [vecWF]
      | _ => simp [vecWF]

theorem vecWF_rawLeft (T : Tables) (op : BinOp) (k : Bool) (xs : List Node) (r : Node)
    (hl : vecWFs xs = true) (hr : vecWF r = true) :
    vecWF (rawLeft T op k xs (.rawt k xs) r) = true := by
  have hl' : vecWF (.rawt k xs) = true := by simpa [vecWF] using hl
  unfold rawLeft
  by_cases hv : r.isVecDist = true
  · rw [if_pos hv]
    exact vecWF_vhandler T op true r _ hr (vecDist_vty r hr hv)
  · rw [if_neg hv]
    by_cases hd : r.isDist = true
    · rw [if_pos hd]
      exact vecWF_handler T op true r _ hr
    · rw [if_neg hd]
      cases r with
      | vecOf x y z => exact vecWF_vecHelper T op true _ _ hr rfl hl'
      | rawt k' ys =>
        simp only [vecWF] at hr
        simp only []
        split
        · simp [vecWF, vecWFs_append, hl, hr]
        · simp [vecWF]
      | const d =>
        cases d with
        | vec x y z => exact vecWF_vecHelper T op true _ _ hr rfl hl'
        | seq k' ys =>
          simp only []
          split
          · simp [vecWF, vecWFs_append, vecWFs_consts, hl]
          · simp [vecWF]
        | num n =>
          simp only []
          split
          · exact vecWF_rawRepeat k xs n hl
          · simp [vecWF]
        | none => simp [vecWF]
        | str s => simp [vecWF]
      | _ => simp [vecWF]

theorem vecWF_binGen (T : Tables) (op : BinOp) (l r : Node) (hl : vecWF l = true) (hr : vecWF r = true) :
    vecWF (binGen T op l r) = true := by
  unfold binGen
  by_cases hv : l.isVecDist = true
  · rw [if_pos hv]
    exact vecWF_vhandler T op false l r hl (vecDist_vty l hl hv)
  · rw [if_neg hv]
    by_cases hd : l.isDist = true
    · rw [if_pos hd]
      exact vecWF_handler T op false l r hl
    · rw [if_neg hd]
      cases l with
      | vecOf x y z => exact vecWF_vecHelper T op false _ r hl rfl hr
      | const c =>
        cases c with
        | vec x y z => exact vecWF_vecHelper T op false _ r hl rfl hr
        | str s =>
          simp only []
          split
          · simp [vecWF]
          · exact vecWF_constLeft T op _ r hr
        | num q => exact vecWF_constLeft T op _ r hr
        | none => exact vecWF_constLeft T op _ r hr
        | seq k xs => exact vecWF_constLeft T op _ r hr
      | rawt k xs =>
        simp only [vecWF] at hl
        exact vecWF_rawLeft T op k xs r hl hr
      | _ => simp [vecWF]

theorem vecWF_binBuild (T : Tables) (op : BinOp) (l r : Node) (hl : vecWF l = true) (hr : vecWF r = true) :
    vecWF (binBuild T op l r) = true := by
  unfold binBuild
  split
  · simp [vecWF]
  · simp [vecWF]
  · exact vecWF_optNode _
  · exact vecWF_binGen T op l r hl hr

theorem vecWF_unBuild (op : UnOp) (n : Node) : vecWF (unBuild op n) = true := by
  unfold unBuild
  split
  · simp [vecWF]
  · exact vecWF_optNode _
  · split <;> simp [vecWF]

theorem vecWF_getitemBuild (obj idx : Node) (ho : vecWF obj = true) : vecWF (getitemBuild obj idx) = true := by
  unfold getitemBuild
  split
  · simp [vecWF]
  · simp [vecWF]
  · exact vecWF_optNode _
  · by_cases hd : obj.isDist = true
    · rw [if_pos hd]; simp [vecWF]
    · rw [if_neg hd]
      cases obj with
      | rawt k xs =>
        simp only [vecWF] at ho
        simp only []
        split
        · exact vecWFs_listIndex _ _ ho
        · simp [vecWF]
      | vecOf x y z =>
        have : vecWFs [x, y, z] = true := by simpa [vecWF, vecWFs, Bool.and_assoc] using ho
        simp only []
        split
        · exact vecWFs_listIndex _ _ this
        · simp [vecWF]
      | _ => simp [vecWF]

theorem vecWF_lenBuild (n : Node) : vecWF (lenBuild n) = true := by
  unfold lenBuild
  split
  · simp [vecWF]
  · exact vecWF_optNode _
  · simp [vecWF]
  · simp [vecWF]
  · split <;> simp [vecWF]

theorem vecWF_attrBuild (name : String) (n : Node) (h : vecWF n = true) : vecWF (attrBuild name n) = true := by
  cases n with
  | fail => simp [attrBuild, vecWF]
  | const v => simp only [attrBuild]; exact vecWF_optNode _
  | vecOf x y z =>
    simp only [vecWF, Bool.and_eq_true] at h
    simp only [attrBuild]
    split
    · exact h.1.1
    · split
      · exact h.1.2
      · split
        · exact h.2
        · simp [vecWF]
  | _ => simp only [attrBuild]; split <;> simp [vecWF]

theorem vecWF_seqBuild (k : Bool) (ns : List Node) (h : vecWFs ns = true) : vecWF (seqBuild k ns) = true := by
  unfold seqBuild
  split
  · simp [vecWF]
  · split
    · simp [vecWF]
    · simpa [vecWF] using h

theorem vecWF_vecBuild (x y z : Node) (hx : vecWF x = true) (hy : vecWF y = true) (hz : vecWF z = true) :
    vecWF (vecBuild x y z) = true := by
  unfold vecBuild
  split
  · simp [vecWF]
  · simp [vecWF]
  · simp [vecWF]
  · exact vecWF_optNode _
  · simp [vecWF, hx, hy, hz]

theorem vecWF_callBuild (f : Fn) (args : Option (List Node × List Bool)) : vecWF (callBuild f args) = true := by
  unfold callBuild
  split
  · simp [vecWF]
  · split
    · simp [vecWF]
    · simp only []
      split
      · simp [vecWF]
      · split
        · exact vecWF_optNode _
        · simp [vecWF]

mutual
  /-- every forest `build` produces satisfies `vecWF` -/
  theorem build_vecWF (T : Tables) : ∀ e : Expr, vecWF (build T e) = true
    | .const v => by simp [build, vecWF]
    | .leaf i ty => by simp [build, vecWF]
    | .bin op l r => by
      simp only [build]
      exact vecWF_binBuild T op _ _ (build_vecWF T l) (build_vecWF T r)
    | .un op e => by simp only [build]; exact vecWF_unBuild op _
    | .getitem e i => by simp only [build]; exact vecWF_getitemBuild _ _ (build_vecWF T e)
    | .len e => by simp only [build]; exact vecWF_lenBuild _
    | .attr e name => by simp only [build]; exact vecWF_attrBuild name _ (build_vecWF T e)
    | .mkseq k es => by simp only [build]; exact vecWF_seqBuild k _ (buildList_vecWFs T es)
    | .mkvec x y z => by
      simp only [build]
      exact vecWF_vecBuild _ _ _ (build_vecWF T x) (build_vecWF T y) (build_vecWF T z)
    | .call f args => by simp only [build]; exact vecWF_callBuild f _
  theorem buildList_vecWFs (T : Tables) : ∀ es : List Expr, vecWFs (buildList T es) = true
    | [] => by simp [buildList, vecWFs]
    | e :: rest => by simp [buildList, vecWFs, build_vecWF T e, buildList_vecWFs T rest]
end

end Scenic.Expr
