import ScenicModel.Model.Support
import Mathlib.Tactic.Ring
import Mathlib.Tactic.Linarith
import Mathlib.Tactic.NormNum
import Mathlib.Tactic.SplitIfs
import Mathlib.Algebra.Order.Field.Basic

/-! Helper lemmas for C05 (support intervals). -/
namespace Scenic.Support
open Scenic.Expr

/-- `v` lies inside the reported bounds (an unknown bound constrains nothing) -/
def within (s : Supp) (v : Rat) : Prop :=
  (∀ l, s.1 = some l → l ≤ v) ∧ (∀ h, s.2 = some h → v ≤ h)

theorem within_none (v : Rat) : within (none, none) v := by
  constructor <;> intro _ h <;> simp at h

theorem rmin_le_left (a b : Rat) : rmin a b ≤ a := by unfold rmin; split <;> linarith
theorem rmin_le_right (a b : Rat) : rmin a b ≤ b := by unfold rmin; split <;> linarith
theorem le_rmin {a b c : Rat} (h1 : c ≤ a) (h2 : c ≤ b) : c ≤ rmin a b := by unfold rmin; split <;> assumption
theorem le_rmax_left (a b : Rat) : a ≤ rmax a b := by unfold rmax; split <;> linarith
theorem le_rmax_right (a b : Rat) : b ≤ rmax a b := by unfold rmax; split <;> linarith
theorem rmax_le {a b c : Rat} (h1 : a ≤ c) (h2 : b ≤ c) : rmax a b ≤ c := by unfold rmax; split <;> assumption

theorem rmin_mono {a b a' b' : Rat} (h1 : a ≤ a') (h2 : b ≤ b') : rmin a b ≤ rmin a' b' :=
  le_rmin (le_trans (rmin_le_left a b) h1) (le_trans (rmin_le_right a b) h2)
theorem rmax_mono {a b a' b' : Rat} (h1 : a ≤ a') (h2 : b ≤ b') : rmax a b ≤ rmax a' b' :=
  rmax_le (le_trans h1 (le_rmax_left a' b')) (le_trans h2 (le_rmax_right a' b'))

/-- `t * c` lies between the products of the ends of an interval containing `t` -/
theorem mul_between (a b t c : Rat) (h1 : a ≤ t) (h2 : t ≤ b) :
    rmin (a * c) (b * c) ≤ t * c ∧ t * c ≤ rmax (a * c) (b * c) := by
  rcases le_total 0 c with hc | hc
  · constructor
    · exact le_trans (rmin_le_left _ _) (by nlinarith)
    · exact le_trans (by nlinarith) (le_rmax_right _ _)
  · constructor
    · exact le_trans (rmin_le_right _ _) (by nlinarith)
    · exact le_trans (by nlinarith) (le_rmax_left _ _)

/-- interval multiplication: the product lies between the smallest and the largest product of end points -/
theorem mul_bounds (l1 r1 l2 r2 x y : Rat) (hx1 : l1 ≤ x) (hx2 : x ≤ r1) (hy1 : l2 ≤ y) (hy2 : y ≤ r2) :
    rmin4 (l1 * l2) (l1 * r2) (r1 * l2) (r1 * r2) ≤ x * y ∧ x * y ≤ rmax4 (l1 * l2) (l1 * r2) (r1 * l2) (r1 * r2) := by
  obtain ⟨hA, hB⟩ := mul_between l1 r1 x y hx1 hx2
  have h1 := mul_between l2 r2 y l1 hy1 hy2
  have h2 := mul_between l2 r2 y r1 hy1 hy2
  have e1 : l1 * y = y * l1 := by ring
  have e2 : r1 * y = y * r1 := by ring
  have c1 : l2 * l1 = l1 * l2 := by ring
  have c2 : r2 * l1 = l1 * r2 := by ring
  have c3 : l2 * r1 = r1 * l2 := by ring
  have c4 : r2 * r1 = r1 * r2 := by ring
  rw [c1, c2] at h1
  rw [c3, c4] at h2
  rw [← e1] at h1
  rw [← e2] at h2
  unfold rmin4 rmax4
  constructor
  · exact le_trans (rmin_mono h1.1 h2.1) hA
  · exact le_trans hB (rmax_mono h1.2 h2.2)

theorem div_le_div_cross {a b c d : Rat} (hc : 0 < c) (hd : 0 < d) (h : a * d ≤ b * c) : a / c ≤ b / d := by
  rw [div_le_div_iff₀ hc hd]; exact h

/-- interval division by a positive interval: lower end -/
theorem div_lower (l1 l2 r2 x y : Rat) (hl2 : 0 < l2) (hx : l1 ≤ x) (hy1 : l2 ≤ y) (hy2 : y ≤ r2) :
    (if l1 ≥ 0 then l1 / r2 else l1 / l2) ≤ x / y := by
  have hy : 0 < y := lt_of_lt_of_le hl2 hy1
  have hr2 : 0 < r2 := lt_of_lt_of_le hy hy2
  split_ifs with h
  · apply div_le_div_cross hr2 hy
    nlinarith [mul_le_mul_of_nonneg_left hy2 h, mul_le_mul_of_nonneg_right hx (le_of_lt hr2)]
  · apply div_le_div_cross hl2 hy
    have h' : l1 ≤ 0 := le_of_lt (not_le.mp h)
    nlinarith [mul_le_mul_of_nonpos_left hy1 h', mul_le_mul_of_nonneg_right hx (le_of_lt hl2)]

/-- interval division by a positive interval: upper end -/
theorem div_upper (r1 l2 r2 x y : Rat) (hl2 : 0 < l2) (hx : x ≤ r1) (hy1 : l2 ≤ y) (hy2 : y ≤ r2) :
    x / y ≤ (if r1 ≥ 0 then r1 / l2 else r1 / r2) := by
  have hy : 0 < y := lt_of_lt_of_le hl2 hy1
  have hr2 : 0 < r2 := lt_of_lt_of_le hy hy2
  split_ifs with h
  · apply div_le_div_cross hy hl2
    nlinarith [mul_le_mul_of_nonneg_left hy1 h, mul_le_mul_of_nonneg_right hx (le_of_lt hl2)]
  · apply div_le_div_cross hy hr2
    have h' : r1 ≤ 0 := le_of_lt (not_le.mp h)
    nlinarith [mul_le_mul_of_nonpos_left hy2 h', mul_le_mul_of_nonneg_right hx (le_of_lt hr2)]

/-- `|x|` on rationals -/
def absR (x : Rat) : Rat := if x < 0 then -x else x

theorem absR_nonneg (x : Rat) : 0 ≤ absR x := by unfold absR; split <;> linarith
theorem absR_of_nonneg {x : Rat} (h : 0 ≤ x) : absR x = x := by
  unfold absR; split
  · linarith
  · rfl

/-- the only property of `math.hypot` the support theorem uses: it is monotone in the absolute values of its
    arguments -/
def HypMono (hyp : List Rat → Rat) : Prop :=
  ∀ xs ys : List Rat, List.Forall₂ (fun x y => absR x ≤ absR y) xs ys → hyp xs ≤ hyp ys

/-- what it means for the per-operator formulas to be sound: for every value `x` inside the bounds of the object
    and `y` inside those of the operand, the result of the operator lies inside the computed bounds -/
structure Formulas.Sound (F : Formulas) : Prop where
  add : ∀ l1 r1 l2 r2 x y : Rat, l1 ≤ x → x ≤ r1 → l2 ≤ y → y ≤ r2 → within (F.add l1 r1 l2 r2) (x + y)
  sub : ∀ l1 r1 l2 r2 x y : Rat, l1 ≤ x → x ≤ r1 → l2 ≤ y → y ≤ r2 → within (F.sub l1 r1 l2 r2) (x - y)
  rsub : ∀ l1 r1 l2 r2 x y : Rat, l1 ≤ x → x ≤ r1 → l2 ≤ y → y ≤ r2 → within (F.rsub l1 r1 l2 r2) (y - x)
  mul : ∀ l1 r1 l2 r2 x y : Rat, l1 ≤ x → x ≤ r1 → l2 ≤ y → y ≤ r2 → within (F.mul l1 r1 l2 r2) (x * y)
  truediv : ∀ l1 r1 l2 r2 x y : Rat, l1 ≤ x → x ≤ r1 → l2 ≤ y → y ≤ r2 → y ≠ 0 →
    within (F.truediv l1 r1 l2 r2) (x / y)
  rtruediv : ∀ l1 r1 l2 r2 x y : Rat, l1 ≤ x → x ≤ r1 → l2 ≤ y → y ≤ r2 → x ≠ 0 →
    within (F.rtruediv l1 r1 l2 r2) (y / x)
  neg : ∀ l r x : Rat, l ≤ x → x ≤ r → within (F.neg l r) (-x)
  abs : ∀ l r x : Rat, l ≤ x → x ≤ r → within (F.abs l r) (if x < 0 then -x else x)
  hypAbs : ∀ l r x : Rat, l ≤ x → x ≤ r →
    0 ≤ (F.hypAbs l r).1 ∧ (F.hypAbs l r).1 ≤ absR x ∧ absR x ≤ (F.hypAbs l r).2

/-! ### the dispatch tables -/

theorem binF_spec (F : Formulas) (hT : F.tableOK = true) (op : BinOp) (refl : Bool)
    (f : Rat → Rat → Rat → Rat → Supp) (hf : F.binF op refl = some f) :
    ∃ k, f = F.binOf k ∧ (op, refl, k) ∈ expectedBinOps := by
  unfold Formulas.binF at hf
  cases hfind : F.binOps.find? (fun e => e.1 == op && e.2.1 == refl) with
  | none => simp [hfind] at hf
  | some e =>
    simp [hfind] at hf
    have hmem := List.mem_of_find?_eq_some hfind
    have hp := List.find?_some hfind
    simp only [Bool.and_eq_true, beq_iff_eq] at hp
    unfold Formulas.tableOK at hT
    simp only [Bool.and_eq_true, List.all_eq_true, List.contains_iff_mem] at hT
    have := hT.1 e hmem
    refine ⟨e.2.2, hf.symm, ?_⟩
    rw [← hp.1, ← hp.2]
    exact this

theorem unF_spec (F : Formulas) (hT : F.tableOK = true) (op : UnOp) (f : Rat → Rat → Supp)
    (hf : F.unF op = some f) : ∃ k, f = F.unOf k ∧ (op, k) ∈ expectedUnOps := by
  unfold Formulas.unF at hf
  cases hfind : F.unOps.find? (fun e => e.1 == op) with
  | none => simp [hfind] at hf
  | some e =>
    simp [hfind] at hf
    have hmem := List.mem_of_find?_eq_some hfind
    have hp := List.find?_some hfind
    simp only [beq_iff_eq] at hp
    unfold Formulas.tableOK at hT
    simp only [Bool.and_eq_true, List.all_eq_true, List.contains_iff_mem] at hT
    have := hT.2 e hmem
    refine ⟨e.2, hf.symm, ?_⟩
    rw [← hp]
    exact this

/-- the formula selected for a binary operator bounds the value the operator computes -/
theorem bin_sound (F : Formulas) (hF : F.Sound) (hT : F.tableOK = true) (op : BinOp) (refl : Bool)
    (f : Rat → Rat → Rat → Rat → Supp) (hf : F.binF op refl = some f)
    (l1 r1 l2 r2 x y v : Rat) (hx1 : l1 ≤ x) (hx2 : x ≤ r1) (hy1 : l2 ≤ y) (hy2 : y ≤ r2)
    (hv : numBin op (if refl then y else x) (if refl then x else y) = some v) :
    within (f l1 r1 l2 r2) v := by
  obtain ⟨k, rfl, hk⟩ := binF_spec F hT op refl f hf
  simp only [expectedBinOps, List.mem_cons, Prod.mk.injEq, List.mem_nil_iff, or_false] at hk
  rcases hk with ⟨rfl, rfl, rfl⟩ | ⟨rfl, rfl, rfl⟩ | ⟨rfl, rfl, rfl⟩ | ⟨rfl, rfl, rfl⟩ | ⟨rfl, rfl, rfl⟩ |
    ⟨rfl, rfl, rfl⟩ | ⟨rfl, rfl, rfl⟩ | ⟨rfl, rfl, rfl⟩
  · simp [numBin] at hv; subst hv; exact hF.add l1 r1 l2 r2 x y hx1 hx2 hy1 hy2
  · simp [numBin] at hv; subst hv
    have := hF.add l1 r1 l2 r2 x y hx1 hx2 hy1 hy2
    rwa [add_comm] at this
  · simp [numBin] at hv; subst hv; exact hF.sub l1 r1 l2 r2 x y hx1 hx2 hy1 hy2
  · simp [numBin] at hv; subst hv; exact hF.rsub l1 r1 l2 r2 x y hx1 hx2 hy1 hy2
  · simp [numBin] at hv; subst hv; exact hF.mul l1 r1 l2 r2 x y hx1 hx2 hy1 hy2
  · simp [numBin] at hv; subst hv
    have := hF.mul l1 r1 l2 r2 x y hx1 hx2 hy1 hy2
    rwa [mul_comm] at this
  · simp only [numBin, Bool.false_eq_true, if_false] at hv
    split at hv
    · simp at hv
    · rename_i hy0
      simp at hv; subst hv
      exact hF.truediv l1 r1 l2 r2 x y hx1 hx2 hy1 hy2 hy0
  · simp only [numBin, if_true] at hv
    split at hv
    · simp at hv
    · rename_i hx0
      simp at hv; subst hv
      exact hF.rtruediv l1 r1 l2 r2 x y hx1 hx2 hy1 hy2 hx0

/-! ### unions of supports, monotone functions -/

theorem supFold_rmin_le : ∀ (os : List (Option Rat)) (L : Rat), supFold rmin os = some L →
    ∀ o ∈ os, ∃ a, o = some a ∧ L ≤ a
  | [], L, h, _, ho => by simp at ho
  | [x], L, h, o, ho => by
    simp only [supFold] at h
    simp only [List.mem_singleton] at ho
    subst ho; exact ⟨L, h, le_refl _⟩
  | x :: y :: rest, L, h, o, ho => by
    simp only [supFold] at h
    cases x with
    | none => simp at h
    | some a =>
      cases hr : supFold rmin (y :: rest) with
      | none => simp [hr] at h
      | some b =>
        simp [hr] at h; subst h
        rcases List.mem_cons.mp ho with rfl | ho'
        · exact ⟨a, rfl, rmin_le_left a b⟩
        · obtain ⟨c, hc, hle⟩ := supFold_rmin_le (y :: rest) b hr o ho'
          exact ⟨c, hc, le_trans (rmin_le_right a b) hle⟩

theorem supFold_rmax_ge : ∀ (os : List (Option Rat)) (H : Rat), supFold rmax os = some H →
    ∀ o ∈ os, ∃ a, o = some a ∧ a ≤ H
  | [], H, h, _, ho => by simp at ho
  | [x], H, h, o, ho => by
    simp only [supFold] at h
    simp only [List.mem_singleton] at ho
    subst ho; exact ⟨H, h, le_refl _⟩
  | x :: y :: rest, H, h, o, ho => by
    simp only [supFold] at h
    cases x with
    | none => simp at h
    | some a =>
      cases hr : supFold rmax (y :: rest) with
      | none => simp [hr] at h
      | some b =>
        simp [hr] at h; subst h
        rcases List.mem_cons.mp ho with rfl | ho'
        · exact ⟨a, rfl, le_rmax_left a b⟩
        · obtain ⟨c, hc, hle⟩ := supFold_rmax_ge (y :: rest) b hr o ho'
          exact ⟨c, hc, le_trans hle (le_rmax_right a b)⟩

/-- a value inside one of the supports is inside their union -/
theorem within_union (ss : List Supp) (s : Supp) (hs : s ∈ ss) (v : Rat) (h : within s v) :
    within (unionOfSupports ss) v := by
  unfold unionOfSupports
  constructor
  · intro L hL
    obtain ⟨a, ha, hle⟩ := supFold_rmin_le _ L hL s.1 (List.mem_map_of_mem hs)
    exact le_trans hle (h.1 a ha)
  · intro H hH
    obtain ⟨a, ha, hle⟩ := supFold_rmax_ge _ H hH s.2 (List.mem_map_of_mem hs)
    exact le_trans (h.2 a ha) hle

theorem ratMax_mono {a b a' b' : Rat} (h1 : a ≤ a') (h2 : b ≤ b') : ratMax a b ≤ ratMax a' b' := by
  unfold ratMax; split <;> split <;> linarith
theorem ratMin_mono {a b a' b' : Rat} (h1 : a ≤ a') (h2 : b ≤ b') : ratMin a b ≤ ratMin a' b' := by
  unfold ratMin; split <;> split <;> linarith

theorem foldl_mono (g : Rat → Rat → Rat) (hg : ∀ {a b a' b'}, a ≤ a' → b ≤ b' → g a b ≤ g a' b') :
    ∀ (xs ys : List Rat) (a b : Rat), a ≤ b → List.Forall₂ (· ≤ ·) xs ys → xs.foldl g a ≤ ys.foldl g b
  | [], [], a, b, hab, _ => by simpa using hab
  | x :: xs, y :: ys, a, b, hab, h => by
    cases h with
    | cons hxy hrest =>
      simp only [List.foldl_cons]
      exact foldl_mono g hg xs ys (g a x) (g b y) (hg hab hxy) hrest

/-- `max` / `min` are monotone in every argument -/
theorem monoApply_mono (f : Fn) (qs vs : List Rat) (h : List.Forall₂ (· ≤ ·) qs vs) (a b : Rat)
    (ha : monoApply f qs = some a) (hb : monoApply f vs = some b) : a ≤ b := by
  cases h with
  | nil => simp [monoApply] at ha
  | cons h1 hrest =>
    cases hrest with
    | nil => simp [monoApply] at ha
    | cons h2 hrest' =>
      simp only [monoApply, Option.some.injEq] at ha hb
      subst ha hb
      cases f
      · exact foldl_mono ratMax ratMax_mono _ _ _ _ h1 (List.Forall₂.cons h2 hrest')
      · exact foldl_mono ratMin ratMin_mono _ _ _ _ h1 (List.Forall₂.cons h2 hrest')

/-! ### `hypot` -/

theorem hypBounds_sound (F : Formulas) (hF : F.Sound) : ∀ (ss : List Supp) (vs ls hs : List Rat),
    List.Forall₂ (fun s v => within s v) ss vs → hypBounds F ss = some (ls, hs) →
      List.Forall₂ (fun x y => absR x ≤ absR y) ls vs ∧ List.Forall₂ (fun x y => absR x ≤ absR y) vs hs
  | [], vs, ls, hs, hw, hb => by
    cases hw
    simp only [hypBounds, Option.some.injEq, Prod.mk.injEq] at hb
    obtain ⟨rfl, rfl⟩ := hb
    exact ⟨List.Forall₂.nil, List.Forall₂.nil⟩
  | s :: rest, vs, ls, hs, hw, hb => by
    cases hw with
    | cons hsv hrest =>
      rename_i v vs'
      obtain ⟨a, b⟩ := s
      cases a with
      | none => simp [hypBounds] at hb
      | some l =>
        cases b with
        | none => simp [hypBounds] at hb
        | some r =>
          simp only [hypBounds] at hb
          cases hr : hypBounds F rest with
          | none => simp [hr] at hb
          | some p =>
            obtain ⟨ls', hs'⟩ := p
            simp only [hr, Option.map_some, Option.some.injEq, Prod.mk.injEq] at hb
            obtain ⟨rfl, rfl⟩ := hb
            obtain ⟨ih1, ih2⟩ := hypBounds_sound F hF rest vs' ls' hs' hrest hr
            obtain ⟨h0, h1, h2⟩ := hF.hypAbs l r v (hsv.1 l rfl) (hsv.2 r rfl)
            constructor
            · refine List.Forall₂.cons ?_ ih1
              rw [absR_of_nonneg h0]; exact h1
            · refine List.Forall₂.cons ?_ ih2
              rw [absR_of_nonneg (le_trans (absR_nonneg v) h2)]; exact h2

end Scenic.Support
