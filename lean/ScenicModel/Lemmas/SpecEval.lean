import ScenicModel.Model.SpecEval
import ScenicModel.Lemmas.SpecResolve

/-! Facts about the evaluation loop (`Model/SpecEval.lean`): an invariant proof over `for spec in order`. -/
namespace Scenic.Spec

/-! ### positions in a split list -/

theorem pos_append_of_not_mem' {l : List Node} (r : List Node) {x : Node} (h : x ∉ l) :
    pos (l ++ r) x = l.length + pos r x := by
  induction l with
  | nil => simp
  | cons y ys ih =>
    simp only [List.mem_cons, not_or] at h
    simp only [List.cons_append, pos, List.length_cons]
    rw [if_neg (Ne.symm h.1), ih h.2]; omega

theorem pos_mid {l r : List Node} {x : Node} (h : x ∉ l) : pos (l ++ x :: r) x = l.length := by
  rw [pos_append_of_not_mem' _ h]; simp [pos]

/-- whatever comes strictly before `n` lies in the part of the list before `n` -/
theorem mem_done_of_pos_lt {done rest : List Node} {n w : Node} (hn : n ∉ done)
    (hlt : pos (done ++ n :: rest) w < pos (done ++ n :: rest) n) : w ∈ done := by
  by_cases hw : w ∈ done
  · exact hw
  · rw [pos_mid hn, pos_append_of_not_mem' _ hw] at hlt
    omega

theorem pos_le_of_mem_done {done : List Node} (rest : List Node) {n w : Node} (hn : n ∉ done)
    (hw : w ∈ done ++ [n]) : pos (done ++ n :: rest) w ≤ pos (done ++ n :: rest) n := by
  rw [pos_mid hn]
  rcases List.mem_append.mp hw with h | h
  · rw [pos_append_of_mem _ h]; exact Nat.le_of_lt (pos_lt_of_mem h)
  · simp only [List.mem_singleton] at h; subst h; rw [pos_mid hn]; exact Nat.le_refl _

/-! ### `actual_props` -/

/-- the contribution of one entry of `properties` to `actual_props[n]` -/
def entryProps (modifier : List (String × Node)) (n : Node) (pa : String × Node) : List String :=
  (if pa.2 = n then [pa.1] else []) ++ (if get modifier pa.1 = some n then [pa.1] else [])

theorem actualProps_eq (assign modifier : List (String × Node)) (n : Node) :
    actualProps assign modifier n = assign.flatMap (entryProps modifier n) := rfl

theorem mem_entryProps {modifier : List (String × Node)} {n : Node} {p : String} {x : Node} {a : String} :
    a ∈ entryProps modifier n (p, x) ↔ a = p ∧ (x = n ∨ get modifier p = some n) := by
  unfold entryProps
  simp only [List.mem_append]
  by_cases hx : x = n <;> by_cases hm : get modifier p = some n <;> simp [hx, hm]

theorem entryProps_nodup {modifier : List (String × Node)} {n : Node} {p : String} {x : Node}
    (h : ¬ (x = n ∧ get modifier p = some n)) : (entryProps modifier n (p, x)).Nodup := by
  unfold entryProps
  by_cases hx : x = n <;> by_cases hm : get modifier p = some n <;> simp [hx, hm]
  exact h ⟨hx, hm⟩

theorem mem_actualProps {assign modifier : List (String × Node)} {n : Node} {p : String} :
    p ∈ actualProps assign modifier n ↔ ∃ x, (p, x) ∈ assign ∧ (x = n ∨ get modifier p = some n) := by
  rw [actualProps_eq]
  simp only [List.mem_flatMap]
  constructor
  · rintro ⟨⟨q, x⟩, hmem, h⟩
    rw [mem_entryProps] at h
    obtain ⟨rfl, h⟩ := h
    exact ⟨x, hmem, h⟩
  · rintro ⟨x, hmem, h⟩
    exact ⟨(p, x), hmem, mem_entryProps.mpr ⟨rfl, h⟩⟩

/-- no property is listed twice for a specifier, as long as `properties` is a dictionary and the specifier is
not both the specifier and the modifier of one property -/
theorem actualProps_nodup {assign modifier : List (String × Node)} {n : Node}
    (hk : (assign.map (·.1)).Nodup) (hne : ∀ p, (p, n) ∈ assign → get modifier p ≠ some n) :
    (actualProps assign modifier n).Nodup := by
  rw [actualProps_eq]
  induction assign with
  | nil => simp
  | cons e rest ih =>
    obtain ⟨p, x⟩ := e
    simp only [List.map_cons, List.nodup_cons] at hk
    simp only [List.flatMap_cons]
    rw [List.nodup_append]
    refine ⟨?_, ih hk.2 (fun q hq => hne q (List.mem_cons_of_mem _ hq)), ?_⟩
    · apply entryProps_nodup
      rintro ⟨hx, hm⟩
      subst hx
      exact hne p (by simp) hm
    · intro a ha b hb hab
      subst hab
      obtain ⟨hap, _⟩ := mem_entryProps.mp ha
      subst hap
      simp only [List.mem_flatMap] at hb
      obtain ⟨⟨q, y⟩, hmem, hq⟩ := hb
      obtain ⟨haq, _⟩ := mem_entryProps.mp hq
      subst haq
      exact hk.1 (List.mem_map.mpr ⟨(a, y), hmem, rfl⟩)

/-! ### the inner loop -/

theorem writeProps_ok (modifier : List (String × Node)) (n : Node) :
    ∀ (ps : List String) (ctx : Ctx), ps.Nodup → (∀ p ∈ ps, get modifier p = none → get ctx p = none) →
      ∃ ctx', writeProps modifier n ps ctx = .ok ctx' ∧
        ∀ q, get ctx' q = if q ∈ ps then some n else get ctx q := by
  intro ps
  induction ps with
  | nil => intro ctx _ _; exact ⟨ctx, rfl, fun q => by simp⟩
  | cons p ps ih =>
    intro ctx hnd hfree
    simp only [List.nodup_cons] at hnd
    have hcheck : ((get ctx p).isSome && (get modifier p).isNone) = false := by
      cases hm : get modifier p with
      | some m => simp
      | none => rw [hfree p (by simp) hm]; simp
    obtain ⟨ctx', hok, hget⟩ := ih (put ctx p n) hnd.2 (by
      intro q hq hm
      have hne : p ≠ q := fun h => hnd.1 (h ▸ hq)
      rw [get_put_ne _ _ hne]
      exact hfree q (List.mem_cons_of_mem _ hq) hm)
    refine ⟨ctx', ?_, ?_⟩
    · simp only [writeProps, hcheck, Bool.false_eq_true, if_false]
      exact hok
    · intro q
      rw [hget q]
      by_cases hq : q ∈ ps
      · simp [hq]
      · by_cases hpq : p = q
        · subst hpq; rw [get_put_self]; simp
        · rw [get_put_ne _ _ hpq]
          have : q ≠ p := fun h => hpq h.symm
          simp [hq, this]

theorem firstUnready_none {assign modifier : List (String × Node)} {ctx : Ctx} :
    ∀ ds : List String, (∀ d ∈ ds, ∃ w, get ctx d = some w ∧ finalWriter assign modifier d = some w) →
      firstUnready assign modifier ctx ds = none := by
  intro ds
  induction ds with
  | nil => intro _; rfl
  | cons d ds ih =>
    intro h
    obtain ⟨w, h1, h2⟩ := h d (by simp)
    simp only [firstUnready, h1, h2, if_true]
    exact ih (fun d' hd' => h d' (List.mem_cons_of_mem _ hd'))

/-! ### the outer loop -/

/-- a producer counts once it has been evaluated -/
def seen (done : List Node) : Option Node → Option Node
  | some n => if n ∈ done then some n else none
  | none => none

/-- who produced the current value of `p` after the specifiers `done` were evaluated -/
def lastWriter (assign modifier : List (String × Node)) (done : List Node) (p : String) : Option Node :=
  match seen done (get modifier p) with
  | some m => some m
  | none => seen done (get assign p)

theorem seen_nil (x : Option Node) : seen [] x = none := by
  cases x <;> simp [seen]

theorem seen_of_mem {done : List Node} {n : Node} (h : n ∈ done) : seen done (some n) = some n := by
  simp [seen, h]

theorem seen_of_not_mem {done : List Node} {n : Node} (h : n ∉ done) : seen done (some n) = none := by
  simp [seen, h]

theorem seen_append_ne {done : List Node} {n : Node} {x : Option Node} (hx : x ≠ some n) :
    seen (done ++ [n]) x = seen done x := by
  cases x with
  | none => rfl
  | some y =>
    have : y ≠ n := fun h => hx (by rw [h])
    simp [seen, this]

/-- what the evaluation loop needs from the resolution -/
structure EvalHyp (deps : Node → List String) (assign modifier : List (String × Node)) (order : List Node) :
    Prop where
  nodup : order.Nodup
  keys : (assign.map (·.1)).Nodup
  depsBefore : ∀ n ∈ order, ∀ d ∈ deps n,
    ∃ w, finalWriter assign modifier d = some w ∧ pos order w < pos order n
  modAfter : ∀ p m, get modifier p = some m → ∃ a, get assign p = some a ∧ pos order a < pos order m

theorem evalFrom_inv {deps : Node → List String} {assign modifier : List (String × Node)} {order : List Node}
    (H : EvalHyp deps assign modifier order) :
    ∀ (rest done : List Node) (ctx : Ctx), order = done ++ rest →
      (∀ p, get ctx p = lastWriter assign modifier done p) →
      ∃ ctx', evalFrom deps assign modifier rest ctx = .ok ctx' ∧
        ∀ p, get ctx' p = lastWriter assign modifier order p := by
  intro rest
  induction rest with
  | nil =>
    intro done ctx ho hctx
    simp only [List.append_nil] at ho
    rw [ho]
    exact ⟨ctx, rfl, hctx⟩
  | cons n rest ih =>
    intro done ctx ho hctx
    have hnd := H.nodup
    rw [ho] at hnd
    have hn_done : n ∉ done := by
      intro h
      exact (List.nodup_append.mp hnd).2.2 n h n (by simp) rfl
    have hn_order : n ∈ order := by rw [ho]; simp
    -- (1) every dependency is present and final
    have h1 : firstUnready assign modifier ctx (deps n) = none := by
      apply firstUnready_none
      intro d hd
      obtain ⟨w, hw, hlt⟩ := H.depsBefore n hn_order d hd
      rw [ho] at hlt
      have hwd : w ∈ done := mem_done_of_pos_lt hn_done hlt
      refine ⟨w, ?_, hw⟩
      rw [hctx d]
      unfold finalWriter at hw
      unfold lastWriter
      cases hm : get modifier d with
      | some m =>
        rw [hm] at hw
        simp only [Option.some.injEq] at hw
        subst hw
        rw [seen_of_mem hwd]
      | none =>
        rw [hm] at hw
        simp only at hw
        rw [hw]
        simp only [seen]
        exact seen_of_mem hwd
    -- (2) the assertion holds for every property written by `n`
    have hself : ∀ p, (p, n) ∈ assign → get modifier p ≠ some n := by
      intro p hp hm
      obtain ⟨a, ha, hlt⟩ := H.modAfter p n hm
      have : get assign p = some n := get_of_mem_nodup H.keys hp
      rw [this] at ha
      simp only [Option.some.injEq] at ha
      subst ha
      omega
    obtain ⟨ctx1, hw1, hget1⟩ := writeProps_ok modifier n (actualProps assign modifier n) ctx
      (actualProps_nodup H.keys hself) (by
        intro p hp hm
        obtain ⟨x, hx, hor⟩ := mem_actualProps.mp hp
        rcases hor with hxn | h
        · rw [hctx p]
          unfold lastWriter
          rw [hm, get_of_mem_nodup H.keys hx, hxn]
          simp only [seen]
          exact seen_of_not_mem hn_done
        · rw [hm] at h; cases h)
    -- (3) the invariant after `n`
    have hinv : ∀ p, get ctx1 p = lastWriter assign modifier (done ++ [n]) p := by
      intro q
      rw [hget1 q]
      by_cases hq : q ∈ actualProps assign modifier n
      · rw [if_pos hq]
        obtain ⟨x, hx, hor⟩ := mem_actualProps.mp hq
        have hax := get_of_mem_nodup H.keys hx
        unfold lastWriter
        cases hm : get modifier q with
        | none =>
          rcases hor with hxn | h
          · rw [hax, hxn]
            simp only [seen]
            exact (seen_of_mem (by simp)).symm
          · rw [hm] at h; cases h
        | some m =>
          by_cases hmn : m = n
          · rw [hmn, seen_of_mem (by simp)]
          · have hxn : x = n := by
              rcases hor with h | h
              · exact h
              · rw [hm] at h
                simp only [Option.some.injEq] at h
                exact absurd h hmn
            obtain ⟨a, ha, hlt⟩ := H.modAfter q m hm
            rw [hax] at ha
            simp only [Option.some.injEq] at ha
            rw [← ha, hxn] at hlt
            have hm_not : m ∉ done ++ [n] := by
              intro hmem
              have := pos_le_of_mem_done rest hn_done hmem
              rw [← ho] at this
              omega
            rw [seen_of_not_mem hm_not, hax, hxn]
            exact (seen_of_mem (by simp)).symm
      · rw [if_neg hq, hctx q]
        have hmq : get modifier q ≠ some n := by
          intro hm
          obtain ⟨a, ha, _⟩ := H.modAfter q n hm
          exact hq (mem_actualProps.mpr ⟨a, mem_of_get ha, Or.inr hm⟩)
        have haq : get assign q ≠ some n :=
          fun ha => hq (mem_actualProps.mpr ⟨n, mem_of_get ha, Or.inl rfl⟩)
        unfold lastWriter
        rw [seen_append_ne hmq, seen_append_ne haq]
    obtain ⟨ctx', hok, hfin⟩ := ih (done ++ [n]) ctx1 (by rw [ho]; simp) hinv
    refine ⟨ctx', ?_, hfin⟩
    simp only [evalFrom, h1, hw1]
    exact hok

/-- The evaluation loop succeeds (no dependency read too early, no assertion failure) and leaves every
property with the value of its final producer. -/
theorem evalFrom_ok {deps : Node → List String} {assign modifier : List (String × Node)} {order : List Node}
    (H : EvalHyp deps assign modifier order)
    (hra : ∀ p a, get assign p = some a → a ∈ order) (hrm : ∀ p m, get modifier p = some m → m ∈ order) :
    ∃ ctx, evalFrom deps assign modifier order [] = .ok ctx ∧
      ∀ p, get ctx p = finalWriter assign modifier p := by
  obtain ⟨ctx, hok, hget⟩ := evalFrom_inv H order [] [] (by simp)
    (by intro p; simp [lastWriter, seen_nil, get])
  refine ⟨ctx, hok, fun p => ?_⟩
  rw [hget p]
  unfold lastWriter finalWriter
  cases hm : get modifier p with
  | some m => rw [seen_of_mem (hrm p m hm)]
  | none =>
    simp only [seen]
    cases ha : get assign p with
    | some a => exact seen_of_mem (hra p a ha)
    | none => rfl

/-! ### `properties` is a dictionary (distinct keys) -/

theorem stepNormal_keys {finals : List String} {name : String} {st st' : NState} {pk : String × Nat}
    (hk : (st.props.map (·.1)).Nodup) (h : stepNormal finals name st pk = .ok st') :
    (st'.props.map (·.1)).Nodup := by
  unfold stepNormal at h
  split at h
  · cases h
  · split at h
    · cases h
    · split at h
      · split at h
        · cases h; exact put_keys_nodup _ _ _ hk
        · cases h; exact hk
      · cases h; exact put_keys_nodup _ _ _ hk

theorem stepsNormal_keys {finals : List String} {name : String} (prs : List (String × Nat)) :
    ∀ {st st' : NState}, (st.props.map (·.1)).Nodup → stepsNormal finals name prs st = .ok st' →
      (st'.props.map (·.1)).Nodup := by
  induction prs with
  | nil => intro st st' hk h; simp only [stepsNormal] at h; cases h; exact hk
  | cons pk rest ih =>
    intro st st' hk h
    simp only [stepsNormal] at h
    split at h
    · cases h
    · rename_i st1 h1; exact ih (stepNormal_keys hk h1) h

theorem normalPass_keys {finals : List String} (L : List Spec) :
    ∀ {st st' : NState}, (st.props.map (·.1)).Nodup → normalPass finals L st = .ok st' →
      (st'.props.map (·.1)).Nodup := by
  induction L with
  | nil => intro st st' hk h; simp only [normalPass] at h; cases h; exact hk
  | cons s rest ih =>
    intro st st' hk h
    simp only [normalPass] at h
    split at h
    · cases h
    · rename_i st1 h1; exact ih (stepsNormal_keys _ hk h1) h

theorem stepMod_keys {finals : List String} {s : Spec} {st st' : MState} {pk : String × Nat}
    (hk : (st.props.map (·.1)).Nodup) (h : stepMod finals s st pk = .ok st') : (st'.props.map (·.1)).Nodup := by
  replace h := (stepMod_ok_core h).2
  unfold stepModCore at h
  split at h
  · split at h
    · cases h; exact put_keys_nodup _ _ _ hk
    · split at h
      · split at h
        · cases h
        · cases h; exact hk
      · cases h; exact hk
  · cases h; exact put_keys_nodup _ _ _ hk

theorem stepsMod_keys {finals : List String} {s : Spec} (prs : List (String × Nat)) :
    ∀ {st st' : MState}, (st.props.map (·.1)).Nodup → stepsMod finals s prs st = .ok st' →
      (st'.props.map (·.1)).Nodup := by
  induction prs with
  | nil => intro st st' hk h; simp only [stepsMod] at h; cases h; exact hk
  | cons pk rest ih =>
    intro st st' hk h
    simp only [stepsMod] at h
    split at h
    · cases h
    · rename_i st1 h1; exact ih (stepMod_keys hk h1) h

theorem modPass_props_keys {finals : List String} (L : List Spec) :
    ∀ {st st' : MState}, (st.props.map (·.1)).Nodup → modPass finals L st = .ok st' →
      (st'.props.map (·.1)).Nodup := by
  induction L with
  | nil => intro st st' hk h; simp only [modPass] at h; cases h; exact hk
  | cons s rest ih =>
    intro st st' hk h
    simp only [modPass] at h
    split at h
    · cases h
    · rename_i st1 h1; exact ih (stepsMod_keys _ hk h1) h

theorem addDefaults_keys (prio : List (String × (Node × Nat))) (defs : List (String × List String)) :
    ∀ (assign : List (String × Node)) (added : List Node), (assign.map (·.1)).Nodup →
      ((addDefaults prio defs assign added).1.map (·.1)).Nodup := by
  induction defs with
  | nil => intro assign added hk; exact hk
  | cons d rest ih =>
    intro assign added hk
    obtain ⟨p, dd⟩ := d
    simp only [addDefaults]
    split
    · exact ih _ _ (put_keys_nodup _ _ _ hk)
    · exact ih _ _ hk

/-- the final `properties` dictionary has distinct keys -/
theorem assign_keys_nodup {C : ClassInfo} {S : List Spec} {pre : Pre} (h : AssignOk C S pre) :
    (pre.assign.map (·.1)).Nodup := by
  obtain ⟨_, ns, ms, hn, hm, rfl⟩ := h
  have h1 : (ns.props.map (·.1)).Nodup := normalPass_keys _ (st := ⟨[], []⟩) (by simp) hn
  have h2 : (ms.props.map (·.1)).Nodup := modPass_props_keys _ (st := ⟨ns.props, []⟩) h1 hm
  apply addDefaults_keys
  rw [List.map_map]
  exact h2

end Scenic.Spec
