import ScenicModel.Lemmas.PegFail
/-! # The grammar and its erasure run in lockstep on streams without the guard words (C09) -/
namespace Scenic.Peg

section
variable (g : Grammar) (toks : Array Tok) (ci : Bool) (F S R : Mask)

theorem eval_fail_succ (n : Nat) (sd : Seeds) (p : Nat) : eval g toks ci (n + 1) sd .fail p = .fail := by
  simp [eval]

theorem erase_rules_get (r : Nat) :
    (eraseGrammar F S R ci g).rules[r]? = (g.rules[r]?).map fun rule => { rule with body := erase F S R ci rule.body } := by
  simp [eraseGrammar]

theorem sim_all (hW : wordFree R toks)
    (hF : ∀ r rule, F.has r = true → g.rules[r]? = some rule → mustFail F S R ci rule.body = true)
    (hS : ∀ r rule, S.has r = true → g.rules[r]? = some rule → noErr S rule.body = true) : ∀ fuel,
    (∀ sd e p, SeedsF F sd → eval g toks ci fuel sd e p ≠ .oof →
        eval (eraseGrammar F S R ci g) toks ci fuel sd (erase F S R ci e) p = eval g toks ci fuel sd e p) ∧
    (∀ sd r body p cur, SeedsF F sd → (F.has r = true → mustFail F S R ci body = true ∧ cur = none) →
        grow g toks ci fuel sd r body p cur ≠ .oof →
        grow (eraseGrammar F S R ci g) toks ci fuel sd r (erase F S R ci body) p cur
          = grow g toks ci fuel sd r body p cur) := by
  intro fuel
  induction fuel with
  | zero => constructor <;> intros <;> simp_all [eval, grow]
  | succ n ih =>
    obtain ⟨ihE, ihG⟩ := ih
    have hMF := mustFail_all g toks ci F S R hW hF hS n
    constructor
    · intro sd e p hsd hne
      cases e with
      | seq a b =>
        simp only [erase, eval] at hne ⊢
        cases hra : eval g toks ci n sd a p with
        | oof => simp [hra] at hne
        | ok q c evs =>
          have e1 := ihE sd a p hsd (by simp [hra])
          simp only [e1, hra] at hne ⊢
          cases hrb : eval g toks ci n sd b q with
          | oof => simp [hrb] at hne
          | _ =>
            have e2 := ihE sd b q hsd (by simp [hrb])
            simp only [e2, hrb]
        | _ =>
          have e1 := ihE sd a p hsd (by simp [hra])
          simp only [e1, hra]
      | act l a =>
        simp only [erase, eval] at hne ⊢
        cases hra : eval g toks ci n sd a p with
        | oof => simp [hra] at hne
        | _ =>
          have e1 := ihE sd a p hsd (by simp [hra])
          simp only [e1, hra]
      | inv a =>
        simp only [erase, eval] at hne ⊢
        cases ci with
        | false => simp
        | true =>
          simp only [if_true] at hne ⊢
          exact ihE sd a p hsd hne
      | alt a b =>
        simp only [erase, eval, ne_eq, item_eq_oof] at hne ⊢
        congr 1
        cases hm : mustFail F S R ci a with
        | true =>
          simp only [if_true]
          rcases hMF.1 sd a p hsd hm with h1 | h1
          · -- the guarded alternative fails: both sides continue with `b`
            simp only [h1] at hne ⊢
            have e2 := ihE sd b p hsd hne
            cases n with
            | zero => simp [eval] at h1
            | succ m => simp only [eval_fail_succ, e2]
          · simp [h1] at hne
        | false =>
          simp only [Bool.false_eq_true, if_false]
          cases hra : eval g toks ci n sd a p with
          | oof => simp [hra] at hne
          | fail =>
            have e1 := ihE sd a p hsd (by simp [hra])
            simp only [e1, hra] at hne ⊢
            exact ihE sd b p hsd hne
          | _ =>
            have e1 := ihE sd a p hsd (by simp [hra])
            simp only [e1, hra]
      | opt a =>
        simp only [erase, eval, ne_eq, item_eq_oof] at hne ⊢
        cases hra : eval g toks ci n sd a p with
        | oof => simp [hra, Res.item] at hne
        | _ =>
          have e1 := ihE sd a p hsd (by simp [hra])
          simp only [e1, hra]
      | pos a =>
        simp only [erase, eval, ne_eq, item_eq_oof] at hne ⊢
        cases hra : eval g toks ci n sd a p with
        | oof => simp [hra, Res.item] at hne
        | _ =>
          have e1 := ihE sd a p hsd (by simp [hra])
          simp only [e1, hra]
      | neg a =>
        simp only [erase, eval, ne_eq, item_eq_oof] at hne ⊢
        cases hra : eval g toks ci n sd a p with
        | oof => simp [hra, Res.item] at hne
        | _ =>
          have e1 := ihE sd a p hsd (by simp [hra])
          simp only [e1, hra]
      | forced a =>
        simp only [erase, eval, ne_eq, item_eq_oof] at hne ⊢
        cases hra : eval g toks ci n sd a p with
        | oof => simp [hra, Res.item] at hne
        | _ =>
          have e1 := ihE sd a p hsd (by simp [hra])
          simp only [e1, hra]
      | star a =>
        simp only [erase, eval, ne_eq, item_eq_oof] at hne ⊢
        cases hra : eval g toks ci n sd a p with
        | oof => simp [hra, Res.item] at hne
        | ok q c evs =>
          have e1 := ihE sd a p hsd (by simp [hra])
          simp only [e1, hra, Res.item] at hne ⊢
          by_cases hq : q ≤ p
          · simp only [hq, if_true]
          · simp only [hq, if_false] at hne ⊢
            cases hrs : eval g toks ci n sd (.star a) q with
            | oof => simp [hrs] at hne
            | _ =>
              have e2 := ihE sd (.star a) q hsd (by simp [hrs])
              simp only [erase] at e2
              simp only [e2, hrs]
        | _ =>
          have e1 := ihE sd a p hsd (by simp [hra])
          simp only [e1, hra, Res.item]
      | plus a =>
        simp only [erase, eval, ne_eq, item_eq_oof] at hne ⊢
        cases hra : eval g toks ci n sd a p with
        | oof => simp [hra, Res.item] at hne
        | ok q c evs =>
          have e1 := ihE sd a p hsd (by simp [hra])
          simp only [e1, hra, Res.item] at hne ⊢
          cases hrs : eval g toks ci n sd (.star a) q with
          | oof => simp [hrs] at hne
          | _ =>
            have e2 := ihE sd (.star a) q hsd (by simp [hrs])
            simp only [erase] at e2
            simp only [e2, hrs]
        | _ =>
          have e1 := ihE sd a p hsd (by simp [hra])
          simp only [e1, hra, Res.item]
      | gather s a =>
        simp only [erase, eval, ne_eq, item_eq_oof] at hne ⊢
        cases hra : eval g toks ci n sd a p with
        | oof => simp [hra, Res.item] at hne
        | ok q c evs =>
          have e1 := ihE sd a p hsd (by simp [hra])
          simp only [e1, hra, Res.item] at hne ⊢
          cases hrs : eval g toks ci n sd (.star (.seq s a)) q with
          | oof => simp [hrs] at hne
          | _ =>
            have e2 := ihE sd (.star (.seq s a)) q hsd (by simp [hrs])
            simp only [erase] at e2
            simp only [e2, hrs]
        | _ =>
          have e1 := ihE sd a p hsd (by simp [hra])
          simp only [e1, hra, Res.item]
      | ref r =>
        simp only [erase, eval] at hne ⊢
        cases hf : sd.find r p with
        | some s => simp
        | none =>
          simp only [hf] at hne ⊢
          rw [erase_rules_get]
          cases hrule : g.rules[r]? with
          | none => simp
          | some rule =>
            simp only [hrule, Option.map_some] at hne ⊢
            cases hl : rule.leader with
            | true =>
              simp only [hl, if_true] at hne ⊢
              exact ihG sd r rule.body p none hsd (fun hr => ⟨hF r rule hr hrule, rfl⟩) hne
            | false =>
              simp only [hl, Bool.false_eq_true, if_false, ne_eq, item_eq_oof] at hne ⊢
              rw [ihE sd rule.body p hsd hne]
      | _ => simp [erase, eval, eraseGrammar]
    · intro sd r body p cur hsd hcur hne
      simp only [grow, ne_eq, item_eq_oof] at hne ⊢
      have hsd' : SeedsF F ((r, p, cur) :: sd) := SeedsF_cons hsd r p cur (fun hr => (hcur hr).2)
      cases hrb : eval g toks ci n ((r, p, cur) :: sd) body p with
      | oof => simp [hrb, Res.item] at hne
      | ok q c evs =>
        have e1 := ihE _ body p hsd' (by simp [hrb])
        simp only [e1, hrb, Res.item] at hne ⊢
        by_cases hq : q ≤ Seed.last cur p
        · simp only [hq, if_true]
        · simp only [hq, if_false] at hne ⊢
          congr 1
          refine ihG sd r body p (some (q, evs)) hsd (fun hr => ?_) hne
          exfalso
          have := hMF.1 _ body p hsd' (hcur hr).1
          rw [hrb] at this
          rcases this with h | h <;> simp at h
      | _ =>
        have e1 := ihE _ body p hsd' (by simp [hrb])
        simp only [e1, hrb, Res.item]
end
end Scenic.Peg
