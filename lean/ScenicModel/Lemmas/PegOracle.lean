import ScenicModel.Lemmas.PegTotal
/-! # Every action call made by the PEG interpreter is a *legitimate* one

`ActCall E g a p e`: `a` is the action of an alternative of a rule of the grammar, matched from token `p` to token `e`
inside the input, and of zero width only if the nullable table says the items of that alternative can all match
nothing.  `interp_oracle_inv`: any property of the oracle state (the state the Python action code can see and
change) that legitimate calls preserve is preserved by a whole run of the interpreter — at any recursion depth, from any
rule / position / cache satisfying the cache invariant.  Used in `Props/C10Peg.lean` to show that the action code
is never run on an empty token window when the grammar has no alternative that can match nothing. -/
namespace Scenic.PegTotal
open Std

variable {σ : Type}

/-- a call `E.act o a p e` the interpreter can make -/
def ActCall (E : Env σ) (g : Grammar) (a p e : Nat) : Prop :=
  ∃ (r : Nat) (rule : Rule) (alt : Alt), g.rules[r]? = some rule ∧ alt ∈ rule.alts ∧ alt.act = a ∧ p ≤ e ∧ e ≤ E.n ∧
    (e = p → itemsNullable g alt.items = true)

/-- `I` is preserved by every legitimate action call -/
def ActPreserves (E : Env σ) (g : Grammar) (I : σ → Prop) : Prop :=
  ∀ o a p e, I o → ActCall E g a p e → I (E.act o a p e).2

/-- the recursive-call function preserves `I` -/
def OInv (E : Env σ) (g : Grammar) (I : σ → Prop) (rec : Rec σ) : Prop :=
  ∀ r p inv s, p ≤ E.n → CInv E g s.cache → I s.orc → I (rec r p inv s).2.orc

theorem evalAtom_oinv {E : Env σ} {g : Grammar} {I : σ → Prop} {rec : Rec σ} (ho : OInv E g I rec)
    (a : Atom) (p : Nat) (inv : Bool) (s : St σ) (hp : p ≤ E.n) (hc : CInv E g s.cache) (hi : I s.orc) :
    I (evalAtom E rec a p inv s).2.orc := by
  cases a with
  | rule r => exact ho r p inv s hp hc hi
  | tok t =>
    unfold evalAtom
    simp only
    by_cases h1 : p < E.n
    · simp only [h1, if_true]
      by_cases h2 : E.matchAt t p = true
      · simp only [h2, if_true]; exact hi
      · simp only [h2, Bool.false_eq_true, if_false]; exact hi
    · simp only [h1, if_false]; exact hi

theorem evalItems_oinv {E : Env σ} {g : Grammar} {I : σ → Prop} {rec : Rec σ} (hs : Sound E g rec)
    (ho : OInv E g I rec) (inv : Bool) :
    ∀ (items : List Item) (p : Nat) (c : Bool) (s : St σ), p ≤ E.n → CInv E g s.cache → I s.orc →
      I (evalItems E rec inv items p c s).2.orc := by
  intro items
  induction items with
  | nil => intro p c s _ _ hi; simpa [evalItems] using hi
  | cons it rest ih =>
    intro p c s hp hc hi
    simp only [evalItems]
    cases ha : it.atom? with
    | none => simp only; exact ih p true s hp hc hi
    | some a =>
      simp only
      obtain ⟨q1, _, q3, q4⟩ := evalAtom_post hs a p inv s hp hc
      have hi' := evalAtom_oinv ho a p inv s hp hc hi
      cases hn : itemNext it p c (evalAtom E rec a p inv s).1 with
      | go e1 =>
        simp only
        obtain ⟨_, b2, _⟩ := itemNext_go (E := E) (g := g) it a ha p c _ e1 hp q3 q4 hn
        exact ih e1 c _ b2 q1 hi'
      | stop r => simp only; exact hi'

theorem actRes_oinv {E : Env σ} {g : Grammar} {I : σ → Prop} (hact : ActPreserves E g I) (s : St σ) (alt : Alt)
    (p e : Nat) (hi : I s.orc) (hcall : ActCall E g alt.act p e) : I (actRes E s alt p e).2.orc := by
  have := hact s.orc alt.act p e hi hcall
  simp only [actRes]
  cases hout : (E.act s.orc alt.act p e).1 <;> simp only <;> exact this

theorem evalAlts_oinv {E : Env σ} {g : Grammar} {I : σ → Prop} {rec : Rec σ} (hs : Sound E g rec)
    (ho : OInv E g I rec) (hact : ActPreserves E g I) (r : Nat) (rule : Rule) (hr : g.rules[r]? = some rule)
    (inv : Bool) (p : Nat) (hp : p ≤ E.n) :
    ∀ (alts : List Alt) (s : St σ), (∀ a ∈ alts, a ∈ rule.alts) → CInv E g s.cache → I s.orc →
      I (evalAlts E rec inv p alts s).2.orc := by
  intro alts
  induction alts with
  | nil => intro s _ _ hi; simpa [evalAlts] using hi
  | cons alt rest ih =>
    intro s hsub hc hi
    have hrest : ∀ a ∈ rest, a ∈ rule.alts := fun a ha => hsub a (List.mem_cons_of_mem _ ha)
    simp only [evalAlts]
    by_cases hg : (alt.guard && !inv) = true
    · simp only [hg, if_true]; exact ih s hrest hc hi
    · simp only [hg, Bool.false_eq_true, if_false]
      obtain ⟨i1, _, i3⟩ := evalItems_post hs inv alt.items p false s hp hc
      have hi' := evalItems_oinv hs ho inv alt.items p false s hp hc hi
      cases hres : (evalItems E rec inv alt.items p false s).1 with
      | ok e =>
        simp only
        obtain ⟨a1, a2, a3⟩ := i3 e hres
        exact actRes_oinv hact _ alt p e hi' ⟨r, rule, alt, hr, hsub alt List.mem_cons_self, rfl, a1, a2, a3⟩
      | fail cut =>
        simp only
        by_cases hcut : cut = true
        · simp only [hcut, if_true]; exact hi'
        · simp only [hcut, Bool.false_eq_true, if_false]; exact ih _ hrest i1 hi'
      | raise => simp only; exact hi'
      | hang => simp only; exact hi'

theorem evalLoop_oinv {E : Env σ} {g : Grammar} {I : σ → Prop} {rec : Rec σ} (hs : Sound E g rec)
    (ho : OInv E g I rec) (hact : ActPreserves E g I) (r : Nat) (rule : Rule) (hr : g.rules[r]? = some rule)
    (inv : Bool) (alt : Alt) (halt : alt ∈ rule.alts) :
    ∀ (k p : Nat) (any : Bool) (s : St σ), p ≤ E.n → CInv E g s.cache → I s.orc →
      I (evalLoop E rec inv alt k p any s).2.orc := by
  intro k
  induction k with
  | zero => intro p any s _ _ hi; simpa [evalLoop] using hi
  | succ k ih =>
    intro p any s hp hc hi
    simp only [evalLoop]
    by_cases hg : (alt.guard && !inv) = true
    · simp only [hg, if_true]; exact hi
    · simp only [hg, Bool.false_eq_true, if_false]
      obtain ⟨i1, i2, i3⟩ := evalItems_post hs inv alt.items p false s hp hc
      have hi' := evalItems_oinv hs ho inv alt.items p false s hp hc hi
      cases hres : (evalItems E rec inv alt.items p false s).1 with
      | ok e =>
        simp only
        obtain ⟨a1, a2, a3⟩ := i3 e hres
        have hi2 := actRes_oinv hact (evalItems E rec inv alt.items p false s).2 alt p e hi'
          ⟨r, rule, alt, hr, halt, rfl, a1, a2, a3⟩
        obtain ⟨r1, _, _, _⟩ := actRes_post (E := E) (g := g) (evalItems E rec inv alt.items p false s).2 alt p e s.cache
          (itemsNullable g alt.items = true) i1 i2 a1 a2 a3
        have hnext := ih e true (actRes E (evalItems E rec inv alt.items p false s).2 alt p e).2 a2 r1 hi2
        cases hact2 : (actRes E (evalItems E rec inv alt.items p false s).2 alt p e).1 with
        | raise => simp only; exact hi2
        | ok e2 => simp only; exact hnext
        | fail e2 => simp only; exact hnext
        | hang => simp only; exact hnext
      | fail cut => simp only; exact hi'
      | raise => simp only; exact hi'
      | hang => simp only; exact hi'

theorem body_oinv {E : Env σ} {g : Grammar} {I : σ → Prop} {rec : Rec σ} (hs : Sound E g rec)
    (ho : OInv E g I rec) (hact : ActPreserves E g I) (r : Nat) (rule : Rule) (hr : g.rules[r]? = some rule)
    (p : Nat) (inv : Bool) (s : St σ) (hp : p ≤ E.n) (hc : CInv E g s.cache) (hi : I s.orc) :
    I (body E rec rule p inv s).2.orc := by
  unfold body
  by_cases hl : rule.loop = true
  · simp only [hl, if_true]
    split
    · next alt halts =>
      exact evalLoop_oinv hs ho hact r rule hr _ alt (by rw [halts]; exact List.mem_cons_self) _ p false s hp hc hi
    · exact hi
  · simp only [hl, Bool.false_eq_true, if_false]
    exact evalAlts_oinv hs ho hact r rule hr _ p hp rule.alts s (fun a ha => ha) hc hi

theorem growFin_orc (r p : Nat) (last : Option Nat) (s : St σ) : (growFin r p last s).2.orc = s.orc := by
  unfold growFin
  cases last <;> rfl

theorem grow_oinv {E : Env σ} {g : Grammar} {I : σ → Prop} {rec : Rec σ} (hs : Sound E g rec)
    (ho : OInv E g I rec) (hact : ActPreserves E g I) (r : Nat) (rule : Rule) (hr : g.rules[r]? = some rule)
    (p : Nat) (inv : Bool) (hp : p ≤ E.n) :
    ∀ (k : Nat) (last : Option Nat) (s : St σ), CInv E g s.cache → (∀ e, last = some e → p < e ∧ e ≤ E.n) →
      I s.orc → I (grow E rec r rule p inv k last s).2.orc := by
  intro k
  induction k with
  | zero => intro last s _ _ hi; simpa [grow] using hi
  | succ k ih =>
    intro last s hc hl hi
    simp only [grow]
    obtain ⟨b1, _, b3, _⟩ := body_post hs rule p inv s hp hc
    have hi' := body_oinv hs ho hact r rule hr p inv s hp hc hi
    cases hb : (body E rec rule p inv s).1 with
    | ok e =>
      simp only
      obtain ⟨_, a2, _⟩ := b3 e hb
      by_cases hle : e ≤ last.getD p
      · simp only [hle, if_true]; rw [growFin_orc]; exact hi'
      · simp only [hle, if_false]
        have hpe : p < e := by
          cases last with
          | none => simp only [Option.getD_none] at hle; omega
          | some e0 => simp only [Option.getD_some] at hle; have := (hl e0 rfl).1; omega
        apply ih
        · rw [St.put_cache]; exact b1.insert r p true e (by omega) a2 (fun _ h => by omega)
        · intro e' he'; simp only [Option.some.injEq] at he'; subst he'; exact ⟨hpe, a2⟩
        · exact hi'
    | fail e => simp only; rw [growFin_orc]; exact hi'
    | raise => simp only; exact hi'
    | hang => simp only; exact hi'

theorem callRule_oinv {E : Env σ} {g : Grammar} {I : σ → Prop} {rec : Rec σ} (hs : Sound E g rec)
    (ho : OInv E g I rec) (hact : ActPreserves E g I) : OInv E g I (callRule E g rec) := by
  intro r p inv s hp hc hi
  unfold callRule
  cases hr : g.rules[r]? with
  | none => simp only; exact hi
  | some rule =>
    simp only
    cases hk : rule.kind with
    | nomemo => simp only; exact body_oinv hs ho hact r rule hr p inv s hp hc hi
    | memo =>
      simp only
      unfold memoCall
      cases hget : s.cache[(r, p)]? with
      | some v => simp only; exact hi
      | none =>
        simp only
        have hi' := body_oinv hs ho hact r rule hr p inv s hp hc hi
        cases hb : (body E rec rule p inv s).1 <;> simp only <;> exact hi'
    | leader =>
      simp only
      unfold leaderCall
      cases hget : s.cache[(r, p)]? with
      | some v => simp only; exact hi
      | none =>
        simp only
        apply grow_oinv hs ho hact r rule hr p inv hp
        · rw [St.put_cache]; exact hc.insert r p false p (Nat.le_refl _) hp (fun h => by cases h)
        · intro e he; cases he
        · exact hi

/-- **Oracle invariant.**  Whatever the action code maintains across legitimate calls, it maintains across a whole
run of the interpreter. -/
theorem interp_oracle_inv {E : Env σ} {g : Grammar} (hwf : WF g = true) {I : σ → Prop} (hact : ActPreserves E g I) :
    ∀ f, OInv E g I (interp E g f) := by
  intro f
  induction f with
  | zero => intro r p inv s _ _ hi; simpa [interp] using hi
  | succ f ih =>
    simp only [interp]
    exact callRule_oinv (interp_sound hwf f) ih hact

/-! ## actions marked by `loc` are never run on an empty token window -/

/-- no alternative whose action is marked by `loc` can match the empty token string (kernel-evaluable) -/
def locSafe (g : Grammar) (loc : Nat → Bool) : Bool :=
  g.rules.toList.all (fun rule => rule.alts.all (fun a => !(loc a.act) || !(itemsNullable g a.items)))

/-- the environment `E` whose oracle state carries one more bit: *some action marked by `loc` has been run on an empty
token window* (`e ≤ p`).  The first component evolves exactly as under `E`. -/
def monitor (loc : Nat → Bool) (E : Env σ) : Env (σ × Bool) where
  n := E.n
  matchAt := E.matchAt
  act := fun o a p e => ((E.act o.1 a p e).1, ((E.act o.1 a p e).2, o.2 || (loc a && decide (e ≤ p))))

theorem locSafe_alt {g : Grammar} {loc : Nat → Bool} (hl : locSafe g loc = true) {r : Nat} {rule : Rule} {alt : Alt}
    (hr : g.rules[r]? = some rule) (ha : alt ∈ rule.alts) (hloc : loc alt.act = true) :
    itemsNullable g alt.items = false := by
  unfold locSafe at hl
  rw [List.all_eq_true] at hl
  have hmem : rule ∈ g.rules.toList := by
    have h2 : g.rules.toList[r]? = some rule := by simpa using hr
    exact List.mem_of_getElem? h2
  have h1 := hl rule hmem
  rw [List.all_eq_true] at h1
  have h2 := h1 alt ha
  simp only [hloc, Bool.not_true, Bool.false_or, Bool.not_eq_true'] at h2
  exact h2

theorem monitor_preserves {E : Env σ} {g : Grammar} {loc : Nat → Bool} (hl : locSafe g loc = true) :
    ActPreserves (monitor loc E) g (fun o => o.2 = false) := by
  intro o a p e ho hcall
  obtain ⟨r, rule, alt, hr, ha, hact, hpe, _, hnul⟩ := hcall
  show (o.2 || (loc a && decide (e ≤ p))) = false
  rw [ho, Bool.false_or]
  by_cases hloc : loc a = true
  · have hn := locSafe_alt hl hr ha (by rw [hact]; exact hloc)
    have hne : e ≠ p := fun h => by rw [hnul h] at hn; cases hn
    have : ¬ e ≤ p := by omega
    simp [this]
  · simp [hloc]

end Scenic.PegTotal
