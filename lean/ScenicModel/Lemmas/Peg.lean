import ScenicModel.Model.Peg
/-!
# Lemmas about the PEG machine (C09)

* `flat_all`      : an expression without a cut on its spine never reports a cut and never fails "after a cut";
* `noErr_all`     : an expression that cannot reach a forced item never raises;
* `mustFail_all`  : an expression that needs a word of `R` (or a rule of `F`) fails — plainly — on `R`-free streams;
* `sim_all`       : on `R`-free streams the grammar and its erasure compute the same result, fuel for fuel.
All by induction on the fuel of the interpreter (every recursive call of `eval`/`grow` uses one unit).
-/
namespace Scenic.Peg

/-! ## results -/

/-- no cut information: not `cutfail`, and `ok` with the cut flag off -/
def Res.flat (r : Res) : Prop := r ≠ .cutfail ∧ ∀ q c evs, r = .ok q c evs → c = false

/-- failed or ran out of fuel -/
def Res.FO (r : Res) : Prop := r = .fail ∨ r = .oof

@[simp] theorem flat_oof : Res.oof.flat := by simp [Res.flat]
@[simp] theorem flat_err : Res.err.flat := by simp [Res.flat]
@[simp] theorem flat_fail : Res.fail.flat := by simp [Res.flat]
@[simp] theorem flat_cutfail : ¬ Res.cutfail.flat := by simp [Res.flat]
@[simp] theorem flat_ok {q c evs} : (Res.ok q c evs).flat ↔ c = false := by
  simp only [Res.flat, ne_eq, reduceCtorEq, not_false_eq_true, Res.ok.injEq, and_imp, true_and]
  constructor
  · intro h; exact h q c evs rfl rfl rfl
  · intro h _ _ _ _ hc _; exact hc ▸ h

@[simp] theorem item_flat (r : Res) : r.item.flat := by cases r <;> simp [Res.item]
@[simp] theorem toRes_flat (s : Seed) : s.toRes.flat := by
  cases s with
  | none => simp [Seed.toRes]
  | some v => simp [Seed.toRes]
@[simp] theorem item_eq_oof {r : Res} : r.item = .oof ↔ r = .oof := by cases r <;> simp [Res.item]
@[simp] theorem item_eq_err {r : Res} : r.item = .err ↔ r = .err := by cases r <;> simp [Res.item]
@[simp] theorem toRes_ne_err (s : Seed) : s.toRes ≠ .err := by
  cases s with
  | none => simp [Seed.toRes]
  | some v => simp [Seed.toRes]
@[simp] theorem toRes_ne_oof (s : Seed) : s.toRes ≠ .oof := by
  cases s with
  | none => simp [Seed.toRes]
  | some v => simp [Seed.toRes]
theorem item_of_flat {r : Res} (h : r.flat) : r.item = r := by
  cases r with
  | ok q c evs => simp only [flat_ok] at h; subst h; rfl
  | cutfail => exact absurd h flat_cutfail
  | _ => rfl
@[simp] theorem item_item (r : Res) : r.item.item = r.item := item_of_flat (item_flat r)
@[simp] theorem FO_fail : Res.fail.FO := Or.inl rfl
@[simp] theorem FO_oof : Res.oof.FO := Or.inr rfl
theorem FO_item {r : Res} (h : r.FO) : r.item.FO := by
  rcases h with h | h <;> subst h <;> simp [Res.item]

section
variable (toks : Array Tok)

@[simp] theorem matchTok_flat (p : Nat) (f : Tok → Bool) : (matchTok toks p f).flat := by
  unfold matchTok; split
  · split <;> simp
  · simp
@[simp] theorem matchTok_ne_err (p : Nat) (f : Tok → Bool) : matchTok toks p f ≠ .err := by
  unfold matchTok; split
  · split <;> simp
  · simp
@[simp] theorem matchTok_ne_oof (p : Nat) (f : Tok → Bool) : matchTok toks p f ≠ .oof := by
  unfold matchTok; split
  · split <;> simp
  · simp
end

/-! ## from the Boolean checks to pointwise facts -/

theorem allIdx_get {f : Nat → Rule → Bool} : ∀ (l : List Rule) (i : Nat), allIdx f l i = true →
    ∀ k rule, l[k]? = some rule → f (i + k) rule = true := by
  intro l
  induction l with
  | nil => intro i _ k rule h; simp at h
  | cons x xs ih =>
    intro i h k rule hk
    simp only [allIdx, Bool.and_eq_true] at h
    cases k with
    | zero => simp at hk; subst hk; simpa using h.1
    | succ k =>
      simp at hk
      have := ih (i + 1) h.2 k rule hk
      have e : i + 1 + k = i + (k + 1) := by omega
      rw [e] at this; exact this

theorem fOK_get {g : Grammar} {F S R : Mask} {ci : Bool} (h : fOK g F S R ci = true) :
    ∀ r rule, F.has r = true → g.rules[r]? = some rule → mustFail F S R ci rule.body = true := by
  intro r rule hr hrule
  have hl : g.rules.toList[r]? = some rule := by simpa using hrule
  have := allIdx_get _ 0 h r rule hl
  simp only [Nat.zero_add, hr, Bool.not_true, Bool.false_or] at this
  exact this

theorem sOK_get {g : Grammar} {S : Mask} (h : sOK g S = true) :
    ∀ r rule, S.has r = true → g.rules[r]? = some rule → noErr S rule.body = true := by
  intro r rule hr hrule
  have hl : g.rules.toList[r]? = some rule := by simpa using hrule
  have := allIdx_get _ 0 h r rule hl
  simp only [Nat.zero_add, hr, Bool.not_true, Bool.false_or] at this
  exact this

section
variable (g : Grammar) (toks : Array Tok) (ci : Bool)

/-! ## cuts stay on the spine -/

theorem flat_all : ∀ fuel,
    (∀ sd e p, spineNoCut e = true → (eval g toks ci fuel sd e p).flat) ∧
    (∀ sd r body p cur, (grow g toks ci fuel sd r body p cur).flat) := by
  intro fuel
  induction fuel with
  | zero => constructor <;> intros <;> simp [eval, grow]
  | succ n ih =>
    obtain ⟨ihE, ihG⟩ := ih
    constructor
    · intro sd e p h
      cases e with
      | seq a b =>
        simp only [spineNoCut, Bool.and_eq_true] at h
        simp only [eval]
        have ha := ihE sd a p h.1
        cases hra : eval g toks ci n sd a p with
        | ok q c evs =>
          rw [hra] at ha; simp only [flat_ok] at ha; subst ha
          have hb := ihE sd b q h.2
          cases hrb : eval g toks ci n sd b q <;> rw [hrb] at hb <;> simp_all
        | _ => rw [hra] at ha; simp_all
      | act l a =>
        simp only [spineNoCut] at h
        simp only [eval]
        have ha := ihE sd a p h
        cases hra : eval g toks ci n sd a p <;> rw [hra] at ha <;> simp_all
      | inv a =>
        simp only [spineNoCut] at h
        simp only [eval]
        split
        · exact ihE sd a p h
        · simp
      | cut => simp [spineNoCut] at h
      | ref r =>
        simp only [eval]
        split
        · simp
        · split
          · simp
          · split
            · exact ihG _ _ _ _ _
            · simp
      | _ => simp [eval]
    · intro sd r body p cur
      simp [grow]

/-! ## no forced item, no exception -/

theorem noErr_all {S : Mask}
    (hS : ∀ r rule, S.has r = true → g.rules[r]? = some rule → noErr S rule.body = true) : ∀ fuel,
    (∀ sd e p, noErr S e = true → eval g toks ci fuel sd e p ≠ .err) ∧
    (∀ sd r body p cur, noErr S body = true → grow g toks ci fuel sd r body p cur ≠ .err) := by
  intro fuel
  induction fuel with
  | zero => constructor <;> intros <;> simp [eval, grow]
  | succ n ih =>
    obtain ⟨ihE, ihG⟩ := ih
    constructor
    · intro sd e p h
      cases e with
      | seq a b =>
        simp only [noErr, Bool.and_eq_true] at h
        simp only [eval]
        have ha := ihE sd a p h.1
        cases hra : eval g toks ci n sd a p with
        | ok q c evs =>
          have hb := ihE sd b q h.2
          cases hrb : eval g toks ci n sd b q <;> simp_all
          split <;> simp
        | _ => simp_all
      | act l a =>
        simp only [noErr] at h
        simp only [eval]
        have ha := ihE sd a p h
        cases hra : eval g toks ci n sd a p <;> simp_all
      | inv a =>
        simp only [noErr] at h
        simp only [eval]
        split
        · exact ihE sd a p h
        · simp
      | alt a b =>
        simp only [noErr, Bool.and_eq_true] at h
        simp only [eval, ne_eq, item_eq_err]
        have ha := ihE sd a p h.1
        have hb := ihE sd b p h.2
        cases hra : eval g toks ci n sd a p <;> simp_all
      | opt a =>
        simp only [noErr] at h
        simp only [eval, ne_eq, item_eq_err]
        have ha := ihE sd a p h
        generalize hx : (eval g toks ci n sd a p).item = x
        have hxe : x ≠ .err := by rw [← hx]; simpa using ha
        cases x <;> simp_all
      | star a =>
        simp only [noErr] at h
        simp only [eval, ne_eq, item_eq_err]
        have ha := ihE sd a p h
        generalize hx : (eval g toks ci n sd a p).item = x
        have hxe : x ≠ .err := by rw [← hx]; simpa using ha
        cases x with
        | ok q c evs =>
          simp only
          split
          · simp
          · have hs := ihE sd (.star a) q (by simpa [noErr] using h)
            cases hrs : eval g toks ci n sd (.star a) q <;> simp_all
        | _ => simp_all
      | plus a =>
        simp only [noErr] at h
        simp only [eval, ne_eq, item_eq_err]
        have ha := ihE sd a p h
        generalize hx : (eval g toks ci n sd a p).item = x
        have hxe : x ≠ .err := by rw [← hx]; simpa using ha
        cases x with
        | ok q c evs =>
          simp only
          have hs := ihE sd (.star a) q (by simpa [noErr] using h)
          cases hrs : eval g toks ci n sd (.star a) q <;> simp_all
        | _ => simp_all
      | gather s a =>
        simp only [noErr, Bool.and_eq_true] at h
        simp only [eval, ne_eq, item_eq_err]
        have ha := ihE sd a p h.2
        generalize hx : (eval g toks ci n sd a p).item = x
        have hxe : x ≠ .err := by rw [← hx]; simpa using ha
        cases x with
        | ok q c evs =>
          simp only
          have hs := ihE sd (.star (.seq s a)) q (by simp [noErr, h.1, h.2])
          cases hrs : eval g toks ci n sd (.star (.seq s a)) q <;> simp_all
        | _ => simp_all
      | pos a =>
        simp only [noErr] at h
        simp only [eval, ne_eq, item_eq_err]
        have ha := ihE sd a p h
        generalize hx : (eval g toks ci n sd a p).item = x
        have hxe : x ≠ .err := by rw [← hx]; simpa using ha
        cases x <;> simp_all
      | neg a =>
        simp only [noErr] at h
        simp only [eval, ne_eq, item_eq_err]
        have ha := ihE sd a p h
        generalize hx : (eval g toks ci n sd a p).item = x
        have hxe : x ≠ .err := by rw [← hx]; simpa using ha
        cases x <;> simp_all
      | forced a => simp [noErr] at h
      | ref r =>
        simp only [noErr] at h
        simp only [eval]
        split
        · simp
        · split
          · simp
          · rename_i rule hrule
            have hb := hS r rule h hrule
            split
            · exact ihG _ _ _ _ _ hb
            · simpa using ihE _ _ _ hb
      | _ => simp [eval]
    · intro sd r body p cur h
      simp only [grow, ne_eq, item_eq_err]
      have hb := ihE ((r, p, cur) :: sd) body p h
      generalize hx : (eval g toks ci n ((r, p, cur) :: sd) body p).item = x
      have hxe : x ≠ .err := by rw [← hx]; simpa using hb
      cases x with
      | ok q c evs =>
        simp only
        split
        · simp
        · exact ihG _ _ _ _ _ h
      | _ => simp_all

end

/-! ## seeds of rules that cannot succeed are failures -/

def SeedsF (F : Mask) (sd : Seeds) : Prop :=
  ∀ r p s, sd.find r p = some s → F.has r = true → s = none

theorem SeedsF_nil (F : Mask) : SeedsF F [] := by
  intro r p s h; simp [Seeds.find] at h

theorem SeedsF_cons {F : Mask} {sd : Seeds} (h : SeedsF F sd) (r p : Nat) (cur : Seed)
    (hc : F.has r = true → cur = none) : SeedsF F ((r, p, cur) :: sd) := by
  intro r' p' s hf hr'
  simp only [Seeds.find] at hf
  split at hf
  · rename_i hh
    simp at hf; subst hf
    exact hc (hh.1 ▸ hr')
  · exact h r' p' s hf hr'

end Scenic.Peg
