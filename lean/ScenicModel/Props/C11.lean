import ScenicModel.Props.C11Scenario
import ScenicModel.Props.C11Syntax
import ScenicModel.Model.LTLBuild
import ScenicModel.Gen.LTL
/-!
# C11 — temporal requirements accept exactly the traces satisfying the formula

Property theorems, instantiated on the data regenerated on every run:

* `Gen.LTL.monCfg`  — the scan bound of `UntilMonitor` in the installed `rv_ltl/monitor.py`;
* `Gen.LTL.rule`    — the verdict sets of `DynamicScenario._step` / `_stop` / `_addDynamicRequirement`,
                      `falsifiedByInner`, the initial `lastValue`, whether `Implies` defines `evaluate()`;
* `Gen.LTL.ctorMap` — which rv_ltl proposition each class of `propositions.py` builds, operands in which order;
* `Gen.LTL.sugar`   — the expansions of rv_ltl's sugar monitors (`Eventually`, `Always`, `Implies`);
* `Gen.LTL.atomCoerce`, `Gen.LTL.evalForms` — `bool()` on atom values in `PropositionMonitor.update`, the bodies of
                      the `evaluate()` methods.

## The full statements, and what is proved

FULL (C11):  for every formula `f`, trace `σ`, number of steps `N ≥ 1`:
  (1) `run monCfg rule f σ N = accepted ↔ sat σ N f 0`                          (`accept_iff`)
  (2) `run … = rejectedAt t ∧ t + 1 < N → no continuation of the first t+1 steps satisfies f`
                                                                                  (`early_reject_hopeless`)
  (3) the same for a `require` executed while its scenario is running, counted from the step in which it
      executes                                                                   (`dynamic_require_monitored`)
  (4) a scenario with any number of requirements, registered before its start or executed by its compose
      block, is accepted iff each of them is satisfied on its own window        (`scenario_accept_iff`)

(3) and (4) hold of the repaired code (`_addDynamicRequirement` now creates the monitor, updates it at once and
keeps it in the list); they are proved without any hypothesis on the rule beyond the side conditions
re-decided on every run.  `scenario_accept_decomposes` and `scenario_reject_culprit` hold for **every** formula.

With the installed rv_ltl, (1) and (2) are **false** for some formulas — see the `*_witness` theorems (each is
replayed on the real code by `tools/props/c11.py`):

* the installed rv_ltl scans `range(i, min(i + k, last))` in `UntilMonitor`, which is only right at `i = 0`:
  an `until` below a temporal operator is mis-evaluated (`nested_until_witness`);
* `UntilMonitor` commits to the first index where its right operand is *currently* truthy: with a temporal
  right operand an earlier index may still become true, so its FALSE is premature
  (`until_premature_false_witness`).

Proved (`…_partial` = the full statement restricted to the stated fragment; nothing else is missing):
(1) on `okZero monCfg false ∧ okZero monCfg true`, (2) on `okZero monCfg true`, (3), (4) on the same fragments.
`verdict_sound_complete_exact_bound` shows that (1)'s exactness part holds for **every** formula as soon as
rv_ltl uses the textbook bound, so the fragment is forced by the third-party package only.
-/
namespace Scenic.C11
open Scenic.LTL Scenic.Gen.LTL

/-! ## side conditions on the generated data (re-decided by the kernel on every run) -/

/-- `_step` rejects exactly on FALSE, `_stop` exactly on a falsy last verdict, the scene check exactly on FALSE -/
theorem gen_rule_canonical : rule.Canonical := by decide

/-- before the first update `lastValue` is TRUE (a scenario stopped before its first step is not rejected) -/
theorem gen_init_last : rule.initLast = 4 := by decide

/-- every class of `propositions.py` builds its rv_ltl namesake with the operands in source order, so the
    formula the monitor runs is the formula that was written -/
theorem gen_ctor_map_canonical : ctorMap = canonicalCtorMap := by decide

/-- exactly the temporal operators mark a requirement as temporal (so that it is monitored, not evaluated once) -/
theorem gen_temporal_classes : temporalClasses = canonicalTemporal := by decide

/-- rv_ltl's sugar monitors expand as `evalAt` assumes -/
theorem gen_sugar_canonical : sugar = canonicalSugar := by decide

/-- a temporal `require` executed while its scenario is running is tested on its first verdict exactly like in
    every later step (rejected on FALSE only), and `Implies` can be evaluated on the spot -/
theorem gen_runtime_canonical : rule.RuntimeCanonical := by decide

/-- `PropositionMonitor.update` hands rv_ltl `bool(value)`, so a `None`-valued atom is a false atom -/
theorem gen_atom_coerced : atomCoerce = true := by decide

/-- the `evaluate()` methods are the ones `F.evalPy` mirrors (truth values, not bitwise operators) -/
theorem gen_eval_forms_canonical : evalForms = canonicalEvalForms := by decide

/-! ## (A) the verdict read at the end is exact -/

/-- **verdict_sound_complete** restricted to the fragment `okZero monCfg false`: after `n ≥ 1` steps the
    verdict is truthy iff the `n`-step trace satisfies the formula (strong next, strong until). -/
theorem verdict_sound_complete_partial (f : F) (hf : f.okZero monCfg false = true) (σ : Trace) (n : Nat)
    (hn : 0 < n) : truthy (evalAt monCfg σ n f 0) = sat σ n f 0 := by
  have := verdict_iff_sat_zero monCfg σ n hn f hf
  rw [Bool.eq_iff_iff, truthy_iff]; exact this

example : (F.until (.atom 0) (.or (.next (.atom 1)) (.always (.not (.atom 0))))).okZero monCfg false = true := by decide

/-- the same statement for **all** formulas, for any monitor whose `until` uses the textbook bound -/
theorem verdict_sound_complete_exact_bound (c : MonCfg) (hc : c.untilShift = false) (f : F) (σ : Trace)
    (n i : Nat) (hi : i < n) : truthy (evalAt c σ n f i) = sat σ n f i := by
  have := verdict_iff_sat_all c σ n f (okAll_of_noShift c hc f) i hi
  rw [Bool.eq_iff_iff, truthy_iff]; exact this

/-- witness: outside the fragment the full statement fails for the installed rv_ltl —
    `next (a until b)` on a = T F F, b = F T F is satisfied, the monitor says FALSE -/
theorem nested_until_witness :
    let f := F.next (.until (.atom 0) (.atom 1))
    let σ := ofRows [[true, false], [false, true], [false, false]]
    sat σ 3 f 0 = true ∧ evalAt { untilShift := true } σ 3 f 0 = 1 ∧ f.okZero { untilShift := true } false = false := by
  decide

/-- the witness applies to the configuration extracted from the installed package -/
theorem nested_until_witness_applies (h : monCfg.untilShift = true) :
    ∃ (f : F) (σ : Trace) (n : Nat), 0 < n ∧ sat σ n f 0 = true ∧ evalAt monCfg σ n f 0 = 1 := by
  refine ⟨F.next (.until (.atom 0) (.atom 1)), ofRows [[true, false], [false, true], [false, false]], 3, by decide, ?_⟩
  have : monCfg = { untilShift := true } := by cases hm : monCfg; simp_all
  rw [this]; decide

/-! ## (B) a definite verdict is final -/

/-- **false_is_final** restricted to `okZero monCfg true`: FALSE after `n` steps ⇒ no continuation satisfies -/
theorem false_is_final_partial (f : F) (hf : f.okZero monCfg true = true) (σ σ' : Trace) (n m : Nat)
    (hn : 0 < n) (hag : Agree σ σ' n) (hnm : n ≤ m) (hv : evalAt monCfg σ n f 0 = 1) : sat σ' m f 0 = false :=
  false_is_final monCfg σ σ' n m f hf hn hag hnm hv

theorem true_is_final_partial (f : F) (hf : f.okZero monCfg true = true) (σ σ' : Trace) (n m : Nat)
    (hn : 0 < n) (hag : Agree σ σ' n) (hnm : n ≤ m) (hv : evalAt monCfg σ n f 0 = 4) : sat σ' m f 0 = true :=
  true_is_final monCfg σ σ' n m f hf hn hag hnm hv

example : (F.implies (.always (.atom 0)) (.until (.next (.atom 1)) (.not (.atom 0)))).okZero monCfg true = true := by
  decide
example : evalAt monCfg (ofRows [[true], [false]]) 2 (.always (.atom 0)) 0 = 1 := by decide

/-- witness: with a temporal right operand `until` says FALSE too early (for either scan bound) —
    `a until ((eventually b) or a)` on a = F T, b = F F is FALSE after two steps, yet the continuation
    b₂ = T satisfies it -/
theorem until_premature_false_witness (shift : Bool) :
    let f := F.until (.atom 0) (.or (.eventually (.atom 1)) (.atom 0))
    let σ := ofRows [[false, false], [true, false], [false, true]]
    evalAt { untilShift := shift } σ 2 f 0 = 1 ∧ sat σ 3 f 0 = true ∧ evalAt { untilShift := shift } σ 3 f 0 = 4
      ∧ f.okZero { untilShift := shift } true = false := by
  cases shift <;> decide

/-! ## (C) `always` of a non-temporal condition is rejected at once -/

theorem always_atomic_false_immediate (p : F) (hp : p.prop = true) (σ : Trace) (n k : Nat) (hk : k < n)
    (hfalse : p.pval (σ k) = false) : evalAt monCfg σ n (.always p) 0 = 1 :=
  always_prop_false_immediate monCfg σ n p hp k hk hfalse

example : (F.implies (.atom 0) (.not (.atom 1))).prop = true ∧
    (F.implies (.atom 0) (.not (.atom 1))).pval (ofRows [[true, true]] 0) = false := by decide

/-- … so the simulation is rejected in that very step (if not before) -/
theorem always_atomic_rejected_by_then (p : F) (hp : p.prop = true) (σ : Trace) (N k : Nat) (hk : k < N)
    (hfalse : p.pval (σ k) = false) : ∃ t, t ≤ k ∧ run monCfg rule (.always p) σ N = .rejectedAt t := by
  have hrule := gen_rule_canonical
  have hv := always_prop_false_immediate monCfg σ (k + 1) p hp k (by omega) hfalse
  have hit : (fun t => rule.stepReject.contains (evalAt monCfg σ (t + 1) (.always p) 0)) k = true := by
    simp only [hrule.1, hv]; decide
  obtain ⟨t, ht, htk⟩ := findFrom_of_hit (p := fun t => rule.stepReject.contains (evalAt monCfg σ (t + 1) (.always p) 0))
    (i := 0) (fuel := N) (Nat.zero_le k) (by omega) hit
  exact ⟨t, htk, by unfold run; rw [ht]⟩

theorem always_atomic_not_rejected_while_true (p : F) (hp : p.prop = true) (σ : Trace) (n : Nat) (hn : 0 < n)
    (hall : ∀ k, k < n → p.pval (σ k) = true) : evalAt monCfg σ n (.always p) 0 = 3 :=
  always_prop_presumably_true monCfg σ n p hp hn hall

/-! ## (D) Boolean connectives and non-temporal sub-formulas -/

theorem not_boolean (f : F) (σ : Trace) (n i : Nat) :
    truthy (evalAt monCfg σ n (.not f) i) = !truthy (evalAt monCfg σ n f i) := truthy_not _ _ _ _ _
theorem and_boolean (fs : List F) (σ : Trace) (n i : Nat) :
    truthy (evalAt monCfg σ n (F.andL fs) i) = fs.all fun f => truthy (evalAt monCfg σ n f i) := truthy_andL _ _ _ _ _
theorem or_boolean (fs : List F) (σ : Trace) (n i : Nat) :
    truthy (evalAt monCfg σ n (F.orL fs) i) = fs.any fun f => truthy (evalAt monCfg σ n f i) := truthy_orL _ _ _ _ _
theorem implies_boolean (a b : F) (σ : Trace) (n i : Nat) :
    truthy (evalAt monCfg σ n (.implies a b) i) = (!truthy (evalAt monCfg σ n a i) || truthy (evalAt monCfg σ n b i)) :=
  truthy_implies _ _ _ _ _ _

/-- a non-temporal (sub-)formula is evaluated in the current step only, by the ordinary truth tables -/
theorem nontemporal_current_step (p : F) (hp : p.prop = true) (σ : Trace) (n i : Nat) :
    evalAt monCfg σ n p i = b4 (p.pval (σ i)) := evalAt_prop monCfg σ n p hp i

/-! ## (E) Scenic's rule -/

/-- **accept_iff** on the fragment: accepted ⇔ the trace from the step the requirement takes effect to the
    end of its scenario satisfies the formula -/
theorem accept_iff_partial (f : F) (h0 : f.okZero monCfg false = true) (h1 : f.okZero monCfg true = true)
    (σ : Trace) (N : Nat) (hN : 0 < N) : run monCfg rule f σ N = .accepted ↔ sat σ N f 0 = true :=
  accept_iff monCfg rule gen_rule_canonical f h0 h1 σ N hN

/-- the same with the single hypothesis `okZero monCfg true` (which contains the exactness fragment) -/
theorem accept_iff_final_fragment (f : F) (h1 : f.okZero monCfg true = true) (σ : Trace) (N : Nat) (hN : 0 < N) :
    run monCfg rule f σ N = .accepted ↔ sat σ N f 0 = true :=
  accept_iff monCfg rule gen_rule_canonical f (okZero_mono monCfg f h1) h1 σ N hN

example : run monCfg rule (.until (.atom 0) (.atom 1)) (ofRows [[true, false], [false, true]]) 2 = .accepted := by decide
example : run monCfg rule (.eventually (.atom 0)) (ofRows [[false], [false]]) 2 = .rejectedAt 1 := by decide

/-- a requirement that takes effect in absolute step `d` is judged on the steps from `d` on -/
theorem accept_iff_shifted_partial (f : F) (h0 : f.okZero monCfg false = true) (h1 : f.okZero monCfg true = true)
    (σ : Trace) (d N : Nat) (hN : 0 < N) :
    run monCfg rule f (shift σ d) N = .accepted ↔ sat (shift σ d) N f 0 = true :=
  accept_iff monCfg rule gen_rule_canonical f h0 h1 (shift σ d) N hN

/-- **early rejection only when hopeless** on the fragment `okZero monCfg true` -/
theorem early_reject_hopeless_partial (f : F) (h1 : f.okZero monCfg true = true) (σ : Trace) (N t : Nat)
    (hN : 0 < N) (h : run monCfg rule f σ N = .rejectedAt t) (ht : t + 1 < N) (σ' : Trace) (m : Nat)
    (hag : Agree σ σ' (t + 1)) (hm : t + 1 ≤ m) : sat σ' m f 0 = false :=
  early_reject_hopeless monCfg rule gen_rule_canonical f h1 σ N t hN h ht σ' m hag hm

example : run monCfg rule (.always (.atom 0)) (ofRows [[true], [false], [true]]) 3 = .rejectedAt 1 := by decide

/-- the initial-scene check only rejects scenes whose simulation would be rejected in step 0 anyway -/
theorem scene_check_consistent (f : F) (σ : Trace) (N : Nat) (hN : 0 < N) (h : sceneOK monCfg rule f σ = false) :
    run monCfg rule f σ N = .rejectedAt 0 :=
  scene_reject_consistent monCfg rule gen_rule_canonical f σ N hN h

example : sceneOK monCfg rule (.always (.atom 0)) (ofRows [[false]]) = false := by decide

/-! ## (F) requirements executed while a simulation is running -/

/-- **runtime setup block** (a sub-scenario started by `do`): same criterion, counted from the step the
    sub-scenario starts -/
theorem runtime_setup_accept_iff_partial (f : F) (h0 : f.okZero monCfg false = true)
    (h1 : f.okZero monCfg true = true) (σ : Trace) (N : Nat) (hN : 0 < N) :
    runRuntimeSetup monCfg rule f σ N = .accepted ↔ sat σ N f 0 = true :=
  LTL.runtime_setup_accept_iff monCfg rule gen_rule_canonical gen_runtime_canonical.2 f h0 h1 σ N hN

example : runRuntimeSetup monCfg rule (.and (.tt) (.and (.atom 0) (.not (.atom 1)))) (ofRows [[true, false]]) 1 = .accepted := by decide
example : runRuntimeSetup monCfg rule (.implies (.atom 0) (.atom 1)) (ofRows [[true, false]]) 1 = .rejectedAt 0 := by decide

/-- **dynamic_require_monitored**: a `require` executed inside a running scenario (compose block) is judged
    on the steps from the one in which it executes to the end of that scenario -/
theorem dynamic_require_monitored_partial (f : F) (h0 : f.okZero monCfg false = true)
    (h1 : f.okZero monCfg true = true) (σ : Trace) (d N : Nat) (hN : 0 < N) :
    runDynamic monCfg rule f (shift σ d) N = .accepted ↔ sat (shift σ d) N f 0 = true :=
  LTL.dynamic_require_monitored monCfg rule gen_rule_canonical gen_runtime_canonical f h0 h1 (shift σ d) N hN

example : runDynamic monCfg rule (.always (.atom 0)) (ofRows [[true], [false], [true]]) 3 = .rejectedAt 1 := by decide
example : runDynamic monCfg rule (.eventually (.atom 0)) (shift (ofRows [[true], [false], [false]]) 1) 2 = .rejectedAt 1 := by
  decide

/-- … for **every** formula it goes through exactly the checks of a requirement registered before the start -/
theorem dynamic_require_same_checks (f : F) (hp : f.prop = false) (σ : Trace) (N : Nat) (hN : 0 < N) :
    runDynamic monCfg rule f σ N = run monCfg rule f σ N := by
  unfold runDynamic
  simp only [hp, Bool.false_eq_true, if_false, gen_runtime_canonical.1]
  exact runRegistered_eq_run monCfg rule f σ N hN

/-- … and it is rejected before the end only when no continuation could satisfy it -/
theorem dynamic_early_reject_hopeless_partial (f : F) (hp : f.prop = false) (h1 : f.okZero monCfg true = true)
    (σ : Trace) (N t : Nat) (hN : 0 < N) (h : runDynamic monCfg rule f σ N = .rejectedAt t) (ht : t + 1 < N)
    (σ' : Trace) (m : Nat) (hag : Agree σ σ' (t + 1)) (hm : t + 1 ≤ m) : sat σ' m f 0 = false :=
  LTL.dynamic_early_reject_hopeless monCfg rule gen_rule_canonical gen_runtime_canonical f hp h1 σ N t hN h ht σ' m hag hm

/-- a non-temporal `require` executed at run time on atoms with arbitrary (non-Boolean) values: only the truth
    values of the atoms matter (`evaluate()` + `if not result`) -/
theorem runtime_values_truth_only (p : F) (hp : p.prop = true) (v : Nat → PyVal) :
    (p.evalPy v).truth = p.pval (fun a => (v a).truth) := evalPy_truth v p hp

example : ((F.and (.atom 0) (.atom 1)).evalPy
    (fun a => if a = 0 then { truth := true, isNone := false, tag := 2 } else { truth := true, isNone := false, tag := 1 })).truth = true := by
  decide

/-- the monitor sees the truth value of every atom, `None` included -/
theorem monitor_sees_truth_values (v : PyVal) : atomInput atomCoerce v = some v.truth := by
  rw [gen_atom_coerced]; rfl

/-! ## (G) a scenario with its list of requirement monitors -/

/-- **scenario_accept_decomposes** (every formula): the loop of `_step` / `_addDynamicRequirement` / `_stop` over the
    growing monitor list accepts iff each requirement is accepted on its own window -/
theorem scenario_accept_decomposes (init : List F) (script : Nat → List F) (σ : Trace) (N : Nat) (hN : 0 < N) :
    simulate monCfg rule init script σ N = .accepted ↔
      (∀ f ∈ init, run monCfg rule f σ N = .accepted) ∧
      (∀ s, s < N → ∀ f ∈ script s, run monCfg rule f (shift σ s) (N - s) = .accepted) := by
  rw [simulate_accepted_iff monCfg rule rule.stepReject gen_runtime_canonical.1 init script σ N hN]
  constructor
  · rintro ⟨h1, h2⟩
    refine ⟨h1, fun s hs f hf => ?_⟩
    rw [← runRegistered_eq_run monCfg rule f (shift σ s) (N - s) (by omega)]
    exact h2 s hs f hf
  · rintro ⟨h1, h2⟩
    refine ⟨h1, fun s hs f hf => ?_⟩
    rw [runRegistered_eq_run monCfg rule f (shift σ s) (N - s) (by omega)]
    exact h2 s hs f hf

/-- **scenario_reject_culprit** (every formula): a rejection in step `u` is caused by one requirement, in force
    since step `start ≤ u`, whose own verdict in step `u` is FALSE — or falsy, after the last step -/
theorem scenario_reject_culprit (init : List F) (script : Nat → List F) (σ : Trace) (N u : Nat) (hN : 0 < N)
    (h : simulate monCfg rule init script σ N = .rejectedAt u) :
    u < N ∧ ∃ (f : F) (start : Nat), ((f ∈ init ∧ start = 0) ∨ f ∈ script start) ∧ start ≤ u ∧
      (verdictAt monCfg σ f start u = 1 ∨ (u = N - 1 ∧ truthy (verdictAt monCfg σ f start u) = false)) :=
  simulate_rejected_culprit monCfg rule gen_rule_canonical gen_runtime_canonical.1 init script σ N u hN h

/-- **scenario_accept_iff** on the fragment: accepted ⇔ every requirement's own trace, from the step it takes
    effect to the end of the scenario, satisfies it -/
theorem scenario_accept_iff_partial (init : List F) (script : Nat → List F)
    (hi : ∀ f ∈ init, f.okZero monCfg true = true) (hs : ∀ s, ∀ f ∈ script s, f.okZero monCfg true = true)
    (σ : Trace) (N : Nat) (hN : 0 < N) :
    simulate monCfg rule init script σ N = .accepted ↔
      (∀ f ∈ init, sat σ N f 0 = true) ∧
      (∀ s, s < N → ∀ f ∈ script s, sat (shift σ s) (N - s) f 0 = true) :=
  scenario_accept_iff monCfg rule gen_rule_canonical gen_runtime_canonical init script hi hs σ N hN

/-- **scenario_early_reject_hopeless** on the fragment -/
theorem scenario_early_reject_hopeless_partial (init : List F) (script : Nat → List F)
    (hi : ∀ f ∈ init, f.okZero monCfg true = true) (hs : ∀ s, ∀ f ∈ script s, f.okZero monCfg true = true)
    (σ : Trace) (N u : Nat) (hN : 0 < N) (h : simulate monCfg rule init script σ N = .rejectedAt u) (hu : u + 1 < N) :
    ∃ (f : F) (start : Nat), ((f ∈ init ∧ start = 0) ∨ f ∈ script start) ∧ start ≤ u ∧
      ∀ (σ' : Trace) (m : Nat), Agree σ σ' (u + 1) → u + 1 - start ≤ m → sat (shift σ' start) m f 0 = false :=
  scenario_early_reject_hopeless monCfg rule gen_rule_canonical gen_runtime_canonical init script hi hs σ N u hN h hu

/-- non-vacuity: a setup-block `always a` together with `require eventually b` executed by the compose block
    in step 1 — accepted on one trace, rejected (by the dynamic requirement, at the stop) on another, rejected
    early (by the first) on a third -/
example :
    let init := [F.always (.atom 0)]
    let script := scriptOf [(1, F.eventually (.atom 1))]
    simulate monCfg rule init script (ofRows [[true, true], [true, false], [true, true]]) 3 = .accepted ∧
    simulate monCfg rule init script (ofRows [[true, true], [true, false], [true, false]]) 3 = .rejectedAt 2 ∧
    simulate monCfg rule init script (ofRows [[true, true], [false, false], [true, true]]) 3 = .rejectedAt 1 := by
  decide

end Scenic.C11
