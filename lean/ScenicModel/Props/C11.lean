/-! # C11 — property theorems (stub: filled in when the property's model is built) -/
namespace Scenic.C11
end Scenic.C11
