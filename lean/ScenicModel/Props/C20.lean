/-! # C20 — property theorems (stub: filled in when the property's model is built) -/
namespace Scenic.C20
end Scenic.C20
