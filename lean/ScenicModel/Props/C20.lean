import ScenicModel.Props.C20Links
import ScenicModel.Props.C20Lookup
import ScenicModel.Props.C20Cache
import ScenicModel.Gen.Roads
/-!
# C20 — road networks are internally consistent: property theorems on the data regenerated from /repo

`Scenic.Gen.Roads` (passes of `findPointIn`, the lookup table with its priority orders, the header
layout / exception classes of the `.snet` cache, the separators of `deterministicHash`) is rewritten
from roads.py / serialization.py on every check run; the side conditions `gen_*` are re-decided by
the kernel on that data, and the theorems below are the generic ones instantiated on it.

Generic theorems (proved for every network / point / file):
* `linksReciprocal_spec`, `rule_check_iff` — Props/C20Links.lean, with the consequences
  `owner_unique`, `section_lane_unique`, `lane_owner_chain`, `opposite_involutive`,
  `adjacent_symmetric`, `maneuver_path`;
* `lookup_sound`, `lookup_first`, `lookup_complete`, `lookup_exact_priority`,
  `lookup_zero_tolerance`, `elementAt_priority`, `lane_in_road_found` — Props/C20Lookup.lean;
* `fromPickle_ok_iff`, `cache_used_iff_keys_equal`, `cache_never_raises`, `dump_load_roundtrip`,
  `second_load_uses_cache`, `options_preimage_injective` — Props/C20Cache.lean.

Not proved (explored by the check on every shipped map): the geometric clauses — that the exported
containment facts come from polygons in which children lie inside their parents, that the drivable
area is covered, that the reported direction is the tangent of the nearest centreline segment.
-/
namespace Scenic.C20
open Scenic.Roads Scenic.RoadCache Scenic.Gen.Roads

/-! ### side conditions on the generated data -/

/-- `findPointIn` runs the exact pass, then the tolerant pass guarded by `tolerance > 0` -/
theorem gen_passes : passes = [.exact, .tolerant] := by decide

/-- every exception class raised by `fromPickle` is caught by `fromFile`; the format version fits
its field; the digests have the lengths of `blake2b()` / `deterministicHash(digest_size=8)` -/
theorem gen_cache_wf : CaughtAll cacheCfg ∧ cacheCfg.formatVersion < 256 ^ cacheCfg.versionBytes ∧
    cacheCfg.versionBytes = 4 ∧ cacheCfg.digestBytes = 64 ∧ cacheCfg.optionsBytes = 8 := by
  unfold CaughtAll; decide

/-- the lookup table: documented priority order of `elementAt` (Intersection → Road → Shoulder →
Sidewalk), `roadAt` over ordinary then connecting roads, and the two-stage lookups -/
theorem gen_lookups :
    lookups.lookup "elementAt" = some { first := [[.intersections], [.roads], [.shoulders], [.sidewalks]] } ∧
    lookups.lookup "roadAt" = some { first := [[.roads], [.connecting]] } ∧
    lookups.lookup "laneAt" = some { first := [[.lanes]] } ∧
    lookups.lookup "laneSectionAt" = some { first := [[.lanes]], child := some [[.sections]] } ∧
    lookups.lookup "laneGroupAt" = some { first := [[.roads], [.connecting]], child := some [[.groups]] } ∧
    lookups.lookup "intersectionAt" = some { first := [[.intersections]] } ∧
    lookups.lookup "nominalDirElem" = some { first := [[.intersections], [.roads], [.shoulders]] } := by
  decide

/-- separators of `deterministicHash`: `\0K` before a key, `\0V` before a value -/
theorem gen_hash_wf : hashCfg.sepKey = [0, 75] ∧ hashCfg.sepVal = [0, 86] ∧ hashCfg.placeholder = [0] := by
  decide

/-! ### the theorems on the generated data -/

/-- `findPointIn` of the current source (passes as generated) is the two-pass lookup of the model -/
theorem gen_findPointIn (tolPos : Bool) (pf : PointFacts) (es : List Nat) :
    findPointInWith passes tolPos pf es = findPointIn tolPos pf es := by
  rw [gen_passes]; rfl

theorem gen_lookup_sound (tolPos : Bool) (pf : PointFacts) (es : List Nat) (r : Nat)
    (h : findPointInWith passes tolPos pf es = some r) :
    r ∈ es ∧ (r ∈ pf.exact ∨ (tolPos = true ∧ r ∈ pf.near ∧ ∀ x ∈ es, x ∉ pf.exact)) :=
  lookup_sound tolPos pf es r (gen_findPointIn tolPos pf es ▸ h)

theorem gen_lookup_complete (tolPos : Bool) (pf : PointFacts) (es : List Nat) :
    findPointInWith passes tolPos pf es = none ↔
      (∀ x ∈ es, x ∉ pf.exact) ∧ (tolPos = true → ∀ x ∈ es, x ∉ pf.near) := by
  rw [gen_findPointIn]; exact lookup_complete tolPos pf es

/-- `elementAt` of the current source: an intersection containing the point wins; otherwise a road
containing it wins over shoulders and sidewalks -/
theorem gen_elementAt_priority (n : Network) (tolPos : Bool) (pf : PointFacts) (d : LookupDef)
    (hd : lookups.lookup "elementAt" = some d) :
    ((∃ x ∈ n.field .intersections 0, x ∈ pf.exact) →
      ∃ r ∈ n.field .intersections 0, lookupWith passes n tolPos pf d = some r ∧ r ∈ pf.exact) ∧
    ((∀ x ∈ n.field .intersections 0, x ∉ pf.exact) → (∃ x ∈ n.field .roads 0, x ∈ pf.exact) →
      ∃ r ∈ n.field .roads 0, lookupWith passes n tolPos pf d = some r ∧ r ∈ pf.exact) := by
  have hd' := gen_lookups.1
  rw [hd] at hd'
  cases hd'
  have hev : n.eval [[.intersections], [.roads], [.shoulders], [.sidewalks]] 0 =
      n.field .intersections 0 ++ n.field .roads 0 ++ n.field .shoulders 0 ++ n.field .sidewalks 0 := by
    simp [Network.eval, Network.path]
  have hl : ∀ r, lookupWith passes n tolPos pf
      { first := [[.intersections], [.roads], [.shoulders], [.sidewalks]] } = r ↔
      findPointIn tolPos pf (n.field .intersections 0 ++ n.field .roads 0 ++ n.field .shoulders 0 ++
        n.field .sidewalks 0) = r := by
    intro r
    unfold lookupWith
    simp only [gen_findPointIn, hev]
  have := elementAt_priority tolPos pf (n.field .intersections 0) (n.field .roads 0)
    (n.field .shoulders 0) (n.field .sidewalks 0)
  constructor
  · intro h
    obtain ⟨r, hr, hf, he⟩ := this.1 h
    exact ⟨r, hr, (hl _).mpr hf, he⟩
  · intro h1 h2
    obtain ⟨r, hr, hf, he⟩ := this.2 h1 h2
    exact ⟨r, hr, (hl _).mpr hf, he⟩

/-- the cache of the current source is used iff version, map digest and options digest all match -/
theorem gen_cache_used_iff {α : Type} (unpickle : Bytes → Option α) (parse a : α)
    (useCache : Bool) (cacheFile : Option Bytes) (digest optDigest : Bytes)
    (hd : digest.length = 64) (ho : optDigest.length = 8) :
    fromFile cacheCfg unpickle parse useCache cacheFile digest optDigest = .cached a ↔
      useCache = true ∧ ∃ v payload, cacheFile = some (v ++ (digest ++ (optDigest ++ payload))) ∧
        v.length = 4 ∧ leDecode v = cacheCfg.formatVersion ∧ unpickle payload = some a := by
  have hw := gen_cache_wf
  have hd' : digest ≠ [] := by intro h; rw [h] at hd; cases hd
  have ho' : optDigest ≠ [] := by intro h; rw [h] at ho; cases ho
  rw [cache_used_iff_keys_equal cacheCfg unpickle parse a useCache cacheFile digest optDigest hd' ho']
  rw [hw.2.2.1, hw.2.2.2.1, hw.2.2.2.2]
  constructor
  · rintro ⟨h1, v, p, h2, h3, h4, _, _, h5⟩; exact ⟨h1, v, p, h2, h3, h4, h5⟩
  · rintro ⟨h1, v, p, h2, h3, h4, h5⟩; exact ⟨h1, v, p, h2, h3, h4, hd, ho, h5⟩

/-- with the exception classes of the current source, a cache that is not used is ignored -/
theorem gen_cache_never_raises {α : Type} (unpickle : Bytes → Option α) (parse : α)
    (useCache : Bool) (cacheFile : Option Bytes) (digest optDigest : Bytes) :
    (∃ a, fromFile cacheCfg unpickle parse useCache cacheFile digest optDigest = .cached a) ∨
    fromFile cacheCfg unpickle parse useCache cacheFile digest optDigest = .parsed parse :=
  cache_never_raises cacheCfg gen_cache_wf.1 unpickle parse useCache cacheFile digest optDigest

theorem gen_dump_load_roundtrip {α : Type} (pickle : α → Bytes) (unpickle : Bytes → Option α)
    (hpu : ∀ a, unpickle (pickle a) = some a) (a : α) (d o d' o' : Bytes)
    (hd : d.length = 64) (ho : o.length = 8) (hd' : d' ≠ []) (ho' : o' ≠ []) :
    fromPickle cacheCfg unpickle (dumpPickle cacheCfg pickle a d o) (some d') (some o') = .ok a ↔
      d' = d ∧ o' = o :=
  dump_load_roundtrip cacheCfg gen_cache_wf.2.1 pickle unpickle hpu a d o d' o'
    (by rw [gen_cache_wf.2.2.2.1]; exact hd) (by rw [gen_cache_wf.2.2.2.2]; exact ho) hd' ho'

theorem gen_options_injective (a b : List (Bytes × Option Bytes)) (ha : Plain a) (hb : Plain b)
    (h : encodeOptions hashCfg a = encodeOptions hashCfg b) : a = b :=
  options_preimage_injective hashCfg gen_hash_wf.1 gen_hash_wf.2.1 a b ha hb h

/-! ### examples: the hypotheses are satisfiable, the statements are not vacuous -/

/-- a one-road network: network, road, forward group, two adjacent lanes, one road section, two lane sections -/
def demoNet : Network := { elems := #[
  { kind := .network, fields := [(.roads, [1]), (.groups, [2]), (.lanes, [3, 4]), (.sections, [5]),
      (.laneSections, [6, 7])] },
  { kind := .road, fields := [(.lanes, [3, 4]), (.forward, [2]), (.groups, [2]), (.sections, [5])] },
  { kind := .laneGroup, fields := [(.road, [1]), (.lanes, [3, 4])] },
  { kind := .lane, fields := [(.group, [2]), (.road, [1]), (.sections, [6]), (.adjacent, [4])] },
  { kind := .lane, fields := [(.group, [2]), (.road, [1]), (.sections, [7]), (.adjacent, [3])] },
  { kind := .roadSection, fields := [(.road, [1]), (.lanes, [6, 7]), (.forward, [6, 7])] },
  { kind := .laneSection, fields := [(.lane, [3]), (.group, [2]), (.road, [1]), (.left, [7]),
      (.adjacent, [7]), (.faster, [7])] },
  { kind := .laneSection, fields := [(.lane, [4]), (.group, [2]), (.road, [1]), (.right, [6]),
      (.adjacent, [6]), (.slower, [6])] }] }

/-- the same network with lane 4 claiming another group: ownership is no longer reciprocal -/
def brokenNet : Network := { elems := #[
  { kind := .network, fields := [(.roads, [1]), (.groups, [2]), (.lanes, [3, 4]), (.sections, [5]),
      (.laneSections, [6, 7])] },
  { kind := .road, fields := [(.lanes, [3, 4]), (.forward, [2]), (.groups, [2]), (.sections, [5])] },
  { kind := .laneGroup, fields := [(.road, [1]), (.lanes, [3, 4])] },
  { kind := .lane, fields := [(.group, [2]), (.road, [1]), (.sections, [6]), (.adjacent, [4])] },
  { kind := .lane, fields := [(.group, [1]), (.road, [1]), (.sections, [7]), (.adjacent, [3])] },
  { kind := .roadSection, fields := [(.road, [1]), (.lanes, [6, 7]), (.forward, [6, 7])] },
  { kind := .laneSection, fields := [(.lane, [3]), (.group, [2]), (.road, [1]), (.left, [7]),
      (.adjacent, [7]), (.faster, [7])] },
  { kind := .laneSection, fields := [(.lane, [4]), (.group, [2]), (.road, [1]), (.right, [6]),
      (.adjacent, [6]), (.slower, [6])] }] }

example : linksReciprocal demoNet = true := by decide +kernel
example : Reciprocal demoNet := (linksReciprocal_spec demoNet).mp (by decide +kernel)
example : linksReciprocal brokenNet = false := by decide +kernel
example : ¬ Reciprocal brokenNet := fun h =>
  absurd ((linksReciprocal_spec brokenNet).mpr h) (by decide +kernel)

-- a road (9) contains the point, an intersection (5) is only within tolerance: the road wins
example : findPointIn true { exact := [9], near := [5, 9] } [5, 9] = some 9 := by decide
-- nothing contains the point: first element of the list within tolerance
example : findPointIn true { exact := [], near := [9, 5] } [5, 9] = some 5 := by decide
-- zero tolerance: no tolerant pass
example : findPointIn false { exact := [], near := [9, 5] } [5, 9] = none := by decide
-- hypotheses of `lane_in_road_found` on two roads with two lanes each; the second road contains the point
example : findPointIn true { exact := [2, 21], near := [2, 21, 1] } ([1, 2].flatMap fun r => [10 * r, 10 * r + 1])
    = some 21 := by decide

-- the header written by `dumpPickle` for 64 + 8 digest bytes is accepted with the same digests only
example : fromPickle cacheCfg (fun _ => some ()) (header cacheCfg (List.replicate 64 7) (List.replicate 8 9))
    (some (List.replicate 64 7)) (some (List.replicate 8 9)) = .ok () := by decide +kernel
example : fromPickle cacheCfg (fun _ => some ()) (header cacheCfg (List.replicate 64 7) (List.replicate 8 9))
    (some (List.replicate 64 7)) (some (List.replicate 8 1)) = .err .digestMismatch := by decide +kernel
example : fromFile cacheCfg (fun _ => some 1) 2 true
    (some (header cacheCfg (List.replicate 64 7) (List.replicate 8 9))) (List.replicate 64 7) (List.replicate 8 1)
    = .parsed 2 := by decide +kernel
-- `{"a": "b"}` and `{"ab": ""}`-style confusions are separated by the NUL-prefixed separators
example : encodeOptions hashCfg [([97], some [98])] ≠ encodeOptions hashCfg [([97, 98], some [])] := by decide
example : Plain [([97], some [98])] := by
  intro kv hkv
  simp at hkv
  subst hkv
  exact ⟨by intro x hx; simp at hx; subst hx; decide, [98], rfl, by intro x hx; simp at hx; subst hx; decide⟩

end Scenic.C20
