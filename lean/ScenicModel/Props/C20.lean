import ScenicModel.Props.C20Links
import ScenicModel.Props.C20Lookup
import ScenicModel.Props.C20Cache
import ScenicModel.Props.C20Direction
import ScenicModel.Props.C20Adjacency
import ScenicModel.Gen.Roads
/-!
# C20 — road networks are internally consistent: property theorems on the data regenerated from /repo

`Scenic.Gen.Roads` (passes of `findPointIn`, the lookup table with its priority orders, the header
layout / exception classes of the `.snet` cache, the separators of `deterministicHash`) is rewritten
from roads.py / serialization.py on every check run; the side conditions `gen_*` are re-decided by
the kernel on that data, and the theorems below are the generic ones instantiated on it.

Generic theorems (proved for every network / point / file):
* `linksReciprocal_spec`, `rule_check_iff` — Props/C20Links.lean, with the consequences
  `owner_unique`, `section_lane_unique`, `lane_owner_chain`, `opposite_involutive`,
  `adjacent_symmetric`, `maneuver_path`;
* `lookup_sound`, `lookup_first`, `lookup_complete`, `lookup_exact_priority`,
  `lookup_zero_tolerance`, `elementAt_priority`, `lane_in_road_found` — Props/C20Lookup.lean;
* `fromPickle_ok_iff`, `cache_used_iff_keys_equal`, `cache_never_raises`, `dump_load_roundtrip`,
  `second_load_uses_cache`, `options_preimage_injective`, and the path handling in front of the
  cache (`path_map_is_core`, `path_noext_prefers_map`, `path_noext_only_cache`, `path_errors`,
  `path_pickled_direct`) — Props/C20Cache.lean;
* `direction_of_unique_lane`, `nominal_in_intersection`, `found_section_owned`,
  `found_group_owned`, `elem_lookup_sound` — Props/C20Direction.lean;
* `adj_left_reciprocal`, `adj_right_reciprocal`, `adj_faster_slower`, `adj_slower_faster`,
  `adj_adjacent_symmetric`, `sectionOrder_spec` — Props/C20Adjacency.lean.

Not proved (explored by the check on every shipped map): the geometric clauses — that the exported
containment facts come from polygons in which children lie inside their parents, that the drivable
area is covered, that the reported direction is the tangent of the nearest centreline segment.
-/
namespace Scenic.C20
open Scenic.Roads Scenic.RoadCache Scenic.RoadAdj Scenic.Gen.Roads

/-! ### side conditions on the generated data -/

/-- `findPointIn` runs the exact pass, then the tolerant pass guarded by `tolerance > 0` -/
theorem gen_passes : passes = [.exact, .tolerant] := by decide

/-- every exception class raised by `fromPickle` is caught by `fromFile`; the format version fits
its field; the digests have the lengths of `blake2b()` / `deterministicHash(digest_size=8)` -/
theorem gen_cache_wf : CaughtAll cacheCfg ∧ cacheCfg.formatVersion < 256 ^ cacheCfg.versionBytes ∧
    cacheCfg.versionBytes = 4 ∧ cacheCfg.digestBytes = 64 ∧ cacheCfg.optionsBytes = 8 := by
  unfold CaughtAll; decide

/-- the lookup table: documented priority order of `elementAt` (Intersection → Road → Shoulder →
Sidewalk), `roadAt` over ordinary then connecting roads, and the two-stage lookups -/
theorem gen_lookups :
    lookups.lookup "elementAt" = some { first := [[.intersections], [.roads], [.shoulders], [.sidewalks]] } ∧
    lookups.lookup "roadAt" = some { first := [[.roads], [.connecting]] } ∧
    lookups.lookup "laneAt" = some { first := [[.lanes]] } ∧
    lookups.lookup "laneSectionAt" = some { first := [[.lanes]], child := some [[.sections]] } ∧
    lookups.lookup "laneGroupAt" = some { first := [[.roads], [.connecting]], child := some [[.groups]] } ∧
    lookups.lookup "intersectionAt" = some { first := [[.intersections]] } ∧
    lookups.lookup "nominalDirElem" = some { first := [[.intersections], [.roads], [.shoulders]] } := by
  decide

/-- separators of `deterministicHash`: `\0K` before a key, `\0V` before a value -/
theorem gen_hash_wf : hashCfg.sepKey = [0, 75] ∧ hashCfg.sepVal = [0, 86] ∧ hashCfg.placeholder = [0] := by
  decide


/-- the `…At` methods of network elements search the documented lists -/
theorem gen_elem_lookups :
    elemLookups.lookup "Road.sectionAt" = some { owner := .road, first := .sections } ∧
    elemLookups.lookup "Road.laneAt" = some { owner := .road, first := .lanes } ∧
    elemLookups.lookup "Road.laneGroupAt" = some { owner := .road, first := .groups } ∧
    elemLookups.lookup "LaneGroup.laneAt" = some { owner := .laneGroup, first := .lanes } ∧
    elemLookups.lookup "Lane.sectionAt" = some { owner := .lane, first := .sections } ∧
    elemLookups.lookup "RoadSection.laneAt" = some { owner := .roadSection, first := .lanes } ∧
    elemLookups.lookup "Road.laneSectionAt" = some { owner := .road, first := .lanes, child := some .sections } := by
  decide

/-- the heading of a road is taken from a lane group found by `laneGroupAt`, that of a lane group from a
lane found by `laneAt` (the lists `headingSource` of the model descends through) -/
theorem gen_heading_chain : headingChain = [(.road, .groups), (.laneGroup, .lanes)] := by decide

/-- `handlers` lists the map format before the cache format; missing file / unknown extension errors -/
theorem gen_path_wf : PathWF pathCfg ∧ pathCfg.notFoundErr = .fileNotFound ∧ pathCfg.unknownErr = .valueError := by
  unfold PathWF; decide

/-- the `leftID` / `rightID` chains of `toScenicRoad` compute the functions the adjacency theorems are proved
for (`leftRef`: id+1 below -1, -1 ↦ 1, 1 ↦ -1, id-1 above 1; `rightRef`: id-1 for negative ids, id+1 for positive
ones) — proved for every id by case analysis, so an equivalent rewriting of the chains still checks — and faster /
slower lanes of the other direction are discarded; on a right-hand-traffic road the faster lane is the left one -/
theorem gen_adj : AdjWF adjCfg ∧ adjCfg.fasterIsLeftOnRight = true := by
  refine ⟨⟨?_, ?_, by decide⟩, by decide⟩
  · intro id
    simp only [adjCfg, evalChain, Guard.holds, Expr.eval, leftRef, decide_eq_true_eq, beq_iff_eq, if_true]
    repeat' split
    all_goals omega
  · intro id
    simp only [adjCfg, evalChain, Guard.holds, Expr.eval, rightRef, decide_eq_true_eq, beq_iff_eq, if_true]
    repeat' split
    all_goals omega

/-! ### the theorems on the generated data -/

/-- `findPointIn` of the current source (passes as generated) is the two-pass lookup of the model -/
theorem gen_findPointIn (tolPos : Bool) (pf : PointFacts) (es : List Nat) :
    findPointInWith passes tolPos pf es = findPointIn tolPos pf es := by
  rw [gen_passes]; rfl

theorem gen_lookup_sound (tolPos : Bool) (pf : PointFacts) (es : List Nat) (r : Nat)
    (h : findPointInWith passes tolPos pf es = some r) :
    r ∈ es ∧ (r ∈ pf.exact ∨ (tolPos = true ∧ r ∈ pf.near ∧ ∀ x ∈ es, x ∉ pf.exact)) :=
  lookup_sound tolPos pf es r (gen_findPointIn tolPos pf es ▸ h)

theorem gen_lookup_complete (tolPos : Bool) (pf : PointFacts) (es : List Nat) :
    findPointInWith passes tolPos pf es = none ↔
      (∀ x ∈ es, x ∉ pf.exact) ∧ (tolPos = true → ∀ x ∈ es, x ∉ pf.near) := by
  rw [gen_findPointIn]; exact lookup_complete tolPos pf es

/-- `elementAt` of the current source: an intersection containing the point wins; otherwise a road
containing it wins over shoulders and sidewalks -/
theorem gen_elementAt_priority (n : Network) (tolPos : Bool) (pf : PointFacts) (d : LookupDef)
    (hd : lookups.lookup "elementAt" = some d) :
    ((∃ x ∈ n.field .intersections 0, x ∈ pf.exact) →
      ∃ r ∈ n.field .intersections 0, lookupWith passes n tolPos pf d = some r ∧ r ∈ pf.exact) ∧
    ((∀ x ∈ n.field .intersections 0, x ∉ pf.exact) → (∃ x ∈ n.field .roads 0, x ∈ pf.exact) →
      ∃ r ∈ n.field .roads 0, lookupWith passes n tolPos pf d = some r ∧ r ∈ pf.exact) := by
  have hd' := gen_lookups.1
  rw [hd] at hd'
  cases hd'
  have hev : n.eval [[.intersections], [.roads], [.shoulders], [.sidewalks]] 0 =
      n.field .intersections 0 ++ n.field .roads 0 ++ n.field .shoulders 0 ++ n.field .sidewalks 0 := by
    simp [Network.eval, Network.path]
  have hl : ∀ r, lookupWith passes n tolPos pf
      { first := [[.intersections], [.roads], [.shoulders], [.sidewalks]] } = r ↔
      findPointIn tolPos pf (n.field .intersections 0 ++ n.field .roads 0 ++ n.field .shoulders 0 ++
        n.field .sidewalks 0) = r := by
    intro r
    unfold lookupWith
    simp only [gen_findPointIn, hev]
  have := elementAt_priority tolPos pf (n.field .intersections 0) (n.field .roads 0)
    (n.field .shoulders 0) (n.field .sidewalks 0)
  constructor
  · intro h
    obtain ⟨r, hr, hf, he⟩ := this.1 h
    exact ⟨r, hr, (hl _).mpr hf, he⟩
  · intro h1 h2
    obtain ⟨r, hr, hf, he⟩ := this.2 h1 h2
    exact ⟨r, hr, (hl _).mpr hf, he⟩

/-- the cache of the current source is used iff version, map digest and options digest all match -/
theorem gen_cache_used_iff {α : Type} (unpickle : Bytes → Option α) (parse a : α)
    (useCache : Bool) (cacheFile : Option Bytes) (digest optDigest : Bytes)
    (hd : digest.length = 64) (ho : optDigest.length = 8) :
    fromFile cacheCfg unpickle parse useCache cacheFile digest optDigest = .cached a ↔
      useCache = true ∧ ∃ v payload, cacheFile = some (v ++ (digest ++ (optDigest ++ payload))) ∧
        v.length = 4 ∧ leDecode v = cacheCfg.formatVersion ∧ unpickle payload = some a := by
  have hw := gen_cache_wf
  have hd' : digest ≠ [] := by intro h; rw [h] at hd; cases hd
  have ho' : optDigest ≠ [] := by intro h; rw [h] at ho; cases ho
  rw [cache_used_iff_keys_equal cacheCfg unpickle parse a useCache cacheFile digest optDigest hd' ho']
  rw [hw.2.2.1, hw.2.2.2.1, hw.2.2.2.2]
  constructor
  · rintro ⟨h1, v, p, h2, h3, h4, _, _, h5⟩; exact ⟨h1, v, p, h2, h3, h4, h5⟩
  · rintro ⟨h1, v, p, h2, h3, h4, h5⟩; exact ⟨h1, v, p, h2, h3, h4, hd, ho, h5⟩

/-- with the exception classes of the current source, a cache that is not used is ignored -/
theorem gen_cache_never_raises {α : Type} (unpickle : Bytes → Option α) (parse : α)
    (useCache : Bool) (cacheFile : Option Bytes) (digest optDigest : Bytes) :
    (∃ a, fromFile cacheCfg unpickle parse useCache cacheFile digest optDigest = .cached a) ∨
    fromFile cacheCfg unpickle parse useCache cacheFile digest optDigest = .parsed parse :=
  cache_never_raises cacheCfg gen_cache_wf.1 unpickle parse useCache cacheFile digest optDigest

theorem gen_dump_load_roundtrip {α : Type} (pickle : α → Bytes) (unpickle : Bytes → Option α)
    (hpu : ∀ a, unpickle (pickle a) = some a) (a : α) (d o d' o' : Bytes)
    (hd : d.length = 64) (ho : o.length = 8) (hd' : d' ≠ []) (ho' : o' ≠ []) :
    fromPickle cacheCfg unpickle (dumpPickle cacheCfg pickle a d o) (some d') (some o') = .ok a ↔
      d' = d ∧ o' = o :=
  dump_load_roundtrip cacheCfg gen_cache_wf.2.1 pickle unpickle hpu a d o d' o'
    (by rw [gen_cache_wf.2.2.2.1]; exact hd) (by rw [gen_cache_wf.2.2.2.2]; exact ho) hd' ho'

theorem gen_options_injective (a b : List (Bytes × Option Bytes)) (ha : Plain a) (hb : Plain b)
    (h : encodeOptions hashCfg a = encodeOptions hashCfg b) : a = b :=
  options_preimage_injective hashCfg gen_hash_wf.1 gen_hash_wf.2.1 a b ha hb h


/-- the direction clause on the generated data: at a point of exactly one lane (children in parents,
parents covered, no intersection containing it) `roadDirection` and `nominalDirectionsAt` use the
centreline of that lane -/
theorem gen_direction_of_unique_lane (n : Network) (tolPos : Bool) (pf : PointFacts) (l : Nat) (d : LookupDef)
    (hd : lookups.lookup "nominalDirElem" = some d)
    (hroad : ∀ r ∈ n.field .roads 0, n.kindOf r = some .road)
    (hnoint : ∀ x ∈ n.field .intersections 0, x ∉ pf.exact)
    (hup : ∀ r ∈ n.field .roads 0, ∀ g ∈ n.field .groups r, ∀ l' ∈ n.field .lanes g,
      l' ∈ pf.exact → r ∈ pf.exact)
    (hcovR : ∀ r ∈ n.field .roads 0, r ∈ pf.exact → ∃ g ∈ n.field .groups r, g ∈ pf.exact)
    (hcovG : ∀ r ∈ n.field .roads 0, ∀ g ∈ n.field .groups r, g ∈ pf.exact →
      ∃ l' ∈ n.field .lanes g, l' ∈ pf.exact)
    (huniq : ∀ r ∈ n.field .roads 0, ∀ g ∈ n.field .groups r, ∀ l' ∈ n.field .lanes g,
      l' ∈ pf.exact → l' = l)
    (hl : ∃ r ∈ n.field .roads 0, ∃ g ∈ n.field .groups r, l ∈ n.field .lanes g ∧ l ∈ pf.exact) :
    roadDirSource passes n tolPos pf d = some (.elem l) ∧ nominalSources passes n tolPos pf d = [.elem l] := by
  have hd' := gen_lookups.2.2.2.2.2.2
  rw [hd] at hd'
  cases hd'
  rw [gen_passes]
  exact direction_of_unique_lane n tolPos pf l hroad hnoint hup hcovR hcovG huniq hl

theorem gen_found_section_owned (n : Network) (tolPos : Bool) (pf : PointFacts) (s : Nat) (ds dl : LookupDef)
    (hds : lookups.lookup "laneSectionAt" = some ds) (hdl : lookups.lookup "laneAt" = some dl)
    (hs : lookupWith passes n tolPos pf ds = some s) :
    ∃ l, lookupWith passes n tolPos pf dl = some l ∧ l ∈ n.field .lanes 0 ∧ s ∈ n.field .sections l ∧
      (Reciprocal n → n.kindOf 0 = some .network →
        n.field .lane s = [l] ∧ n.field .group s = n.field .group l ∧ n.field .road s = n.field .road l) := by
  have h1 := gen_lookups.2.2.2.1
  have h2 := gen_lookups.2.2.1
  rw [hds] at h1; rw [hdl] at h2
  cases h1; cases h2
  rw [gen_passes] at hs ⊢
  exact found_section_owned n tolPos pf s hs

theorem gen_found_group_owned (n : Network) (tolPos : Bool) (pf : PointFacts) (g : Nat) (dg dr : LookupDef)
    (hdg : lookups.lookup "laneGroupAt" = some dg) (hdr : lookups.lookup "roadAt" = some dr)
    (hg : lookupWith passes n tolPos pf dg = some g) :
    ∃ r, lookupWith passes n tolPos pf dr = some r ∧ g ∈ n.field .groups r ∧
      (Reciprocal n → n.kindOf 0 = some .network → n.field .road g = [r]) := by
  have h1 := gen_lookups.2.2.2.2.1
  have h2 := gen_lookups.2.1
  rw [hdg] at h1; rw [hdr] at h2
  cases h1; cases h2
  rw [gen_passes] at hg ⊢
  exact found_group_owned n tolPos pf g hg

/-- the adjacency assignments of the current `toScenicRoad` are reciprocal for every set of lane ids -/
theorem gen_adj_reciprocal (dr : Bool) (ids : List Int) (id j : Int) (hid : id ∈ ids) (h0 : id ≠ 0) :
    ((adjOf adjCfg dr ids id).left = some j →
      j ∈ ids ∧ j ≠ 0 ∧ j ≠ id ∧
      (isForward j = isForward id → (adjOf adjCfg dr ids j).right = some id) ∧
      (isForward j ≠ isForward id → (adjOf adjCfg dr ids j).left = some id)) ∧
    ((adjOf adjCfg dr ids id).right = some j →
      j ∈ ids ∧ j ≠ 0 ∧ j ≠ id ∧ isForward j = isForward id ∧ (adjOf adjCfg dr ids j).left = some id) ∧
    ((adjOf adjCfg dr ids id).faster = some j →
      isForward j = isForward id ∧ (adjOf adjCfg dr ids j).slower = some id) ∧
    ((adjOf adjCfg dr ids id).slower = some j →
      isForward j = isForward id ∧ (adjOf adjCfg dr ids j).faster = some id) ∧
    (j ∈ (adjOf adjCfg dr ids id).adjacent → j ≠ id ∧ id ∈ (adjOf adjCfg dr ids j).adjacent) := by
  have w := gen_adj.1
  refine ⟨adj_left_reciprocal w dr ids id j hid h0, adj_right_reciprocal w dr ids id j hid h0, ?_, ?_,
    adj_adjacent_symmetric w dr ids id j hid h0⟩
  · intro h; have := adj_faster_slower w dr ids id j hid h0 h; exact ⟨this.1, this.2.1⟩
  · intro h; have := adj_slower_faster w dr ids id j hid h0 h; exact ⟨this.1, this.2.1⟩

/-- the path handling of the current `fromFile`: no extension → the map if it exists; a `.snet` path is
loaded directly without digest comparison -/
theorem gen_path {α : Type} (unpickle : Bytes → Option α) (parse : α) (useCache : Bool) (digest : Bytes)
    (cacheFile : Option Bytes) (optDigest : Bytes) :
    fromFilePath cacheCfg pathCfg .fileNotFound unpickle parse useCache .none (some digest) cacheFile optDigest =
      fromFile cacheCfg unpickle parse useCache cacheFile digest optDigest ∧
    fromFilePath cacheCfg pathCfg .fileNotFound unpickle parse useCache .map (some digest) cacheFile optDigest =
      fromFile cacheCfg unpickle parse useCache cacheFile digest optDigest := by
  have hp := gen_path_wf.1
  rw [path_noext_prefers_map cacheCfg pathCfg hp, path_map_is_core cacheCfg pathCfg hp]
  exact ⟨rfl, rfl⟩

/-! ### examples: the hypotheses are satisfiable, the statements are not vacuous -/

/-- a one-road network: network, road, forward group, two adjacent lanes, one road section, two lane sections -/
def demoNet : Network := { elems := #[
  { kind := .network, fields := [(.roads, [1]), (.groups, [2]), (.lanes, [3, 4]), (.sections, [5]),
      (.laneSections, [6, 7])] },
  { kind := .road, fields := [(.lanes, [3, 4]), (.forward, [2]), (.groups, [2]), (.sections, [5])] },
  { kind := .laneGroup, fields := [(.road, [1]), (.lanes, [3, 4])] },
  { kind := .lane, fields := [(.group, [2]), (.road, [1]), (.sections, [6]), (.adjacent, [4])] },
  { kind := .lane, fields := [(.group, [2]), (.road, [1]), (.sections, [7]), (.adjacent, [3])] },
  { kind := .roadSection, fields := [(.road, [1]), (.lanes, [6, 7]), (.forward, [6, 7])] },
  { kind := .laneSection, fields := [(.lane, [3]), (.group, [2]), (.road, [1]), (.left, [7]),
      (.adjacent, [7]), (.faster, [7])] },
  { kind := .laneSection, fields := [(.lane, [4]), (.group, [2]), (.road, [1]), (.right, [6]),
      (.adjacent, [6]), (.slower, [6])] }] }

/-- the same network with lane 4 claiming another group: ownership is no longer reciprocal -/
def brokenNet : Network := { elems := #[
  { kind := .network, fields := [(.roads, [1]), (.groups, [2]), (.lanes, [3, 4]), (.sections, [5]),
      (.laneSections, [6, 7])] },
  { kind := .road, fields := [(.lanes, [3, 4]), (.forward, [2]), (.groups, [2]), (.sections, [5])] },
  { kind := .laneGroup, fields := [(.road, [1]), (.lanes, [3, 4])] },
  { kind := .lane, fields := [(.group, [2]), (.road, [1]), (.sections, [6]), (.adjacent, [4])] },
  { kind := .lane, fields := [(.group, [1]), (.road, [1]), (.sections, [7]), (.adjacent, [3])] },
  { kind := .roadSection, fields := [(.road, [1]), (.lanes, [6, 7]), (.forward, [6, 7])] },
  { kind := .laneSection, fields := [(.lane, [3]), (.group, [2]), (.road, [1]), (.left, [7]),
      (.adjacent, [7]), (.faster, [7])] },
  { kind := .laneSection, fields := [(.lane, [4]), (.group, [2]), (.road, [1]), (.right, [6]),
      (.adjacent, [6]), (.slower, [6])] }] }

example : linksReciprocal demoNet = true := by decide +kernel
example : Reciprocal demoNet := (linksReciprocal_spec demoNet).mp (by decide +kernel)
example : linksReciprocal brokenNet = false := by decide +kernel
example : ¬ Reciprocal brokenNet := fun h =>
  absurd ((linksReciprocal_spec brokenNet).mpr h) (by decide +kernel)

-- a road (9) contains the point, an intersection (5) is only within tolerance: the road wins
example : findPointIn true { exact := [9], near := [5, 9] } [5, 9] = some 9 := by decide
-- nothing contains the point: first element of the list within tolerance
example : findPointIn true { exact := [], near := [9, 5] } [5, 9] = some 5 := by decide
-- zero tolerance: no tolerant pass
example : findPointIn false { exact := [], near := [9, 5] } [5, 9] = none := by decide
-- hypotheses of `lane_in_road_found` on two roads with two lanes each; the second road contains the point
example : findPointIn true { exact := [2, 21], near := [2, 21, 1] } ([1, 2].flatMap fun r => [10 * r, 10 * r + 1])
    = some 21 := by decide

-- the header written by `dumpPickle` for 64 + 8 digest bytes is accepted with the same digests only
example : fromPickle cacheCfg (fun _ => some ()) (header cacheCfg (List.replicate 64 7) (List.replicate 8 9))
    (some (List.replicate 64 7)) (some (List.replicate 8 9)) = .ok () := by decide +kernel
example : fromPickle cacheCfg (fun _ => some ()) (header cacheCfg (List.replicate 64 7) (List.replicate 8 9))
    (some (List.replicate 64 7)) (some (List.replicate 8 1)) = .err .digestMismatch := by decide +kernel
example : fromFile cacheCfg (fun _ => some 1) 2 true
    (some (header cacheCfg (List.replicate 64 7) (List.replicate 8 9))) (List.replicate 64 7) (List.replicate 8 1)
    = .parsed 2 := by decide +kernel
-- `{"a": "b"}` and `{"ab": ""}`-style confusions are separated by the NUL-prefixed separators
example : encodeOptions hashCfg [([97], some [98])] ≠ encodeOptions hashCfg [([97, 98], some [])] := by decide
example : Plain [([97], some [98])] := by
  intro kv hkv
  simp at hkv
  subst hkv
  exact ⟨by intro x hx; simp at hx; subst hx; decide, [98], rfl, by intro x hx; simp at hx; subst hx; decide⟩

-- direction: on `demoNet` a point inside lane 3 (and its group 2 and road 1) gets its direction from lane 3,
-- even though lane 4 is within tolerance; the hypotheses of `direction_of_unique_lane` hold there
example : roadDirSource passes demoNet true { exact := [1, 2, 3, 6], near := [1, 2, 3, 4, 6, 7] }
    { first := [[.intersections], [.roads], [.shoulders]] } = some (.elem 3) := by decide +kernel
example : nominalSources passes demoNet true { exact := [], near := [1, 2, 4] }
    { first := [[.intersections], [.roads], [.shoulders]] } = [.elem 4] := by decide +kernel
-- a road found only within tolerance whose groups are out of reach: the road's own centreline
example : roadDirSource passes demoNet true { exact := [], near := [1] }
    { first := [[.intersections], [.roads], [.shoulders]] } = some (.elem 1) := by decide +kernel

/-- an intersection (1) with two maneuvers (4, 5) whose connecting lanes are 2 and 3 -/
def demoJunction : Network := { elems := #[
  { kind := .network, fields := [(.intersections, [1])] },
  { kind := .intersection, fields := [(.maneuvers, [4, 5])] },
  { kind := .lane }, { kind := .lane },
  { kind := .maneuver, fields := [(.conn, [2]), (.inter, [1])] },
  { kind := .maneuver, fields := [(.conn, [3]), (.inter, [1])] }] }

example : nominalSources passes demoJunction true { exact := [1, 3], near := [1, 2, 3] }
    { first := [[.intersections], [.roads], [.shoulders]] } = [.elem 3] := by decide +kernel
example : nominalSources passes demoJunction true { exact := [1], near := [1, 2, 3] }
    { first := [[.intersections], [.roads], [.shoulders]] } = [.elem 2, .elem 3] := by decide +kernel
example : nominalSources passes demoJunction true { exact := [1], near := [1] }
    { first := [[.intersections], [.roads], [.shoulders]] } = [.closestOf 1] := by decide +kernel
example : roadDirSource passes demoJunction true { exact := [1, 3], near := [1, 2, 3] }
    { first := [[.intersections], [.roads], [.shoulders]] } = some (.closestOf 1) := by decide +kernel

-- `laneSectionAt` / `laneGroupAt` on `demoNet`: owned by what `laneAt` / `roadAt` return
example : lookupWith passes demoNet true { exact := [1, 2, 4, 7], near := [] } { first := [[.lanes]], child := some [[.sections]] }
    = some 7 := by decide +kernel
example : demoNet.kindOf 0 = some .network := by decide +kernel

-- path handling: both files present, path without extension, stale cache → parsed; `.snet` path → the stale cache itself
example : fromFilePath cacheCfg pathCfg .fileNotFound (fun _ => some 1) 2 true .none (some (List.replicate 64 7))
    (some (header cacheCfg (List.replicate 64 9) (List.replicate 8 9))) (List.replicate 8 9) = .parsed 2 := by decide +kernel
example : fromFilePath cacheCfg pathCfg .fileNotFound (fun _ => some 1) 2 true .pickled (some (List.replicate 64 7))
    (some (header cacheCfg (List.replicate 64 9) (List.replicate 8 9))) (List.replicate 8 9) = .cached 1 := by decide +kernel
example : fromFilePath cacheCfg pathCfg .fileNotFound (fun _ => some 1) 2 true .none none none [] = .raised .fileNotFound := by
  decide +kernel
example : fromFilePath cacheCfg pathCfg .fileNotFound (fun _ => some 1) 2 true .unknown (some []) none [] = .raised .valueError := by
  decide +kernel

end Scenic.C20
