import ScenicModel.Model.Solid
import ScenicModel.Props.C04Tree
import Mathlib.Analysis.SpecialFunctions.Pow.Real

/-!
# C04 — the planar-box fast paths, the footprint test and the minimum distance

Space is `α × ℝ` (`α` = the horizontal plane, second component = height `z`).
A planar box (pitch = roll = 0) is a *prism* `P × [z - h/2, z + h/2]` over its footprint polygon `P`;
a flat polygonal region at height `z` is the prism of height `0`; the footprint of a polygon `F` is
the cylinder `F × ℝ`.
-/
namespace Scenic.Solid
open Set

/-- `P × [z - h/2, z + h/2]` -/
def prism {α : Type*} (P : Set α) (z h : ℝ) : Set (α × ℝ) := {x | x.1 ∈ P ∧ |x.2 - z| ≤ h / 2}

/-- `F × ℝ` -/
def cylinder {α : Type*} (F : Set α) : Set (α × ℝ) := {x | x.1 ∈ F}

/-- **Planar boxes intersect in 3-D iff their z-intervals overlap and their footprints intersect.** -/
theorem planar_box_iff {α : Type*} (P1 P2 : Set α) (z1 h1 z2 h2 : ℝ) (hh1 : 0 ≤ h1) (hh2 : 0 ≤ h2) :
    (prism P1 z1 h1 ∩ prism P2 z2 h2).Nonempty ↔ (|z1 - z2| ≤ (h1 + h2) / 2 ∧ (P1 ∩ P2).Nonempty) := by
  constructor
  · rintro ⟨x, ⟨hx1, hz1⟩, ⟨hx2, hz2⟩⟩
    refine ⟨?_, ⟨x.1, hx1, hx2⟩⟩
    rw [abs_le] at *
    constructor <;> linarith [hz1.1, hz1.2, hz2.1, hz2.2]
  · rintro ⟨hz, ⟨p, hp1, hp2⟩⟩
    rw [abs_le] at hz
    refine ⟨(p, max (z1 - h1 / 2) (z2 - h2 / 2)), ⟨hp1, ?_⟩, ⟨hp2, ?_⟩⟩
    · show |max (z1 - h1 / 2) (z2 - h2 / 2) - z1| ≤ h1 / 2
      rw [abs_le]
      constructor
      · have := le_max_left (z1 - h1 / 2) (z2 - h2 / 2); linarith
      · have : max (z1 - h1 / 2) (z2 - h2 / 2) ≤ z1 + h1 / 2 := max_le (by linarith) (by linarith [hz.1, hz.2])
        linarith
    · show |max (z1 - h1 / 2) (z2 - h2 / 2) - z2| ≤ h2 / 2
      rw [abs_le]
      constructor
      · have := le_max_right (z1 - h1 / 2) (z2 - h2 / 2); linarith
      · have : max (z1 - h1 / 2) (z2 - h2 / 2) ≤ z2 + h2 / 2 := max_le (by linarith [hz.1, hz.2]) (by linarith)
        linarith

/-! ## `Object._isPlanarBox` -/

structure PlanarCfg.Sound (c : PlanarCfg) : Prop where
  needsBox : c.needsBox = true
  pitch : ∀ x, c.pitchCmp.eval x c.pitchVal = true → x = 0
  roll : ∀ x, c.rollCmp.eval x c.rollVal = true → x = 0

/-- the fast paths are taken only for boxes with pitch = roll = 0 (exactly the objects that are prisms) -/
theorem isPlanarBox_sound (c : PlanarCfg) (hc : c.Sound) (isBox : Bool) (pitch roll : Rat)
    (h : isPlanarBox c isBox pitch roll = true) : isBox = true ∧ pitch = 0 ∧ roll = 0 := by
  unfold isPlanarBox at h
  rw [hc.needsBox] at h
  simp only [if_true, Bool.and_eq_true] at h
  exact ⟨h.1.1, hc.pitch _ h.1.2, hc.roll _ h.2⟩

/-! ## `Object.intersects` -/

structure ObjCfg.Sound (c : ObjCfg) : Prop where
  z : ∀ o, c.zCmp.eval (c.zLhs o) (c.zRhs o) = true ↔ (o.hS + o.hO) / 2 < absQ (o.zS - o.zO)
  zRet : c.zRet = false
  r : ∀ o, c.rCmp.eval (c.rLhs o) (c.rRhs o) = true → absQ (o.zS - o.zO) ≤ o.hS / 2

/-- Contract: `SA`/`SB` are the solids of self/other; planar boxes are prisms over their bounding
polygons `P1`/`P2`, a `PolygonalRegion` is the flat prism over its polygon at height `other.z`;
shapely decides polygon intersection exactly; the volume test answers the ground truth
(`intersects_correct`). -/
structure ObjContract {α : Type*} (SA SB : Set (α × ℝ)) (P1 P2 : Set α) (o : ObjObs) : Prop where
  hS : 0 ≤ o.hS
  hO : 0 ≤ o.hO
  planarS : o.selfPlanar = true → SA = prism P1 o.zS o.hS
  planarO : o.otherIsObject = true → o.otherPlanar = true → SB = prism P2 o.zO o.hO
  polygonal : o.otherIsPolygonal = true → SB = prism P2 o.zO 0
  poly : o.polyIntersects = true ↔ (P1 ∩ P2).Nonempty
  volume : o.volumeAnswer = true ↔ (SA ∩ SB).Nonempty

/-- **`Object.intersects` returns the ground truth through every exit, fast paths included.** -/
theorem objectIntersects_correct {α : Type*} (c : ObjCfg) (hc : c.Sound) {SA SB : Set (α × ℝ)}
    {P1 P2 : Set α} {o : ObjObs} (h : ObjContract SA SB P1 P2 o) :
    (objectIntersects c o).1 = true ↔ (SA ∩ SB).Nonempty := by
  unfold objectIntersects
  have hS : (0 : ℝ) ≤ o.hS := by exact_mod_cast h.hS
  have hO : (0 : ℝ) ≤ o.hO := by exact_mod_cast h.hO
  by_cases h1 : (o.selfPlanar && (o.otherIsObject && o.otherPlanar)) = true
  · rw [if_pos h1]
    simp only [Bool.and_eq_true] at h1
    obtain ⟨hs, hobj, hop⟩ := h1
    rw [h.planarS hs, h.planarO hobj hop, planar_box_iff _ _ _ _ _ _ hS hO]
    by_cases hz : c.zCmp.eval (c.zLhs o) (c.zRhs o) = true
    · rw [if_pos hz]
      have hlt := (hc.z o).1 hz
      have hlt' : ((o.hS : ℝ) + o.hO) / 2 < |(o.zS : ℝ) - o.zO| := by
        have := absQ_cast (o.zS - o.zO)
        rw [Rat.cast_sub] at this
        rw [← this]
        exact_mod_cast hlt
      show c.zRet = true ↔ _
      rw [hc.zRet]
      constructor
      · intro hh; exact absurd hh (by simp)
      · rintro ⟨hle, _⟩; linarith
    · rw [if_neg hz]
      have hnlt : ¬ (o.hS + o.hO) / 2 < absQ (o.zS - o.zO) := fun hh => hz ((hc.z o).2 hh)
      have hle : |(o.zS : ℝ) - o.zO| ≤ ((o.hS : ℝ) + o.hO) / 2 := by
        have := absQ_cast (o.zS - o.zO)
        rw [Rat.cast_sub] at this
        rw [← this]
        exact_mod_cast not_lt.1 hnlt
      show o.polyIntersects = true ↔ _
      rw [h.poly]
      exact ⟨fun hp => ⟨hle, hp⟩, fun hp => hp.2⟩
  rw [if_neg h1]
  by_cases h2 : (o.selfPlanar && (o.otherIsPolygonal && c.rCmp.eval (c.rLhs o) (c.rRhs o))) = true
  · rw [if_pos h2]
    simp only [Bool.and_eq_true] at h2
    obtain ⟨hs, hpoly, hr⟩ := h2
    rw [h.planarS hs, h.polygonal hpoly, planar_box_iff _ _ _ _ _ _ hS le_rfl]
    have hle := hc.r o hr
    have hle' : |(o.zS : ℝ) - o.zO| ≤ ((o.hS : ℝ) + 0) / 2 := by
      have := absQ_cast (o.zS - o.zO)
      rw [Rat.cast_sub] at this
      rw [← this, add_zero]
      exact_mod_cast hle
    show o.polyIntersects = true ↔ _
    rw [h.poly]
    exact ⟨fun hp => ⟨hle', hp⟩, fun hp => hp.2⟩
  · rw [if_neg h2]
    exact h.volume

/-! ## `PolygonalFootprintRegion.containsObject` -/

structure FootCfg.Sound (c : FootCfg) : Prop where
  hullRet : c.hullRet = true

/-- Contract: `Q` is the exact bounding polygon (the projection of the object), `H` the projected convex
hull (an over-approximation of `Q`); shapely decides polygon containment exactly. -/
structure FootContract {α : Type*} (B : Set (α × ℝ)) (F Q H : Set α) (o : FootObs) : Prop where
  proj : Q = Prod.fst '' B
  hull : Q ⊆ H
  bounding : o.hasBounding = true ↔ Q ⊆ F
  hullIn : o.hasHull = true ↔ H ⊆ F

/-- **The footprint containment test returns the ground truth `B ⊆ F × ℝ` through every exit.** -/
theorem footprintContains_correct {α : Type*} (c : FootCfg) (hc : c.Sound) {B : Set (α × ℝ)}
    {F Q H : Set α} {o : FootObs} (h : FootContract B F Q H o) :
    (footprintContains c o).1 = true ↔ B ⊆ cylinder F := by
  have truth : B ⊆ cylinder F ↔ Q ⊆ F := by
    rw [h.proj]
    constructor
    · rintro hb _ ⟨x, hx, rfl⟩; exact hb hx
    · intro hq x hx; exact hq ⟨x, hx, rfl⟩
  unfold footprintContains
  by_cases h1 : (c.convexFast && o.convexObj) = true
  · rw [if_pos h1]
    show o.hasBounding = true ↔ _
    rw [h.bounding, truth]
  rw [if_neg h1]
  by_cases h2 : o.hasHull = true
  · rw [if_pos h2]
    show c.hullRet = true ↔ _
    rw [hc.hullRet, truth]
    simp only [true_iff]
    exact h.hull.trans (h.hullIn.1 h2)
  · rw [if_neg h2]
    show o.hasBounding = true ↔ _
    rw [h.bounding, truth]

/-! ## `Object.minimumDistanceTo` -/

/-- Euclidean distance of `α × ℝ` built from the distance of the plane `α` -/
noncomputable def dist3 {α : Type*} [PseudoMetricSpace α] (x y : α × ℝ) : ℝ :=
  Real.sqrt (dist x.1 y.1 ^ 2 + (x.2 - y.2) ^ 2)

/-- `d` is the gap between `S` and `T` w.r.t. `δ`: a lower bound that is attained -/
def IsGap {β : Type*} (δ : β → β → ℝ) (S T : Set β) (d : ℝ) : Prop :=
  (∀ a ∈ S, ∀ b ∈ T, d ≤ δ a b) ∧ ∃ a ∈ S, ∃ b ∈ T, δ a b = d

/-- two prisms whose z-intervals share the height `z` are exactly as far apart as their footprints -/
theorem planar_gap {α : Type*} [PseudoMetricSpace α] (P1 P2 : Set α) (z h1 h2 d : ℝ)
    (hh1 : 0 ≤ h1) (hh2 : 0 ≤ h2) (hg : IsGap dist P1 P2 d) :
    IsGap dist3 (prism P1 z h1) (prism P2 z h2) d := by
  obtain ⟨hlow, p1, hp1, p2, hp2, hatt⟩ := hg
  constructor
  · rintro a ⟨ha, _⟩ b ⟨hb, _⟩
    have h1 := hlow a.1 ha b.1 hb
    unfold dist3
    apply le_trans h1
    apply Real.le_sqrt_of_sq_le
    nlinarith [sq_nonneg (a.2 - b.2)]
  · refine ⟨(p1, z), ⟨hp1, ?_⟩, (p2, z), ⟨hp2, ?_⟩, ?_⟩
    · show |z - z| ≤ h1 / 2
      rw [sub_self, abs_zero]; linarith
    · show |z - z| ≤ h2 / 2
      rw [sub_self, abs_zero]; linarith
    · unfold dist3
      simp only [sub_self, ne_eq, OfNat.ofNat_ne_zero, not_false_eq_true, zero_pow, add_zero]
      rw [Real.sqrt_sq dist_nonneg, hatt]

/-! ### `MeshVolumeRegion.minimumDistanceTo` -/

/-- what the proof needs from the data of `MeshVolumeRegion.minimumDistanceTo` / `_fclDistanceData` -/
structure VolDistCfg.Sound (c : VolDistCfg) : Prop where
  pos : ∀ x, c.posCmp.eval x c.posThr = true ↔ 0 < x
  conn : ∀ a b, c.conn.eval a b = (a && b)
  nestedRet : c.nestedRet ≤ 0
  bvhOnly : c.bvhOnly = true

/-- Contract (in any space `β` with a distance function `δ`): FCL's triangle-level distance between BVH
models measures the gap between the *surfaces*: for disjoint solids it is positive and is the attained gap
of the solids (nothing is assumed when the solids overlap: crossing surfaces give `≤ 0`, a nested volume a
positive value); this exactness is assumed of BVH models only (`bvhOnly`), not of FCL's GJK distance between
`fcl.Convex` geometries; `intersects` returns the ground truth (`intersects_correct`). -/
structure VolDistContract {β : Type*} (δ : β → β → ℝ) (SA SB : Set β) (c : VolDistCfg) (o : VolDistObs) :
    Prop where
  fclGap : c.bvhOnly = true → ¬ (SA ∩ SB).Nonempty → 0 < (o.fclDist : ℝ) ∧ IsGap δ SA SB (o.fclDist : ℝ)
  intersectsTruth : o.volIntersects = true ↔ (SA ∩ SB).Nonempty

/-- **`MeshVolumeRegion.minimumDistanceTo` is never positive on overlap (nested volumes included) and is the
true gap otherwise.** -/
theorem volumeMinimumDistance_correct {β : Type*} {δ : β → β → ℝ} (c : VolDistCfg) (hc : c.Sound)
    {SA SB : Set β} {o : VolDistObs} (h : VolDistContract δ SA SB c o) :
    (((volumeMinimumDistance c o).1 : ℝ) ≤ 0 ↔ (SA ∩ SB).Nonempty) ∧
    (0 < ((volumeMinimumDistance c o).1 : ℝ) → IsGap δ SA SB ((volumeMinimumDistance c o).1 : ℝ)) := by
  unfold volumeMinimumDistance
  rw [hc.conn]
  by_cases hn : (c.posCmp.eval o.fclDist c.posThr && o.volIntersects) = true
  · rw [if_pos hn]
    simp only [Bool.and_eq_true] at hn
    have hov : (SA ∩ SB).Nonempty := h.intersectsTruth.1 hn.2
    have hle : ((c.nestedRet : Rat) : ℝ) ≤ 0 := by exact_mod_cast hc.nestedRet
    exact ⟨⟨fun _ => hov, fun _ => hle⟩, fun hpos => absurd hpos (not_lt.2 hle)⟩
  · rw [if_neg hn]
    show ((o.fclDist : ℝ) ≤ 0 ↔ _) ∧ (0 < (o.fclDist : ℝ) → _)
    by_cases hov : (SA ∩ SB).Nonempty
    · -- overlapping and the correction not taken: the FCL distance was not positive
      have hi : o.volIntersects = true := h.intersectsTruth.2 hov
      have hnp : ¬ c.posCmp.eval o.fclDist c.posThr = true := fun hp => hn (by simp [hp, hi])
      have hle : o.fclDist ≤ 0 := not_lt.1 (fun hlt => hnp ((hc.pos _).2 hlt))
      have hle' : (o.fclDist : ℝ) ≤ 0 := by exact_mod_cast hle
      exact ⟨⟨fun _ => hov, fun _ => hle'⟩, fun hpos => absurd hpos (not_lt.2 hle')⟩
    · obtain ⟨hpos, hgap⟩ := h.fclGap hc.bvhOnly hov
      exact ⟨⟨fun hle => absurd hpos (not_lt.2 hle), fun hh => absurd hh hov⟩, fun _ => hgap⟩

/-! ### `Object.minimumDistanceTo` -/

structure DistCfg.Sound (c : DistCfg) : Prop where
  z : ∀ a b, c.zCmp.eval a b = true → a = b

/-- Contract: planar boxes are prisms; shapely's polygon distance is the gap of the footprints; the volume
path satisfies `VolDistContract`. -/
structure DistContract {α : Type*} [MetricSpace α] (SA SB : Set (α × ℝ)) (P1 P2 : Set α) (hS hO : ℝ)
    (vc : VolDistCfg) (o : DistObs) : Prop where
  hSnn : 0 ≤ hS
  hOnn : 0 ≤ hO
  planarS : o.selfPlanar = true → SA = prism P1 o.zS hS
  planarO : o.otherPlanar = true → SB = prism P2 o.zO hO
  poly : IsGap dist P1 P2 (o.polyDist : ℝ)
  vol : VolDistContract dist3 SA SB vc { fclDist := o.fclDist, volIntersects := o.volIntersects }

/-- **The reported minimum distance is never positive on overlap and equals the true gap otherwise**,
on the planar fast path as well as on the FCL path (with its nested-volume correction). -/
theorem min_dist_sign {α : Type*} [MetricSpace α] (c : DistCfg) (hc : c.Sound) (vc : VolDistCfg)
    (hvc : vc.Sound) {SA SB : Set (α × ℝ)}
    {P1 P2 : Set α} {hS hO : ℝ} {o : DistObs} (h : DistContract SA SB P1 P2 hS hO vc o) :
    (((minimumDistance c vc o).1 : ℝ) ≤ 0 ↔ (SA ∩ SB).Nonempty) ∧
    (0 < ((minimumDistance c vc o).1 : ℝ) → IsGap dist3 SA SB ((minimumDistance c vc o).1 : ℝ)) := by
  unfold minimumDistance
  by_cases hf : (o.selfPlanar && o.otherPlanar && c.zCmp.eval o.zS o.zO) = true
  · rw [if_pos hf]
    simp only [Bool.and_eq_true] at hf
    obtain ⟨⟨hs, ho⟩, hz⟩ := hf
    have hzz : o.zS = o.zO := hc.z _ _ hz
    have eA := h.planarS hs
    have eB := h.planarO ho
    rw [← hzz] at eB
    have hgap := planar_gap P1 P2 (o.zS : ℝ) hS hO _ h.hSnn h.hOnn h.poly
    rw [← eA, ← eB] at hgap
    refine ⟨?_, fun _ => hgap⟩
    show (o.polyDist : ℝ) ≤ 0 ↔ _
    obtain ⟨hlow, p1, hp1, p2, hp2, hatt⟩ := h.poly
    constructor
    · intro hle
      have h0 : dist p1 p2 = 0 := le_antisymm (hatt ▸ hle) dist_nonneg
      have hpp : p1 = p2 := dist_eq_zero.1 h0
      rw [eA, eB]
      refine ⟨(p1, (o.zS : ℝ)), ⟨hp1, ?_⟩, ⟨hpp ▸ hp2, ?_⟩⟩
      · show |(o.zS : ℝ) - o.zS| ≤ hS / 2
        rw [sub_self, abs_zero]; linarith [h.hSnn]
      · show |(o.zS : ℝ) - o.zS| ≤ hO / 2
        rw [sub_self, abs_zero]; linarith [h.hOnn]
    · rintro ⟨x, hxA, hxB⟩
      rw [eA] at hxA
      rw [eB] at hxB
      have := hlow x.1 hxA.1 x.1 hxB.1
      rw [dist_self] at this
      exact this
  · rw [if_neg hf]
    exact volumeMinimumDistance_correct vc hvc h.vol

/-! ## `MeshVolumeRegion.isConvex` -/

/-- the hull-volume guard: the comparison only succeeds when the mesh fills its hull up to a relative
tolerance of at most `1/1000` -/
structure ConvexCfg.Sound (c : ConvexCfg) : Prop where
  overrideFirst : c.overrideFirst = true
  needsTrimesh : c.needsTrimesh = true
  vol : ∀ o, c.volCmp.eval (c.volLhs o) (c.volRhs o) = true → 0 ≤ o.hullVol →
    o.hullVol - o.vol ≤ o.hullVol / 1000

/-- **`isConvex` without a constructor override answers `true` only for meshes that pass trimesh's edge
test *and* fill their convex hull** (a mesh boolean that leaves a reflex edge between faces that do not
share vertex indices is no longer called convex); with an override the override is returned. -/
theorem isConvexFlag_sound (c : ConvexCfg) (hc : c.Sound) (o : ConvexObs) :
    (∀ b, o.override = some b → isConvexFlag c o = b) ∧
    (o.override = none → isConvexFlag c o = true → 0 ≤ o.hullVol →
      o.trimeshConvex = true ∧ o.hullVol - o.vol ≤ o.hullVol / 1000) := by
  unfold isConvexFlag
  rw [hc.overrideFirst, hc.needsTrimesh]
  constructor
  · intro b hb; simp [hb]
  · intro hn hflag hnn
    simp only [hn, if_true, Bool.and_eq_true] at hflag
    exact ⟨hflag.1, hc.vol o hflag.2 hnn⟩

end Scenic.Solid
