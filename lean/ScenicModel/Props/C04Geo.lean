import ScenicModel.Model.SolidGeo
import Mathlib.Tactic.Linarith
import Mathlib.Tactic.Ring
import Mathlib.Tactic.NormNum
import Mathlib.Tactic.LinearCombination
import Mathlib.Algebra.Order.Field.Rat

/-!
# C04 — soundness of the exact-rational geometry oracle's certificate checkers

For **all** points (no sampling): if a checker of `Model/SolidGeo.lean` accepts a certificate, the
geometric fact holds.  Both verdicts are certified (a separating axis for DISJOINT, a common point for
OVERLAP, coefficient matrices for CONTAINED, an escaping point for NOT-CONTAINED), so completeness of
the separating-axis test is never assumed.
-/
namespace Scenic.Solid

/-! ### vector algebra over `Rat` -/

theorem V3.dot_comm (a b : V3) : V3.dot a b = V3.dot b a := by unfold V3.dot; ring
theorem V3.dot_add_left (a b c : V3) : V3.dot (V3.add a b) c = V3.dot a c + V3.dot b c := by
  unfold V3.dot V3.add; ring
theorem V3.dot_smul_left (t : Rat) (a c : V3) : V3.dot (V3.smul t a) c = t * V3.dot a c := by
  unfold V3.dot V3.smul; ring
theorem V3.dot_sub_left (a b c : V3) : V3.dot (V3.sub a b) c = V3.dot a c - V3.dot b c := by
  unfold V3.dot V3.sub; ring
theorem V3.dot_sub_right (a b c : V3) : V3.dot a (V3.sub b c) = V3.dot a b - V3.dot a c := by
  unfold V3.dot V3.sub; ring
theorem V3.dot_zero_right (a : V3) : V3.dot a V3.zero = 0 := by unfold V3.dot V3.zero; ring

theorem Box.lin_dot (A : Box) (t d : V3) :
    V3.dot (A.lin t) d = t.1 * V3.dot A.a1 d + t.2.1 * V3.dot A.a2 d + t.2.2 * V3.dot A.a3 d := by
  unfold Box.lin
  rw [V3.dot_add_left, V3.dot_add_left, V3.dot_smul_left, V3.dot_smul_left, V3.dot_smul_left]

/-- Cauchy–Schwarz in `Rat³` (Lagrange identity) -/
theorem V3.cauchy_schwarz (n d : V3) : V3.dot n d * V3.dot n d ≤ V3.dot n n * V3.dot d d := by
  unfold V3.dot
  nlinarith [sq_nonneg (n.1 * d.2.1 - n.2.1 * d.1), sq_nonneg (n.1 * d.2.2 - n.2.2 * d.1),
    sq_nonneg (n.2.1 * d.2.2 - n.2.2 * d.2.1)]

theorem mul_le_absQ_mul {t y M : Rat} (h1 : y ≤ M) (h2 : -M ≤ y) :
    t * y ≤ absQ t * M ∧ -(absQ t * M) ≤ t * y := by
  unfold absQ
  split
  · constructor <;> nlinarith
  · constructor <;> nlinarith

theorem absQ_nonneg (t : Rat) : 0 ≤ absQ t := by
  unfold absQ; split <;> linarith

/-! ### boxes -/

theorem slabHas_iff (c a x : V3) :
    slabHas c a x = true ↔ V3.dot (V3.sub x c) a ≤ V3.dot a a ∧ -(V3.dot a a) ≤ V3.dot (V3.sub x c) a := by
  unfold slabHas; simp

theorem Box.has_iff (b : Box) (x : V3) :
    b.has x = true ↔ slabHas b.c b.a1 x = true ∧ slabHas b.c b.a2 x = true ∧ slabHas b.c b.a3 x = true := by
  unfold Box.has; simp [and_assoc]

/-- the support bound: inside a box, `lin t · (x - c)` is within `± support t` -/
theorem Box.support_bound (A : Box) (t x : V3) (hx : A.has x = true) :
    V3.dot (A.lin t) (V3.sub x A.c) ≤ A.support t ∧ -(A.support t) ≤ V3.dot (A.lin t) (V3.sub x A.c) := by
  rw [Box.has_iff, slabHas_iff, slabHas_iff, slabHas_iff] at hx
  obtain ⟨⟨h1, h1'⟩, ⟨h2, h2'⟩, ⟨h3, h3'⟩⟩ := hx
  rw [V3.dot_comm (V3.sub x A.c) A.a1] at h1 h1'
  rw [V3.dot_comm (V3.sub x A.c) A.a2] at h2 h2'
  rw [V3.dot_comm (V3.sub x A.c) A.a3] at h3 h3'
  have b1 := mul_le_absQ_mul (t := t.1) h1 h1'
  have b2 := mul_le_absQ_mul (t := t.2.1) h2 h2'
  have b3 := mul_le_absQ_mul (t := t.2.2) h3 h3'
  rw [Box.lin_dot]
  unfold Box.support
  constructor <;> linarith [b1.1, b1.2, b2.1, b2.2, b3.1, b3.2]

/-- every pair of points of the two boxes is at least `sepGap` apart along `n` -/
theorem sepGap_le (A B : Box) (n α β x y : V3) (hα : A.lin α = n) (hβ : B.lin β = n)
    (hx : A.has x = true) (hy : B.has y = true) :
    sepGap A B n α β ≤ V3.dot n (V3.sub y x) := by
  have ha := A.support_bound α x hx
  have hb := B.support_bound β y hy
  rw [hα] at ha
  rw [hβ] at hb
  unfold sepGap
  have e : V3.dot n (V3.sub y x) =
      V3.dot n (V3.sub y B.c) + V3.dot n (V3.sub B.c A.c) - V3.dot n (V3.sub x A.c) := by
    simp only [V3.dot_sub_right]; ring
  rw [e]
  linarith [ha.1, hb.2]

/-- **`sat_certificate_sound`: an accepted separating-axis certificate proves the boxes disjoint.** -/
theorem sat_certificate_sound (A B : Box) (n α β : V3) (h : sepCheck A B n α β = true) (x : V3) :
    ¬ (A.has x = true ∧ B.has x = true) := by
  unfold sepCheck at h
  simp only [Bool.and_eq_true, decide_eq_true_eq] at h
  obtain ⟨⟨hα, hβ⟩, hg⟩ := h
  rintro ⟨hx, hy⟩
  have := sepGap_le A B n α β x x hα hβ hx hy
  have z : V3.dot n (V3.sub x x) = 0 := by rw [V3.dot_sub_right]; ring
  rw [z] at this
  linarith

/-- **`witness_sound`: an accepted witness is a common point** (immediate: the checker *is* membership) -/
theorem witness_sound (A B : Box) (x : V3) (h : witnessCheck A B x = true) :
    A.has x = true ∧ B.has x = true := by
  unfold witnessCheck at h
  simpa using h

/-- an accepted lower-bound certificate bounds the squared distance of **every** pair of points -/
theorem distLower_sound (A B : Box) (n α β : V3) (g2 : Rat) (h : distLowerCheck A B n α β g2 = true)
    (x y : V3) (hx : A.has x = true) (hy : B.has y = true) : g2 ≤ V3.distSq x y := by
  unfold distLowerCheck at h
  simp only [Bool.and_eq_true, decide_eq_true_eq] at h
  obtain ⟨⟨⟨⟨hα, hβ⟩, hnn⟩, hg0⟩, hg2⟩ := h
  have hle := sepGap_le A B n α β x y hα hβ hx hy
  have cs := V3.cauchy_schwarz n (V3.sub y x)
  have hsq : sepGap A B n α β * sepGap A B n α β ≤ V3.dot n (V3.sub y x) * V3.dot n (V3.sub y x) := by
    nlinarith
  have e : V3.distSq x y = V3.dot (V3.sub y x) (V3.sub y x) := by
    unfold V3.distSq V3.normSq V3.dot V3.sub; ring
  rw [e]
  have : g2 * V3.dot n n ≤ V3.dot (V3.sub y x) (V3.sub y x) * V3.dot n n := by nlinarith
  exact le_of_mul_le_mul_right this hnn

/-- an accepted upper-bound certificate exhibits a pair of points at squared distance at most `G2` -/
theorem distUpper_sound (A B : Box) (x y : V3) (G2 : Rat) (h : distUpperCheck A B x y G2 = true) :
    A.has x = true ∧ B.has y = true ∧ V3.distSq x y ≤ G2 := by
  unfold distUpperCheck at h
  simpa [and_assoc] using h

theorem faceContains_sound (cA a : V3) (B : Box) (β : V3) (h : faceContains cA a B β = true)
    (y : V3) (hy : B.has y = true) : slabHas cA a y = true := by
  unfold faceContains at h
  simp only [Bool.and_eq_true, decide_eq_true_eq] at h
  obtain ⟨⟨hβ, h1⟩, h2⟩ := h
  have hb := B.support_bound β y hy
  rw [hβ] at hb
  rw [slabHas_iff]
  have e : V3.dot (V3.sub y cA) a = V3.dot a (V3.sub y B.c) + V3.dot (V3.sub B.c cA) a := by
    simp only [V3.dot_sub_left, V3.dot_comm a]; ring
  rw [e]
  constructor <;> linarith [hb.1, hb.2]

/-- **an accepted containment certificate proves `B ⊆ A`** -/
theorem contain_sound (A B : Box) (β1 β2 β3 : V3) (h : containCheck A B β1 β2 β3 = true)
    (y : V3) (hy : B.has y = true) : A.has y = true := by
  unfold containCheck at h
  simp only [Bool.and_eq_true] at h
  obtain ⟨⟨h1, h2⟩, h3⟩ := h
  rw [Box.has_iff]
  exact ⟨faceContains_sound _ _ B β1 h1 y hy, faceContains_sound _ _ B β2 h2 y hy,
    faceContains_sound _ _ B β3 h3 y hy⟩

/-- an accepted escaping point refutes `B ⊆ A` -/
theorem notContain_sound (A B : Box) (x : V3) (h : notContainCheck A B x = true) :
    ¬ (∀ y, B.has y = true → A.has y = true) := by
  unfold notContainCheck at h
  simp only [Bool.and_eq_true, Bool.not_eq_true'] at h
  intro hall
  have := hall x h.1
  rw [h.2] at this
  exact absurd this (by simp)

/-! ### unions of boxes (compound, non-convex, multi-body shapes) -/

theorem unionHas_iff (bs : List Box) (x : V3) : unionHas bs x = true ↔ ∃ b ∈ bs, b.has x = true := by
  unfold unionHas; simp

/-- all pairs separated ⇒ the unions are disjoint -/
theorem union_disjoint_sound (As Bs : List Box)
    (h : ∀ a ∈ As, ∀ b ∈ Bs, ∃ n α β, sepCheck a b n α β = true) (x : V3) :
    ¬ (unionHas As x = true ∧ unionHas Bs x = true) := by
  rw [unionHas_iff, unionHas_iff]
  rintro ⟨⟨a, ha, hxa⟩, ⟨b, hb, hxb⟩⟩
  obtain ⟨n, α, β, hs⟩ := h a ha b hb
  exact sat_certificate_sound a b n α β hs x ⟨hxa, hxb⟩

/-- one witnessed pair ⇒ the unions share a point -/
theorem union_witness_sound (As Bs : List Box) (a b : Box) (ha : a ∈ As) (hb : b ∈ Bs) (x : V3)
    (h : witnessCheck a b x = true) : unionHas As x = true ∧ unionHas Bs x = true := by
  obtain ⟨h1, h2⟩ := witness_sound a b x h
  exact ⟨(unionHas_iff _ _).2 ⟨a, ha, h1⟩, (unionHas_iff _ _).2 ⟨b, hb, h2⟩⟩

/-- every piece of `Bs` certified inside some piece of `As` ⇒ `⋃Bs ⊆ ⋃As` -/
theorem union_contain_sound (As Bs : List Box)
    (h : ∀ b ∈ Bs, ∃ a ∈ As, ∃ β1 β2 β3, containCheck a b β1 β2 β3 = true) (y : V3)
    (hy : unionHas Bs y = true) : unionHas As y = true := by
  rw [unionHas_iff] at hy ⊢
  obtain ⟨b, hb, hyb⟩ := hy
  obtain ⟨a, ha, β1, β2, β3, hc⟩ := h b hb
  exact ⟨a, ha, contain_sound a b β1 β2 β3 hc y hyb⟩

theorem union_notContain_sound (As Bs : List Box) (x : V3) (h : unionNotContainCheck As Bs x = true) :
    ¬ (∀ y, unionHas Bs y = true → unionHas As y = true) := by
  unfold unionNotContainCheck at h
  simp only [Bool.and_eq_true, Bool.not_eq_true'] at h
  intro hall
  have := hall x h.1
  rw [h.2] at this
  exact absurd this (by simp)

/-- all pairs bounded below ⇒ the unions are at least that far apart -/
theorem union_distLower_sound (As Bs : List Box) (g2 : Rat)
    (h : ∀ a ∈ As, ∀ b ∈ Bs, ∃ n α β, distLowerCheck a b n α β g2 = true) (x y : V3)
    (hx : unionHas As x = true) (hy : unionHas Bs y = true) : g2 ≤ V3.distSq x y := by
  rw [unionHas_iff] at hx hy
  obtain ⟨a, ha, hxa⟩ := hx
  obtain ⟨b, hb, hyb⟩ := hy
  obtain ⟨n, α, β, hs⟩ := h a ha b hb
  exact distLower_sound a b n α β g2 hs x y hxa hyb

/-! ### convex hulls of vertex lists (cylinders, cones, spheroids enter through their vertices) -/

/-- `x` is a convex combination of `V` -/
def InHull (V : List V3) (x : V3) : Prop := ∃ w, hullWeights V w x = true

theorem dot_comb_le (n : V3) (m : Rat) : ∀ (w : List Rat) (V : List V3), w.length = V.length →
    (∀ t ∈ w, 0 ≤ t) → (∀ v ∈ V, V3.dot n v ≤ m) → V3.dot n (comb w V) ≤ sumQ w * m
  | [], [], _, _, _ => by simp [comb, sumQ, V3.dot_zero_right]
  | [], _ :: _, hl, _, _ => by simp at hl
  | _ :: _, [], hl, _, _ => by simp at hl
  | t :: ws, v :: vs, hl, hw, hv => by
    have ih := dot_comb_le n m ws vs (by simpa using hl) (fun t ht => hw t (List.mem_cons_of_mem _ ht))
      (fun v hv' => hv v (List.mem_cons_of_mem _ hv'))
    have ht : 0 ≤ t := hw t (List.mem_cons_self)
    have hvm : V3.dot n v ≤ m := hv v (List.mem_cons_self)
    have e : V3.dot n (comb (t :: ws) (v :: vs)) = t * V3.dot n v + V3.dot n (comb ws vs) := by
      simp only [comb]
      rw [V3.dot_comm, V3.dot_add_left, V3.dot_smul_left, V3.dot_comm v n, V3.dot_comm (comb ws vs) n]
    rw [e]
    simp only [sumQ]
    nlinarith

theorem le_dot_comb (n : V3) (m : Rat) : ∀ (w : List Rat) (V : List V3), w.length = V.length →
    (∀ t ∈ w, 0 ≤ t) → (∀ v ∈ V, m ≤ V3.dot n v) → sumQ w * m ≤ V3.dot n (comb w V)
  | [], [], _, _, _ => by simp [comb, sumQ, V3.dot_zero_right]
  | [], _ :: _, hl, _, _ => by simp at hl
  | _ :: _, [], hl, _, _ => by simp at hl
  | t :: ws, v :: vs, hl, hw, hv => by
    have ih := le_dot_comb n m ws vs (by simpa using hl) (fun t ht => hw t (List.mem_cons_of_mem _ ht))
      (fun v hv' => hv v (List.mem_cons_of_mem _ hv'))
    have ht : 0 ≤ t := hw t (List.mem_cons_self)
    have hvm : m ≤ V3.dot n v := hv v (List.mem_cons_self)
    have e : V3.dot n (comb (t :: ws) (v :: vs)) = t * V3.dot n v + V3.dot n (comb ws vs) := by
      simp only [comb]
      rw [V3.dot_comm, V3.dot_add_left, V3.dot_smul_left, V3.dot_comm v n, V3.dot_comm (comb ws vs) n]
    rw [e]
    simp only [sumQ]
    nlinarith

theorem hullWeights_iff (V : List V3) (w : List Rat) (x : V3) :
    hullWeights V w x = true ↔ w.length = V.length ∧ (∀ t ∈ w, 0 ≤ t) ∧ sumQ w = 1 ∧ comb w V = x := by
  unfold hullWeights; simp [and_assoc]

theorem InHull.dot_le {V : List V3} {x : V3} (hx : InHull V x) (n : V3) (m : Rat)
    (h : allBelow n m V = true) : V3.dot n x ≤ m := by
  obtain ⟨w, hw⟩ := hx
  rw [hullWeights_iff] at hw
  obtain ⟨hl, hnn, hs, hc⟩ := hw
  have := dot_comb_le n m w V hl hnn (by unfold allBelow at h; simpa using h)
  rw [hc, hs, one_mul] at this
  exact this

theorem InHull.le_dot {V : List V3} {x : V3} (hx : InHull V x) (n : V3) (m : Rat)
    (h : allAbove n m V = true) : m ≤ V3.dot n x := by
  obtain ⟨w, hw⟩ := hx
  rw [hullWeights_iff] at hw
  obtain ⟨hl, hnn, hs, hc⟩ := hw
  have := le_dot_comb n m w V hl hnn (by unfold allAbove at h; simpa using h)
  rw [hc, hs, one_mul] at this
  exact this

/-- an accepted separating plane proves two hulls disjoint -/
theorem hullSep_sound (VA VB : List V3) (n : V3) (lo hi : Rat) (h : hullSepCheck VA VB n lo hi = true)
    (x : V3) : ¬ (InHull VA x ∧ InHull VB x) := by
  unfold hullSepCheck at h
  simp only [Bool.and_eq_true, decide_eq_true_eq] at h
  obtain ⟨⟨ha, hb⟩, hlt⟩ := h
  rintro ⟨hxa, hxb⟩
  have h1 := hxa.dot_le n lo ha
  have h2 := hxb.le_dot n hi hb
  linarith

/-- an accepted pair of weight vectors exhibits a common point of two hulls -/
theorem hullWitness_sound (VA VB : List V3) (wa wb : List Rat) (x : V3)
    (h : hullWitnessCheck VA VB wa wb x = true) : InHull VA x ∧ InHull VB x := by
  unfold hullWitnessCheck at h
  simp only [Bool.and_eq_true] at h
  exact ⟨⟨wa, h.1⟩, ⟨wb, h.2⟩⟩

/-- lower bound on the squared distance of **every** pair of points of two hulls -/
theorem hullDistLower_sound (VA VB : List V3) (n : V3) (lo hi g2 : Rat)
    (h : hullDistLowerCheck VA VB n lo hi g2 = true) (x y : V3) (hx : InHull VA x) (hy : InHull VB y) :
    g2 ≤ V3.distSq x y := by
  unfold hullDistLowerCheck at h
  simp only [Bool.and_eq_true, decide_eq_true_eq] at h
  obtain ⟨⟨⟨⟨ha, hb⟩, hle⟩, hnn⟩, hg2⟩ := h
  have h1 := hx.dot_le n lo ha
  have h2 := hy.le_dot n hi hb
  have hge : hi - lo ≤ V3.dot n (V3.sub y x) := by rw [V3.dot_sub_right]; linarith
  have cs := V3.cauchy_schwarz n (V3.sub y x)
  have hsq : (hi - lo) * (hi - lo) ≤ V3.dot n (V3.sub y x) * V3.dot n (V3.sub y x) := by nlinarith
  have e : V3.distSq x y = V3.dot (V3.sub y x) (V3.sub y x) := by
    unfold V3.distSq V3.normSq V3.dot V3.sub; ring
  rw [e]
  have : g2 * V3.dot n n ≤ V3.dot (V3.sub y x) (V3.sub y x) * V3.dot n n := by nlinarith
  exact le_of_mul_le_mul_right this hnn

theorem hullDistUpper_sound (VA VB : List V3) (wa wb : List Rat) (x y : V3) (G2 : Rat)
    (h : hullDistUpperCheck VA VB wa wb x y G2 = true) : InHull VA x ∧ InHull VB y ∧ V3.distSq x y ≤ G2 := by
  unfold hullDistUpperCheck at h
  simp only [Bool.and_eq_true, decide_eq_true_eq] at h
  exact ⟨⟨wa, h.1.1⟩, ⟨wb, h.1.2⟩, h.2⟩

/-- all vertices inside a box ⇒ the whole hull is inside (a box is convex) -/
theorem hullInBox_sound (A : Box) (V : List V3) (h : hullInBoxCheck A V = true) (x : V3)
    (hx : InHull V x) : A.has x = true := by
  unfold hullInBoxCheck at h
  have hall : ∀ v ∈ V, A.has v = true := by simpa using h
  rw [Box.has_iff, slabHas_iff, slabHas_iff, slabHas_iff]
  have key : ∀ a : V3, (∀ v ∈ V, slabHas A.c a v = true) →
      V3.dot (V3.sub x A.c) a ≤ V3.dot a a ∧ -(V3.dot a a) ≤ V3.dot (V3.sub x A.c) a := by
    intro a ha
    have hb : allBelow a (V3.dot a a + V3.dot a A.c) V = true := by
      unfold allBelow
      simp only [List.all_eq_true, decide_eq_true_eq]
      intro v hv
      have := (slabHas_iff _ _ _).1 (ha v hv)
      rw [V3.dot_sub_left, V3.dot_comm v a, V3.dot_comm A.c a] at this
      linarith [this.1]
    have hab : allAbove a (-(V3.dot a a) + V3.dot a A.c) V = true := by
      unfold allAbove
      simp only [List.all_eq_true, decide_eq_true_eq]
      intro v hv
      have := (slabHas_iff _ _ _).1 (ha v hv)
      rw [V3.dot_sub_left, V3.dot_comm v a, V3.dot_comm A.c a] at this
      linarith [this.2]
    have h1 := hx.dot_le a _ hb
    have h2 := hx.le_dot a _ hab
    rw [V3.dot_sub_left, V3.dot_comm x a, V3.dot_comm A.c a]
    constructor <;> linarith
  refine ⟨key A.a1 ?_, key A.a2 ?_, key A.a3 ?_⟩
  · intro v hv; exact ((Box.has_iff A v).1 (hall v hv)).1
  · intro v hv; exact ((Box.has_iff A v).1 (hall v hv)).2.1
  · intro v hv; exact ((Box.has_iff A v).1 (hall v hv)).2.2

/-- a hull point outside every box of a union refutes containment in the union -/
theorem hullNotInUnion_sound (As : List Box) (V : List V3) (w : List Rat) (x : V3)
    (h : hullNotInUnionCheck As V w x = true) : ¬ (∀ y, InHull V y → unionHas As y = true) := by
  unfold hullNotInUnionCheck at h
  simp only [Bool.and_eq_true, Bool.not_eq_true'] at h
  intro hall
  have := hall x ⟨w, h.1⟩
  rw [h.2] at this
  exact absurd this (by simp)

/-- for an orthogonal box the eight corners lie in the box (so, by `hullInBox_sound`, does their hull) -/
theorem corners_in_box (A : Box) (ho : A.orthogonal = true) : hullInBoxCheck A A.corners = true := by
  unfold Box.orthogonal at ho
  simp only [Bool.and_eq_true, decide_eq_true_eq] at ho
  obtain ⟨⟨⟨⟨⟨h12, h13⟩, h23⟩, p1⟩, p2⟩, p3⟩ := ho
  unfold hullInBoxCheck Box.corners
  simp only [List.map_cons, List.map_nil, List.all_cons, List.all_nil, Bool.and_true, Bool.and_eq_true]
  have key : ∀ s : V3, (s.1 = 1 ∨ s.1 = -1) → (s.2.1 = 1 ∨ s.2.1 = -1) → (s.2.2 = 1 ∨ s.2.2 = -1) →
      A.has (V3.add A.c (A.lin s)) = true := by
    intro s s1 s2 s3
    rw [Box.has_iff, slabHas_iff, slabHas_iff, slabHas_iff]
    have e : ∀ a : V3, V3.dot (V3.sub (V3.add A.c (A.lin s)) A.c) a = V3.dot (A.lin s) a := by
      intro a; unfold V3.dot V3.sub V3.add; ring
    rw [e, e, e, Box.lin_dot, Box.lin_dot, Box.lin_dot]
    have h21 : V3.dot A.a2 A.a1 = 0 := by rw [V3.dot_comm]; exact h12
    have h31 : V3.dot A.a3 A.a1 = 0 := by rw [V3.dot_comm]; exact h13
    have h32 : V3.dot A.a3 A.a2 = 0 := by rw [V3.dot_comm]; exact h23
    rw [h12, h13, h23, h21, h31, h32]
    rcases s1 with s1 | s1 <;> rcases s2 with s2 | s2 <;> rcases s3 with s3 | s3 <;>
      rw [s1, s2, s3] <;> refine ⟨⟨?_, ?_⟩, ⟨?_, ?_⟩, ⟨?_, ?_⟩⟩ <;> linarith
  refine ⟨key _ ?_ ?_ ?_, key _ ?_ ?_ ?_, key _ ?_ ?_ ?_, key _ ?_ ?_ ?_, key _ ?_ ?_ ?_, key _ ?_ ?_ ?_,
    key _ ?_ ?_ ?_, key _ ?_ ?_ ?_⟩ <;> simp

/-! ### `_circumradius`: the `_shape` branch and the fall-back branch -/

/-- the `_shape` branch `max(dims) * shape._circumradius`: scaling a vertex component-wise by dimensions in `[0, m]`
    multiplies its norm by at most `m` -/
theorem scaled_normSq_le (d v : V3) (m : Rat) (h1 : 0 ≤ d.1 ∧ d.1 ≤ m) (h2 : 0 ≤ d.2.1 ∧ d.2.1 ≤ m)
    (h3 : 0 ≤ d.2.2 ∧ d.2.2 ≤ m) :
    V3.normSq (d.1 * v.1, d.2.1 * v.2.1, d.2.2 * v.2.2) ≤ m * m * V3.normSq v := by
  unfold V3.normSq V3.dot
  have e1 : d.1 * d.1 ≤ m * m := mul_le_mul h1.2 h1.2 h1.1 (le_trans h1.1 h1.2)
  have e2 : d.2.1 * d.2.1 ≤ m * m := mul_le_mul h2.2 h2.2 h2.1 (le_trans h2.1 h2.2)
  have e3 : d.2.2 * d.2.2 ≤ m * m := mul_le_mul h3.2 h3.2 h3.1 (le_trans h3.1 h3.2)
  nlinarith [mul_le_mul_of_nonneg_right e1 (mul_self_nonneg v.1), mul_le_mul_of_nonneg_right e2 (mul_self_nonneg v.2.1),
    mul_le_mul_of_nonneg_right e3 (mul_self_nonneg v.2.2)]


theorem le_maxQ_of_mem : ∀ (l : List Rat) (init : Rat) (x : Rat),
    (x ∈ l ∨ x ≤ init) → x ≤ l.foldl (fun m y => if m < y then y else m) init
  | [], init, x, h => by
    rcases h with h | h
    · simp at h
    · simpa using h
  | y :: ys, init, x, h => by
    simp only [List.foldl_cons]
    apply le_maxQ_of_mem ys
    rcases h with h | h
    · rcases List.mem_cons.1 h with rfl | h'
      · right; split <;> linarith
      · left; exact h'
    · right; split <;> linarith

/-- measured about the region's `position`, the fall-back circumradius bounds every vertex … -/
theorem fallback_position_bound (pos : V3) (verts : List V3) (v : V3) (hv : v ∈ verts) :
    V3.distSq v pos ≤ fallbackCircSq .position pos verts := by
  unfold fallbackCircSq maxQ
  apply le_maxQ_of_mem
  left
  exact List.mem_map.2 ⟨v, hv, rfl⟩

/-- … measured about the origin (what `/repo` did before `fix: measure the fallback circumradius … about its
    position`) it does not: a unit cube around the origin whose `position` is `(5,0,0)` gets radius² 3, while
    its far vertices are at distance² 38 from the position.  Kept as the reason why the side condition
    `gen_fallback_center` pins the centre to `.position`. -/
theorem fallback_origin_not_bound :
    ¬ ∀ (pos : V3) (verts : List V3) (v : V3), v ∈ verts →
      V3.distSq v pos ≤ fallbackCircSq .origin pos verts := by
  intro h
  have := h (5, 0, 0) [(1, 1, 1), (-1, -1, -1)] (-1, -1, -1) (by simp)
  revert this
  unfold fallbackCircSq maxQ V3.distSq V3.normSq V3.dot V3.sub
  norm_num

/-! ### rigid placements preserve the precomputed per-shape geometry -/

theorem Mat3.isOrtho_iff (m : Mat3) : m.isOrtho = true ↔
    (m.1.1 * m.1.1 + m.2.1.1 * m.2.1.1 + m.2.2.1 * m.2.2.1 = 1 ∧
     m.1.2.1 * m.1.2.1 + m.2.1.2.1 * m.2.1.2.1 + m.2.2.2.1 * m.2.2.2.1 = 1 ∧
     m.1.2.2 * m.1.2.2 + m.2.1.2.2 * m.2.1.2.2 + m.2.2.2.2 * m.2.2.2.2 = 1 ∧
     m.1.1 * m.1.2.1 + m.2.1.1 * m.2.1.2.1 + m.2.2.1 * m.2.2.2.1 = 0 ∧
     m.1.1 * m.1.2.2 + m.2.1.1 * m.2.1.2.2 + m.2.2.1 * m.2.2.2.2 = 0 ∧
     m.1.2.1 * m.1.2.2 + m.2.1.2.1 * m.2.1.2.2 + m.2.2.2.1 * m.2.2.2.2 = 0) := by
  unfold Mat3.isOrtho; simp [and_assoc]

/-- a matrix with orthonormal columns preserves the norm -/
theorem Mat3.normSq_mulVec (m : Mat3) (h : m.isOrtho = true) (v : V3) :
    V3.normSq (m.mulVec v) = V3.normSq v := by
  obtain ⟨h11, h22, h33, h12, h13, h23⟩ := (Mat3.isOrtho_iff m).1 h
  unfold V3.normSq Mat3.mulVec V3.dot
  linear_combination (v.1 * v.1) * h11 + (v.2.1 * v.2.1) * h22 + (v.2.2 * v.2.2) * h33 +
    (2 * v.1 * v.2.1) * h12 + (2 * v.1 * v.2.2) * h13 + (2 * v.2.1 * v.2.2) * h23

theorem Mat3.mulVec_sub (m : Mat3) (a b : V3) : m.mulVec (V3.sub a b) = V3.sub (m.mulVec a) (m.mulVec b) := by
  unfold Mat3.mulVec V3.sub V3.dot
  ext <;> simp only <;> ring

/-- **rigid placements are isometries**: `|(R a + p) - (R b + p)|² = |a - b|²`.  This is why the in- and
    circum-radii precomputed on the unplaced scaled shape (`_scaledShape._circumradius`,
    `_scaledShape._interiorPointRadii`) remain valid about the *transformed* centre / interior point
    (`_interiorPoint = _rigidTransform · raw`). -/
theorem rigid_preserves_distSq (m : Mat3) (h : m.isOrtho = true) (p a b : V3) :
    V3.distSq (rigid m p a) (rigid m p b) = V3.distSq a b := by
  have e : V3.sub (rigid m p a) (rigid m p b) = m.mulVec (V3.sub a b) := by
    rw [Mat3.mulVec_sub]
    unfold rigid V3.sub V3.add
    ext <;> simp
  unfold V3.distSq
  rw [e, Mat3.normSq_mulVec m h]

/-- radii about a point transfer to the placed shape about the placed point -/
theorem rigid_radius_transfers (m : Mat3) (h : m.isOrtho = true) (p ip : V3) (sv : List V3) (R2 : Rat)
    (hb : ∀ v ∈ sv, V3.distSq v ip ≤ R2) : ∀ w ∈ sv.map (rigid m p), V3.distSq w (rigid m p ip) ≤ R2 := by
  intro w hw
  obtain ⟨v, hv, rfl⟩ := List.mem_map.1 hw
  rw [rigid_preserves_distSq m h]
  exact hb v hv

theorem le_maxQ (l : List Rat) (x : Rat) (hx : x ∈ l) : x ≤ maxQ l := by
  unfold maxQ; exact le_maxQ_of_mem l 0 x (Or.inl hx)

theorem maxQ_nonneg (l : List Rat) : 0 ≤ maxQ l := by
  unfold maxQ; exact le_maxQ_of_mem l 0 0 (Or.inr le_rfl)

theorem max3_bounds (d : V3) : d.1 ≤ max3 d ∧ d.2.1 ≤ max3 d ∧ d.2.2 ≤ max3 d := by
  unfold max3
  simp only
  split <;> split <;> refine ⟨?_, ?_, ?_⟩ <;> linarith

/-- how the world-space vertices of a region arise from what the taken branch of `_circumradius` reads -/
inductive CircGeom (R : Mat3) (pos : V3) (verts : List V3) : CircSource → Prop
  /-- precomputed scaled shape, placed rigidly -/
  | scaled (sv : List V3) (hv : verts = sv.map (rigid R pos)) : CircGeom R pos verts (.scaled sv)
  /-- unit-extent shape mesh scaled component-wise by non-negative dimensions, then placed rigidly -/
  | shape (dims : V3) (uv : List V3) (hd : 0 ≤ dims.1 ∧ 0 ≤ dims.2.1 ∧ 0 ≤ dims.2.2)
      (hv : verts = uv.map (fun u => rigid R pos (V3.scale dims u))) : CircGeom R pos verts (.shape dims uv)
  | fallback : CircGeom R pos verts .fallback

/-- **Whichever branch `_circumradius` takes, its value bounds every vertex of the region about the
    region's `position`** (the contract `IntersectContract.circA` needs exactly this, via
    `SolidLemmas.hull_subset_closedBall`), for every rotation, position, dimensions and vertex list —
    provided the fall-back expression measures about the position (`gen_fallback_center`). -/
theorem circumradius_bounds (R : Mat3) (hR : R.isOrtho = true) (pos : V3) (verts : List V3)
    (src : CircSource) (hg : CircGeom R pos verts src) (v : V3) (hv : v ∈ verts) :
    V3.distSq v pos ≤ circumradiusSq .position src pos verts := by
  have hpos : pos = rigid R pos V3.zero := by
    unfold rigid Mat3.mulVec V3.add V3.dot V3.zero
    ext <;> simp
  have hplace : ∀ u, V3.distSq (rigid R pos u) pos = V3.distSq u V3.zero := by
    intro u
    have := rigid_preserves_distSq R hR pos u V3.zero
    rw [← hpos] at this
    exact this
  cases hg with
  | scaled sv hvs =>
    subst hvs
    obtain ⟨u, hu, rfl⟩ := List.mem_map.1 hv
    show _ ≤ fallbackCircSq .position V3.zero sv
    rw [hplace u]
    exact fallback_position_bound V3.zero sv u hu
  | shape dims uv hd hvs =>
    subst hvs
    obtain ⟨u, hu, rfl⟩ := List.mem_map.1 hv
    show _ ≤ max3 dims * max3 dims * maxQ (uv.map V3.normSq)
    rw [hplace (V3.scale dims u)]
    have e : V3.distSq (V3.scale dims u) V3.zero = V3.normSq (V3.scale dims u) := by
      unfold V3.distSq V3.sub V3.zero; simp
    rw [e]
    obtain ⟨b1, b2, b3⟩ := max3_bounds dims
    have hs := scaled_normSq_le dims u (max3 dims) ⟨hd.1, b1⟩ ⟨hd.2.1, b2⟩ ⟨hd.2.2, b3⟩
    have hu' : V3.normSq u ≤ maxQ (uv.map V3.normSq) := le_maxQ _ _ (List.mem_map.2 ⟨u, hu, rfl⟩)
    have hmm : 0 ≤ max3 dims * max3 dims := mul_self_nonneg _
    calc V3.normSq (V3.scale dims u) ≤ max3 dims * max3 dims * V3.normSq u := hs
      _ ≤ max3 dims * max3 dims * maxQ (uv.map V3.normSq) := mul_le_mul_of_nonneg_left hu' hmm
  | fallback => exact fallback_position_bound pos verts v hv

end Scenic.Solid
