import ScenicModel.Lemmas.Codec

/-!
C18 (part 1): scalar codecs.  Theorems are stated for an arbitrary `IntTable` satisfying the
decidable well-formedness predicate; `Props/C18.lean` instantiates them on the table
regenerated from `/repo` (`Gen/IntCodec.lean`).
-/
namespace Scenic.Codec

/-- Every integer the writer accepts is read back, leaving exactly the suffix. -/
theorem int_roundtrip (t : IntTable) (h : t.WF) (z : Int) (bs s : Bytes)
    (hw : writeInt t z = some bs) : readInt t (bs ++ s) = some (z, s) := by
  have hfits := bigLen_fits t h z
  obtain ⟨h0, hsm, hlt2, hlt4, hltB, ht2, ht4, hne24, hneB2, hneB4, _, _, _, hl2, hl4,
    hlo2, hhi2, hlo4, hhi4, hcap, _, _, _⟩ := h
  unfold writeInt at hw
  split at hw
  · -- small
    rename_i hc
    simp only [Option.some.injEq] at hw; subst hw
    have hz0 : 0 ≤ z := by omega
    have : z.toNat ≤ t.rSmallHi := by omega
    simp only [List.cons_append, List.nil_append, readInt, this, if_true]
    congr 2; omega
  · split at hw
    · rename_i hnot hc
      simp only [Option.some.injEq] at hw; subst hw
      have h1 : ¬ t.rTag2 ≤ t.rSmallHi := by omega
      simp only [List.cons_append, readInt, ht2, h1, if_false, if_true]
      have hlen : (toSigned z t.wLen2).length = t.rLen2 := by simp [toSigned, length_toLE, hl2]
      rw [← hlen, readExact_append]
      simp only [Option.map_some]
      rw [fromSigned_toSigned z t.wLen2 (by omega) (by omega)]
    · split at hw
      · rename_i hnot hnot2 hc
        simp only [Option.some.injEq] at hw; subst hw
        have h1 : ¬ t.rTag4 ≤ t.rSmallHi := by omega
        have h2 : ¬ t.rTag4 = t.rTag2 := by omega
        simp only [List.cons_append, readInt, ht4, h1, if_false, h2, if_true]
        have hlen : (toSigned z t.wLen4).length = t.rLen4 := by simp [toSigned, length_toLE, hl4]
        rw [← hlen, readExact_append]
        simp only [Option.map_some]
        rw [fromSigned_toSigned z t.wLen4 (by omega) (by omega)]
      · dsimp only at hw
        split at hw
        · simp at hw
        · simp only [Option.some.injEq] at hw; subst hw
          have h1 : ¬ t.wTagBig ≤ t.rSmallHi := by omega
          simp only [List.cons_append, readInt, h1, if_false, hneB2, hneB4]
          have hlen : (toSigned z (bigLen t z)).length = bigLen t z := by
            simp [toSigned, length_toLE]
          have hre := readExact_append (toSigned z (bigLen t z)) s
          rw [hlen] at hre
          rw [hre]
          simp only [Option.map_some]
          rw [fromSigned_toSigned z _ hfits.1 hfits.2]

/-- The writer refuses exactly the integers whose length does not fit the length byte
    (the only `SerializationError` of `writeInt`). -/
theorem writeInt_none_iff (t : IntTable) (z : Int) :
    writeInt t z = none ↔
      (¬ (t.wSmallLo ≤ z ∧ z ≤ t.wSmallHi) ∧ ¬ (t.wLo2 ≤ z ∧ z ≤ t.wHi2) ∧
       ¬ (t.wLo4 ≤ z ∧ z ≤ t.wHi4) ∧ bigLen t z ≥ t.wLenCap) := by
  unfold writeInt
  constructor
  · intro h
    split at h; · simp at h
    split at h; · simp at h
    split at h; · simp at h
    dsimp only at h
    split at h
    · rename_i a b c d; exact ⟨a, b, c, d⟩
    · simp at h
  · rintro ⟨a, b, c, d⟩
    simp [a, b, c, d]

/-- Every byte the writer emits is a byte. -/
theorem writeInt_bytesOK (t : IntTable) (h : t.WF) (z : Int) (bs : Bytes)
    (hw : writeInt t z = some bs) : BytesOK bs := by
  obtain ⟨h0, hsm, hlt2, hlt4, hltB, ht2, ht4, hne24, hneB2, hneB4, hb2, hb4, hbB, hl2, hl4,
    hlo2, hhi2, hlo4, hhi4, hcap, _, _, _⟩ := h
  unfold writeInt at hw
  split at hw
  · simp only [Option.some.injEq] at hw; subst hw
    intro b hb; simp at hb; subst hb; omega
  · split at hw
    · simp only [Option.some.injEq] at hw; subst hw
      intro b hb; simp only [List.mem_cons] at hb
      rcases hb with rfl | hb
      · omega
      · exact toLE_bytesOK _ _ b hb
    · split at hw
      · simp only [Option.some.injEq] at hw; subst hw
        intro b hb; simp only [List.mem_cons] at hb
        rcases hb with rfl | hb
        · omega
        · exact toLE_bytesOK _ _ b hb
      · dsimp only at hw
        split at hw
        · simp at hw
        · rename_i hlen
          simp only [Option.some.injEq] at hw; subst hw
          intro b hb; simp only [List.mem_cons] at hb
          rcases hb with rfl | rfl | hb
          · omega
          · omega
          · exact toLE_bytesOK _ _ b hb

/-- Extension stability of `readInt`: a successful read is unchanged by appended input. -/
theorem readInt_mono (t : IntTable) {s r : Bytes} {z : Int} (h : readInt t s = some (z, r))
    (x : Bytes) : readInt t (s ++ x) = some (z, r ++ x) := by
  unfold readInt at h ⊢
  match s, h with
  | first :: rest, h =>
    simp only [List.cons_append]
    split
    · rename_i hc; simp only [hc, if_true, Option.some.injEq, Prod.mk.injEq] at h
      obtain ⟨rfl, rfl⟩ := h; rfl
    · rename_i hc; simp only [hc, if_false] at h
      split
      · rename_i hc2; simp only [hc2, if_true] at h
        cases hr : readExact t.rLen2 rest with
        | none => simp [hr] at h
        | some p =>
          obtain ⟨a, b⟩ := p
          simp only [hr, Option.map_some, Option.some.injEq, Prod.mk.injEq] at h
          obtain ⟨rfl, rfl⟩ := h
          simp [readExact_mono hr x]
      · rename_i hc2; simp only [hc2, if_false] at h
        split
        · rename_i hc3; simp only [hc3, if_true] at h
          cases hr : readExact t.rLen4 rest with
          | none => simp [hr] at h
          | some p =>
            obtain ⟨a, b⟩ := p
            simp only [hr, Option.map_some, Option.some.injEq, Prod.mk.injEq] at h
            obtain ⟨rfl, rfl⟩ := h
            simp [readExact_mono hr x]
        · rename_i hc3; simp only [hc3, if_false] at h
          match rest, h with
          | len :: rest', h =>
            simp only [List.cons_append]
            cases hr : readExact len rest' with
            | none => simp [hr] at h
            | some p =>
              obtain ⟨a, b⟩ := p
              simp only [hr, Option.map_some, Option.some.injEq, Prod.mk.injEq] at h
              obtain ⟨rfl, rfl⟩ := h
              simp [readExact_mono hr x]

/-- Generic truncation lemma: if a reader is extension-stable and reads `enc` back completely,
    it fails on every strict prefix of `enc`. -/
theorem strict_prefix_refused {α : Type} (read : Bytes → Option (α × Bytes))
    (mono : ∀ s v r x, read s = some (v, r) → read (s ++ x) = some (v, r ++ x))
    (enc : Bytes) (v : α) (hfull : read enc = some (v, []))
    (p q : Bytes) (hpq : enc = p ++ q) (hq : q ≠ []) : read p = none := by
  cases hp : read p with
  | none => rfl
  | some w =>
    obtain ⟨v', r⟩ := w
    have := mono p v' r q hp
    rw [← hpq, hfull] at this
    simp only [Option.some.injEq, Prod.mk.injEq] at this
    have : r ++ q = [] := this.2.symm
    simp at this; exact absurd this.2 hq

/-- Truncated integer encodings are refused. -/
theorem int_truncation_refused (t : IntTable) (h : t.WF) (z : Int) (bs p q : Bytes)
    (hw : writeInt t z = some bs) (hpq : bs = p ++ q) (hq : q ≠ []) : readInt t p = none := by
  have hfull : readInt t bs = some (z, []) := by
    have := int_roundtrip t h z bs [] hw; simpa using this
  exact strict_prefix_refused (readInt t) (fun s v r x hh => readInt_mono t hh x) bs z hfull p q hpq hq

/-- `bool` round trip (`writeBool` = `writeInt` of 0/1, `readBool` = `bool(readInt)`). -/
theorem bool_roundtrip (t : IntTable) (h : t.WF) (b : Bool) (bs s : Bytes)
    (hw : writeBool t b = some bs) : readBool t (bs ++ s) = some (b, s) := by
  unfold writeBool at hw
  unfold readBool
  rw [int_roundtrip t h _ bs s hw]
  cases b <;> simp

/-- `bytes` / `str` round trip. -/
theorem bytes_roundtrip (t : IntTable) (h : t.WF) (v bs s : Bytes)
    (hw : writeBytes t v = some bs) : readBytes t (bs ++ s) = some (v, s) := by
  unfold writeBytes at hw
  cases hi : writeInt t (v.length : Int) with
  | none => simp [hi] at hw
  | some ib =>
    simp only [hi, Option.map_some, Option.some.injEq] at hw; subst hw
    unfold readBytes
    rw [List.append_assoc, int_roundtrip t h _ ib (v ++ s) hi]
    simp only [Int.toNat_natCast]
    have : ¬ ((v.length : Int) < 0) := by omega
    simp only [this, if_false]
    exact readExact_append v s

theorem readBytes_mono (t : IntTable) {s r : Bytes} {v : Bytes} (h : readBytes t s = some (v, r))
    (x : Bytes) : readBytes t (s ++ x) = some (v, r ++ x) := by
  unfold readBytes at h ⊢
  cases hi : readInt t s with
  | none => simp [hi] at h
  | some p =>
    obtain ⟨z, r'⟩ := p
    simp only [hi] at h
    rw [readInt_mono t hi x]
    simp only
    split
    · rename_i hz; simp [hz] at h
    · rename_i hz; simp only [hz, if_false] at h
      exact readExact_mono h x

theorem bytes_truncation_refused (t : IntTable) (h : t.WF) (v bs p q : Bytes)
    (hw : writeBytes t v = some bs) (hpq : bs = p ++ q) (hq : q ≠ []) : readBytes t p = none := by
  have hfull : readBytes t bs = some (v, []) := by
    have := bytes_roundtrip t h v bs [] hw; simpa using this
  exact strict_prefix_refused (readBytes t) (fun s v r x hh => readBytes_mono t hh x) bs v hfull p q hpq hq

/-- fixed-width payloads (floats, vectors, orientations). -/
theorem raw_roundtrip (v s : Bytes) : readRaw v.length (writeRaw v ++ s) = some (v, s) :=
  readExact_append v s

/-! non-vacuity: the reference table is well-formed and the writer accepts values in every branch -/
example : refTable.WF := by decide
example : writeInt refTable 7 = some [7] ∧ writeInt refTable (-3) = some [253, 253, 255]
    ∧ writeInt refTable 70000 = some [254, 112, 17, 1, 0]
    ∧ writeInt refTable (2 ^ 40) = some [255, 6, 0, 0, 0, 0, 0, 1] := by decide

end Scenic.Codec
