import ScenicModel.Lemmas.Pruning
import Mathlib.Topology.MetricSpace.Pseudo.Defs

/-!
C08 (part 3): the geometric side conditions of containment and visibility pruning.

* `erosion_sound` / `visibility_buffer_sound`: metric lemmas, in an arbitrary (pseudo)metric space.
* `erode_passes_sound` / `dilate_passes_sound`: `k` passes of the 3×3×3 structuring element on a voxel
  grid of edge `p` erode by at most `k·√3·p` and dilate by at least `k·p` (squared / per-coordinate
  forms, rational coordinates, unbounded grid), and the iteration counts computed by the source stay
  on the safe side of those bounds.
  (the retry loops are in `C08Loops.lean`, the list-level morphology in `C08Morph.lean`)
-/
namespace Scenic.Pruning

/-! ### metric lemmas -/

/-- erosion of a set by `r`: the points whose open `r`-ball stays inside -/
def erodeSet {X : Type} [PseudoMetricSpace X] (C : Set X) (r : ℝ) : Set X := {p | Metric.ball p r ⊆ C}

theorem erodeSet_mono {X : Type} [PseudoMetricSpace X] (C : Set X) {r r' : ℝ} (h : r' ≤ r) :
    erodeSet C r ⊆ erodeSet C r' :=
  fun _ hp => (Metric.ball_subset_ball h).trans hp

/-- **erosion_sound**: an object that contains the ball of radius `ρ` around its position and lies in
    the container `C`, placed at `sample + offset` with `|offset| ≤ d`: the sampled point survives
    the erosion of `C` by `ρ − d` (and by anything smaller, e.g. an over-approximate erosion). -/
theorem erosion_sound {X : Type} [PseudoMetricSpace X] (C obj : Set X) (position sample : X)
    (ρ d : ℝ) (hin : Metric.ball position ρ ⊆ obj) (hfit : obj ⊆ C)
    (hoff : dist sample position ≤ d) {r : ℝ} (hr : r ≤ ρ - d) : sample ∈ erodeSet C r := by
  intro y hy
  apply hfit; apply hin
  rw [Metric.mem_ball] at hy ⊢
  calc dist y position ≤ dist y sample + dist sample position := dist_triangle _ _ _
    _ < r + d := by linarith
    _ ≤ ρ := by linarith

/-- the model's erosion amount is exactly `minRadius − maxDistance`, used only when positive -/
theorem erosionAmount_spec {r d e : Rat} (h : erosionAmount true (some r) (some d) = some e) :
    e = r - d ∧ 0 < e := by
  simp only [erosionAmount, if_true] at h
  split at h
  · simp only [Option.some.injEq] at h; subst h; exact ⟨rfl, by assumption⟩
  · simp at h

theorem erosionAmount_none_left (b : Bool) (d : Option Rat) : erosionAmount b none d = none := rfl

theorem erosionAmount_none_right (b : Bool) (r : Option Rat) : erosionAmount b r none = none := by
  cases r <;> rfl

/-- **visibility_buffer_sound**: an object inside the closed ball of radius `radius` around its position
    that touches the view region `V`, placed at `sample + offset` with `|offset| ≤ d`: the sampled
    point is within `radius + d` of `V`. -/
theorem visibility_buffer_sound {X : Type} [PseudoMetricSpace X] (V obj : Set X) (position sample : X)
    (radius d : ℝ) (hobj : obj ⊆ Metric.closedBall position radius) (hvis : (obj ∩ V).Nonempty)
    (hoff : dist sample position ≤ d) : ∃ y ∈ V, dist sample y ≤ radius + d := by
  obtain ⟨y, hyo, hyv⟩ := hvis
  refine ⟨y, hyv, ?_⟩
  have := hobj hyo
  rw [Metric.mem_closedBall] at this
  calc dist sample y ≤ dist sample position + dist position y := dist_triangle _ _ _
    _ ≤ d + radius := by rw [dist_comm position y]; linarith
    _ = radius + d := by ring

theorem visibilityBuffer_spec (radius d : Rat) : visibilityBuffer true radius d = radius + d := rfl

/-! ### voxel grids -/

abbrev Pt := Rat × Rat × Rat

def voxelOf (p : Rat) (x : Pt) : Cell := ((x.1 / p).floor, (x.2.1 / p).floor, (x.2.2 / p).floor)

def distSq (x y : Pt) : Rat :=
  (x.1 - y.1) * (x.1 - y.1) + (x.2.1 - y.2.1) * (x.2.1 - y.2.1) + (x.2.2 - y.2.2) * (x.2.2 - y.2.2)

/-- Chebyshev norm of a cell offset is at most `k` -/
def Cell.within (d : Cell) (k : Nat) : Prop :=
  -(k : Int) ≤ d.1 ∧ d.1 ≤ k ∧ -(k : Int) ≤ d.2.1 ∧ d.2.1 ≤ k ∧ -(k : Int) ≤ d.2.2 ∧ d.2.2 ≤ k

/-- one erosion pass with the 3×3×3 element, on an unbounded grid -/
def erodeP (V : Cell → Prop) : Cell → Prop := fun c => ∀ d : Cell, d.within 1 → V (c.add d)

/-- one dilation pass -/
def dilateP (V : Cell → Prop) : Cell → Prop := fun c => ∃ d : Cell, d.within 1 ∧ V (c.add d)

theorem erodeN_of_within (V : Cell → Prop) : ∀ (k : Nat) (c : Cell),
    (∀ d : Cell, d.within k → V (c.add d)) → iter erodeP k V c := by
  intro k
  induction k generalizing V with
  | zero =>
    intro c h
    have := h (0, 0, 0) (by simp [Cell.within])
    simpa [iter, Cell.add] using this
  | succ k ih =>
    intro c h
    simp only [iter]
    apply ih
    intro d hd e he
    have : ((c.add d).add e) = c.add (d.add e) := by
      simp only [Cell.add]; ext <;> simp <;> omega
    rw [this]
    apply h
    simp only [Cell.within, Cell.add] at hd he ⊢
    omega

theorem dilateN_of_within (V : Cell → Prop) : ∀ (k : Nat) (c : Cell),
    (∃ d : Cell, d.within k ∧ V (c.add d)) → iter dilateP k V c := by
  intro k
  induction k generalizing V with
  | zero =>
    intro c ⟨d, hd, hv⟩
    simp only [Cell.within] at hd
    have : c.add d = c := by simp only [Cell.add]; ext <;> simp <;> omega
    simpa [iter, this] using hv
  | succ k ih =>
    intro c ⟨d, hd, hv⟩
    simp only [iter]
    apply ih
    -- split d = d' + e with |d'| ≤ k, |e| ≤ 1
    let cl : Int → Int := fun z => if z > k then 1 else if z < -(k : Int) then -1 else 0
    refine ⟨(d.1 - cl d.1, d.2.1 - cl d.2.1, d.2.2 - cl d.2.2), ?_, (cl d.1, cl d.2.1, cl d.2.2), ?_, ?_⟩
    · simp only [Cell.within] at hd ⊢
      simp only [cl]
      refine ⟨?_, ?_, ?_, ?_, ?_, ?_⟩ <;> split <;> (try split) <;> omega
    · simp only [Cell.within, cl]
      refine ⟨?_, ?_, ?_, ?_, ?_, ?_⟩ <;> split <;> (try split) <;> omega
    · have : ((c.add (d.1 - cl d.1, d.2.1 - cl d.2.1, d.2.2 - cl d.2.2)).add (cl d.1, cl d.2.1, cl d.2.2))
          = c.add d := by
        simp only [Cell.add]; ext <;> simp <;> omega
      rw [this]; exact hv

theorem floor_div_add (p : Rat) (hp : 0 < p) (x : Rat) (n : Int) :
    ((x + p * (n : Rat)) / p).floor = (x / p).floor + n := by
  have : (x + p * (n : Rat)) / p = x / p + (n : Rat) := by field_simp
  rw [this, Rat.floor_add_intCast]

/-- **erode_passes_sound** (squared form, no √3): a point whose closed `r`-ball lies in the region `C`
    stays in the voxel set after `k` erosion passes whenever `3·k²·p² ≤ r²`, for every voxel set
    covering `C`. -/
theorem erode_passes_sound (C : Pt → Prop) (V : Cell → Prop) (p r : Rat) (hp : 0 < p) (k : Nat)
    (hcover : ∀ y, C y → V (voxelOf p y)) (x : Pt)
    (hball : ∀ y, distSq x y ≤ r * r → C y)
    (hk : 3 * ((k : Rat) * (k : Rat)) * (p * p) ≤ r * r) :
    iter erodeP k V (voxelOf p x) := by
  apply erodeN_of_within
  intro d hd
  have hy := hcover (x.1 + p * (d.1 : Rat), x.2.1 + p * (d.2.1 : Rat), x.2.2 + p * (d.2.2 : Rat)) (by
    apply hball
    simp only [distSq]
    simp only [Cell.within] at hd
    have h1 : ((d.1 : Int) : Rat) * (d.1 : Rat) ≤ (k : Rat) * (k : Rat) := by
      have a : (-(k : Int) : Rat) ≤ (d.1 : Rat) := by exact_mod_cast hd.1
      have b : ((d.1 : Int) : Rat) ≤ (k : Rat) := by exact_mod_cast hd.2.1
      push_cast at a; nlinarith
    have h2 : ((d.2.1 : Int) : Rat) * (d.2.1 : Rat) ≤ (k : Rat) * (k : Rat) := by
      have a : (-(k : Int) : Rat) ≤ (d.2.1 : Rat) := by exact_mod_cast hd.2.2.1
      have b : ((d.2.1 : Int) : Rat) ≤ (k : Rat) := by exact_mod_cast hd.2.2.2.1
      push_cast at a; nlinarith
    have h3 : ((d.2.2 : Int) : Rat) * (d.2.2 : Rat) ≤ (k : Rat) * (k : Rat) := by
      have a : (-(k : Int) : Rat) ≤ (d.2.2 : Rat) := by exact_mod_cast hd.2.2.2.2.1
      have b : ((d.2.2 : Int) : Rat) ≤ (k : Rat) := by exact_mod_cast hd.2.2.2.2.2
      push_cast at a; nlinarith
    have hpp : 0 ≤ p * p := by positivity
    have e : (x.1 - (x.1 + p * (d.1 : Rat))) * (x.1 - (x.1 + p * (d.1 : Rat)))
        + (x.2.1 - (x.2.1 + p * (d.2.1 : Rat))) * (x.2.1 - (x.2.1 + p * (d.2.1 : Rat)))
        + (x.2.2 - (x.2.2 + p * (d.2.2 : Rat))) * (x.2.2 - (x.2.2 + p * (d.2.2 : Rat)))
        = (p * p) * ((d.1 : Rat) * (d.1 : Rat) + (d.2.1 : Rat) * (d.2.1 : Rat) + (d.2.2 : Rat) * (d.2.2 : Rat)) := by
      ring
    rw [e]
    have : (p * p) * ((d.1 : Rat) * (d.1 : Rat) + (d.2.1 : Rat) * (d.2.1 : Rat) + (d.2.2 : Rat) * (d.2.2 : Rat))
        ≤ (p * p) * (3 * ((k : Rat) * (k : Rat))) := by
      apply mul_le_mul_of_nonneg_left _ hpp
      linarith
    linarith)
  simp only [voxelOf, floor_div_add p hp] at hy
  simpa [voxelOf, Cell.add] using hy

theorem floor_diff_le {u v b : Rat} {k : Nat} (h1 : u - v ≤ b) (h2 : v - u ≤ b) (hk : b ≤ (k : Rat)) :
    -(k : Int) ≤ v.floor - u.floor ∧ v.floor - u.floor ≤ k := by
  have a1 := Rat.floor_le u
  have a2 := Rat.lt_floor_add_one u
  have b1 := Rat.floor_le v
  have b2 := Rat.lt_floor_add_one v
  push_cast at a2 b2
  constructor
  · have : ((u.floor - v.floor : Int) : Rat) < (k : Rat) + 1 := by push_cast; linarith
    have : u.floor - v.floor < (k : Int) + 1 := by exact_mod_cast this
    omega
  · have : ((v.floor - u.floor : Int) : Rat) < (k : Rat) + 1 := by push_cast; linarith
    have : v.floor - u.floor < (k : Int) + 1 := by exact_mod_cast this
    omega

/-- **dilate_passes_sound** (per-coordinate form): every point within `b` (in each coordinate, hence in
    Euclidean distance) of a point of `C` lies in a voxel of the `k`-fold dilation whenever `b ≤ k·p`,
    for every voxel set covering `C`. -/
theorem dilate_passes_sound (C : Pt → Prop) (V : Cell → Prop) (p b : Rat) (hp : 0 < p) (k : Nat)
    (hcover : ∀ y, C y → V (voxelOf p y)) (x y : Pt) (hx : C x)
    (h1 : x.1 - y.1 ≤ b ∧ y.1 - x.1 ≤ b) (h2 : x.2.1 - y.2.1 ≤ b ∧ y.2.1 - x.2.1 ≤ b)
    (h3 : x.2.2 - y.2.2 ≤ b ∧ y.2.2 - x.2.2 ≤ b) (hk : b ≤ (k : Rat) * p) :
    iter dilateP k V (voxelOf p y) := by
  apply dilateN_of_within
  have hbk : b / p ≤ (k : Rat) := by rw [div_le_iff₀ hp]; exact hk
  have key : ∀ u v : Rat, u - v ≤ b → v - u ≤ b → u / p - v / p ≤ b / p ∧ v / p - u / p ≤ b / p := by
    intro u v huv hvu
    constructor
    · rw [← sub_div]; exact div_le_div_of_nonneg_right huv (le_of_lt hp)
    · rw [← sub_div]; exact div_le_div_of_nonneg_right hvu (le_of_lt hp)
  have c1 := floor_diff_le (key y.1 x.1 h1.2 h1.1).1 (key y.1 x.1 h1.2 h1.1).2 hbk
  have c2 := floor_diff_le (key y.2.1 x.2.1 h2.2 h2.1).1 (key y.2.1 x.2.1 h2.2 h2.1).2 hbk
  have c3 := floor_diff_le (key y.2.2 x.2.2 h3.2 h3.1).1 (key y.2.2 x.2.2 h3.2 h3.1).2 hbk
  refine ⟨((x.1 / p).floor - (y.1 / p).floor, (x.2.1 / p).floor - (y.2.1 / p).floor,
    (x.2.2 / p).floor - (y.2.2 / p).floor), ?_, ?_⟩
  · simp only [Cell.within]; omega
  · have : (voxelOf p y).add ((x.1 / p).floor - (y.1 / p).floor, (x.2.1 / p).floor - (y.2.1 / p).floor,
        (x.2.2 / p).floor - (y.2.2 / p).floor) = voxelOf p x := by
      simp only [voxelOf, Cell.add]; ext <;> simp
    rw [this]; exact hcover x hx

/-! ### the iteration counts of the source -/

theorem floorDivSqrt_spec (n : Nat) (r p : Rat) (hr : 0 ≤ r) (hp : 0 < p) (hn : 0 < n) :
    0 ≤ floorDivSqrt n r p ∧
      (n : Rat) * (((floorDivSqrt n r p : Int) : Rat) * ((floorDivSqrt n r p : Int) : Rat)) * (p * p) ≤ r * r := by
  unfold floorDivSqrt
  rw [if_neg (by
    intro h
    rcases h with h | h | h
    · linarith
    · linarith
    · omega)]
  set q := (r * r) / ((n : Rat) * p * p) with hq
  have hden : 0 < (n : Rat) * p * p := by
    have : (0 : Rat) < (n : Rat) := by exact_mod_cast hn
    positivity
  have hq0 : 0 ≤ q := div_nonneg (mul_nonneg hr hr) (le_of_lt hden)
  have hfl : 0 ≤ q.floor := by
    have : ((0 : Int) : Rat) ≤ q := by simpa using hq0
    exact Rat.le_floor_iff.mpr this
  constructor
  · exact Int.natCast_nonneg _
  · have h1 : Nat.sqrt q.floor.toNat * Nat.sqrt q.floor.toNat ≤ q.floor.toNat := Nat.sqrt_le _
    have h2 : ((q.floor.toNat : Int)) = q.floor := Int.toNat_of_nonneg hfl
    have h3 : ((Nat.sqrt q.floor.toNat : Int) : Rat) * ((Nat.sqrt q.floor.toNat : Int) : Rat) ≤ q := by
      have : ((Nat.sqrt q.floor.toNat * Nat.sqrt q.floor.toNat : Nat) : Rat) ≤ ((q.floor.toNat : Nat) : Rat) := by
        exact_mod_cast h1
      have h4 : ((q.floor.toNat : Nat) : Rat) = ((q.floor : Int) : Rat) := by
        have : ((q.floor.toNat : Nat) : Int) = q.floor := h2
        exact_mod_cast congrArg (fun z : Int => (z : Rat)) this
      have h5 := Rat.floor_le q
      push_cast at this ⊢
      linarith
    have : ((Nat.sqrt q.floor.toNat : Int) : Rat) * ((Nat.sqrt q.floor.toNat : Int) : Rat) * ((n : Rat) * p * p)
        ≤ q * ((n : Rat) * p * p) := mul_le_mul_of_nonneg_right h3 (le_of_lt hden)
    have hqq : q * ((n : Rat) * p * p) = r * r := by rw [hq]; field_simp
    rw [hqq] at this
    linarith

/-- what the soundness of the erosion count needs from the extracted configuration -/
def ErodeCountCfg.Sound (cfg : ErodeCountCfg) : Bool :=
  cfg.hypotDims == 3 && decide (0 ≤ cfg.minus) && cfg.usesTargetPitch

/-- **erode_count_sound**: the number of erosion passes chosen by `_erodeOverapproximate` never erodes by
    more than `maxErosion` (`3·k²·p² ≤ maxErosion²` with `p` the voxel edge); when the count is not
    positive the voxel set is left alone or dilated. -/
theorem erode_count_sound {cfg : ErodeCountCfg} (hcfg : cfg.Sound = true) (maxErosion pitch targetPitch : Rat)
    (hr : 0 ≤ maxErosion) (hp : 0 < targetPitch) :
    match erodeMorph cfg true maxErosion pitch targetPitch with
    | .erode k => 3 * ((k : Rat) * (k : Rat)) * (targetPitch * targetPitch) ≤ maxErosion * maxErosion
    | _ => True := by
  simp only [ErodeCountCfg.Sound, Bool.and_eq_true, beq_iff_eq, decide_eq_true_eq] at hcfg
  obtain ⟨⟨h3, hm⟩, ht⟩ := hcfg
  have hs := floorDivSqrt_spec 3 maxErosion targetPitch hr hp (by norm_num)
  simp only [erodeMorph, erodePasses, ht, if_true, h3, morphOf]
  split
  · next k hk =>
    split at hk
    · simp at hk
    · split at hk
      · simp at hk
      · next hne hnpos =>
        simp only [Morph.erode.injEq] at hk
        subst hk
        set K := floorDivSqrt 3 maxErosion targetPitch with hK
        simp only [neg_neg] at hne hnpos ⊢
        have hpos : 0 < K - cfg.minus := by omega
        have hle : K - cfg.minus ≤ K := by omega
        have hcast : (((K - cfg.minus).toNat : Nat) : Rat) = ((K - cfg.minus : Int) : Rat) := by
          have : (((K - cfg.minus).toNat : Nat) : Int) = K - cfg.minus := Int.toNat_of_nonneg (le_of_lt hpos)
          exact_mod_cast congrArg (fun z : Int => (z : Rat)) this
        rw [hcast]
        have a : (0 : Rat) ≤ ((K - cfg.minus : Int) : Rat) := by exact_mod_cast le_of_lt hpos
        have b : ((K - cfg.minus : Int) : Rat) ≤ (K : Rat) := by exact_mod_cast hle
        have hsq : ((K - cfg.minus : Int) : Rat) * ((K - cfg.minus : Int) : Rat) ≤ (K : Rat) * (K : Rat) := by
          nlinarith
        have hpp : 0 ≤ targetPitch * targetPitch := by positivity
        have := hs.2
        push_cast at this
        nlinarith
  · trivial

def DilateCountCfg.Sound (cfg : DilateCountCfg) : Bool := decide (0 ≤ cfg.plus) && cfg.usesTargetPitch

/-- **dilate_count_sound**: when the divisor is the voxel edge, the number of dilation passes times the
    voxel edge is at least `minBuffer`. -/
theorem dilate_count_sound {cfg : DilateCountCfg} (hcfg : cfg.Sound = true) (minBuffer pitch targetPitch : Rat)
    (hp : 0 < targetPitch) :
    minBuffer ≤ ((dilatePasses cfg minBuffer pitch targetPitch : Int) : Rat) * targetPitch := by
  simp only [DilateCountCfg.Sound, Bool.and_eq_true, decide_eq_true_eq] at hcfg
  simp only [dilatePasses, hcfg.2, if_true]
  have h1 : minBuffer / targetPitch ≤ ((minBuffer / targetPitch).ceil : Rat) := Rat.le_ceil
  have h2 : minBuffer ≤ ((minBuffer / targetPitch).ceil : Rat) * targetPitch := by
    rwa [div_le_iff₀ hp] at h1
  have h3 : (0 : Rat) ≤ (cfg.plus : Rat) := by exact_mod_cast hcfg.1
  push_cast
  nlinarith

/-- **regression witness for d16097f5** (the divisor used to be the *relative* pitch): a view region of extent 0.4
    (visibleDistance 0.2), relative pitch 0.15 (voxel edge 0.06) and an object of radius 0.866: the old count makes
    7 passes, which dilate by only 0.42 < 0.866; the count with the voxel edge as divisor makes 16 ≥ 0.866/0.06 -/
theorem dilate_relative_pitch_underbuffers :
    let cfg : DilateCountCfg := ⟨1, false⟩
    dilatePasses cfg (433/500) (3/20) (3/50) = 7 ∧ ((7 : Rat) * (3/50) < 433/500) ∧
      dilatePasses ⟨1, true⟩ (433/500) (3/20) (3/50) = 16 := by
  decide +kernel

end Scenic.Pruning
