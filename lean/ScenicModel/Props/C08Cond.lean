import ScenicModel.Lemmas.Pruning
import Mathlib.Tactic.FieldSimp

/-!
C08 (part 4): what `Samplable.conditionTo` promises — replacing a sampling region `B` by a pruned
region `B' ⊆ B` that still contains every accepted sample leaves the distribution conditioned on the
requirements unchanged and adds no scene (finite, atomic model: outcomes with rational weights; the
uniform density on the smaller region is a rescaling).
-/
namespace Scenic.Pruning

variable {Ω : Type}

theorem mass_cons (x : Ω × Rat) (d : Dist Ω) (A : Ω → Bool) :
    Dist.mass (x :: d) A = (if A x.1 then x.2 else 0) + Dist.mass d A := by
  unfold Dist.mass
  by_cases h : A x.1 = true
  · simp [List.filter_cons, h]
  · simp [List.filter_cons, h]

theorem mass_nil (A : Ω → Bool) : Dist.mass ([] : Dist Ω) A = 0 := rfl

/-- restricting to a region that contains the event does not change the event's mass -/
theorem mass_restrict (d : Dist Ω) (keep A : Ω → Bool) (h : ∀ ω, A ω = true → keep ω = true) :
    (d.restrict keep).mass A = d.mass A := by
  induction d with
  | nil => rfl
  | cons x xs ih =>
    unfold Dist.restrict at ih ⊢
    by_cases hk : keep x.1 = true
    · rw [List.filter_cons_of_pos (by simpa using hk), mass_cons, mass_cons, ih]
    · rw [List.filter_cons_of_neg (by simpa using hk), mass_cons, ih]
      have : A x.1 = false := by
        cases ha : A x.1 with
        | false => rfl
        | true => exact absurd (h _ ha) hk
      simp [this]

theorem mass_scale (d : Dist Ω) (c : Rat) (A : Ω → Bool) : (d.scale c).mass A = c * d.mass A := by
  induction d with
  | nil => simp [Dist.scale, mass_nil]
  | cons x xs ih =>
    unfold Dist.scale at ih ⊢
    rw [List.map_cons, mass_cons, mass_cons, ih]
    by_cases ha : A x.1 = true <;> simp [ha] <;> ring

/-- **prune_preserves_cond**: if every accepted outcome lies in the pruned region (`acc ω → keep ω`), the
    distribution conditioned on acceptance is the same before and after pruning, for every event. -/
theorem prune_preserves_cond (d : Dist Ω) (keep acc E : Ω → Bool) (c : Rat) (hc : c ≠ 0)
    (h : ∀ ω, acc ω = true → keep ω = true) :
    ((d.restrict keep).scale c).cond acc E = d.cond acc E := by
  unfold Dist.cond
  rw [mass_scale, mass_scale, mass_restrict d keep acc h,
    mass_restrict d keep (fun x => acc x && E x) (by
      intro ω hω
      simp only [Bool.and_eq_true] at hω
      exact h ω hω.1)]
  by_cases hz : d.mass acc = 0
  · simp [hz]
  · field_simp

/-- **prune_no_new_scenes**: every outcome of the pruned distribution is an outcome of the original one. -/
theorem prune_no_new_scenes (d : Dist Ω) (keep : Ω → Bool) (c : Rat) (x : Ω × Rat)
    (hx : x ∈ (d.restrict keep).scale c) : ∃ w, (x.1, w) ∈ d ∧ keep x.1 = true ∧ x.2 = c * w := by
  simp only [Dist.scale, Dist.restrict, List.mem_map, List.mem_filter] at hx
  obtain ⟨y, ⟨hy, hk⟩, rfl⟩ := hx
  exact ⟨y.2, hy, hk, rfl⟩

/-- conversely, an accepted outcome that was possible stays possible (with its weight rescaled) -/
theorem prune_keeps_accepted (d : Dist Ω) (keep acc : Ω → Bool) (c : Rat)
    (h : ∀ ω, acc ω = true → keep ω = true) (x : Ω × Rat) (hx : x ∈ d) (ha : acc x.1 = true) :
    (x.1, c * x.2) ∈ (d.restrict keep).scale c := by
  simp only [Dist.scale, Dist.restrict, List.mem_map, List.mem_filter]
  exact ⟨x, ⟨hx, h _ ha⟩, rfl⟩

theorem mass_nonneg (d : Dist Ω) (A : Ω → Bool) (hw : ∀ x ∈ d, 0 ≤ x.2) : 0 ≤ d.mass A := by
  induction d with
  | nil => simp [mass_nil]
  | cons x xs ih =>
    rw [mass_cons]
    have := ih (fun y hy => hw y (List.mem_cons_of_mem _ hy))
    have hx := hw x (List.mem_cons_self ..)
    split <;> linarith

theorem mass_mono (d : Dist Ω) (A B : Ω → Bool) (hw : ∀ x ∈ d, 0 ≤ x.2)
    (h : ∀ ω, A ω = true → B ω = true) : d.mass A ≤ d.mass B := by
  induction d with
  | nil => simp [mass_nil]
  | cons x xs ih =>
    rw [mass_cons, mass_cons]
    have := ih (fun y hy => hw y (List.mem_cons_of_mem _ hy))
    have hx := hw x (List.mem_cons_self ..)
    by_cases ha : A x.1 = true
    · simp [ha, h _ ha]; linarith
    · have ha' : A x.1 = false := by simpa using ha
      rw [ha']
      by_cases hb : B x.1 = true
      · simp [hb]; linarith
      · have hb' : B x.1 = false := by simpa using hb
        simp [hb']; linarith

/-- pruning never lowers the per-iteration acceptance probability:
    `P(acc) / P(keep) ≥ P(acc) / P(all)` written without division -/
theorem prune_acceptance_improves (d : Dist Ω) (keep acc : Ω → Bool) (hw : ∀ x ∈ d, 0 ≤ x.2) :
    d.mass acc * d.mass keep ≤ d.mass acc * d.mass (fun _ => true) :=
  mul_le_mul_of_nonneg_left (mass_mono d keep _ hw (fun _ _ => rfl)) (mass_nonneg d acc hw)

/-- the rejection sampler: after any number of iterations the probability of having returned an
    outcome in `E` is `P(acc ∧ E)` times a factor that does not depend on `E` … -/
theorem rejWithin_factor (pE pA : Rat) (n : Nat) : rejWithin pE pA n = pE * rejWithin 1 pA n := by
  induction n with
  | zero => simp [rejWithin]
  | succ n ih => simp only [rejWithin]; rw [ih]; ring

/-- … so its output, given that it has returned, is distributed as `P(E | acc)` after any number of
    iterations; by `prune_preserves_cond` that is the same with and without pruning. -/
theorem rejection_output_conditional (pE pA : Rat) (hA : pA ≠ 0) (n : Nat) :
    rejWithin pE pA n = (pE / pA) * rejWithin pA pA n := by
  rw [rejWithin_factor pE, rejWithin_factor pA]
  field_simp

end Scenic.Pruning
