import ScenicModel.Model.RoadCache
namespace Scenic.C20
open Scenic.RoadCache

theorem leEncode_length (k v : Nat) : (leEncode k v).length = k := by
  induction k generalizing v with
  | zero => rfl
  | succ k ih => simp [leEncode, ih]

theorem leDecode_leEncode (k v : Nat) (h : v < 256 ^ k) : leDecode (leEncode k v) = v := by
  induction k generalizing v with
  | zero => simp at h; subst h; rfl
  | succ k ih =>
    have h' : v / 256 < 256 ^ k := by
      apply Nat.div_lt_of_lt_mul
      rw [Nat.pow_succ] at h
      omega
    simp only [leEncode, leDecode, ih (v / 256) h']
    omega

/-- every exception class `fromPickle` can raise is caught by `fromFile` -/
def CaughtAll (c : Cfg) : Prop :=
  c.shortErr ∈ c.caught ∧ c.versionErr ∈ c.caught ∧ c.digestErr ∈ c.caught ∧
  c.optionsErr ∈ c.caught ∧ c.payloadErr ∈ c.caught

/-- **fromPickle_ok_iff**: a cache file is accepted exactly when it consists of a version field
holding the current format version, a digest field and an options field equal to the expected
digests (when expected digests are given), and a payload that unpickles -/
theorem fromPickle_ok_iff {α : Type} (c : Cfg) (unpickle : Bytes → Option α) (file : Bytes)
    (orig opts : Option Bytes) (a : α) :
    fromPickle c unpickle file orig opts = .ok a ↔
      ∃ v d o payload, file = v ++ (d ++ (o ++ payload)) ∧ v.length = c.versionBytes ∧
        leDecode v = c.formatVersion ∧ d.length = c.digestBytes ∧ o.length = c.optionsBytes ∧
        (truthy orig = true → orig = some d) ∧ (truthy opts = true → opts = some o) ∧
        unpickle payload = some a := by
  constructor
  · intro h
    unfold fromPickle at h
    simp only at h
    split at h
    · cases h
    · rename_i h1
      split at h
      · cases h
      · rename_i h2
        split at h
        · cases h
        · rename_i h3
          split at h
          · cases h
          · rename_i h4
            split at h
            · cases h
            · rename_i h5
              split at h
              · cases h
              · rename_i h6
                split at h
                · rename_i a' h7
                  cases h
                  refine ⟨file.take c.versionBytes,
                    (file.drop c.versionBytes).take c.digestBytes,
                    ((file.drop c.versionBytes).drop c.digestBytes).take c.optionsBytes,
                    ((file.drop c.versionBytes).drop c.digestBytes).drop c.optionsBytes,
                    ?_, ?_, ?_, ?_, ?_, ?_, ?_, h7⟩
                  · simp only [List.take_append_drop]
                  · simpa using h1
                  · simpa using h2
                  · simpa using h3
                  · simpa using h5
                  · intro ht
                    simpa [ht] using h4
                  · intro ht
                    simpa [ht] using h6
                · cases h
  · rintro ⟨v, d, o, payload, hf, hv, hver, hd, ho, hod, hoo, hp⟩
    subst hf
    unfold fromPickle
    have t1 : (v ++ (d ++ (o ++ payload))).take c.versionBytes = v := by
      rw [← hv]; exact List.take_left
    have d1 : (v ++ (d ++ (o ++ payload))).drop c.versionBytes = d ++ (o ++ payload) := by
      rw [← hv]; exact List.drop_left
    have t2 : (d ++ (o ++ payload)).take c.digestBytes = d := by
      rw [← hd]; exact List.take_left
    have d2 : (d ++ (o ++ payload)).drop c.digestBytes = o ++ payload := by
      rw [← hd]; exact List.drop_left
    have t3 : (o ++ payload).take c.optionsBytes = o := by
      rw [← ho]; exact List.take_left
    have d3 : (o ++ payload).drop c.optionsBytes = payload := by
      rw [← ho]; exact List.drop_left
    simp only [t1, d1, t2, d2, t3, d3, hv, hver, hd, ho, hp]
    have g1 : (truthy orig && orig != some d) = false := by
      cases ht : truthy orig with
      | false => simp
      | true => simp [hod ht]
    have g2 : (truthy opts && opts != some o) = false := by
      cases ht : truthy opts with
      | false => simp
      | true => simp [hoo ht]
    simp [g1, g2]

theorem truthy_some_ne_nil (b : Bytes) (h : b ≠ []) : truthy (some b) = true := by
  cases b with
  | nil => exact absurd rfl h
  | cons x xs => rfl

/-- **cache_used_iff_keys_equal**: `fromFile` returns the cached network exactly when caching is
enabled, a cache file exists, and its version field, map digest and options digest all equal the
current format version, the digest of the map file and the digest of the options (and the payload
unpickles).  -/
theorem cache_used_iff_keys_equal {α : Type} (c : Cfg) (unpickle : Bytes → Option α) (parse a : α)
    (useCache : Bool) (cacheFile : Option Bytes) (digest optDigest : Bytes)
    (hd : digest ≠ []) (ho : optDigest ≠ []) :
    fromFile c unpickle parse useCache cacheFile digest optDigest = .cached a ↔
      useCache = true ∧ ∃ v payload, cacheFile = some (v ++ (digest ++ (optDigest ++ payload))) ∧
        v.length = c.versionBytes ∧ leDecode v = c.formatVersion ∧
        digest.length = c.digestBytes ∧ optDigest.length = c.optionsBytes ∧
        unpickle payload = some a := by
  unfold fromFile
  cases useCache with
  | false => simp
  | true =>
    cases cacheFile with
    | none => simp
    | some file =>
      simp only
      constructor
      · intro h
        cases hp : fromPickle c unpickle file (some digest) (some optDigest) with
        | ok a' =>
          rw [hp] at h
          simp at h
          subst h
          obtain ⟨v, d, o, payload, hf, hv, hver, hdl, hol, hod, hoo, hpay⟩ :=
            (fromPickle_ok_iff c unpickle file _ _ a').mp hp
          have e1 := hod (truthy_some_ne_nil digest hd)
          have e2 := hoo (truthy_some_ne_nil optDigest ho)
          simp at e1 e2
          subst e1 e2
          exact ⟨by simp, v, payload, by rw [hf], hv, hver, hdl, hol, hpay⟩
        | err e =>
          rw [hp] at h
          simp at h
          split at h <;> cases h
      · rintro ⟨_, v, payload, hf, hv, hver, hdl, hol, hpay⟩
        have : fromPickle c unpickle file (some digest) (some optDigest) = .ok a := by
          apply (fromPickle_ok_iff c unpickle file _ _ a).mpr
          simp at hf
          exact ⟨v, digest, optDigest, payload, hf, hv, hver, hdl, hol, fun _ => rfl, fun _ => rfl, hpay⟩
        rw [this]

theorem fromPickle_err_mem {α : Type} (c : Cfg) (unpickle : Bytes → Option α) (file : Bytes)
    (orig opts : Option Bytes) (e : Err) (h : fromPickle c unpickle file orig opts = .err e) :
    e = c.shortErr ∨ e = c.versionErr ∨ e = c.digestErr ∨ e = c.optionsErr ∨ e = c.payloadErr := by
  unfold fromPickle at h
  simp only at h
  repeat' split at h
  all_goals (first | (cases h; simp) | cases h)

/-- **cache_never_raises**: when every exception class of `fromPickle` is caught, `fromFile`
returns either the cached network (whole) or the freshly parsed one; a stale, truncated or
corrupted cache is ignored, never partially used and never an error -/
theorem cache_never_raises {α : Type} (c : Cfg) (hc : CaughtAll c) (unpickle : Bytes → Option α)
    (parse : α) (useCache : Bool) (cacheFile : Option Bytes) (digest optDigest : Bytes) :
    (∃ a, fromFile c unpickle parse useCache cacheFile digest optDigest = .cached a) ∨
    fromFile c unpickle parse useCache cacheFile digest optDigest = .parsed parse := by
  unfold fromFile
  cases useCache with
  | false => simp
  | true =>
    cases cacheFile with
    | none => simp
    | some file =>
      simp only
      cases hp : fromPickle c unpickle file (some digest) (some optDigest) with
      | ok a => exact Or.inl ⟨a, rfl⟩
      | err e =>
        right
        have hm := fromPickle_err_mem c unpickle file _ _ e hp
        obtain ⟨h1, h2, h3, h4, h5⟩ := hc
        have : e ∈ c.caught := by
          rcases hm with h | h | h | h | h <;> (subst h; assumption)
        simp [this]

/-- **dump_load_roundtrip**: what `dumpPickle` writes is accepted by `fromPickle` under expected
digests `d'`, `o'` exactly when they are the digests it was written with -/
theorem dump_load_roundtrip {α : Type} (c : Cfg) (hv : c.formatVersion < 256 ^ c.versionBytes)
    (pickle : α → Bytes) (unpickle : Bytes → Option α) (hpu : ∀ a, unpickle (pickle a) = some a)
    (a : α) (d o d' o' : Bytes) (hd : d.length = c.digestBytes) (ho : o.length = c.optionsBytes)
    (hd' : d' ≠ []) (ho' : o' ≠ []) :
    fromPickle c unpickle (dumpPickle c pickle a d o) (some d') (some o') = .ok a ↔ d' = d ∧ o' = o := by
  rw [fromPickle_ok_iff]
  unfold dumpPickle header
  constructor
  · rintro ⟨v, d2, o2, payload, hf, hvl, _, hdl, hol, hod, hoo, _⟩
    have e1 := hod (truthy_some_ne_nil d' hd')
    have e2 := hoo (truthy_some_ne_nil o' ho')
    simp at e1 e2
    subst e1 e2
    simp only [List.append_assoc] at hf
    have hl : (leEncode c.versionBytes c.formatVersion).length = v.length := by
      rw [leEncode_length, hvl]
    have h1 := List.append_inj hf hl
    have h2 := List.append_inj h1.2 (by rw [hd, hdl])
    have h3 := List.append_inj h2.2 (by rw [ho, hol])
    exact ⟨h2.1.symm, h3.1.symm⟩
  · rintro ⟨rfl, rfl⟩
    refine ⟨leEncode c.versionBytes c.formatVersion, d', o', pickle a, ?_, leEncode_length _ _,
      leDecode_leEncode _ _ hv, hd, ho, fun _ => rfl, fun _ => rfl, hpu a⟩
    simp [List.append_assoc]

/-- **second_load_uses_cache**: after a load that parsed the map and wrote the cache, loading the
same map with the same options returns the cached copy of that network -/
theorem second_load_uses_cache {α : Type} (c : Cfg) (hv : c.formatVersion < 256 ^ c.versionBytes)
    (pickle : α → Bytes) (unpickle : Bytes → Option α) (hpu : ∀ a, unpickle (pickle a) = some a)
    (parse parse' : α) (useCache : Bool) (cacheFile : Option Bytes) (digest optDigest : Bytes)
    (hd : digest.length = c.digestBytes) (ho : optDigest.length = c.optionsBytes)
    (hd' : digest ≠ []) (ho' : optDigest ≠ [])
    (h1 : fromFile c unpickle parse useCache cacheFile digest optDigest = .parsed parse) :
    fromFile c unpickle parse' true
      (cacheAfter c unpickle pickle parse useCache true cacheFile digest optDigest) digest optDigest
      = .cached parse := by
  unfold cacheAfter
  rw [h1]
  simp only [if_true]
  rw [cache_used_iff_keys_equal c unpickle parse' parse true _ digest optDigest hd' ho']
  refine ⟨rfl, leEncode c.versionBytes c.formatVersion, pickle parse, ?_, leEncode_length _ _,
    leDecode_leEncode _ _ hv, hd, ho, hpu parse⟩
  simp [dumpPickle, header, List.append_assoc]


/-! ### the front of `fromFile`: which file is consulted for a given spelling of the path -/

/-- the `handlers` dict of the source: map formats before the cache format -/
def PathWF (pc : PathCfg) : Prop := pc.handlerOrder = [.map, .pickled]

/-- **path_map_is_core**: with the map's own extension and the map file present, `fromFile` is the
cache logic of `cache_used_iff_keys_equal` -/
theorem path_map_is_core {α : Type} (c : Cfg) (pc : PathCfg) (hp : PathWF pc) (openErr : Err)
    (unpickle : Bytes → Option α) (parse : α) (useCache : Bool) (digest : Bytes)
    (cacheFile : Option Bytes) (optDigest : Bytes) :
    fromFilePath c pc openErr unpickle parse useCache .map (some digest) cacheFile optDigest =
      fromFile c unpickle parse useCache cacheFile digest optDigest := by
  unfold fromFilePath resolveExt
  rw [hp]
  rfl

/-- **path_noext_prefers_map**: a path without extension resolves to the map file whenever it
exists — the cache is then only used through the digest checks, never directly -/
theorem path_noext_prefers_map {α : Type} (c : Cfg) (pc : PathCfg) (hp : PathWF pc) (openErr : Err)
    (unpickle : Bytes → Option α) (parse : α) (useCache : Bool) (digest : Bytes)
    (cacheFile : Option Bytes) (optDigest : Bytes) :
    fromFilePath c pc openErr unpickle parse useCache .none (some digest) cacheFile optDigest =
      fromFilePath c pc openErr unpickle parse useCache .map (some digest) cacheFile optDigest := by
  unfold fromFilePath resolveExt
  rw [hp]
  rfl

/-- **path_noext_only_cache**: without a map file a path without extension is the `.snet` file -/
theorem path_noext_only_cache {α : Type} (c : Cfg) (pc : PathCfg) (hp : PathWF pc) (openErr : Err)
    (unpickle : Bytes → Option α) (parse : α) (useCache : Bool) (file : Bytes) (optDigest : Bytes) :
    fromFilePath c pc openErr unpickle parse useCache .none none (some file) optDigest =
      fromFilePath c pc openErr unpickle parse useCache .pickled none (some file) optDigest := by
  unfold fromFilePath resolveExt
  rw [hp]
  rfl

/-- **path_errors**: nothing readable → the not-found error; unknown extension → the unknown-format
error; a named file that does not exist → the error of `open` -/
theorem path_errors {α : Type} (c : Cfg) (pc : PathCfg) (hp : PathWF pc) (openErr : Err)
    (unpickle : Bytes → Option α) (parse : α) (useCache : Bool) (mapFile cacheFile : Option Bytes)
    (optDigest : Bytes) :
    fromFilePath c pc openErr unpickle parse useCache .none none none optDigest = .raised pc.notFoundErr ∧
    fromFilePath c pc openErr unpickle parse useCache .unknown mapFile cacheFile optDigest = .raised pc.unknownErr ∧
    fromFilePath c pc openErr unpickle parse useCache .map none cacheFile optDigest = .raised openErr ∧
    fromFilePath c pc openErr unpickle parse useCache .pickled mapFile none optDigest = .raised openErr := by
  unfold fromFilePath resolveExt
  rw [hp]
  refine ⟨rfl, rfl, rfl, rfl⟩

/-- **path_pickled_direct**: a `.snet` path is loaded directly: it is accepted exactly when its
version field is current and its payload unpickles — the digests in its header are *not* compared
with anything (there is no map to compare with), `useCache` is irrelevant, the parser never runs -/
theorem path_pickled_direct {α : Type} (c : Cfg) (pc : PathCfg) (hp : PathWF pc) (openErr : Err)
    (unpickle : Bytes → Option α) (parse a : α) (useCache : Bool) (mapFile : Option Bytes) (file : Bytes)
    (optDigest : Bytes) :
    (fromFilePath c pc openErr unpickle parse useCache .pickled mapFile (some file) optDigest = .cached a ↔
      ∃ v d o payload, file = v ++ (d ++ (o ++ payload)) ∧ v.length = c.versionBytes ∧
        leDecode v = c.formatVersion ∧ d.length = c.digestBytes ∧ o.length = c.optionsBytes ∧
        unpickle payload = some a) ∧
    (∀ x, fromFilePath c pc openErr unpickle parse useCache .pickled mapFile (some file) optDigest ≠ .parsed x) := by
  have hres : fromFilePath c pc openErr unpickle parse useCache .pickled mapFile (some file) optDigest =
      match fromPickle c unpickle file none none with
      | .ok a => .cached a
      | .err e => .raised e := by
    unfold fromFilePath resolveExt
    rw [hp]
    rfl
  rw [hres]
  constructor
  · constructor
    · intro h
      cases hp' : fromPickle c unpickle file none none with
      | ok a' =>
        rw [hp'] at h
        simp only [Source.cached.injEq] at h
        subst h
        obtain ⟨v, d, o, payload, hf, hv, hver, hd, ho, _, _, hpay⟩ := (fromPickle_ok_iff c unpickle file none none a').mp hp'
        exact ⟨v, d, o, payload, hf, hv, hver, hd, ho, hpay⟩
      | err e => rw [hp'] at h; cases h
    · rintro ⟨v, d, o, payload, hf, hv, hver, hd, ho, hpay⟩
      have : fromPickle c unpickle file none none = .ok a :=
        (fromPickle_ok_iff c unpickle file none none a).mpr
          ⟨v, d, o, payload, hf, hv, hver, hd, ho, by simp [truthy], by simp [truthy], hpay⟩
      rw [this]
  · intro x
    cases fromPickle c unpickle file none none <;> simp

/-! ### the options digest: the byte string that is hashed determines the options -/

def NoZero (b : Bytes) : Prop := ∀ x ∈ b, x ≠ 0

/-- a string is empty or starts with the NUL byte (what follows a value in the preimage) -/
def NilOrZero (s : Bytes) : Prop := s = [] ∨ ∃ t, s = 0 :: t

theorem split_at_zero : ∀ (k k' t t' : Bytes), NoZero k → NoZero k' →
    k ++ 0 :: t = k' ++ 0 :: t' → k = k' ∧ t = t' := by
  intro k
  induction k with
  | nil =>
    intro k' t t' _ hk' h
    cases k' with
    | nil => simp at h; exact ⟨rfl, h⟩
    | cons x xs =>
      simp at h
      exact absurd h.1.symm (hk' x (List.mem_cons_self))
  | cons x xs ih =>
    intro k' t t' hk hk' h
    cases k' with
    | nil =>
      simp at h
      exact absurd h.1 (hk x (List.mem_cons_self))
    | cons y ys =>
      simp at h
      obtain ⟨hxy, hrest⟩ := h
      have := ih ys t t' (fun z hz => hk z (List.mem_cons_of_mem _ hz))
        (fun z hz => hk' z (List.mem_cons_of_mem _ hz)) hrest
      exact ⟨by rw [hxy, this.1], this.2⟩

theorem split_at_end : ∀ (v v' s s' : Bytes), NoZero v → NoZero v' → NilOrZero s → NilOrZero s' →
    v ++ s = v' ++ s' → v = v' ∧ s = s' := by
  intro v
  induction v with
  | nil =>
    intro v' s s' _ hv' hs hs' h
    cases v' with
    | nil => simp at h; exact ⟨rfl, h⟩
    | cons x xs =>
      simp at h
      rcases hs with hs | ⟨t, hs⟩
      · subst hs; simp at h
      · subst hs
        simp at h
        exact absurd h.1.symm (hv' x (List.mem_cons_self))
  | cons x xs ih =>
    intro v' s s' hv hv' hs hs' h
    cases v' with
    | nil =>
      simp at h
      rcases hs' with hs' | ⟨t, hs'⟩
      · subst hs'; simp at h
      · subst hs'
        simp at h
        exact absurd h.1 (hv x (List.mem_cons_self))
    | cons y ys =>
      simp at h
      obtain ⟨hxy, hrest⟩ := h
      have := ih ys s s' (fun z hz => hv z (List.mem_cons_of_mem _ hz))
        (fun z hz => hv' z (List.mem_cons_of_mem _ hz)) hs hs' hrest
      exact ⟨by rw [hxy, this.1], this.2⟩

/-- options whose keys and values are encoded directly and contain no NUL byte -/
def Plain (kvs : List (Bytes × Option Bytes)) : Prop :=
  ∀ kv ∈ kvs, NoZero kv.1 ∧ ∃ v, kv.2 = some v ∧ NoZero v

theorem encodeOptions_nilOrZero (h : HashCfg) (hk : h.sepKey = [0, 75])
    (kvs : List (Bytes × Option Bytes)) : NilOrZero (encodeOptions h kvs) := by
  cases kvs with
  | nil => left; rfl
  | cons kv rest =>
    right
    simp [encodeOptions, hk]

/-- **options_preimage_injective**: for options whose keys and values are encoded directly and are
NUL-free, the byte string fed to blake2b determines the (ordered) list of keys and values: two
different option sets are hashed from different preimages (so, blake2b being collision free, a
cache written under other options is ignored) -/
theorem options_preimage_injective (h : HashCfg) (hk : h.sepKey = [0, 75]) (hv : h.sepVal = [0, 86]) :
    ∀ (a b : List (Bytes × Option Bytes)), Plain a → Plain b →
      encodeOptions h a = encodeOptions h b → a = b := by
  intro a
  induction a with
  | nil =>
    intro b _ _ he
    cases b with
    | nil => rfl
    | cons kv rest => simp [encodeOptions, hk] at he
  | cons kv rest ih =>
    intro b ha hb he
    cases b with
    | nil => simp [encodeOptions, hk] at he
    | cons kv' rest' =>
      obtain ⟨hk1, v, hv1, hvz⟩ := ha kv (List.mem_cons_self)
      obtain ⟨hk2, v', hv2, hvz'⟩ := hb kv' (List.mem_cons_self)
      have hra : Plain rest := fun x hx => ha x (List.mem_cons_of_mem _ hx)
      have hrb : Plain rest' := fun x hx => hb x (List.mem_cons_of_mem _ hx)
      have e1 : encodeOptions h (kv :: rest) =
          0 :: 75 :: (kv.1 ++ 0 :: 86 :: (v ++ encodeOptions h rest)) := by
        simp [encodeOptions, hk, hv, hv1]
      have e2 : encodeOptions h (kv' :: rest') =
          0 :: 75 :: (kv'.1 ++ 0 :: 86 :: (v' ++ encodeOptions h rest')) := by
        simp [encodeOptions, hk, hv, hv2]
      rw [e1, e2] at he
      simp only [List.cons.injEq, true_and] at he
      obtain ⟨hkk, ht⟩ := split_at_zero _ _ _ _ hk1 hk2 he
      simp only [List.cons.injEq, true_and] at ht
      obtain ⟨hvv, hrest⟩ := split_at_end _ _ _ _ hvz hvz'
        (encodeOptions_nilOrZero h hk rest) (encodeOptions_nilOrZero h hk rest') ht
      have := ih rest' hra hrb hrest
      subst this
      have : kv = kv' := by
        cases kv; cases kv'
        simp at hkk hv1 hv2
        subst hkk hv1 hv2 hvv
        rfl
      rw [this]

end Scenic.C20
