import ScenicModel.Lemmas.SpecPerm
import ScenicModel.Gen.SpecTable

/-!
# C06 (part 1): what a successful resolution guarantees, and which errors are reported

All statements are about `Scenic.Spec.resolve`, the statement-by-statement model of
`Constructible._resolveSpecifiers`, for *all* classes `C` and *all* lists of specifiers `S`.
-/
namespace Scenic.C06
open Scenic.Spec

theorem resolve_ok {C : ClassInfo} {S : List Spec} {o : Outcome} (h : resolve C S = .ok o) :
    ∃ pre, assignPhase C S = .ok pre ∧ orderPhase C S pre = .ok o.order ∧
      o.assign = pre.assign ∧ o.modifier = pre.modifier ∧ o.nodes = pre.nodes := by
  unfold resolve at h
  split at h
  · cases h
  · rename_i pre hp
    split at h
    · cases h
    · rename_i order ho
      cases h
      exact ⟨pre, hp, ho, rfl, rfl, rfl⟩

/-- **Winner per property.**  After a successful resolution every property is specified by
* a specifier of the list that specifies it with a priority number at most that of every specifier
  specifying it, and strictly smaller than that of every *other non-modifying* specifier
  (the unique highest-priority specifier; a modifying specifier of equal priority yields to it), or
* the class default, exactly when no specifier of the list specifies the property, or
* nothing, exactly when in addition the class has no default for it. -/
theorem resolve_spec {C : ClassInfo} {S : List Spec} {o : Outcome} (h : resolve C S = .ok o) (p : String) :
    match get o.assign p with
    | some (.user n) => ∃ s ∈ S, s.name = n ∧ ∃ k, (p, k) ∈ s.prios ∧
        (∀ t ∈ S, ∀ k', (p, k') ∈ t.prios → k ≤ k') ∧
        (∀ t ∈ S, t.modifying = false → t.name ≠ n → ∀ k', (p, k') ∈ t.prios → k < k')
    | some (.dflt q) => q = p ∧ (∃ e ∈ C.defaults, e.1 = p) ∧ ∀ t ∈ S, ∀ k', (p, k') ∉ t.prios
    | none => (∀ t ∈ S, ∀ k', (p, k') ∉ t.prios) ∧ ∀ e ∈ C.defaults, e.1 ≠ p := by
  obtain ⟨pre, hpre, _, ha, _, _⟩ := resolve_ok h
  obtain ⟨_, ns, ms, hn, hm, rfl⟩ := assignPhase_ok hpre
  have hI := (passes_inv hn hm).pinv p
  rw [ha]
  simp only
  rw [assign_get]
  cases hg : get ms.props p with
  | some v =>
    obtain ⟨node, k⟩ := v
    rw [hg] at hI
    obtain ⟨n, rfl, ⟨b, hb⟩, hmin⟩ := hI
    simp only
    rw [mem_allCands, mem_cands] at hb
    obtain ⟨s, hs, h1, h2, h3⟩ := hb
    simp only at h1 h3
    refine ⟨s, hs, h1.symm, k, h3, ?_, ?_⟩
    · intro t ht k' hk'
      have hc : (⟨t.name, t.modifying, p, k'⟩ : Cand) ∈ allCands S := by
        rw [mem_allCands, mem_cands]; exact ⟨t, ht, rfl, rfl, hk'⟩
      exact (hmin _ hc rfl).1
    · intro t ht htm hne k' hk'
      have hc : (⟨t.name, t.modifying, p, k'⟩ : Cand) ∈ allCands S := by
        rw [mem_allCands, mem_cands]; exact ⟨t, ht, rfl, rfl, hk'⟩
      exact (hmin _ hc rfl).2 htm hne
  | none =>
    rw [hg] at hI
    have hnone : ∀ t ∈ S, ∀ k', (p, k') ∉ t.prios := by
      intro t ht k' hk'
      have hc : (⟨t.name, t.modifying, p, k'⟩ : Cand) ∈ allCands S := by
        rw [mem_allCands, mem_cands]; exact ⟨t, ht, rfl, rfl, hk'⟩
      exact hI _ hc rfl
    by_cases hany : C.defaults.any (fun e => decide (e.1 = p)) = true
    · rw [if_pos hany]
      simp only [List.any_eq_true, decide_eq_true_eq] at hany
      obtain ⟨e, he, hep⟩ := hany
      exact ⟨rfl, ⟨e, he, hep⟩, hnone⟩
    · rw [if_neg hany]
      simp only [List.any_eq_true, decide_eq_true_eq, not_exists, not_and] at hany
      exact ⟨hnone, hany⟩

/-- **At most one modifier, and only where allowed.**  A property has at most one modifier (`modifier` is a
dictionary); it is a modifying specifier of the list that lists the property as modifiable and specifies it
with a priority number not below that of the specifier that won the property (which is a specifier of the
list, never a class default). -/
theorem resolve_modifier {C : ClassInfo} {S : List Spec} {o : Outcome} (h : resolve C S = .ok o)
    (p : String) (m : Node) (hm : get o.modifier p = some m) :
    ∃ M ∈ S, M.modifying = true ∧ m = .user M.name ∧ p ∈ M.modifiable ∧
      ∃ km, (p, km) ∈ M.prios ∧ ∃ s ∈ S, get o.assign p = some (.user s.name) ∧ ∃ k, (p, k) ∈ s.prios ∧ k ≤ km := by
  obtain ⟨pre, hpre, _, ha, hmo, _⟩ := resolve_ok h
  have hA := assignPhase_ok hpre
  obtain ⟨hnames, ns, ms, hn, hmp, rfl⟩ := hA
  have hI := passes_inv hn hmp
  rw [hmo] at hm
  obtain ⟨n, km, rfl, hc, ⟨M, hM, hMm, hname, hmod⟩, node, cur, hg, hle⟩ := hI.mods p m hm
  subst hname
  rw [mem_allCands, mem_cands] at hc
  obtain ⟨M', hM', h1, _, h3⟩ := hc
  simp only at h1 h3
  have : M = M' := nodup_map_inj hnames hM hM' h1
  subst this
  refine ⟨M, hM, hMm, rfl, hmod, km, h3, ?_⟩
  have hp := hI.pinv p
  rw [hg] at hp
  obtain ⟨n', rfl, ⟨b, hb⟩, _⟩ := hp
  rw [mem_allCands, mem_cands] at hb
  obtain ⟨s, hs, h1', _, h3'⟩ := hb
  simp only at h1' h3'
  subst h1'
  refine ⟨s, hs, ?_, cur, h3', hle⟩
  rw [ha]; simp only; rw [assign_get, hg]

/-- **Dependency order.**  In the evaluation order of a successful resolution
* no specifier occurs twice and exactly the specifiers of the list and the defaults in use occur;
* for every dependency `dep` of a specifier `n`, the specifier that produces the *final* value of `dep`
  (its modifier if it has one, else its specifier) is evaluated strictly before `n` -- in particular
  the dependency is provided;
* a specifier that modifies properties is evaluated strictly after the specifiers of all of them
  (`modProps`: every property whose entry in `modifying` is this specifier). -/
theorem topo_order {C : ClassInfo} {S : List Spec} {o : Outcome} (h : resolve C S = .ok o) :
    o.order.Nodup ∧ (∀ n, n ∈ o.order ↔ n ∈ o.nodes) ∧
    (∀ n ∈ o.order, ∀ dep ∈ depsOf C S n,
      match get o.modifier dep with
      | some m => m ∈ o.order ∧ pos o.order m < pos o.order n
      | none => ∃ a, get o.assign dep = some a ∧ a ∈ o.order ∧ pos o.order a < pos o.order n) ∧
    (∀ m ∈ o.order, ∀ p ∈ modProps o.modifier m,
      ∃ a, get o.assign p = some a ∧ a ∈ o.order ∧ pos o.order a < pos o.order m) := by
  obtain ⟨pre, hpre, hord, ha, hmo, hno⟩ := resolve_ok h
  have hA := assignPhase_ok hpre
  obtain ⟨hnd, htopo, hmem⟩ := orderPhase_ok (nodes_closed hA) hord
  rw [ha, hmo, hno]
  refine ⟨hnd, hmem, ?_, ?_⟩
  · intro n hn dep hdep
    have hx : (match get pre.modifier dep with | some m => some m | none => get pre.assign dep) ∈ stepsOf C S pre n := by
      simp only [stepsOf, steps, List.mem_append, List.mem_map]
      left; exact ⟨dep, hdep, rfl⟩
    obtain ⟨c, hc, hco, hlt⟩ := htopo n hn _ hx
    cases hg : get pre.modifier dep with
    | some m => rw [hg] at hc; simp only [Option.some.injEq] at hc; subst hc; exact ⟨hco, hlt⟩
    | none => rw [hg] at hc; exact ⟨c, hc, hco, hlt⟩
  · intro m hm p hp
    have hx : get pre.assign p ∈ stepsOf C S pre m := by
      simp only [stepsOf, steps, List.mem_append, List.mem_map]
      right; exact ⟨p, hp, rfl⟩
    obtain ⟨c, hc, hco, hlt⟩ := htopo m hm _ hx
    exact ⟨c, hc, hco, hlt⟩

/-- Each specifier of the list and each default in use is evaluated exactly once (the source asserts
`len(order) == len(specifiers)`). -/
theorem evaluated_once {C : ClassInfo} {S : List Spec} {o : Outcome} (h : resolve C S = .ok o)
    (hC : (C.defaults.map (·.1)).Nodup) : o.order.Perm o.nodes := by
  obtain ⟨hnd, hmem, _, _⟩ := topo_order h
  obtain ⟨pre, hpre, _, _, _, hno⟩ := resolve_ok h
  obtain ⟨hnames, ns, ms, _, _, rfl⟩ := assignPhase_ok hpre
  have hnodes : o.nodes.Nodup := by
    rw [hno]
    simp only
    rw [addDefaults_added, List.nil_append, List.nodup_append]
    refine ⟨?_, ?_, ?_⟩
    · have : (userNodes S) = (S.map (·.name)).map Node.user := by simp [userNodes]
      rw [this]
      exact List.Pairwise.map Node.user (fun a b hab h' => hab (by cases h'; rfl)) hnames
    · have hsub : ((C.defaults.filter (fun e => (get ms.props e.1).isNone)).map (·.1)).Nodup :=
        (List.filter_sublist.map _).nodup hC
      have : (C.defaults.filter (fun e => (get ms.props e.1).isNone)).map (fun e => Node.dflt e.1) =
          ((C.defaults.filter (fun e => (get ms.props e.1).isNone)).map (·.1)).map Node.dflt := by simp
      rw [this]
      exact List.Pairwise.map Node.dflt (fun a b hab h' => hab (by cases h'; rfl)) hsub
    · intro a ha b hb hab
      subst hab
      simp only [userNodes, List.mem_map] at ha hb
      obtain ⟨_, _, h1⟩ := ha
      obtain ⟨_, _, h2⟩ := hb
      rw [← h1] at h2; cases h2
  exact (List.perm_ext_iff_of_nodup hnd hnodes).mpr hmem

theorem resolve_error {C : ClassInfo} {S : List Spec} {e : Err} (h : resolve C S = .error e) :
    assignPhase C S = .error e ∨ ∃ pre, assignPhase C S = .ok pre ∧ orderPhase C S pre = .error e := by
  unfold resolve at h
  split at h
  · rename_i e' he; cases h; left; exact he
  · rename_i pre hp
    split at h
    · rename_i e' he; cases h; right; exact ⟨pre, hp, he⟩
    · cases h

/-- the errors of the assignment phase, by origin -/
theorem assignPhase_error {C : ClassInfo} {S : List Spec} {e : Err} (h : assignPhase C S = .error e) :
    (e = .dupName ∧ ¬ (S.map (·.name)).Nodup) ∨
    ((S.map (·.name)).Nodup ∧ ∃ e', normalPass C.finals (normalOf S) ⟨[], []⟩ = .error e' ∧ e = e') ∨
    ((S.map (·.name)).Nodup ∧ (e = .modifiedTwice ∨ e = .finalProp)) := by
  unfold assignPhase at h
  split at h
  · rename_i hd
    cases h
    left
    refine ⟨rfl, fun hnd => ?_⟩
    rw [← hasDup_eq_false_iff] at hnd
    rw [hnd] at hd; cases hd
  · rename_i hd
    have hnd : (S.map (·.name)).Nodup := (hasDup_eq_false_iff _).mp (by simpa using hd)
    split at h
    · rename_i e' he; cases h; right; left; exact ⟨hnd, _, he, rfl⟩
    · split at h
      · rename_i e' he; cases h; right; right; exact ⟨hnd, modPass_error _ he⟩
      · cases h

/-- **Duplicate names.** A list containing the same specifier (name) twice is refused with the
"cannot modify itself" error, and that error means exactly this. -/
theorem dup_name_reported (C : ClassInfo) (S : List Spec) :
    ¬ (S.map (·.name)).Nodup ↔ resolve C S = .error .dupName := by
  constructor
  · intro h
    have hd : hasDup (S.map (·.name)) = true := by
      cases hh : hasDup (S.map (·.name)) with
      | true => rfl
      | false => exact absurd ((hasDup_eq_false_iff _).mp hh) h
    unfold resolve assignPhase
    rw [if_pos hd]
  · intro h
    rcases resolve_error h with ha | ⟨pre, _, ho⟩
    · rcases assignPhase_error ha with ⟨_, hn⟩ | ⟨_, e', he, rfl⟩ | ⟨_, h3⟩
      · exact hn
      · have := normalPass_error_stage _ (normalOf_normal S) he
        simp [stage] at this
      · rcases h3 with h3 | h3 <;> cases h3
    · have := orderPhase_error_stage ho
      simp [stage] at this

/-- a defect of the normal pass is always reported (possibly as a duplicate name, checked first) -/
theorem stage2_defect (C : ClassInfo) (S : List Spec)
    (hbad : ¬ ((∀ c ∈ cands (normalOf S), c.prop ∉ C.finals) ∧ ((cands (normalOf S)).map pairOf).Nodup)) :
    ∃ e, resolve C S = .error e ∧ (e = .dupName ∨ e = .finalProp ∨ e = .tie) := by
  unfold resolve assignPhase
  by_cases hd : hasDup (S.map (·.name)) = true
  · rw [if_pos hd]; exact ⟨_, rfl, Or.inl rfl⟩
  · rw [if_neg hd]
    cases hn : normalPass C.finals (S.filter (fun s => !s.modifying)) ⟨[], []⟩ with
    | ok ns => exact absurd ((normalPass_ok_iff _ (normalOf_normal S)).mp ⟨ns, hn⟩) hbad
    | error e' =>
      refine ⟨e', rfl, ?_⟩
      rcases normalPass_error _ (normalOf_normal S) (NInvF_nil C.finals) hn with ⟨rfl, _⟩ | ⟨rfl, _⟩
      · right; left; rfl
      · right; right; rfl

/-- **Final properties (non-modifying specifier).** Directly specifying a derived (final) property with a
non-modifying specifier is always an error of the first pass (or a duplicate name, checked before). -/
theorem final_reported_normal (C : ClassInfo) (S : List Spec) (s : Spec) (hs : s ∈ S) (hsm : s.modifying = false)
    (p : String) (k : Nat) (hp : (p, k) ∈ s.prios) (hf : p ∈ C.finals) :
    ∃ e, resolve C S = .error e ∧ (e = .dupName ∨ e = .finalProp ∨ e = .tie) := by
  apply stage2_defect
  rintro ⟨h1, _⟩
  have hc : (⟨s.name, s.modifying, p, k⟩ : Cand) ∈ cands (normalOf S) :=
    mem_cands.mpr ⟨s, List.mem_filter.mpr ⟨hs, by simp [hsm]⟩, rfl, rfl, hp⟩
  exact h1 _ hc hf

/-- **Final properties.** Directly specifying a derived (final) property -- with *any* specifier of the list,
modifying or not (since /repo commit 5766576b the modifying pass makes the check too; the former
`final_reported_partial` needed `s.modifying = false`) -- is always an error, wherever the specifier stands:
resolution stops in the assignment phase, before anything is ordered or evaluated.  The kind reported is that of
the first defect met: duplicate name, final property, tie, or (hand-built lists with several modifying
specifiers only) "modified twice". -/
theorem final_reported (C : ClassInfo) (S : List Spec) (s : Spec) (hs : s ∈ S)
    (p : String) (k : Nat) (hp : (p, k) ∈ s.prios) (hf : p ∈ C.finals) :
    ∃ e, resolve C S = .error e ∧ (e = .dupName ∨ e = .finalProp ∨ e = .tie ∨ e = .modifiedTwice) := by
  cases hsm : s.modifying with
  | false =>
    obtain ⟨e, he, h⟩ := final_reported_normal C S s hs hsm p k hp hf
    exact ⟨e, he, by rcases h with h | h | h <;> simp [h]⟩
  | true =>
    cases ha : assignPhase C S with
    | ok pre =>
      exfalso
      obtain ⟨_, ns, ms, _, hm, _⟩ := assignPhase_ok ha
      exact modPass_ok_nofinal _ hm s (List.mem_filter.mpr ⟨hs, by simp [hsm]⟩) (p, k) hp hf
    | error e =>
      refine ⟨e, by unfold resolve; rw [ha], ?_⟩
      rcases assignPhase_error ha with ⟨h, _⟩ | ⟨_, e', hn, rfl⟩ | ⟨_, h | h⟩
      · simp [h]
      · rcases normalPass_error _ (normalOf_normal S) (NInvF_nil C.finals) hn with ⟨h, _⟩ | ⟨h, _⟩ <;> simp [h]
      · simp [h]
      · simp [h]

/-- non-vacuity of `final_reported` for a modifying specifier: `on` (modifying) would specify the final
`parentOrientation`; the hypotheses hold (that the error is the final-property error itself is
`regression_final_by_modifier` in `C06Perm`). -/
example : ∃ e, resolve ⟨[("position", []), ("parentOrientation", []), ("baseOffset", [])], ["parentOrientation"]⟩
      [⟨"On", [("position", 1), ("parentOrientation", 2)], ["baseOffset"], true, ["position"]⟩] = .error e ∧
      (e = .dupName ∨ e = .finalProp ∨ e = .tie ∨ e = .modifiedTwice) :=
  final_reported _ _ ⟨"On", [("position", 1), ("parentOrientation", 2)], ["baseOffset"], true, ["position"]⟩
    (by simp) "parentOrientation" 2 (by simp) (by simp)

/-- **Ties.** Two different non-modifying specifiers giving a property the same priority are always an
error, wherever they stand in the list. -/
theorem tie_reported (C : ClassInfo) (S : List Spec) (s t : Spec) (hs : s ∈ S) (ht : t ∈ S)
    (hsm : s.modifying = false) (htm : t.modifying = false) (hne : s.name ≠ t.name)
    (p : String) (k : Nat) (hps : (p, k) ∈ s.prios) (hpt : (p, k) ∈ t.prios) :
    ∃ e, resolve C S = .error e ∧ (e = .dupName ∨ e = .finalProp ∨ e = .tie) := by
  apply stage2_defect
  rintro ⟨_, h2⟩
  have hc1 : (⟨s.name, s.modifying, p, k⟩ : Cand) ∈ cands (normalOf S) :=
    mem_cands.mpr ⟨s, List.mem_filter.mpr ⟨hs, by simp [hsm]⟩, rfl, rfl, hps⟩
  have hc2 : (⟨t.name, t.modifying, p, k⟩ : Cand) ∈ cands (normalOf S) :=
    mem_cands.mpr ⟨t, List.mem_filter.mpr ⟨ht, by simp [htm]⟩, rfl, rfl, hpt⟩
  have := nodup_map_inj h2 hc1 hc2 rfl
  simp only [Cand.mk.injEq] at this
  exact hne this.1

/-- **Missing dependencies.** If a specifier of the list depends on a property that no specifier of the
list specifies and for which the class has no default, resolution fails. -/
theorem missing_dep_reported (C : ClassInfo) (S : List Spec) (s : Spec) (hs : s ∈ S)
    (dep : String) (hdep : dep ∈ s.deps)
    (hnone : ∀ t ∈ S, ∀ k, (dep, k) ∉ t.prios) (hnodef : ∀ e ∈ C.defaults, e.1 ≠ dep) :
    ∃ e, resolve C S = .error e := by
  cases h : resolve C S with
  | error e => exact ⟨e, rfl⟩
  | ok o =>
    exfalso
    obtain ⟨pre, hpre, _, _, _, hno⟩ := resolve_ok h
    have hA := assignPhase_ok hpre
    obtain ⟨_, hmem, hdeps, _⟩ := topo_order h
    have hn : Node.user s.name ∈ o.order := by
      rw [hmem, hno]
      obtain ⟨_, ns, ms, _, _, rfl⟩ := hA
      exact List.mem_append_left _ (user_mem_userNodes hs)
    have := hdeps _ hn dep (by rw [depsOf_user C hA.names hs]; exact hdep)
    have hspec := resolve_spec h dep
    cases hg : get o.modifier dep with
    | some m =>
      obtain ⟨_, _, _, _, _, _, _, t, ht, _, k, hk, _⟩ := resolve_modifier h dep m hg
      exact hnone t ht k hk
    | none =>
      rw [hg] at this
      obtain ⟨a, ha, _⟩ := this
      rw [ha] at hspec
      cases a with
      | user n =>
        obtain ⟨t, ht, _, k, hk, _⟩ := hspec
        exact hnone t ht k hk
      | dflt q =>
        obtain ⟨_, ⟨e, he, hep⟩, _⟩ := hspec
        exact hnodef e he hep

/-- one specifier needs a value produced by another one (directly or through a chain) -/
inductive Reaches (stp : Node → List (Option Node)) : Node → Node → Prop
  | step {n c : Node} : some c ∈ stp n → Reaches stp n c
  | trans {a b c : Node} : Reaches stp a b → Reaches stp b c → Reaches stp a c

/-- **Cyclic dependencies.** If, for the assignment computed from the list, some specifier transitively
needs its own result, resolution fails (with one of the two errors of the topological sort). -/
theorem cycle_reported (C : ClassInfo) (S : List Spec) (pre : Pre) (hpre : assignPhase C S = .ok pre)
    (n : Node) (hn : n ∈ pre.nodes) (hcyc : Reaches (stepsOf C S pre) n n) :
    ∃ e, resolve C S = .error e ∧ (e = .cycle ∨ e = .missingDep) := by
  have hA := assignPhase_ok hpre
  have hc := nodes_closed hA
  cases ho : orderPhase C S pre with
  | ok order =>
    exfalso
    obtain ⟨_, htopo, hmem⟩ := orderPhase_ok hc ho
    have key : ∀ a b, Reaches (stepsOf C S pre) a b → a ∈ order → b ∈ order ∧ pos order b < pos order a := by
      intro a b hr
      induction hr with
      | step hx =>
        intro ha
        obtain ⟨c, hc', hco, hlt⟩ := htopo _ ha _ hx
        cases hc'; exact ⟨hco, hlt⟩
      | trans _ _ ih1 ih2 =>
        intro ha
        obtain ⟨hb, l1⟩ := ih1 ha
        obtain ⟨hc', l2⟩ := ih2 hb
        exact ⟨hc', by omega⟩
    have := (key n n hcyc ((hmem n).mpr hn)).2
    omega
  | error e =>
    refine ⟨e, by unfold resolve; rw [hpre]; simp only; rw [ho], ?_⟩
    unfold orderPhase at ho
    split at ho
    · rename_i e' hv
      cases ho
      rcases visitAll_error_kinds _ _ _ _ _ hv with rfl | rfl | rfl
      · left; rfl
      · right; rfl
      · exfalso
        refine visitAll_no_fuel _ pre.nodes (fun n _ => hc n) _ _ _ ?_ ?_ hv
        · intro x hx c hxc; subst hxc; simpa using hx
        · omega
    · cases ho

/-- The fuel of the model's depth-first search is never exhausted: `Err.fuel` is not an outcome. -/
theorem resolve_never_fuel (C : ClassInfo) (S : List Spec) : resolve C S ≠ .error .fuel := by
  intro h
  rcases resolve_error h with ha | ⟨pre, hpre, ho⟩
  · rcases assignPhase_error ha with ⟨h1, _⟩ | ⟨_, e', he, rfl⟩ | ⟨_, h3⟩
    · cases h1
    · have := normalPass_error_stage _ (normalOf_normal S) he
      simp [stage] at this
    · rcases h3 with h3 | h3 <;> cases h3
  · have hc := nodes_closed (assignPhase_ok hpre)
    unfold orderPhase at ho
    split at ho
    · rename_i e' hv
      cases ho
      refine visitAll_no_fuel _ pre.nodes (fun n _ => hc n) _ _ _ ?_ ?_ hv
      · intro x hx c hxc; subst hxc; simpa using hx
      · omega
    · cases ho

/-- **The error kinds mean what they say.**
* `finalProp`: some specifier of the list (modifying or not) names a final property;
* `tie`: two non-modifying specifiers (or one whose priorities repeat a pair -- impossible for a
  Python dictionary) give some property the same priority;
* `modifiedTwice`: there is a modifying specifier in the list;
* `missingDep`: some evaluated specifier requires a property that is neither specified nor defaulted. -/
theorem error_kinds_sound (C : ClassInfo) (S : List Spec) :
    (resolve C S = .error .finalProp → ∃ s ∈ S, ∃ pk ∈ s.prios, pk.1 ∈ C.finals) ∧
    (resolve C S = .error .tie → ∃ s ∈ S, ∃ t ∈ S, s.modifying = false ∧ t.modifying = false ∧
        ∃ pk, pk ∈ s.prios ∧ pk ∈ t.prios ∧ (s.name ≠ t.name ∨ ¬ s.prios.Nodup)) ∧
    (resolve C S = .error .modifiedTwice → ∃ M ∈ S, M.modifying = true) ∧
    (resolve C S = .error .missingDep → ∃ pre, assignPhase C S = .ok pre ∧ ∃ n ∈ pre.nodes,
        ∃ dep ∈ depsOf C S n, get pre.modifier dep = none ∧ get pre.assign dep = none) := by
  refine ⟨?_, ?_, ?_, ?_⟩
  · intro h
    rcases resolve_error h with ha | ⟨pre, _, ho⟩
    · rcases assignPhase_error ha with ⟨h1, _⟩ | ⟨_, e', he, rfl⟩ | ⟨_, h3⟩
      · cases h1
      · rcases normalPass_error _ (normalOf_normal S) (NInvF_nil C.finals) he with ⟨_, c, hc, hf⟩ | ⟨h1, _⟩
        · obtain ⟨s, hs, _, _, hpk⟩ := mem_cands.mp hc
          obtain ⟨hs1, hs2⟩ := List.mem_filter.mp hs
          exact ⟨s, hs1, _, hpk, hf⟩
        · cases h1
      · unfold assignPhase at ha
        split at ha
        · cases ha
        · split at ha
          · rename_i e' he
            cases ha
            rcases normalPass_error _ (normalOf_normal S) (NInvF_nil C.finals) he with ⟨_, c, hc, hf⟩ | ⟨h1, _⟩
            · obtain ⟨s, hs, _, _, hpk⟩ := mem_cands.mp hc
              exact ⟨s, (List.mem_filter.mp hs).1, _, hpk, hf⟩
            · cases h1
          · split at ha
            · rename_i e' hm
              cases ha
              obtain ⟨s, hs, pk, hpk, hf⟩ := modPass_finalProp_sound _ hm
              exact ⟨s, (List.mem_filter.mp hs).1, pk, hpk, hf⟩
            · cases ha
    · have := orderPhase_error_stage ho; simp [stage] at this
  · intro h
    rcases resolve_error h with ha | ⟨pre, _, ho⟩
    · rcases assignPhase_error ha with ⟨h1, _⟩ | ⟨hnames, e', he, rfl⟩ | ⟨_, h3⟩
      · cases h1
      · rcases normalPass_error _ (normalOf_normal S) (NInvF_nil C.finals) he with ⟨h1, _⟩ | ⟨_, hnd⟩
        · cases h1
        · simp only [List.nil_append] at hnd
          apply Classical.byContradiction
          intro hcon
          apply hnd
          have hnn : ((normalOf S).map (·.name)).Nodup := (List.filter_sublist.map _).nodup hnames
          apply nodup_pairs_of _ hnn
          · intro s hs
            apply Classical.byContradiction
            intro hnd'
            obtain ⟨hs1, hs2⟩ := List.mem_filter.mp hs
            have hne : s.prios ≠ [] := by intro h0; rw [h0] at hnd'; exact hnd' List.nodup_nil
            obtain ⟨pk, hpk⟩ := List.exists_mem_of_ne_nil _ hne
            exact hcon ⟨s, hs1, s, hs1, by simpa using hs2, by simpa using hs2, pk, hpk, hpk, Or.inr hnd'⟩
          · intro s hs t ht hne pk hpk hpk'
            obtain ⟨hs1, hs2⟩ := List.mem_filter.mp hs
            obtain ⟨ht1, ht2⟩ := List.mem_filter.mp ht
            exact hcon ⟨s, hs1, t, ht1, by simpa using hs2, by simpa using ht2, pk, hpk, hpk', Or.inl hne⟩
      · rcases h3 with h3 | h3 <;> cases h3
    · have := orderPhase_error_stage ho; simp [stage] at this
  · intro h
    rcases resolve_error h with ha | ⟨pre, _, ho⟩
    · unfold assignPhase at ha
      split at ha
      · cases ha
      · split at ha
        · rename_i e' he
          cases ha
          have := normalPass_error_stage _ (normalOf_normal S) he
          simp [stage] at this
        · rename_i ns hn
          split at ha
          · rename_i e' hm
            cases hmods : S.filter (fun s => s.modifying) with
            | nil => rw [hmods] at hm; simp [modPass] at hm
            | cons M rest =>
              have : M ∈ S.filter (fun s => s.modifying) := by rw [hmods]; simp
              obtain ⟨h1, h2⟩ := List.mem_filter.mp this
              exact ⟨M, h1, h2⟩
          · cases ha
    · have := orderPhase_error_stage ho; simp [stage] at this
  · intro h
    rcases resolve_error h with ha | ⟨pre, hpre, ho⟩
    · rcases assignPhase_error ha with ⟨h1, _⟩ | ⟨_, e', he, rfl⟩ | ⟨_, h3⟩
      · cases h1
      · have := normalPass_error_stage _ (normalOf_normal S) he
        simp [stage] at this
      · rcases h3 with h3 | h3 <;> cases h3
    · refine ⟨pre, hpre, ?_⟩
      have hA := assignPhase_ok hpre
      have hc := nodes_closed hA
      unfold orderPhase at ho
      split at ho
      · rename_i e' hv
        cases ho
        have := visitAll_missing_sound (stepsOf C S pre) (· ∈ pre.nodes) (fun n _ => hc n) _ _ _
          (by intro x hx c hxc; subst hxc; simpa using hx) hv
        rcases this with h0 | ⟨n, hn, hnone⟩
        · simp at h0
        · simp only [stepsOf, steps, List.mem_append, List.mem_map] at hnone
          rcases hnone with ⟨dep, hdep, hd⟩ | hmi
          · refine ⟨n, hn, dep, hdep, ?_⟩
            cases hg : get pre.modifier dep with
            | some m => rw [hg] at hd; cases hd
            | none => rw [hg] at hd; exact ⟨rfl, hd⟩
          · exfalso
            obtain ⟨p, hp, hmi⟩ := hmi
            have hmem := modProps_mem hp
            obtain ⟨_, ns, ms, hn', hm', rfl⟩ := hA
            have hI := passes_inv hn' hm'
            have hk := modPass_keys_nodup _ (st := ⟨ns.props, []⟩) (by simp) hm'
            have hget := get_of_mem_nodup hk hmem
            obtain ⟨_, _, _, _, _, node, cur, hg, _⟩ := hI.mods p n hget
            simp only at hmi
            rw [assign_get, hg] at hmi
            cases hmi
      · cases ho


/-! concrete, non-trivial instances of the hypotheses (`resolve` succeeds / fails on them) -/
section examples
def exOn : Spec := ⟨"On", [("position", 1), ("parentOrientation", 2)], ["baseOffset", "contactTolerance", "onDirection"], true, ["position"]⟩
def exAhead : Spec := ⟨"Ahead of", [("position", 1), ("parentOrientation", 3)], ["contactTolerance", "length"], false, []⟩
def exWith : Spec := ⟨"With(length)", [("length", 1)], [], false, []⟩
def exFacing : Spec := ⟨"Facing", [("yaw", 1), ("pitch", 1), ("roll", 1)], ["parentOrientation"], false, []⟩
def exC : ClassInfo := ⟨[("position", []), ("length", ["shape"]), ("shape", []), ("baseOffset", ["height"]), ("height", ["shape"]),
  ("contactTolerance", []), ("onDirection", []), ("parentOrientation", []), ("yaw", []), ("pitch", []), ("roll", []),
  ("orientation", ["parentOrientation", "pitch", "roll", "yaw"]), ("heading", ["orientation"])], ["heading", "orientation"]⟩

def okOf : Except Err Outcome → Option Outcome
  | .ok o => some o
  | .error _ => none

/-- `new Object ahead of taxi, on road, with length 4, facing 1`: `on` modifies the position given by
`ahead of` and wins `parentOrientation` (priority 2 against 3); evaluation order respects all of it. -/
def exCheck (o : Outcome) : Bool :=
  Spec.get o.assign "position" == some (.user "Ahead of") && Spec.get o.modifier "position" == some (.user "On") &&
  Spec.get o.assign "parentOrientation" == some (.user "On") && Spec.get o.assign "length" == some (.user "With(length)") &&
  Spec.get o.assign "shape" == some (.dflt "shape") &&
  decide (pos o.order (.user "Ahead of") < pos o.order (.user "On")) &&
  decide (pos o.order (.user "With(length)") < pos o.order (.user "Ahead of")) &&
  decide (pos o.order (.user "On") < pos o.order (.user "Facing"))

example : (okOf (resolve exC [exAhead, exOn, exWith, exFacing])).map exCheck = some true := by decide
example : (okOf (resolve exC [exFacing, exWith, exOn, exAhead])).map exCheck = some true := by decide
example : (okOf (resolve exC [exAhead, exOn, exWith, exFacing, ⟨"With(heading)", [("heading", 1)], [], false, []⟩])).isNone = true := by
  decide
end examples

end Scenic.C06
