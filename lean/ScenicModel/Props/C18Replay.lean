import ScenicModel.Model.Replay
import ScenicModel.Gen.Divergence
import Mathlib.Tactic.Linarith
import Mathlib.Tactic.NormNum
import Mathlib.Algebra.Order.Field.Rat

/-! C18 (part 3): divergence detection is symmetric. -/
namespace Scenic.C18
open Scenic.Replay Scenic.Gen

/-- With the absolute value in place, a scalar is reported divergent exactly when it differs
    from the recording by more than the tolerance, in either direction. -/
theorem scalar_divergence_symmetric (tol e a : Rat) (htol : 0 ≤ tol) :
    scalarDiverged true tol e a = true ↔ (a - e > tol ∨ e - a > tol) := by
  unfold scalarDiverged
  simp only [if_true]
  by_cases hneg : a - e < 0
  · have hne : -(a - e) ≠ 0 := by intro h; linarith
    simp only [hneg, if_true, ne_eq, hne, not_false_eq_true, decide_eq_true_eq]
    constructor
    · intro h; right; linarith
    · rintro (h | h) <;> linarith
  · simp only [hneg, if_false]
    by_cases hz : a - e = 0
    · have hae : a = e := by linarith
      subst hae
      simp only [sub_self, ne_eq, not_true_eq_false, if_false, decide_false, gt_iff_lt]
      constructor
      · intro h; exact absurd h (by simp)
      · rintro (h | h) <;> linarith
    · simp only [ne_eq, hz, not_false_eq_true, if_true, decide_eq_true_eq]
      constructor
      · intro h; left; exact h
      · rintro (h | h)
        · exact h
        · exfalso; have := not_lt.mp hneg; linarith

/-- side condition on generated data: the code uses the absolute difference -/
theorem gen_divergence_abs : divergenceUsesAbs = true := by decide

/-- Negation witness for the code before the repair (signed difference): a value below the
    recording by more than the tolerance was not reported. -/
theorem signed_difference_misses_negative :
    scalarDiverged false (1/2) 10 3 = false := by
  unfold scalarDiverged; norm_num

example : scalarDiverged true (1/2) 10 3 = true ∧ scalarDiverged true (1/2) 3 10 = true
    ∧ scalarDiverged true (1/2) 3 (13/4) = false := by
  unfold scalarDiverged; norm_num

end Scenic.C18
