import ScenicModel.Model.Replay
import ScenicModel.Gen.Divergence
import Mathlib.Tactic.Linarith
import Mathlib.Tactic.NormNum
import Mathlib.Tactic.Ring
import Mathlib.Algebra.Order.Field.Rat

/-! C18 (part 3): divergence detection is symmetric. -/
namespace Scenic.C18
open Scenic.Replay Scenic.Gen

/-- With the absolute value in place, a scalar is reported divergent exactly when it differs
    from the recording by more than the tolerance, in either direction. -/
theorem scalar_divergence_symmetric (tol e a : Rat) (htol : 0 ≤ tol) :
    scalarDiverged true tol e a = true ↔ (a - e > tol ∨ e - a > tol) := by
  unfold scalarDiverged
  simp only [if_true]
  by_cases hneg : a - e < 0
  · have hne : -(a - e) ≠ 0 := by intro h; linarith
    simp only [hneg, if_true, ne_eq, hne, not_false_eq_true, decide_eq_true_eq]
    constructor
    · intro h; right; linarith
    · rintro (h | h) <;> linarith
  · simp only [hneg, if_false]
    by_cases hz : a - e = 0
    · have hae : a = e := by linarith
      subst hae
      simp only [sub_self, ne_eq, not_true_eq_false, if_false, decide_false, gt_iff_lt]
      constructor
      · intro h; exact absurd h (by simp)
      · rintro (h | h) <;> linarith
    · simp only [ne_eq, hz, not_false_eq_true, if_true, decide_eq_true_eq]
      constructor
      · intro h; left; exact h
      · rintro (h | h)
        · exact h
        · exfalso; have := not_lt.mp hneg; linarith

/-- side condition on generated data: the code uses the absolute difference -/
theorem gen_divergence_abs : divergenceUsesAbs = true := by decide

/-- Negation witness for the code before the repair (signed difference): a value below the
    recording by more than the tolerance was not reported. -/
theorem signed_difference_misses_negative :
    scalarDiverged false (1/2) 10 3 = false := by
  unfold scalarDiverged; norm_num

example : scalarDiverged true (1/2) 10 3 = true ∧ scalarDiverged true (1/2) 3 10 = true
    ∧ scalarDiverged true (1/2) 3 (13/4) = false := by
  unfold scalarDiverged; norm_num


/-! ### vector branch -/

theorem foldl_sq (v : List Rat) (a : Rat) :
    v.foldl (fun acc x => acc + x * x) a = a + normSq v := by
  induction v generalizing a with
  | nil => simp [normSq]
  | cons x v ih =>
    simp only [List.foldl_cons, normSq]
    rw [ih, ih (0 + x * x)]
    ring

theorem normSq_cons (x : Rat) (v : List Rat) : normSq (x :: v) = x * x + normSq v := by
  simp only [normSq, List.foldl_cons]
  rw [foldl_sq]
  simp [normSq]

theorem normSq_nonneg (v : List Rat) : 0 ≤ normSq v := by
  induction v with
  | nil => simp [normSq]
  | cons x v ih => rw [normSq_cons]; have := mul_self_nonneg x; linarith

/-- the squared distance is zero only between equal vectors -/
theorem normSq_sub_eq_zero (a e : List Rat) (hlen : a.length = e.length)
    (h : normSq (List.zipWith (· - ·) a e) = 0) : a = e := by
  induction a generalizing e with
  | nil => cases e with
    | nil => rfl
    | cons y e => simp at hlen
  | cons x a ih => cases e with
    | nil => simp at hlen
    | cons y e =>
      simp only [List.zipWith_cons_cons, normSq_cons] at h
      have h1 := mul_self_nonneg (x - y)
      have h2 := normSq_nonneg (List.zipWith (· - ·) a e)
      have hx : (x - y) * (x - y) = 0 := by linarith
      have hr : normSq (List.zipWith (· - ·) a e) = 0 := by linarith
      have hxy : x = y := by
        have := mul_self_eq_zero.mp hx
        linarith
      rw [hxy, ih e (by simpa using hlen) hr]

/-- **Vector divergence.** A vector-valued dynamic property is reported divergent exactly when its
    (squared) distance from the recording exceeds the (squared) tolerance. -/
theorem vector_divergence_iff (tol : Rat) (e a : List Rat) (hlen : a.length = e.length) :
    vectorDiverged tol e a = true ↔ normSq (List.zipWith (· - ·) a e) > tol * tol := by
  unfold vectorDiverged
  simp only
  by_cases hz : normSq (List.zipWith (· - ·) a e) = 0
  · have hae := normSq_sub_eq_zero a e hlen hz
    have := mul_self_nonneg tol
    simp only [hz, ne_eq, not_true_eq_false, if_false]
    simp only [hae, not_true_eq_false, decide_false, gt_iff_lt]
    constructor
    · intro h; exact absurd h (by simp)
    · intro h; linarith
  · simp only [ne_eq, hz, not_false_eq_true, if_true, decide_eq_true_eq]

theorem normSq_sub_comm (a e : List Rat) :
    normSq (List.zipWith (· - ·) a e) = normSq (List.zipWith (· - ·) e a) := by
  induction a generalizing e with
  | nil => cases e <;> simp [normSq]
  | cons x a ih => cases e with
    | nil => simp [normSq]
    | cons y e =>
      simp only [List.zipWith_cons_cons, normSq_cons, ih e]
      ring

/-- … in either direction: swapping recording and actual value gives the same verdict -/
theorem vector_divergence_symmetric (tol : Rat) (e a : List Rat) :
    vectorDiverged tol e a = vectorDiverged tol a e := by
  unfold vectorDiverged
  simp only [normSq_sub_comm a e]
  have : decide (a ≠ e) = decide (e ≠ a) := by
    by_cases h : a = e
    · subst h; rfl
    · have h' : e ≠ a := fun h' => h h'.symm
      simp [h, h']
  rw [this]

example : vectorDiverged (1/2) [0, 0, 0] [3/5, 0, 0] = true
    ∧ vectorDiverged (1/2) [0, 0, 0] [-3/5, 0, 0] = true
    ∧ vectorDiverged (1/2) [0, 0, 0] [3/10, -3/10, 0] = false
    ∧ vectorDiverged 0 [1, 2, 3] [1, 2, 3] = false := by
  unfold vectorDiverged normSq; norm_num

end Scenic.C18
