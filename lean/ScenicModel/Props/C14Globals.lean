import ScenicModel.Model.Veneer

/-!
# C14 (part 5): the interpreter's global state is rolled back, however a session ends

`session_restores`: for well-formed tables (`wf`, decided on the generated data) without suspended
context managers, *every* sequence of operations – cut off at any point by an exception, a rejection or a
guard violation – followed by Python's unwinding of the open `with` blocks and by the closer
(`endSimulation`, resp. the `activity == 0` branch of `deactivate`) ends in exactly the initial global state,
i.e. the state of a fresh process.
-/
namespace Scenic.C14
open Scenic.Veneer

theorem set_other (g : GState) (n m : String) (v : GVal) (h : m ≠ n) : (g.set n v) m = g m := by
  simp [GState.set, h]

theorem set_same (g : GState) (n : String) (v : GVal) : (g.set n v) n = v := by
  simp [GState.set]

theorem writeAll_other (allowed : List String) (n : String) (hn : allowed.contains n = false) :
    ∀ (vals : List (String × GVal)) (g : GState), writeAll allowed vals g n = g n := by
  intro vals
  induction vals with
  | nil => intro g; rfl
  | cons e rest ih =>
    intro g
    simp only [writeAll, List.foldl_cons] at ih ⊢
    rw [ih]
    split
    · rename_i h
      have : n ≠ e.1 := by intro hc; rw [hc] at hn; rw [hn] at h; exact absurd h (by simp)
      exact set_other _ _ _ _ this
    · rfl

theorem exitFrame_congr (g g' : GState) (fr : Frame) (n : String) (h : g n = g' n) :
    exitFrame g fr n = exitFrame g' fr n := by
  unfold exitFrame
  split
  · rfl
  · exact h

theorem unwindG_congr (n : String) : ∀ (stack : List Frame) (g g' : GState), g n = g' n →
    unwindG stack g n = unwindG stack g' n := by
  intro stack
  induction stack with
  | nil => intro g g' h; exact h
  | cons fr rest ih =>
    intro g g' h
    simp only [unwindG]
    exact ih _ _ (exitFrame_congr g g' fr n h)

theorem unwindG_indep (n : String) (i : GVal) : ∀ (stack : List Frame) (g g' : GState),
    unwindG stack g n = i → (g' n = i ∨ g' n = g n) → unwindG stack g' n = i := by
  intro stack
  induction stack with
  | nil =>
    intro g g' h hg
    simp only [unwindG] at h ⊢
    rcases hg with hg | hg
    · exact hg
    · rw [hg]; exact h
  | cons fr rest ih =>
    intro g g' h hg
    simp only [unwindG] at h ⊢
    apply ih _ _ h
    unfold exitFrame
    cases hv : fr.val n with
    | some v => right; rfl
    | none => exact hg

/-- the invariant: were all open blocks left now, every global the closer does not reset would have its
    initial value -/
def GInv (T : Tables) (gs : GS) : Prop :=
  ∀ n, isReset T n = false → unwindG gs.stack gs.g n = T.init n

theorem mem_all {α} {l : List α} {p : α → Bool} (h : l.all p = true) {a : α} (ha : a ∈ l) : p a = true :=
  List.all_eq_true.mp h a ha

theorem findCm_mem (T : Tables) (cm : String) (c : CmSpec) (h : findCm T cm = some c) : c ∈ T.cms := by
  unfold findCm at h
  exact List.mem_of_find?_eq_some h

theorem plainWrites_reset (T : Tables) (hw : wfWrites T = true) (f n : String)
    (hn : isReset T n = false) : (plainWrites T f).contains n = false := by
  unfold plainWrites
  cases hf : T.plains.find? (fun e => e.1 == f) with
  | none => simp
  | some e =>
    simp only
    have he : e ∈ T.plains := List.mem_of_find?_eq_some hf
    simp only [wfWrites, Bool.and_eq_true] at hw
    have h1 := mem_all hw.2 he
    cases hc : e.2.contains n with
    | false => rfl
    | true =>
      have : n ∈ e.2 := by simpa using hc
      have := mem_all h1 this
      rw [hn] at this; exact absurd this (by simp)

theorem openWrites_reset (T : Tables) (hw : wfWrites T = true) (n : String)
    (hn : isReset T n = false) : T.openWrites.contains n = false := by
  simp only [wfWrites, Bool.and_eq_true] at hw
  cases hc : T.openWrites.contains n with
  | false => rfl
  | true =>
    have : n ∈ T.openWrites := by simpa using hc
    have := mem_all hw.1 this
    rw [hn] at this; exact absurd this (by simp)

theorem mkFrame_val (c : CmSpec) (g : GState) (n : String) :
    (mkFrame c g).val n =
      ((c.restores.reverse.find? (fun e => e.1 == n)).map
        (fun e => match e.2 with | .saved => g e.1 | .const v => v)) := by
  unfold Frame.val mkFrame
  simp only [← List.map_reverse]
  induction c.restores.reverse with
  | nil => rfl
  | cons e rest ih =>
    simp only [List.map_cons, List.find?_cons]
    split
    · rfl
    · exact ih

/-- entering a block and assigning what the block may assign keeps the invariant -/
theorem enter_inv (T : Tables) (hwf : wf T = true) (c : CmSpec) (hc : c ∈ T.cms)
    (vals : List (String × GVal)) (g : GState) (stack : List Frame) (n : String)
    (hn : isReset T n = false) (h : unwindG stack g n = T.init n) :
    unwindG (mkFrame c g :: stack) (writeAll c.writes vals g) n = T.init n := by
  simp only [wf, Bool.and_eq_true] at hwf
  have hcm := mem_all hwf.2 hc
  simp only [Bool.and_eq_true] at hcm
  simp only [unwindG]
  apply unwindG_indep n _ stack g _ h
  simp only [exitFrame]
  rw [mkFrame_val]
  cases hf : c.restores.reverse.find? (fun e => e.1 == n) with
  | some e =>
    simp only [Option.map_some]
    have hen : e.1 = n := by simpa using List.find?_some hf
    have hem : e ∈ c.restores := List.mem_reverse.mp (List.mem_of_find?_eq_some hf)
    have hr := mem_all hcm.2 hem
    cases he : e.2 with
    | saved => right; simp [hen]
    | const v =>
      simp only [he, hen, hn, Bool.false_or, beq_iff_eq] at hr
      left; exact hr
  | none =>
    simp only [Option.map_none]
    have hnw : c.writes.contains n = false := by
      cases hcw : c.writes.contains n with
      | false => rfl
      | true =>
        have hm : n ∈ c.writes := by simpa using hcw
        have := mem_all hcm.1 hm
        simp only [hn, Bool.false_or, cmRestores, List.any_eq_true] at this
        obtain ⟨x, hx, hxe⟩ := this
        have hnone := List.find?_eq_none.mp hf x (List.mem_reverse.mpr hx)
        exact absurd hxe hnone
    right; exact writeAll_other _ _ hnw _ _

theorem applyOp_inv (T : Tables) (hwf : wf T = true) (hs : T.suspended = []) (gs : GS) (op : Op)
    (h : GInv T gs) (hd : gs.deferred = []) :
    GInv T (applyOp T gs op) ∧ (applyOp T gs op).deferred = [] := by
  have hww : wfWrites T = true := by simp only [wf, Bool.and_eq_true] at hwf; exact hwf.1.2
  cases op with
  | opener vals =>
    refine ⟨?_, hd⟩
    intro n hn
    simp only [applyOp]
    rw [unwindG_congr n gs.stack _ gs.g (writeAll_other _ _ (openWrites_reset T hww n hn) _ _)]
    exact h n hn
  | plain f vals =>
    refine ⟨?_, hd⟩
    intro n hn
    simp only [applyOp]
    rw [unwindG_congr n gs.stack _ gs.g (writeAll_other _ _ (plainWrites_reset T hww f n hn) _ _)]
    exact h n hn
  | enter cm vals =>
    simp only [applyOp]
    cases hf : findCm T cm with
    | none => exact ⟨h, hd⟩
    | some c =>
      refine ⟨?_, hd⟩
      intro n hn
      exact enter_inv T hwf c (findCm_mem T cm c hf) vals gs.g gs.stack n hn (h n hn)
  | exit =>
    simp only [applyOp]
    cases hst : gs.stack with
    | nil => simp only; exact ⟨h, hd⟩
    | cons fr rest =>
      refine ⟨?_, hd⟩
      intro n hn
      have := h n hn
      rw [hst] at this
      exact this
  | enterDeferred cm vals =>
    simp only [applyOp]
    cases hf : findCm T cm with
    | none => exact ⟨h, hd⟩
    | some c =>
      simp only [hs, List.contains_nil]
      refine ⟨?_, hd⟩
      intro n hn
      exact enter_inv T hwf c (findCm_mem T cm c hf) vals gs.g gs.stack n hn (h n hn)
  | exitDeferred k =>
    simp only [applyOp, hd]
    exact ⟨by simpa using h, by simp [hd]⟩

theorem run_inv (T : Tables) (hwf : wf T = true) (hs : T.suspended = []) : ∀ (ops : List Op) (gs : GS),
    GInv T gs → gs.deferred = [] →
    GInv T (ops.foldl (applyOp T) gs) ∧ (ops.foldl (applyOp T) gs).deferred = [] := by
  intro ops
  induction ops with
  | nil => intro gs h hd; exact ⟨h, hd⟩
  | cons op rest ih =>
    intro gs h hd
    have := applyOp_inv T hwf hs gs op h hd
    exact ih _ this.1 this.2

theorem resets_apply (i : GState) (n : String) : ∀ (l : List (String × GVal)) (g : GState),
    (∀ e ∈ l, e.2 = i e.1) →
    (l.foldl (fun g e => g.set e.1 e.2) g) n = if l.any (fun e => e.1 == n) then i n else g n := by
  intro l
  induction l with
  | nil => intro g _; rfl
  | cons e rest ih =>
    intro g h
    simp only [List.foldl_cons, List.any_cons]
    rw [ih _ (fun x hx => h x (List.mem_cons_of_mem _ hx))]
    by_cases hr : rest.any (fun e => e.1 == n) = true
    · simp [hr]
    · simp only [hr, Bool.or_false]
      by_cases he : (e.1 == n) = true
      · have : e.1 = n := by simpa using he
        simp only [he, if_true, Bool.false_eq_true, if_false]
        rw [← this, set_same]; exact h e (List.mem_cons_self ..)
      · simp only [he, Bool.false_eq_true, if_false]
        apply set_other
        intro hc; apply he; simp [hc]

theorem closeG_apply (T : Tables) (hwf : wfClose T = true) (g : GState) (n : String) :
    closeG T g n = if isReset T n then T.init n else g n := by
  unfold closeG isReset
  apply resets_apply
  intro e he
  have := mem_all hwf he
  simpa using this

/-- **the global state after a session is that of a fresh process**, however the session ended. -/
theorem session_restores (T : Tables) (hwf : wf T = true) (hs : T.suspended = [])
    (ops : List Op) (late : List Nat) (n : String) : session T ops late n = T.init n := by
  have h0 : GInv T (initGS T) := by intro m _; rfl
  have h1 := run_inv T hwf hs ops (initGS T) h0 rfl
  have hclose : wfClose T = true := by simp only [wf, Bool.and_eq_true] at hwf; exact hwf.1.1
  unfold session
  have hlate : ∀ (late : List Nat) (gs : GS), gs.deferred = [] →
      (late.foldl (fun gs k => applyOp T gs (.exitDeferred k)) gs).g = gs.g := by
    intro late
    induction late with
    | nil => intro gs _; rfl
    | cons k rest ih =>
      intro gs hd
      simp only [List.foldl_cons]
      have : applyOp T gs (.exitDeferred k) = gs := by simp [applyOp, hd]
      rw [this]; exact ih gs hd
  rw [hlate late _ (by exact h1.2)]
  show closeG T _ n = _
  rw [closeG_apply T hclose]
  by_cases hr : isReset T n = true
  · simp [hr]
  · simp only [Bool.not_eq_true] at hr
    simp only [hr, Bool.false_eq_true, if_false]
    exact h1.1 n hr

/-! ### satisfiability and negation witnesses -/

/-- a miniature of the real tables with everything in order -/
def miniGood : Tables :=
  { initial := [("currentSimulation", .none), ("currentBehavior", .none), ("inInitialScenario", .true_),
                ("evaluatingGuard", .false_)]
    openWrites := ["currentSimulation", "inInitialScenario"]
    closeResets := [("currentSimulation", .none), ("currentBehavior", .none), ("inInitialScenario", .true_)]
    plains := [("finishScenarioSetup", ["inInitialScenario"])]
    cms := [{ name := "executeInBehavior", writes := ["currentBehavior"], restores := [("currentBehavior", .saved)] },
            { name := "executeInGuard", writes := ["evaluatingGuard"], restores := [("evaluatingGuard", .const .false_)] }]
    suspended := [] }

example : wf miniGood = true ∧ miniGood.suspended = [] := by decide

/-- **D3** as found, `inInitialScenario` is assigned by `beginSimulation` and `finishScenarioSetup` but reset by
    nobody: after any session that ran a setup block it is `False`, in a fresh process it is `True`. -/
def miniNoReset : Tables := { miniGood with closeResets := [("currentSimulation", .none), ("currentBehavior", .none)] }

theorem unreset_global_leaks :
    wf miniNoReset = false ∧
    session miniNoReset [.opener [("currentSimulation", .tok 1)], .plain "finishScenarioSetup" [("inInitialScenario", .false_)]] []
      "inInitialScenario" = .false_ ∧ miniNoReset.init "inInitialScenario" = .true_ := by decide

/-- **D4** as found, `Behavior._invokeInner` holds `executeInBehavior(sub)` open across `yield`s: when the
    abandoned generator is finalised after the session, its `finally` writes the behaviour that was current
    when the block was entered into `currentBehavior`. -/
def miniSuspended : Tables := { miniGood with suspended := ["executeInBehavior"] }

theorem suspended_block_leaks :
    session miniSuspended
      [.opener [("currentSimulation", .tok 1)],
       .enter "executeInBehavior" [("currentBehavior", .tok 2)],          -- Behavior._step of X
       .enterDeferred "executeInBehavior" [("currentBehavior", .tok 3)],  -- X does `do Y()`, Y yields
       .exit]                                                            -- back in Simulation._run
      [0] "currentBehavior" = .tok 2 ∧ miniSuspended.init "currentBehavior" = .none := by decide

end Scenic.C14
