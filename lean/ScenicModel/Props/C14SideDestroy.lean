import ScenicModel.Props.C14Base
import ScenicModel.Props.C14Destroy
/-! C14 side condition (repaired by fc314756; regression program `destroy-failure`):
    the statements of the `finally` block after `self.destroy()` run even if it raises. -/
namespace Scenic.C14
open Scenic.Overrides Scenic.Gen

theorem gen_destroy_guarded : simCfg.destroyGuarded = true := by decide

/-- a `destroy()` that raises changes nothing about how a simulation of the current source is cleaned up -/
theorem sim_destroy_failure_harmless_current (w : World) (stale : Saved) (agentsSet destroyFails : Bool)
    (evs : List Ev) : runSimD simCfg w stale agentsSet destroyFails evs = runSim simCfg w stale agentsSet evs :=
  runSimD_eq_runSim simCfg w stale agentsSet destroyFails evs (Or.inr gen_destroy_guarded)

end Scenic.C14
