import ScenicModel.Model.RegionSampling
import ScenicModel.Gen.RegionSampling
import Mathlib.Tactic.Linarith
import Mathlib.Tactic.Ring
import Mathlib.Tactic.NormNum
import Mathlib.Tactic.FieldSimp
import Mathlib.Tactic.Positivity
import Mathlib.Tactic.LinearCombination
import Mathlib.Algebra.Order.Field.Rat

/-!
# C03, part 2 — closed-form samplers and candidate balls, over exact rationals

`c, s` (resp. `cu, su`, `ct, st`) stand for the cosine and sine the code computes; the only thing assumed
about them is `c² + s² = 1` (and, for the sector, that the drawn offset `u ∈ [-angle/2, angle/2]` has
`cos u ≥ cos(angle/2)`, which is monotonicity of `cos` on `[0, π]`).  Every statement is for all
parameters and all draws, and covers all three coordinates.

The z written by each sampler and the shape of each `circumcircle` are regenerated from the source
(`Gen.zTable`, `Gen.sectorCircCfg`, `Gen.circTable`); the `gen_*` theorems are the side conditions.
-/
namespace Scenic.C03
open Scenic.RegionSampling Scenic.Gen

/-! ## side conditions on generated data -/

/-- each planar sampler writes the region's own z (0 for polylines, which live at z = 0) -/
theorem gen_z_table : zTable = ZTable.reference := by decide

/-- `SectorRegion._makeCircumcircle`: the narrow branch is only used for `cos(angle/2) > thr ≥ 0`, and
    divides the radius by `k·cos(angle/2)` with `0 < k ≤ 2` (so its radius is at least `R/(2cos)`) -/
theorem gen_sector_circ_ok :
    0 ≤ sectorCircCfg.thr ∧ 0 < sectorCircCfg.k ∧ sectorCircCfg.k ≤ 2 ∧ sectorCircCfg.op = CircOp.divide := by
  decide +kernel

theorem gen_circ_table : circTable = CircTable.reference := by decide

/-- the membership tests used by the generic samplers: `GridRegion._trueContainsPoint` is the point-set test,
    `PolygonalRegion._trueContainsPoint` compares z, `PolylineRegion.containsPoint` has a tolerance -/
theorem gen_membership : membership = MembershipTable.reference := by decide

/-! ## membership of the closed-form samplers -/

/-- `RectangularRegion.uniformPointInner`: for every heading and all draws `rx ∈ [-hw, hw]`, `ry ∈ [-hl, hl]`
    the returned point lies in the rectangle (x, y and z). -/
theorem rect_sample_mem (pos : V3) (c s hw hl rx ry : Rat) (hcs : c * c + s * s = 1)
    (hx1 : -hw ≤ rx) (hx2 : rx ≤ hw) (hy1 : -hl ≤ ry) (hy2 : ry ≤ hl) :
    inRect pos c s hw hl (rectSample zTable.rect pos c s rx ry) := by
  rw [gen_z_table]
  have e1 : c * (pos.x + (c * rx - s * ry) - pos.x) + s * (pos.y + (s * rx + c * ry) - pos.y) = rx := by
    linear_combination rx * hcs
  have e2 : c * (pos.y + (s * rx + c * ry) - pos.y) - s * (pos.x + (c * rx - s * ry) - pos.x) = ry := by
    linear_combination ry * hcs
  simp only [inRect, rectSample, rotZ, V3.add, ZTable.reference, zOf]
  rw [e1, e2]
  refine ⟨by linarith, hx2, by linarith, hy2, by ring⟩

/-- full support and measure preservation for the rectangle: every point of the rectangle is the image of
    exactly one admissible pair of draws (the map is a rotation + translation: an isometry, so the uniform
    distribution of `(rx, ry)` on the box is carried to the uniform distribution on the rectangle). -/
theorem rect_sample_surj (pos : V3) (c s hw hl : Rat) (hcs : c * c + s * s = 1) (p : V3)
    (hp : inRect pos c s hw hl p) :
    ∃ rx ry, -hw ≤ rx ∧ rx ≤ hw ∧ -hl ≤ ry ∧ ry ≤ hl ∧ rectSample zTable.rect pos c s rx ry = p := by
  rw [gen_z_table]
  obtain ⟨h1, h2, h3, h4, hz⟩ := hp
  refine ⟨c * (p.x - pos.x) + s * (p.y - pos.y), c * (p.y - pos.y) - s * (p.x - pos.x),
    by linarith, h2, by linarith, h4, ?_⟩
  cases p with | mk px py pz =>
  simp only [rectSample, rotZ, V3.add, ZTable.reference, zOf, V3.mk.injEq] at hz ⊢
  refine ⟨by linear_combination (px - pos.x) * hcs, by linear_combination (py - pos.y) * hcs, by rw [hz]; ring⟩

/-- the map `(rx, ry) ↦ point` preserves distances (hence areas) -/
theorem rect_sample_isometry (pos : V3) (c s rx ry rx' ry' : Rat) (hcs : c * c + s * s = 1) :
    ((rectSample .regionZ pos c s rx ry).sub (rectSample .regionZ pos c s rx' ry')).normSq =
      (rx - rx') * (rx - rx') + (ry - ry') * (ry - ry') := by
  simp only [rectSample, rotZ, V3.add, V3.sub, V3.normSq, V3.dot, zOf]
  linear_combination ((rx - rx') * (rx - rx') + (ry - ry') * (ry - ry')) * hcs

example : inRect ⟨1, 2, 3⟩ (3/5) (4/5) 2 1 (rectSample .regionZ ⟨1, 2, 3⟩ (3/5) (4/5) (-2) 1) :=
  rect_sample_mem ⟨1, 2, 3⟩ (3/5) (4/5) 2 1 (-2) 1 (by norm_num) (by norm_num) (by norm_num) (by norm_num) (by norm_num)

/-- `CircularRegion.uniformPointInner`: for every angle and every radius draw `0 ≤ r ≤ R` the point is in the disc -/
theorem disc_sample_mem (ctr : V3) (R r ct st : Rat) (hcs : ct * ct + st * st = 1) (hr0 : 0 ≤ r) (hrR : r ≤ R) :
    inDisc ctr R (discSample zTable.circle ctr r ct st) := by
  rw [gen_z_table]
  simp only [inDisc, discSample, ZTable.reference, zOf]
  refine ⟨?_, trivial⟩
  have : (ctr.x + r * ct - ctr.x) * (ctr.x + r * ct - ctr.x) + (ctr.y + r * st - ctr.y) * (ctr.y + r * st - ctr.y)
      = r * r := by linear_combination (r * r) * hcs
  rw [this]; nlinarith

example : inDisc ⟨1, 1, 5⟩ 2 (discSample .regionZ ⟨1, 1, 5⟩ 2 (5/13) (12/13)) :=
  disc_sample_mem ⟨1, 1, 5⟩ 2 2 (5/13) (12/13) (by norm_num) (by norm_num) (by norm_num)

/-- `SectorRegion.uniformPointInner`: for every heading direction `(hx, hy)`, every offset angle `u` within
    the half angle (`cos u ≥ cos(angle/2)`) and every radius draw `0 ≤ r ≤ R` the point is in the sector -/
theorem sector_sample_mem (ctr : V3) (hx hy R cosHalf r cu su : Rat)
    (hh : hx * hx + hy * hy = 1) (hcs : cu * cu + su * su = 1) (hu : cosHalf ≤ cu)
    (hr0 : 0 ≤ r) (hrR : r ≤ R) :
    inSector ctr hx hy R cosHalf (sectorSample zTable.sector ctr hx hy r cu su) := by
  rw [gen_z_table]
  refine ⟨r, hr0, hrR, ?_, ?_, ?_⟩
  · simp only [sectorSample]
    linear_combination (r * r * (cu * cu + su * su)) * hh + (r * r) * hcs
  · simp only [sectorSample]
    have : (ctr.x + r * (hx * cu - hy * su) - ctr.x) * hx + (ctr.y + r * (hx * su + hy * cu) - ctr.y) * hy
        = r * cu := by linear_combination (r * cu) * hh
    rw [this]
    exact mul_le_mul_of_nonneg_left hu hr0
  · simp [sectorSample, ZTable.reference, zOf]

example : inSector ⟨0, 0, 1⟩ 0 1 2 (3/5) (sectorSample .regionZ ⟨0, 0, 1⟩ 0 1 1 (4/5) (3/5)) :=
  sector_sample_mem ⟨0, 0, 1⟩ 0 1 2 (3/5) 1 (4/5) (3/5) (by norm_num) (by norm_num) (by norm_num) (by norm_num) (by norm_num)

/-- `PathRegion.uniformPointInner`: `c1 + t (c2 - c1)` with `t ∈ [0, 1]` lies on the closed segment (3-D) -/
theorem segment_sample_mem (a b : V3) (t : Rat) (h0 : 0 ≤ t) (h1 : t ≤ 1) :
    onSegment a b (segSample a b t) := by
  simp only [onSegment, segSample, V3.add, V3.sub, V3.smul, V3.cross, V3.dot, V3.normSq, V3.mk.injEq]
  refine ⟨⟨by ring, by ring, by ring⟩, ?_, ?_⟩
  · have : (a.x + t * (b.x - a.x) - a.x) * (b.x - a.x) + (a.y + t * (b.y - a.y) - a.y) * (b.y - a.y)
        + (a.z + t * (b.z - a.z) - a.z) * (b.z - a.z)
        = t * ((b.x - a.x) * (b.x - a.x) + (b.y - a.y) * (b.y - a.y) + (b.z - a.z) * (b.z - a.z)) := by ring
    rw [this]
    apply mul_nonneg h0
    nlinarith [mul_self_nonneg (b.x - a.x), mul_self_nonneg (b.y - a.y), mul_self_nonneg (b.z - a.z)]
  · have : (a.x + t * (b.x - a.x) - a.x) * (b.x - a.x) + (a.y + t * (b.y - a.y) - a.y) * (b.y - a.y)
        + (a.z + t * (b.z - a.z) - a.z) * (b.z - a.z)
        = t * ((b.x - a.x) * (b.x - a.x) + (b.y - a.y) * (b.y - a.y) + (b.z - a.z) * (b.z - a.z)) := by ring
    rw [this]
    have hn : 0 ≤ (b.x - a.x) * (b.x - a.x) + (b.y - a.y) * (b.y - a.y) + (b.z - a.z) * (b.z - a.z) := by
      nlinarith [mul_self_nonneg (b.x - a.x), mul_self_nonneg (b.y - a.y), mul_self_nonneg (b.z - a.z)]
    nlinarith

/-- the position on the segment is linear in the draw: `|sample(t) - sample(t')|² = (t - t')² |b - a|²`
    (so a uniform `t` is uniform w.r.t. arc length) -/
theorem segment_sample_linear (a b : V3) (t t' : Rat) :
    ((segSample a b t).sub (segSample a b t')).normSq = (t - t') * (t - t') * (b.sub a).normSq := by
  simp only [segSample, V3.add, V3.sub, V3.smul, V3.normSq, V3.dot]; ring

/-- `PolylineRegion.uniformPointInner`: `averageVectors(a, b, weight=t)` at z = 0 lies on the segment
    between the (z = 0) end points -/
theorem polyline_sample_mem (a b : V3) (t : Rat) (ha : a.z = 0) (hb : b.z = 0) (h0 : 0 ≤ t) (h1 : t ≤ 1) :
    onSegment a b (polylineSample zTable.polyline a b t) := by
  rw [gen_z_table]
  have : polylineSample ZTable.reference.polyline a b t = segSample a b t := by
    simp only [polylineSample, segSample, V3.add, V3.sub, V3.smul, ZTable.reference, zOf, V3.mk.injEq, ha, hb]
    refine ⟨by ring, by ring, by ring⟩
  rw [this]; exact segment_sample_mem a b t h0 h1

example : onSegment ⟨0, 0, 0⟩ ⟨4, 2, 0⟩ (polylineSample .zero ⟨0, 0, 0⟩ ⟨4, 2, 0⟩ (1/4)) :=
  polyline_sample_mem ⟨0, 0, 0⟩ ⟨4, 2, 0⟩ (1/4) rfl rfl (by norm_num) (by norm_num)

/-- `VoxelRegion.uniformPointInner`: the offset point stays inside the chosen voxel (all three coordinates) -/
theorem voxel_sample_mem (base scale u : V3) (hs : 0 ≤ scale.x ∧ 0 ≤ scale.y ∧ 0 ≤ scale.z)
    (hu : 0 ≤ u.x ∧ u.x ≤ 1 ∧ 0 ≤ u.y ∧ u.y ≤ 1 ∧ 0 ≤ u.z ∧ u.z ≤ 1) :
    inVoxel base scale (voxelSample base scale u) := by
  obtain ⟨sx, sy, sz⟩ := hs
  obtain ⟨ux0, ux1, uy0, uy1, uz0, uz1⟩ := hu
  simp only [inVoxel, voxelSample]
  refine ⟨?_, ?_, ?_, ?_, ?_, ?_⟩ <;> nlinarith

/-- `random.uniform(a, b)` stays in `[a, b]` -/
theorem uniformAB_mem (a b u : Rat) (hab : a ≤ b) (h0 : 0 ≤ u) (h1 : u ≤ 1) :
    a ≤ uniformAB a b u ∧ uniformAB a b u ≤ b := by
  unfold uniformAB
  constructor <;> nlinarith

/-- `PolygonalRegion.uniformPointInner`: the candidate lies in the triangle's bounding box at the polygon's z
    (it is returned only if `shapely.intersects_xy(triangle, x, y)`, so membership in the triangle — hence in
    the polygon — is the loop's exit condition; the z clause is this theorem). -/
theorem poly_candidate_mem (minx miny maxx maxy z ux uy : Rat) (hx : minx ≤ maxx) (hy : miny ≤ maxy)
    (hux : 0 ≤ ux ∧ ux ≤ 1) (huy : 0 ≤ uy ∧ uy ≤ 1) :
    let p := polyCandidate zTable.polygon minx miny maxx maxy z ux uy
    minx ≤ p.x ∧ p.x ≤ maxx ∧ miny ≤ p.y ∧ p.y ≤ maxy ∧ p.z = z := by
  rw [gen_z_table]
  have h1 := uniformAB_mem minx maxx ux hx hux.1 hux.2
  have h2 := uniformAB_mem miny maxy uy hy huy.1 huy.2
  exact ⟨h1.1, h1.2, h2.1, h2.2, rfl⟩

/-- a wrong z table entry is a membership violation as soon as the region is not at height 0:
    negation witness for "returns z = 0" -/
theorem z_zero_breaks_membership :
    ¬ inDisc ⟨0, 0, 5⟩ 1 (discSample .zero ⟨0, 0, 5⟩ 0 1 0) := by
  simp [inDisc, discSample, zOf]

/-! ## the membership tests the generic samplers apply to these samples -/

/-- `PolygonalRegion._trueContainsPoint` (regenerated): only points at the polygon's own height are accepted, so
    a generic intersection / difference / union involving a planar region tests all three coordinates -/
theorem polygon_true_membership_z (z : Rat) (fp : V3 → Bool) (p : V3)
    (h : polygonContains membership.polygon z fp p = true) : p.z = z ∧ fp p = true := by
  rw [gen_membership] at h
  simpa [polygonContains, MembershipTable.reference] using h

/-- … and every candidate the polygon sampler returns passes it (z clause), provided it is in the footprint -/
theorem polygon_candidate_recognised (minx miny maxx maxy z ux uy : Rat) (fp : V3 → Bool)
    (hfp : fp (polyCandidate zTable.polygon minx miny maxx maxy z ux uy) = true) :
    polygonContains membership.polygon z fp (polyCandidate zTable.polygon minx miny maxx maxy z ux uy) = true := by
  rw [gen_membership, gen_z_table] at *
  simpa [polygonContains, MembershipTable.reference, polyCandidate, ZTable.reference, zOf] using hfp

/-- the z-blind test accepts a point 5 above the polygon -/
theorem footprint_membership_ignores_z :
    polygonContains .footprintOnly 0 (fun _ => true) ⟨0, 0, 5⟩ = true ∧
    polygonContains membership.polygon 0 (fun _ => true) ⟨0, 0, 5⟩ = false := by decide +kernel

/-- `PolylineRegion.containsPoint` (regenerated: distance ≤ tolerance at z = 0): a sample whose rounding error
    (distance from the exact polyline) is within the tolerance is recognised by its own region — the hypothesis
    `contains = atoms` of the union / intersection theorems for polylines -/
theorem polyline_recognises_own_samples (a b : V3) (t tol dist : Rat) (htol : dist ≤ tol) :
    polylineContains membership.polyline tol dist (polylineSample zTable.polyline a b t).z = true := by
  rw [gen_membership, gen_z_table]
  simp [polylineContains, MembershipTable.reference, polylineSample, ZTable.reference, zOf, htol]

/-- the exact test (`lineString.intersects`, before the repair) rejects a sample that is off by any rounding error -/
theorem polyline_exact_test_rejects_rounding :
    polylineContains .exactIntersects (1 / 1000000) (1 / 1000000000) 0 = false ∧
    polylineContains membership.polyline (1 / 1000000) (1 / 1000000000) 0 = true := by decide +kernel

/-! ## radius drawn with `random.triangular(0, R, R)` gives an area-uniform disc -/

/-- CPython's `triangular(0, R, R)` returns `R·sqrt(u)` for a uniform `u`: `r ≥ 0`, `r² = R²·u`.
    Then for every `ρ ≥ 0`:  `r ≤ ρ  ⇔  u ≤ ρ²/R²`, i.e. the probability that the point falls within radius
    `ρ` of the centre equals `area(disc ρ)/area(disc R)`; together with the independent uniform angle this
    is the area-uniform distribution on the disc (and on a sector). -/
theorem triangular_radius_area_uniform (R r u ρ : Rat) (hR : 0 < R) (hr : 0 ≤ r) (hρ : 0 ≤ ρ)
    (hru : r * r = R * R * u) : r ≤ ρ ↔ u ≤ ρ * ρ / (R * R) := by
  have hRR : 0 < R * R := mul_pos hR hR
  rw [le_div_iff₀ hRR]
  constructor
  · intro h
    have : r * r ≤ ρ * ρ := by nlinarith
    linarith
  · intro h
    have h2 : r * r ≤ ρ * ρ := by linarith
    by_contra hlt
    rw [not_le] at hlt
    nlinarith

/-- a radius drawn uniformly instead (`r = R·u`) is *not* area-uniform: half the samples fall in the
    quarter of the area within `R/2` -/
theorem uniform_radius_not_area_uniform :
    ∃ R r u ρ : Rat, 0 < R ∧ r = R * u ∧ r ≤ ρ ∧ ¬ (u ≤ ρ * ρ / (R * R)) :=
  ⟨1, 1/2, 1/2, 1/2, by norm_num, by norm_num, by norm_num, by norm_num⟩

/-! ## candidate balls (`circumcircle`) contain their regions -/

/-- `SectorRegion._makeCircumcircle` with the regenerated shape: the ball contains the whole sector
    (for every radius, every half-angle cosine `c`, every heading direction). -/
theorem sector_circumcircle_sound (ctr p : V3) (hx hy R c : Rat) (hh : hx * hx + hy * hy = 1)
    (hp : inSector ctr hx hy R c p) :
    inBall2 (ctr.x + (sectorCirc sectorCircCfg R c).2 * hx) (ctr.y + (sectorCirc sectorCircCfg R c).2 * hy)
      (sectorCirc sectorCircCfg R c).1 p := by
  obtain ⟨hthr, hk, hk2, hop⟩ := gen_sector_circ_ok
  obtain ⟨ρ, hρ0, hρR, hnorm, hdot, _⟩ := hp
  have hR0 : 0 ≤ R := le_trans hρ0 hρR
  unfold sectorCirc
  by_cases hc : c > sectorCircCfg.thr
  · have hcpos : 0 < c := lt_of_le_of_lt hthr hc
    simp only [hc, if_true, hop]
    set k := sectorCircCfg.k
    set r := R / (k * c) with hr
    have hkc : 0 < k * c := mul_pos hk hcpos
    have hr0 : 0 ≤ r := div_nonneg hR0 hkc.le
    have hrc : r * c * k = R := by rw [hr]; field_simp
    -- 2 r (d·h) ≥ 2 r ρ c ≥ ρ R ≥ ρ²
    have h1 : 2 * r * (ρ * c) ≤ 2 * r * ((p.x - ctr.x) * hx + (p.y - ctr.y) * hy) :=
      mul_le_mul_of_nonneg_left hdot (by linarith)
    have h2 : ρ * R ≤ 2 * r * (ρ * c) := by
      have : 2 * r * (ρ * c) * k = 2 * ρ * R := by rw [← hrc]; ring
      have hrck : 0 ≤ r * (ρ * c) := mul_nonneg hr0 (mul_nonneg hρ0 hcpos.le)
      nlinarith
    have h3 : ρ * ρ ≤ ρ * R := mul_le_mul_of_nonneg_left hρR hρ0
    simp only [inBall2]
    have expand : (p.x - (ctr.x + r * hx)) * (p.x - (ctr.x + r * hx)) + (p.y - (ctr.y + r * hy)) * (p.y - (ctr.y + r * hy))
        = ρ * ρ - 2 * r * ((p.x - ctr.x) * hx + (p.y - ctr.y) * hy) + r * r := by
      linear_combination hnorm + (r * r) * hh
    rw [expand]; linarith
  · simp only [hc, if_false, inBall2, zero_mul, add_zero]
    rw [hnorm]; nlinarith

/-- the formula before the repair (`(R/2)·cos(angle/2)`, used for every angle) is not an upper bound:
    for `cos(angle/2) = 3/5` the tip of the sector's axis lies outside the ball -/
theorem old_sector_formula_unsound :
    inSector ⟨0, 0, 0⟩ 0 1 1 (3/5) ⟨0, 1, 0⟩ ∧
    ¬ inBall2 (0 + (sectorCirc ⟨-1, 2, .multiply⟩ 1 (3/5)).2 * 0) (0 + (sectorCirc ⟨-1, 2, .multiply⟩ 1 (3/5)).2 * 1)
      (sectorCirc ⟨-1, 2, .multiply⟩ 1 (3/5)).1 ⟨0, 1, 0⟩ := by
  constructor
  · exact ⟨1, by norm_num, by norm_num, by norm_num, by norm_num, rfl⟩
  · have : sectorCirc ⟨-1, 2, .multiply⟩ 1 (3/5) = (3/10, 3/10) := by decide +kernel
    rw [this]; simp only [inBall2]; norm_num

example : inBall2 (0 + (sectorCirc sectorCircCfg 1 (3/5)).2 * 0) (0 + (sectorCirc sectorCircCfg 1 (3/5)).2 * 1)
    (sectorCirc sectorCircCfg 1 (3/5)).1 ⟨0, 1, 0⟩ :=
  sector_circumcircle_sound ⟨0, 0, 0⟩ ⟨0, 1, 0⟩ 0 1 1 (3/5) (by norm_num)
    ⟨1, by norm_num, by norm_num, by norm_num, by norm_num, rfl⟩

/-- `CircularRegion.circumcircle = (center, radius)` contains the disc -/
theorem disc_circumcircle_sound (ctr p : V3) (R : Rat) (hp : inDisc ctr R p) :
    (p.x - ctr.x) * (p.x - ctr.x) + (p.y - ctr.y) * (p.y - ctr.y) ≤ radiusSq circTable.circle R 0 0 0 := by
  rw [gen_circ_table]; exact hp.1

/-- `RectangularRegion.circumcircle = (position, hypot(hw, hl))` contains the rectangle -/
theorem rect_circumcircle_sound (pos p : V3) (c s hw hl : Rat) (hcs : c * c + s * s = 1)
    (hp : inRect pos c s hw hl p) :
    (p.x - pos.x) * (p.x - pos.x) + (p.y - pos.y) * (p.y - pos.y) ≤ radiusSq circTable.rect 0 hw hl 0 := by
  rw [gen_circ_table]
  obtain ⟨h1, h2, h3, h4, _⟩ := hp
  simp only [CircTable.reference, radiusSq]
  set u := c * (p.x - pos.x) + s * (p.y - pos.y)
  set v := c * (p.y - pos.y) - s * (p.x - pos.x)
  have huv : (p.x - pos.x) * (p.x - pos.x) + (p.y - pos.y) * (p.y - pos.y) = u * u + v * v := by
    simp only [u, v]; linear_combination (-((p.x - pos.x) * (p.x - pos.x) + (p.y - pos.y) * (p.y - pos.y))) * hcs
  rw [huv]
  have hu : u * u ≤ hw * hw := by nlinarith
  have hv : v * v ≤ hl * hl := by nlinarith
  linarith

/-- `MeshRegion.circumcircle` = (centre of the bounding box, `hypot` of the half extents) contains the
    bounding box, hence the mesh -/
theorem mesh_circumball_sound (ctr p : V3) (hw hl hz : Rat)
    (hx : -hw ≤ p.x - ctr.x ∧ p.x - ctr.x ≤ hw) (hy : -hl ≤ p.y - ctr.y ∧ p.y - ctr.y ≤ hl)
    (hzz : -hz ≤ p.z - ctr.z ∧ p.z - ctr.z ≤ hz) :
    (p.sub ctr).normSq ≤ radiusSq circTable.mesh 0 hw hl hz := by
  rw [gen_circ_table]
  simp only [CircTable.reference, radiusSq, V3.normSq, V3.dot, V3.sub]
  have h1 : (p.x - ctr.x) * (p.x - ctr.x) ≤ hw * hw := by nlinarith
  have h2 : (p.y - ctr.y) * (p.y - ctr.y) ≤ hl * hl := by nlinarith
  have h3 : (p.z - ctr.z) * (p.z - ctr.z) ≤ hz * hz := by nlinarith
  linarith

end Scenic.C03
