import ScenicModel.Model.RoadLookup
namespace Scenic.C20
open Scenic.Roads

theorem firstIn_some {c es : List Nat} {r : Nat} (h : firstIn c es = some r) : r ∈ es ∧ r ∈ c := by
  unfold firstIn at h
  have h1 := List.mem_of_find?_eq_some h
  have h2 := List.find?_some h
  simp at h2
  exact ⟨h1, h2⟩

theorem firstIn_none_iff (c es : List Nat) : firstIn c es = none ↔ ∀ x ∈ es, x ∉ c := by
  unfold firstIn
  rw [List.find?_eq_none]
  simp

theorem firstIn_first {c es : List Nat} {r : Nat} (h : firstIn c es = some r) :
    ∃ pre post, es = pre ++ r :: post ∧ ∀ x ∈ pre, x ∉ c := by
  unfold firstIn at h
  rw [List.find?_eq_some_iff_append] at h
  obtain ⟨_, pre, post, hes, hpre⟩ := h
  refine ⟨pre, post, hes, ?_⟩
  intro x hx
  have := hpre x hx
  simpa using this

theorem firstIn_cons_pos {c : List Nat} {r : Nat} (rs : List Nat) (h : r ∈ c) :
    firstIn c (r :: rs) = some r := by
  unfold firstIn
  simp [h]

theorem firstIn_cons_neg {c : List Nat} {r : Nat} (rs : List Nat) (h : r ∉ c) :
    firstIn c (r :: rs) = firstIn c rs := by
  unfold firstIn
  simp [h]

theorem firstIn_append (c a b : List Nat) :
    firstIn c (a ++ b) = (firstIn c a).or (firstIn c b) := by
  unfold firstIn
  simp [List.find?_append]

theorem findPointIn_eq (tolPos : Bool) (pf : PointFacts) (es : List Nat) :
    findPointIn tolPos pf es =
      match firstIn pf.exact es with
      | some r => some r
      | none => if tolPos then firstIn pf.near es else none := by
  unfold findPointIn findPointInWith
  simp only [List.findSome?, runPass]
  cases firstIn pf.exact es with
  | some r => rfl
  | none =>
    cases tolPos with
    | false => simp
    | true =>
      simp
      cases firstIn pf.near es <;> rfl

/-- **lookup_sound**: the element returned is one of the list searched; it contains the point, or
no element of the list contains the point, the tolerance is positive and it is within tolerance -/
theorem lookup_sound (tolPos : Bool) (pf : PointFacts) (es : List Nat) (r : Nat)
    (h : findPointIn tolPos pf es = some r) :
    r ∈ es ∧ (r ∈ pf.exact ∨ (tolPos = true ∧ r ∈ pf.near ∧ ∀ x ∈ es, x ∉ pf.exact)) := by
  rw [findPointIn_eq] at h
  cases he : firstIn pf.exact es with
  | some r' =>
    rw [he] at h
    simp at h
    subst h
    exact ⟨(firstIn_some he).1, Or.inl (firstIn_some he).2⟩
  | none =>
    rw [he] at h
    simp at h
    obtain ⟨ht, hn⟩ := h
    exact ⟨(firstIn_some hn).1, Or.inr ⟨ht, (firstIn_some hn).2, (firstIn_none_iff _ _).mp he⟩⟩

/-- **lookup_first**: it is the *first* such element in the order of the list that was passed in -/
theorem lookup_first (tolPos : Bool) (pf : PointFacts) (es : List Nat) (r : Nat)
    (h : findPointIn tolPos pf es = some r) :
    ∃ pre post, es = pre ++ r :: post ∧
      ((r ∈ pf.exact ∧ ∀ x ∈ pre, x ∉ pf.exact) ∨
       ((∀ x ∈ es, x ∉ pf.exact) ∧ tolPos = true ∧ r ∈ pf.near ∧ ∀ x ∈ pre, x ∉ pf.near)) := by
  rw [findPointIn_eq] at h
  cases he : firstIn pf.exact es with
  | some r' =>
    rw [he] at h
    simp at h
    subst h
    obtain ⟨pre, post, hes, hpre⟩ := firstIn_first he
    exact ⟨pre, post, hes, Or.inl ⟨(firstIn_some he).2, hpre⟩⟩
  | none =>
    rw [he] at h
    simp at h
    obtain ⟨ht, hn⟩ := h
    obtain ⟨pre, post, hes, hpre⟩ := firstIn_first hn
    exact ⟨pre, post, hes, Or.inr ⟨(firstIn_none_iff _ _).mp he, ht, (firstIn_some hn).2, hpre⟩⟩

/-- **lookup_complete**: `None` is returned exactly when no element of the list contains the point
and (for a positive tolerance) none is within tolerance -/
theorem lookup_complete (tolPos : Bool) (pf : PointFacts) (es : List Nat) :
    findPointIn tolPos pf es = none ↔
      (∀ x ∈ es, x ∉ pf.exact) ∧ (tolPos = true → ∀ x ∈ es, x ∉ pf.near) := by
  rw [findPointIn_eq]
  cases he : firstIn pf.exact es with
  | some r' =>
    simp
    intro h
    exact absurd (firstIn_some he).2 (h r' (firstIn_some he).1)
  | none =>
    have h0 := (firstIn_none_iff _ _).mp he
    cases tolPos with
    | false => simp; exact h0
    | true =>
      simp
      rw [firstIn_none_iff]
      exact ⟨fun h => ⟨h0, h⟩, fun h => h.2⟩

/-- **lookup_exact_priority**: if some element of the list contains the point, the result contains
the point (an element merely within tolerance never wins over one that contains it) -/
theorem lookup_exact_priority (tolPos : Bool) (pf : PointFacts) (es : List Nat)
    (h : ∃ x ∈ es, x ∈ pf.exact) : ∃ r, findPointIn tolPos pf es = some r ∧ r ∈ pf.exact := by
  rw [findPointIn_eq]
  cases he : firstIn pf.exact es with
  | some r' => exact ⟨r', rfl, (firstIn_some he).2⟩
  | none =>
    obtain ⟨x, hx, hxe⟩ := h
    exact absurd hxe ((firstIn_none_iff _ _).mp he x hx)

/-- **lookup_zero_tolerance**: with `tolerance = 0` only the exact pass runs -/
theorem lookup_zero_tolerance (pf : PointFacts) (es : List Nat) :
    findPointIn false pf es = firstIn pf.exact es := by
  rw [findPointIn_eq]
  cases firstIn pf.exact es <;> simp

/-- **elementAt_priority**: `elementAt` searches intersections, roads, shoulders, sidewalks in this
order: an intersection containing the point is returned even if a road, shoulder or sidewalk also
contains it; a road containing the point wins over shoulders and sidewalks when no intersection
contains it. -/
theorem elementAt_priority (tolPos : Bool) (pf : PointFacts) (ints roads shs sws : List Nat) :
    ((∃ x ∈ ints, x ∈ pf.exact) →
      ∃ r ∈ ints, findPointIn tolPos pf (ints ++ roads ++ shs ++ sws) = some r ∧ r ∈ pf.exact) ∧
    ((∀ x ∈ ints, x ∉ pf.exact) → (∃ x ∈ roads, x ∈ pf.exact) →
      ∃ r ∈ roads, findPointIn tolPos pf (ints ++ roads ++ shs ++ sws) = some r ∧ r ∈ pf.exact) := by
  constructor
  · intro h
    rw [findPointIn_eq]
    have hi : ∃ r, firstIn pf.exact ints = some r := by
      cases hf : firstIn pf.exact ints with
      | some r => exact ⟨r, rfl⟩
      | none =>
        obtain ⟨x, hx, hxe⟩ := h
        exact absurd hxe ((firstIn_none_iff _ _).mp hf x hx)
    obtain ⟨r, hr⟩ := hi
    refine ⟨r, (firstIn_some hr).1, ?_, (firstIn_some hr).2⟩
    simp [firstIn_append, hr]
  · intro hno h
    rw [findPointIn_eq]
    have hi : firstIn pf.exact ints = none := (firstIn_none_iff _ _).mpr hno
    have hr : ∃ r, firstIn pf.exact roads = some r := by
      cases hf : firstIn pf.exact roads with
      | some r => exact ⟨r, rfl⟩
      | none =>
        obtain ⟨x, hx, hxe⟩ := h
        exact absurd hxe ((firstIn_none_iff _ _).mp hf x hx)
    obtain ⟨r, hr⟩ := hr
    refine ⟨r, (firstIn_some hr).1, ?_, (firstIn_some hr).2⟩
    simp [firstIn_append, hi, hr]

/-! ### the lane found lies in the road found -/

theorem firstIn_flatMap_some (c : List Nat) (lanesOf : Nat → List Nat) (roadOf : Nat → Nat) :
    ∀ (rs : List Nat) (l : Nat),
      (∀ r ∈ rs, ∀ l ∈ lanesOf r, roadOf l = r) →
      (∀ r ∈ rs, ∀ l ∈ lanesOf r, l ∈ c → r ∈ c) →
      (∀ r ∈ rs, r ∈ c → ∃ l ∈ lanesOf r, l ∈ c) →
      firstIn c (rs.flatMap lanesOf) = some l →
      firstIn c rs = some (roadOf l) ∧ firstIn c (lanesOf (roadOf l)) = some l ∧ roadOf l ∈ rs := by
  intro rs
  induction rs with
  | nil => intro l _ _ _ h; simp [firstIn] at h
  | cons r rs ih =>
    intro l hown hup hdown h
    rw [List.flatMap_cons, firstIn_append] at h
    cases hf : firstIn c (lanesOf r) with
    | some l' =>
      rw [hf] at h
      simp at h
      subst h
      have hl := firstIn_some hf
      have hro : roadOf l' = r := hown r (List.mem_cons_self) l' hl.1
      have hrc : r ∈ c := hup r (List.mem_cons_self) l' hl.1 hl.2
      rw [hro]
      exact ⟨firstIn_cons_pos rs hrc, hf, List.mem_cons_self⟩
    | none =>
      rw [hf] at h
      simp at h
      have hrc : r ∉ c := by
        intro hrc
        obtain ⟨l', hl', hc'⟩ := hdown r (List.mem_cons_self) hrc
        exact (firstIn_none_iff _ _).mp hf l' hl' hc'
      have := ih l (fun r' hr' => hown r' (List.mem_cons_of_mem _ hr'))
        (fun r' hr' => hup r' (List.mem_cons_of_mem _ hr'))
        (fun r' hr' => hdown r' (List.mem_cons_of_mem _ hr')) h
      rw [firstIn_cons_neg rs hrc]
      exact ⟨this.1, this.2.1, List.mem_cons_of_mem _ this.2.2⟩

theorem firstIn_flatMap_none (c : List Nat) (lanesOf : Nat → List Nat) (rs : List Nat)
    (hdown : ∀ r ∈ rs, r ∈ c → ∃ l ∈ lanesOf r, l ∈ c)
    (h : firstIn c (rs.flatMap lanesOf) = none) : firstIn c rs = none := by
  rw [firstIn_none_iff] at h ⊢
  intro r hr hrc
  obtain ⟨l, hl, hlc⟩ := hdown r hr hrc
  exact h l (List.mem_flatMap.mpr ⟨r, hr, hl⟩) hlc

/-- **lane_in_road_found**: if the network's lane list is the concatenation of the lanes of its roads
(a link rule), every lane that contains the point (resp. is within tolerance) has its road do so too
(children lie in their parents) and every road that does has a lane that does (roads are covered by
their lanes), then the lane returned by `laneAt` belongs to the road returned by `roadAt`, and
`road.laneAt` returns the same lane. -/
theorem lane_in_road_found (tolPos : Bool) (pf : PointFacts) (allRoads : List Nat)
    (lanesOf : Nat → List Nat) (roadOf : Nat → Nat)
    (hown : ∀ r ∈ allRoads, ∀ l ∈ lanesOf r, roadOf l = r)
    (hupE : ∀ r ∈ allRoads, ∀ l ∈ lanesOf r, l ∈ pf.exact → r ∈ pf.exact)
    (hupN : ∀ r ∈ allRoads, ∀ l ∈ lanesOf r, l ∈ pf.near → r ∈ pf.near)
    (hdownE : ∀ r ∈ allRoads, r ∈ pf.exact → ∃ l ∈ lanesOf r, l ∈ pf.exact)
    (hdownN : ∀ r ∈ allRoads, r ∈ pf.near → ∃ l ∈ lanesOf r, l ∈ pf.near)
    (l : Nat) (h : findPointIn tolPos pf (allRoads.flatMap lanesOf) = some l) :
    findPointIn tolPos pf allRoads = some (roadOf l) ∧
    findPointIn tolPos pf (lanesOf (roadOf l)) = some l := by
  rw [findPointIn_eq] at h
  cases he : firstIn pf.exact (allRoads.flatMap lanesOf) with
  | some l' =>
    rw [he] at h
    simp at h
    subst h
    obtain ⟨h1, h2, _⟩ := firstIn_flatMap_some pf.exact lanesOf roadOf allRoads l' hown hupE hdownE he
    rw [findPointIn_eq, findPointIn_eq, h1, h2]
    exact ⟨rfl, rfl⟩
  | none =>
    rw [he] at h
    simp at h
    obtain ⟨ht, hn⟩ := h
    subst ht
    obtain ⟨h1, h2, hmem⟩ := firstIn_flatMap_some pf.near lanesOf roadOf allRoads l hown hupN hdownN hn
    have hr0 : firstIn pf.exact allRoads = none := firstIn_flatMap_none pf.exact lanesOf allRoads hdownE he
    have hl0 : firstIn pf.exact (lanesOf (roadOf l)) = none := by
      rw [firstIn_none_iff] at he ⊢
      intro x hx
      exact he x (List.mem_flatMap.mpr ⟨roadOf l, hmem, hx⟩)
    rw [findPointIn_eq, findPointIn_eq, hr0, hl0, h1, h2]
    exact ⟨rfl, rfl⟩

end Scenic.C20
