import ScenicModel.Props.C13Guards

/-!
# C13 (part 4): the compiler's bookkeeping for `break` / `continue` / `return` in handlers

`visit_TryInterrupt` turns `break`/`continue` at block level into `return BREAK/CONTINUE` and, after the
statement, re-raises them (`if r is BREAK: break`) *if its bookkeeping says some block may conclude that
way*.  With the nested-aware compiler (`nestedFlow`) the bookkeeping is exact, for every program.
-/
namespace Scenic.Interrupts

/-- the statement may leave its statement list with Python `break` / BREAK -/
def L.escBrk : L → Bool
  | .flow .brk => true
  | .tryI (.user fl) _ _ => fl.emitBrk
  | _ => false

def L.escCont : L → Bool
  | .flow .cont => true
  | .tryI (.user fl) _ _ => fl.emitCont
  | _ => false

def escBrkL (l : List L) : Bool := l.any L.escBrk
def escContL (l : List L) : Bool := l.any L.escCont

theorem escBrkL_append (a b : List L) : escBrkL (a ++ b) = (escBrkL a || escBrkL b) := by simp [escBrkL]
theorem escContL_append (a b : List L) : escContL (a ++ b) = (escContL a || escContL b) := by simp [escContL]

theorem escBrkL_take (cfg : Cfg) (a : Nat) : escBrkL (lowerTake cfg a) = false := by
  unfold lowerTake; cases cfg.checkBeforeInvoke <;> cases cfg.checkAfterInvoke <;> rfl
theorem escBrkL_do (cfg : Cfg) (b : Nat) (u : Option Nat) : escBrkL (lowerDo cfg b u) = false := by
  unfold lowerDo; cases u <;> cases cfg.checkBeforeInvoke <;> cases cfg.checkAfterInvoke <;> rfl
theorem escContL_take (cfg : Cfg) (a : Nat) : escContL (lowerTake cfg a) = false := by
  unfold lowerTake; cases cfg.checkBeforeInvoke <;> cases cfg.checkAfterInvoke <;> rfl
theorem escContL_do (cfg : Cfg) (b : Nat) (u : Option Nat) : escContL (lowerDo cfg b u) = false := by
  unfold lowerDo; cases u <;> cases cfg.checkBeforeInvoke <;> cases cfg.checkAfterInvoke <;> rfl

/-- the flag pair after compiling: exactly "was set before, or an escaping break/continue was compiled here
    at block level" -/
def FlagsExact (ctx : LCtx) (st st' : LSt) (brk cont : Bool) : Prop :=
  st'.usedBrk = (st.usedBrk || (ctx.inBlock && !ctx.inLoop && brk)) ∧
  st'.usedCont = (st.usedCont || (ctx.inBlock && !ctx.inLoop && cont))

mutual
theorem lowerS_flags (cfg : Cfg) (hn : cfg.nestedFlow = true) :
    ∀ (s : Stmt) (ctx : LCtx) (st : LSt) (code : List L) (st' : LSt),
      lowerS cfg ctx st s = some (code, st') → FlagsExact ctx st st' (escBrkL code) (escContL code)
  | .take a, ctx, st, code, st', h => by
    simp only [lowerS, Option.some.injEq, Prod.mk.injEq] at h
    obtain ⟨rfl, rfl⟩ := h
    simp [FlagsExact, escBrkL_take, escContL_take]
  | .doSub b u, ctx, st, code, st', h => by
    simp only [lowerS, Option.some.injEq, Prod.mk.injEq] at h
    obtain ⟨rfl, rfl⟩ := h
    simp [FlagsExact, escBrkL_do, escContL_do]
  | .abort, ctx, st, code, st', h => by
    simp only [lowerS] at h
    split at h
    · simp only [Option.some.injEq, Prod.mk.injEq] at h
      obtain ⟨rfl, rfl⟩ := h
      simp [FlagsExact, escBrkL, escContL, L.escBrk, L.escCont]
    · simp at h
  | .brk, ctx, st, code, st', h => by
    simp only [lowerS] at h
    split at h
    · rename_i hl
      simp only [Option.some.injEq, Prod.mk.injEq] at h
      obtain ⟨rfl, rfl⟩ := h
      simp [FlagsExact, hl]
    · split at h
      · rename_i hl hb
        simp only [Option.some.injEq, Prod.mk.injEq] at h
        obtain ⟨rfl, rfl⟩ := h
        simp [FlagsExact, hl, hb, escBrkL, escContL, L.escBrk, L.escCont]
      · simp at h
  | .cont, ctx, st, code, st', h => by
    simp only [lowerS] at h
    split at h
    · rename_i hl
      simp only [Option.some.injEq, Prod.mk.injEq] at h
      obtain ⟨rfl, rfl⟩ := h
      simp [FlagsExact, hl]
    · split at h
      · rename_i hl hb
        simp only [Option.some.injEq, Prod.mk.injEq] at h
        obtain ⟨rfl, rfl⟩ := h
        simp [FlagsExact, hl, hb, escBrkL, escContL, L.escBrk, L.escCont]
      · simp at h
  | .ret, ctx, st, code, st', h => by
    simp only [lowerS, Option.some.injEq, Prod.mk.injEq] at h
    obtain ⟨rfl, rfl⟩ := h
    cases ctx.inBlock <;> simp [FlagsExact, escBrkL, escContL, L.escBrk, L.escCont]
  | .forN n body, ctx, st, code, st', h => by
    simp only [lowerS] at h
    split at h
    · simp at h
    · rename_i b st1 hb
      simp only [Option.some.injEq, Prod.mk.injEq] at h
      obtain ⟨rfl, rfl⟩ := h
      have := lowerList_flags cfg hn body { ctx with inLoop := true } st b st1 hb
      simp [FlagsExact, escBrkL, escContL, L.escBrk, L.escCont] at this ⊢
      exact this
  | .whileT body, ctx, st, code, st', h => by
    simp only [lowerS] at h
    split at h
    · simp at h
    · rename_i b st1 hb
      simp only [Option.some.injEq, Prod.mk.injEq] at h
      obtain ⟨rfl, rfl⟩ := h
      have := lowerList_flags cfg hn body { ctx with inLoop := true } st b st1 hb
      simp [FlagsExact, escBrkL, escContL, L.escBrk, L.escCont] at this ⊢
      exact this
  | .tryI body hs, ctx, st, code, st', h => by
    simp only [lowerS, hn, if_true] at h
    split at h
    · simp at h
    · split at h
      · simp at h
      · split at h
        · simp at h
        · split at h
          · simp only [Option.some.injEq, Prod.mk.injEq] at h
            obtain ⟨rfl, rfl⟩ := h
            simp only [FlagsExact, escBrkL, escContL, List.any_cons, List.any_nil, L.escBrk, L.escCont, Bool.or_false]
            constructor
            · cases st.usedBrk <;> cases ctx.inBlock <;> cases ctx.inLoop <;> simp
            · cases st.usedCont <;> cases ctx.inBlock <;> cases ctx.inLoop <;> simp
          · simp at h

theorem lowerList_flags (cfg : Cfg) (hn : cfg.nestedFlow = true) :
    ∀ (l : List Stmt) (ctx : LCtx) (st : LSt) (code : List L) (st' : LSt),
      lowerList cfg ctx st l = some (code, st') → FlagsExact ctx st st' (escBrkL code) (escContL code)
  | [], ctx, st, code, st', h => by
    simp only [lowerList, Option.some.injEq, Prod.mk.injEq] at h
    obtain ⟨rfl, rfl⟩ := h
    simp [FlagsExact, escBrkL, escContL]
  | s :: rest, ctx, st, code, st', h => by
    simp only [lowerList] at h
    split at h
    · simp at h
    · rename_i l1 st1 h1
      split at h
      · simp at h
      · rename_i l2 st2 h2
        simp only [Option.some.injEq, Prod.mk.injEq] at h
        obtain ⟨rfl, rfl⟩ := h
        have a := lowerS_flags cfg hn s ctx st l1 st1 h1
        have b := lowerList_flags cfg hn rest ctx st1 l2 _ h2
        simp only [FlagsExact, escBrkL_append, escContL_append] at a b ⊢
        rw [b.1, b.2, a.1, a.2]
        constructor
        · cases st.usedBrk <;> cases ctx.inBlock <;> cases ctx.inLoop <;> simp
        · cases st.usedCont <;> cases ctx.inBlock <;> cases ctx.inLoop <;> simp
end

theorem lowerHandlers_flags (cfg : Cfg) (hn : cfg.nestedFlow = true) (ctx : LCtx) :
    ∀ (hs : List (Nat × List Stmt)) (st : LSt) (cs : List Nat) (codes : List (List L)) (st' : LSt),
      lowerHandlers cfg ctx st hs = some (cs, codes, st') →
        FlagsExact ctx st st' (codes.any escBrkL) (codes.any escContL)
          ∧ cs = hs.map (·.1) ∧ codes.length = hs.length
  | [], st, cs, codes, st', h => by
    simp only [lowerHandlers, Option.some.injEq, Prod.mk.injEq] at h
    obtain ⟨rfl, rfl, rfl⟩ := h
    simp [FlagsExact]
  | (c, hd) :: rest, st, cs, codes, st', h => by
    simp only [lowerHandlers] at h
    split at h
    · simp at h
    · rename_i code st1 h1
      split at h
      · simp at h
      · rename_i cs2 codes2 st2 h2
        simp only [Option.some.injEq, Prod.mk.injEq] at h
        obtain ⟨rfl, rfl, rfl⟩ := h
        have a := lowerList_flags cfg hn hd ctx st code st1 h1
        obtain ⟨b, hcs, hlen⟩ := lowerHandlers_flags cfg hn ctx rest st1 cs2 codes2 _ h2
        refine ⟨?_, by simp [hcs], by simp [hlen]⟩
        simp only [FlagsExact, List.any_cons] at a b ⊢
        rw [b.1, b.2, a.1, a.2]
        constructor
        · cases st.usedBrk <;> cases ctx.inBlock <;> cases ctx.inLoop <;> simp
        · cases st.usedCont <;> cases ctx.inBlock <;> cases ctx.inLoop <;> simp

/-- **break/continue/return are re-raised exactly when needed** (nested-aware compiler): the statement
    emitted for a try-interrupt re-raises `break` (`continue`) iff the body or some handler may conclude with
    BREAK (CONTINUE) -- directly or through a nested statement that re-raises it --, a `return` is passed on as
    RETURN when the statement sits in a block of an enclosing statement and as a plain return otherwise,
    the handlers are handed over in reverse source order, each with its own condition. -/
theorem lower_try_flags (cfg : Cfg) (hn : cfg.nestedFlow = true) (ctx : LCtx) (st : LSt)
    (body : List Stmt) (hs : List (Nat × List Stmt)) (code : List L) (st' : LSt)
    (h : lowerS cfg ctx st (.tryI body hs) = some (code, st')) :
    ∃ fl b codes, code = [L.tryI (.user fl) b (zipRuntime cfg (hs.map (·.1)) codes)] ∧ codes.length = hs.length ∧
      fl.emitBrk = (escBrkL b || codes.any escBrkL) ∧
      fl.emitCont = (escContL b || codes.any escContL) ∧
      fl.retWrap = ctx.inBlock := by
  simp only [lowerS, hn, if_true] at h
  split at h
  · simp at h
  · split at h
    · simp at h
    · rename_i b st1 hb
      split at h
      · simp at h
      · rename_i cs codes st2 hh
        split at h
        · simp only [Option.some.injEq, Prod.mk.injEq] at h
          obtain ⟨rfl, rfl⟩ := h
          have a := lowerList_flags cfg hn body { ctx with inBlock := true, inLoop := false } _ b st1 hb
          obtain ⟨c, hcs, hlen⟩ := lowerHandlers_flags cfg hn { ctx with inBlock := true, inLoop := false } hs st1 cs codes st2 hh
          refine ⟨_, b, codes, by rw [hcs], hlen, ?_, ?_, rfl⟩
          · simp only [FlagsExact] at a c
            simp [c.1, a.1]
          · simp only [FlagsExact] at a c
            simp [c.2, a.2]
        · simp at h

end Scenic.Interrupts
