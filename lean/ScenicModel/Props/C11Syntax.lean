import ScenicModel.Model.LTLSyntax
import ScenicModel.Gen.LTLGram
/-!
# C11 — syntax side: the precedence chain of the temporal operators and the documented examples

`Gen.LTLGram.gram` is re-extracted from `scenic.gram` on every run, `syntaxMap` from `compiler.py` / `veneer.py` /
`syntax/ast.py`, `docExamples` from the reference manual.  Everything here is decided by the kernel on that data.
The reference has no precedence table; `precedenceFacts` spells out the chain the property was written against
(tightest first: `not`, `and`, `or`, `implies`, the prefix operators `next`/`eventually`/`always` — which extend
as far to the right as possible —, `until`; `implies` and `until` do not associate), one fact per adjacent pair.
-/
namespace Scenic.C11.Syntax
open Scenic.LTL.Syntax Scenic.Gen.LTLGram

/-- the extracted rules are the chain the facts below speak about (the look-ahead set, which contains
    `implies` since the repair of `(always A) implies B`, may only grow) -/
theorem gen_gram_core :
    gram.prefixOps = canonical.prefixOps ∧ gram.impliesRhsPrefix = true ∧ gram.orOperandPrefix = true ∧
      gram.andOperandPrefix = true ∧ gram.notOperandPrefix = true ∧
      (∀ t ∈ canonical.groupFollow, t ∈ gram.groupFollow) := by decide

/-- every syntax node becomes the proposition class of the same operator, operands in source order -/
theorem gen_syntax_map_canonical :
    syntaxMap = [("Always", "Always", [0]), ("Eventually", "Eventually", [0]), ("Next", "Next", [0]),
      ("UntilOp", "Until", [0, 1]), ("ImpliesOp", "Implies", [0, 1]), ("Or", "Or", []), ("And", "And", []),
      ("Not", "Not", [0])] := by decide

/-- the precedence chain, one fact per adjacent pair of levels (`none` = not admitted by the grammar) -/
def precedenceFacts : List (List String × Option (List String)) :=
  [ (["not", "A", "and", "B"], some (["And", "2", "Not", "Atom", "0", "Atom", "1"])),
    (["A", "and", "B", "or", "C"], some (["Or", "2", "And", "2", "Atom", "0", "Atom", "1", "Atom", "2"])),
    (["A", "or", "B", "and", "C"], some (["Or", "2", "Atom", "0", "And", "2", "Atom", "1", "Atom", "2"])),
    (["A", "or", "B", "implies", "C"], some (["Implies", "Or", "2", "Atom", "0", "Atom", "1", "Atom", "2"])),
    (["A", "implies", "B", "or", "C"], some (["Implies", "Atom", "0", "Or", "2", "Atom", "1", "Atom", "2"])),
    (["always", "A", "implies", "B"], some (["Always", "Implies", "Atom", "0", "Atom", "1"])),
    (["A", "implies", "always", "B"], some (["Implies", "Atom", "0", "Always", "Atom", "1"])),
    (["always", "A", "or", "B"], some (["Always", "Or", "2", "Atom", "0", "Atom", "1"])),
    (["A", "or", "always", "B", "or", "C"], some (["Or", "2", "Atom", "0", "Always", "Or", "2", "Atom", "1", "Atom", "2"])),
    (["A", "and", "next", "B", "and", "C"], some (["And", "2", "Atom", "0", "Next", "And", "2", "Atom", "1", "Atom", "2"])),
    (["not", "eventually", "A", "and", "B"], some (["Not", "Eventually", "And", "2", "Atom", "0", "Atom", "1"])),
    (["always", "A", "until", "B"], some (["Until", "Always", "Atom", "0", "Atom", "1"])),
    (["A", "until", "always", "B"], some (["Until", "Atom", "0", "Always", "Atom", "1"])),
    (["A", "implies", "B", "until", "C"], some (["Until", "Implies", "Atom", "0", "Atom", "1", "Atom", "2"])),
    (["A", "until", "B", "implies", "C"], some (["Until", "Atom", "0", "Implies", "Atom", "1", "Atom", "2"])),
    (["A", "until", "B", "or", "C"], some (["Until", "Atom", "0", "Or", "2", "Atom", "1", "Atom", "2"])),
    (["next", "next", "A"], some (["Next", "Next", "Atom", "0"])),
    (["not", "not", "A"], some (["Not", "Not", "Atom", "0"])),
    (["A", "and", "B", "and", "C"], some (["And", "3", "Atom", "0", "Atom", "1", "Atom", "2"])),
    (["(", "A", "and", "B", ")", "and", "C"], some (["And", "2", "And", "2", "Atom", "0", "Atom", "1", "Atom", "2"])),
    (["(", "A", "until", "B", ")", "until", "C"], some (["Until", "Until", "Atom", "0", "Atom", "1", "Atom", "2"])),
    (["A", "until", "(", "B", "until", "C", ")"], some (["Until", "Atom", "0", "Until", "Atom", "1", "Atom", "2"])),
    (["(", "always", "A", ")", "and", "B"], some (["And", "2", "Always", "Atom", "0", "Atom", "1"])),
    (["(", "A", "or", "B", ")", "implies", "C"], some (["Implies", "Or", "2", "Atom", "0", "Atom", "1", "Atom", "2"])),
    (["(", "always", "A", ")", "implies", "B"], some (["Implies", "Always", "Atom", "0", "Atom", "1"])),
    (["(", "A", "until", "B", ")", "implies", "next", "C"], some (["Implies", "Until", "Atom", "0", "Atom", "1", "Next", "Atom", "2"])),
    (["A", "until", "B", "until", "C"], none),
    (["A", "implies", "B", "implies", "C"], none),
    (["always"], some (["Atom", "?"])),
    (["A", "always", "B"], none) ]

theorem precedence_chain : ∀ e ∈ precedenceFacts, parse gram e.1 = e.2 := by decide

example : precedenceFacts.length = 30 := rfl

/-- every worked example of the reference parses to the reading the text states (among them
    `(always A) implies B`, which needs `implies` in the look-ahead set that closes a parenthesised temporal
    group) -/
theorem doc_examples : ∀ e ∈ docExamples, parse gram e.1 = some e.2 := by decide

example : (["(", "always", "A", ")", "implies", "B"], ["Implies", "Always", "Atom", "0", "Atom", "1"]) ∈ docExamples := by
  decide

/-- the look-ahead set matters: without `implies` in it the documented example is a syntax error, with the
    canonical configuration every fact of the chain and every documented example holds -/
theorem group_lookahead_needed :
    parse { canonical with groupFollow := ["until", "or", "and", ")", ";", "<nl>"] }
        (["(", "always", "A", ")", "implies", "B"]) = none ∧
      (∀ e ∈ precedenceFacts, parse canonical e.1 = e.2) ∧ (∀ e ∈ docExamples, parse canonical e.1 = some e.2) := by
  decide

end Scenic.C11.Syntax
